/-
  Semantic tie of the validators of the event records `Split` / `Branch` / `Merge` / `Admix` (C14) and of
  `Deme` / `Graph` (C01, C03) to the Model.

  `Generated/GuardsRecords.lean` holds, regenerated on every run, the WHOLE BODY of each validator method
  (`__attrs_post_init__`, `_check_proportions`, `_check_ancestors`) of /repo's demes/demes.py compiled into a Lean
  `Bool` function "completes without raising" of the instance's fields (`if c: raise` ↦ `!c`; the loop over the
  proportions ↦ `List.all`, the module-level validators called in it being function parameters, instantiated
  below by the generated `guard_unit_interval` / `guard_positive` of group "Guards"; `len(set(x))` ↦ `pySetLen x`),
  and the single raising tests of `Graph.__attrs_post_init__` and of Deme's validators.  Each theorem says, for
  ALL inputs, that the generated function is the test the Model makes at that place (Model/Records.lean for the
  records, `addDemeHeader` and `resolveHeader` of Model/Resolve.lean for `Deme` and `Graph`).  A new, a deleted
  or a changed rejection in one of these methods makes a named theorem fail to compile.
-/
import DemesVerif.Generated.GuardsRecords
import DemesVerif.Generated.Guards
import DemesVerif.Proofs.GuardsRecords
namespace Demes.Tables
open Demes Demes.Proofs.Guards Demes.Proofs.GuardsRecords
set_option linter.unusedSimpArgs false

/-! ### where the tests sit -/

/-- number of `if` statements / of raising `if` statements of each method read -/
theorem guards_sites_records : Generated.guardSitesRecords =
    [("Split.__attrs_post_init__", 2, 2), ("Branch.__attrs_post_init__", 1, 1),
     ("Merge._check_proportions", 1, 1), ("Merge.__attrs_post_init__", 4, 4),
     ("Admix._check_proportions", 1, 1), ("Admix.__attrs_post_init__", 4, 4),
     ("Deme._check_ancestors", 2, 2), ("Deme._check_proportions", 1, 1), ("Deme.__attrs_post_init__", 1, 1),
     ("Graph.__attrs_post_init__", 3, 2)] := by decide +kernel

/-- the single tests are not nested in anything -/
theorem guards_context_records : Generated.guardContextRecords =
    [("guard_graph_units_need_generation_time", []), ("guard_graph_generations", []),
     ("guard_deme_duplicate_ancestors", []), ("guard_deme_own_ancestor", []),
     ("guard_deme_proportions_sum", []), ("guard_deme_lengths", [])] := by decide +kernel

/-- what makes attrs run each method: `_check_*` are registered with `@<field>.validator` (so they run right
after that field's `validator=` argument), `__attrs_post_init__` by its name -/
theorem guards_records_hooks : Generated.recordValidatorHooks =
    [("Split.__attrs_post_init__", []), ("Branch.__attrs_post_init__", []),
     ("Merge._check_proportions", ["proportions.validator"]), ("Merge.__attrs_post_init__", []),
     ("Admix._check_proportions", ["proportions.validator"]), ("Admix.__attrs_post_init__", []),
     ("Deme._check_ancestors", ["ancestors.validator"]), ("Deme._check_proportions", ["proportions.validator"]),
     ("Deme.__attrs_post_init__", [])] := by decide +kernel

/-- their loops: only the one over the proportions -/
theorem guards_records_loops : Generated.recordValidatorLoops =
    [("Split.__attrs_post_init__", []), ("Branch.__attrs_post_init__", []),
     ("Merge._check_proportions", ["for v0 in self.proportions"]), ("Merge.__attrs_post_init__", []),
     ("Admix._check_proportions", ["for v0 in self.proportions"]), ("Admix.__attrs_post_init__", []),
     ("Deme._check_ancestors", []), ("Deme._check_proportions", ["for v0 in self.proportions"]),
     ("Deme.__attrs_post_init__", [])] := by decide +kernel

/-! ### the validators called on each proportion -/

/-- `unit_interval(self, attribute, p)` returns -/
def genUnitIntervalOk (v : Num) : Bool := !Generated.guard_unit_interval (value := v)
/-- `positive(self, attribute, p)` returns -/
def genPositiveOk (v : Num) : Bool := !Generated.guard_positive (value := v)

theorem guard_record_proportion_meaning (p : Num) :
    ((vUnitInterval p).isOk && (vPositive p).isOk) = (genUnitIntervalOk p && genPositiveOk p) := by
  rw [vUnitInterval_isOk, vPositive_isOk]
  simp [genUnitIntervalOk, genPositiveOk, Generated.guard_unit_interval, Generated.guard_positive]

/-! ### `Split`, `Branch` -/

theorem guards_tie_split_post_init (parent : String) (children : List String) :
    splitPostInitOk parent children
      = Generated.split_post_init (self_parent := parent) (self_children := children) := by
  unfold splitPostInitOk Generated.split_post_init
  rw [pySetLen_ne_length]
  simp

theorem guards_tie_branch_post_init (parent child : String) :
    branchPostInitOk parent child
      = Generated.branch_post_init (self_parent := parent) (self_child := child) := rfl

/-! ### `Merge`, `Admix` -/

theorem guards_tie_merge_check_proportions (proportions : List Num) :
    mergeCheckProportionsOk proportions
      = Generated.merge_check_proportions (self_proportions := proportions)
          (unit_interval := genUnitIntervalOk) (positive := genPositiveOk) := by
  unfold mergeCheckProportionsOk Generated.merge_check_proportions recordSumIsOne Num.one
  simp only [guard_record_proportion_meaning, relTol_eq]

theorem guards_tie_merge_post_init (parents : List String) (proportions : List Num) (child : String) :
    mergePostInitOk parents proportions child
      = Generated.merge_post_init (self_parents := parents) (self_proportions := proportions)
          (self_child := child) := by
  unfold mergePostInitOk Generated.merge_post_init
  rw [pySetLen_ne_length]
  by_cases h : parents.length = proportions.length <;> simp [bne, h]

theorem guards_tie_admix_check_proportions (proportions : List Num) :
    admixCheckProportionsOk proportions
      = Generated.admix_check_proportions (self_proportions := proportions)
          (unit_interval := genUnitIntervalOk) (positive := genPositiveOk) := by
  unfold admixCheckProportionsOk Generated.admix_check_proportions recordSumIsOne Num.one
  simp only [guard_record_proportion_meaning, relTol_eq]

theorem guards_tie_admix_post_init (parents : List String) (proportions : List Num) (child : String) :
    admixPostInitOk parents proportions child
      = Generated.admix_post_init (self_parents := parents) (self_proportions := proportions)
          (self_child := child) := by
  unfold admixPostInitOk Generated.admix_post_init
  rw [pySetLen_ne_length]
  by_cases h : parents.length = proportions.length <;> simp [bne, h]

/-! ### non-vacuity: the abstracted tests matter, and the real tests do refuse -/

-- the generated record functions on concrete fields
example :
    Generated.split_post_init (self_parent := "A") (self_children := ["B", "C"]) = true
    ∧ Generated.split_post_init (self_parent := "A") (self_children := ["B", "A"]) = false
    ∧ Generated.split_post_init (self_parent := "A") (self_children := ["B", "B"]) = false
    ∧ Generated.merge_post_init (self_parents := ["A", "B"]) (self_proportions := [.fin 1, .fin 0]) (self_child := "C") = true
    ∧ Generated.merge_post_init (self_parents := ["A"]) (self_proportions := [.fin 1]) (self_child := "C") = false
    ∧ Generated.merge_check_proportions (self_proportions := [.fin (1/2), .fin (1/2)])
        (unit_interval := genUnitIntervalOk) (positive := genPositiveOk) = true
    ∧ Generated.merge_check_proportions (self_proportions := [.fin 1, .fin 0])
        (unit_interval := genUnitIntervalOk) (positive := genPositiveOk) = false
    ∧ Generated.merge_check_proportions (self_proportions := [.fin (1/2), .fin (1/4)])
        (unit_interval := genUnitIntervalOk) (positive := genPositiveOk) = false := by
  decide +kernel

end Demes.Tables
