/-
  C07 — sizes in `msSemG`: the updates of population `j` realise the segments of deme `j`.
-/
import DemesVerif.Proofs.ToMsGraphSem
set_option linter.unusedSimpArgs false
set_option linter.unusedVariables false
namespace Demes.Proofs.ToMs
open Demes Demes.Ms Demes.Spec Demes.Spec.C07 Demes.Proofs.RV
open Demes.Spec.MsSem

/-- the update (generation units) an option of the generator (generation time) amounts to -/
def updClean (N0 : Q) : Event Growth → Upd
  | .popSizeChange _ (.fin T) _ (.fin x) => ⟨T, some (x * N0), if 0 < T then some .zero else none⟩
  | .popGrowthRateChange _ (.fin T) _ a => ⟨T, none, some a⟩
  | _ => ⟨0, none, none⟩

theorem mul_div_cancel4 {N0 : Q} (hN : 0 < N0) (T : Q) : 4 * N0 * (T / (4 * N0)) = T := by
  have h4 : (4 * N0) ≠ 0 := by grind
  rw [Rat.mul_comm, Rat.div_mul_cancel h4]

theorem div_mul_cancelN {N0 : Q} (hN : 0 < N0) (x : Q) : x / N0 * N0 = x := by
  have h : N0 ≠ 0 := by grind
  exact Rat.div_mul_cancel h

theorem segGrowth_segOf {N0 : Q} {e : Epoch} (h : EpochOk e) : segGrowth N0 (segOf e) = some (growthOf N0 e) := by
  have hfn : (decide (e.sizeFunction = "constant") || decide (e.sizeFunction = "exponential")) = true := by
    rcases h.fn with h | h <;> simp [h]
  unfold segGrowth growthOf segOf
  simp only [hfn, if_true, szQ, Sz.ofQ, Option.bind_some]
  by_cases hs : e.endSize = e.startSize
  · simp [hs]
  · have hs' : ¬ e.startSize = e.endSize := fun h => hs h.symm
    cases hst : e.startTime with
    | inf => exact absurd (h.inf hst).symm hs
    | fin st => simp [hs, hs']

theorem mem_headEvs_upd {N0 : Q} {j : Int} {size : Q} {growth : Growth} {e : Epoch} {u : Upd}
    (h : u ∈ (headEvs N0 j size growth e).map (updClean N0)) : u.t = e.endTime := by
  obtain ⟨y, hy, rfl⟩ := List.mem_map.1 h
  simp only [headEvs, List.mem_append] at hy
  rcases hy with hy | hy
  · by_cases h1 : size = e.endSize
    · simp [h1] at hy
    · simp only [ne_eq, h1, not_false_eq_true, if_true, List.mem_singleton] at hy
      subst hy; rfl
  · split at hy
    · simp only [List.mem_singleton] at hy; subst hy; rfl
    · cases hy

theorem mem_sizeEvs_upd {N0 : Q} {j : Int} {size : Q} {growth : Growth} {es : List Epoch} {u : Upd}
    (h : u ∈ (sizeEvs N0 j size growth es).map (updClean N0)) : ∃ e ∈ es, u.t = e.endTime := by
  obtain ⟨y, hy, rfl⟩ := List.mem_map.1 h
  obtain ⟨e, he, h'⟩ := mem_sizeEvs _ _ _ hy
  exact ⟨e, he, by rcases h' with rfl | rfl <;> rfl⟩

/-- the ms rule on one epoch's updates -/
theorem foldl_headEvs_upd {N0 : Q} (hN : 0 < N0) (j : Int) (size : Q) (growth : Growth) {e : Epoch}
    (h0 : 0 ≤ e.endTime) (hinv : growth = .zero ∨ 0 < e.endTime) :
    ((headEvs N0 j size growth e).map (updClean N0)).foldl applyUpd (size, growth)
      = (e.endSize, nextG N0 size growth e) := by
  unfold headEvs nextG g1Of
  by_cases h1 : size = e.endSize
  · subst h1
    by_cases h2 : growth.eq (growthOf N0 e) = true
    · simp [h2]
    · simp [h2, updClean, applyUpd]
  · by_cases hp : 0 < e.endTime
    · by_cases h2 : Growth.zero.eq (growthOf N0 e) = true
      · simp [h1, h2, updClean, applyUpd, hp, div_mul_cancelN hN]
      · simp [h1, h2, updClean, applyUpd, hp, div_mul_cancelN hN]
    · have hz : growth = .zero := by
        rcases hinv with h | h
        · exact h
        · exact absurd h hp
      subst hz
      by_cases h2 : Growth.zero.eq (growthOf N0 e) = true
      · simp [h1, h2, updClean, applyUpd, hp, div_mul_cancelN hN]
      · simp [h1, h2, updClean, applyUpd, hp, div_mul_cancelN hN]

theorem segsMatch_sizeEvs {N0 : Q} (hN : 0 < N0) (j : Int) :
    ∀ (es : List Epoch) (size : Q) (growth : Growth) (pre : List Upd) (st : Q × Growth),
      (∀ e ∈ es, EpochOk e ∧ ETime.fin e.endTime < e.startTime) →
      es.Pairwise (fun a b => a.startTime ≤ ETime.fin b.endTime) →
      (growth = .zero ∨ ∀ e ∈ es, 0 < e.endTime) →
      (∀ u ∈ pre, ∀ e ∈ es, u.t ≤ e.endTime) →
      (∀ e ∈ es.head?, (pre.filter (fun u => u.t = e.endTime)).foldl applyUpd st = (size, growth)) →
      segsMatch N0 (pre ++ (sizeEvs N0 j size growth es).map (updClean N0)) st (es.map segOf) = true
  | [], _, _, _, _, _, _, _, _, _ => rfl
  | e :: es, size, growth, pre, st, hok, hpw, hinv, hpre, hst => by
    obtain ⟨heok, helt⟩ := hok e List.mem_cons_self
    have hpw' := List.pairwise_cons.1 hpw
    have hlater : ∀ e' ∈ es, e.endTime < e'.endTime := fun e' he' =>
      et_lt_of_lt_of_le helt (hpw'.1 e' he')
    rw [sizeEvs_cons, List.map_append, ← List.append_assoc, List.map_cons]
    have hfilter : (pre ++ (headEvs N0 j size growth e).map (updClean N0)
          ++ (sizeEvs N0 j e.startSize (nextG N0 size growth e) es).map (updClean N0)).filter (fun u => u.t = e.endTime)
        = pre.filter (fun u => u.t = e.endTime) ++ (headEvs N0 j size growth e).map (updClean N0) := by
      rw [List.filter_append, List.filter_append]
      have h2 : ((headEvs N0 j size growth e).map (updClean N0)).filter (fun u => u.t = e.endTime)
          = (headEvs N0 j size growth e).map (updClean N0) := by
        rw [List.filter_eq_self]
        intro u hu
        simp [mem_headEvs_upd hu]
      have h3 : ((sizeEvs N0 j e.startSize (nextG N0 size growth e) es).map (updClean N0)).filter
          (fun u => u.t = e.endTime) = [] := by
        rw [List.filter_eq_nil_iff]
        intro u hu
        obtain ⟨e', he', ht⟩ := mem_sizeEvs_upd hu
        have := hlater e' he'
        simp only [ht, decide_eq_true_eq]
        intro h; rw [h] at this; exact absurd this (Rat.lt_irrefl)
      rw [h2, h3, List.append_nil]
    have hinv' : growth = .zero ∨ 0 < e.endTime := by
      rcases hinv with h | h
      · exact Or.inl h
      · exact Or.inr (h e List.mem_cons_self)
    have hstate : ((pre ++ (headEvs N0 j size growth e).map (updClean N0)
          ++ (sizeEvs N0 j e.startSize (nextG N0 size growth e) es).map (updClean N0)).filter
            (fun u => u.t = (segOf e).t0)).foldl applyUpd st = (e.endSize, nextG N0 size growth e) := by
      show (List.filter (fun u => u.t = e.endTime) _).foldl applyUpd st = _
      rw [hfilter, List.foldl_append, hst e (by simp), foldl_headEvs_upd hN j size growth heok.endTime hinv']
    unfold segsMatch
    simp only [hstate, segGrowth_segOf heok]
    simp only [segOf, szQ, Sz.ofQ, Option.bind_some, if_true, beq_self_eq_true, nextG_eq, Bool.true_and,
      Bool.and_eq_true]
    refine ⟨?_, ?_⟩
    · -- nothing strictly inside the epoch
      simp only [List.all_eq_true, List.mem_append, Bool.not_eq_true', Bool.and_eq_false_iff, decide_eq_false_iff_not]
      intro u hu
      rcases hu with (hu | hu) | hu
      · have := hpre u hu e List.mem_cons_self
        left; exact decide_eq_false (by grind)
      · have := mem_headEvs_upd hu
        left; rw [this]; exact decide_eq_false Rat.lt_irrefl
      · obtain ⟨e', he', ht⟩ := mem_sizeEvs_upd hu
        right
        rw [ht]
        exact decide_eq_false (fun hlt => et_lt_irrefl' hlt (hpw'.1 e' he'))
    · -- the older epochs
      have := segsMatch_sizeEvs hN j es e.startSize (nextG N0 size growth e)
        (pre ++ (headEvs N0 j size growth e).map (updClean N0)) (e.startSize, nextG N0 size growth e)
        (fun e' he' => hok e' (List.mem_cons_of_mem _ he')) hpw'.2 ?_ ?_ ?_
      · exact this
      · right
        intro e' he'
        have := hlater e' he'
        have := heok.endTime
        grind
      · intro u hu e' he'
        rcases List.mem_append.1 hu with hu | hu
        · have := hpre u hu e List.mem_cons_self
          have := hlater e' he'
          grind
        · rw [mem_headEvs_upd hu]
          exact Rat.le_of_lt (hlater e' he')
      · intro e' he'
        have he'm : e' ∈ es := List.mem_of_mem_head? he'
        have hlt := hlater e' he'm
        have : (pre ++ (headEvs N0 j size growth e).map (updClean N0)).filter (fun u => u.t = e'.endTime) = [] := by
          rw [List.filter_eq_nil_iff]
          intro u hu
          simp only [decide_eq_true_eq]
          intro h
          rcases List.mem_append.1 hu with hu | hu
          · have := hpre u hu e List.mem_cons_self
            grind
          · rw [mem_headEvs_upd hu] at h
            grind
        rw [this]; rfl

end Demes.Proofs.ToMs
