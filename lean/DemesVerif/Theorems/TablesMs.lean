import DemesVerif.Generated.Ms
import DemesVerif.Model.Pinned
namespace Demes.Tables
open Demes

theorem tables_ms_parser : Generated.msParser = Pinned.msParser := by decide +kernel
theorem tables_ms_structure : Generated.msStructure = Pinned.msStructure := by decide +kernel
theorem tables_ms_event : Generated.msEvent = Pinned.msEvent := by decide +kernel
theorem tables_ms_growth : Generated.msGrowthRateChange = Pinned.msGrowthRateChange := by decide +kernel
theorem tables_ms_pop_growth : Generated.msPopulationGrowthRateChange = Pinned.msPopulationGrowthRateChange := by decide +kernel
theorem tables_ms_size : Generated.msSizeChange = Pinned.msSizeChange := by decide +kernel
theorem tables_ms_pop_size : Generated.msPopulationSizeChange = Pinned.msPopulationSizeChange := by decide +kernel
theorem tables_ms_mig_rate : Generated.msMigrationRateChange = Pinned.msMigrationRateChange := by decide +kernel
theorem tables_ms_mig_entry : Generated.msMigrationMatrixEntryChange = Pinned.msMigrationMatrixEntryChange := by decide +kernel
theorem tables_ms_mig_matrix : Generated.msMigrationMatrixChange = Pinned.msMigrationMatrixChange := by decide +kernel
theorem tables_ms_split : Generated.msSplit = Pinned.msSplit := by decide +kernel
theorem tables_ms_join : Generated.msJoin = Pinned.msJoin := by decide +kernel
theorem tables_ms_float_str : Generated.msFloatStr = Pinned.msFloatStr := by decide +kernel
theorem tables_cli_parse_flags : Generated.cliParseFlags = Pinned.cliParseFlags := by decide +kernel
theorem tables_cli_parse_tests : Generated.cliParseTests = Pinned.cliParseTests := by decide +kernel

end Demes.Tables
