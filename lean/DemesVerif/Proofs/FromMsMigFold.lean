/-
  C08, stage `build_migrations` — the whole event loop: the matrices `mm_list` / `mm_end_times`
  of the Builder and the snapshots of the ms interpreter describe the same migration rate
  function (off the diagonal; rate `M / 4N0`).
-/
import DemesVerif.Proofs.FromMsFold
namespace Demes.Proofs.FromMs
open Demes Demes.Ms Demes.Spec.MsSem Demes.Spec.C08
open Demes.Proofs.RV (bind_ok pure_ok)

/-- populations, sizes and migration matrices together -/
def Sim2 (N0 : Q) (T : Q) (s : BState) (σ : St) : Prop := SizeSim T s σ ∧ MigSim N0 T s σ

theorem applyParams_mm (time : Q) (s : BState) (g : GState) :
    (applyParams time s g).mmList = s.mmList ∧ (applyParams time s g).mmEndTimes = s.mmEndTimes := by
  unfold applyParams
  generalize g.params = ps
  induction ps generalizing s with
  | nil => exact ⟨rfl, rfl⟩
  | cons x ps ih =>
    rw [List.foldl_cons]
    obtain ⟨j, k, p⟩ := x
    dsimp only
    split
    · exact ih s
    · split
      · exact ih { s with demes := s.demes.modify j _ }
      · exact ih { s with pulses := _ }

theorem sim2_inv (N0 : Q) : SimInv N0 (Sim2 N0) where
  step := fun h hT hc hT' hm hs => ⟨stepEvent_sizeSim h.1 hT hc hT' hm hs, stepEvent_migSim h.1 h.2 hT hc hT' hm hs⟩
  mono := fun h hT => ⟨h.1.mono hT, MigSimC.mono h.2 hT⟩
  frameM := fun time g h => by
    obtain ⟨e1, e2, e3⟩ := applyParams_epochs time _ g
    obtain ⟨m1, m2⟩ := applyParams_mm time _ g
    refine ⟨h.1.of_epochs e1 e2 e3 rfl, ?_⟩
    unfold MigSim
    rw [e2, m1, m2]
    exact h.2
  frameS := fun h hp hm hs => by
    refine ⟨h.1.congr rfl rfl rfl hp, ?_⟩
    unfold MigSim
    rw [hp, hm, hs]
    exact h.2

/-! ## the initial matrices -/

theorem numMulBool_fin (x : Q) (b : Bool) : numMulBool (.fin x) b = .fin (if b then x else 0) := by
  cases b <;> rfl

theorem initial_migSim (args : Args) (pr : Parsed) (N0 : Q) (h : ArgsAgree args pr) :
    MigSim N0 0 (initState args N0) (initSt pr N0) := by
  have hn : (initPop args).1 = pr.npop := by rw [initPop_fst]; exact h.npop
  -- the Builder's initial matrix, entry by entry
  have hm0 : Dim pr.npop (initPop args).2 ∧ ∀ j k, j ≠ k →
      scaleRate N0 (mmGet (initPop args).2 j k)
        = Num.fin (matGet (tab pr.npop (fun i j => if i = j then 0 else pr.islandRate / ((pr.npop : Q) - 1) / (4 * N0))) j k) := by
    have hnp := h.npop
    have hr := h.rate
    unfold initPop
    cases hst : args.structure_ with
    | none =>
      rw [hst] at hnp hr
      dsimp only at hnp hr ⊢
      rw [← hnp]
      refine ⟨⟨rfl, fun row hrow => by simp at hrow; rw [hrow]; rfl⟩, ?_⟩
      intro j k hjk
      rw [matGet_tab]
      have hout : ¬ (j < 1 ∧ k < 1) := by omega
      rw [if_neg hout, mmGet_out (n := 1) ⟨rfl, fun row hrow => by simp at hrow; rw [hrow]; rfl⟩ j k hout, scaleRate_zero]
    | some st =>
      rw [hst] at hnp hr
      dsimp only at hnp hr ⊢
      by_cases hgt : st.npop.toNat > 1
      · rw [if_pos hgt]
        dsimp only
        rw [hnp, hr]
        have : (List.range pr.npop).map (fun k => (List.range pr.npop).map (fun j =>
            numMulBool (numDivQ (Num.fin pr.islandRate) ((pr.npop : Q) - 1)) (decide (j ≠ k))))
            = tabM pr.npop (fun k j => numMulBool (numDivQ (Num.fin pr.islandRate) ((pr.npop : Q) - 1)) (decide (j ≠ k))) := rfl
        rw [this]
        refine ⟨dim_tabM _ _, ?_⟩
        intro j k hjk
        rw [mmGet_tabM, matGet_tab]
        by_cases hin : j < pr.npop ∧ k < pr.npop
        · rw [if_pos hin, if_pos hin, if_neg hjk]
          have hd : decide (k ≠ j) = true := by simpa using fun e => hjk e.symm
          rw [hd]
          rfl
        · rw [if_neg hin, if_neg hin, scaleRate_zero]
      · rw [if_neg hgt]
        dsimp only
        have h1 : pr.npop = 1 := by
          have := h.npos
          omega
        rw [h1]
        refine ⟨⟨rfl, fun row hrow => by simp at hrow; rw [hrow]; rfl⟩, ?_⟩
        intro j k hjk
        rw [matGet_tab]
        have hout : ¬ (j < 1 ∧ k < 1) := by omega
        rw [if_neg hout, mmGet_out (n := 1) ⟨rfl, fun row hrow => by simp at hrow; rw [hrow]; rfl⟩ j k hout, scaleRate_zero]
  unfold MigSim
  show MigSimC N0 0 (initPop args).1 [(initPop args).2] [0] (List.replicate pr.npop _).length
    (tab pr.npop _) [(0, tab pr.npop _)]
  rw [hn, List.length_replicate]
  refine ⟨rfl, by simp, ?_, dimS_tab _ _, rfl, ?_, ?_, ⟨0, rfl⟩, ?_, ?_⟩
  · intro m hm
    simp only [List.mem_singleton] at hm
    rw [hm]
    exact hm0.1
  · intro e he
    cases he
    exact Rat.le_refl
  · intro x hx
    simp only [List.mem_singleton] at hx
    rw [hx]
  · intro j k hjk
    exact hm0.2 j k hjk
  · intro j k t hjk
    unfold mmRateAt snapRateAt
    simp only [List.reverse_singleton, List.find?_cons, List.find?_nil]
    by_cases ht : (0 : Q) ≤ t
    · simp only [ht, if_true, decide_true, Option.map_some]
      rw [hm0.2 j k hjk]
    · simp only [ht, if_false, decide_false]
      rfl

/-- the event loop keeps populations, sizes and migration matrices in correspondence -/
theorem buildState_sim2 {args : Args} {pr : Parsed} {N0 : Q} {s : BState} {σ : St}
    (ha : ArgsAgree args pr) (hm : buildState args N0 = .ok s) (hs : runState pr N0 = .ok σ) :
    ∃ T, Sim2 N0 T s σ :=
  buildState_inv (sim2_inv N0) ha (fun _ => ⟨initial_sizeSim args pr N0 ha, initial_migSim args pr N0 ha⟩) hm hs

/-- **`build_migrations` (matrix history).**  At the end of the event loop, for every ordered
pair of different populations and every time, the rate in the Builder's matrix in force at that
time (`mm_list`, `mm_end_times`; divided by `4 N0`) is the rate in the interpreter's last
snapshot at or before that time; the matrices have as many rows and columns as there are
populations.  In particular entries that involve a joined population are zero on both sides
from the join on (later `-eM` / `-ema` do not revive them). -/
theorem build_migrations {args : Args} {pr : Parsed} {N0 : Q} {s : BState} {σ : St}
    (ha : ArgsAgree args pr) (hm : buildState args N0 = .ok s) (hs : runState pr N0 = .ok σ) :
    s.mmList.length = s.mmEndTimes.length ∧ (∀ m ∈ s.mmList, Dim s.numDemes m) ∧ s.numDemes = σ.pops.length
    ∧ ∀ j k t, j ≠ k →
        (mmRateAt s.mmList s.mmEndTimes j k t).map (scaleRate N0) = (snapRateAt σ.snaps j k t).map Num.fin := by
  obtain ⟨T, _, h⟩ := buildState_sim2 ha hm hs
  exact ⟨h.len, h.dimM, h.nn, h.hist⟩

end Demes.Proofs.FromMs
