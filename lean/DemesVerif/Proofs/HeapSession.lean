/-
  Heap abstraction: histories on one Builder — resolve / caller code / asdict, in any order.
  The caller's part of the heap and the part of every graph handed out are separate closed
  regions; each event touches only its own side.
-/
import DemesVerif.Proofs.HeapResolve
namespace Demes.Proofs.Heap
open Demes Demes.Heap Demes.Spec.C18

/-- the part of the heap of one graph handed out -/
def Region (ρ : Returned) (a : Addr) : Prop := ρ.lo ≤ a ∧ a < ρ.hi

theorem callerOwns_of_ge (σ : Session) (hb : ∀ ρ ∈ σ.returned, ρ.hi ≤ σ.store.length) (a : Addr)
    (ha : σ.store.length ≤ a) : σ.callerOwns a :=
  fun ρ hρ h => Nat.lt_irrefl _ (Nat.lt_of_lt_of_le h.2 (Nat.le_trans (hb ρ hρ) ha))

/-! ### caller code -/

theorem mutate_ok (σ : Session) (h : SessionOK σ) (p : List Instr) :
    SessionOK (Event.step σ (.mutate p)) ∧
    (∀ ρ ∈ σ.returned, ∀ a, Region ρ a → (Event.step σ (.mutate p)).store[a]? = σ.store[a]?) := by
  have hle := run_length_le p ⟨σ.store, σ.caller⟩
  obtain ⟨ho, hsame⟩ := run_owned σ.callerOwns p ⟨σ.store, σ.caller⟩
    (fun a ha _ => callerOwns_of_ge σ h.regionBound a ha) ⟨h.callerRegs, h.callerClosed⟩
  have hwf := run_wf p ⟨σ.store, σ.caller⟩ h.wf
  have hreg : ∀ ρ ∈ σ.returned, ∀ a, Region ρ a →
      (run ⟨σ.store, σ.caller⟩ p).store[a]? = σ.store[a]? := by
    intro ρ hρ a ha
    exact hsame a (fun hown => hown ρ hρ ha) (Nat.lt_of_lt_of_le ha.2 (h.regionBound ρ hρ))
  refine ⟨⟨hwf, ho.regs, ho.closed, ?_, ?_, h.regionRoots⟩, hreg⟩
  · intro ρ hρ; exact Nat.le_trans (h.regionBound ρ hρ) hle
  · intro ρ hρ a c ha hc x hx
    have : σ.store[a]? = some c := by rw [← hreg ρ hρ a ha]; exact hc
    exact h.regionClosed ρ hρ a c ha this x hx

/-! ### `Graph.fromdict` / `Builder.resolve` -/

theorem resolve_ok (σ : Session) (h : SessionOK σ) (i n : Nat) (internal : List Instr) :
    SessionOK (Event.step σ (.resolve i n internal)) ∧
    (∀ a, a < σ.store.length → (Event.step σ (.resolve i n internal)).store[a]? = σ.store[a]?) := by
  simp only [Event.step]
  cases hc : copy n σ.store (regAt σ.caller i) with
  | none => exact ⟨h, fun _ _ => rfl⟩
  | some sr =>
    obtain ⟨s', r'⟩ := sr
    simp only
    have hcells := fromdict_cells n σ.store _ s' r' hc internal
    have hle1 := copy_length_le n σ.store _ s' r' hc
    have hle2 := run_length_le internal ⟨s', [r']⟩
    have hle : σ.store.length ≤ (run ⟨s', [r']⟩ internal).store.length := Nat.le_trans hle1 hle2
    obtain ⟨ho, _⟩ := run_owned (σ.store.length ≤ ·) internal ⟨s', [r']⟩
      (fun b hb _ => Nat.le_trans hle1 hb) (copy_owned n σ.store _ s' r' hc)
    have hwf0 := copy_wf n σ.store σ.caller h.wf _ s' r' hc
    have hwf1 : WF (run ⟨s', [r']⟩ internal).store (run ⟨s', [r']⟩ internal).regs :=
      run_wf internal ⟨s', [r']⟩ ⟨fun x hx => hwf0.1 x (by simp at hx; simp [hx]), hwf0.2⟩
    -- the caller's references stay below the old allocation pointer
    have hcaller_lt : ∀ r ∈ σ.caller, RefIn (· < σ.store.length) r := h.wf.1
    refine ⟨⟨⟨?_, hwf1.2⟩, ?_, ?_, ?_, ?_, ?_⟩, hcells⟩
    · intro r hr
      exact RefIn.mono (fun a ha => Nat.lt_of_lt_of_le ha hle) r (hcaller_lt r hr)
    · -- callerRegs
      intro r hr
      cases r with
      | atom v => exact trivial
      | addr a =>
        have h1 : σ.callerOwns a := h.callerRegs _ hr
        have h2 : a < σ.store.length := hcaller_lt _ hr
        intro ρ hρ
        rcases List.mem_cons.mp hρ with rfl | hρ
        · exact fun hreg => Nat.lt_irrefl _ (Nat.lt_of_lt_of_le h2 hreg.1)
        · exact h1 ρ hρ
    · -- callerClosed
      intro a c ha hca x hx
      have hlt2 := lt_length_of_getElem? _ a c hca
      have hlt : a < σ.store.length := by
        rcases Nat.lt_or_ge a σ.store.length with h' | h'
        · exact h'
        · exact False.elim (ha _ List.mem_cons_self ⟨h', hlt2⟩)
      have hold : σ.store[a]? = some c := by rw [← hcells a hlt]; exact hca
      have hown : σ.callerOwns a := fun ρ hρ => ha ρ (by simp [hρ])
      have h1 := h.callerClosed a c hown hold x hx
      have h2 := h.wf.2 a c hlt hold x hx
      cases x with
      | atom v => exact trivial
      | addr b =>
        intro ρ hρ
        rcases List.mem_cons.mp hρ with rfl | hρ
        · exact fun hreg => Nat.lt_irrefl _ (Nat.lt_of_lt_of_le (show b < σ.store.length from h2) hreg.1)
        · exact (show σ.callerOwns b from h1) ρ hρ
    · -- regionBound
      intro ρ hρ
      rcases List.mem_cons.mp hρ with rfl | hρ
      · exact Nat.le_refl _
      · exact Nat.le_trans (h.regionBound ρ hρ) hle
    · -- regionClosed
      intro ρ hρ a c ha hca x hx
      rcases List.mem_cons.mp hρ with rfl | hρ
      · have h1 := ho.closed a c ha.1 hca x hx
        have h2 := hwf1.2 a c ha.2 hca x hx
        cases x with
        | atom v => exact trivial
        | addr b => exact ⟨h1, h2⟩
      · have hlt : a < σ.store.length := Nat.lt_of_lt_of_le ha.2 (h.regionBound ρ hρ)
        have hold : σ.store[a]? = some c := by rw [← hcells a hlt]; exact hca
        exact h.regionClosed ρ hρ a c ha hold x hx
    · -- regionRoots
      intro ρ hρ x hx
      rcases List.mem_cons.mp hρ with rfl | hρ
      · have h1 := ho.regs x hx
        have h2 := hwf1.1 x hx
        cases x with
        | atom v => exact trivial
        | addr b => exact ⟨h1, h2⟩
      · exact h.regionRoots ρ hρ x hx

/-! ### `Graph.asdict` -/

theorem asdict_ok (σ : Session) (h : SessionOK σ) (j i n : Nat) :
    SessionOK (Event.step σ (.asdict j i n)) ∧
    (∀ a, a < σ.store.length → (Event.step σ (.asdict j i n)).store[a]? = σ.store[a]?) := by
  simp only [Event.step]
  cases hj : σ.returned[j]? with
  | none => exact ⟨h, fun _ _ => rfl⟩
  | some ρ0 =>
    simp only
    cases hc : copy n σ.store (regAt ρ0.roots i) with
    | none => exact ⟨h, fun _ _ => rfl⟩
    | some sr =>
      obtain ⟨s', d⟩ := sr
      simp only
      obtain ⟨t, ht⟩ := copy_ext n σ.store _ s' d hc
      have hle := copy_length_le n σ.store _ s' d hc
      obtain ⟨hd, hnew⟩ := copy_fresh_closed n σ.store _ s' d hc
      have hwf0 := copy_wf n σ.store σ.caller h.wf _ s' d hc
      have hcells : ∀ a, a < σ.store.length → s'[a]? = σ.store[a]? := by
        intro a ha; rw [ht, List.getElem?_append_left ha]
      have hge : ∀ a, σ.store.length ≤ a → σ.callerOwns a := callerOwns_of_ge σ h.regionBound
      refine ⟨⟨⟨?_, hwf0.2⟩, ?_, ?_, ?_, ?_, h.regionRoots⟩, hcells⟩
      · intro r hr
        exact hwf0.1 r (by
          rcases List.mem_append.mp hr with hr | hr
          · simp [hr]
          · simp at hr; simp [hr])
      · intro r hr
        rcases List.mem_append.mp hr with hr | hr
        · exact h.callerRegs r hr
        · simp only [List.mem_singleton] at hr; subst hr
          exact RefIn.mono (fun a ha => hge a ha.1) r hd
      · intro a c ha hca x hx
        rcases Nat.lt_or_ge a σ.store.length with hlt | hge'
        · have hold : σ.store[a]? = some c := by rw [← hcells a hlt]; exact hca
          exact h.callerClosed a c ha hold x hx
        · exact RefIn.mono (fun b hb => hge b hb.1) x (hnew a c hge' hca x hx)
      · intro ρ hρ; exact Nat.le_trans (h.regionBound ρ hρ) hle
      · intro ρ hρ a c ha hca x hx
        have hlt : a < σ.store.length := Nat.lt_of_lt_of_le ha.2 (h.regionBound ρ hρ)
        have hold : σ.store[a]? = some c := by rw [← hcells a hlt]; exact hca
        exact h.regionClosed ρ hρ a c ha hold x hx

/-! ### any event, any history -/

theorem returned_mono (σ : Session) (e : Event) : ∀ ρ ∈ σ.returned, ρ ∈ (e.step σ).returned := by
  intro ρ hρ
  cases e with
  | mutate p => exact hρ
  | resolve i n internal =>
    simp only [Event.step]
    split
    · exact hρ
    · simp [hρ]
  | asdict j i n =>
    simp only [Event.step]
    split
    · exact hρ
    · split
      · exact hρ
      · exact hρ

theorem step_ok (σ : Session) (h : SessionOK σ) (e : Event) :
    SessionOK (e.step σ) ∧
    (∀ ρ ∈ σ.returned, ∀ a, Region ρ a → (e.step σ).store[a]? = σ.store[a]?) := by
  cases e with
  | mutate p => exact mutate_ok σ h p
  | resolve i n internal =>
    obtain ⟨h1, h2⟩ := resolve_ok σ h i n internal
    exact ⟨h1, fun ρ hρ a ha => h2 a (Nat.lt_of_lt_of_le ha.2 (h.regionBound ρ hρ))⟩
  | asdict j i n =>
    obtain ⟨h1, h2⟩ := asdict_ok σ h j i n
    exact ⟨h1, fun ρ hρ a ha => h2 a (Nat.lt_of_lt_of_le ha.2 (h.regionBound ρ hρ))⟩

theorem runEvents_ok : ∀ (es : List Event) (σ : Session), SessionOK σ →
    SessionOK (runEvents σ es) ∧
    (∀ ρ ∈ σ.returned, ρ ∈ (runEvents σ es).returned ∧
      ∀ a, Region ρ a → (runEvents σ es).store[a]? = σ.store[a]?)
  | [], σ, h => ⟨h, fun ρ hρ => ⟨hρ, fun _ _ => rfl⟩⟩
  | e :: es, σ, h => by
    obtain ⟨h1, hs1⟩ := step_ok σ h e
    obtain ⟨h2, hs2⟩ := runEvents_ok es (e.step σ) h1
    refine ⟨h2, fun ρ hρ => ?_⟩
    obtain ⟨hmem, hs⟩ := hs2 ρ (returned_mono σ e ρ hρ)
    refine ⟨hmem, fun a ha => ?_⟩
    show (runEvents (e.step σ) es).store[a]? = σ.store[a]?
    rw [hs a ha, hs1 ρ hρ a ha]

/-- a graph handed out denotes the same documents after any further history -/
theorem graph_stable (σ : Session) (h : SessionOK σ) (es : List Event) (ρ : Returned)
    (hρ : ρ ∈ σ.returned) (m : Nat) (root : Ref) (hroot : root ∈ ρ.roots) :
    unfold m (runEvents σ es).store root = unfold m σ.store root :=
  fold_sameOn _ _ (Region ρ) σ.store _ (h.regionClosed ρ hρ)
    ((runEvents_ok es σ h).2 ρ hρ).2 m root (h.regionRoots ρ hρ root hroot)

/-- resolving / taking the dictionary form changes no existing object, so every document the
caller (or an earlier graph) holds is unchanged -/
theorem pure_event_unfold (σ : Session) (h : SessionOK σ) (e : Event)
    (he : ∀ p, e ≠ .mutate p) (m : Nat) (root : Ref) (hroot : root ∈ σ.caller) :
    unfold m (e.step σ).store root = unfold m σ.store root := by
  have hcells : ∀ a, a < σ.store.length → (e.step σ).store[a]? = σ.store[a]? := by
    cases e with
    | mutate p => exact absurd rfl (he p)
    | resolve i n internal => exact (resolve_ok σ h i n internal).2
    | asdict j i n => exact (asdict_ok σ h j i n).2
  exact unfold_old σ.store _ σ.caller h.wf hcells m root hroot

/-- the start of a session: a heap without dangling references, nothing handed out yet -/
theorem session_init (s : Store) (roots : List Ref) (hwf : WF s roots) : SessionOK ⟨s, roots, []⟩ := by
  have hown : ∀ a, Session.callerOwns ⟨s, roots, []⟩ a := fun a ρ hρ => by cases hρ
  have hin : ∀ r : Ref, RefIn (Session.callerOwns ⟨s, roots, []⟩) r := by
    intro r; cases r
    · exact trivial
    · exact hown _
  exact ⟨hwf, fun r _ => hin r, fun a c _ _ x _ => hin x,
    fun ρ hρ => (by cases hρ), fun ρ hρ => (by cases hρ), fun ρ hρ => (by cases hρ)⟩

end Demes.Proofs.Heap
