/-
  C03 — documents that break any specification rule are rejected, never resolved; acceptance and
  rejection agree in both directions with an independent validator written from the
  specification.

  Model: `Demes.resolve` (`Graph.fromdict`).  Spec (`DemesVerif/Spec/C03.lean`, none of it calls
  `resolve` or any of its parts):

  * `schemaOK d`  the *shape* of the document: mappings and lists where the specification wants
    them, only known fields at every level, `time_units` and `demes` present, every entry of
    every `defaults` section (top level: `deme`, `migration`, `pulse`, `epoch`; deme level:
    `epoch`) valid by the rule of the field it is a default for — whether it is ever used or not;
  * `fill d`  the fully-resolved graph by the fill-in rules of `Spec/C02.lean` as a function:
    header defaults, per deme `specStartTime` / `specAncestors` / `specProportions` and
    `specEpochFields` with the precedence explicit > deme level > top level, symmetric
    migrations expanded by `specSymmetricExpansion`, omitted migration bounds = the pair's
    coexistence interval, pulses stably sorted oldest first; `none` when a required field is
    missing or a value is not of the kind its field wants (a finite number, a time, a name, …);
  * `accepts d := schemaOK d ∧ ∃ g, fill d = some g ∧ validGraph g`  — `validGraph` being the
    validator of the fully-resolved data model of C01 (V0–V13: names, ancestry and start times
    inside the ancestors' lifetimes, proportions summing to one, descending epochs, a constant
    infinite epoch, migrations and pulses inside coexistence intervals with the open/closed end
    rules, no overlapping migrations, ingress ≤ 1, pulse proportions ≤ 1, header).

  Conventions of the real library that the Spec spells out (and the theorems thereby confirm):
  a `bool` is a number (`true` = 1); an explicit `null` is "absent" for the fields the library
  reads with `pop(k, None)` (`effectiveNN`) and a value of the wrong kind for the others.

  The one hypothesis: `d.wf` — every mapping of the document has pairwise distinct keys, as every
  JSON / YAML / Python mapping has.  The Model's association lists allow repeated keys; on those
  `dict.update` (last entry wins) and lookup (first entry wins) disagree, see the two
  counterexamples at the end.
-/
import DemesVerif.Proofs.Accepts
namespace Demes.Theorems
open Demes Demes.Obj Demes.Spec

/-! ## (a) shape -/

/-- A document the library resolves has an acceptable shape: only known fields at every level,
every `defaults` entry valid (used or not), the required sections present and of the right kind. -/
theorem resolve_schema (d : Value) (g : Graph) (h : resolve d = .ok g) : schemaOK d = true :=
  Proofs.Accepts.resolve_schema h

/-- The Spec's field lists are the library's (the Model's lists are regenerated from the Python
source and compared in `Theorems/TablesResolve.lean`). -/
theorem field_tables_agree :
    topFields = allowedTop ∧ defaultsFields = allowedDefaults ∧ demeFields = allowedDemeInner ∧
    demeDefaultsFields = allowedLocalDefaults ∧ epochFields = allowedEpoch ∧
    migrationFields = allowedMigration ∧ pulseFields = allowedPulse :=
  ⟨rfl, rfl, rfl, rfl, rfl, rfl, rfl⟩

/-- The validity of a `defaults` entry by the Spec's own rules on numbers and names is exactly
what the library's `check_defaults` tables (validator expressions of `Graph.fromdict`) accept. -/
theorem defaults_rules_agree (o : Obj) :
    (checkDefaults o demeDefaultsTable = .ok () ↔ validFields validDemeDefault o = true) ∧
    (checkDefaults o migrationDefaultsTable = .ok () ↔ validFields validMigrationDefault o = true) ∧
    (checkDefaults o pulseDefaultsTable = .ok () ↔ validFields validPulseDefault o = true) ∧
    (checkDefaults o epochDefaultsTable = .ok () ↔ validFields validEpochDefault o = true) :=
  ⟨Proofs.Accepts.checkDefaults_deme_iff o, Proofs.Accepts.checkDefaults_migration_iff o,
   Proofs.Accepts.checkDefaults_pulse_iff o, Proofs.Accepts.checkDefaults_epoch_iff o⟩

/-! ## (b) the resolved graph is the filled-in graph -/

/-- The graph the library returns **is** the graph computed by the independent implementation of
the specification's fill-in rules (the C02 lemmas, as one theorem). -/
theorem resolve_eq_fill (d : Value) (g : Graph) (hwf : d.wf = true) (h : resolve d = .ok g) :
    fill d = some g :=
  Proofs.Accepts.resolve_eq_fill hwf h

/-- The final sort of the library is the Spec's stable sort by descending time. -/
theorem sortPulses_eq_spec (ps : List Pulse) :
    sortPulses ps = sortDescStable (fun p : Pulse => p.time) ps :=
  Proofs.Accepts.sortPulses_eq_sortDescStable ps

/-- … which is *the* stable descending sort (`Spec.StableSortedDesc` of C02 determines it). -/
theorem stableSortedDesc_unique {α} (key : α → Q) {xs ys ys' : List α}
    (h : StableSortedDesc key xs ys) (h' : StableSortedDesc key xs ys') : ys = ys' :=
  Proofs.Accepts.stableSortedDesc_unique key h h'

/-- Soundness: whatever the library resolves, the Spec accepts. -/
theorem resolve_sound (d : Value) (g : Graph) (hwf : d.wf = true) (h : resolve d = .ok g) :
    accepts d :=
  Proofs.Accepts.resolve_sound hwf h

/-! ## (c), (d) no spurious rejection -/

/-- Completeness: a document of acceptable shape whose filled-in graph is valid is resolved, and
to exactly that graph. -/
theorem resolve_of_fill (d : Value) (g : Graph) (hwf : d.wf = true) (hs : schemaOK d = true)
    (hf : fill d = some g) (hv : validGraph g = true) : resolve d = .ok g :=
  Proofs.Accepts.resolve_of_fill hwf hs hf hv

theorem resolve_complete (d : Value) (hwf : d.wf = true) (h : accepts d) : ∃ g, resolve d = .ok g :=
  Proofs.Accepts.resolve_complete hwf h

/-- Stage (c): the special case of documents without any `defaults`. -/
theorem resolve_complete_nodefaults (d : Value) (hwf : d.wf = true) (_ : noDefaults d = true)
    (h : accepts d) : ∃ g, resolve d = .ok g :=
  Proofs.Accepts.resolve_complete hwf h

/-! ## both directions -/

/-- Resolution returns `g` exactly when the shape is acceptable, the fill-in rules give `g`, and
`g` is a valid fully-resolved model. -/
theorem resolve_ok_iff_fill (d : Value) (g : Graph) (hwf : d.wf = true) :
    resolve d = .ok g ↔ schemaOK d = true ∧ fill d = some g ∧ validGraph g = true :=
  Proofs.Accepts.resolve_ok_iff_fill hwf

/-- **The library resolves exactly the documents the specification accepts.** -/
theorem resolve_ok_iff (d : Value) (hwf : d.wf = true) : (∃ g, resolve d = .ok g) ↔ accepts d :=
  Proofs.Accepts.resolve_ok_iff hwf

/-- **A document that violates any rule is rejected: resolution raises and returns no graph.** -/
theorem resolve_rejects (d : Value) (hwf : d.wf = true) (h : ¬ accepts d) :
    ∃ e, resolve d = .error e :=
  Proofs.Accepts.resolve_rejects hwf h

/-- `accepts` can be evaluated. -/
theorem accepts_iff (d : Value) : accepts d ↔ acceptsB d = true := Proofs.Accepts.accepts_iff d

/-! ## Non-vacuity: accepted and rejected documents, by evaluation -/

section
private def n (q : Q) : Value := .num (.fin q)

/-- demes A (ancestral), B (from A at 50), C (from B at 20) -/
def c03Demes : List Value := [
  .obj [("name", .str "A"), ("epochs", .list [.obj [("start_size", n 100)]])],
  .obj [("name", .str "B"), ("ancestors", .list [.str "A"]), ("start_time", n 50),
        ("epochs", .list [.obj [("start_size", n 100)]])],
  .obj [("name", .str "C"), ("ancestors", .list [.str "B"]), ("start_time", n 20),
        ("epochs", .list [.obj [("start_size", n 100)]])]]

def c03Doc (demes : List Value) (extra : Obj) : Value :=
  .obj ([("time_units", .str "generations"), ("demes", .list demes)] ++ extra)

/-- accepted: defaults at both levels, inferred sizes / end times / start time, a symmetric and an
asymmetric migration with inferred bounds, two pulses out of order, a `bool` as a number, a
`null` start time -/
def c03Good : Value := c03Doc [
    .obj [("name", .str "A")],
    .obj [("name", .str "B"), ("ancestors", .list [.str "A"]), ("start_time", n 50),
          ("defaults", .obj [("epoch", .obj [("selfing_rate", .bool true)])]),
          ("epochs", .list [.obj [("end_time", n 10), ("end_size", n 200)], .obj [("end_time", n 5)]])],
    .obj [("name", .str "C"), ("ancestors", .list [.str "B"]), ("start_time", .null)]]
  [("defaults", .obj [("epoch", .obj [("start_size", n 100)]),
                      ("migration", .obj [("rate", n (1/100))]),
                      ("pulse", .obj [("proportions", .list [n (1/10)])])]),
   ("migrations", .list [.obj [("demes", .list [.str "A", .str "B"])],
                         .obj [("source", .str "A"), ("dest", .str "C")]]),
   ("pulses", .list [.obj [("sources", .list [.str "A"]), ("dest", .str "B"), ("time", n 8)],
                     .obj [("sources", .list [.str "A"]), ("dest", .str "B"), ("time", n 20)]])]

example : c03Good.wf = true := by decide +kernel
example : schemaOK c03Good = true := by decide +kernel
example : acceptsB c03Good = true := by decide +kernel
example : (resolve c03Good).toOption.isSome = true := by decide +kernel
example : accepts c03Good := (accepts_iff _).2 (by decide +kernel)
-- the filled-in graph and the resolved graph, side by side
example : (fill c03Good).map (·.demes) = (resolve c03Good).toOption.map (·.demes) := by
  decide +kernel
example : (fill c03Good).map (fun g => (g.migrations, g.pulses, g.index))
    = (resolve c03Good).toOption.map (fun g => (g.migrations, g.pulses, g.index)) := by
  decide +kernel
example : (fill c03Good).map (fun g => g.demes.map (fun d => (d.name, d.startTime)))
    = some [("A", .inf), ("B", .fin 50), ("C", .fin 5)] := by decide +kernel
example : (fill c03Good).map (fun g => g.demes.map (fun d => d.epochs.map
      (fun e => (e.endTime, e.startSize, e.endSize, e.sizeFunction))))
    = some [[(0, 100, 100, "constant")],
            [(10, 100, 200, "exponential"), (5, 100, 100, "constant")],
            [(0, 100, 100, "constant")]] := by decide +kernel
example : (fill c03Good).map (fun g => g.demes.map (fun d => d.epochs.map (·.selfingRate)))
    = some [[0], [1, 1], [0]] := by decide +kernel
example : (fill c03Good).map (fun g =>
      (g.migrations.map (fun m => (m.source, m.dest, m.startTime, m.endTime)), g.pulses.map (·.time)))
    = some ([("A", "B", .fin 50, 5), ("B", "A", .fin 50, 5), ("A", "C", .fin 5, 0)], [20, 8]) := by
  decide +kernel

/-- the plain three-deme document is accepted; it has no defaults (stage (c)) -/
example : (c03Doc c03Demes []).wf = true ∧ noDefaults (c03Doc c03Demes []) = true
    ∧ acceptsB (c03Doc c03Demes []) = true
    ∧ (resolve (c03Doc c03Demes [])).toOption.isSome = true := by decide +kernel

/-- rejected by both — an unknown field -/
def c03Unknown : Value := c03Doc c03Demes [("colour", .str "red")]
example : c03Unknown.wf = true ∧ schemaOK c03Unknown = false ∧ acceptsB c03Unknown = false
    ∧ (resolve c03Unknown).toOption.isSome = false := by decide +kernel
example : ¬ accepts c03Unknown := by rw [accepts_iff]; decide +kernel
example : ∃ e, resolve c03Unknown = .error e :=
  resolve_rejects _ (by decide +kernel) (by rw [accepts_iff]; decide +kernel)

/-- … an invalid pulse default that is never used (there are no pulses) -/
def c03UnusedDefault : Value :=
  c03Doc c03Demes [("defaults", .obj [("pulse", .obj [("proportions", .list [n (3/2)])])])]
example : c03UnusedDefault.wf = true ∧ schemaOK c03UnusedDefault = false
    ∧ acceptsB c03UnusedDefault = false
    ∧ (resolve c03UnusedDefault).toOption.isSome = false := by decide +kernel
-- without the default the document is fine: the default alone is the reason
example : (fill c03UnusedDefault).map validGraph = some true := by decide +kernel

/-- … two migrations A → B overlapping in time (V9) -/
def c03Overlap : Value := c03Doc c03Demes [("migrations", .list [
  .obj [("source", .str "A"), ("dest", .str "B"), ("rate", n (1/10))],
  .obj [("source", .str "A"), ("dest", .str "B"), ("rate", n (1/10)), ("start_time", n 25)]])]
example : c03Overlap.wf = true ∧ schemaOK c03Overlap = true ∧ (fill c03Overlap).isSome = true
    ∧ (fill c03Overlap).map v9 = some false ∧ acceptsB c03Overlap = false
    ∧ (resolve c03Overlap).toOption.isSome = false := by decide +kernel

/-- … a start time equal to the ancestor's start time (the excluded end of its lifetime, V3) -/
def c03StartAtStart : Value := c03Doc [
  .obj [("name", .str "A"), ("epochs", .list [.obj [("start_size", n 100)]])],
  .obj [("name", .str "B"), ("ancestors", .list [.str "A"]), ("start_time", n 50),
        ("epochs", .list [.obj [("start_size", n 100)]])],
  .obj [("name", .str "C"), ("ancestors", .list [.str "B"]), ("start_time", n 50),
        ("epochs", .list [.obj [("start_size", n 100)]])]] []
example : c03StartAtStart.wf = true ∧ schemaOK c03StartAtStart = true
    ∧ (fill c03StartAtStart).map v3 = some false ∧ acceptsB c03StartAtStart = false
    ∧ (resolve c03StartAtStart).toOption.isSome = false := by decide +kernel

/-- … a value of the wrong kind: `description: null` is not "absent" (`fill` is `none`) -/
def c03NullDescription : Value := c03Doc c03Demes [("description", .null)]
example : c03NullDescription.wf = true ∧ schemaOK c03NullDescription = true
    ∧ (fill c03NullDescription).isSome = false ∧ acceptsB c03NullDescription = false
    ∧ (resolve c03NullDescription).toOption.isSome = false := by decide +kernel

/-! ### the hypothesis `d.wf` cannot be dropped on the Model's association lists

With a repeated key in a deme-level `defaults.epoch`, `dict.update` (the Model's `Obj.update`)
keeps the *last* entry whereas a lookup by precedence finds the *first*.  No JSON / YAML / Python
mapping has repeated keys. -/

/-- repeated `start_size` in the deme-level `defaults.epoch` -/
def c03DupSize : Value := c03Doc [
  .obj [("name", .str "A"),
        ("defaults", .obj [("epoch", .obj [("start_size", n 1), ("start_size", n 2)])])]] []

theorem resolve_eq_fill_counterexample :
    ∃ d : Value, d.wf = false ∧ (resolve d).toOption.isSome = true ∧ (fill d).isSome = true ∧
      (fill d).map (·.demes) ≠ (resolve d).toOption.map (·.demes) :=
  ⟨c03DupSize, by decide +kernel⟩

/-- repeated `size_function`: the first makes the deme valid, the last does not -/
def c03DupSizeFunction : Value := c03Doc [
  .obj [("name", .str "A"),
        ("defaults", .obj [("epoch", .obj [("size_function", .str "exponential"),
                                           ("size_function", .str "constant")])]),
        ("epochs", .list [.obj [("start_size", n 1), ("end_time", n 10)],
                          .obj [("start_size", n 1), ("end_size", n 2)]])]] []

theorem resolve_complete_counterexample :
    ∃ d : Value, d.wf = false ∧ accepts d ∧ ∃ e, resolve d = .error e :=
  ⟨c03DupSizeFunction, by decide +kernel, (accepts_iff _).2 (by decide +kernel),
   Proofs.Accepts.error_of_toOption_isSome (by decide +kernel)⟩

end

end Demes.Theorems
