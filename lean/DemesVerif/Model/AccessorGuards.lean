/-
  Vocabulary of the translator (harness/extract_tables.py, group "Accessors"): what `a - b` means on
  document numbers and what `d[k]` / `k in d` mean on an insertion-ordered dict with string keys.
  Nothing of the Model proper depends on this file; the generated file and
  `Theorems/TablesAccessors.lean` do.
-/
import DemesVerif.Model.NumGuards
import DemesVerif.Model.EpochGuards
namespace Demes

namespace Num

/-- IEEE `a - b` -/
def sub : Num → Num → Num
  | nan, _ => nan
  | _, nan => nan
  | pinf, pinf => nan
  | ninf, ninf => nan
  | pinf, _ => pinf
  | ninf, _ => ninf
  | _, pinf => ninf
  | _, ninf => pinf
  | fin a, fin b => fin (a - b)

end Num

/-- Python's `d[k]` on a dict (an association list whose keys are distinct): `none` = `KeyError` -/
def pyDictGet? {α} (d : List (String × α)) (k : String) : Option α :=
  (d.find? (fun kv => kv.1 = k)).map (·.2)

/-- Python's `k in d` on a dict -/
def pyDictIn {α} (d : List (String × α)) (k : String) : Bool := d.any (fun kv => kv.1 = k)

end Demes
