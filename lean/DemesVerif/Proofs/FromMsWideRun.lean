/-
  C08, link C (movements), a wider fragment — through the run, and the assembled statements on the
  fragment `Tame2` (every time group is a `GoodGroup2`).
-/
import DemesVerif.Proofs.FromMsWideStable
import DemesVerif.Proofs.FromMsZeroRun
namespace Demes.Proofs.FromMs
open Demes Demes.Ms Demes.Spec Demes.Spec.MsSem Demes.Spec.C08

/-! ## the Boolean conditions of `GoodGroup2` -/

theorem nsats_of_bool : ∀ (ops : List MOp), sourceAfterJoinOnly ops = true → NSATS ops := by
  intro ops
  induction ops with
  | nil => intro _; exact List.Pairwise.nil
  | cons o r ih =>
    intro h
    simp only [sourceAfterJoinOnly, Bool.and_eq_true, List.all_eq_true, Bool.or_eq_true, decide_eq_true_eq] at h
    refine List.Pairwise.cons ?_ (ih h.2)
    intro o' ho' e
    rcases h.1 o' ho' with h1 | h1
    · exact (h1 e).elim
    · exact h1

theorem chainAux_spec (x : MOp) : ∀ (r : List MOp), chainAux x r = true →
    r.Pairwise (fun y z => x.2.1 = y.1 → y.2.2 = 1 → z.1 ≠ y.2.1) := by
  intro r
  induction r with
  | nil => intro _; exact List.Pairwise.nil
  | cons y r ih =>
    intro h
    simp only [chainAux, Bool.and_eq_true, Bool.or_eq_true, decide_eq_true_eq, List.all_eq_true] at h
    refine List.Pairwise.cons ?_ (ih h.2)
    intro z hz e hq
    rcases h.1 with (h1 | h1) | h1
    · exact (h1 e).elim
    · exact (h1 hq).elim
    · exact h1 z hz

theorem chainOK_of_bool : ∀ (ops : List MOp), chainsEnd ops = true → ChainOK ops := by
  intro ops
  induction ops with
  | nil => intro _; trivial
  | cons x r ih =>
    intro h
    simp only [chainsEnd, Bool.and_eq_true] at h
    exact ⟨chainAux_spec x r h.1, ih h.2⟩

theorem good2_parts {n : Nat} {cmds : List Cmd} (h : GoodGroup2 n cmds = true) :
    NSATS (groupOps n cmds) ∧ ChainOK (groupOps n cmds) ∧ ∀ c ∈ cmds, FracOK c := by
  unfold GoodGroup2 at h
  simp only [Bool.and_eq_true, List.all_eq_true] at h
  refine ⟨nsats_of_bool _ h.1.1, chainOK_of_bool _ h.1.2, ?_⟩
  intro c hc
  have := h.2 c hc
  cases c <;> first | trivial | (simpa [FracOK] using this)

/-! ## the demes of the populations that are not joined have no `proportions` -/

def PropNone (s : BState) : Prop :=
  ∀ (j : Nat) (d : BDeme), s.demes[j]? = some d → s.joined.contains j = false → d.proportions = none

theorem propNone_after {T T' : Q} {s : BState} {σ : St} {s1 : BState} {g1 : GState} {L1 : List (Nat × Row)}
    {ops : List MOp} (hsim : SizeSim T s σ) (he : GroupEndW T' s σ s1 g1 L1 ops) :
    PropNone (applyParams T' s1 g1) := by
  intro j D hD hjn
  have hjo : (applyParams T' s1 g1).joined = s1.joined := by rw [applyParams_eq]; exact apFold_joined T' g1 g1.params s1
  rw [hjo] at hjn
  obtain ⟨d, hd, hlt, _, _, _, hDeq⟩ := s2_atW he hD
  by_cases hc : (g1.params.any (fun e => decide (e.1 = j)) && assignB g1 j) = true
  · exfalso
    simp only [Bool.and_eq_true] at hc
    obtain ⟨hany, hassign⟩ := hc
    rw [List.any_eq_true] at hany
    obtain ⟨e, hem, hej⟩ := hany
    have hej' : e.1 = j := of_decide_eq_true hej
    obtain ⟨o, ho, hs⟩ := params_srcW he hem
    obtain ⟨o1, _, _, _⟩ := he.pos o ho
    have hoj : o.1 = j + 1 := by omega
    unfold assignB at hassign
    simp only [Bool.and_eq_true, Bool.not_eq_true', decide_eq_true_eq] at hassign
    by_cases hj : j < s.numDemes
    · have hal : s.joined.contains j = false := by
        have := he.srcAlive o ho
        rw [hoj] at this
        simpa using this
      obtain ⟨ir, hir, hkey⟩ := alive_rowW hsim he hj hal
      obtain ⟨_, hrow⟩ := lm_rowW he hir
      have hj' : ir.1 - 1 = j := by omega
      rw [hj', hkey] at hrow
      have hdiag : foldOps ops (delta (j + 1)) (j + 1) = 0 := by rw [← hrow]; exact hassign.2
      have hq : ∀ o' ∈ ops, o'.1 = j + 1 → o'.2.2 ≠ 1 := by
        intro o' ho' ho1 hq
        have := he.joinedV o' ho' hq
        rw [ho1] at this
        simp only [Nat.add_sub_cancel] at this
        rw [hjn] at this
        cases this
      have hown : OwnOps (j + 1) (ops.filter (fun o' => o'.1 = j + 1)) := by
        intro o' ho'
        obtain ⟨h1, h2⟩ := List.mem_filter.mp ho'
        exact ⟨by simpa using h2, (he.pos o' h1).2.2.1, (he.pos o' h1).2.2.2⟩
      have hlt1 : ∀ o' ∈ ops.filter (fun o' => o'.1 = j + 1), o'.2.2 < 1 := by
        intro o' ho'
        obtain ⟨h1, h2⟩ := List.mem_filter.mp ho'
        exact lt_of_le_of_ne (he.pos o' h1).2.2.2 (hq o' h1 (by simpa using h2))
      have hpos := foldOps_own_pos (j + 1) _ (delta (j + 1)) hown hlt1 (by rw [delta_self]; decide)
      rw [← foldOps_ownS_delta (j + 1) ops he.nsats hq, hdiag] at hpos
      exact Rat.lt_irrefl hpos
    · have := ancOf_zeroRow (he.zero j (by omega))
      rw [this] at hassign
      cases hassign.1
  · have hc' : (g1.params.any (fun e => decide (e.1 = j)) && assignB g1 j) = false := by simpa using hc
    rw [hc'] at hDeq
    simp only [Bool.false_eq_true, if_false] at hDeq
    rw [hDeq]
    exact he.propNone j d hd hjn

/-! ## a group of the wide fragment with `-es` / `-ej`, later than everything so far -/

theorem movesInv_moveW {T T' : Q} {s : BState} {σ σ' : St} {s1 : BState} {g1 : GState} {L1 : List (Nat × Row)}
    {ops : List MOp} (h : MovesInv T s σ) (hTT : T < T') (hsim : SizeSim T s σ)
    (he : GroupEndW T' s σ s1 g1 L1 ops) (hnames : NameInv s)
    (hjs : ∀ j, s.joined.contains j = true → s1.demes[j]? = s.demes[j]?)
    (hm : σ'.moves = if !(canonRows L1).isEmpty then σ.moves ++ [{ time := T', rows := canonRows L1 }] else σ.moves) :
    MovesInv T' (applyParams T' s1 g1) σ' := by
  have hT0 : T' ≠ 0 := by
    intro e
    rw [e] at hTT
    exact Rat.lt_irrefl (lt_of_le_of_lt h.nonneg hTT)
  have hend : ∀ (j : Nat) (d : BDeme), s.demes[j]? = some d → bEndTime d < T' :=
    fun j d hd => lt_of_le_of_lt (h.endLe j d hd) hTT
  have hst : ∀ (j : Nat) (d : BDeme), s.demes[j]? = some d →
      d.startTime = .inf ∨ ∃ t, d.startTime = .fin t ∧ t < T' := by
    intro j d hd
    rcases h.stLe j d hd with h1 | ⟨t, h1, h2⟩
    · exact Or.inl h1
    · exact Or.inr ⟨t, h1, lt_of_le_of_lt h2 hTT⟩
  have hpul : ∀ p ∈ s.pulses.getD [], p.time ≠ T' := by
    intro p hp e
    have := (h.ev p.time (Or.inl ⟨p, hp, rfl⟩)).1
    rw [e] at this
    exact Rat.lt_irrefl (lt_of_le_of_lt this hTT)
  obtain ⟨L2, hL2, hc2⟩ := applyParams_sem_of_endW hsim he hT0 hend hst hpul
  obtain ⟨pw, tl⟩ := group_positionsW hsim he hnames hjs
  have hsub : ∀ m ∈ σ.moves, m ∈ σ'.moves := by
    intro m hmm
    rw [hm]
    split
    · exact List.mem_append_left _ hmm
    · exact hmm
  have hnew : canonRows L2 = [] ∨ ({ time := T', rows := canonRows L2 } : Move) ∈ σ'.moves := by
    rw [hc2, hm]
    by_cases hemp : (canonRows L1).isEmpty = true
    · left; exact List.isEmpty_iff.mp hemp
    · right
      simp only [hemp, Bool.not_false, if_true, Bool.not_eq_true]
      simp
  have hstable := fun (T0 : Q) (h0 : T0 < T') (L : List (Nat × Row)) hL =>
    group_stableW hsim he hnames hjs hend h0 (L := L) hL
  refine ⟨Rat.le_of_lt (lt_of_le_of_lt h.nonneg hTT), ?_, ?_, ?_, ?_, ?_⟩
  · rw [hm]
    split
    · rw [List.pairwise_append]
      refine ⟨h.sorted, List.pairwise_singleton _ _, ?_⟩
      intro a ha b hb
      simp only [List.mem_singleton] at hb
      subst hb
      exact lt_of_le_of_lt (h.recd a ha).1 hTT
    · exact h.sorted
  · intro m hmm
    rw [hm] at hmm
    have hold : ∀ m ∈ σ.moves, m.time ≤ T' ∧ m.rows ≠ [] ∧
        ∃ L, groupMoves (popNames (applyParams T' s1 g1).numDemes) m.time (applyParams T' s1 g1).demes
          ((applyParams T' s1 g1).pulses.getD []) = .ok L ∧ canonRows L = m.rows := by
      intro m hmm
      obtain ⟨a, b, L, hL, c⟩ := h.recd m hmm
      exact ⟨Rat.le_of_lt (lt_of_le_of_lt a hTT), b, L, hstable _ (lt_of_le_of_lt a hTT) L hL, c⟩
    split at hmm
    · rename_i hemp
      rcases List.mem_append.mp hmm with hmm | hmm
      · exact hold m hmm
      · simp only [List.mem_singleton] at hmm
        subst hmm
        refine ⟨Rat.le_refl, ?_, L2, hL2, hc2⟩
        intro e
        dsimp only at e
        rw [e] at hemp
        simp at hemp
    · exact hold m hmm
  · intro T0 hev
    have hold : EventAt s T0 → T0 ≤ T' ∧ ∃ L, groupMoves (popNames (applyParams T' s1 g1).numDemes) T0
        (applyParams T' s1 g1).demes ((applyParams T' s1 g1).pulses.getD []) = .ok L ∧
        (canonRows L = [] ∨ ({ time := T0, rows := canonRows L } : Move) ∈ σ'.moves) := by
      intro hev0
      obtain ⟨a, L, hL, c⟩ := h.ev T0 hev0
      refine ⟨Rat.le_of_lt (lt_of_le_of_lt a hTT), L, hstable _ (lt_of_le_of_lt a hTT) L hL, ?_⟩
      rcases c with c | c
      · exact Or.inl c
      · exact Or.inr (hsub _ c)
    have hnewT : T0 = T' → T0 ≤ T' ∧ ∃ L, groupMoves (popNames (applyParams T' s1 g1).numDemes) T0
        (applyParams T' s1 g1).demes ((applyParams T' s1 g1).pulses.getD []) = .ok L ∧
        (canonRows L = [] ∨ ({ time := T0, rows := canonRows L } : Move) ∈ σ'.moves) := by
      intro e
      subst e
      exact ⟨Rat.le_refl, L2, hL2, hnew⟩
    rcases hev with ⟨p, hp, ht⟩ | ⟨D, hD, hn, hs⟩
    · rw [applyParams_eq, (apFold T' g1 g1.params s1).1, he.pulses] at hp
      rcases List.mem_append.mp hp with hp | hp
      · exact hold (Or.inl ⟨p, hp, ht⟩)
      · obtain ⟨e, _, rfl⟩ := List.mem_map.mp hp
        exact hnewT ht.symm
    · obtain ⟨i, hi⟩ := List.mem_iff_getElem?.mp hD
      by_cases hlt : i < s.demes.length
      · obtain ⟨D', hD', hc⟩ := pw i _ (List.getElem?_eq_getElem hlt)
        rw [hi] at hD'
        cases hD'
        rcases hc with rfl | ⟨_, _, _, hs'⟩
        · exact hold (Or.inr ⟨_, List.getElem_mem hlt, hn, hs⟩)
        · rcases hs' with hs' | hs'
          · rw [hs'] at hs; cases hs
          · rw [hs'] at hs; cases hs; exact hnewT rfl
      · obtain ⟨_, hs'⟩ := tl i D (by omega) hi
        rcases hs' with hs' | hs'
        · rw [hs'] at hs; cases hs
        · rw [hs'] at hs; cases hs; exact hnewT rfl
  · intro j D hD
    by_cases hlt : j < s.demes.length
    · obtain ⟨D', hD', hc⟩ := pw j _ (List.getElem?_eq_getElem hlt)
      rw [hD] at hD'
      cases hD'
      have h0 := h.endLe j _ (List.getElem?_eq_getElem hlt)
      rcases hc with rfl | ⟨_, _, hb, _⟩
      · exact Rat.le_trans h0 (Rat.le_of_lt hTT)
      · rw [hb]; exact Rat.le_trans h0 (Rat.le_of_lt hTT)
    · rw [(tl j D (by omega) hD).1]
  · intro j D hD
    by_cases hlt : j < s.demes.length
    · obtain ⟨D', hD', hc⟩ := pw j _ (List.getElem?_eq_getElem hlt)
      rw [hD] at hD'
      cases hD'
      rcases hc with rfl | ⟨_, _, _, hs'⟩
      · rcases h.stLe j _ (List.getElem?_eq_getElem hlt) with h1 | ⟨t, h1, h2⟩
        · exact Or.inl h1
        · exact Or.inr ⟨t, h1, Rat.le_trans h2 (Rat.le_of_lt hTT)⟩
      · rcases hs' with hs' | hs'
        · exact Or.inl hs'
        · exact Or.inr ⟨T', hs', Rat.le_refl⟩
    · rcases (tl j D (by omega) hD).2 with hs' | hs'
      · exact Or.inl hs'
      · exact Or.inr ⟨T', hs', Rat.le_refl⟩

/-- **`applyParams_sem` on the wide fragment.**  A time group that is a `GoodGroup2`, at a time `T' ≠ 0`
later than everything in the Builder state: the ancestry and the pulses that `applyParams` writes, read
back by `groupMoves` the way `graphSem` reads a graph, are the interpreter's movement matrix of the
group (in canonical form). -/
theorem applyParams_semW {N0 T T' : Q} {s s1 : BState} {g1 : GState} {σ σ1 : St} {L1 : List (Nat × Row)}
    {evs : List (Event Num)}
    (hsim : SizeSim T s σ) (hT : T ≤ T') (hall : ∀ e ∈ evs, HasCmd e)
    (htime : ∀ e ∈ evs, 4 * N0 * (cmdOfD e).t = T')
    (hm : evs.foldlM (stepEvent N0 T') (s, { lm := initLm s evs, params := [] }) = .ok (s1, g1))
    (hs : (evs.map cmdOfD).foldlM (Spec.MsSem.step N0) (σ, initL σ) = .ok (σ1, L1))
    (hgood : GoodGroup2 s.numDemes (evs.map cmdOfD) = true) (hT0 : T' ≠ 0) (hnames : NameInv s) (hprop : PropNone s)
    (hend : ∀ (j : Nat) (d : BDeme), s.demes[j]? = some d → bEndTime d < T')
    (hst : ∀ (j : Nat) (d : BDeme), s.demes[j]? = some d → d.startTime = .inf ∨ ∃ t, d.startTime = .fin t ∧ t < T')
    (hpul : ∀ p ∈ s.pulses.getD [], p.time ≠ T') :
    ∃ L2, groupMoves (popNames (applyParams T' s1 g1).numDemes) T' (applyParams T' s1 g1).demes
        ((applyParams T' s1 g1).pulses.getD []) = .ok L2 ∧ canonRows L2 = canonRows L1 := by
  obtain ⟨hns, hch, hfr⟩ := good2_parts hgood
  obtain ⟨_, he⟩ := group_endW hsim hT hall htime hm hs hns hch
    (fun e he => hfr _ (List.mem_map.mpr ⟨e, he, rfl⟩)) hnames hprop
  exact applyParams_sem_of_endW hsim he hT0 hend hst hpul

/-! ## one group, then all groups -/

/-- the end of the options of a group of the wide fragment, from `stepGroup` -/
theorem stepGroup_endW {N0 T T' : Q} {s s' : BState} {σ σ' : St} {evs : List (Event Num)}
    (hsim : SizeSim T s σ) (hT : T ≤ T') (hnames : NameInv s) (hprop : PropNone s)
    (hall : ∀ e ∈ evs, HasCmd e) (hne : evs ≠ []) (htime : ∀ e ∈ evs, 4 * N0 * (cmdOfD e).t = T')
    (hgood : GoodGroup2 s.numDemes (evs.map cmdOfD) = true)
    (hm : Ms.stepGroup N0 s evs = .ok s') (hs : Spec.MsSem.stepGroup N0 σ (evs.map cmdOfD) = .ok σ') :
    ∃ s1 g1 σ1 L1, s' = applyParams T' s1 g1
      ∧ evs.foldlM (stepEvent N0 T') (s, { lm := initLm s evs, params := [] }) = .ok (s1, g1)
      ∧ (evs.map cmdOfD).foldlM (Spec.MsSem.step N0) (σ, initL σ) = .ok (σ1, L1)
      ∧ σ'.moves = (if (evs.map cmdOfD).any isMove && !(canonRows L1).isEmpty
          then σ.moves ++ [{ time := T', rows := canonRows L1 }] else σ.moves)
      ∧ GroupEndW T' s σ s1 g1 L1 (groupOps s.numDemes (evs.map cmdOfD)) := by
  obtain ⟨t, s1, g1, ht, hfold, rfl⟩ := stepGroup_ok hm
  obtain ⟨ht1, ht2⟩ := head_time hall hne htime
  have htT := ht1 t ht
  rw [htT] at hfold ⊢
  obtain ⟨σ1, L1, hsfold, hmoves⟩ := stepGroup_moves hs
  rw [ht2] at hmoves
  obtain ⟨hns, hch, hfr⟩ := good2_parts hgood
  obtain ⟨_, he⟩ := group_endW hsim hT hall htime hfold hsfold hns hch
    (fun e he => hfr _ (List.mem_map.mpr ⟨e, he, rfl⟩)) hnames hprop
  exact ⟨s1, g1, σ1, L1, rfl, hfold, hsfold, hmoves, he⟩

theorem group_movesInvW {N0 : Q} (hN : 0 < N0) {prev : Option Q} {T' : Q} {s s' : BState} {σ σ' : St}
    {evs : List (Event Num)}
    (hsim : Sim2 N0 (prev.getD 0) s σ) (hinv : MovesInv (prev.getD 0) s σ) (hnames : NameInv s) (hprop : PropNone s)
    (hall : ∀ e ∈ evs, HasCmd e) (hne : evs ≠ []) (htime : ∀ e ∈ evs, 4 * N0 * (cmdOfD e).t = T')
    (hprev : PrevLt prev T')
    (hgood : GoodGroup2 s.numDemes (evs.map cmdOfD) = true)
    (hpos : (evs.map cmdOfD).any isMove = true → prev.getD 0 < T')
    (hm : Ms.stepGroup N0 s evs = .ok s') (hs : Spec.MsSem.stepGroup N0 σ (evs.map cmdOfD) = .ok σ') :
    Sim2 N0 T' s' σ' ∧ MovesInv T' s' σ' ∧ NameInv s' ∧ PropNone s'
      ∧ s'.numDemes = s.numDemes + ((evs.map cmdOfD).filter isSplitC).length := by
  have hle : prev.getD 0 ≤ T' := by
    cases prev with
    | none => exact hprev
    | some T => exact Rat.le_of_lt hprev
  have hsim' := stepGroup_inv (sim2_inv N0) hsim hle hall htime hm hs
  have hnames' := stepGroup_names hnames hm
  have hnum := stepGroup_numDemes hall hm
  obtain ⟨s1, g1, σ1, L1, rfl, hfold, hsfold, hmoves, he⟩ :=
    stepGroup_endW hsim.1 hle hnames hprop hall hne htime hgood hm hs
  refine ⟨hsim', ?_, hnames', propNone_after hsim.1 he, hnum⟩
  by_cases hmv : (evs.map cmdOfD).any isMove = true
  · have hTT := hpos hmv
    have hjs := events_joined evs hsim.1 hle hall htime hfold hsfold
    apply movesInv_moveW hinv hTT hsim.1 he hnames (fun j hj => (hjs.2 j hj).2)
    rw [hmoves, hmv]
    simp only [Bool.true_and]
  · have hmv' : (evs.map cmdOfD).any isMove = false := by simpa using hmv
    have hnm : ∀ e ∈ evs, isSplit e = false ∧ isJoinEv e = false := by
      intro e he'
      have h1 : isMove (cmdOfD e) = false := by
        rw [List.any_eq_false] at hmv'
        simpa using hmv' (cmdOfD e) (List.mem_map.mpr ⟨e, he', rfl⟩)
      rw [(cmd_kind (hall e he')).2] at h1
      simpa using h1
    obtain ⟨e1, e2, e3, e4⟩ := events_nonmove evs hnm hfold
    have hap : applyParams T' s1 g1 = s1 := by
      rw [applyParams_eq, e1]; rfl
    rw [hap]
    apply movesInv_nonmove hinv hle e2 e3 e4
    rw [hmoves, hmv']
    simp

theorem groups_movesInvW {N0 : Q} (hN : 0 < N0) : ∀ (groups : List (List (Event Num))) (T : Q)
    {s s' : BState} {σ σ' : St},
    Sim2 N0 T s σ → MovesInv T s σ → NameInv s → PropNone s →
    (∀ g ∈ groups, g ≠ [] ∧ ∀ e ∈ g, HasCmd e) → TimesOK2 N0 (some T) (groups.map (List.map cmdOfD)) →
    goodGroups2 s.numDemes (groups.map (List.map cmdOfD)) = true →
    groups.foldlM (Ms.stepGroup N0) s = .ok s' →
    (groups.map (List.map cmdOfD)).foldlM (Spec.MsSem.stepGroup N0) σ = .ok σ' →
    ∃ T1, MovesInv T1 s' σ' ∧ NameInv s' := by
  intro groups
  induction groups with
  | nil =>
    intro T s s' σ σ' _ hinv hn _ _ _ _ hm hs
    cases hm
    cases hs
    exact ⟨_, hinv, hn⟩
  | cons g rest ih =>
    intro T s s' σ σ' hsim hinv hn hprop hall ht hgood hm hs
    rw [List.foldlM_cons] at hm
    obtain ⟨s1, h1, hm⟩ := RV.bind_ok.1 hm
    rw [List.map_cons, List.foldlM_cons] at hs
    obtain ⟨σ1, hs1, hs⟩ := sbind_ok.1 hs
    obtain ⟨T', hprev, htg, hrest⟩ := ht
    obtain ⟨hne, hcmd⟩ := hall g (List.mem_cons_self ..)
    rw [List.map_cons] at hgood
    simp only [goodGroups2, Bool.and_eq_true] at hgood
    obtain ⟨a1, a2, a3, a4, a5⟩ := group_movesInvW hN (prev := some T) hsim hinv hn hprop hcmd hne
      (fun e he => htg _ (List.mem_map.mpr ⟨e, he, rfl⟩)) hprev hgood.1 (fun _ => hprev) h1 hs1
    exact ih T' a1 a2 a3 a4 (fun g' hg' => hall g' (List.mem_cons_of_mem _ hg')) hrest
      (by rw [a5]; exact hgood.2) hm hs

/-! ## the first group at time 0 -/

/-- without `-ej`, every move takes a proper fraction -/
theorem ops_lt_one : ∀ (cmds : List Cmd) (n : Nat) (pend : Option (Nat × Q)),
    (∀ c ∈ cmds, isJoinC c = false) → (∀ c ∈ cmds, FracOK c) → (∀ i q, pend = some (i, q) → q < 1) →
    ∀ o ∈ groupOpsAux n pend cmds, o.2.2 < 1 := by
  intro cmds
  induction cmds with
  | nil =>
    intro n pend _ _ hp o ho
    obtain ⟨i, q, hpe, rfl⟩ := mem_flushOp ho
    exact hp i q hpe
  | cons c tl ih =>
    intro n pend hj hf hp o ho
    have hj' : ∀ c ∈ tl, isJoinC c = false := fun x hx => hj x (List.mem_cons_of_mem _ hx)
    have hf' : ∀ c ∈ tl, FracOK c := fun x hx => hf x (List.mem_cons_of_mem _ hx)
    by_cases hmv : isMove c = true
    · cases c with
      | split t i p =>
        have hfr : 0 < p ∧ p ≤ 1 := hf _ (List.mem_cons_self ..)
        have ho' : o ∈ flushOp n pend ++ groupOpsAux (n + 1) (some (i, 1 - p)) tl := ho
        rcases List.mem_append.mp ho' with ho' | ho'
        · obtain ⟨i0, q0, hpe, rfl⟩ := mem_flushOp ho'
          exact hp i0 q0 hpe
        · exact ih (n + 1) (some (i, 1 - p)) hj' hf' (fun i' q' he => by cases he; linarith) o ho'
      | join t a k => have := hj _ (List.mem_cons_self ..); cases this
      | _ => cases hmv
    · rw [groupOpsAux_nonmove _ _ _ _ (by simpa using hmv)] at ho
      exact ih n pend hj' hf' hp o ho

theorem nsat_of_nsats {ops : List MOp} (h : NSATS ops) (hq : ∀ o ∈ ops, o.2.2 < 1) : NSAT ops := by
  unfold NSATS at h
  unfold NSAT
  have h2 : ops.Pairwise (fun o1 o2 => o1.2.2 < 1) := List.pairwise_of_forall_mem_list (fun a ha _ _ => hq a ha)
  exact (h.and h2).imp (fun ⟨h1, h3⟩ e => by rw [h1 e] at h3; exact Rat.lt_irrefl h3)

/-! ## the whole event loop on the wide fragment -/

theorem initState_propNone (args : Args) (N0 : Q) : PropNone (initState args N0) := by
  intro j d hd _
  unfold initState at hd
  simp only [List.getElem?_map] at hd
  cases hr : (List.range (initPop args).1)[j]? with
  | none => rw [hr] at hd; cases hd
  | some k => rw [hr] at hd; cases hd; rfl

/-- **the event loop, as far as lineage movements are concerned, on `Tame2`**: at the end of the event loop
either the invariant of the run holds, or the Builder state is marked (`from_ms` will fail) -/
theorem buildState_movesInvW {args : Args} {pr : Parsed} {N0 : Q} {s : BState} {σ : St}
    (ha : ArgsAgree args pr) (ht : Tame2 pr = true)
    (hm : buildState args N0 = .ok s) (hs : runState pr N0 = .ok σ) :
    (∃ T, MovesInv T s σ ∧ NameInv s) ∨ ZeroMark s := by
  unfold buildState at hm
  split at hm
  · exact (RV.valueErr_bind_ok.1 hm).elim
  rename_i hN
  have hN : 0 < N0 := by grind
  have h4 : (0 : Q) < 4 * N0 := by linarith
  obtain ⟨_, _, hm⟩ := RV.bind_ok.1 hm
  obtain ⟨hgroups, hallg, htimes, hnum⟩ := run_setup (N0 := N0) ha hN
  unfold runState at hs
  rw [hgroups] at hs
  unfold Tame2 at ht
  rw [hgroups, ← hnum] at ht
  have hsim0 : Sim2 N0 0 (initState args N0) (initSt pr N0) :=
    ⟨initial_sizeSim args pr N0 ha, initial_migSim args pr N0 ha⟩
  generalize hK : eventGroups args = K at hm hs ht htimes hallg
  cases K with
  | nil =>
    cases hm
    cases hs
    exact Or.inl ⟨0, initial_movesInv args pr N0, initState_names args N0⟩
  | cons g rest =>
    rw [List.foldlM_cons] at hm
    obtain ⟨s1, h1, hm⟩ := RV.bind_ok.1 hm
    rw [List.map_cons, List.foldlM_cons] at hs
    obtain ⟨σ1, hs1, hs⟩ := sbind_ok.1 hs
    rw [List.map_cons] at htimes ht
    obtain ⟨T', hprev, htg, hrest⟩ := htimes
    have hT'0 : 0 ≤ T' := hprev
    simp only [goodGroups2, Bool.and_eq_true] at ht
    obtain ⟨hne, hcmd⟩ := hallg g (List.mem_cons_self ..)
    have htg' : ∀ e ∈ g, 4 * N0 * (cmdOfD e).t = T' := fun e he => htg _ (List.mem_map.mpr ⟨e, he, rfl⟩)
    have hnum1 := stepGroup_numDemes hcmd h1
    have hallrest : ∀ g' ∈ rest, g' ≠ [] ∧ ∀ e ∈ g', HasCmd e :=
      fun g' hg' => hallg g' (List.mem_cons_of_mem _ hg')
    have hrestgood : goodGroups2 s1.numDemes (rest.map (List.map cmdOfD)) = true := by rw [hnum1]; exact ht.2
    by_cases hcase : (g.map cmdOfD).any isMove = true → (0 : Q) < T'
    · obtain ⟨a1, a2, a3, a4, _⟩ := group_movesInvW hN (prev := none) hsim0 (initial_movesInv args pr N0)
        (initState_names args N0) (initState_propNone args N0) hcmd hne htg' hprev ht.1 hcase h1 hs1
      exact Or.inl (groups_movesInvW hN rest T' a1 a2 a3 a4 hallrest hrest hrestgood hm hs)
    · -- the first group is at time 0 and has `-es` / `-ej`
      have hmv : (g.map cmdOfD).any isMove = true := by
        by_contra hno
        exact hcase (fun h => (hno h).elim)
      have hT0 : T' = 0 := by
        by_contra hne0
        exact hcase (fun _ => lt_of_le_of_ne hT'0 (fun e => hne0 e.symm))
      subst hT0
      obtain ⟨hns, hch, hfr⟩ := good2_parts ht.1
      have hsim' : Sim2 N0 0 s1 σ1 := stepGroup_inv (sim2_inv N0) hsim0 (Rat.le_refl) hcmd htg' h1 hs1
      have hnames' := stepGroup_names (initState_names args N0) h1
      obtain ⟨j1, _, j3⟩ := stepGroup_zeroMark (initState_jlt args N0) h1
      have hmark : ZeroMark s1 → (∃ T, MovesInv T s σ ∧ NameInv s) ∨ ZeroMark s :=
        fun hz => Or.inr ((groups_zeroMark rest j1 hm).2.1 hz)
      by_cases hjoin : ∃ c ∈ g.map cmdOfD, isJoinC c = true
      · -- an `-ej` at time 0
        obtain ⟨c, hc, hj⟩ := hjoin
        apply hmark
        obtain ⟨e, he, rfl⟩ := List.mem_map.mp hc
        obtain ⟨k1, k2⟩ := isJoinC_kind hj
        obtain ⟨c1, c2⟩ := cmd_kind (hcmd e he)
        have hje : isJoinEv e = true := by
          rw [c2, ← c1, k2] at k1
          simpa using k1
        apply j3 _ ⟨e, he, hje⟩
        cases g with
        | nil => cases he
        | cons a r =>
          simp only [List.head?_cons, Option.map_some, Option.getD_some]
          have ha' := hcmd a (List.mem_cons_self ..)
          rw [cmdOf_t ha']
          have : (cmdOfD a).t = 0 := by
            have := htg' a (List.mem_cons_self ..)
            rcases Rat.mul_eq_zero.mp this with h | h
            · rw [h] at h4; exact (Rat.lt_irrefl h4).elim
            · exact h
          rw [this]
      · -- no `-ej`: the moves satisfy `NSAT`
        have hnoj : ∀ c ∈ g.map cmdOfD, isJoinC c = false := by
          intro c hc
          cases hj : isJoinC c with
          | false => rfl
          | true => exact (hjoin ⟨c, hc, hj⟩).elim
        have hlt := ops_lt_one (g.map cmdOfD) (initState args N0).numDemes none hnoj hfr (fun i q he => by cases he)
        have hnsat : NSAT (groupOps (initState args N0).numDemes (g.map cmdOfD)) := nsat_of_nsats hns hlt
        rcases first_group_zero hsim0.1 (initState_names args N0) hcmd hne htg' hnsat
            (fun e he => hfr _ (List.mem_map.mpr ⟨e, he, rfl⟩)) (initState_demes args N0) rfl rfl h1 hs1 with ⟨hinv, _⟩ | hz
        · obtain ⟨s1', g1, σ1', L1, rfl, _, _, _, he⟩ :=
            stepGroup_endW hsim0.1 (Rat.le_refl) (initState_names args N0) (initState_propNone args N0) hcmd hne htg' ht.1 h1 hs1
          exact Or.inl (groups_movesInvW hN rest 0 hsim' hinv hnames' (propNone_after hsim0.1 he) hallrest hrest
            hrestgood hm hs)
        · exact hmark hz

/-! ## `from_ms` and `msSem` -/

/-- **the lineage movements of `from_ms`, on the fragment `Tame2`** -/
theorem fromMs_moves_wide {c : List String} {N0 : Q} {mg : MsGraph} {sem : DemogSem} {pr : Parsed}
    (h : fromMs c N0 none = .ok mg) (hsem : msSem c N0 = .ok sem) (hp : parsersAgree c = true)
    (hpr : parse c = .ok pr) (ht : Tame2 pr = true) :
    ∃ gsem, resultSem mg = .ok gsem ∧ gsem.moves = sem.moves := by
  obtain ⟨args, s, hargs, hs, hf⟩ := fromMs_buildState h
  obtain ⟨pr', σ, hpr', hσ, he⟩ := msSem_runState hsem
  rw [hpr] at hpr'
  cases hpr'
  have ha : ArgsAgree args pr := by
    unfold parsersAgree at hp
    rw [hargs, hpr] at hp
    exact argsAgree_of_B hp
  rcases buildState_movesInvW ha ht hs hσ with ⟨T, hinv, hn⟩ | hz
  · exact moves_of_movesInv h hf he hinv hn
  · exact (not_zeroMark_of_ok h hargs hs hz).elim

/-- **C08 on the fragment `Tame2`**: both demographies exist and are equivalent -/
theorem fromMs_sem_wide {c : List String} {N0 : Q} {mg : MsGraph} {sem : DemogSem} {pr : Parsed}
    (h : fromMs c N0 none = .ok mg) (hsem : msSem c N0 = .ok sem) (hp : parsersAgree c = true)
    (hpr : parse c = .ok pr) (ht : Tame2 pr = true) :
    SemAgree (msSem c N0) (resultSem mg) = true := by
  obtain ⟨gsem, hg, hm⟩ := fromMs_moves_wide h hsem hp hpr ht
  obtain ⟨rs, hrs, hsm⟩ := fromMs_sizes_migs_sem_total h hsem hp
  rw [hg] at hrs
  cases hrs
  rw [hsem, hg]
  show semEquiv sem gsem = true
  rw [semEquiv_split, hsm, hm]
  simp

/-! ## `GoodGroup2` contains `GoodGroup` -/

theorem sourceAfterJoinOnly_of_nsat : ∀ (ops : List (Nat × Nat × Q)), noSourceAfterTarget ops = true →
    sourceAfterJoinOnly ops = true := by
  intro ops
  induction ops with
  | nil => intro _; rfl
  | cons o r ih =>
    intro h
    simp only [noSourceAfterTarget, Bool.and_eq_true, List.all_eq_true, decide_eq_true_eq] at h
    simp only [sourceAfterJoinOnly, Bool.and_eq_true, List.all_eq_true, Bool.or_eq_true, decide_eq_true_eq]
    exact ⟨fun o' ho' => Or.inl (h.1 o' ho'), ih h.2⟩

theorem chainAux_of_nsat (x : Nat × Nat × Q) : ∀ (r : List (Nat × Nat × Q)), (∀ y ∈ r, x.2.1 ≠ y.1) →
    chainAux x r = true := by
  intro r
  induction r with
  | nil => intro _; rfl
  | cons y r ih =>
    intro h
    simp only [chainAux, Bool.and_eq_true, Bool.or_eq_true, decide_eq_true_eq]
    exact ⟨Or.inl (Or.inl (h y (List.mem_cons_self ..))), ih (fun z hz => h z (List.mem_cons_of_mem _ hz))⟩

theorem chainsEnd_of_nsat : ∀ (ops : List (Nat × Nat × Q)), noSourceAfterTarget ops = true → chainsEnd ops = true := by
  intro ops
  induction ops with
  | nil => intro _; rfl
  | cons o r ih =>
    intro h
    simp only [noSourceAfterTarget, Bool.and_eq_true, List.all_eq_true, decide_eq_true_eq] at h
    simp only [chainsEnd, Bool.and_eq_true]
    exact ⟨chainAux_of_nsat o r h.1, ih h.2⟩

/-- a `GoodGroup` (indeed: its first two clauses) is a `GoodGroup2` -/
theorem goodGroup2_of_12 {n : Nat} {cmds : List Cmd} (h : GoodGroup12 n cmds = true) : GoodGroup2 n cmds = true := by
  unfold GoodGroup12 at h
  unfold GoodGroup2
  simp only [Bool.and_eq_true] at h ⊢
  exact ⟨⟨sourceAfterJoinOnly_of_nsat _ h.1, chainsEnd_of_nsat _ h.1⟩, h.2⟩

theorem tameW_of_tame2 : ∀ (K : List (List Cmd)) (n : Nat), goodGroups12 n K = true → goodGroups2 n K = true := by
  intro K
  induction K with
  | nil => intro _ _; rfl
  | cons g rest ih =>
    intro n h
    simp only [goodGroups12, Bool.and_eq_true] at h
    simp only [goodGroups2, Bool.and_eq_true]
    exact ⟨goodGroup2_of_12 h.1, ih _ h.2⟩

end Demes.Proofs.FromMs
