/-
  C07 — order facts about `sorted(reversed(pulses) + demes)` and the ancestry options the
  walk over it emits.
-/
import DemesVerif.Proofs.ToMsRunPops
set_option linter.unusedSimpArgs false
set_option linter.unusedVariables false
namespace Demes.Proofs.ToMs
open Demes Demes.Ms Demes.Spec Demes.Spec.C07 Demes.Proofs.RV

/-! ### the walk's counter -/

def ancCount : Nat → List DemeOrPulse → Nat
  | n, [] => n
  | n, .deme d :: r => ancCount (ancDemeCount d n d.ancestors.zipIdx) r
  | n, .pulse _ :: r => ancCount (n + 1) r

theorem ancDemeCount_ge (d : Deme) : ∀ (aks : List (String × Nat)) (n : Nat), n ≤ ancDemeCount d n aks
  | [], n => Nat.le_refl _
  | (a, k) :: r, n => by
    simp only [ancDemeCount]
    split
    · exact ancDemeCount_ge d r n
    · exact Nat.le_trans (Nat.le_succ n) (ancDemeCount_ge d r (n + 1))

theorem ancCount_ge : ∀ (xs : List DemeOrPulse) (n : Nat), n ≤ ancCount n xs
  | [], n => Nat.le_refl _
  | .deme d :: r, n => Nat.le_trans (ancDemeCount_ge d _ n) (ancCount_ge r _)
  | .pulse _ :: r, n => Nat.le_trans (Nat.le_succ n) (ancCount_ge r _)

theorem ancEvs_append (g : Graph) : ∀ (xs ys : List DemeOrPulse) (n : Nat),
    ancEvs g n (xs ++ ys) = ancEvs g n xs ++ ancEvs g (ancCount n xs) ys
  | [], ys, n => rfl
  | .deme d :: r, ys, n => by
    simp only [List.cons_append, ancEvs, ancCount, ancEvs_append g r ys, List.append_assoc]
  | .pulse p :: r, ys, n => by
    simp only [List.cons_append, ancEvs, ancCount, ancEvs_append g r ys, List.append_assoc]

/-! ### the `-ej` options of the walk -/

/-- a `-ej` emitted for the ancestors of `d` joins either a population created by a split of this
walk (number `> n`) or `d` itself -/
theorem join_mem_ancDemeEvs {g : Graph} {d : Deme} {o : String} {t : Num} {i j : Int} :
    ∀ (aks : List (String × Nat)) (n : Nat), Event.join o t i j ∈ ancDemeEvs g d n aks →
      t = Num.ofETime d.startTime ∧ ((n : Int) < i ∨ i = idOf g d.name)
  | [], _, h => by simp [ancDemeEvs] at h
  | (a, k) :: r, n, h => by
    simp only [ancDemeEvs] at h
    split at h
    · rcases List.mem_cons.1 h with h | h
      · cases h; exact ⟨rfl, Or.inr rfl⟩
      · exact join_mem_ancDemeEvs r n h
    · rcases List.mem_cons.1 h with h | h
      · cases h
      · rcases List.mem_cons.1 h with h | h
        · cases h; exact ⟨rfl, Or.inl (by omega)⟩
        · obtain ⟨h1, h2⟩ := join_mem_ancDemeEvs r (n + 1) h
          exact ⟨h1, h2.imp (fun h => by omega) id⟩

theorem join_mem_ancEvs {g : Graph} {o : String} {t : Num} {i j : Int} :
    ∀ (xs : List DemeOrPulse) (n : Nat), Event.join o t i j ∈ ancEvs g n xs →
      (n : Int) < i ∨ ∃ d, DemeOrPulse.deme d ∈ xs ∧ i = idOf g d.name ∧ t = Num.ofETime d.startTime
  | [], _, h => by simp [ancEvs] at h
  | .deme d :: r, n, h => by
    simp only [ancEvs, List.mem_append] at h
    rcases h with h | h
    · obtain ⟨h1, h2⟩ := join_mem_ancDemeEvs _ _ h
      rcases h2 with h2 | h2
      · exact Or.inl h2
      · exact Or.inr ⟨d, List.mem_cons_self, h2, h1⟩
    · rcases join_mem_ancEvs r _ h with h' | ⟨d', hd', h'⟩
      · left
        have := ancDemeCount_ge d d.ancestors.zipIdx n
        omega
      · exact Or.inr ⟨d', List.mem_cons_of_mem _ hd', h'⟩
  | .pulse p :: r, n, h => by
    simp only [ancEvs, List.mem_append, pulseEvs, List.mem_cons, List.not_mem_nil, or_false] at h
    rcases h with (h | h) | h
    · cases h
    · cases h; left; omega
    · rcases join_mem_ancEvs r _ h with h' | ⟨d', hd', h'⟩
      · left; omega
      · exact Or.inr ⟨d', List.mem_cons_of_mem _ hd', h'⟩

/-! ### the order of `sorted(reversed(pulses) + demes)` -/

def isDeme : DemeOrPulse → Bool
  | .deme _ => true
  | .pulse _ => false

def rawDps (g : Graph) : List DemeOrPulse := g.pulses.reverse.map DemeOrPulse.pulse ++ g.demes.map DemeOrPulse.deme

theorem dps_eq (g : Graph) : dps g = sortBy leKey (rawDps g) := rfl

/-- the elements of one key keep the order "pulses (reversed), then demes (graph order)" -/
theorem dps_filter_key (g : Graph) (k : ETime) :
    (dps g).filter (fun x => decide (x.key = k))
      = (g.pulses.reverse.filter (fun p => decide (ETime.fin p.time = k))).map DemeOrPulse.pulse
        ++ (g.demes.filter (fun d => decide (d.startTime = k))).map DemeOrPulse.deme := by
  rw [dps_eq, sortBy_filter totalPre_leKey]
  have hs : Sorted leKey ((rawDps g).filter (fun x => decide (x.key = k))) := by
    unfold Sorted
    rw [List.pairwise_iff_forall_sublist]
    intro a b hab
    have ha := (List.mem_filter.1 (hab.subset List.mem_cons_self)).2
    have hb := (List.mem_filter.1 (hab.subset (List.mem_cons_of_mem _ List.mem_cons_self))).2
    simp only [decide_eq_true_eq] at ha hb
    simp only [leKey, ha, hb, decide_eq_true_eq]
    exact et_le_refl k
  rw [sortBy_of_sorted _ hs, rawDps, List.filter_append, List.filter_map, List.filter_map]
  rfl

/-- in `dps`, a pulse never comes after a deme with the same key -/
theorem dps_pulse_first (g : Graph) :
    (dps g).Pairwise (fun x y => ∀ d p, x = .deme d → y = .pulse p → d.startTime ≠ ETime.fin p.time) := by
  rw [List.pairwise_iff_forall_sublist]
  intro x y hsub d p hx hy hkey
  subst hx hy
  have h1 := List.Sublist.filter (fun x => decide (x.key = d.startTime)) hsub
  have hf : [DemeOrPulse.deme d, DemeOrPulse.pulse p].filter (fun x => decide (x.key = d.startTime))
      = [DemeOrPulse.deme d, DemeOrPulse.pulse p] := by
    simp [DemeOrPulse.key, hkey]
  rw [hf, dps_filter_key, List.sublist_append_iff] at h1
  obtain ⟨l1, l2, hl, h1', h2'⟩ := h1
  cases l1 with
  | nil =>
    simp only [List.nil_append] at hl
    rw [← hl] at h2'
    have := h2'.subset (List.mem_cons_of_mem _ List.mem_cons_self)
    obtain ⟨d', _, hd'⟩ := List.mem_map.1 this
    cases hd'
  | cons a l1 =>
    simp only [List.cons_append, List.cons.injEq] at hl
    have := h1'.subset List.mem_cons_self
    rw [← hl.1] at this
    obtain ⟨p', _, hp'⟩ := List.mem_map.1 this
    cases hp'

/-- the demes of `dps` have pairwise distinct names -/
theorem dps_names {g : Graph} (hn : (g.demes.map (·.name)).Nodup) :
    (dps g).Pairwise (fun x y => ∀ d d', x = .deme d → y = .deme d' → d.name ≠ d'.name) := by
  have hsym : ∀ {x y : DemeOrPulse}, (∀ d d', x = .deme d → y = .deme d' → d.name ≠ d'.name) →
      (∀ d d', y = .deme d → x = .deme d' → d.name ≠ d'.name) := by
    intro x y h d d' hy hx hne
    exact h d' d hx hy hne.symm
  rw [dps_eq, List.Perm.pairwise_iff hsym (sortBy_perm leKey (rawDps g)), rawDps, List.pairwise_append]
  refine ⟨?_, ?_, ?_⟩
  · rw [List.pairwise_map]
    rw [List.pairwise_iff_forall_sublist]
    intro a b _ d d' h
    cases h
  · rw [List.pairwise_map]
    have : g.demes.Pairwise (fun a b => a.name ≠ b.name) := by
      have := hn
      unfold List.Nodup at this
      rw [List.pairwise_map] at this
      exact this
    exact this.imp (fun h d d' hd hd' => by cases hd; cases hd'; exact h)
  · intro x hx y hy d d' hxd
    obtain ⟨p, _, hp⟩ := List.mem_map.1 hx
    rw [← hp] at hxd; cases hxd

/-! ### the populations an option addresses -/

def targets : Event Growth → List Int
  | .popSizeChange _ _ i _ => [i]
  | .popGrowthRateChange _ _ i _ => [i]
  | .migEntryChange _ _ i j _ => [i, j]
  | .split _ _ i _ => [i]
  | .join _ _ i j => [i, j]
  | _ => []

def isJoinOf (i : Int) : Event Growth → Bool
  | .join _ _ i' _ => i' = i
  | _ => false

/-- inside the options of one deme, every `-ej` that is not the last option joins a population
created by this walk -/
theorem block_joins_new {g : Graph} {d : Deme} :
    ∀ (aks : List (String × Nat)) (n : Nat),
      (∀ pre ak post, aks = pre ++ ak :: post → post ≠ [] → ak.2 ≠ d.ancestors.length - 1) →
      ∀ A e B, ancDemeEvs g d n aks = A ++ e :: B →
        ∀ o t i j, Event.join o t i j ∈ A → (n : Int) < i
  | [], _, _, A, e, B, h => by simp [ancDemeEvs] at h
  | (a, k) :: r, n, hP, A, e, B, h => by
    intro o t i j hx
    by_cases hl : k = d.ancestors.length - 1
    · have hr : r = [] := by
        cases r with
        | nil => rfl
        | cons y r' => exact absurd hl (hP [] (a, k) (y :: r') rfl (by simp))
      subst hr
      simp only [ancDemeEvs, hl, if_true] at h
      cases A with
      | nil => cases hx
      | cons x A' =>
        simp only [List.cons_append, List.cons.injEq] at h
        have := h.2
        simp at this
    · simp only [ancDemeEvs, hl, if_false] at h
      have hP' : ∀ pre ak post, r = pre ++ ak :: post → post ≠ [] → ak.2 ≠ d.ancestors.length - 1 :=
        fun pre ak post hr => hP ((a, k) :: pre) ak post (by rw [hr]; rfl)
      cases A with
      | nil => cases hx
      | cons x A' =>
        simp only [List.cons_append, List.cons.injEq] at h
        obtain ⟨rfl, h⟩ := h
        cases A' with
        | nil =>
          simp only [List.mem_singleton] at hx
          cases hx
        | cons y A'' =>
          simp only [List.cons_append, List.cons.injEq] at h
          obtain ⟨rfl, h⟩ := h
          rcases List.mem_cons.1 hx with hx | hx
          · cases hx
          · rcases List.mem_cons.1 hx with hx | hx
            · cases hx; omega
            · have := block_joins_new r (n + 1) hP' A'' e B h o t i j hx
              omega

theorem zipIdx_last_only {α} (l : List α) :
    ∀ pre (ak : α × Nat) post, l.zipIdx = pre ++ ak :: post → post ≠ [] → ak.2 ≠ l.length - 1 := by
  intro pre ak post h hne
  have hlen : l.zipIdx.length = l.length := by simp
  have hidx : l.zipIdx[pre.length]? = some ak := by rw [h]; simp
  have h2 : ak.2 = pre.length := by
    rw [List.getElem?_zipIdx] at hidx
    cases hl : l[pre.length]? with
    | none => rw [hl] at hidx; simp at hidx
    | some v => rw [hl] at hidx; simp at hidx; rw [← hidx]
  have h3 : pre.length + 1 + post.length = l.length := by
    rw [← hlen, h]; simp; omega
  have : 0 < post.length := List.length_pos_iff.mpr hne
  omega

/-- the graph populations an element of `dps` uses -/
def Uses (g : Graph) : DemeOrPulse → Int → Prop
  | .deme d, i => i = idOf g d.name ∨ ∃ a ∈ d.ancestors, i = idOf g a
  | .pulse p, i => i = idOf g p.dest ∨ i = idOf g (p.sources.headD "")

theorem targets_ancDemeEvs {g : Graph} {d : Deme} {ev : Event Growth} :
    ∀ (aks : List (String × Nat)) (n : Nat), ev ∈ ancDemeEvs g d n aks →
      ∀ i ∈ targets ev, (n : Int) < i ∨ i = idOf g d.name ∨ ∃ ak ∈ aks, i = idOf g ak.1
  | [], _, h => by simp [ancDemeEvs] at h
  | (a, k) :: r, n, h => by
    intro i hi
    have hrec : ∀ n', ev ∈ ancDemeEvs g d n' r → n ≤ n' →
        (n : Int) < i ∨ i = idOf g d.name ∨ ∃ ak ∈ (a, k) :: r, i = idOf g ak.1 := by
      intro n' h' hn
      rcases targets_ancDemeEvs r n' h' i hi with h1 | h1 | ⟨ak, hak, h1⟩
      · left; omega
      · exact Or.inr (Or.inl h1)
      · exact Or.inr (Or.inr ⟨ak, List.mem_cons_of_mem _ hak, h1⟩)
    simp only [ancDemeEvs] at h
    split at h
    · rcases List.mem_cons.1 h with h | h
      · subst h
        simp only [targets, List.mem_cons, List.not_mem_nil, or_false] at hi
        rcases hi with rfl | rfl
        · exact Or.inr (Or.inl rfl)
        · exact Or.inr (Or.inr ⟨(a, k), List.mem_cons_self, rfl⟩)
      · exact hrec n h (Nat.le_refl _)
    · rcases List.mem_cons.1 h with h | h
      · subst h
        simp only [targets, List.mem_cons, List.not_mem_nil, or_false] at hi
        subst hi
        exact Or.inr (Or.inl rfl)
      · rcases List.mem_cons.1 h with h | h
        · subst h
          simp only [targets, List.mem_cons, List.not_mem_nil, or_false] at hi
          rcases hi with rfl | rfl
          · left; omega
          · exact Or.inr (Or.inr ⟨(a, k), List.mem_cons_self, rfl⟩)
        · exact hrec (n + 1) h (Nat.le_succ _)

theorem targets_ancEvs {g : Graph} {ev : Event Growth} :
    ∀ (xs : List DemeOrPulse) (n : Nat), ev ∈ ancEvs g n xs →
      ∀ i ∈ targets ev, (n : Int) < i ∨ ∃ y ∈ xs, Uses g y i
  | [], _, h => by simp [ancEvs] at h
  | .deme d :: r, n, h => by
    intro i hi
    simp only [ancEvs, List.mem_append] at h
    rcases h with h | h
    · rcases targets_ancDemeEvs _ _ h i hi with h1 | h1 | ⟨ak, hak, h1⟩
      · exact Or.inl h1
      · exact Or.inr ⟨_, List.mem_cons_self, Or.inl h1⟩
      · exact Or.inr ⟨_, List.mem_cons_self, Or.inr ⟨ak.1, (mem_zipIdx_anc hak).1, h1⟩⟩
    · rcases targets_ancEvs r _ h i hi with h1 | ⟨y, hy, h1⟩
      · left
        have := ancDemeCount_ge d d.ancestors.zipIdx n
        omega
      · exact Or.inr ⟨y, List.mem_cons_of_mem _ hy, h1⟩
  | .pulse p :: r, n, h => by
    intro i hi
    simp only [ancEvs, List.mem_append, pulseEvs, List.mem_cons, List.not_mem_nil, or_false] at h
    rcases h with (h | h) | h
    · subst h
      simp only [targets, List.mem_cons, List.not_mem_nil, or_false] at hi
      subst hi
      exact Or.inr ⟨_, List.mem_cons_self, Or.inl rfl⟩
    · subst h
      simp only [targets, List.mem_cons, List.not_mem_nil, or_false] at hi
      rcases hi with rfl | rfl
      · left; omega
      · exact Or.inr ⟨_, List.mem_cons_self, Or.inr rfl⟩
    · rcases targets_ancEvs r _ h i hi with h1 | ⟨y, hy, h1⟩
      · left; omega
      · exact Or.inr ⟨y, List.mem_cons_of_mem _ hy, h1⟩

end Demes.Proofs.ToMs
