/-
  Pointwise relations used in the statements of C10–C15.
-/
import DemesVerif.Spec.Valid
import DemesVerif.Model.Views
namespace Demes.Spec
open Demes

/-- index of the migration matrix whose interval `[ends[k], ends[k-1])` contains `t`:
the first `k` with `ends[k] ≤ t` -/
def intervalOf (ends : List Q) (t : Q) : Option Nat := ends.findIdx? (fun e => decide (e ≤ t))

/-- rate of the migration `src → dst` active at `t`, 0 when none is -/
def rateAt (g : Graph) (src dst : String) (t : Q) : Q :=
  match g.migrations.find? (fun m => m.source == src && m.dest == dst && activeAt m t) with
  | some m => m.rate
  | none => 0

/-- `t` lies in the deme's lifetime `(start, end]` (start exclusive, end inclusive) -/
def alive (d : Deme) (t : Q) : Prop := ETime.fin t < d.startTime ∧ d.endTime ≤ t

/-- `t` lies in the epoch `(start, end]` -/
def inEpoch (e : Epoch) (t : Q) : Prop := ETime.fin t < e.startTime ∧ e.endTime ≤ t

end Demes.Spec
