/-
  C19 — the command line prints exactly what the library would.

  Model (`Model/Cli.lean`): `Cli.parse lib flags docs` is `ParseCommand.__call__` on a file whose
  documents, as `demes.load_all` delivers them one `next()` at a time, are `docs : List Doc`
  (`Doc.ok g`: graph `g` is yielded; `Doc.fail`: `load_all` raises there and nothing after it is
  read).  Its result is the list of library calls whose output has been written to stdout
  (`printed`) and how the process ends (`exit`).  `lib c = true` means the library call `c`
  returns normally (e.g. `to_ms` raises for `N0 = 0` or for a graph ms cannot express).

  Spec (`Spec/C19.lean`): `loaded docs` = the graphs `list(load_all(file))` yields before a
  failure, `loadFails docs` = some document fails, `failPos docs` = its 1-based position,
  `libraryCall f g` = the library call the property names for the flags, `expected f gs` = what
  must be printed for a file with exactly the graphs `gs` (`none` = unsupported combination),
  `Iterates next s gs raised` = iterating `next` from `s` yields exactly `gs` then stops/raises.
-/
import DemesVerif.Proofs.Cli
namespace Demes.Theorems
open Demes Demes.Cli Demes.Spec.C19

/-- The Spec's reading of the stream is what iterating the generator gives: the graphs before the
first failing document, then `StopIteration` or the exception. -/
theorem iterates_load_all (docs : List Doc) :
    Iterates genNext docs (loaded docs) (loadFails docs) :=
  Proofs.Cli.iterates_gen docs

/-- The look-ahead loses, duplicates and reorders nothing, for every stream (every length, with
or without a failing document): the chained iterator returned by `load_and_count_documents` holds
exactly the original stream in order, and iterating it behaves exactly like iterating a fresh
generator over the file (same graphs, same end). -/
theorem lookahead_preserves (docs : List Doc) (n : Nat) (c : Chain)
    (h : loadAndCount docs = some (n, c)) :
    c.buffered.map Doc.ok ++ c.gen = docs
      ∧ ∀ gs r, Iterates Chain.next c gs r ↔ Iterates genNext docs gs r :=
  Proofs.Cli.lookahead_preserves docs n c h

/-- The reported count is 0, 1 or "2 = two or more": `min 2 (number of documents)`. -/
theorem lookahead_count (docs : List Doc) (n : Nat) (c : Chain)
    (h : loadAndCount docs = some (n, c)) : n = min 2 docs.length :=
  (Proofs.Cli.lookahead_stream docs n c h).2

/-- The look-ahead itself raises exactly when the first or second document fails. -/
theorem lookahead_fails (docs : List Doc) :
    loadAndCount docs = none ↔ (loadFails docs = true ∧ failPos docs ≤ 2) :=
  Proofs.Cli.lookahead_fails docs

/-- A file whose documents all load (`gs`, any number) and whose library calls return: exactly
the expected calls are printed, in order, with exit status 0 — nothing for an empty file, the one
library call for one graph, `dump_all` of exactly those graphs for several graphs as YAML; several
graphs with JSON or ms output end with the error and nothing printed. -/
theorem parse_output (lib : Call → Bool) (f : Flags) (gs : List Nat)
    (hl : ∀ cs, expected f gs = some cs → ∀ c ∈ cs, lib c = true) :
    parse lib f (gs.map Doc.ok)
      = match expected f gs with
        | some cs => ⟨cs, .exit0⟩
        | none => ⟨[], .unsupported⟩ :=
  Proofs.Cli.parse_output lib f gs hl

/-- 0 documents: nothing is printed, exit status 0. -/
theorem parse_zero (lib : Call → Bool) (f : Flags) : parse lib f [] = ⟨[], .exit0⟩ :=
  Proofs.Cli.parse_nil lib f

/-- 1 document with `--ms n0`: exactly `to_ms(g, N0=n0)`, whatever `n0` (0 included) and
whatever `-s`. -/
theorem parse_one_ms (lib : Call → Bool) (j s : Bool) (n0 : Q) (g : Nat)
    (hl : lib (.toMs g n0) = true) :
    parse lib ⟨j, some n0, s⟩ [.ok g] = ⟨[.toMs g n0], .exit0⟩ :=
  Proofs.Cli.parse_one_ms lib j s n0 g hl

/-- 1 document without `--ms`: exactly `dump(g, format=json|yaml, simplified=s)`. -/
theorem parse_one_dump (lib : Call → Bool) (j s : Bool) (g : Nat)
    (hl : lib (.dump g (if j then .json else .yaml) s) = true) :
    parse lib ⟨j, none, s⟩ [.ok g] = ⟨[.dump g (if j then .json else .yaml) s], .exit0⟩ :=
  Proofs.Cli.parse_one_dump lib j s g hl

/-- ≥ 2 documents, YAML: `dump_all` of exactly those graphs, in order, with the given
`simplified`. -/
theorem parse_many_yaml (lib : Call → Bool) (s : Bool) (g h : Nat) (gs : List Nat)
    (hl : ∀ x ∈ g :: h :: gs, lib (.dumpAllDoc x s) = true) :
    parse lib ⟨false, none, s⟩ ((g :: h :: gs).map Doc.ok)
      = ⟨(g :: h :: gs).map (fun x => Call.dumpAllDoc x s), .exit0⟩ :=
  Proofs.Cli.parse_many_yaml lib s g h gs hl

/-- ≥ 2 loadable documents at the head of the file with `-j` or `--ms` (any reference size, 0
included): the error, and NOTHING printed — whatever follows the first two documents. -/
theorem parse_many_unsupported (lib : Call → Bool) (f : Flags) (g h : Nat) (r : List Doc)
    (hf : f.json = true ∨ f.ms.isSome = true) :
    parse lib f (.ok g :: .ok h :: r) = ⟨[], .unsupported⟩ :=
  Proofs.Cli.parse_many_unsupported' lib f g h r hf

/-- A failing document at any position gives a non-zero exit, whatever the flags. -/
theorem parse_error_exit (lib : Call → Bool) (f : Flags) (docs : List Doc)
    (h : loadFails docs = true) : (parse lib f docs).exit ≠ .exit0 :=
  Proofs.Cli.parse_error_exit lib f docs h

/-- … and when it is the first or second document, nothing at all has been printed. -/
theorem parse_error_early (lib : Call → Bool) (f : Flags) (docs : List Doc)
    (h : loadFails docs = true) (hp : failPos docs ≤ 2) : parse lib f docs = ⟨[], .loadError⟩ :=
  Proofs.Cli.parse_error_early lib f docs h hp

/-- A failing third-or-later document: with JSON/ms output the unsupported-combination error and
nothing printed; with YAML output the documents before it have already been written by
`dump_all` when the error ends the process (partial output, non-zero exit). -/
theorem parse_error_late (lib : Call → Bool) (f : Flags) (docs : List Doc)
    (h : loadFails docs = true) (hp : 2 < failPos docs) :
    (wantsYaml f = false → parse lib f docs = ⟨[], .unsupported⟩)
    ∧ (wantsYaml f = true → (∀ g ∈ loaded docs, lib (.dumpAllDoc g f.simplified) = true) →
        parse lib f docs
          = ⟨(loaded docs).map (fun g => Call.dumpAllDoc g f.simplified), .loadError⟩) :=
  Proofs.Cli.parse_error_late lib f docs h hp

/-- A library call that raises ends the process with an error, nothing of it counted as printed. -/
theorem parse_lib_error_one (lib : Call → Bool) (f : Flags) (g : Nat)
    (h : lib (libraryCall f g) = false) :
    parse lib f [.ok g] = ⟨[], .libError (libraryCall f g)⟩ :=
  Proofs.Cli.parse_lib_error_one lib f g h

/-- Exit status 0 ⇒ the output is complete: every document of the input loaded, the combination
is supported, the printed calls are exactly the expected ones for ALL the documents in order, and
each of them returned. -/
theorem success_complete (lib : Call → Bool) (f : Flags) (docs : List Doc) :
    (parse lib f docs).exit = .exit0 →
      docs = (loaded docs).map Doc.ok ∧ expected f (loaded docs) = some (parse lib f docs).printed
        ∧ ∀ c ∈ (parse lib f docs).printed, lib c = true :=
  Proofs.Cli.success_complete lib f docs

/-- Whatever the outcome, what has been written is a prefix of what the library prints for the
loadable documents (nothing when the combination is unsupported), and every written call
returned. -/
theorem parse_printed_prefix (lib : Call → Bool) (f : Flags) (docs : List Doc) :
    (∀ c ∈ (parse lib f docs).printed, lib c = true)
    ∧ match expected f (loaded docs) with
      | some cs => (parse lib f docs).printed <+: cs
      | none => (parse lib f docs).printed = [] :=
  Proofs.Cli.parse_printed_prefix lib f docs

/-- `-j` together with `--ms`: refused before anything is read or printed. -/
theorem cli_exclusive (lib : Call → Bool) (f : Flags) (fileOk : Bool) (docs : List Doc)
    (hj : f.json = true) (hm : f.ms.isSome = true) :
    cli lib (.parse f fileOk docs) = ⟨[], .usage⟩ :=
  Proofs.Cli.cli_exclusive lib f fileOk docs hj hm

/-- Otherwise `demes parse` on a file that opens is `ParseCommand.__call__`. -/
theorem cli_parse (lib : Call → Bool) (f : Flags) (docs : List Doc)
    (h : ¬ (f.json = true ∧ f.ms.isSome = true)) :
    cli lib (.parse f true docs) = parse lib f docs :=
  Proofs.Cli.cli_parse lib f docs h

/-- `demes ms -N0 n <args>`: the simplified YAML (`dump`'s default) of the graph that the
conversion returns, and nothing else. -/
theorem ms_output (lib : Call → Bool) (g : Nat) :
    cli lib (.ms (.ok g))
      = if lib (.dump g .yaml true) then ⟨[.dump g .yaml true], .exit0⟩
        else ⟨[], .libError (.dump g .yaml true)⟩ :=
  Proofs.Cli.ms_output lib g

/-- `demes ms` on arguments the conversion refuses: an error, nothing printed. -/
theorem ms_error (lib : Call → Bool) : cli lib (.ms .fail) = ⟨[], .loadError⟩ :=
  Proofs.Cli.ms_error lib

/-! ### non-vacuity / regression examples (closed instances) -/

section
/-- every library call returns -/
private def allOk : Call → Bool := fun _ => true
/-- `to_ms` raises (e.g. `N0 = 0`), everything else returns -/
private def msRaises : Call → Bool := fun c => match c with | .toMs _ _ => false | _ => true

-- the look-ahead on streams of length 0 … 5: count and chain
example : loadAndCount [] = some (0, ⟨[], []⟩) := by decide +kernel
example : loadAndCount [.ok 1] = some (1, ⟨[1], []⟩) := by decide +kernel
example : loadAndCount [.ok 1, .ok 2] = some (2, ⟨[1, 2], []⟩) := by decide +kernel
example : loadAndCount [.ok 1, .ok 2, .ok 3, .ok 4, .ok 5] = some (2, ⟨[1, 2], [.ok 3, .ok 4, .ok 5]⟩) := by
  decide +kernel
example : loadAndCount [.ok 1, .ok 2, .fail, .ok 4] = some (2, ⟨[1, 2], [.fail, .ok 4]⟩) := by
  decide +kernel
example : loadAndCount [.ok 1, .fail, .ok 3] = none ∧ failPos [.ok 1, .fail, .ok 3] = 2
    ∧ loadFails [.ok 1, .fail, .ok 3] = true := by decide +kernel
-- F11 regression: `--ms 0` selects ms output for one document …
example : parse allOk ⟨false, some 0, false⟩ [.ok 7] = ⟨[.toMs 7 0], .exit0⟩ := by decide +kernel
-- … and with two documents it is the unsupported combination, nothing printed
example : parse allOk ⟨false, some 0, false⟩ [.ok 7, .ok 8] = ⟨[], .unsupported⟩ := by
  decide +kernel
example : parse allOk ⟨false, some 100, true⟩ [.ok 7] = ⟨[.toMs 7 100], .exit0⟩ := by
  decide +kernel
example : parse msRaises ⟨false, some 0, false⟩ [.ok 7] = ⟨[], .libError (.toMs 7 0)⟩ := by
  decide +kernel
-- one document, the four dump variants
example : parse allOk ⟨false, none, false⟩ [.ok 7] = ⟨[.dump 7 .yaml false], .exit0⟩
    ∧ parse allOk ⟨false, none, true⟩ [.ok 7] = ⟨[.dump 7 .yaml true], .exit0⟩
    ∧ parse allOk ⟨true, none, false⟩ [.ok 7] = ⟨[.dump 7 .json false], .exit0⟩
    ∧ parse allOk ⟨true, none, true⟩ [.ok 7] = ⟨[.dump 7 .json true], .exit0⟩ := by decide +kernel
-- five documents as YAML: all five, in order, with the flag passed on
example : parse allOk ⟨false, none, true⟩ [.ok 1, .ok 2, .ok 3, .ok 4, .ok 5]
    = ⟨[.dumpAllDoc 1 true, .dumpAllDoc 2 true, .dumpAllDoc 3 true, .dumpAllDoc 4 true,
        .dumpAllDoc 5 true], .exit0⟩ := by decide +kernel
example : parse allOk ⟨true, none, false⟩ [.ok 1, .ok 2, .ok 3] = ⟨[], .unsupported⟩ := by
  decide +kernel
-- a failing 4th document: three documents already written, error exit
example : parse allOk ⟨false, none, false⟩ [.ok 1, .ok 2, .ok 3, .fail, .ok 5]
    = ⟨[.dumpAllDoc 1 false, .dumpAllDoc 2 false, .dumpAllDoc 3 false], .loadError⟩
    ∧ loadFails [.ok 1, .ok 2, .ok 3, .fail, .ok 5] = true
    ∧ failPos [.ok 1, .ok 2, .ok 3, .fail, .ok 5] = 4 := by decide +kernel
-- a failing 2nd / 1st document: nothing written
example : parse allOk ⟨false, none, false⟩ [.ok 1, .fail, .ok 3] = ⟨[], .loadError⟩
    ∧ parse allOk ⟨false, none, false⟩ [.fail] = ⟨[], .loadError⟩ := by decide +kernel
-- the hypotheses of `parse_output` / `parse_error_late` are satisfiable
example : expected ⟨false, none, true⟩ [1, 2, 3]
    = some [.dumpAllDoc 1 true, .dumpAllDoc 2 true, .dumpAllDoc 3 true]
    ∧ expected ⟨true, none, true⟩ [1, 2, 3] = none
    ∧ expected ⟨false, some 0, true⟩ [1] = some [.toMs 1 0]
    ∧ expected ⟨false, none, false⟩ [] = some [] := by decide +kernel
-- the command line
example : cli allOk (.parse ⟨true, some 1, false⟩ true [.ok 1]) = ⟨[], .usage⟩
    ∧ cli allOk (.parse ⟨true, none, false⟩ true [.ok 1]) = ⟨[.dump 1 .json false], .exit0⟩
    ∧ cli allOk (.ms (.ok 3)) = ⟨[.dump 3 .yaml true], .exit0⟩
    ∧ cli allOk .noSub = ⟨[.help], .usage⟩ := by decide +kernel
end

end Demes.Theorems
