#!/usr/bin/env python3
"""Rebuild lean/registry.json: every `theorem` of the listed Theorems/*.lean files (namespace
Demes.Theorems) plus the table/fact obligations each property depends on."""
import json, os, re
LEAN = os.path.join(os.path.dirname(os.path.dirname(os.path.abspath(__file__))), "lean")
FILES = {
    "C01": ["C01", "C01Ops"], "C02": ["C02"], "C03": ["C03"], "C04": ["C04"], "C05": ["C05"], "C06": ["C06"],
    "C07": ["C07"], "C08": ["C08"], "C09": ["C09"], "C10": ["C10"], "C11": ["C11"], "C12": ["C12"],
    "C13": ["C13", "C13Real"], "C14": ["C14"], "C15": ["C15"], "C16": ["C16"], "C17": ["C17"], "C18": ["C18"],
    "C19": ["C19"], "C20": ["C20"],
}
T = lambda mod, names: [{"module": f"DemesVerif.Theorems.{mod}", "name": f"Demes.Tables.{n}"} for n in names]
RESOLVE_TABLES = ["tables_allowed_top", "tables_allowed_defaults", "tables_allowed_deme", "tables_allowed_local_defaults",
                  "tables_allowed_epoch", "tables_allowed_migration", "tables_allowed_pulse", "tables_defaults_deme",
                  "tables_defaults_migration", "tables_defaults_pulse", "tables_defaults_epoch", "tables_defaults_local_epoch",
                  "tables_class_epoch", "tables_class_migration", "tables_class_pulse", "tables_class_deme", "tables_class_graph",
                  "tables_validators_interpreted"]
EVENT_TABLES = ["tables_class_split", "tables_class_branch", "tables_class_merge", "tables_class_admix"]
MS_TABLES = ["tables_ms_parser", "tables_ms_structure", "tables_ms_event", "tables_ms_growth", "tables_ms_pop_growth", "tables_ms_size",
             "tables_ms_pop_size", "tables_ms_mig_rate", "tables_ms_mig_entry", "tables_ms_mig_matrix", "tables_ms_split", "tables_ms_join",
             "tables_ms_float_str"]
EXTRA = {
    "C01": T("TablesResolve", RESOLVE_TABLES) + T("TablesConst", ["tables_rel_tol"]),
    "C02": T("TablesResolve", RESOLVE_TABLES),
    "C03": T("TablesResolve", RESOLVE_TABLES) + T("TablesConst", ["tables_rel_tol"]),
    "C05": T("TablesResolve", RESOLVE_TABLES[:7]),
    "C06": T("TablesResolve", RESOLVE_TABLES[:7]),
    "C07": T("TablesMs", MS_TABLES), "C08": T("TablesMs", MS_TABLES), "C09": T("TablesMs", MS_TABLES),
    "C10": T("TablesConst", ["tables_rel_tol", "tables_abs_tol"]),
    "C11": T("TablesFacts", ["fact_in_generations_copies_first"]),
    "C12": T("TablesConst", ["tables_rel_tol"]),
    "C13": T("TablesConst", ["tables_rel_tol"]),
    "C14": T("TablesResolve", EVENT_TABLES),
    "C15": T("TablesFacts", ["fact_rename_demes_copies_first"]),
    "C18": T("TablesFacts", ["fact_fromdict_copies_first", "fact_builder_resolve_passes_data", "fact_fromdict_copy_is_unaliased", "fact_deepcopy_unaliased_shape", "fact_builder_resolve_only_passes_data"]),
    "C19": T("TablesMs", ["tables_cli_parse_flags", "tables_cli_parse_tests"]),
}
# theorems of other properties that a property's level rests on
BORROW = {"C03": [("C01", "resolve_valid"), ("C06", "resolve_asdict")], "C01": [("C08", "C08.fromMs_valid_all")],
          "C02": [("C03", "resolve_eq_fill"), ("C18", "resolve_alias_insensitive")]}
reg = {}
for pid, mods in FILES.items():
    entries = []
    for m in mods:
        p = os.path.join(LEAN, "DemesVerif", "Theorems", m + ".lean")
        if not os.path.exists(p):
            continue
        src = open(p, encoding="utf-8").read()
        src = re.sub(r"/-.*?-/", "", src, flags=re.S)
        ns = re.search(r"^namespace\s+(\S+)", src, flags=re.M).group(1)
        for name in re.findall(r"^theorem\s+(\S+)", src, flags=re.M):
            entries.append({"module": f"DemesVerif.Theorems.{m}", "name": f"{ns}.{name}"})
    for (m, n) in BORROW.get(pid, []):
        entries.append({"module": f"DemesVerif.Theorems.{m}", "name": f"Demes.Theorems.{n}"})
    if entries:
        reg[pid] = entries + EXTRA.get(pid, [])
json.dump(reg, open(os.path.join(LEAN, "registry.json"), "w"), indent=1)
print({k: len(v) for k, v in reg.items()})
