/-
  C07 — one row of a lineage-movement matrix through the `-es` / `-ej` options of a time group,
  and through the pulses and births of the graph at that time.
-/
import DemesVerif.Proofs.ToMsRows
import DemesVerif.Proofs.ToMsArith
import DemesVerif.Proofs.ToMsSemMig3
set_option linter.unusedSimpArgs false
set_option linter.unusedVariables false
namespace Demes.Proofs.ToMs
open Demes Demes.Ms Demes.Spec Demes.Spec.C07 Demes.Proofs.RV
open Demes.Spec.MsSem

/-! ### the ms side, one row at a time -/

def rowStep (n : Nat) (r : Row) (e : Event Growth) : Row :=
  match e with
  | .split _ _ i (.fin p) => (r.set i.toNat (r.get i.toNat * p)).set (n + 1) (r.get i.toNat * (1 - p))
  | .join _ _ i j => (r.set i.toNat 0).add j.toNat (r.get i.toNat)
  | _ => r

def countStep (n : Nat) (e : Event Growth) : Nat :=
  match e with
  | .split _ _ _ (.fin _) => n + 1
  | _ => n

def rowFold : Nat → Row → List (Event Growth) → Row
  | _, r, [] => r
  | n, r, e :: es => rowFold (countStep n e) (rowStep n r e) es

def countFold : Nat → List (Event Growth) → Nat
  | n, [] => n
  | n, e :: es => countFold (countStep n e) es

theorem stepRow_eq (n : Nat) (L : List (Nat × Row)) (e : Event Growth) :
    stepRow (n, L) e = (countStep n e, L.map (fun ir => (ir.1, rowStep n ir.2 e))) := by
  cases e with
  | split o t i p => cases p <;> simp [stepRow, countStep, rowStep]
  | join o t i j => simp [stepRow, countStep, rowStep]
  | _ => simp [stepRow, countStep, rowStep]

theorem foldl_stepRow : ∀ (evs : List (Event Growth)) (n : Nat) (L : List (Nat × Row)),
    evs.foldl stepRow (n, L) = (countFold n evs, L.map (fun ir => (ir.1, rowFold n ir.2 evs)))
  | [], n, L => by simp [countFold, rowFold]
  | e :: es, n, L => by
    rw [List.foldl_cons, stepRow_eq, foldl_stepRow es]
    simp [countFold, rowFold, List.map_map, Function.comp_def]

theorem rowFold_append : ∀ (a b : List (Event Growth)) (n : Nat) (r : Row),
    rowFold n r (a ++ b) = rowFold (countFold n a) (rowFold n r a) b
  | [], _, _, _ => rfl
  | e :: a, b, n, r => by simp only [List.cons_append, rowFold, countFold]; exact rowFold_append a b _ _

theorem rowStep_scale (N0 : Q) (n : Nat) (r : Row) (e : Event Growth) : rowStep n r (scaleEv N0 e) = rowStep n r e := by
  cases e with
  | split o t i p => cases p <;> rfl
  | _ => rfl

theorem countStep_scale (N0 : Q) (n : Nat) (e : Event Growth) : countStep n (scaleEv N0 e) = countStep n e := by
  cases e with
  | split o t i p => cases p <;> rfl
  | _ => rfl

theorem rowFold_scale (N0 : Q) : ∀ (evs : List (Event Growth)) (n : Nat) (r : Row),
    rowFold n r (evs.map (scaleEv N0)) = rowFold n r evs
  | [], _, _ => rfl
  | e :: es, n, r => by
    simp only [List.map_cons, rowFold, rowStep_scale, countStep_scale]
    exact rowFold_scale N0 es _ _

theorem keys_rowStep (n : Nat) (r : Row) (e : Event Growth) (h : (Keys r).Nodup) : (Keys (rowStep n r e)).Nodup := by
  cases e with
  | split o t i p =>
    cases p with
    | fin y => exact keys_set _ _ _ (keys_set _ _ _ h)
    | _ => exact h
  | join o t i j => exact keys_add _ _ _ (keys_set _ _ _ h)
  | _ => exact h

theorem keys_rowFold : ∀ (evs : List (Event Growth)) (n : Nat) (r : Row), (Keys r).Nodup → (Keys (rowFold n r evs)).Nodup
  | [], _, _, h => h
  | e :: es, n, r, h => keys_rowFold es _ _ (keys_rowStep n r e h)

/-! ### the proportion a row receives through a list of named sources -/

/-- total of the `ps` whose name has population number `k` -/
def contrib (g : Graph) : List String → List Q → Nat → Q
  | a :: l, p :: ps, k => (if pidOf g a = k then p else 0) + contrib g l ps k
  | _, _, _ => 0

theorem contrib_zero_of_not_mem {g : Graph} {k : Nat} : ∀ (l : List String) (ps : List Q),
    (∀ a ∈ l, pidOf g a ≠ k) → contrib g l ps k = 0
  | [], _, _ => by simp [contrib]
  | a :: l, [], _ => by simp [contrib]
  | a :: l, p :: ps, h => by
    simp only [contrib, h a List.mem_cons_self, if_false]
    rw [contrib_zero_of_not_mem l ps (fun b hb => h b (List.mem_cons_of_mem _ hb))]
    grind

/-- reading a row after the additions of the graph side -/
theorem get_foldl_add (g : Graph) (m : Q) : ∀ (l : List String) (ps : List Q) (r : Row) (k : Nat),
    (((l.map (pidOf g)).zip ps).foldl (fun (r : Row) ap => r.add ap.1 (m * ap.2)) r).get k
      = r.get k + m * contrib g l ps k
  | [], _, r, k => by simp [contrib, Arith.add_mul_zero]
  | a :: l, [], r, k => by simp [contrib, Arith.add_mul_zero]
  | a :: l, p :: ps, r, k => by
    simp only [List.map_cons, List.zip_cons_cons, List.foldl_cons, contrib]
    rw [get_foldl_add g m l ps, get_add]
    by_cases hk : k = pidOf g a
    · subst hk
      simp only [if_true]
      exact Arith.mul_add' _ _ _ _
    · have hk' : ¬ pidOf g a = k := fun h => hk h.symm
      simp only [hk, hk', if_false]
      rw [← Arith.mul_add' (r.get k) m 0 (contrib g l ps k)]
      grind

theorem keys_foldl_add (g : Graph) (m : Q) : ∀ (xs : List (Nat × Q)) (r : Row), (Keys r).Nodup →
    (Keys (xs.foldl (fun (r : Row) ap => r.add ap.1 (m * ap.2)) r)).Nodup
  | [], _, h => h
  | x :: xs, r, h => keys_foldl_add g m xs _ (keys_add _ _ _ h)

end Demes.Proofs.ToMs
