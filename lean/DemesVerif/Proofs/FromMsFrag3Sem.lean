/-
  C08, link C (movements), the third fragment — one time group that is a `GoodGroup3`: the facts at the end
  of its options (`group_end3`, a `GroupEnd` with its `Frag3` alternative), and `applyParams_sem3`: the ancestry
  and pulses that `applyParams` writes, read back by `groupMoves`, give the interpreter's movement rows.
-/
import DemesVerif.Proofs.FromMsApplySem
namespace Demes.Proofs.FromMs
open Demes Demes.Ms Demes.Spec.MsSem Demes.Spec.C08
open Demes.Proofs.RV (bind_ok pure_ok)

/-! ## the Boolean conditions of `GoodGroup3` -/

theorem good3_parts {n : Nat} {cmds : List Cmd} (h : GoodGroup3 n cmds = true) :
    Frag3 n (groupOps n cmds) ∧ ∀ c ∈ cmds, FracOK c := by
  unfold GoodGroup3 sourcesOld joinedNeverTarget at h
  simp only [Bool.and_eq_true, List.all_eq_true, Bool.or_eq_true, decide_eq_true_eq] at h
  refine ⟨⟨h.1.1, ?_⟩, ?_⟩
  · intro o ho hq o' ho'
    rcases h.1.2 o ho with h1 | h1
    · exact (h1 hq).elim
    · exact h1 o' ho'
  · intro c hc
    have := h.2 c hc
    cases c <;> first | trivial | (simpa [FracOK] using this)

theorem good3_of_parts {n : Nat} {cmds : List Cmd} (h1 : Frag3 n (groupOps n cmds)) (h2 : ∀ c ∈ cmds, FracOK c) :
    GoodGroup3 n cmds = true := by
  unfold GoodGroup3 sourcesOld joinedNeverTarget
  simp only [Bool.and_eq_true, List.all_eq_true, Bool.or_eq_true, decide_eq_true_eq]
  refine ⟨⟨h1.1, ?_⟩, ?_⟩
  · intro o ho
    by_cases hq : o.2.2 = 1
    · exact Or.inr (h1.2 o ho hq)
    · exact Or.inl hq
  · intro c hc
    have := h2 c hc
    cases c <;> first | trivial | (simpa [FracOK] using this)

/-! ## the two fragments together -/

/-- a time group (`n` populations exist before it) whose moves satisfy `NSAT` (`GoodGroup`) or `Frag3`
(`GoodGroup3`), and whose split fractions are in `(0, 1]` -/
def GroupOK (n : Nat) (cmds : List Cmd) : Prop :=
  (NSAT (groupOps n cmds) ∨ Frag3 n (groupOps n cmds)) ∧ ∀ c ∈ cmds, FracOK c

/-- every time group is a `GroupOK`; `n` populations exist before the first one -/
def groupsOK : Nat → List (List Cmd) → Prop
  | _, [] => True
  | n, g :: rest => GroupOK n g ∧ groupsOK (n + (g.filter isSplitC).length) rest

theorem groupOK_of_good3 {n : Nat} {cmds : List Cmd} (h : GoodGroup3 n cmds = true) : GroupOK n cmds :=
  ⟨Or.inr (good3_parts h).1, (good3_parts h).2⟩

theorem groupOK_of_good12 {n : Nat} {cmds : List Cmd} (h : GoodGroup12 n cmds = true) : GroupOK n cmds := by
  unfold GoodGroup12 at h
  simp only [Bool.and_eq_true, List.all_eq_true] at h
  refine ⟨Or.inl (nsat_of_bool _ h.1), ?_⟩
  intro c hc
  have := h.2 c hc
  cases c <;> first | trivial | (simpa [FracOK] using this)

theorem groupOK_of_good {n : Nat} {cmds : List Cmd} (h : GoodGroup n cmds = true) : GroupOK n cmds := by
  apply groupOK_of_good12
  unfold GoodGroup at h
  unfold GoodGroup12
  simp only [Bool.and_eq_true] at h ⊢
  exact h.1

theorem groupsOK_of_goodGroups3 : ∀ (K : List (List Cmd)) (n : Nat), goodGroups3 n K = true → groupsOK n K := by
  intro K
  induction K with
  | nil => intro _ _; trivial
  | cons g rest ih =>
    intro n h
    simp only [goodGroups3, Bool.and_eq_true] at h
    exact ⟨groupOK_of_good3 h.1, ih _ h.2⟩

theorem groupsOK_of_goodGroups : ∀ (K : List (List Cmd)) (n : Nat), goodGroups n K = true → groupsOK n K := by
  intro K
  induction K with
  | nil => intro _ _; trivial
  | cons g rest ih =>
    intro n h
    simp only [goodGroups, Bool.and_eq_true] at h
    exact ⟨groupOK_of_good h.1, ih _ h.2⟩

theorem njt_of_frag {n : Nat} {ops : List MOp} (h : NSAT ops ∨ Frag3 n ops) : NJT ops := by
  rcases h with h | h
  · exact njt_of_nsat h
  · exact njt_of_frag3 h

/-! ## the end of the options of a group -/

/-- `group_end` for a group of either fragment -/
theorem group_end_ok {N0 T T' : Q} {s s1 : BState} {g1 : GState} {σ σ1 : St} {L1 : List (Nat × Row)}
    {evs : List (Event Num)}
    (hsim : SizeSim T s σ) (hT : T ≤ T') (hall : ∀ e ∈ evs, HasCmd e)
    (htime : ∀ e ∈ evs, 4 * N0 * (cmdOfD e).t = T')
    (hm : evs.foldlM (stepEvent N0 T') (s, { lm := initLm s evs, params := [] }) = .ok (s1, g1))
    (hs : (evs.map cmdOfD).foldlM (Spec.MsSem.step N0) (σ, initL σ) = .ok (σ1, L1))
    (hok : GroupOK s.numDemes (evs.map cmdOfD)) (hnames : NameInv s) :
    SizeSim T' s1 σ1 ∧ GroupEnd T' s σ s1 g1 L1 (groupOps s.numDemes (evs.map cmdOfD)) := by
  obtain ⟨h3, hfr'⟩ := hok
  have hfr : ∀ e ∈ evs, FracOK (cmdOfD e) := fun e he => hfr' _ (List.mem_map.mpr ⟨e, he, rfl⟩)
  obtain ⟨done, pend, hsim1, hinv, hrel, hlen⟩ := events_groupInv' (njt_of_frag h3) evs hsim hT hall htime hfr
    (groupInv_init hsim _ _ rfl) (initLm_rel hsim evs) (initLm_length s evs) hm hs
  have hlink : groupOps s.numDemes (evs.map cmdOfD) = done ++ flushOp s1.numDemes pend := hinv.link
  obtain ⟨pos1, jv1, last1⟩ := hinv.flushed
  obtain ⟨hkeys, hok1⟩ := steps_rowsOK _ hs (fun ir hir => by
    obtain ⟨h1, _, e, _⟩ := initL_mem hir
    rw [e]; exact rowOK_single _ _ h1)
  have hnames1 : NameInv s1 :=
    RV.foldlM_inv (fun (sg : BState × GState) => NameInv sg.1) _
      (fun a ev b ha hst => by
        obtain ⟨a1, a2⟩ := a
        obtain ⟨b1, b2⟩ := b
        exact stepEvent_names ha hst) _ _ _ hnames hm
  refine ⟨hsim1, ⟨h3, ?_, ?_, ?_, ?_, ?_, ?_, hrel, hlen, hkeys, hok1, hnames1, ?_, hinv.n0le, ?_, hinv.dNew, ?_,
    hinv.pulses, ?_⟩⟩
  · rw [hlink]; exact pos1
  · rw [hlink]; exact hinv.ub
  · rw [hlink]; intro o ho hq; exact (hinv.joinedV o (jv1 o ho hq) hq).2
  · rw [hlink]; exact last1
  · rw [hlink]; exact hinv.params
  · rw [hlink]; exact hinv.rows
  · rw [hsim1.len, hsim1.num]
  · intro j d hj hd
    obtain ⟨d0, h0, e1, e2⟩ := hinv.dOld j d hj hd
    refine ⟨d0, h0, e1, ?_⟩
    rcases e2 with e2 | ⟨e2, e3, o, ho, e4⟩
    · exact Or.inl e2
    · exact Or.inr ⟨e2, e3, o, by rw [hlink]; exact List.mem_append_left _ ho, e4⟩
  · rw [hlink]; intro o ho hq; exact hinv.dJoin o (jv1 o ho hq) hq
  · rw [hlink]; exact hinv.srcAlive

/-- `group_end` for a group whose moves satisfy `Frag3` -/
theorem group_end3 {N0 T T' : Q} {s s1 : BState} {g1 : GState} {σ σ1 : St} {L1 : List (Nat × Row)}
    {evs : List (Event Num)}
    (hsim : SizeSim T s σ) (hT : T ≤ T') (hall : ∀ e ∈ evs, HasCmd e)
    (htime : ∀ e ∈ evs, 4 * N0 * (cmdOfD e).t = T')
    (hm : evs.foldlM (stepEvent N0 T') (s, { lm := initLm s evs, params := [] }) = .ok (s1, g1))
    (hs : (evs.map cmdOfD).foldlM (Spec.MsSem.step N0) (σ, initL σ) = .ok (σ1, L1))
    (h3 : Frag3 s.numDemes (groupOps s.numDemes (evs.map cmdOfD))) (hfr : ∀ e ∈ evs, FracOK (cmdOfD e))
    (hnames : NameInv s) :
    SizeSim T' s1 σ1 ∧ GroupEnd T' s σ s1 g1 L1 (groupOps s.numDemes (evs.map cmdOfD)) :=
  group_end_ok hsim hT hall htime hm hs ⟨Or.inr h3, fun c hc => by
    obtain ⟨e, he, rfl⟩ := List.mem_map.mp hc
    exact hfr e he⟩ hnames

/-- **`applyParams_sem` on the third fragment.**  A time group that is a `GoodGroup3`, at a time `T' ≠ 0` later
than everything in the Builder state: the ancestry and the pulses that `applyParams` writes, read back by
`groupMoves` the way `graphSem` reads a graph (the pulses of the time in the order written, then the ancestry of
the demes that start at the time), are the interpreter's movement matrix of the group, in canonical form. -/
theorem applyParams_sem3 {N0 T T' : Q} {s s1 : BState} {g1 : GState} {σ σ1 : St} {L1 : List (Nat × Row)}
    {evs : List (Event Num)}
    (hsim : SizeSim T s σ) (hT : T ≤ T') (hall : ∀ e ∈ evs, HasCmd e)
    (htime : ∀ e ∈ evs, 4 * N0 * (cmdOfD e).t = T')
    (hm : evs.foldlM (stepEvent N0 T') (s, { lm := initLm s evs, params := [] }) = .ok (s1, g1))
    (hs : (evs.map cmdOfD).foldlM (Spec.MsSem.step N0) (σ, initL σ) = .ok (σ1, L1))
    (hgood : GoodGroup3 s.numDemes (evs.map cmdOfD) = true) (hT0 : T' ≠ 0) (hnames : NameInv s)
    (hend : ∀ (j : Nat) (d : BDeme), s.demes[j]? = some d → bEndTime d < T')
    (hst : ∀ (j : Nat) (d : BDeme), s.demes[j]? = some d → d.startTime = .inf ∨ ∃ t, d.startTime = .fin t ∧ t < T')
    (hpul : ∀ p ∈ s.pulses.getD [], p.time ≠ T') :
    ∃ L2, groupMoves (popNames (applyParams T' s1 g1).numDemes) T' (applyParams T' s1 g1).demes
        ((applyParams T' s1 g1).pulses.getD []) = .ok L2 ∧ canonRows L2 = canonRows L1 := by
  obtain ⟨h3, hfr⟩ := good3_parts hgood
  obtain ⟨_, he⟩ := group_end3 hsim hT hall htime hm hs h3
    (fun e he => hfr _ (List.mem_map.mpr ⟨e, he, rfl⟩)) hnames
  exact applyParams_sem_of_end hsim he hT0 hend hst hpul

end Demes.Proofs.FromMs
