/-
  C07 — the shape of `toMs`: the do-block as a composition of named stages, the option
  constructors on arguments inside their validators' domains, and pure mirrors of the
  three event generators.
-/
import DemesVerif.Spec.C07
import DemesVerif.Proofs.ResolveLemmas
import DemesVerif.Proofs.InGenerations
set_option linter.unusedSimpArgs false
set_option linter.unusedVariables false
namespace Demes.Proofs.ToMs
open Demes Demes.Ms Demes.Spec Demes.Spec.C07 Demes.Proofs.RV

/-! ### the stages of `toMs` -/

def sizeStepM (N0 : Q) (j : Nat) (st : Q × Growth × List (Event Growth)) (e : Epoch) :
    Except Err (Q × Growth × List (Event Growth)) := do
  let (size, growth, evs) := st
  let (growth, evs) ←
    if size ≠ e.endSize then do
      if N0 = 0 then otherErr "ZeroDivisionError"
      let ev ← mkPopSizeChange "" (.fin e.endTime) (j : Int) (.fin (e.endSize / N0))
      pure (Growth.zero, evs ++ [ev])
    else pure (growth, evs)
  let alpha ← getGrowthRate N0 e
  let (growth, evs) ←
    if !(growth.eq alpha) then do
      let ev ← mkPopGrowthRateChange finG "" (.fin e.endTime) (j : Int) alpha
      pure (alpha, evs ++ [ev])
    else pure (growth, evs)
  pure (e.startSize, growth, evs)

theorem demeSizeEvents_eq (N0 : Q) (j : Nat) (d : Deme) :
    demeSizeEvents N0 j d =
      (d.epochs.reverse.foldlM (sizeStepM N0 j) (N0, Growth.zero, [])) >>= fun r => pure r.2.2 := rfl

def sizeEvsM (g : Graph) (N0 : Q) : Except Err (List (Event Growth)) :=
  (g.demes.zipIdx).foldlM (fun (evs : List (Event Growth)) (dj : Deme × Nat) => do
    pure (evs ++ (← demeSizeEvents N0 (dj.2 + 1) dj.1))) []

def dps (g : Graph) : List DemeOrPulse := sortBy (fun a b => decide (a.key ≤ b.key))
    (g.pulses.reverse.map DemeOrPulse.pulse ++ g.demes.map DemeOrPulse.deme)

def scaleM (N0 : Q) (events : List (Event Growth)) : Except Err (List (Event Growth)) :=
  events.mapM (fun e => do
    let t := numDivQ e.t (4 * N0)
    vT t
    pure (e.setT t))

def headerM (numDemes : Nat) (samples : Option (List Int)) : Except Err (List (Tok Growth)) :=
    if numDemes > 1 then do
      let smp := samples.getD (List.replicate numDemes 0)
      let st ← mkStructure (numDemes : Int) (smp.map toString) (.fin 0)
      pure st.print
    else pure []

def byT (a b : Event Growth) : Bool := Num.le a.t b.t

def tailM (g : Graph) (N0 : Q) (cmd : List (Tok Growth)) : Except Err (List (Tok Growth)) := do
  let sizeEvs ← sizeEvsM g N0
  let ancEvs ← ancestryEvents g (dps g) g.demes.length
  let migEvs ← migrationEvents N0 g
  let events := sortBy byT (sizeEvs ++ ancEvs ++ migEvs)
  if N0 = 0 && !events.isEmpty then otherErr "ZeroDivisionError" else do
  let events ← scaleM N0 events
  let toks ← events.mapM Event.print
  pure (cmd ++ toks.flatten)

theorem toMs_eq (graph : Graph) (N0 : Q) (samples : Option (List Int)) :
    toMs graph N0 samples =
      if samplesOk (inGenerations graph) samples = true then
        headerM (inGenerations graph).demes.length samples >>= tailM (inGenerations graph) N0
      else valueErr "samples must match the number of demes in the graph" := by
  unfold toMs tailM headerM sizeEvsM dps scaleM byT
  cases samples with
  | none =>
    simp only [samplesOk, if_true]
    by_cases hn : (inGenerations graph).demes.length > 1
    · simp only [hn, if_true]
      cases mkStructure _ _ _ <;> rfl
    · simp only [hn, if_false]; rfl
  | some s =>
    simp only [samplesOk]
    by_cases h : s.length = (inGenerations graph).demes.length
    · simp only [h, decide_true, if_true, ne_eq, not_true_eq_false, if_false]
      by_cases hn : (inGenerations graph).demes.length > 1
      · simp only [hn, if_true]
        cases mkStructure _ _ _ <;> rfl
      · simp only [hn, if_false]; rfl
    · simp only [h, decide_false, ne_eq, not_false_eq_true, if_true]; rfl

/-! ### option constructors inside their validators' domains -/

theorem vT_fin {t : Q} (h : 0 ≤ t) : vT (.fin t) = .ok () := by
  simp only [vT, vNonNegative, Num.lt, Num.zero]
  have : ¬ t < 0 := by grind
  simp [this, pure, Except.pure]

theorem vNonNeg_fin {t : Q} (h : 0 ≤ t) : vNonNegative (.fin t) = .ok () := vT_fin h

theorem vPosInt_ok {i : Int} (h : 0 < i) : vPosInt i = .ok () := by
  simp only [vPosInt]
  have : ¬ i ≤ 0 := by omega
  simp [this, pure, Except.pure]

theorem vUnit_fin {p : Q} (h0 : 0 ≤ p) (h1 : p ≤ 1) : vUnitInterval (.fin p) = .ok () := by
  simp [vUnitInterval, Num.le, Num.zero, Num.one, h0, h1, pure, Except.pure]

theorem mkPopSizeChange_ok {t x : Q} {i : Int} (ht : 0 ≤ t) (hi : 0 < i) (hx : 0 ≤ x) :
    mkPopSizeChange (α := Growth) "" (.fin t) i (.fin x) = .ok (.popSizeChange "" (.fin t) i (.fin x)) := by
  simp [mkPopSizeChange, vT_fin ht, vPosInt_ok hi, vNonNeg_fin hx, bind, Except.bind, pure, Except.pure]

theorem mkPopGrowthRateChange_ok {t : Q} {i : Int} (a : Growth) (ht : 0 ≤ t) (hi : 0 < i) :
    mkPopGrowthRateChange finG "" (.fin t) i a = .ok (.popGrowthRateChange "" (.fin t) i a) := by
  simp [mkPopGrowthRateChange, vT_fin ht, vPosInt_ok hi, finG, bind, Except.bind, pure, Except.pure]

theorem mkMigEntryChange_ok {t r : Q} {i j : Int} (ht : 0 ≤ t) (hi : 0 < i) (hj : 0 < j) (hr : 0 ≤ r) :
    mkMigEntryChange (α := Growth) "" (.fin t) i j (.fin r) = .ok (.migEntryChange "" (.fin t) i j (.fin r)) := by
  simp [mkMigEntryChange, vT_fin ht, vPosInt_ok hi, vPosInt_ok hj, vNonNeg_fin hr, bind, Except.bind, pure, Except.pure]

theorem mkSplit_ok {t p : Q} {i : Int} (ht : 0 ≤ t) (hi : 0 < i) (h0 : 0 ≤ p) (h1 : p ≤ 1) :
    mkSplit (α := Growth) "" (.fin t) i (.fin p) = .ok (.split "" (.fin t) i (.fin p)) := by
  simp [mkSplit, vT_fin ht, vPosInt_ok hi, vUnit_fin h0 h1, bind, Except.bind, pure, Except.pure]

theorem mkJoin_ok {t : Q} {i j : Int} (ht : 0 ≤ t) (hi : 0 < i) (hj : 0 < j) :
    mkJoin (α := Growth) "" (.fin t) i j = .ok (.join "" (.fin t) i j) := by
  simp [mkJoin, vT_fin ht, vPosInt_ok hi, vPosInt_ok hj, bind, Except.bind, pure, Except.pure]

/-! ### pure mirror of the size / growth generator -/

/-- the options `demeSizeEvents` emits for epochs `es` (youngest first) entering with
`(size, growth)` -/
def sizeEvs (N0 : Q) (j : Int) : Q → Growth → List Epoch → List (Event Growth)
  | _, _, [] => []
  | size, growth, e :: es =>
    let g1 := if size ≠ e.endSize then Growth.zero else growth
    (if size ≠ e.endSize then [Event.popSizeChange "" (.fin e.endTime) j (.fin (e.endSize / N0))] else [])
      ++ (if !(g1.eq (growthOf N0 e)) then [Event.popGrowthRateChange "" (.fin e.endTime) j (growthOf N0 e)] else [])
      ++ sizeEvs N0 j e.startSize (if !(g1.eq (growthOf N0 e)) then growthOf N0 e else g1) es

/-- an epoch `toMs` can translate -/
structure EpochOk (e : Epoch) : Prop where
  fn : e.sizeFunction = "constant" ∨ e.sizeFunction = "exponential"
  inf : e.startTime = .inf → e.startSize = e.endSize
  endTime : 0 ≤ e.endTime
  endSize : 0 < e.endSize
  startSize : 0 < e.startSize

theorem getGrowthRate_ok (N0 : Q) {e : Epoch} (h : EpochOk e) : getGrowthRate N0 e = .ok (growthOf N0 e) := by
  unfold getGrowthRate growthOf
  have hfn : (!(decide (e.sizeFunction = "constant") || decide (e.sizeFunction = "exponential"))) = false := by
    rcases h.fn with h | h <;> simp [h]
  simp only [hfn]
  by_cases hs : e.endSize = e.startSize
  · simp [hs, bind, Except.bind, pure, Except.pure]
  · cases hst : e.startTime with
    | inf => exact absurd (h.inf hst).symm hs
    | fin st => simp [hs, bind, Except.bind, pure, Except.pure]

theorem sizeStepM_ok {N0 : Q} (hN : 0 < N0) {j : Nat} (hj : 0 < j) {e : Epoch} (h : EpochOk e)
    (size : Q) (growth : Growth) (acc : List (Event Growth)) :
    ∃ g', sizeStepM N0 j (size, growth, acc) e
      = .ok (e.startSize, g', acc ++ (sizeEvs N0 j size growth [e])) ∧
      ∀ es, sizeEvs N0 j size growth (e :: es) = sizeEvs N0 j size growth [e] ++ sizeEvs N0 j e.startSize g' es := by
  have hN0 : N0 ≠ 0 := by grind
  have hx : 0 ≤ e.endSize / N0 := by
    have := (Proofs.InGen.div_pos (a := e.endSize) hN).2 h.endSize; grind
  have hj' : (0 : Int) < (j : Int) := by omega
  refine ⟨(if !((if size ≠ e.endSize then Growth.zero else growth).eq (growthOf N0 e)) then growthOf N0 e
            else (if size ≠ e.endSize then Growth.zero else growth)), ?_, ?_⟩
  · unfold sizeStepM
    simp only [getGrowthRate_ok N0 h, mkPopSizeChange_ok h.endTime hj' hx, mkPopGrowthRateChange_ok _ h.endTime hj', hN0,
      if_false, sizeEvs]
    by_cases h1 : size = e.endSize
    · by_cases h2 : growth.eq (growthOf N0 e) = true <;>
        simp [h1, h2, bind, Except.bind, pure, Except.pure]
    · by_cases h2 : Growth.zero.eq (growthOf N0 e) = true <;>
        simp [h1, h2, bind, Except.bind, pure, Except.pure]
  · intro es
    simp only [sizeEvs, List.append_nil, List.append_assoc]

theorem fold_sizeStepM_ok {N0 : Q} (hN : 0 < N0) {j : Nat} (hj : 0 < j) :
    ∀ (es : List Epoch), (∀ e ∈ es, EpochOk e) → ∀ (size : Q) (growth : Growth) (acc : List (Event Growth)),
      ∃ s' g', es.foldlM (sizeStepM N0 j) (size, growth, acc) = .ok (s', g', acc ++ sizeEvs N0 j size growth es) := by
  intro es
  induction es with
  | nil => intro _ size growth acc; exact ⟨size, growth, by simp [sizeEvs, pure, Except.pure]⟩
  | cons e es ih =>
    intro hok size growth acc
    obtain ⟨g', h1, h2⟩ := sizeStepM_ok hN hj (hok e List.mem_cons_self) size growth acc
    obtain ⟨s'', g'', h3⟩ := ih (fun e he => hok e (List.mem_cons_of_mem _ he)) e.startSize g'
      (acc ++ sizeEvs N0 j size growth [e])
    refine ⟨s'', g'', ?_⟩
    rw [List.foldlM_cons, h1]
    simp only [bind, Except.bind]
    rw [h3, h2 es, List.append_assoc]

theorem demeSizeEvents_ok {N0 : Q} (hN : 0 < N0) {j : Nat} (hj : 0 < j) (d : Deme)
    (hok : ∀ e ∈ d.epochs, EpochOk e) :
    demeSizeEvents N0 j d = .ok (sizeEvs N0 j N0 .zero d.epochs.reverse) := by
  obtain ⟨s', g', h⟩ := fold_sizeStepM_ok hN hj d.epochs.reverse
    (fun e he => hok e (List.mem_reverse.1 he)) N0 .zero []
  rw [demeSizeEvents_eq, h]; rfl

end Demes.Proofs.ToMs
