/-
  Driver ops for the event records (Model/Records.lean):
    record_ok       {kind: "split"|"branch"|"merge"|"admix", fields: {"o": [[field, value], …]}}  ↦  {"ok": Bool, "typed": Bool}
    events_checked  {graph}  ↦  {"ok": events} | {"err": …}
  A field whose value is not of the wire type of that field (a name that is not a string, a list that
  is not a list, a number that is not a number) makes the record refused (`typed = false`): the
  classes refuse those with `TypeError` (`instance_of`, `int_or_float`).
-/
import DemesVerif.Ops.Core
import DemesVerif.Model.Records
namespace Demes.Ops.Records
open Lean Demes Demes.Wire Demes.Ops.Core

def strs? (v : Value) : Option (List String) :=
  match v with
  | .list xs => xs.mapM Value.asStr?
  | _ => none

/-- numbers as `int_or_float` sees them (`bool` is an `int`) -/
def nums? (v : Value) : Option (List Num) :=
  match v with
  | .list xs => xs.mapM Value.asNumRaw?
  | _ => none

def recordOk? (kind : String) (f : Obj) : Option Bool :=
  if kind = "split" then do
    let parent ← (← Obj.lookup "parent" f).asStr?
    let children ← strs? (← Obj.lookup "children" f)
    let time ← (← Obj.lookup "time" f).asNumRaw?
    pure (splitRecordOk parent children time)
  else if kind = "branch" then do
    let parent ← (← Obj.lookup "parent" f).asStr?
    let child ← (← Obj.lookup "child" f).asStr?
    let time ← (← Obj.lookup "time" f).asNumRaw?
    pure (branchRecordOk parent child time)
  else if kind = "merge" || kind = "admix" then do
    let parents ← strs? (← Obj.lookup "parents" f)
    let proportions ← nums? (← Obj.lookup "proportions" f)
    let child ← (← Obj.lookup "child" f).asStr?
    let time ← (← Obj.lookup "time" f).asNumRaw?
    pure (if kind = "merge" then mergeRecordOk parents proportions child time
          else admixRecordOk parents proportions child time)
  else none

def dispatch? (op : String) (j : Json) : Option Json :=
  if op = "record_ok" then some <|
    match j.getObjValAs? String "kind" with
    | .error e => Json.mkObj [("fail", .str e)]
    | .ok kind =>
      if !(["split", "branch", "merge", "admix"].contains kind) then Json.mkObj [("fail", .str s!"unknown kind {kind}")]
      else withValue j "fields" (fun v =>
        match v with
        | .obj f =>
          match recordOk? kind f with
          | some b => Json.mkObj [("ok", .bool b), ("typed", .bool true)]
          | none => Json.mkObj [("ok", .bool false), ("typed", .bool false)]
        | _ => Json.mkObj [("fail", .str "fields")])
  else if op = "events_checked" then some <|
    withGraph j "graph" (fun g =>
      match discreteEventsChecked g with
      | .error e => errJ e
      | .ok ev => okJ (eventsJ ev))
  else none

end Demes.Ops.Records
