/-
  Semantic tie of `ms.to_ms` (C07): its tests on counts, times, sizes and the size function.

  `Generated.guard_to_ms_*` are the translated `if` tests; `getGrowthRate`, `demeSizeEvents`, `ancestryEvents`,
  `migrationEvents`, `toMs` of `Model/Ms.lean` are proved equal, for ALL inputs, to their `…With` forms
  (Proofs/Guards2Ms.lean) over them.  The growth-rate comparison (`growth_rate != alpha`, symbolic in the Model)
  and the `isinstance` dispatch are not translated; `guards_tests_to_ms` pins the text of every `if` of the function.
-/
import DemesVerif.Generated.GuardsToMs
import DemesVerif.Proofs.Guards2Ms
namespace Demes.Tables
open Demes Demes.Ms Demes.Proofs.Guards Demes.Proofs.Guards2
set_option linter.unusedSimpArgs false

theorem guards_sites_to_ms : Generated.guardSitesToMs = [("to_ms", 11, 3)] := by decide +kernel

theorem guards_context_to_ms : Generated.guardContextToMs =
    [
     ("guard_to_ms_samples", []),
     ("guard_to_ms_structure", []),
     ("guard_to_ms_no_samples", ["if v1 > 1"]),
     ("guard_to_ms_size_function", ["FunctionDef"]),
     ("guard_to_ms_sizes_differ", ["FunctionDef"]),
     ("guard_to_ms_size_change", ["for (v6, v7) in enumerate(graph.demes, 1)", "for v10 in reversed(v7.epochs)"]),
     ("guard_to_ms_last_ancestor", ["for v14 in v12", "if isinstance(v14, demes.Deme)", "for (v15, v16) in enumerate(v7.ancestors)"]),
     ("guard_to_ms_multi_source", ["for v14 in v12", "else of if isinstance(v14, demes.Deme)"]),
     ("guard_to_ms_migration_off", ["for v23 in graph.migrations"])] := by decide +kernel

theorem guards_tests_to_ms : Generated.guardTestsToMs =
    [
     (0, "samples is not None and len(samples) != v1", true),
     (1, "v1 > 1", false),
     (2, "samples is None", false),
     (3, "p0.size_function not in ['constant', 'exponential']", true),
     (4, "p0.end_size != p0.start_size", false),
     (5, "v8 != v10.end_size", false),
     (6, "v9 != v11", false),
     (7, "isinstance(v14, demes.Deme)", false),
     (8, "v15 == len(v7.ancestors) - 1", false),
     (9, "len(v22.sources) > 1", true),
     (10, "not math.isinf(v23.start_time) and v23.start_time != graph[v23.dest].start_time and (v23.start_time != graph[v23.source].start_time)", false)] := by decide +kernel

/-! ### `get_growth_rate` -/

theorem guard_to_ms_size_function_meaning (f : String) :
    Generated.guard_to_ms_size_function (p0_size_function := f)
      = !(decide (f = "constant") || decide (f = "exponential")) := by
  unfold Generated.guard_to_ms_size_function
  by_cases h1 : f = "constant" <;> by_cases h2 : f = "exponential" <;> simp [h1, h2]

theorem guard_to_ms_sizes_differ_meaning (e s : Q) :
    Generated.guard_to_ms_sizes_differ (p0_end_size := .fin e) (p0_start_size := .fin s) = decide (e ≠ s) := by
  unfold Generated.guard_to_ms_sizes_differ
  guard_close

theorem guards_tie_get_growth_rate : getGrowthRate = getGrowthRateWith
    (fun f => Generated.guard_to_ms_size_function (p0_size_function := f))
    (fun e s => Generated.guard_to_ms_sizes_differ (p0_end_size := e) (p0_start_size := s)) := by
  funext N0 e
  unfold getGrowthRate getGrowthRateWith
  simp only [guard_to_ms_size_function_meaning, guard_to_ms_sizes_differ_meaning, decide_eq_true_eq]
  first | done | rfl

/-! ### the size events -/

theorem guard_to_ms_size_change_meaning (size e : Q) :
    Generated.guard_to_ms_size_change (v8 := .fin size) (v10_end_size := .fin e) = decide (size ≠ e) := by
  unfold Generated.guard_to_ms_size_change
  guard_close

theorem guards_tie_deme_size_events : demeSizeEvents = demeSizeEventsWith
    (fun s e => Generated.guard_to_ms_size_change (v8 := s) (v10_end_size := e)) := by
  funext N0 j d
  unfold demeSizeEvents demeSizeEventsWith
  simp only [guard_to_ms_size_change_meaning, decide_eq_true_eq]
  first | done | rfl

/-! ### ancestry: Split / Join -/

theorem guard_to_ms_last_ancestor_meaning (k n : Nat) :
    Generated.guard_to_ms_last_ancestor (v15 := k) (len_v14_ancestors := n) = decide (k = n - 1) := by
  unfold Generated.guard_to_ms_last_ancestor
  grind

theorem guard_to_ms_multi_source_meaning (n : Nat) :
    Generated.guard_to_ms_multi_source (len_v14_sources := n) = decide (n > 1) := by
  unfold Generated.guard_to_ms_multi_source
  grind

theorem guards_tie_ancestry_events : ancestryEvents = ancestryEventsWith
    (fun k n => Generated.guard_to_ms_last_ancestor (v15 := k) (len_v14_ancestors := n))
    (fun n => Generated.guard_to_ms_multi_source (len_v14_sources := n)) := by
  funext g xs n
  unfold ancestryEvents ancestryEventsWith
  simp only [guard_to_ms_last_ancestor_meaning, guard_to_ms_multi_source_meaning, decide_eq_true_eq]
  first | done | rfl

/-! ### migrations switched off at their start time -/

theorem guard_to_ms_migration_off_meaning (t d s : ETime) :
    Generated.guard_to_ms_migration_off (v23_start_time := Num.ofETime t)
      (graph_v23_dest_start_time := Num.ofETime d) (graph_v23_source_start_time := Num.ofETime s)
      = (!t.isInf && decide (t ≠ d) && decide (t ≠ s)) := by
  unfold Generated.guard_to_ms_migration_off
  cases t <;> cases d <;> cases s <;> guard_close

theorem guards_tie_migration_events : migrationEvents = migrationEventsWith
    (fun t d s => Generated.guard_to_ms_migration_off (v23_start_time := t)
      (graph_v23_dest_start_time := d) (graph_v23_source_start_time := s)) := by
  funext N0 g
  unfold migrationEvents migrationEventsWith
  simp only [guard_to_ms_migration_off_meaning]
  first | done | rfl

/-! ### the `-I` structure and the sample counts -/

theorem guard_to_ms_samples_meaning (samples : Option (List Int)) (n : Nat) :
    Generated.guard_to_ms_samples (samples_is_None := samples.isNone) (len_samples := (samples.map List.length).getD 0)
      (v1 := n) = (match samples with | some s => decide (s.length ≠ n) | none => false) := by
  unfold Generated.guard_to_ms_samples
  cases samples with
  | none => simp
  | some s => by_cases h : s.length = n <;> simp [h, bne]

theorem guard_to_ms_structure_meaning (n : Nat) :
    Generated.guard_to_ms_structure (v1 := .fin (n : Q)) = decide (n > 1) := by
  unfold Generated.guard_to_ms_structure
  have h : ((1 : Q) < (n : Q)) ↔ 1 < n := by exact_mod_cast Iff.rfl
  simp [lt_fin_fin, h]

theorem guard_to_ms_no_samples_meaning (b : Bool) :
    Generated.guard_to_ms_no_samples (samples_is_None := b) = b := by
  unfold Generated.guard_to_ms_no_samples
  first | rfl | simp

theorem guards_tie_to_ms : toMs = toMsWith
    (fun none len n => Generated.guard_to_ms_samples (samples_is_None := none) (len_samples := len) (v1 := n))
    (fun n => Generated.guard_to_ms_structure (v1 := n))
    (fun none => Generated.guard_to_ms_no_samples (samples_is_None := none)) := by
  funext graph N0 samples
  unfold toMs toMsWith
  simp only [guard_to_ms_samples_meaning, guard_to_ms_structure_meaning, guard_to_ms_no_samples_meaning]
  cases samples <;> simp <;> rfl

end Demes.Tables
