/-
  Support for `Theorems/TablesGuardsIO.lean` (C16).  Nothing here depends on `Generated/`.

  `…With`: the Model functions of `_stringify_infinities` / `_unstringify_infinities`
  (`Model/LoadDump.lean`) written once more with the source's tests abstracted; they only occur on the
  right-hand side of the `guards_tie_*` equations.
-/
import DemesVerif.Model.NumClose
import DemesVerif.Model.ValueGuards
import DemesVerif.Model.LoadDump
namespace Demes.Proofs.Guards2
open Demes

/-! ### `_stringify_infinities`: `g ("start_time" in item) item["start_time"]` -/

def stringifyStartWith (g : Bool → Num → Bool) (kvs : Obj) : Obj :=
  kvs.map (fun kv =>
    if kv.1 = "start_time" then
      match kv.2 with
      | .num n => if g true n then (kv.1, Value.str infinityStr) else kv
      | _ => kv
    else kv)

def stringifyItemsWith (g : Bool → Num → Bool) (v : Value) : Value :=
  match v with
  | .list xs => .list (xs.map (fun x => match x with | .obj kvs => .obj (stringifyStartWith g kvs) | y => y))
  | y => y

/-- `for deme in data["demes"]` with the test `gDeme`, `for migration in data.get("migrations", [])` with `gMig` -/
def stringifyInfinitiesWith (gDeme gMig : Bool → Num → Bool) (data : Obj) : Obj :=
  data.map (fun kv =>
    if kv.1 = "demes" then (kv.1, stringifyItemsWith gDeme kv.2)
    else if kv.1 = "migrations" then (kv.1, stringifyItemsWith gMig kv.2)
    else kv)

/-! ### `_unstringify_infinities`: `g item.get("start_time")` (a value that is not a string is not "Infinity") -/

def unstringifyStartWith (g : String → Bool) (kvs : Obj) : Obj :=
  kvs.map (fun kv =>
    if kv.1 = "start_time" then
      match kv.2 with
      | .str s => if g s then (kv.1, Value.num .pinf) else kv
      | _ => kv
    else kv)

def unstringifyItemsWith (g : String → Bool) (v : Value) : Except Err Value :=
  match v with
  | .list xs => do
    let ys ← xs.mapM (fun x => match x with
      | .obj kvs => pure (Value.obj (unstringifyStartWith g kvs))
      | _ => (.error ⟨.other, "AttributeError: item has no attribute 'get'"⟩ : Except Err Value))
    pure (.list ys)
  | .obj kvs => if kvs.isEmpty then pure v else .error ⟨.other, "AttributeError: 'str' object has no attribute 'get'"⟩
  | .str s => if s.isEmpty then pure v else .error ⟨.other, "AttributeError: 'str' object has no attribute 'get'"⟩
  | _ => typeErr "object is not iterable"

/-- `for default in data.get("defaults", [])`: `gKey default`, then `gVal data["defaults"][default].get("start_time")` -/
def unstringifyDefaultsWith (gKey gVal : String → Bool) (v : Value) : Except Err Value :=
  match v with
  | .obj kvs => do
    let kvs' ← kvs.mapM (fun kv =>
      if gKey kv.1 then
        match kv.2 with
        | .obj inner => pure (kv.1, Value.obj (unstringifyStartWith gVal inner))
        | _ => (.error ⟨.other, "AttributeError: no attribute 'get'"⟩ : Except Err (String × Value))
      else pure kv)
    pure (.obj kvs')
  | .list xs =>
    if xs.any (fun x => match x with | .str s => gKey s | _ => false)
    then typeErr "list indices must be integers" else pure v
  | .str s =>
    let _ := s; pure v
  | _ => typeErr "object is not iterable"

def unstringifyInfinitiesWith (gDeme gMig gKey gDefault : String → Bool) (data : Obj) : Except Err Obj := do
  if !(Obj.contains "demes" data) then keyErr "demes"
  data.mapM (fun kv =>
    if kv.1 = "demes" then do
      let v ← unstringifyItemsWith gDeme kv.2; pure (kv.1, v)
    else if kv.1 = "migrations" then do
      let v ← unstringifyItemsWith gMig kv.2; pure (kv.1, v)
    else if kv.1 = "defaults" then do
      let v ← unstringifyDefaultsWith gKey gDefault kv.2; pure (kv.1, v)
    else pure kv)

/-! ### the `…With` forms are the Model's functions when the tests mean what the Model tests -/

theorem stringifyStartWith_eq (g : Bool → Num → Bool) (hg : ∀ n, g true n = n.isInf) :
    stringifyStartWith g = stringifyStart := by
  funext kvs
  unfold stringifyStartWith stringifyStart
  simp only [hg]
  first | done | rfl

theorem stringifyItemsWith_eq (g : Bool → Num → Bool) (hg : ∀ n, g true n = n.isInf) :
    stringifyItemsWith g = stringifyItems := by
  funext v
  unfold stringifyItemsWith stringifyItems
  simp only [stringifyStartWith_eq g hg]
  first | done | rfl

theorem stringifyInfinitiesWith_eq (gD gM : Bool → Num → Bool) (hD : ∀ n, gD true n = n.isInf)
    (hM : ∀ n, gM true n = n.isInf) : stringifyInfinitiesWith gD gM = stringifyInfinities := by
  funext data
  unfold stringifyInfinitiesWith stringifyInfinities
  simp only [stringifyItemsWith_eq gD hD, stringifyItemsWith_eq gM hM]
  congr 1
  funext kv
  by_cases h1 : kv.1 = "demes"
  · simp [h1]
  · by_cases h2 : kv.1 = "migrations" <;> simp [h1, h2]

theorem unstringifyStartWith_eq (g : String → Bool) (hg : ∀ s, g s = decide (s = infinityStr)) :
    unstringifyStartWith g = unstringifyStart := by
  funext kvs
  unfold unstringifyStartWith unstringifyStart
  simp only [hg, decide_eq_true_eq]
  first | done | rfl

theorem unstringifyItemsWith_eq (g : String → Bool) (hg : ∀ s, g s = decide (s = infinityStr)) :
    unstringifyItemsWith g = unstringifyItems := by
  funext v
  unfold unstringifyItemsWith unstringifyItems
  simp only [unstringifyStartWith_eq g hg]
  first | done | rfl

theorem unstringifyDefaultsWith_eq (gKey gVal : String → Bool)
    (hKey : ∀ s, gKey s = (decide (s = "migration") || decide (s = "deme")))
    (hVal : ∀ s, gVal s = decide (s = infinityStr)) :
    unstringifyDefaultsWith gKey gVal = unstringifyDefaults := by
  funext v
  unfold unstringifyDefaultsWith unstringifyDefaults
  simp only [unstringifyStartWith_eq gVal hVal, hKey, Bool.or_eq_true, decide_eq_true_eq]
  first | done | rfl

theorem unstringifyInfinitiesWith_eq (gD gM gKey gVal : String → Bool)
    (hD : ∀ s, gD s = decide (s = infinityStr)) (hM : ∀ s, gM s = decide (s = infinityStr))
    (hKey : ∀ s, gKey s = (decide (s = "migration") || decide (s = "deme")))
    (hVal : ∀ s, gVal s = decide (s = infinityStr)) :
    unstringifyInfinitiesWith gD gM gKey gVal = unstringifyInfinities := by
  funext data
  unfold unstringifyInfinitiesWith unstringifyInfinities
  simp only [unstringifyItemsWith_eq gD hD, unstringifyItemsWith_eq gM hM, unstringifyDefaultsWith_eq gKey gVal hKey hVal]
  have hf : (fun (kv : String × Value) =>
        if kv.1 = "demes" then do
          let v ← unstringifyItems kv.2; pure (kv.1, v)
        else if kv.1 = "migrations" then do
          let v ← unstringifyItems kv.2; pure (kv.1, v)
        else if kv.1 = "defaults" then do
          let v ← unstringifyDefaults kv.2; pure (kv.1, v)
        else (pure kv : Except Err (String × Value)))
      = (fun kv =>
        if kv.1 = "demes" || kv.1 = "migrations" then do
          let v ← unstringifyItems kv.2; pure (kv.1, v)
        else if kv.1 = "defaults" then do
          let v ← unstringifyDefaults kv.2; pure (kv.1, v)
        else pure kv) := by
    funext kv
    by_cases h1 : kv.1 = "demes"
    · simp [h1]
    · by_cases h2 : kv.1 = "migrations" <;> simp [h1, h2]
  rw [hf]

/-! ### `_no_null_values`: the Model's checks as functions of a `Value` -/

/-- `assert_no_nulls(d)` (the library calls it on mappings only) -/
def nnObj (v : Value) : Bool :=
  match v with
  | .obj kvs => noNullObj kvs
  | _ => true

/-- `assert_no_nulls_in_list(k, v)` (called on lists only; the key is used in the message only) -/
def nnList (_k : String) (v : Value) : Bool :=
  match v with
  | .list xs => noNullList xs
  | _ => true

theorem noNullObj_eq_all (kvs : Obj) : noNullObj kvs = kvs.all (fun kv => noNullVal kv.2) := by
  induction kvs with
  | nil => simp [noNullObj]
  | cons kv rest ih => obtain ⟨k, v⟩ := kv; simp [noNullObj, ih]

theorem noNullList_eq_all (xs : List Value) : noNullList xs = xs.all noNullVal := by
  induction xs with
  | nil => simp [noNullList]
  | cons x rest ih => simp [noNullList, ih]

end Demes.Proofs.Guards2
