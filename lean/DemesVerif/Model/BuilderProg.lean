/-
  Vocabulary for the translator tie of the `Builder` class (DESIGN §4.1, group "GuardsBuilder"; C02, C18).
  Nothing of the Model proper imports this file, and this file does not import `Model/Builder.lean`:
  the meaning below is written over documents (`Value`, `Obj`) only.

  `harness/extract_tables.py` (`gen_guards_builder`) turns `Builder.__init__`, `add_deme`, `add_migration`,
  `add_pulse` of demes/demes.py into terms of the row language below (`Method`): the signature, the `dict(…)` the
  method starts from, one `Row` per `if p is not None: x["k"] = p` block IN SOURCE ORDER (a dict keeps insertion
  order), and what the method finally does with the dictionary (`Tail`).  `denoteV` gives such a term its meaning on
  an argument record and on the Builder's `data`; `Theorems/TablesGuardsBuilder.lean` proves that the Model's
  `Builder.step` / `stepV` / `raises` are the meaning of the generated terms, for all arguments and all data.

  Python objects that are not documents: the only one the methods handle is the sentinel `NO_DEFAULT`
  (`NO_DEFAULT = object()`, pinned), the default of `demes` / `source` / `dest` of `add_migration`; `PyVal` adds it.
-/
import DemesVerif.Model.Value
namespace Demes.Builder.Prog
open Demes Demes.Obj

/-- a value a parameter can hold: a document value (`.val .null` is Python's `None`) or the sentinel -/
inductive PyVal where
  | noDefault
  | val (v : Value)
  deriving Repr, Inhabited

/-- the default of a parameter, as the signature spells it -/
inductive Default where
  /-- no default: the argument must be passed -/
  | required
  /-- `= None` -/
  | pyNone
  /-- `= NO_DEFAULT` -/
  | noDefault
  /-- `= "…"` -/
  | str (s : String)
  /-- anything else (source text); it has no meaning here -/
  | other (text : String)
  deriving DecidableEq, Repr, Inhabited

structure Param where
  name : String
  /-- after the `*` of the signature -/
  kwOnly : Bool
  default : Default
  deriving DecidableEq, Repr, Inhabited

/-- the test around a store -/
inductive Guard where
  /-- no test: `x["k"] = p` -/
  | always
  /-- `if p is not None:` -/
  | notNone
  /-- `if p is not NO_DEFAULT:` -/
  | notNoDefault
  deriving DecidableEq, Repr, Inhabited

/-- `if <guard on param>: [if param == "Infinity": param = math.inf]  x["key"] = param` -/
structure Row where
  key : String
  param : String
  guard : Guard
  /-- the nested `if param == "Infinity": param = math.inf` stands before the store -/
  infinityString : Bool
  deriving DecidableEq, Repr, Inhabited

/-- what the method does with the dictionary `x` it has built -/
inductive Tail where
  /-- `x` is `self.data` itself (the constructor: `self.data = dict(…)`, `self.data["k"] = p`) -/
  | assignData
  /-- `[if "key" not in self.data: self.data["key"] = []]` (present iff `ensure`) `self.data["key"].append(x)` -/
  | append (key : String) (ensure : Bool)
  deriving DecidableEq, Repr, Inhabited

structure Method where
  /-- the parameters after the receiver, in order -/
  params : List Param
  /-- `x = dict(k=p, …)`: (key, parameter) -/
  initial : List (String × String)
  rows : List Row
  tail : Tail
  deriving DecidableEq, Repr, Inhabited

/-! ### meaning -/

/-- one call's arguments: (parameter, `none` = not passed / `some v` = passed with the value `v`), in the
order of the signature (all but the first parameter of `add_deme` are keyword-only, so the caller's
order is immaterial) -/
abbrev Args := List (String × Option Value)

/-- the local variables of the running method (its parameters) -/
abbrev Env := List (String × PyVal)

def Default.value? : Default → Option PyVal
  | .required => none            -- `TypeError: missing … required … argument`
  | .pyNone => some (.val .null)
  | .noDefault => some .noDefault
  | .str s => some (.val (.str s))
  | .other _ => none

/-- the value a parameter is bound to -/
def argVal (d : Default) : Option Value → Option PyVal
  | some v => some (.val v)
  | none => d.value?

/-- binding the arguments to the signature; `none` when the names do not match the signature (Python:
`TypeError: unexpected keyword argument`) or a required argument is missing -/
def bindArgs : List Param → Args → Option Env
  | [], [] => some []
  | p :: ps, (n, x) :: rest =>
    if p.name = n then
      match argVal p.default x, bindArgs ps rest with
      | some v, some env => some ((n, v) :: env)
      | _, _ => none
    else none
  | _, _ => none

def getVar (p : String) : Env → Option PyVal
  | [] => none
  | (n, v) :: rest => if n = p then some v else getVar p rest

/-- `p = v` for a variable that is bound -/
def setVar (p : String) (x : PyVal) : Env → Env
  | [] => []
  | (n, v) :: rest => if n = p then (n, x) :: rest else (n, v) :: setVar p x rest

/-- does the test let the store happen? (`NO_DEFAULT is not None`: the sentinel passes `notNone`) -/
def fires : Guard → PyVal → Bool
  | .always, _ => true
  | .notNone, .val .null => false
  | .notNone, _ => true
  | .notNoDefault, .noDefault => false
  | .notNoDefault, _ => true

/-- `p == "Infinity"` -/
def isInfinityString : PyVal → Bool
  | .val (.str s) => decide (s = "Infinity")
  | _ => false

/-- one row, on the variables and the dictionary under construction.  Storing the sentinel into the
dictionary has no meaning here (it is not a document): `none`. -/
def runRow (st : Env × Obj) (r : Row) : Option (Env × Obj) :=
  match getVar r.param st.1 with
  | none => none
  | some x =>
    if fires r.guard x then
      let conv := r.infinityString && isInfinityString x
      -- `if p == "Infinity": p = math.inf`
      let env := if conv then setVar r.param (.val (.num .pinf)) st.1 else st.1
      let y := if conv then .val (.num .pinf) else x
      -- `x["key"] = p`
      match y with
      | .val v => some (env, Obj.set r.key v st.2)
      | .noDefault => none
    else some st

/-- `dict(k=p, …)` -/
def initialDict (env : Env) : List (String × String) → Option Obj
  | [] => some []
  | (k, p) :: rest =>
    match getVar p env, initialDict env rest with
    | some (.val v), some d => some ((k, v) :: d)
    | _, _ => none

/-- the Builder's data after the call, and whether the call raised -/
structure Outcome where
  data : Value
  raised : Bool
  deriving Repr, Inhabited

/-- the last statements of the method.  `self.data` is whatever `Builder.fromdict` was given or the caller
put there.  On a mapping: the membership test and the item assignment work; `self.data["key"]` raises
`KeyError` when the key is absent, `.append` raises `AttributeError` unless the entry is a list (of the
documents only lists have an `append`).  On anything else (`None`, a number, a string, a list) the
membership test, the item assignment or the subscript with a string raises `TypeError`.  A raising call
leaves what it has done so far. -/
def runTail (item : Obj) (data : Value) : Tail → Outcome
  | .assignData => ⟨.obj item, false⟩
  | .append key ensure =>
    match data with
    | .obj d =>
      -- `if "key" not in self.data: self.data["key"] = []`
      let d1 := if ensure && !contains key d then Obj.set key (.list []) d else d
      -- `self.data["key"].append(item)`
      match lookup key d1 with
      | none => ⟨.obj d1, true⟩
      | some (.list xs) => ⟨.obj (Obj.set key (.list (xs ++ [.obj item])) d1), false⟩
      | some _ => ⟨.obj d1, true⟩
    | v => ⟨v, true⟩

/-- the rows, in order -/
def runRows (rows : List Row) (st : Env × Obj) : Option (Env × Obj) := rows.foldlM runRow st

/-- the dictionary the method builds from its arguments -/
def buildDict (m : Method) (args : Args) : Option Obj :=
  match bindArgs m.params args with
  | none => none
  | some env =>
    match initialDict env m.initial with
    | none => none
    | some d0 => (runRows m.rows (env, d0)).map (·.2)

/-- **the meaning of a method** on an argument record and the Builder's data (any value: `fromdict` stores what
it is given); `none`: the term has no meaning (an unknown parameter, a default that is not understood, the
sentinel stored into a dictionary, arguments that do not fit the signature) -/
def denoteV (m : Method) (args : Args) (data : Value) : Option Outcome :=
  (buildDict m args).map (fun item => runTail item data m.tail)

/-- the same on a Builder whose data is a dictionary: the dictionary after the call -/
def denote (m : Method) (args : Args) (data : Obj) : Option Obj :=
  match denoteV m args (.obj data) with
  | some ⟨.obj d, _⟩ => some d
  | _ => none

end Demes.Builder.Prog
