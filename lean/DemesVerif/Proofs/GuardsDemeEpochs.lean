/-
  Proofs for the tie of `Deme._check_epochs` (Generated/GuardsDemeEpochs.lean): the generated whole-body function,
  read on the Model's epochs, is "every epoch after the first starts where its predecessor ended", which is the
  alignment part of the Spec's `contiguous` (clause V5).
-/
import DemesVerif.Generated.GuardsDemeEpochs
import DemesVerif.Spec.Valid
import Mathlib.Tactic.Linarith
namespace Demes.Proofs.GuardsDemeEpochs
open Demes Demes.Spec

/-- every epoch after the first starts where its predecessor ended -/
def epochsAligned : List Epoch → Bool
  | a :: b :: rest => (b.startTime == ETime.fin a.endTime) && epochsAligned (b :: rest)
  | _ => true

/-- the generated `Deme._check_epochs` read on Model epochs -/
def genDemeCheckEpochs (eps : List Epoch) : Bool :=
  Generated.deme_check_epochs (Epoch_end_time := fun e => Num.fin e.endTime)
    (Epoch_start_time := fun e => Num.ofETime e.startTime) (self_epochs := eps)

theorem eqIEEE_fin_ofETime (q : Q) (t : ETime) :
    Num.eqIEEE (.fin q) (Num.ofETime t) = (t == ETime.fin q) := by
  cases t with
  | inf => rfl
  | fin x =>
    show decide (q = x) = (ETime.fin x == ETime.fin q)
    by_cases h : q = x
    · subst h; simp
    · have : ¬ (ETime.fin x = ETime.fin q) := fun he => h (by injection he with he; exact he.symm)
      simp [h, this]

theorem pyGetItem_pred {α} (xs : List α) (j : Nat) : pyGetItem? xs (Int.ofNat (j + 1) - 1) = xs[j]? := by
  have h : Int.ofNat (j + 1) - 1 = (j : Int) := by simp
  rw [h]
  simp [pyGetItem?]

theorem aligned_iff (eps : List Epoch) :
    epochsAligned eps = true ↔
      ∀ j p x, eps[j]? = some p → eps[j + 1]? = some x → x.startTime = ETime.fin p.endTime := by
  induction eps with
  | nil => simp [epochsAligned]
  | cons a rest ih =>
    cases rest with
    | nil => simp [epochsAligned]
    | cons b rest =>
      simp only [epochsAligned, Bool.and_eq_true, beq_iff_eq, ih]
      constructor
      · rintro ⟨h0, h⟩ j p x hp hx
        cases j with
        | zero => simp at hp hx; subst hp hx; exact h0
        | succ j => exact h j p x (by simpa using hp) (by simpa using hx)
      · intro h
        refine ⟨h 0 a b (by simp) (by simp), fun j p x hp hx => h (j + 1) p x (by simpa using hp) (by simpa using hx)⟩

theorem gen_iff (eps : List Epoch) :
    genDemeCheckEpochs eps = true ↔
      ∀ j p x, eps[j]? = some p → eps[j + 1]? = some x → x.startTime = ETime.fin p.endTime := by
  unfold genDemeCheckEpochs Generated.deme_check_epochs
  simp only [List.all_eq_true, List.mem_zipIdx_iff_getElem?, Prod.forall]
  constructor
  · intro h j p x hp hx
    have := h x (j + 1) hx
    simp only [Nat.zero_lt_succ, decide_true, Bool.not_true, Bool.false_or, pyGetItem_pred, hp,
      Bool.not_not, eqIEEE_fin_ofETime, beq_iff_eq] at this
    exact this
  · intro h x i hx
    cases i with
    | zero => simp
    | succ j =>
      have hlt : j + 1 < eps.length := (List.getElem?_eq_some_iff.1 hx).1
      have hj : eps[j]? = some (eps[j]'(by omega)) := List.getElem?_eq_getElem (by omega)
      simp only [Nat.zero_lt_succ, decide_true, Bool.not_true, Bool.false_or, pyGetItem_pred, hj,
        Bool.not_not, eqIEEE_fin_ofETime, beq_iff_eq]
      exact h j _ x hj hx

/-- the generated body of `Deme._check_epochs` is the alignment test -/
theorem gen_eq_aligned (eps : List Epoch) : genDemeCheckEpochs eps = epochsAligned eps := by
  rw [Bool.eq_iff_iff, gen_iff, aligned_iff]

/-- the Spec's `contiguous` (V5) is: the first epoch starts at `start`, every epoch is strictly older at its start
than at its end, and the epochs are aligned -/
theorem contiguous_eq (start : ETime) (eps : List Epoch) :
    contiguous start eps
      = ((match eps with | [] => true | e :: _ => e.startTime == start)
          && eps.all (fun e => decide (ETime.fin e.endTime < e.startTime)) && epochsAligned eps) := by
  induction eps generalizing start with
  | nil => rfl
  | cons a rest ih =>
    cases rest with
    | nil => simp [contiguous, epochsAligned]
    | cons b rest =>
      rw [contiguous, ih]
      simp only [epochsAligned, List.all_cons]
      cases (a.startTime == start) <;> cases (b.startTime == ETime.fin a.endTime)
        <;> cases (decide (ETime.fin a.endTime < a.startTime)) <;> cases (decide (ETime.fin b.endTime < b.startTime))
        <;> simp

theorem valid_check_epochs (g : Graph) (hv : validGraph g = true) (d : Deme) (hd : d ∈ g.demes) :
    genDemeCheckEpochs d.epochs = true := by
  have h5 : v5 g = true := by
    simp only [validGraph, validData, Bool.and_eq_true] at hv
    tauto
  simp only [v5, List.all_eq_true, Bool.and_eq_true] at h5
  have := (h5 d hd).2
  rw [contiguous_eq, Bool.and_eq_true] at this
  rw [gen_eq_aligned]; exact this.2

end Demes.Proofs.GuardsDemeEpochs
