/-
  C07 — migrations: the `-m` / `-em` options give, for every ordered pair of demes and every
  time, the rate `4·N0·rate` of the graph migration active then, `0` when there is none.
-/
import DemesVerif.Proofs.ToMsSizes
set_option linter.unusedSimpArgs false
set_option linter.unusedVariables false
namespace Demes.Proofs.ToMs
open Demes Demes.Ms Demes.Spec Demes.Spec.C07 Demes.Proofs.RV

/-! ### population numbers -/

theorem idOf_eq_iff {g : Graph} (hn : (g.demes.map (·.name)).Nodup) {a : Nat} {da : Deme}
    (hd : g.demes[a]? = some da) {name : String} (hs : (g.demeId? name).isSome = true) :
    idOf g name = ((a + 1 : Nat) : Int) ↔ name = da.name := by
  unfold idOf
  cases hj : g.demeId? name with
  | none => rw [hj] at hs; cases hs
  | some j =>
    simp only [Option.getD_some]
    constructor
    · intro h
      have : j = a := by omega
      subst this
      exact ((demeId_eq_iff hn hd name).1 hj)
    · intro h
      have := (demeId_eq_iff hn hd name).2 h
      rw [hj] at this
      cases this; rfl

theorem startOf_name {g : Graph} (c : Clauses g) {d : Deme} (hd : d ∈ g.demes) : startOf g d.name = d.startTime := by
  simp [startOf, RV.deme?_eq_findDeme c.h0, findDeme_of_mem c hd]

/-! ### the options of one ordered pair -/

def pairB (da db : Deme) (m : Migration) : Bool := m.dest = da.name && m.source = db.name

theorem isMigEvOf_migOn {g : Graph} (c : Clauses g) {a b : Nat} {da db : Deme} (ha : g.demes[a]? = some da)
    (hb : g.demes[b]? = some db) {N0 : Q} {m : Migration} (hm : m ∈ g.migrations) :
    isMigEvOf ((a + 1 : Nat) : Int) ((b + 1 : Nat) : Int) (migOn N0 g m) = pairB da db m := by
  have hok := migOk_of_valid c hm
  have hn := nodup_names c
  simp only [isMigEvOf, migOn, pairB]
  rw [Bool.eq_iff_iff]
  simp only [Bool.and_eq_true, decide_eq_true_eq, idOf_eq_iff hn ha hok.destId, idOf_eq_iff hn hb hok.sourceId]

theorem isMigEvOf_migOff {g : Graph} (c : Clauses g) {a b : Nat} {da db : Deme} (ha : g.demes[a]? = some da)
    (hb : g.demes[b]? = some db) {m : Migration} (hm : m ∈ g.migrations) :
    isMigEvOf ((a + 1 : Nat) : Int) ((b + 1 : Nat) : Int) (migOff g m) = pairB da db m := by
  have hok := migOk_of_valid c hm
  have hn := nodup_names c
  simp only [isMigEvOf, migOff, pairB]
  rw [Bool.eq_iff_iff]
  simp only [Bool.and_eq_true, decide_eq_true_eq, idOf_eq_iff hn ha hok.destId, idOf_eq_iff hn hb hok.sourceId]

/-- the selection predicate of `migRateAt` on unscaled options -/
def selP (i j : Int) (T : Q) (e : Event Growth) : Bool := isMigEvOf i j e && Num.le e.t (.fin T)

theorem isMigEvOf_scale (N0 : Q) (i j : Int) (e : Event Growth) : isMigEvOf i j (scaleEv N0 e) = isMigEvOf i j e := by
  cases e <;> rfl

theorem isMigEvOf_kind {i j : Int} {e : Event Growth} (h : isMigEvOf i j e = true) : isMigKind e = true := by
  cases e <;> simp [isMigEvOf] at h <;> rfl

theorem not_mig_of_size {e : Event Growth} (h : isSizeKind e = true) : isMigKind e = false := by
  cases e <;> simp [isSizeKind] at h <;> rfl

theorem not_mig_of_splitJoin {e : Event Growth} (h : isSplitJoin e = true) : isMigKind e = false := by
  cases e <;> simp [isSplitJoin] at h <;> rfl

/-- the selected options of the emitted command are the scaled stable sort of the selected
migration options of the generator -/
theorem finalEvs_filter_mig {g : Graph} (c : Clauses g) (hx : MsExpressible g = true) {N0 : Q} (hN : 0 < N0)
    (i j : Int) (T : Q) :
    (finalEvs g N0).filter (fun e => isMigEvOf i j e && Num.le e.t (.fin (T / (4 * N0))))
      = (sortBy byQ ((migEvs N0 g).filter (selP i j T))).map (scaleEv N0) := by
  have h4 : (0 : Q) < 4 * N0 := by grind
  rw [finalEvs_eq c hx, List.filter_map]
  congr 1
  have h1 : (sortBy byQ (rawEvs g N0)).filter ((fun e => isMigEvOf i j e && Num.le e.t (.fin (T / (4 * N0)))) ∘ scaleEv N0)
      = (sortBy byQ (rawEvs g N0)).filter (selP i j T) := by
    apply List.filter_congr
    intro x hx'
    obtain ⟨q, hq, _⟩ := (evGood_rawEvs c hx ((mem_sortBy _).1 hx')).time
    simp only [Function.comp, selP, isMigEvOf_scale, t_scale hq, hq, Num.le]
    congr 1
    rw [Bool.eq_iff_iff]
    simp only [decide_eq_true_eq]
    exact InGen.div_le_div h4
  rw [h1, sortBy_filter totalPre_byQ]
  congr 1
  unfold rawEvs
  rw [List.filter_append, List.filter_append]
  have hs : (sizeEvsAll N0 g.demes.zipIdx).filter (selP i j T) = [] := by
    rw [List.filter_eq_nil_iff]
    intro x hx'
    have h := not_mig_of_size (sizeKind_sizeEvsAll hx')
    intro hc
    simp only [selP, Bool.and_eq_true] at hc
    rw [isMigEvOf_kind hc.1] at h; cases h
  have ha : (ancEvs g g.demes.length (dps g)).filter (selP i j T) = [] := by
    rw [List.filter_eq_nil_iff]
    intro x hx'
    have h := not_mig_of_splitJoin (splitJoin_ancEvs hx')
    intro hc
    simp only [selP, Bool.and_eq_true] at hc
    rw [isMigEvOf_kind hc.1] at h; cases h
  rw [hs, ha]; rfl

/-! ### disjointness of the migrations of one pair -/

theorem disjoint_cases {a b : Migration} (h : disjoint a b = true) :
    b.startTime ≤ ETime.fin a.endTime ∨ a.startTime ≤ ETime.fin b.endTime := by
  simp only [disjoint, Bool.not_eq_true', Bool.and_eq_false_iff, decide_eq_false_iff_not] at h
  rcases h with h | h
  · right
    cases hs : a.startTime with
    | inf => rw [hs] at h; exact absurd trivial h
    | fin s => rw [hs] at h; simp only [InGen.fin_lt_fin, InGen.fin_le_fin] at h ⊢; grind
  · left
    cases hs : b.startTime with
    | inf => rw [hs] at h; exact absurd trivial h
    | fin s => rw [hs] at h; simp only [InGen.fin_lt_fin, InGen.fin_le_fin] at h ⊢; grind

theorem pair_disjoint {g : Graph} (c : Clauses g) {da db : Deme} {L1 L2 : List Migration} {m : Migration}
    (hms : g.migrations = L1 ++ m :: L2) (hp : pairB da db m = true) {m' : Migration} (hm' : m' ∈ L1 ++ L2)
    (hp' : pairB da db m' = true) :
    m'.startTime ≤ ETime.fin m.endTime ∨ m.startTime ≤ ETime.fin m'.endTime := by
  have hd := (pairwiseB_iff _ _).mp c.h9
  rw [hms] at hd
  simp only [pairB, Bool.and_eq_true, decide_eq_true_eq] at hp hp'
  have hsame : (m'.source == m.source && m'.dest == m.dest) = true := by
    simp [hp.1, hp.2, hp'.1, hp'.2]
  have hsame' : (m.source == m'.source && m.dest == m'.dest) = true := by
    simp [hp.1, hp.2, hp'.1, hp'.2]
  rw [List.pairwise_append] at hd
  rcases List.mem_append.1 hm' with h | h
  · have := hd.2.2 m' h m List.mem_cons_self
    simp only [hsame, Bool.not_true, Bool.false_or] at this
    exact (disjoint_cases this).symm
  · have := (List.pairwise_cons.1 hd.2.1).1 m' h
    simp only [hsame', Bool.not_true, Bool.false_or] at this
    exact disjoint_cases this

/-! ### the selected generator options -/

def qOn (da db : Deme) (T : Q) (m : Migration) : Bool := pairB da db m && decide (m.endTime ≤ T)

def qOff (da db : Deme) (T : Q) (m : Migration) : Bool :=
  offCond_ m && pairB da db m && decide (m.startTime ≤ ETime.fin T)
where offCond_ (_ : Migration) : Bool := true

theorem filter_migOns {g : Graph} (c : Clauses g) {a b : Nat} {da db : Deme} (ha : g.demes[a]? = some da)
    (hb : g.demes[b]? = some db) {N0 : Q} (T : Q) (ms : List Migration) (hms : ∀ m ∈ ms, m ∈ g.migrations) :
    (migOns N0 g ms).filter (selP ((a + 1 : Nat) : Int) ((b + 1 : Nat) : Int) T)
      = (ms.filter (qOn da db T)).map (migOn N0 g) := by
  unfold migOns
  rw [List.filter_map]
  congr 1
  apply List.filter_congr
  intro m hm
  simp only [Function.comp, selP, isMigEvOf_migOn c ha hb (hms m hm), qOn]
  rfl

theorem filter_migOffs {g : Graph} (c : Clauses g) {a b : Nat} {da db : Deme} (ha : g.demes[a]? = some da)
    (hb : g.demes[b]? = some db) (T : Q) (ms : List Migration) (hms : ∀ m ∈ ms, m ∈ g.migrations) :
    (migOffs g ms).filter (selP ((a + 1 : Nat) : Int) ((b + 1 : Nat) : Int) T)
      = ((ms.filter (offCond g)).filter (qOff da db T)).map (migOff g) := by
  unfold migOffs
  rw [List.filter_map]
  congr 1
  apply List.filter_congr
  intro m hm
  have hm' := hms m (List.mem_filter.1 hm).1
  simp only [Function.comp, selP, isMigEvOf_migOff c ha hb hm', qOff, qOff.offCond_, Bool.true_and]
  congr 1
  simp only [migOff, Event.t]
  cases m.startTime <;> simp [Num.ofETime, Num.le, InGen.fin_le_fin, InGen.inf_le_fin]

theorem mig_lt {g : Graph} (c : Clauses g) {m : Migration} (hm : m ∈ g.migrations) : ETime.fin m.endTime < m.startTime := by
  have hf : MigFacts g := migFacts_of c.h1 c.h6 c.h8 c.h9
  obtain ⟨_, _, _, _, hlt, _⟩ := hf.mig m hm
  exact hlt

theorem et_lt_irrefl' {a b : ETime} (h1 : a < b) (h2 : b ≤ a) : False := by
  cases a <;> cases b <;>
    simp only [InGen.fin_lt_fin, InGen.fin_le_fin, InGen.le_inf, InGen.inf_lt, InGen.inf_le_fin, InGen.fin_lt_inf] at * <;>
    grind

/-- while a migration of the pair is active, the last selected option is its `-em` -/
theorem getLast_active {g : Graph} (c : Clauses g) {a b : Nat} {da db : Deme} (ha : g.demes[a]? = some da)
    (hb : g.demes[b]? = some db) {N0 : Q} {T : Q} {m : Migration} (hm : m ∈ g.migrations)
    (hp : pairB da db m = true) (h1 : m.endTime ≤ T) (h2 : ETime.fin T < m.startTime) :
    (sortBy byQ ((migEvs N0 g).filter (selP ((a + 1 : Nat) : Int) ((b + 1 : Nat) : Int) T))).getLast?
      = some (migOn N0 g m) := by
  obtain ⟨L1, L2, hms⟩ := List.append_of_mem hm
  have hsub1 : ∀ x ∈ L1, x ∈ g.migrations := fun x hx => by rw [hms]; exact List.mem_append_left _ hx
  have hsub2 : ∀ x ∈ L2, x ∈ g.migrations := fun x hx => by
    rw [hms]; exact List.mem_append_right _ (List.mem_cons_of_mem _ hx)
  have hqm : qOn da db T m = true := by simp [qOn, hp, h1]
  -- the shape `A ++ on m :: B`
  have hR : (migEvs N0 g).filter (selP ((a + 1 : Nat) : Int) ((b + 1 : Nat) : Int) T)
      = (((g.migrations.filter (offCond g)).filter (qOff da db T)).map (migOff g)
          ++ (L1.filter (qOn da db T)).map (migOn N0 g))
        ++ migOn N0 g m :: (L2.filter (qOn da db T)).map (migOn N0 g) := by
    unfold migEvs
    rw [List.filter_append, filter_migOffs c ha hb T _ (fun _ h => h),
      filter_migOns c ha hb T _ (fun _ h => h)]
    have hons : (g.migrations.filter (qOn da db T)).map (migOn N0 g)
        = (L1.filter (qOn da db T)).map (migOn N0 g) ++ migOn N0 g m :: (L2.filter (qOn da db T)).map (migOn N0 g) := by
      rw [hms]
      simp only [List.filter_append, List.filter_cons, hqm, if_true, List.map_append, List.map_cons]
    rw [hons, List.append_assoc]
  rw [hR]
  -- a migration of the pair selected by `qOn`, other than `m`, ends strictly before `m` does
  have hon : ∀ m' ∈ L1 ++ L2, qOn da db T m' = true → m'.endTime < m.endTime := by
    intro m' hm' hq
    simp only [qOn, Bool.and_eq_true, decide_eq_true_eq] at hq
    have hm'g : m' ∈ g.migrations := by
      rcases List.mem_append.1 hm' with h | h
      · exact hsub1 _ h
      · exact hsub2 _ h
    rcases pair_disjoint c hms hp hm' hq.1 with h | h
    · exact et_lt_of_lt_of_le (mig_lt c hm'g) h
    · exfalso
      have h3 : m.startTime ≤ ETime.fin T := et_le_trans h (by exact hq.2)
      exact et_lt_irrefl' h2 h3
  apply getLast?_sortBy
  · intro x hx
    simp only [byQ, decide_eq_true_eq]
    rcases List.mem_append.1 hx with hx | hx
    · obtain ⟨m', hm', rfl⟩ := List.mem_map.1 hx
      obtain ⟨hm'1, hq⟩ := List.mem_filter.1 hm'
      obtain ⟨hm'g, hoc⟩ := List.mem_filter.1 hm'1
      simp only [qOff, qOff.offCond_, Bool.true_and, Bool.and_eq_true, decide_eq_true_eq] at hq
      cases hst : m'.startTime with
      | inf => rw [hst] at hq; exact hq.2.elim
      | fin s =>
        have hev : evT (migOff g m') = s := by simp [evT, migOff, Event.t, hst, Num.ofETime]
        have hev2 : evT (migOn N0 g m) = m.endTime := rfl
        rw [hev, hev2]
        have hsT : s ≤ T := by rw [hst] at hq; exact hq.2
        rw [hms] at hm'g
        have hcases : m' ∈ L1 ++ L2 ∨ m' = m := by
          rcases List.mem_append.1 hm'g with h | h
          · exact Or.inl (List.mem_append_left _ h)
          · rcases List.mem_cons.1 h with h | h
            · exact Or.inr h
            · exact Or.inl (List.mem_append_right _ h)
        rcases hcases with hin | heq
        · rcases pair_disjoint c hms hp hin hq.1 with h | h
          · rw [hst] at h; exact h
          · exfalso
            have hm'g' : m' ∈ g.migrations := by
              rcases List.mem_append.1 hin with h' | h'
              · exact hsub1 _ h'
              · exact hsub2 _ h'
            have hlt := mig_lt c hm'g'
            rw [hst] at hlt
            have : m.startTime ≤ ETime.fin T := et_le_trans h (by
              show m'.endTime ≤ T
              have : m'.endTime < s := hlt
              grind)
            exact et_lt_irrefl' h2 this
        · exfalso
          subst heq
          rw [hst] at h2
          have : T < s := h2
          grind
    · obtain ⟨m', hm', rfl⟩ := List.mem_map.1 hx
      obtain ⟨hm'1, hq⟩ := List.mem_filter.1 hm'
      have := hon m' (List.mem_append_left _ hm'1) hq
      show m'.endTime ≤ m.endTime
      grind
  · intro x hx
    obtain ⟨m', hm', rfl⟩ := List.mem_map.1 hx
    obtain ⟨hm'1, hq⟩ := List.mem_filter.1 hm'
    have := hon m' (List.mem_append_right _ hm'1) hq
    simp only [byQ, decide_eq_false_iff_not]
    show ¬ m.endTime ≤ m'.endTime
    grind

theorem et_le_of_not_lt {a b : ETime} (h : ¬ a < b) : b ≤ a := by
  cases a <;> cases b <;>
    simp only [InGen.fin_lt_fin, InGen.fin_le_fin, InGen.le_inf, InGen.inf_lt, InGen.inf_le_fin, InGen.fin_lt_inf] at * <;>
    grind

theorem sorted_getLast {α} {le : α → α → Bool} {l : List α} (hs : Sorted le l) {x : α}
    (hx : l.getLast? = some x) : ∀ z ∈ l, z = x ∨ le z x = true := by
  obtain ⟨l', rfl⟩ := List.getLast?_eq_some_iff.mp hx
  unfold Sorted at hs
  rw [List.pairwise_append] at hs
  intro z hz
  rcases List.mem_append.1 hz with h | h
  · exact Or.inr (hs.2.2 z h x (by simp))
  · simp only [List.mem_singleton] at h; exact Or.inl h

/-- when no migration of the pair is active (and both demes are alive), the last selected
option, if any, is a `-em … 0` -/
theorem getLast_inactive {g : Graph} (c : Clauses g) {a b : Nat} {da db : Deme} (ha : g.demes[a]? = some da)
    (hb : g.demes[b]? = some db) {N0 : Q} {T : Q}
    (hno : ∀ m ∈ g.migrations, pairB da db m = true → ¬ (m.endTime ≤ T ∧ ETime.fin T < m.startTime))
    (hTa : ETime.fin T < da.startTime) (hTb : ETime.fin T < db.startTime) {x : Event Growth}
    (hx : (sortBy byQ ((migEvs N0 g).filter (selP ((a + 1 : Nat) : Int) ((b + 1 : Nat) : Int) T))).getLast? = some x) :
    ∃ m', x = migOff g m' := by
  have hda : da ∈ g.demes := List.mem_of_getElem? ha
  have hdb : db ∈ g.demes := List.mem_of_getElem? hb
  have hxm : x ∈ (migEvs N0 g).filter (selP ((a + 1 : Nat) : Int) ((b + 1 : Nat) : Int) T) :=
    (mem_sortBy byQ).1 (List.mem_of_getLast? hx)
  have hR : (migEvs N0 g).filter (selP ((a + 1 : Nat) : Int) ((b + 1 : Nat) : Int) T)
      = ((g.migrations.filter (offCond g)).filter (qOff da db T)).map (migOff g)
        ++ (g.migrations.filter (qOn da db T)).map (migOn N0 g) := by
    unfold migEvs
    rw [List.filter_append, filter_migOffs c ha hb T _ (fun _ h => h), filter_migOns c ha hb T _ (fun _ h => h)]
  rw [hR] at hxm
  rcases List.mem_append.1 hxm with h | h
  · obtain ⟨m', _, rfl⟩ := List.mem_map.1 h
    exact ⟨m', rfl⟩
  · exfalso
    obtain ⟨m', hm', rfl⟩ := List.mem_map.1 h
    obtain ⟨hm'g, hq⟩ := List.mem_filter.1 hm'
    simp only [qOn, Bool.and_eq_true, decide_eq_true_eq] at hq
    have hnot : ¬ ETime.fin T < m'.startTime := fun hlt => hno m' hm'g hq.1 ⟨hq.2, hlt⟩
    have hle := et_le_of_not_lt hnot
    have hp := hq.1
    simp only [pairB, Bool.and_eq_true, decide_eq_true_eq] at hp
    cases hst : m'.startTime with
    | inf => rw [hst] at hle; exact hle.elim
    | fin s =>
      rw [hst] at hle
      have hsT : s ≤ T := hle
      have hlt := mig_lt c hm'g
      rw [hst] at hlt
      have hes : m'.endTime < s := hlt
      -- the `-em … 0` of `m'` is among the selected options
      have hoc : offCond g m' = true := by
        simp only [offCond, hst, ETime.isInf, Bool.not_false, Bool.true_and, Bool.and_eq_true, decide_eq_true_eq,
          hp.1, hp.2, startOf_name c hda, startOf_name c hdb]
        constructor
        · intro h; rw [← h] at hTa; have : T < s := hTa; grind
        · intro h; rw [← h] at hTb; have : T < s := hTb; grind
      have hqo : qOff da db T m' = true := by
        simp only [qOff, qOff.offCond_, Bool.true_and, Bool.and_eq_true, decide_eq_true_eq, hq.1, hst, true_and]
        exact hle
      have hoff : migOff g m' ∈ sortBy byQ ((migEvs N0 g).filter (selP ((a + 1 : Nat) : Int) ((b + 1 : Nat) : Int) T)) := by
        rw [mem_sortBy, hR]
        exact List.mem_append_left _ (List.mem_map.2 ⟨m', List.mem_filter.2 ⟨List.mem_filter.2 ⟨hm'g, hoc⟩, hqo⟩, rfl⟩)
      have hev : evT (migOff g m') = s := by simp [evT, migOff, Event.t, hst, Num.ofETime]
      have hev2 : evT (migOn N0 g m') = m'.endTime := rfl
      rcases sorted_getLast (sorted_sortBy totalPre_byQ _) hx _ hoff with h | h
      · rw [h, hev2] at hev; grind
      · simp only [byQ, decide_eq_true_eq, hev, hev2] at h; grind

/-- the migration rates read off the emitted options (graph in generations) -/
theorem migRateAt_finalEvs {g : Graph} (c : Clauses g) (hx : MsExpressible g = true) {N0 : Q} (hN : 0 < N0)
    {a b : Nat} {da db : Deme} (ha : g.demes[a]? = some da) (hb : g.demes[b]? = some db) (T : Q) :
    (∀ m ∈ g.migrations, m.dest = da.name → m.source = db.name → activeAt m T = true →
      migRateAt (finalEvs g N0) ((a + 1 : Nat) : Int) ((b + 1 : Nat) : Int) (T / (4 * N0)) = 4 * N0 * m.rate)
    ∧ ((∀ m ∈ g.migrations, m.dest = da.name → m.source = db.name → activeAt m T = false) →
        ETime.fin T < da.startTime → ETime.fin T < db.startTime →
        migRateAt (finalEvs g N0) ((a + 1 : Nat) : Int) ((b + 1 : Nat) : Int) (T / (4 * N0)) = 0) := by
  refine ⟨?_, ?_⟩
  · intro m hm hd hsrc hact
    simp only [activeAt, Bool.and_eq_true, decide_eq_true_eq] at hact
    have hp : pairB da db m = true := by simp [pairB, hd, hsrc]
    unfold migRateAt
    rw [finalEvs_filter_mig c hx hN, List.getLast?_map, getLast_active c ha hb hm hp hact.2 hact.1]
    rfl
  · intro hno hTa hTb
    have hno' : ∀ m ∈ g.migrations, pairB da db m = true →
        ¬ (m.endTime ≤ T ∧ ETime.fin T < m.startTime) := by
      intro m hm hp hc
      simp only [pairB, Bool.and_eq_true, decide_eq_true_eq] at hp
      have := hno m hm hp.1 hp.2
      simp [activeAt, hc.1, hc.2] at this
    unfold migRateAt
    rw [finalEvs_filter_mig c hx hN, List.getLast?_map]
    cases hl : (sortBy byQ ((migEvs N0 g).filter
        (selP ((a + 1 : Nat) : Int) ((b + 1 : Nat) : Int) T))).getLast? with
    | none => rfl
    | some x =>
      obtain ⟨m', rfl⟩ := getLast_inactive c ha hb hno' hTa hTb hl
      rfl

/-- Statement of `Theorems.toMs_migrations`. -/
theorem toMs_migrations {graph : Graph} (hv : validGraph graph = true) (hx : MsExpressible graph = true)
    {N0 : Q} (hN : 0 < N0) {samples : Option (List Int)} (hs : samplesOk graph samples = true) :
    ∃ c cmd, toMs graph N0 samples = .ok c ∧ parseCmd c = some cmd ∧
      ∀ (a b : Nat) (da db : Deme), (inGenerations graph).demes[a]? = some da →
        (inGenerations graph).demes[b]? = some db → ∀ T : Q,
        (∀ m ∈ (inGenerations graph).migrations, m.dest = da.name → m.source = db.name → activeAt m T = true →
          migRateAt cmd.events ((a + 1 : Nat) : Int) ((b + 1 : Nat) : Int) (T / (4 * N0)) = 4 * N0 * m.rate)
        ∧ ((∀ m ∈ (inGenerations graph).migrations, m.dest = da.name → m.source = db.name → activeAt m T = false) →
            ETime.fin T < da.startTime → ETime.fin T < db.startTime →
            migRateAt cmd.events ((a + 1 : Nat) : Int) ((b + 1 : Nat) : Int) (T / (4 * N0)) = 0) := by
  have c := clauses_of_valid (InGen.inGenerations_valid graph hv)
  have hx' : MsExpressible (inGenerations graph) = true := by rw [expr_inGen]; exact hx
  have hs' : samplesOk (inGenerations graph) samples = true := by rw [samplesOk_inGen]; exact hs
  exact ⟨_, _, toMs_ok_eq hv hx hN hs, parseCmd_cmdOf c hx' hN hs',
    fun a b da db ha hb T => migRateAt_finalEvs c hx' hN ha hb T⟩

end Demes.Proofs.ToMs
