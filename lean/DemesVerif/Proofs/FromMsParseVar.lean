/-
  C08 — agreement of the two parsers: `-es`, `-ma`, `-ema`, `-I` and the options without
  demographic meaning, both directions.
-/
import DemesVerif.Proofs.FromMsParseFixed
namespace Demes.Proofs.FromMsParse
open Demes.Proofs.FromMs
open Demes Demes.Ms Demes.Spec Demes.Spec.MsSem Demes.Spec.C08
open Demes.Proofs.RV (bind_ok pure_ok)

/-! ### `-es` (the interpreter checks the range of `p` first) -/

theorem C_es {npop0 : Nat} {rate0 : Q} {f : Nat} {pr : Parsed} {rest : List String} {a : Args} {acc : Parsed}
    (ih : CHyp npop0 rate0 f pr) (hlen : rest.length ≤ f) (hp : PSuf npop0 ("-es" :: rest))
    (hinv : Inv (findStructure ("-es" :: rest)) npop0 rate0 a acc)
    (h2 : parseFrom npop0 (f + 1) ("-es" :: rest) acc = .ok pr) :
    ∃ args, ML ("-es" :: rest) a = .ok args ∧ Inv (.ok (1, 0)) npop0 rate0 args pr := by
  obtain ⟨_, _, hg, hnext, hargs, hl⟩ := hp.group_split
  have har : arity.lookup "-es" = some (.fixed 3) := by decide
  have hk : C08.argRun rest = 3 := groupOK_fixed har (by decide) (by decide) (by decide) hg
  have hfs := fs_group (flag := "-es") (C08.argRun rest) (by decide) hargs
  rw [hk] at hnext hfs hl
  obtain ⟨v0, v1, v2, post, rfl⟩ := shape3 hk
  simp only [List.drop_succ_cons, List.drop_zero] at hnext hfs hl
  simp (decide := true) only [parseFrom, if_false, if_true, List.getD_cons_zero, List.getD_cons_succ,
    List.drop_succ_cons, List.drop_zero] at h2
  obtain ⟨_, _, h2⟩ := sbind_ok.1 h2
  obtain ⟨p, hsp, h2⟩ := sbind_ok.1 h2
  have hfp := num_ok.1 hsp
  split at h2
  · exact (sthrow_bind_ok.1 h2).elim
  · rename_i hrange
    obtain ⟨q0, hs0, h2⟩ := sbind_ok.1 h2
    obtain ⟨hf0, hq0⟩ := nonneg_ok.1 hs0
    obtain ⟨i1, hs1, h2⟩ := sbind_ok.1 h2
    obtain ⟨j1, hf1, hj1, rfl⟩ := idx_ok.1 hs1
    have hp01 : 0 ≤ p ∧ p ≤ 1 := by
      simp only [Bool.or_eq_true, decide_eq_true_eq, not_or, Rat.not_lt, GT.gt] at hrange
      exact hrange
    rw [ML_fixed _ a (clsOf_known (known_mem _ (by decide))) har hk]
    have hT : takeAction a "-es" [v0, v1, v2]
        = .ok { a with demographicEvents := a.demographicEvents ++ [.split "-es" (.fin q0) j1 (.fin p)] } := by
      simp (decide := true) only [takeAction, if_false, if_true, arg, List.getD_cons_zero, List.getD_cons_succ,
        cFloat_some hf0, cInt_some hf1, cFloat_some hfp, mkSplit_fin _ hq0 hj1 hp01.1 hp01.2, eok_bind]
      rfl
    simp only [List.take_succ_cons, List.take_zero, List.drop_succ_cons, List.drop_zero]
    rw [hT]
    exact ih post _ _ (by simp only [List.length_cons] at hlen; omega) hnext (hinv.ev hfs rfl hq0) h2

theorem B_es {npop0 : Nat} {f : Nat} {args : Args} {rest : List String} {a : Args} {acc : Parsed}
    (ih : BHyp npop0 f args) (hlen : rest.length ≤ f) (hp : PSuf npop0 ("-es" :: rest))
    (hfin : ∀ s ∈ "-es" :: rest, C08.finTok s = true) (hI : acc.sawI = true → "-I" ∉ "-es" :: rest)
    (h1 : ML ("-es" :: rest) a = .ok args) :
    ∃ pr, parseFrom npop0 (f + 1) ("-es" :: rest) acc = .ok pr := by
  obtain ⟨_, _, hg, hnext, hargs, hl⟩ := hp.group_split
  have har : arity.lookup "-es" = some (.fixed 3) := by decide
  have hk : C08.argRun rest = 3 := groupOK_fixed har (by decide) (by decide) (by decide) hg
  rw [hk] at hnext hl
  obtain ⟨v0, v1, v2, post, rfl⟩ := shape3 hk
  simp only [List.drop_succ_cons, List.drop_zero] at hnext hl
  rw [ML_fixed _ a (clsOf_known (known_mem _ (by decide))) har hk] at h1
  obtain ⟨a', hT, h1⟩ := bind_ok.1 h1
  simp only [List.take_succ_cons, List.take_zero, List.drop_succ_cons, List.drop_zero] at hT h1
  simp (decide := true) only [takeAction, if_false, if_true, arg, List.getD_cons_zero, List.getD_cons_succ] at hT
  obtain ⟨x0, hc0, hT⟩ := bind_ok.1 hT
  obtain ⟨x1, hc1, hT⟩ := bind_ok.1 hT
  obtain ⟨x2, hc2, hT⟩ := bind_ok.1 hT
  obtain ⟨e, he, hT⟩ := bind_ok.1 hT
  obtain ⟨hwq0, hwj1, hwp⟩ := mkSplit_ok he
  obtain ⟨q0, hs0⟩ := nonneg_of hc0 (hfin v0 (by simp)) hwq0
  have hs1 := idx_of hc1 hwj1
  obtain ⟨p, rfl⟩ := fin_of_finTok (cFloat_ok hc2) (hfin v2 (by simp))
  have hs2 : num v2 = .ok p := num_ok.2 (cFloat_ok hc2)
  have hp01 := vUnitInterval_fin.1 hwp
  have hr : (decide (p < 0) || decide (p > 1)) = false := by
    simp only [Bool.or_eq_false_iff, decide_eq_false_iff_not, Rat.not_lt, GT.gt]
    exact hp01
  simp (decide := true) only [parseFrom, if_false, if_true, List.getD_cons_zero, List.getD_cons_succ,
    List.drop_succ_cons, List.drop_zero, need_ok (l := v0 :: v1 :: v2 :: post) (k := 3) _ (by simp), hs0, hs1, hs2,
    sok_bind, hr, Bool.false_eq_true]
  exact ih post a' _ (by simp only [List.length_cons] at hlen; omega) hnext
    (fun s hs => hfin s (by simp [hs])) (fun h hm => hI h (by simp [hm])) h1

/-! ### `-ma` -/

theorem C_ma {npop0 : Nat} {rate0 : Q} {f : Nat} {pr : Parsed} {rest : List String} {a : Args} {acc : Parsed}
    (hN : 1 ≤ npop0)
    (ih : CHyp npop0 rate0 f pr) (hlen : rest.length ≤ f) (hp : PSuf npop0 ("-ma" :: rest))
    (hinv : Inv (findStructure ("-ma" :: rest)) npop0 rate0 a acc)
    (h2 : parseFrom npop0 (f + 1) ("-ma" :: rest) acc = .ok pr) :
    ∃ args, ML ("-ma" :: rest) a = .ok args ∧ Inv (.ok (1, 0)) npop0 rate0 args pr := by
  obtain ⟨_, _, hg, hnext, hargs, hl⟩ := hp.group_split
  have har : arity.lookup "-ma" = some .plus := by decide
  have hk : C08.argRun rest = npop0 * npop0 := groupOK_ma hg
  have hfs := fs_group (flag := "-ma") (C08.argRun rest) (by decide) hargs
  have hk1 : 1 ≤ C08.argRun rest := by rw [hk]; exact Nat.mul_le_mul hN hN
  simp (decide := true) only [parseFrom, if_false, if_true] at h2
  obtain ⟨_, _, h2⟩ := sbind_ok.1 h2
  rw [ML_plus _ a (clsOf_known (known_mem _ (by decide))) har hk1]
  have hT : ∀ vs, takeAction a "-ma" vs
      = .ok { a with initialState := a.initialState ++ [.migMatrixChange "-ma" (.fin 0) 1 vs] } := by
    intro vs
    simp (decide := true) only [takeAction, if_false, if_true,
      mkMigMatrixChange_fin "-ma" vs zero_le_zero_Q (Int.le_refl 1), eok_bind]
    rfl
  rw [hT]
  rw [← hk] at h2
  exact ih _ _ _ (by omega) hnext (hinv.ini hfs rfl rfl) h2

theorem B_ma {npop0 : Nat} {f : Nat} {args : Args} {rest : List String} {a : Args} {acc : Parsed}
    (hN : 1 ≤ npop0)
    (ih : BHyp npop0 f args) (hlen : rest.length ≤ f) (hp : PSuf npop0 ("-ma" :: rest))
    (hfin : ∀ s ∈ "-ma" :: rest, C08.finTok s = true) (hI : acc.sawI = true → "-I" ∉ "-ma" :: rest)
    (h1 : ML ("-ma" :: rest) a = .ok args) :
    ∃ pr, parseFrom npop0 (f + 1) ("-ma" :: rest) acc = .ok pr := by
  obtain ⟨_, _, hg, hnext, hargs, hl⟩ := hp.group_split
  have har : arity.lookup "-ma" = some .plus := by decide
  have hk : C08.argRun rest = npop0 * npop0 := groupOK_ma hg
  have hk1 : 1 ≤ C08.argRun rest := by rw [hk]; exact Nat.mul_le_mul hN hN
  rw [ML_plus _ a (clsOf_known (known_mem _ (by decide))) har hk1] at h1
  obtain ⟨a', hT, h1⟩ := bind_ok.1 h1
  have hle := argRun_le rest
  simp (decide := true) only [parseFrom, if_false, if_true,
    need_ok (l := rest) (k := npop0 * npop0) _ (by omega), sok_bind]
  rw [← hk]
  exact ih _ a' _ (by omega) hnext
    (fun s hs => hfin s (List.mem_cons_of_mem _ ((List.drop_sublist _ _).subset hs)))
    (fun h hm => hI h (List.mem_cons_of_mem _ ((List.drop_sublist _ _).subset hm))) h1

/-! ### `-ema` -/

theorem ema_lists (tS nS : String) (mm post : List String) {k : Nat} (hmm : mm.length = k) :
    (tS :: nS :: (mm ++ post)).drop (2 + k) = post
    ∧ (tS :: nS :: (mm ++ post)).take (2 + k) = tS :: nS :: mm
    ∧ ((tS :: nS :: (mm ++ post)).drop 2).take k = mm := by
  refine ⟨?_, ?_, ?_⟩
  · rw [Nat.add_comm, List.drop_succ_cons, List.drop_succ_cons, List.drop_left' hmm]
  · rw [Nat.add_comm, List.take_succ_cons, List.take_succ_cons, List.take_left' hmm]
  · rw [List.drop_succ_cons, List.drop_succ_cons, List.drop_zero, List.take_left' hmm]

theorem C_ema {npop0 : Nat} {rate0 : Q} {f : Nat} {pr : Parsed} {rest : List String} {a : Args} {acc : Parsed}
    (ih : CHyp npop0 rate0 f pr) (hlen : rest.length ≤ f) (hp : PSuf npop0 ("-ema" :: rest))
    (hinv : Inv (findStructure ("-ema" :: rest)) npop0 rate0 a acc)
    (h2 : parseFrom npop0 (f + 1) ("-ema" :: rest) acc = .ok pr) :
    ∃ args, ML ("-ema" :: rest) a = .ok args ∧ Inv (.ok (1, 0)) npop0 rate0 args pr := by
  obtain ⟨_, _, hg, hnext, hargs, hl⟩ := hp.group_split
  have har : arity.lookup "-ema" = some .plus := by decide
  have hfs := fs_group (flag := "-ema") (C08.argRun rest) (by decide) hargs
  obtain ⟨tS, nS, n, mm, post, rfl, hn, hn1, hmm, hk⟩ := ema_shape hg
  obtain ⟨e1, e2, e3⟩ := ema_lists tS nS mm post hmm
  simp (decide := true) only [parseFrom, if_false, if_true, List.getD_cons_zero, List.getD_cons_succ] at h2
  obtain ⟨_, _, h2⟩ := sbind_ok.1 h2
  obtain ⟨i, hsi, h2⟩ := sbind_ok.1 h2
  obtain ⟨j, hj, _, rfl⟩ := idx_ok.1 hsi
  rw [hn] at hj
  cases hj
  obtain ⟨_, _, h2⟩ := sbind_ok.1 h2
  obtain ⟨t, hst, h2⟩ := sbind_ok.1 h2
  obtain ⟨hft, ht0⟩ := nonneg_ok.1 hst
  rw [e1, e3] at h2
  rw [ML_plus _ a (clsOf_known (known_mem _ (by decide))) har (by omega), hk, e1, e2]
  rw [hk, e1] at hnext hfs
  have hT : takeAction a "-ema" (tS :: nS :: mm)
      = .ok { a with demographicEvents := a.demographicEvents ++ [.migMatrixChange "-ema" (.fin t) n mm] } := by
    simp (decide := true) only [takeAction, if_false, if_true, cFloat_some hft, cInt_some hn,
      mkMigMatrixChange_fin "-ema" mm ht0 hn1, eok_bind]
    rfl
  rw [hT]
  exact ih post _ _ (by simp only [List.length_cons, List.length_append] at hlen; omega) hnext
    (hinv.ev hfs rfl ht0) h2

theorem B_ema {npop0 : Nat} {f : Nat} {args : Args} {rest : List String} {a : Args} {acc : Parsed}
    (ih : BHyp npop0 f args) (hlen : rest.length ≤ f) (hp : PSuf npop0 ("-ema" :: rest))
    (hfin : ∀ s ∈ "-ema" :: rest, C08.finTok s = true) (hI : acc.sawI = true → "-I" ∉ "-ema" :: rest)
    (h1 : ML ("-ema" :: rest) a = .ok args) :
    ∃ pr, parseFrom npop0 (f + 1) ("-ema" :: rest) acc = .ok pr := by
  obtain ⟨_, _, hg, hnext, hargs, hl⟩ := hp.group_split
  have har : arity.lookup "-ema" = some .plus := by decide
  obtain ⟨tS, nS, n, mm, post, rfl, hn, hn1, hmm, hk⟩ := ema_shape hg
  obtain ⟨e1, e2, e3⟩ := ema_lists tS nS mm post hmm
  rw [ML_plus _ a (clsOf_known (known_mem _ (by decide))) har (by omega), hk, e1, e2] at h1
  rw [hk, e1] at hnext
  obtain ⟨a', hT, h1⟩ := bind_ok.1 h1
  simp (decide := true) only [takeAction, if_false, if_true] at hT
  obtain ⟨x0, hc0, hT⟩ := bind_ok.1 hT
  obtain ⟨x1, hc1, hT⟩ := bind_ok.1 hT
  obtain ⟨e, he, hT⟩ := bind_ok.1 hT
  obtain ⟨hwt, hwn⟩ := mkMigMatrixChange_ok he
  obtain ⟨t, hst⟩ := nonneg_of hc0 (hfin tS (by simp)) hwt
  have hsn := idx_of hc1 hwn
  have : x1 = n := by
    have := cInt_ok hc1
    rw [hn] at this
    cases this; rfl
  subst this
  simp (decide := true) only [parseFrom, if_false, if_true, List.getD_cons_zero, List.getD_cons_succ,
    need_ok (l := tS :: nS :: (mm ++ post)) (k := 2) _ (by simp), hsn, sok_bind,
    need_ok (l := tS :: nS :: (mm ++ post)) (k := 2 + x1.toNat * x1.toNat) _ (by simp; omega), hst, e1]
  exact ih post a' _ (by simp only [List.length_cons, List.length_append] at hlen; omega) hnext
    (fun s hs => hfin s (by simp [hs])) (fun h hm => hI h (by simp [hm])) h1

/-! ### the options without demographic meaning -/

theorem ignored_lookup_some : ∀ s ∈ C08.ignoredFlags, (ignoredArity.lookup s).isSome = true := by decide +kernel

theorem ignored_ne_I {s : String} (h : s ∈ C08.ignoredFlags) : s ≠ "-I" := by
  intro he; subst he; exact ignored_not_known _ h (by decide)

/-- the interpreter skips an ignored option with the arguments the manual gives it -/
theorem parseFrom_ignored {npop0 f : Nat} {flag : String} {rest : List String} {acc : Parsed} {k : Nat}
    (hi : flag ∈ C08.ignoredFlags) (hlk : ignoredArity.lookup flag = some k) :
    parseFrom npop0 (f + 1) (flag :: rest) acc
      = (if rest.length < k then throw s!"{flag}: too few arguments" else pure ()) >>= fun _ =>
          parseFrom npop0 f (rest.drop k) acc := by
  simp only [C08.ignoredFlags, ignoredArity, List.map_cons, List.map_nil, List.mem_cons, List.not_mem_nil,
    or_false] at hi
  rcases hi with rfl | rfl | rfl | rfl | rfl | rfl | rfl | rfl <;>
    simp (decide := true) only [parseFrom, if_false, hlk]

theorem C_ignored {npop0 : Nat} {rate0 : Q} {f : Nat} {pr : Parsed} {flag : String} {rest : List String}
    {a : Args} {acc : Parsed} (hi : flag ∈ C08.ignoredFlags)
    (ih : CHyp npop0 rate0 f pr) (hlen : rest.length ≤ f) (hp : PSuf npop0 (flag :: rest))
    (hinv : Inv (findStructure (flag :: rest)) npop0 rate0 a acc)
    (h2 : parseFrom npop0 (f + 1) (flag :: rest) acc = .ok pr) :
    ∃ args, ML (flag :: rest) a = .ok args ∧ Inv (.ok (1, 0)) npop0 rate0 args pr := by
  obtain ⟨_, _, hg, hnext, hargs, hl⟩ := hp.group_split
  obtain ⟨k, hlk⟩ := Option.isSome_iff_exists.1 (ignored_lookup_some flag hi)
  have hk := groupOK_ignored hi hlk hg
  have hfs := fs_group (flag := flag) (C08.argRun rest) (ignored_ne_I hi) hargs
  obtain ⟨u, hu⟩ := ML_skip (C08.argRun rest) rest { a with unknown := a.unknown ++ [flag] } hargs
  rw [parseFrom_ignored hi hlk] at h2
  obtain ⟨_, _, h2⟩ := sbind_ok.1 h2
  rw [ML_unknown rest a (clsOf_ignored hi), hu]
  rw [← hk] at h2
  exact ih _ _ _ (by omega) hnext ((hinv.skip rfl _).skip hfs u) h2

theorem B_ignored {npop0 : Nat} {f : Nat} {args : Args} {flag : String} {rest : List String} {a : Args}
    {acc : Parsed} (hi : flag ∈ C08.ignoredFlags)
    (ih : BHyp npop0 f args) (hlen : rest.length ≤ f) (hp : PSuf npop0 (flag :: rest))
    (hfin : ∀ s ∈ flag :: rest, C08.finTok s = true) (hI : acc.sawI = true → "-I" ∉ flag :: rest)
    (h1 : ML (flag :: rest) a = .ok args) :
    ∃ pr, parseFrom npop0 (f + 1) (flag :: rest) acc = .ok pr := by
  obtain ⟨_, _, hg, hnext, hargs, hl⟩ := hp.group_split
  obtain ⟨k, hlk⟩ := Option.isSome_iff_exists.1 (ignored_lookup_some flag hi)
  have hk := groupOK_ignored hi hlk hg
  obtain ⟨u, hu⟩ := ML_skip (C08.argRun rest) rest { a with unknown := a.unknown ++ [flag] } hargs
  rw [ML_unknown rest a (clsOf_ignored hi), hu] at h1
  have hle := argRun_le rest
  rw [parseFrom_ignored hi hlk, need_ok _ (by omega), ← hk]
  exact ih _ _ _ (by omega) hnext
    (fun s hs => hfin s (List.mem_cons_of_mem _ ((List.drop_sublist _ _).subset hs)))
    (fun h hm => hI h (List.mem_cons_of_mem _ ((List.drop_sublist _ _).subset hm))) h1

end Demes.Proofs.FromMsParse
