/-
  C09 §6 and §8 on the third fragment — acceptance of the `to_ms` output by `from_ms` with `PulsesBelowOne` (every
  pulse proportion below one; no clause on the order of same-time pulses) in place of `PulsesTame`.

  The printed command of such a graph is in the fragment `C08.Tame3` (`MsRT.tame3_toMs`, `MsGrow.tame3_toMsV`); the
  invariant of the event loop holds on `Tame3` as on `Tame'` (`MsAcc.buildState_accInv3`, `MsGrow.buildState_accInvV3`:
  the only use of `NSAT` in the acceptance proof was "no earlier move of the group has as its target the source of a
  later join", which is `NJT`, and `Frag3` gives that too); the conditions `groupsFrag` / `groupsFragV` on the time
  groups need only the first clause of `PulsesTame` (`MsAcc.groupsFrag_toMs3`, `MsGrow.groupsFrag_toMsV3`).  The
  rest of the proofs (`finishDoc`, the document, `resolve`) never looked at the pulses of the graph.
-/
import DemesVerif.Proofs.MsGrowAccFinal
import DemesVerif.Proofs.MsRT3TameGrow
import DemesVerif.Proofs.MsAccExamples
import DemesVerif.Proofs.MsGrowExamples
namespace Demes.Proofs.MsRT3
open Demes Demes.Ms Demes.Spec Demes.Spec.C07 Demes.Spec.C09
open Demes.Spec.C08 (Tame3)
open Demes.Proofs.FromMs (buildState finishDoc NameInv)
open Demes.Proofs.ToMs (clauses_of_valid expr_inGen)
open Demes.Proofs.MsRT (tame3_toMs constSizes_inGen chainGraph)
open Demes.Proofs.MsAcc (AccInv MigWF DocShape docGraph prG accepted)
open Demes.Proofs.MsGrow (AccInvV GrowthClosed prGV growthPrinter_of_B acceptedV growChain)
open Demes.Proofs.MsPrint (tableCodec growthStr twoDemePulse)

/-! ## constant sizes (§6) -/

/-- **Layers 3 and 4 (after the event loop), `PulsesBelowOne`.**  `MsAcc.toMs_output_finishDoc_ok` with the
hypothesis `PulsesTame g` weakened to its first clause: for a valid ms-expressible graph of constant sizes whose
pulse proportions are below one, the event loop ends in a state that satisfies `AccInv` and `MigWF`, `finishDoc`
succeeds, the document has the shape `DocShape`, the explicit graph it denotes is valid and `resolve` returns it. -/
theorem toMs_output_finishDoc_ok3 (c : NumCodec) (sa : Growth → String) {g : Graph} (hv : validGraph g = true)
    (hx : MsExpressible g = true) (hcs : ConstSizes g = true) (hpb : PulsesBelowOne g = true) {N0 : Q} (hN : 0 < N0)
    {samples : Option (List Int)} (hs : samplesOk g samples = true) {toks : List (Tok Growth)}
    (htoks : toMs g N0 samples = .ok toks) (hc : CodecCovers c toks) :
    ∃ args s T doc, parseKnownArgs (renderG c sa toks) = .ok args ∧ buildState args N0 = .ok s
      ∧ AccInv T s ∧ NameInv s ∧ MigWF N0 s
      ∧ finishDoc N0 s = .ok doc ∧ DocShape doc ∧ (∀ tab, validGraph (docGraph tab doc) = true)
      ∧ ∀ tab, Demes.resolve (doc.toValue tab) = .ok (docGraph tab doc) := by
  obtain ⟨args, σ, s, hargs, ha, hσ, hb⟩ := MsAcc.toMs_output_buildState_ok c sa hv hx hcs hN hs htoks hc
  have ht : Tame3 (prG g N0 samples) = true := tame3_toMs hv hx hcs hpb hN samples
  have hf := MsAcc.groupsFrag_toMs3 hv hx hcs hpb hN samples
  obtain ⟨T, hinv, hn⟩ := MsAcc.buildState_accInv3 ha ht hf hb hσ
  have cl := clauses_of_valid (InGen.inGenerations_valid g hv)
  have hx' : MsExpressible (inGenerations g) = true := by rw [expr_inGen]; exact hx
  have hcs' : ConstSizes (inGenerations g) = true := by rw [constSizes_inGen]; exact hcs
  have hw : MigWF N0 s := MsAcc.migWF_finalEvs cl hx' hcs' hN samples ha hb
  obtain ⟨migs0, hm⟩ := MsAcc.addMigrations_ok hw hinv.pos _ rfl
  have hmw := MsAcc.docMigsWF_of_migWF hN hw hm
  obtain ⟨doc, hfin, hshape, hvalid⟩ := MsAcc.finish_accepts hN hinv hn hm hmw
  exact ⟨args, s, T, doc, hargs, hb, hinv, hn, hw, hfin, hshape, hvalid,
    fun tab => MsAcc.resolve_doc_of_valid tab doc hshape (hvalid tab)⟩

/-- **Acceptance, `PulsesBelowOne`.**  `from_ms` accepts the command `to_ms` prints for every valid ms-expressible
graph of constant sizes whose pulse proportions are all below one — in whatever order same-time pulses are listed —
for every `N0 > 0`, well-formed `samples`, and number codec that covers the numbers of the command; the graph it
returns is the explicit graph `docGraph` of the document `build_graph` assembles. -/
theorem ms_roundtrip_accepts3 (c : NumCodec) (sa : Growth → String) {g : Graph} (hv : validGraph g = true)
    (hx : MsExpressible g = true) (hcs : ConstSizes g = true) (hpb : PulsesBelowOne g = true) {N0 : Q} (hN : 0 < N0)
    {samples : Option (List Int)} (hs : samplesOk g samples = true) {toks : List (Tok Growth)}
    (htoks : toMs g N0 samples = .ok toks) (hc : CodecCovers c toks) :
    ∃ mg, fromMs (renderG c sa toks) N0 none = .ok mg ∧ mg.graph = docGraph mg.table mg.doc := by
  obtain ⟨args, s, T, doc, hargs, hb, _, _, _, hfin, _, _, hres⟩ :=
    toMs_output_finishDoc_ok3 c sa hv hx hcs hpb hN hs htoks hc
  exact ⟨_, MsAcc.fromMs_ok_of hargs hb hfin (hres (placeholders doc)), rfl⟩

/-! ## exponential epochs (§8) -/

/-- **Layers 3 and 4 (after the event loop), exponential epochs, `PulsesBelowOne`**:
`MsGrow.toMs_output_finishDoc_okV` with `PulsesTame g` weakened to its first clause -/
theorem toMs_output_finishDoc_okV3 (c : NumCodec) (sa : Growth → String) {g : Graph} (hv : validGraph g = true)
    (hx : MsExpressible g = true) (hpb : PulsesBelowOne g = true) {N0 : Q} (hN : 0 < N0)
    {samples : Option (List Int)} (hs : samplesOk g samples = true) {toks : List (Tok Growth)}
    (htoks : toMs g N0 samples = .ok toks) (hc : CodecCovers c toks) (hsa : GrowthPrinter sa (epochGrowths g N0)) :
    ∃ args s T doc, parseKnownArgs (renderG c sa toks) = .ok args ∧ buildState args N0 = .ok s
      ∧ AccInvV T s ∧ NameInv s ∧ MsAcc.MigWF N0 s ∧ GrowthClosed s
      ∧ finishDoc N0 s = .ok doc
      ∧ Demes.resolve (doc.toValue (placeholders doc)) = .ok (MsAcc.docGraph (placeholders doc) doc)
      ∧ validGraph (MsAcc.docGraph (placeholders doc) doc) = true := by
  obtain ⟨args, σ, s, hargs, ha, hσ, hb⟩ := MsGrow.toMs_output_buildState_okV c sa hv hx hN hs htoks hc hsa
  have ht : Tame3 (prGV sa g N0 samples) = true := MsGrow.tame3_toMsV (growthVal sa) hv hx hpb hN samples
  have hf := MsGrow.groupsFrag_toMsV3 (growthVal sa) hv hx hpb hN samples
  obtain ⟨T, hinv, hn⟩ := MsGrow.buildState_accInvV3 ha ht hf hb hσ
  have cl := clauses_of_valid (InGen.inGenerations_valid g hv)
  have hx' : MsExpressible (inGenerations g) = true := by rw [expr_inGen]; exact hx
  have hw : MsAcc.MigWF N0 s := MsGrow.migWF_finalEvsV cl hx' hN (growthVal sa) hsa.zero samples ha hb
  have hgc : GrowthClosed s := MsGrow.growthClosed_finalEvsV cl hx' hN (growthVal sa) hsa.zero ha hb
  obtain ⟨migs0, hm⟩ := MsAcc.addMigrations_ok hw hinv.pos _ rfl
  have hmw := MsAcc.docMigsWF_of_migWF hN hw hm
  obtain ⟨doc, hfin, hres, hvalid⟩ := MsGrow.finish_resolvesV hN hinv hn hgc hm hmw
  exact ⟨args, s, T, doc, hargs, hb, hinv, hn, hw, hgc, hfin, hres, hvalid⟩

/-- **Acceptance with exponential epochs, `PulsesBelowOne`.**  `from_ms` accepts the command `to_ms` prints for
every valid ms-expressible graph whose pulse proportions are all below one (exponential epochs allowed; same-time
pulses in any order), for every `N0 > 0`, well-formed `samples`, number codec that covers the numbers of the
command, and growth printer; the graph it returns is valid. -/
theorem ms_roundtrip_growth_accepts3 (c : NumCodec) (sa : Growth → String) {g : Graph} (hv : validGraph g = true)
    (hx : MsExpressible g = true) (hpb : PulsesBelowOne g = true) {N0 : Q} (hN : 0 < N0)
    {samples : Option (List Int)} (hs : samplesOk g samples = true) {toks : List (Tok Growth)}
    (htoks : toMs g N0 samples = .ok toks) (hc : CodecCovers c toks) (hsa : GrowthPrinter sa (epochGrowths g N0)) :
    ∃ mg, fromMs (renderG c sa toks) N0 none = .ok mg ∧ mg.graph = MsAcc.docGraph mg.table mg.doc
      ∧ validGraph mg.graph = true := by
  obtain ⟨args, s, T, doc, hargs, hb, _, _, _, _, hfin, hres, hvalid⟩ :=
    toMs_output_finishDoc_okV3 c sa hv hx hpb hN hs htoks hc hsa
  exact ⟨_, MsAcc.fromMs_ok_of hargs hb hfin hres, rfl, hvalid⟩

/-! ## non-vacuity and the boundary -/

/-- every hypothesis of `ms_roundtrip_accepts3` (with `samples = none`, the codec `tableCodec`), decided:
`MsAcc.acceptHyps` with `PulsesBelowOne` in place of `PulsesTame` -/
def acceptHyps3 (g : Graph) (N0 : Q) : Bool :=
  validGraph g && MsExpressible g && ConstSizes g && PulsesBelowOne g && decide (0 < N0) &&
  match toMs g N0 none with
  | .ok toks => decide (CodecCovers tableCodec toks)
  | .error _ => false

/-- the theorem for a graph that meets the hypotheses: `from_ms` accepts the printed command -/
theorem accepted_of_hyps3 {g : Graph} {N0 : Q} (h : acceptHyps3 g N0 = true) : accepted g N0 = true := by
  unfold acceptHyps3 at h
  simp only [Bool.and_eq_true, decide_eq_true_eq] at h
  obtain ⟨⟨⟨⟨⟨h1, h2⟩, h3⟩, h4⟩, h5⟩, h6⟩ := h
  unfold accepted
  cases ht : toMs g N0 none with
  | error e => rw [ht] at h6; cases h6
  | ok toks =>
    rw [ht] at h6
    simp only [decide_eq_true_eq] at h6
    obtain ⟨mg, hmg, _⟩ := ms_roundtrip_accepts3 tableCodec growthStr h1 h2 h3 h4 h5 (samples := none) rfl ht h6
    simp only [hmg]
    rfl

/-- `acceptHyps3` is weaker than `acceptHyps` -/
theorem acceptHyps3_of_acceptHyps {g : Graph} {N0 : Q} (h : MsAcc.acceptHyps g N0 = true) : acceptHyps3 g N0 = true := by
  unfold MsAcc.acceptHyps at h
  unfold acceptHyps3
  simp only [Bool.and_eq_true] at h ⊢
  obtain ⟨⟨⟨⟨⟨h1, h2⟩, h3⟩, h4⟩, h5⟩, h6⟩ := h
  exact ⟨⟨⟨⟨⟨h1, h2⟩, h3⟩, MsRT.pulsesBelowOne_of_tame h4⟩, h5⟩, h6⟩

/-- **`chainGraph`** — pulses `A → B` (listed first) and `B → C` at one time, proportions 1/2: not `PulsesTame`,
outside `acceptHyps`; every hypothesis of `ms_roundtrip_accepts3` holds -/
theorem chainGraph_acceptHyps3 :
    acceptHyps3 chainGraph 1 = true ∧ PulsesTame chainGraph = false ∧ MsAcc.acceptHyps chainGraph 1 = false := by
  decide +kernel

/-- the theorem at work on `chainGraph` … -/
example : accepted chainGraph 1 = true := accepted_of_hyps3 chainGraph_acceptHyps3.1

/-- … and its conclusion evaluated independently of the theorem -/
example : accepted chainGraph 1 = true := by decide +kernel

/-- the graphs of `MsAcc.acceptHyps` remain -/
example : acceptHyps3 (twoDemePulse (1/2)) 1 = true := by decide +kernel

/-- **the boundary (F6)**: `twoDemePulse 1` (a pulse of proportion 1) meets every hypothesis but `PulsesBelowOne`,
and `from_ms` rejects the command `to_ms` prints for it — `PulsesBelowOne` cannot be dropped -/
theorem accepts3_boundary_pulse1 :
    validGraph (twoDemePulse 1) = true ∧ MsExpressible (twoDemePulse 1) = true ∧ ConstSizes (twoDemePulse 1) = true
    ∧ PulsesBelowOne (twoDemePulse 1) = false ∧ acceptHyps3 (twoDemePulse 1) 1 = false
    ∧ (match toMs (twoDemePulse 1) 1 none with
       | .ok toks => decide (CodecCovers tableCodec toks)
       | .error _ => false) = true
    ∧ accepted (twoDemePulse 1) 1 = false := by decide +kernel

/-! ### with an exponential epoch -/

/-- every hypothesis of `ms_roundtrip_growth_accepts3` (with `samples = none` and the codec `tableCodec`), decided:
`MsGrow.growHyps` with `PulsesBelowOne` in place of `PulsesTame` -/
def growHyps3 (sa : Growth → String) (g : Graph) (N0 : Q) : Bool :=
  validGraph g && MsExpressible g && PulsesBelowOne g && decide (0 < N0) && growthPrinterB sa (epochGrowths g N0) &&
  match toMs g N0 none with
  | .ok toks => decide (CodecCovers tableCodec toks)
  | .error _ => false

theorem acceptedV_of_hyps3 {sa : Growth → String} {g : Graph} {N0 : Q} (h : growHyps3 sa g N0 = true) :
    acceptedV sa g N0 = true := by
  unfold growHyps3 at h
  simp only [Bool.and_eq_true, decide_eq_true_eq] at h
  obtain ⟨⟨⟨⟨⟨h1, h2⟩, h3⟩, h4⟩, h5⟩, h6⟩ := h
  unfold acceptedV
  cases ht : toMs g N0 none with
  | error e => rw [ht] at h6; cases h6
  | ok toks =>
    rw [ht] at h6
    simp only [decide_eq_true_eq] at h6
    obtain ⟨mg, hmg, _⟩ := ms_roundtrip_growth_accepts3 tableCodec sa h1 h2 h3 h4 (samples := none) rfl ht h6
      (growthPrinter_of_B h5)
    simp only [hmg]
    rfl

/-- a printer for `growChain` (one rate: `B` grows 1 → 2 over the last 10 generations) -/
def saChain : Growth → String
  | .zero => "0.0"
  | .sym _ _ => "0.2772588722"

/-- **`growChain`** — `chainGraph` with an exponential epoch in `B`: neither of constant sizes nor `PulsesTame`
(outside `MsGrow.growHyps`); every hypothesis of `ms_roundtrip_growth_accepts3` holds -/
theorem growChain_growHyps3 :
    growHyps3 saChain growChain 1 = true ∧ ConstSizes growChain = false ∧ PulsesTame growChain = false
      ∧ MsGrow.growHyps saChain growChain 1 = false := by decide +kernel

example : acceptedV saChain growChain 1 = true := acceptedV_of_hyps3 growChain_growHyps3.1
example : acceptedV saChain growChain 1 = true := by decide +kernel

#print axioms toMs_output_finishDoc_ok3
#print axioms ms_roundtrip_accepts3
#print axioms toMs_output_finishDoc_okV3
#print axioms ms_roundtrip_growth_accepts3
#print axioms accepted_of_hyps3
#print axioms chainGraph_acceptHyps3
#print axioms accepts3_boundary_pulse1
#print axioms acceptedV_of_hyps3
#print axioms growChain_growHyps3

end Demes.Proofs.MsRT3
