/-
  C09 §8 (acceptance with exponential epochs), after the event loop — `finaliseGrowth` on a deme of the
  invariant `AccInvV` (closed form `finDemeV`), and the facts about transient demes restated for `AccInvV`.
  Everything about names, `RefOK` and `_remove_transient_demes` is that of `MsAccFinishDoc.lean`.
-/
import DemesVerif.Proofs.MsGrowAccFinishDefs
import DemesVerif.Proofs.MsAccFinishDoc
namespace Demes.Proofs.MsGrow
open Demes Demes.Ms Demes.Spec Demes.Spec.C08 Demes.Proofs.FromMs
open Demes.Proofs.MsAcc (mapM_ok_map len_of_names name_of_getElem names_nodup getElem_of_mem_demes
  eq_of_demeName etime_lt_of_lt_of_le nonTransient_of_alive transient_start RefOK transient_not_ref
  pulse_refOK mig_refOK exists_max_start etime_lt_irrefl_of_le removeTransient_succeeds)

/-! ## `finaliseGrowth` -/

/-- what `finaliseGrowth` makes of a deme -/
def finDemeV (d : BDeme) : BDeme :=
  match d.epochs with
  | [] => d
  | e :: r =>
    if e.growthRate.getD 0 ≠ 0 then
      match d.startTime with
      | .inf => d
      | .fin st =>
        { d with epochs := { e with growthRate := none, startSize := some (e.endSize.mulExp (-(st - e.endTime) * (e.growthRate.getD 0))) } :: r }
    else { d with epochs := { e with growthRate := none, startSize := some e.endSize } :: r }

/-- the `start_size` `finaliseGrowth` gives the open epoch `e` of the deme `d` -/
def finSize (d : BDeme) (e : BEpoch) : Sz :=
  if e.growthRate.getD 0 ≠ 0 then
    match d.startTime with
    | .inf => e.endSize
    | .fin st => e.endSize.mulExp (-(st - e.endTime) * (e.growthRate.getD 0))
  else e.endSize

theorem mulExp_coef (z : Sz) (x : Q) : (z.mulExp x).coef = z.coef := by
  unfold Sz.mulExp
  split <;> rfl

theorem finSize_coef (d : BDeme) (e : BEpoch) : (finSize d e).coef = e.endSize.coef := by
  unfold finSize
  split
  · split
    · rfl
    · exact mulExp_coef _ _
  · rfl

theorem finSize_inf {d : BDeme} {e : BEpoch} (h : d.startTime = .inf) : finSize d e = e.endSize := by
  unfold finSize
  rw [h]
  split <;> rfl

theorem finDemeV_header (d : BDeme) : (finDemeV d).name = d.name ∧ (finDemeV d).startTime = d.startTime
    ∧ (finDemeV d).ancestors = d.ancestors ∧ (finDemeV d).proportions = d.proportions := by
  unfold finDemeV
  split
  · exact ⟨rfl, rfl, rfl, rfl⟩
  · split
    · split <;> exact ⟨rfl, rfl, rfl, rfl⟩
    · exact ⟨rfl, rfl, rfl, rfl⟩

/-- the epochs of the finalised deme, when no growth rate is in force in a deme without start time -/
theorem finDemeV_epochs {d : BDeme} {e : BEpoch} {r : List BEpoch} (h : d.epochs = e :: r)
    (hc : d.startTime = .inf → e.growthRate.getD 0 = 0) :
    (finDemeV d).epochs = { e with growthRate := none, startSize := some (finSize d e) } :: r := by
  unfold finDemeV finSize
  rw [h]
  dsimp only
  by_cases hg : e.growthRate.getD 0 ≠ 0
  · rw [if_pos hg, if_pos hg]
    cases hs : d.startTime with
    | inf => exact absurd (hc hs) hg
    | fin st => rfl
  · rw [if_neg hg, if_neg hg]

theorem finDemeV_times (d : BDeme) : (finDemeV d).epochs.map (·.endTime) = d.epochs.map (·.endTime) := by
  unfold finDemeV
  split
  · rfl
  · rename_i e r he
    split
    · split
      · rfl
      · rw [he]; rfl
    · rw [he]; rfl

theorem finDemeV_bEnd (d : BDeme) : bEndTime (finDemeV d) = bEndTime d := by
  unfold bEndTime
  rw [← List.getLast?_map, ← List.getLast?_map, finDemeV_times]

theorem finDemeV_nonTransient (d : BDeme) : nonTransient (finDemeV d) = nonTransient d := by
  unfold nonTransient
  rw [(finDemeV_header d).2.1, finDemeV_bEnd]

theorem curGrowth_cons {d : BDeme} {e : BEpoch} {r : List BEpoch} (h : d.epochs = e :: r) :
    curGrowth d = e.growthRate.getD 0 := by
  unfold curGrowth
  rw [h]
  rfl

/-- **`finaliseGrowth` succeeds** on a deme with epochs in which no growth rate is in force unless the deme
has a start time -/
theorem finaliseGrowth_finV {T : Q} {d : BDeme} (h : EpochsWFV T d) (hc : d.startTime = .inf → curGrowth d = 0) :
    finaliseGrowth d = .ok (finDemeV d) := by
  cases he : d.epochs with
  | nil => exact (h.ne he).elim
  | cons e r =>
    unfold finaliseGrowth finDemeV
    rw [he]
    dsimp only
    by_cases hg : e.growthRate.getD 0 ≠ 0
    · rw [if_pos hg, if_pos hg]
      cases hs : d.startTime with
      | inf =>
        have := hc hs
        rw [curGrowth_cons he] at this
        exact absurd this hg
      | fin st => rfl
    · rw [if_neg hg, if_neg hg]
      rfl

theorem mapM_finaliseV {T : Q} {s : BState} (hinv : AccInvV T s) (hgc : GrowthClosed s) :
    s.demes.mapM finaliseGrowth = .ok (s.demes.map finDemeV) := by
  apply mapM_ok_map
  intro d hd
  obtain ⟨j, hj, hget⟩ := List.getElem_of_mem hd
  have : s.demes[j]? = some d := by rw [List.getElem?_eq_getElem hj, hget]
  exact finaliseGrowth_finV (hinv.demes j d this).ep (hgc j d this)

theorem finDemeV_names (l : List BDeme) : (l.map finDemeV).map (·.name) = l.map (·.name) := by
  rw [List.map_map]
  exact List.map_congr_left (fun d _ => (finDemeV_header d).1)

/-! ## transient and non-transient demes of the state -/

/-- the open epoch of a non-transient deme of the state ends before the deme starts -/
theorem headLt_of_nonTransient {T : Q} {s : BState} {j : Nat} {d : BDeme} (hw : DemeWFV T s j d)
    (hnt : nonTransient d = true) {e : BEpoch} {r : List BEpoch} (he : d.epochs = e :: r) :
    ETime.fin e.endTime < d.startTime := by
  by_cases hj : s.joined.contains j = true
  · obtain ⟨Tj, hst, h0, _, halt, _⟩ := hw.dead hj
    rw [hst]
    rcases halt with h | ⟨e', he', hT⟩
    · exact h e r he
    · exfalso
      have hb : bEndTime d = Tj := by
        unfold bEndTime; rw [he']; simpa using hT
      unfold nonTransient at hnt
      rw [hst] at hnt
      have : ¬ (Tj = 0) := by grind
      simp [hb, this] at hnt
  · have hj' : s.joined.contains j = false := by simpa using hj
    rw [(hw.live hj').1]
    trivial

/-- the names an ancestor list of a state deme mentions are `RefOK` -/
theorem anc_refOK {T : Q} {s : BState} {j : Nat} {o : BDeme} (hw : DemeWFV T s j o) {a : String}
    (ha : a ∈ o.ancestors.getD []) : RefOK s a := by
  by_cases hj : s.joined.contains j = true
  · obtain ⟨Tj, _, _, _, _, hanc⟩ := hw.dead hj
    obtain ⟨as, has, _, _, hall, _⟩ := hanc.anc
    rw [has] at ha
    obtain ⟨k, dk, hk, _, hdk, h1, h2⟩ := hall a ha
    exact ⟨k, dk, hk, hdk, nonTransient_of_alive h1 h2⟩
  · have hj' : s.joined.contains j = false := by simpa using hj
    rw [(hw.live hj').2.1] at ha
    cases ha

/-! ## some deme is not transient -/

theorem exists_nonTransient {T : Q} {s : BState} (hinv : AccInvV T s) :
    ∃ (j : Nat) (d : BDeme), s.demes[j]? = some d ∧ nonTransient d = true := by
  have hne : s.demes ≠ [] := by
    intro e
    have := hinv.len
    rw [e] at this
    have := hinv.pos
    simp at *
    omega
  obtain ⟨d, hd, hmax⟩ := exists_max_start s.demes hne
  obtain ⟨j, hj⟩ := getElem_of_mem_demes hd
  refine ⟨j, d, hj, ?_⟩
  by_contra hnt
  have hnt' : nonTransient d = false := by simpa using hnt
  obtain ⟨st, hst, _, _⟩ := transient_start hnt'
  have hw := hinv.demes j d hj
  by_cases hjn : s.joined.contains j = true
  · obtain ⟨Tj, hst', _, _, _, hanc⟩ := hw.dead hjn
    obtain ⟨as, _, hne', _, hall, _⟩ := hanc.anc
    obtain ⟨a, as', rfl⟩ := List.exists_cons_of_ne_nil hne'
    obtain ⟨k, dk, _, _, hdk, _, hlt⟩ := hall a List.mem_cons_self
    have hmem : dk ∈ s.demes := List.mem_iff_getElem?.2 ⟨k, hdk⟩
    have := hmax dk hmem
    rw [hst'] at this
    exact etime_lt_irrefl_of_le hlt this
  · have hjn' : s.joined.contains j = false := by simpa using hjn
    rw [(hw.live hjn').1] at hst
    cases hst

end Demes.Proofs.MsGrow
