import DemesVerif.Proofs.MatRows
namespace Demes.Proofs
open Demes Demes.Spec

def exEpoch (s : ETime) (e : Q) : Epoch :=
  { startTime := s, endTime := e, startSize := 100, endSize := 100, sizeFunction := "constant",
    selfingRate := 0, cloningRate := 0 }

/-- two demes A (∞,0] and B (40,0] branching from A, migration A→B on (40,10] and B→A on (20,0] -/
def exampleGraph : Graph :=
  { description := "", timeUnits := "generations", generationTime := 1, doi := [], metadata := [],
    demes := [
      { name := "A", description := "", startTime := .inf, ancestors := [], proportions := [],
        epochs := [exEpoch .inf 0] },
      { name := "B", description := "", startTime := .fin 40, ancestors := ["A"], proportions := [1],
        epochs := [exEpoch (.fin 40) 0] }],
    migrations := [
      { source := "A", dest := "B", startTime := .fin 40, endTime := 10, rate := 1/4 },
      { source := "B", dest := "A", startTime := .fin 20, endTime := 0, rate := 1/8 }],
    pulses := [{ sources := ["A"], dest := "B", time := 5, proportions := [1/2] }],
    index := [("A", 0), ("B", 1)] }

theorem matrices_end_times (g : Graph) (hv : validGraph g = true) :
    ∃ mms ends, migrationMatrices g = .ok (mms, ends) ∧ ends ≠ [] ∧ ends.getLast? = some 0
      ∧ ends.Pairwise (· > ·) ∧ mms.length = ends.length := by
  have hf := (validFacts hv).toMigFacts
  obtain ⟨mms, h, hl, _, _⟩ := mm_main g hf
  obtain ⟨h1, h2, h3, _⟩ := mmEndTimes_props g.migrations (times_nonneg hf)
  exact ⟨mms, _, h, h1, h2, h3, hl⟩

theorem matrices_pointwise (g : Graph) (hv : validGraph g = true) (mms : List Matrix) (ends : List Q)
    (h : migrationMatrices g = .ok (mms, ends)) (t : Q) (ht : 0 ≤ t)
    (i j : Nat) (di dj : Deme) (hi : g.demes[i]? = some di) (hj : g.demes[j]? = some dj) :
    ∃ k mm, intervalOf ends t = some k ∧ mms[k]? = some mm
      ∧ mm.get i j = rateAt g dj.name di.name t := by
  have hf := (validFacts hv).toMigFacts
  obtain ⟨mms0, h0, hl, _, hget⟩ := mm_main g hf
  obtain ⟨_, hlast, hp, hmem⟩ := mmEndTimes_props g.migrations (times_nonneg hf)
  rw [h0] at h
  simp only [Except.ok.injEq, Prod.mk.injEq] at h
  obtain ⟨rfl, rfl⟩ := h
  obtain ⟨k, hk⟩ := intervalOf_exists hlast ht
  obtain ⟨hklt, _, _⟩ := intervalOf_spec hk
  have hk' : k < mms0.length := by rw [hl]; exact hklt
  refine ⟨k, mms0[k], hk, List.getElem?_eq_getElem hk', ?_⟩
  exact entry_eq hf hp hmem hget hk (List.getElem?_eq_getElem hk') hi hj

/-- every matrix is square, of the size of the deme list -/
theorem matrices_shape (g : Graph) (hv : validGraph g = true) (mms : List Matrix) (ends : List Q)
    (h : migrationMatrices g = .ok (mms, ends)) :
    ∀ mm ∈ mms, mm.length = g.demes.length ∧ ∀ row ∈ mm, row.length = g.demes.length := by
  obtain ⟨mms0, h0, _, hsh, _⟩ := mm_main g (validFacts hv).toMigFacts
  rw [h0] at h
  simp only [Except.ok.injEq, Prod.mk.injEq] at h
  obtain ⟨rfl, rfl⟩ := h
  exact hsh

/-- row `i` of matrix `k` sums to the total ingress into deme `i` at the end time `ends[k]` -/
theorem matrices_row_sum (g : Graph) (hv : validGraph g = true) (mms : List Matrix) (ends : List Q)
    (h : migrationMatrices g = .ok (mms, ends)) (k i : Nat) (e : Q) (mm : Matrix) (row : List Q)
    (di : Deme) (he : ends[k]? = some e) (hmm : mms[k]? = some mm) (hrow : mm[i]? = some row)
    (hi : g.demes[i]? = some di) :
    rowSum row = ingressAt g di.name e :=
  row_sum_of_facts (validFacts hv).toMigFacts h he hmm hrow hi

theorem matrices_rows_le_one (g : Graph) (hv : validGraph g = true) (mms : List Matrix) (ends : List Q)
    (h : migrationMatrices g = .ok (mms, ends)) :
    ∀ mm ∈ mms, ∀ row ∈ mm, ingressOk (rowSum row) = true := by
  intro mm hmm row hrow
  have hf := (validFacts hv).toMigFacts
  obtain ⟨k, hk⟩ := List.mem_iff_getElem?.mp hmm
  obtain ⟨i, hi⟩ := List.mem_iff_getElem?.mp hrow
  have hs := matrices_shape g hv mms ends h mm hmm
  have hilt : i < g.demes.length := by rw [← hs.1]; exact (List.getElem?_eq_some_iff.mp hi).1
  obtain ⟨mms0, h0, hl, _, _⟩ := mm_main g hf
  obtain ⟨_, _, _, hmem⟩ := mmEndTimes_props g.migrations (times_nonneg hf)
  have h' := h
  rw [h0] at h'
  simp only [Except.ok.injEq, Prod.mk.injEq] at h'
  obtain ⟨rfl, rfl⟩ := h'
  have hklt : k < (mmEndTimes g.migrations).length := by
    rw [← hl]; exact (List.getElem?_eq_some_iff.mp hk).1
  rw [matrices_row_sum g hv _ _ h k i _ mm row g.demes[i] (List.getElem?_eq_getElem hklt) hk hi
    (List.getElem?_eq_getElem hilt)]
  exact (validFacts hv).ingress _ (mem_boundaries ((hmem _).mp (List.getElem_mem _))) _ (List.getElem_mem _)

end Demes.Proofs
