"""Shared helpers of the property modules."""
from __future__ import annotations

import copy
import json
import math
from fractions import Fraction

import demes

import gen_graphs as G
import impl
from wire import canon, canon_eq, dec, enc, show


def index_of(g):
    """the name index of a real Graph as [[name, position of the deme object]]"""
    pos = {id(d): i for i, d in enumerate(g.demes)}
    return [[k, pos.get(id(v), -1)] for k, v in g._deme_map.items()]


def example_graphs():
    """the example models shipped with the repository (examples/*.yaml of the tree under test):
    realistic documents with defaults sections, many demes and non-dyadic numbers — used first by the
    modules whose comparison involves no arithmetic on the numbers"""
    import glob
    import os
    root = os.environ.get("VERIF_REPO", "/repo")
    out = []
    for f in sorted(glob.glob(os.path.join(root, "examples", "*.yaml"))):
        try:
            doc = demes.load_asdict(f)
            c = impl.resolve(doc)
        except Exception:  # noqa: BLE001
            continue
        if c[0] == "ok":
            out.append((doc, c[2], ["example:" + os.path.basename(f)]))
    return out


def delicate_docs():
    """fixed valid documents whose simplified / serialised form is delicate (each one the minimal form of a seeded
    change that random generation reached too rarely): windows of one pair of which one collapses into a symmetric
    entry, same-rate windows, migration bounds on epoch boundaries, metadata that looks like the data model"""
    def three():
        return [{"name": n, "epochs": [{"start_size": 100}]} for n in "ABC"]
    docs = []

    def add(tag, demes_, migs, **extra):
        d = {"time_units": "generations", "demes": demes_}
        if migs:
            d["migrations"] = migs
        d.update(extra)
        docs.append((d, tag))
    S = lambda r, s, e, names=("A", "B"): dict({"demes": list(names), "rate": r}, **({"start_time": s} if s is not None else {}), **({"end_time": e} if e is not None else {}))
    O = lambda r, s, e, a="A", b="B": dict({"source": a, "dest": b, "rate": r}, **({"start_time": s} if s is not None else {}), **({"end_time": e} if e is not None else {}))
    add("windows0", three(), [S(0.125, 200, 100, ("A", "B", "C")), O(0.0625, 50, 0)])
    add("windows1", three(), [O(0.125, None, 100), O(0, 100, 50), O(0.125, 50, None), O(0.125, None, 100, "B", "A"), O(0.125, 50, None, "B", "A")])
    add("sym_sym_same_rate", three(), [S(0.125, 100, 50), S(0.125, 40, 10)])
    add("sym_oneway_same_rate", three(), [S(0.125, 100, 50), O(0.125, 40, 10)])
    add("oneway_sym_same_rate", three(), [O(0.125, 100, 50), S(0.125, 40, 10)])
    add("sym_sym_sym_listed_1_3_2", three(), [S(0.125, 100, 50), S(0.125, 40, 10), S(0.25, 50, 40)])
    add("sym3_then_pair_same_rate", three(), [S(0.125, 100, 50, ("A", "B", "C")), S(0.125, 40, 10, ("B", "A")), O(0.125, 5, None, "C", "A")])
    me = lambda: [{"name": "A", "epochs": [{"start_size": 100, "end_time": 80}, {"start_size": 50, "end_time": 30}, {"start_size": 20, "end_time": 0}]},
                  {"name": "B", "epochs": [{"start_size": 100, "end_time": 50}, {"start_size": 10, "end_time": 0}]}]
    add("mig_ends_at_first_epoch_end", me(), [O(0.125, None, 80)])
    add("mig_bounds_on_epoch_ends", me(), [O(0.125, None, 50), O(0.25, 80, 30, "B", "A"), O(0.0625, 30, None)])
    add("metadata_like_model", three(), [], metadata={"start_time": "Infinity", "time": 5, "nested": {"start_time": "Infinity", "demes": [{"name": "A", "start_time": "Infinity"}],
                                                                                               "migrations": [{"start_time": "Infinity", "rate": None}]}})
    return docs


def gen_valid_graphs(ctx, n, corpus=False, **kw):
    """n (doc, graph, model features) triples accepted by the implementation"""
    out = []
    if corpus and not getattr(ctx, "_examples_done", False):
        ctx._examples_done = True
        out = example_graphs()
        for d, tag in delicate_docs():
            c = impl.resolve(d)
            if c[0] == "ok":
                out.append((d, c[2], ["delicate:" + tag]))
    tries = 0
    while len(out) < n and tries < 20 * n + 100:
        tries += 1
        m = G.gen_model(ctx.rng, **kw)
        doc = G.spell(m, ctx.rng, level=ctx.rng.choice([0, 0.5, 1]))
        c = impl.resolve(doc)
        if c[0] == "ok":
            out.append((doc, c[2], G.features(m)))
    return out


def valid_requests(graphs):
    """driver requests evaluating Spec.validGraph on the implementation's graphs"""
    return [{"op": "valid", "graph": enc(g.asdict()), "index": index_of(g)} for g in graphs]


def check_valid(ctx, graphs, origin, docs=None):
    """C01's oracle: the independent validator must accept every graph the library hands out"""
    reps = ctx.driver.batch(valid_requests(graphs))
    bad = 0
    for i, (g, r) in enumerate(zip(graphs, reps)):
        failing = r.get("ok")
        if failing is None or failing != []:
            bad += 1
            ctx.violation(
                f"{origin}: returned graph violates data-model clause(s) {failing if failing is not None else r}",
                {"origin": origin, "graph": show(canon(g.asdict())), "index": index_of(g),
                 "document": (docs[i] if docs else None)},
                detail={"failing_clauses": failing},
            )
    return bad


def py_repro(doc, expr):
    return ("/venv/bin/python -c \"import demes, json, math; inf=math.inf; "
            f"g=demes.Graph.fromdict({doc!r}); print({expr})\"")
