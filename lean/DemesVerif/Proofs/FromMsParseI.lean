/-
  C08 — agreement of the two parsers: the `-I` group (`findStructure`, the interpreter's loop and
  `Structure.from_nargs` on the two shapes of the group: without and with a migration rate).
-/
import DemesVerif.Proofs.FromMsParseVar
namespace Demes.Proofs.FromMsParse
open Demes.Proofs.FromMs
open Demes Demes.Ms Demes.Spec Demes.Spec.MsSem Demes.Spec.C08
open Demes.Proofs.RV (bind_ok pure_ok)

theorem drop_I (nS : String) (samples tail : List String) {k : Nat} (h : samples.length = k) :
    (nS :: (samples ++ tail)).drop (1 + k) = tail := by
  rw [Nat.add_comm, List.drop_succ_cons, List.drop_left' h]

theorem take_I (nS : String) (samples tail : List String) {k : Nat} (h : samples.length = k) :
    (nS :: (samples ++ tail)).take (1 + k) = nS :: samples := by
  rw [Nat.add_comm, List.take_succ_cons, List.take_left' h]

/-! ### without a migration rate -/

theorem fs_I_A {nS : String} {n : Int} {samples post : List String} (hn : pyInt nS = some n) (hn1 : 1 ≤ n)
    (hlen : samples.length = n.toNat) (hA : ∀ r t, post = r :: t → isNumberLike r = false) :
    findStructure ("-I" :: nS :: (samples ++ post)) = .ok (n.toNat, 0) := by
  rw [findStructure.eq_2, idx_ok.2 ⟨n, hn, hn1, rfl⟩]
  simp only [sok_bind]
  rw [if_neg (by simp only [List.length_append]; omega), List.drop_left' hlen]
  cases post with
  | nil => rfl
  | cons r t =>
    simp only [hA r t rfl, Bool.false_and, Bool.false_eq_true, if_false]
    rfl

theorem pf_I_A {npop0 f : Nat} {acc : Parsed} {nS : String} {n : Int} {samples post : List String}
    (hsaw : acc.sawI = false) (hn : pyInt nS = some n) (hn1 : 1 ≤ n)
    (hlen : samples.length = n.toNat) (hA : ∀ r t, post = r :: t → isNumberLike r = false) :
    parseFrom npop0 (f + 1) ("-I" :: nS :: (samples ++ post)) acc
      = parseFrom npop0 f post { acc with sawI := true } := by
  simp (decide := true) only [parseFrom, if_false, if_true, hsaw, Bool.false_eq_true, List.getD_cons_zero,
    idx_ok.2 ⟨n, hn, hn1, rfl⟩, sok_bind,
    need_ok (l := nS :: (samples ++ post)) (k := 1) _ (by simp),
    need_ok (l := nS :: (samples ++ post)) (k := 1 + n.toNat) _ (by simp; omega)]
  rw [drop_I nS samples post hlen]
  cases post with
  | nil => simp only [if_false, Bool.false_eq_true, Nat.add_zero, drop_I nS samples [] hlen]
  | cons r t =>
    simp only [hA r t rfl, Bool.false_and, Bool.false_eq_true, if_false, Nat.add_zero, drop_I nS samples (r :: t) hlen]

theorem ta_I_A (a : Args) {nS : String} {n : Int} {samples : List String} (hn : pyInt nS = some n) (hn1 : 1 ≤ n)
    (hlen : samples.length = n.toNat) :
    takeAction a "-I" (nS :: samples) = .ok { a with structure_ := some ⟨n, samples, .fin 0⟩ } := by
  rw [takeAction_I]
  simp only [structureFromNargs, cInt_some hn, eok_bind]
  rw [if_neg (by rw [hlen]; omega)]
  unfold mkStructure
  rw [vPosInt_ok.2 hn1, vNonNegative_fin.2 zero_le_zero_Q]
  simp only [eok_bind]
  rw [if_neg (by rw [hlen]; omega)]
  rfl

/-! ### with a migration rate -/

theorem fs_I_B {nS : String} {n : Int} {samples post : List String} {r : String} (hn : pyInt nS = some n)
    (hn1 : 1 ≤ n) (hlen : samples.length = n.toNat) (hnum : isNumberLike r = true)
    (hdash : r.startsWith "-" = false) :
    findStructure ("-I" :: nS :: (samples ++ r :: post)) = nonneg r >>= fun q => pure (n.toNat, q) := by
  rw [findStructure.eq_2, idx_ok.2 ⟨n, hn, hn1, rfl⟩]
  simp only [sok_bind]
  rw [if_neg (by simp only [List.length_append, List.length_cons]; omega), List.drop_left' hlen]
  simp only [hnum, hdash, Bool.not_false, Bool.and_self, if_true]

theorem pf_I_B {npop0 f : Nat} {acc : Parsed} {nS : String} {n : Int} {samples post : List String} {r : String}
    (hsaw : acc.sawI = false) (hn : pyInt nS = some n) (hn1 : 1 ≤ n)
    (hlen : samples.length = n.toNat) (hnum : isNumberLike r = true) (hdash : r.startsWith "-" = false) :
    parseFrom npop0 (f + 1) ("-I" :: nS :: (samples ++ r :: post)) acc
      = parseFrom npop0 f post { acc with sawI := true } := by
  simp (decide := true) only [parseFrom, if_false, if_true, hsaw, Bool.false_eq_true, List.getD_cons_zero,
    idx_ok.2 ⟨n, hn, hn1, rfl⟩, sok_bind,
    need_ok (l := nS :: (samples ++ r :: post)) (k := 1) _ (by simp),
    need_ok (l := nS :: (samples ++ r :: post)) (k := 1 + n.toNat) _ (by simp; omega)]
  rw [drop_I nS samples (r :: post) hlen]
  simp only [hnum, hdash, Bool.not_false, Bool.and_self, if_true]
  have : (nS :: (samples ++ r :: post)).drop (1 + n.toNat + 1) = post := by
    rw [List.drop_succ_cons, Nat.add_comm, ← List.drop_drop, List.drop_left' hlen]
    rfl
  rw [this]

theorem ta_I_B (a : Args) {nS : String} {n : Int} {samples : List String} (r : String) (hn : pyInt nS = some n)
    (hlen : samples.length = n.toNat) (hn1 : 1 ≤ n) :
    takeAction a "-I" (nS :: (samples ++ [r]))
      = cFloat r >>= fun x => mkStructure n samples x >>= fun s => pure { a with structure_ := some s } := by
  rw [takeAction_I]
  simp only [structureFromNargs, cInt_some hn, eok_bind]
  rw [if_pos (by simp only [List.length_append, List.length_cons, List.length_nil]; omega)]
  simp only [List.getLast?_append, List.getLast?_singleton, Option.some_or, Option.getD_some,
    List.dropLast_concat]
  cases cFloat r <;> rfl

end Demes.Proofs.FromMsParse
