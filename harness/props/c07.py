"""C07 — ms arguments emitted for a graph describe the same demography."""
from __future__ import annotations

import json
from collections import Counter
from fractions import Fraction

from props.ms_common import *  # noqa: F401,F403
from props import ms_common as M

RULE = ("valid graphs from the boundary-directed generator (1-6 demes, thorough 1-8; any ancestry shape, extinct demes, "
        "multi-epoch demes with constant / exponential sizes incl. sawtooth and continued growth, symmetric and asymmetric "
        "migrations, chained same-time pulses, pulses of proportion 1, three time-unit regimes) x N0 in {1, 2, 64, 1/4} x "
        "samples (none / a list / a list of the wrong length); ~10% of the graphs are outside the ms-expressible class "
        "(linear epochs, multi-source pulses) and must be refused; a case is one (graph, N0, samples); non-trivial = "
        "more than one deme or more than one epoch or a size change")
ASSUMPTIONS = [
    "exact stream: sizes, times, rates, proportions on dyadic grids; every printed non-symbolic number is compared exactly "
    "after float(token)",
    "growth rates are symbolic in the Model (-ln(r)/dt) and compared with the printed double at 1e-9 relative "
    "(+ 5.1e-11 absolute when negative: float_str prints negative numbers with 10 decimals)",
    "float residue excluded by construction (counted): consecutive epochs with mathematically equal growth rates computed "
    "from different (ratio, span) pairs; three-ancestor proportions whose tail quotients are not dyadic",
    "Spec comparison of sizes at 1e-9 relative plus the effect of the 10-decimal printing of negative growth rates over the "
    "graph's time span",
]
EXPLANATION = ("Theorems toMs_rejects / toMs_accepts, toMs_structure, toMs_sizes, toMs_migrations, toMs_numbering and the refinement "
               "toMs_sem (for EVERY valid ms-expressible graph the emitted command denotes, under the independent interpreter, the "
               "demography of the graph with its ancestry proportions normalised; toMs_sem_partial for proportions summing to "
               "exactly 1) over the Lean Model of to_ms; the Model is tied to the code by exact comparison of the emitted "
               "option list; the independent interpreter Spec.MsSem.msSem run on the code's own output is compared with "
               "graphSem of the graph (sizes, migration step functions, lineage movements, lifetimes, population "
               "numbering); graphs outside the ms-expressible class must raise.")


def expressible(g):
    return all(e.size_function in ("constant", "exponential") for d in g.demes for e in d.epochs) and all(
        len(p.sources) == 1 for p in g.pulses)


def case_of(doc, N0, samples):
    return {"document": doc, "N0": M.num_str(N0), "samples": samples}


def repro(doc, N0, samples):
    return ("/venv/bin/python -c \"import demes, math; inf=math.inf; "
            f"g=demes.Graph.fromdict({doc!r}); print(demes.to_ms(g, N0={float(N0)!r}, samples={samples!r}))\"")


def one_batch(ctx, items, stats):
    codes = [M.code_to_ms(g, N0, samples) for doc, g, N0, samples in items]
    reqs, spans = [], []
    for (doc, g, N0, samples), code in zip(items, codes):
        r = [{"op": "to_ms", "graph": enc(g.asdict()), "N0": M.num_str(N0), "samples": samples}]
        if code[0] == "ok":
            r.append({"op": "ms_sem", "tokens": code[1].split(), "N0": M.num_str(N0)})
            r.append({"op": "graph_sem", "graph": enc(g.asdict()), "names": None})
        spans.append((len(reqs), len(reqs) + len(r)))
        reqs += r
    reps = ctx.driver.batch(reqs)
    for (doc, g, N0, samples), code, (a, b) in zip(items, codes, spans):
        rep = reps[a:b]
        model = rep[0]
        if "fail" in model:
            raise RuntimeError(f"driver failure: {model}")
        accepted = code[0] == "ok"
        feats = M.graph_features(g)
        expr = expressible(g)
        nontrivial = len(g.demes) > 1 or any(len(d.epochs) > 1 for d in g.demes) or "growth" in feats
        case = case_of(doc, N0, samples)
        ctx.count(case, nontrivial, tags=feats + ["N0=" + M.num_str(N0), "accept" if accepted else "reject:" + code[1],
                                                  "expressible" if expr else "not_expressible",
                                                  "samples" if samples is not None else "no_samples"])
        if not accepted:
            stats["error:" + code[1]] += 1
        ctx.compared += 1
        if accepted != ("ok" in model):
            ctx.disagreement("to_ms accept/reject", case, code[1:] if not accepted else code[1], model)
        elif accepted:
            why = M.cmp_to_ms_tokens(code[1], model["ok"])
            if why:
                ctx.disagreement("to_ms output", case, code[1], {"difference": why, "model": model["ok"]})
        # ---- the property on the code's own output
        samples_ok = samples is None or len(samples) == len(g.demes)
        if not expr:
            if accepted:
                ctx.violation("to_ms: a graph outside the ms-expressible class yielded a command", case, detail={"command": code[1]},
                              python=repro(doc, N0, samples))
            continue
        if not accepted:
            if samples_ok:
                ctx.violation("to_ms: an ms-expressible graph was refused", case, detail={"error": code[1:]},
                              python=repro(doc, N0, samples))
            continue
        spec, gsem = rep[1], rep[2]
        if "ok" not in gsem:
            raise RuntimeError(f"graph_sem failed: {gsem}")
        if "ok" not in spec:
            ctx.violation("to_ms: the emitted command has no meaning under the ms semantics", case,
                          detail={"command": code[1], "spec": spec.get("msg")}, python=repro(doc, N0, samples))
            continue
        size_rel, g_abs = M.printed_tolerances(N0, M.graph_tmax(g))
        why = M.cmp_sem(M.sem_decode(spec["ok"]), M.sem_decode(gsem["ok"]), size_rel=size_rel, growth_abs=g_abs, restrict=True)
        if why:
            ctx.violation("to_ms: the emitted command denotes a different demography: " + why.split(":")[0], case,
                          detail={"command": code[1], "difference": why}, python=repro(doc, N0, samples))
        else:
            stats["spec_agree"] += 1


def refuse_corpus():
    """graphs outside the ms-expressible class that resemble expressible ones as closely as possible: a LINEAR
    epoch with the sizes and the time span of an exponential epoch of another deme (both visiting orders), and
    of an earlier epoch of the same deme"""
    def deme(name, fn, start=None, anc=None):
        d = {"name": name, "epochs": [{"end_time": 80, "start_size": 100}, {"end_time": 40, "end_size": 200, "size_function": fn},
                                      {"end_time": 0, "end_size": 200}]}
        if anc:
            d.update(ancestors=[anc], start_time=start)
        return d
    docs = []
    for fa, fb in (("exponential", "linear"), ("linear", "exponential")):
        docs.append({"time_units": "generations", "demes": [deme("a", fa), deme("b", fb)]})
        docs.append({"time_units": "years", "generation_time": 2, "demes": [deme("a", fa), deme("b", fb)],
                     "migrations": [{"demes": ["a", "b"], "rate": 0.125}]})
    docs.append({"time_units": "generations", "demes": [{"name": "a", "epochs": [
        {"end_time": 80, "start_size": 100}, {"end_time": 60, "end_size": 200, "size_function": "exponential"},
        {"end_time": 40, "end_size": 100, "size_function": "exponential"}, {"end_time": 20, "end_size": 200, "size_function": "linear"},
        {"end_time": 0, "end_size": 200}]}]})
    return [(d, demes.Graph.fromdict(d), Fraction(1), None) for d in docs]


def run(ctx):
    stats = Counter()
    thorough = ctx.tier != "quick"
    target = 1200 if not thorough else 6000
    done = 0
    one_batch(ctx, refuse_corpus(), stats)
    while done < target and ctx.time_left() > (8 if not thorough else 40):
        items = []
        while len(items) < 120:
            expr = ctx.rng.random() < 0.9
            doc, g = M.gen_ms_graph(ctx.rng, max_demes=8 if thorough else 6, expressible=expr, stats=stats)
            N0 = ctx.rng.choice(M.N0S)
            u = ctx.rng.random()
            if u < 0.5:
                samples = None
            elif u < 0.95:
                samples = [ctx.rng.choice([0, 1, 2, 10]) for _ in g.demes]
            else:
                samples = [1] * (len(g.demes) + 1)
            items.append((doc, g, N0, samples))
        one_batch(ctx, items, stats)
        done += len(items)
    ctx.extra["to_ms_stats"] = dict(stats)


def replay(ctx, payload):
    inp = payload["input"]
    g = demes.Graph.fromdict(inp["document"])
    n0 = float(Fraction(inp["N0"]))
    try:
        s = demes.to_ms(g, N0=n0, samples=inp.get("samples"))
        print("implementation:", s)
    except Exception as e:  # noqa: BLE001
        print("implementation: raised", type(e).__name__, e)
        s = None
    reqs = [{"op": "to_ms", "graph": enc(g.asdict()), "N0": inp["N0"], "samples": inp.get("samples")},
            {"op": "graph_sem", "graph": enc(g.asdict()), "names": None}]
    if s is not None:
        reqs.append({"op": "ms_sem", "tokens": s.split(), "N0": inp["N0"]})
    for r in ctx.driver.batch(reqs):
        print(json.dumps(r)[:3000])
    return 0
