"""Calls into the real library (in-process) with canonicalised results."""
from __future__ import annotations

import copy
import warnings

import demes

from wire import canon

warnings.simplefilter("ignore")


def resolve(doc):
    """('ok', canonical asdict, graph) | ('err', exception class name, None)"""
    try:
        g = demes.Graph.fromdict(copy.deepcopy(doc))
    except Exception as e:  # noqa: BLE001 - every exception is a rejection
        return ("err", type(e).__name__, None)
    return ("ok", canon(g.asdict()), g)
