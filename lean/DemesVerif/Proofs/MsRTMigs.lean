/-
  C09, round trip — migrations: the step function `migSegs` builds from the chronological matrix
  snapshots of `msSemG` gives, at every time, the entry of the snapshot in force (`matAt`), and it
  changes only at snapshot times.  Hence `C07.migsMatch semG gs` (rates read off the snapshots)
  gives `C09.migsRefine (embedSem semG) gs` (rates read off the step function).
-/
import DemesVerif.Proofs.MsRTDefs
import DemesVerif.Proofs.FromMsPostCanon
namespace Demes.Proofs.MsRT
open Demes Demes.Spec Demes.Spec.C07 Demes.Spec.C09
open Demes.Spec.MsSem (Mat matGet MigSeg DemogSem migSegs)
open Demes.Spec.C08 (snapRateAt)
open Demes.Proofs.FromMs

/-! ## the snapshot in force: `matAt` and `snapRateAt` read the same snapshot -/

theorem getLast?_filter_eq_find?_reverse {α} (p : α → Bool) (l : List α) :
    (l.filter p).getLast? = l.reverse.find? p := by
  rw [List.getLast?_eq_head?_reverse, ← List.filter_reverse, List.head?_filter]

theorem matGet_nil (i j : Nat) : matGet [] i j = 0 := rfl

theorem matGet_matAt (snaps : List (Q × Mat)) (i j : Nat) (t : Q) :
    matGet (matAt snaps t) i j = (snapRateAt snaps i j t).getD 0 := by
  unfold matAt snapRateAt
  rw [getLast?_filter_eq_find?_reverse]
  cases snaps.reverse.find? (fun tm => decide (tm.1 ≤ t)) with
  | none => rfl
  | some s => rfl

theorem matAt_cases (snaps : List (Q × Mat)) (t : Q) :
    matAt snaps t = [] ∨ ∃ tm ∈ snaps, matAt snaps t = tm.2 := by
  unfold matAt
  cases h : (snaps.filter (fun tm => decide (tm.1 ≤ t))).getLast? with
  | none => exact Or.inl rfl
  | some s =>
    exact Or.inr ⟨s, (List.mem_filter.1 (List.mem_of_getLast? h)).1, rfl⟩

/-- an entry outside the dimensions of a matrix is `0` -/
theorem matGet_out {m : Mat} {n i j : Nat} (hlen : m.length ≤ n) (hrow : ∀ row ∈ m, row.length ≤ n)
    (hij : n ≤ i ∨ n ≤ j) : matGet m i j = 0 := by
  unfold matGet
  by_cases hi : i < m.length
  · have e : m.getD i [] = m[i] := by
      rw [List.getD_eq_getElem?_getD, List.getElem?_eq_getElem hi]; rfl
    rw [e]
    have hr := hrow m[i] (List.getElem_mem hi)
    have hj : m[i].length ≤ j := by omega
    rw [List.getD_eq_getElem?_getD, List.getElem?_eq_none hj]; rfl
  · have e : m.getD i [] = [] := by
      rw [List.getD_eq_getElem?_getD, List.getElem?_eq_none (by omega)]; rfl
    rw [e]; rfl

/-! ## the members of `migSegs` -/

/-- the per-pair list of `migSegs` -/
def pairL (snaps : List (Q × Mat)) (i j : Nat) : List MigSeg :=
  ((ivsOf (snaps.foldl dedupStep [])).filterMap (segOf i j)).foldl mergeStep []

theorem mem_migSegs {snaps : List (Q × Mat)} {n : Nat} {m : MigSeg} :
    m ∈ migSegs snaps n ↔ ∃ i, i < n ∧ ∃ j, j < n ∧ i ≠ j ∧ m ∈ pairL snaps i j := by
  rw [migSegs_eq]
  simp only [List.mem_flatMap, List.mem_range]
  constructor
  · rintro ⟨i, hi, j, hj, h⟩
    by_cases hij : i = j
    · rw [if_pos hij] at h; cases h
    · rw [if_neg hij] at h; exact ⟨i, hi, j, hj, hij, h⟩
  · rintro ⟨i, hi, j, hj, hij, h⟩
    exact ⟨i, hi, j, hj, by rw [if_neg hij]; exact h⟩

theorem pairL_spec {snaps : List (Q × Mat)} (i j : Nat) (hchron : snaps.Pairwise (fun a b => a.1 ≤ b.1)) :
    Canon (i + 1) (j + 1) (pairL snaps i j)
    ∧ ∀ t r, HasRate (pairL snaps i j) t r ↔ r ≠ 0 ∧ snapRateAt snaps i j t = some r :=
  ms_pair i j hchron

theorem covers_iff (m : MigSeg) (i j : Nat) (t : Q) :
    covers m i j t = true ↔ m.dest = i ∧ m.source = j ∧ m.t0 ≤ t ∧ ETime.fin t < m.t1 := by
  unfold covers
  simp only [Bool.and_eq_true, decide_eq_true_eq, and_assoc]

/-! ## the rate of the step function is the entry of the snapshot in force -/

theorem rateOf_migSegs_in {snaps : List (Q × Mat)} (hchron : snaps.Pairwise (fun a b => a.1 ≤ b.1))
    {n i j : Nat} (t : Q) (hij : i ≠ j) (hi : i < n) (hj : j < n) :
    rateOf (migSegs snaps n) (i + 1) (j + 1) t = matGet (matAt snaps t) i j := by
  rw [matGet_matAt]
  obtain ⟨hc, hr⟩ := pairL_spec (snaps := snaps) i j hchron
  unfold rateOf
  cases hf : (migSegs snaps n).find? (fun m => covers m (i + 1) (j + 1) t) with
  | none =>
    rw [List.find?_eq_none] at hf
    show (0 : Q) = _
    cases hs : snapRateAt snaps i j t with
    | none => rfl
    | some r =>
      show (0 : Q) = r
      by_cases hr0 : r = 0
      · exact hr0.symm
      · obtain ⟨s, hs1, h0, h1, _⟩ := (hr t r).2 ⟨hr0, hs⟩
        have g := hc.good s hs1
        exact (hf s (mem_migSegs.2 ⟨i, hi, j, hj, hij, hs1⟩)
          ((covers_iff _ _ _ _).2 ⟨g.dest, g.source, h0, h1⟩)).elim
  | some m =>
    have hmem := List.mem_of_find?_eq_some hf
    have hcov := List.find?_some hf
    rw [covers_iff] at hcov
    obtain ⟨i', hi', j', hj', hij', hm⟩ := mem_migSegs.1 hmem
    have g := (pairL_spec (snaps := snaps) i' j' hchron).1.good m hm
    have ei : i' = i := by have := g.dest; omega
    have ej : j' = j := by have := g.source; omega
    subst ei; subst ej
    have h := (hr t m.rate).1 ⟨m, hm, hcov.2.2.1, hcov.2.2.2, rfl⟩
    rw [h.2]; rfl

theorem rateOf_migSegs_out {snaps : List (Q × Mat)} (hchron : snaps.Pairwise (fun a b => a.1 ≤ b.1))
    {n i j : Nat} (t : Q) (hout : n ≤ i ∨ n ≤ j) :
    rateOf (migSegs snaps n) (i + 1) (j + 1) t = 0 := by
  unfold rateOf
  have hf : (migSegs snaps n).find? (fun m => covers m (i + 1) (j + 1) t) = none := by
    rw [List.find?_eq_none]
    intro m hmem hcov
    rw [covers_iff] at hcov
    obtain ⟨i', hi', j', hj', hij', hm⟩ := mem_migSegs.1 hmem
    have g := (pairL_spec (snaps := snaps) i' j' hchron).1.good m hm
    have := g.dest
    have := g.source
    omega
  rw [hf]; rfl

/-- the rate of `migSegs snaps n` at `t` is the entry of the snapshot in force at `t`, when no
snapshot is larger than `n × n` -/
theorem rateOf_migSegs {snaps : List (Q × Mat)} (hchron : snaps.Pairwise (fun a b => a.1 ≤ b.1))
    {n : Nat} (hdim : ∀ tm ∈ snaps, tm.2.length ≤ n ∧ ∀ row ∈ tm.2, row.length ≤ n)
    (i j : Nat) (t : Q) (hij : i ≠ j) :
    rateOf (migSegs snaps n) (i + 1) (j + 1) t = matGet (matAt snaps t) i j := by
  by_cases hin : i < n ∧ j < n
  · exact rateOf_migSegs_in hchron t hij hin.1 hin.2
  · have hout : n ≤ i ∨ n ≤ j := by omega
    rw [rateOf_migSegs_out hchron t hout]
    rcases matAt_cases snaps t with e | ⟨tm, htm, e⟩
    · rw [e]; rfl
    · rw [e]
      exact (matGet_out (hdim tm htm).1 (hdim tm htm).2 hout).symm

/-! ## the step function changes only at snapshot times -/

theorem mergeStep_inv (P0 : Q → Prop) (P1 : ETime → Prop) {acc : List MigSeg} {m : MigSeg}
    (hacc : ∀ a ∈ acc, P0 a.t0 ∧ P1 a.t1) (hm : P0 m.t0 ∧ P1 m.t1) :
    ∀ b ∈ mergeStep acc m, P0 b.t0 ∧ P1 b.t1 := by
  rcases list_snoc_cases acc with rfl | ⟨pre, last, rfl⟩
  · rw [mergeStep_nil]
    intro b hb
    rw [List.mem_singleton.1 hb]; exact hm
  · rw [mergeStep_snoc]
    split
    · intro b hb
      rcases List.mem_append.1 hb with hb | hb
      · exact hacc b (List.mem_append_left _ hb)
      · rw [List.mem_singleton.1 hb]
        exact ⟨(hacc last (List.mem_append_right _ List.mem_cons_self)).1, hm.2⟩
    · intro b hb
      rcases List.mem_append.1 hb with hb | hb
      · exact hacc b hb
      · rw [List.mem_singleton.1 hb]; exact hm

theorem mergeFold_inv (P0 : Q → Prop) (P1 : ETime → Prop) : ∀ (xs acc : List MigSeg),
    (∀ a ∈ acc, P0 a.t0 ∧ P1 a.t1) → (∀ x ∈ xs, P0 x.t0 ∧ P1 x.t1) →
    ∀ b ∈ xs.foldl mergeStep acc, P0 b.t0 ∧ P1 b.t1
  | [], _, hacc, _ => hacc
  | x :: xs, acc, hacc, hxs => by
    rw [List.foldl_cons]
    exact mergeFold_inv P0 P1 xs _ (mergeStep_inv P0 P1 hacc (hxs x List.mem_cons_self))
      (fun y hy => hxs y (List.mem_cons_of_mem _ hy))

theorem dedupStep_mem {acc : List (Q × Mat)} {x b : Q × Mat} (hb : b ∈ dedupStep acc x) :
    b ∈ acc ∨ b = x := by
  rcases list_snoc_cases acc with rfl | ⟨pre, last, rfl⟩
  · rw [dedupStep_nil] at hb
    exact Or.inr (List.mem_singleton.1 hb)
  · rw [dedupStep_snoc] at hb
    split at hb
    · rcases List.mem_append.1 hb with hb | hb
      · exact Or.inl (List.mem_append_left _ hb)
      · exact Or.inr (List.mem_singleton.1 hb)
    · rcases List.mem_append.1 hb with hb | hb
      · exact Or.inl hb
      · exact Or.inr (List.mem_singleton.1 hb)

theorem dedup_mem : ∀ (xs acc : List (Q × Mat)) {b : Q × Mat}, b ∈ xs.foldl dedupStep acc → b ∈ acc ∨ b ∈ xs
  | [], _, _, h => Or.inl h
  | x :: xs, acc, b, h => by
    rw [List.foldl_cons] at h
    rcases dedup_mem xs _ h with h | h
    · rcases dedupStep_mem h with h | h
      · exact Or.inl h
      · exact Or.inr (h ▸ List.mem_cons_self)
    · exact Or.inr (List.mem_cons_of_mem _ h)

theorem ivsOf_t1_mem : ∀ {D : List (Q × Mat)} {iv : Q × ETime × Mat} {q : Q}, iv ∈ ivsOf D →
    iv.2.1 = ETime.fin q → ∃ x ∈ D, x.1 = q
  | [a], iv, q, h, e => by
    rw [ivsOf, List.mem_singleton] at h
    rw [h] at e; cases e
  | a :: b :: rest, iv, q, h, e => by
    rw [ivsOf, List.mem_cons] at h
    rcases h with h | h
    · rw [h] at e
      exact ⟨b, List.mem_cons_of_mem _ List.mem_cons_self, ETime.fin.inj e⟩
    · obtain ⟨x, hx, e'⟩ := ivsOf_t1_mem h e
      exact ⟨x, List.mem_cons_of_mem _ hx, e'⟩

/-- both ends of a segment of `migSegs` are snapshot times -/
theorem migSegs_cuts {snaps : List (Q × Mat)} {n : Nat} {m : MigSeg} (hm : m ∈ migSegs snaps n) :
    m.t0 ∈ snaps.map (·.1) ∧ ∀ q, m.t1 = ETime.fin q → q ∈ snaps.map (·.1) := by
  obtain ⟨i, _, j, _, _, hm⟩ := mem_migSegs.1 hm
  have hD : ∀ x ∈ snaps.foldl dedupStep [], x ∈ snaps := by
    intro x hx
    rcases dedup_mem snaps [] hx with h | h
    · cases h
    · exact h
  refine mergeFold_inv (fun a => a ∈ snaps.map (·.1)) (fun b => ∀ q, b = ETime.fin q → q ∈ snaps.map (·.1))
    _ [] (fun a ha => by cases ha) (fun x hx => ?_) m hm
  obtain ⟨iv, hiv, hs⟩ := List.mem_filterMap.1 hx
  obtain ⟨_, _, h3, h4, _, _⟩ := segOf_some hs
  constructor
  · obtain ⟨y, hy, e⟩ := ivsOf_t0_mem hiv
    show x.t0 ∈ _
    rw [h3, ← e]
    exact List.mem_map.2 ⟨y, hD y hy, rfl⟩
  · intro q hq
    rw [h4] at hq
    obtain ⟨y, hy, e⟩ := ivsOf_t1_mem hiv hq
    rw [← e]
    exact List.mem_map.2 ⟨y, hD y hy, rfl⟩

theorem mem_finTimes {ts : List ETime} {q : Q} : q ∈ finTimes ts ↔ ETime.fin q ∈ ts := by
  unfold finTimes
  rw [List.mem_filterMap]
  constructor
  · rintro ⟨t, ht, e⟩
    cases t with
    | fin x => cases e; exact ht
    | inf => cases e
  · intro h
    exact ⟨_, h, rfl⟩

/-- the cut points of the embedded demography are cut points of the snapshot one -/
theorem migCutsD_subset (semG : DemogSemG) (gs : DemogSem) {t : Q}
    (ht : t ∈ migCutsD (embedSem semG) gs) : t ∈ migCuts semG gs := by
  unfold migCutsD at ht
  unfold migCuts
  simp only [List.mem_cons, List.mem_append] at ht ⊢
  rcases ht with (((((h | h) | h) | h) | h) | h) | h
  · exact Or.inl (Or.inl (Or.inl (Or.inl (Or.inl h))))
  · obtain ⟨m, hm, e⟩ := List.mem_map.1 h
    exact Or.inl (Or.inl (Or.inl (Or.inl (Or.inr (e ▸ (migSegs_cuts hm).1)))))
  · rw [mem_finTimes] at h
    obtain ⟨m, hm, e⟩ := List.mem_map.1 h
    exact Or.inl (Or.inl (Or.inl (Or.inl (Or.inr ((migSegs_cuts hm).2 t e)))))
  · exact Or.inl (Or.inl (Or.inl (Or.inr h)))
  · exact Or.inl (Or.inl (Or.inr h))
  · exact Or.inl (Or.inr h)
  · exact Or.inr h

/-! ## assembly -/

theorem migRefinesAt_embed (semG : DemogSemG) (gs : DemogSem)
    (hchron : semG.snaps.Pairwise (fun a b => a.1 ≤ b.1))
    (hdim : ∀ tm ∈ semG.snaps, tm.2.length ≤ (semG.snaps.getLast?.map (·.2.length)).getD 0
              ∧ ∀ row ∈ tm.2, row.length ≤ (semG.snaps.getLast?.map (·.2.length)).getD 0)
    (pi pj : Demes.Spec.MsSem.PopSem) (t : Q) (hne : pi.id ≠ pj.id) (hi : 1 ≤ pi.id) (hj : 1 ≤ pj.id) :
    migRefinesAt (embedSem semG) gs pi pj t = migMatchAt semG gs pi pj t := by
  have h := rateOf_migSegs hchron hdim (pi.id - 1) (pj.id - 1) t (by omega)
  rw [Nat.sub_add_cancel hi, Nat.sub_add_cancel hj] at h
  have h' : rateOf (embedSem semG).migs pi.id pj.id t
      = matGet (matAt semG.snaps t) (pi.id - 1) (pj.id - 1) := h
  unfold migRefinesAt migMatchAt
  simp only [h']

/-- **migrations of the embedding**: if the matrix snapshots of `semG` give the graph's migration
rates on the lifetimes (`C07.migsMatch`), so does their run-length encoding (`C09.migsRefine` of
`embedSem semG`) -/
theorem migsRefine_embed (semG : Demes.Spec.C07.DemogSemG) (gs : Demes.Spec.MsSem.DemogSem)
    (hchron : semG.snaps.Pairwise (fun a b => a.1 ≤ b.1))
    (hdim : ∀ tm ∈ semG.snaps, tm.2.length ≤ (semG.snaps.getLast?.map (·.2.length)).getD 0
              ∧ ∀ row ∈ tm.2, row.length ≤ (semG.snaps.getLast?.map (·.2.length)).getD 0)
    (hids : ∀ p ∈ gs.pops, 1 ≤ p.id)
    (hm : Demes.Spec.C07.migsMatch semG gs = true) :
    Demes.Spec.C09.migsRefine (Demes.Spec.C09.embedSem semG) gs = true := by
  unfold migsMatch at hm
  unfold migsRefine
  rw [List.all_eq_true] at hm ⊢
  intro pi hpi
  have h1 := hm pi hpi
  rw [List.all_eq_true] at h1 ⊢
  intro pj hpj
  have h2 := h1 pj hpj
  rw [Bool.or_eq_true] at h2 ⊢
  by_cases hid : pi.id = pj.id
  · exact Or.inl (decide_eq_true hid)
  · rcases h2 with h2 | h2
    · exact Or.inl h2
    · refine Or.inr ?_
      rw [List.all_eq_true] at h2 ⊢
      intro t ht
      have h3 := h2 t (migCutsD_subset semG gs ht)
      rw [migRefinesAt_embed semG gs hchron hdim pi pj t hid (hids pi hpi) (hids pj hpj)]
      exact h3

/-! ## non-vacuity: the hypotheses on a concrete instance (snapshots with a repeated time and a
repeated matrix; one graph migration `2 → 1` (backwards `1 → 2`) on `[0, 10)`) -/

def exSemG : DemogSemG := { pops := [], snaps := exSnaps, moves := [] }

def exGs : DemogSem :=
  { pops := [{ id := 1, lo := 0, hi := .inf, segs := [] }, { id := 2, lo := 0, hi := .inf, segs := [] }],
    migs := [{ dest := 1, source := 2, t0 := 0, t1 := .fin 10, rate := 1 }],
    moves := [] }

example : exSemG.snaps.Pairwise (fun a b => a.1 ≤ b.1) := by decide +kernel

example : ∀ tm ∈ exSemG.snaps, tm.2.length ≤ (exSemG.snaps.getLast?.map (·.2.length)).getD 0
    ∧ ∀ row ∈ tm.2, row.length ≤ (exSemG.snaps.getLast?.map (·.2.length)).getD 0 := by decide +kernel

example : ∀ p ∈ exGs.pops, 1 ≤ p.id := by decide +kernel

example : migsMatch exSemG exGs = true := by decide +kernel

example : migsRefine (embedSem exSemG) exGs = true :=
  migsRefine_embed exSemG exGs (by decide +kernel) (by decide +kernel) (by decide +kernel) (by decide +kernel)

example : (embedSem exSemG).migs = [{ dest := 1, source := 2, t0 := 0, t1 := .fin 10, rate := 1 }] := by
  decide +kernel

#print axioms migsRefine_embed

end Demes.Proofs.MsRT
