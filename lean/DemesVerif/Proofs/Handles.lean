/-
  Proofs for C17 (file handles).

  Two relations between the state before and after a piece of library code:

  * `Frame s s'`    — handles and the caller-stream flag are untouched (only the log grew);
  * `Balanced s s'` — the handles that existed are untouched, every handle created since is
                      closed again, the caller-stream flag is untouched.

  Every processing stage is `Frame`; `with _open_file_polymorph(..)` / `with io.StringIO(..)`
  around a `Balanced` body is `Balanced`; hence every single-call entry point is `Balanced`
  (induction on the number of graphs for `dump_all`).  The generator of `load_all` carries
  the invariant `GenInv` through every consumer step (induction on the script; induction on
  the fuel for `exhaust`, which terminates because the number of documents left decreases).
-/
import DemesVerif.Spec.C17
namespace Demes.Proofs.Handles
open Demes.Handles Demes.Spec

/-! ### monad plumbing -/

theorem bind_eq {α β} (m : M α) (f : α → M β) : (m >>= f) = M.bind m f := rfl
theorem pure_eq {α} (a : α) : (pure a : M α) = M.pure a := rfl

/-! ### Frame -/

def Frame (s s' : State) : Prop := s'.handles = s.handles ∧ s'.callerClosed = s.callerClosed

theorem Frame.refl (s : State) : Frame s s := ⟨rfl, rfl⟩

theorem Frame.trans {a b c : State} (h1 : Frame a b) (h2 : Frame b c) : Frame a c :=
  ⟨h2.1.trans h1.1, h2.2.trans h1.2⟩

theorem Frame.log (s : State) (e : Event) : Frame s (s.log e) := ⟨rfl, rfl⟩

/-- the computation only writes to the log -/
def MFrame {α} (m : M α) : Prop := ∀ s, Frame s (m s).2

theorem mframe_pure {α} (a : α) : MFrame (pure a : M α) := fun s => Frame.refl s

theorem mframe_raise {α} (e : Exn) : MFrame (raise e : M α) := fun s => Frame.refl s

theorem mframe_emit (e : Event) : MFrame (emit e) := fun s => Frame.log s e

theorem mframe_bind {α β} {m : M α} {f : α → M β} (hm : MFrame m) (hf : ∀ a, MFrame (f a)) :
    MFrame (m >>= f) := by
  intro s
  have h1 := hm s
  rw [bind_eq]
  unfold M.bind
  split
  · next a s' heq => rw [heq] at h1; exact h1.trans (hf a s')
  · next e s' heq => rw [heq] at h1; exact h1

theorem mframe_ite {α} {c : Prop} [Decidable c] {a b : M α} (ha : MFrame a) (hb : MFrame b) :
    MFrame (if c then a else b) := by
  split <;> assumption

theorem mframe_stage (p : Plan) (st : Stage) (k : Nat) : MFrame (stage p st k) := by
  unfold stage
  exact mframe_bind (mframe_emit _) (fun _ => mframe_ite (mframe_raise _) (mframe_pure _))

theorem mframe_fileStage (p : Plan) (f : FileRef) (st : Stage) (k : Nat) :
    MFrame (fileStage p f st k) := by
  unfold fileStage
  exact mframe_bind (mframe_emit _) (fun _ => mframe_ite (mframe_raise _) (mframe_pure _))

theorem mframe_genTurn (c : Cfg) (f : FileRef) (i : Nat) : MFrame (genTurn c f i) := by
  unfold genTurn
  refine mframe_bind (mframe_fileStage _ _ _ _) (fun _ => mframe_ite ?_ (mframe_pure _))
  exact mframe_bind (mframe_stage _ _ _) (fun _ => mframe_bind (mframe_stage _ _ _)
    (fun _ => mframe_bind (mframe_stage _ _ _) (fun _ => mframe_pure _)))

/-! ### Balanced -/

def Balanced (s s' : State) : Prop :=
  (∃ m, s'.handles = s.handles ++ List.replicate m false) ∧ s'.callerClosed = s.callerClosed

theorem Frame.balanced {s s' : State} (h : Frame s s') : Balanced s s' :=
  ⟨⟨0, by simp [h.1]⟩, h.2⟩

theorem Balanced.refl (s : State) : Balanced s s := (Frame.refl s).balanced

theorem Balanced.trans {a b c : State} (h1 : Balanced a b) (h2 : Balanced b c) : Balanced a c := by
  obtain ⟨⟨m1, e1⟩, c1⟩ := h1
  obtain ⟨⟨m2, e2⟩, c2⟩ := h2
  refine ⟨⟨m1 + m2, ?_⟩, c2.trans c1⟩
  rw [e2, e1, List.append_assoc, List.replicate_append_replicate]

def MBal {α} (m : M α) : Prop := ∀ s, Balanced s (m s).2

theorem MFrame.mbal {α} {m : M α} (h : MFrame m) : MBal m := fun s => (h s).balanced

theorem mbal_pure {α} (a : α) : MBal (pure a : M α) := (mframe_pure a).mbal
theorem mbal_raise {α} (e : Exn) : MBal (raise e : M α) := (mframe_raise e).mbal

theorem mbal_bind {α β} {m : M α} {f : α → M β} (hm : MBal m) (hf : ∀ a, MBal (f a)) :
    MBal (m >>= f) := by
  intro s
  have h1 := hm s
  rw [bind_eq]
  unfold M.bind
  split
  · next a s' heq => rw [heq] at h1; exact h1.trans (hf a s')
  · next e s' heq => rw [heq] at h1; exact h1

theorem set_length_append (l r : List Bool) (b c : Bool) :
    (l ++ b :: r).set l.length c = l ++ c :: r := by
  induction l with
  | nil => rfl
  | cons x xs ih => simp [ih]

/-- closing the handle that was opened at the beginning of a balanced stretch -/
theorem close_after_balanced {s s2 : State} (m : Nat)
    (h : s2.handles = (s.handles ++ [true]) ++ List.replicate m false)
    (hc : s2.callerClosed = s.callerClosed) :
    Balanced s (closeRef (.handle s.handles.length) s2) := by
  refine ⟨⟨m + 1, ?_⟩, hc⟩
  show s2.handles.set s.handles.length false = _
  rw [h, List.append_assoc, List.singleton_append, set_length_append, List.replicate_succ]

/-- what `open(polymorph)` / `except TypeError` leaves behind -/
def Entered (o : Obj) (s : State) (f : FileRef) (s' : State) : Prop :=
  (o.asRef = none ∧ f = .handle s.handles.length ∧ s'.handles = s.handles ++ [true]
      ∧ s'.callerClosed = s.callerClosed)
    ∨ (o.asRef = some f ∧ Frame s s')

theorem openPolymorph_spec (p : Plan) (o : Obj) (s : State) :
    match openPolymorph p o s with
    | (.ok f, s') => Entered o s f s'
    | (.error _, s') => Frame s s' := by
  unfold openPolymorph
  simp only [bind_eq, pure_eq]
  cases o with
  | str =>
    by_cases hp : p.hits .open 0 = true
    · simp [M.bind, emit, hp, raise, State.log, Frame]
    · simp [M.bind, emit, hp, newHandle, M.pure, State.log, Entered, Obj.asRef]
  | pathlike =>
    by_cases hp : p.hits .open 0 = true
    · simp [M.bind, emit, hp, raise, State.log, Frame]
    · simp [M.bind, emit, hp, newHandle, M.pure, State.log, Entered, Obj.asRef]
  | callerStream => simp [M.bind, emit, M.pure, State.log, Entered, Obj.asRef, Frame]
  | libStream j => simp [M.bind, emit, M.pure, State.log, Entered, Obj.asRef, Frame]
  | other => simp [M.bind, emit, M.pure, State.log, Entered, Obj.asRef, Frame]

/-- `with _open_file_polymorph(o) as f: body` around a balanced body is balanced -/
theorem mbal_withPolymorph {α} (p : Plan) (o : Obj) (body : FileRef → M α)
    (hb : ∀ f, MBal (body f)) : MBal (withPolymorph p o body) := by
  intro s
  have ho := openPolymorph_spec p o s
  unfold withPolymorph
  rw [bind_eq]
  unfold M.bind
  split
  · next f s1 heq =>
    rw [heq] at ho
    have hbody := hb f s1
    show Balanced s (exitPolymorph o f (body f s1).2)
    rcases ho with ⟨hn, hf, hh, hc⟩ | ⟨hsome, hfr⟩
    · obtain ⟨⟨m, hm⟩, hc2⟩ := hbody
      have : exitPolymorph o f (body f s1).2 = closeRef f (body f s1).2 := by
        simp [exitPolymorph, hn]
      rw [this]
      subst hf
      exact close_after_balanced m (by rw [hm, hh]) (by rw [hc2, hc])
    · have : exitPolymorph o f (body f s1).2 = (body f s1).2 := by
        simp [exitPolymorph, hsome]
      rw [this]
      exact hfr.balanced.trans hbody
  · next e s1 heq =>
    rw [heq] at ho
    exact ho.balanced

/-- `with io.StringIO(..) as stream: body` around a balanced body is balanced -/
theorem mbal_withStringIO {α} (p : Plan) (body : Obj → M α) (hb : ∀ o, MBal (body o)) :
    MBal (withStringIO p body) := by
  intro s
  unfold withStringIO
  by_cases hp : p.hits .open 0 = true
  · simp only [bind_eq, M.bind, emit, hp, if_true, raise]
    exact (Frame.log s _).balanced
  · simp only [bind_eq, M.bind, emit, hp]
    have hbody := hb (.libStream s.handles.length)
      { handles := s.handles ++ [true], callerClosed := s.callerClosed,
        trace := s.trace ++ [.newStringIO] ++ [.opened s.handles.length] }
    obtain ⟨⟨m, hm⟩, hc⟩ := hbody
    exact close_after_balanced (s := s) m hm hc

/-! ### the single-call entry points are balanced -/

theorem mbal_readData (p : Plan) (fmt : Format) (o : Obj) : MBal (readData p fmt o) := by
  unfold readData
  cases fmt
  · exact mbal_withPolymorph _ _ _ (fun f => (mframe_fileStage _ _ _ _).mbal)
  · exact mbal_withPolymorph _ _ _ (fun f => (mframe_fileStage _ _ _ _).mbal)
  · exact mbal_raise _

theorem mbal_loadAsdict (p : Plan) (fmt : Format) (o : Obj) : MBal (loadAsdict p fmt o) := by
  unfold loadAsdict
  exact mbal_bind (mbal_readData _ _ _)
    (fun _ => mbal_bind (mframe_stage _ _ _).mbal (fun _ => (mframe_stage _ _ _).mbal))

theorem mbal_loadsAsdict (p : Plan) (fmt : Format) : MBal (loadsAsdict p fmt) :=
  mbal_withStringIO _ _ (fun o => mbal_loadAsdict p fmt o)

theorem mbal_load (p : Plan) (fmt : Format) (o : Obj) : MBal (load p fmt o) := by
  unfold load
  exact mbal_bind (mbal_loadAsdict _ _ _) (fun _ => (mframe_stage _ _ _).mbal)

theorem mbal_loads (p : Plan) (fmt : Format) : MBal (loads p fmt) := by
  unfold loads
  exact mbal_bind (mbal_loadsAsdict _ _) (fun _ => (mframe_stage _ _ _).mbal)

theorem mbal_writeData (p : Plan) (fmt : Format) (o : Obj) : MBal (writeData p fmt o) := by
  unfold writeData
  cases fmt
  · exact mbal_withPolymorph _ _ _ (fun f => (mframe_fileStage _ _ _ _).mbal)
  · exact mbal_withPolymorph _ _ _ (fun f => (mframe_fileStage _ _ _ _).mbal)
  · exact mbal_raise _

theorem mbal_dump (p : Plan) (fmt : Format) (o : Obj) : MBal (dump p fmt o) := by
  unfold dump
  exact mbal_bind (mframe_stage _ _ _).mbal (fun _ => mbal_writeData _ _ _)

theorem mbal_dumps (p : Plan) (fmt : Format) : MBal (dumps p fmt) :=
  mbal_withStringIO _ _ (fun o => mbal_dump p fmt o)

/-- the loop of `dump_all` only writes to the log, however many graphs there are and wherever
it fails (induction on the number of graphs left) -/
theorem mframe_dumpAllLoop (p : Plan) (f : FileRef) (i r : Nat) : MFrame (dumpAllLoop p f i r) := by
  induction r generalizing i with
  | zero => unfold dumpAllLoop; exact mframe_pure _
  | succ r ih =>
    unfold dumpAllLoop
    exact mframe_bind (mframe_stage _ _ _) (fun _ => mframe_bind (mframe_fileStage _ _ _ _) (fun _ => ih _))

theorem mbal_dumpAll (p : Plan) (n : Nat) (o : Obj) : MBal (dumpAll p n o) :=
  mbal_withPolymorph _ _ _ (fun f => (mframe_dumpAllLoop p f 0 n).mbal)

/-- from the initial state, a balanced call leaves every handle closed and the caller's
stream open -/
theorem finish_ok (m : M Unit) (hm : MBal m) : handlesOK (finish m) := by
  have h := hm State.init
  unfold finish
  obtain ⟨⟨k, hk⟩, hc⟩ := h
  have key : ∀ s : State, s.handles = State.init.handles ++ List.replicate k false →
      s.callerClosed = State.init.callerClosed → ∀ e, handlesOK ⟨e, s⟩ := by
    intro s h1 h2 e
    refine ⟨?_, h2⟩
    intro b hb
    rw [show s.handles = List.replicate k false from by simpa [State.init] using h1] at hb
    exact (List.mem_replicate.mp hb).2
  split
  · next s heq => rw [heq] at hk hc; exact key (s.log _) hk hc _
  · next e s heq => rw [heq] at hk hc; exact key (s.log _) hk hc _

/-! ### the generator -/

/-- what holds between any two steps of the consumer -/
def GenInv (c : Cfg) (g : Gen) (s : State) : Prop :=
  s.callerClosed = false ∧
  match g with
  | .notStarted => s.handles = []
  | .done _ => allClosed s
  | .suspended f _ =>
    (c.obj.isPath = true ∧ f = .handle 0 ∧ s.handles = [true]) ∨ (c.obj.asRef = some f ∧ s.handles = [])

/-- what holds while the generator body runs inside the `with` -/
def Inside (c : Cfg) (f : FileRef) (s : State) : Prop :=
  s.callerClosed = false ∧
  ((c.obj.isPath = true ∧ f = .handle 0 ∧ s.handles = [true]) ∨ (c.obj.asRef = some f ∧ s.handles = []))

theorem Inside.log {c : Cfg} {f : FileRef} {s : State} (h : Inside c f s) (e : Event) :
    Inside c f (s.log e) := h

theorem Inside.frame {c : Cfg} {f : FileRef} {s s' : State} (h : Inside c f s) (hf : Frame s s') :
    Inside c f s' := by
  unfold Inside at *
  rw [hf.1, hf.2]; exact h

/-- leaving the `with` from inside closes what was opened and nothing else -/
theorem exit_inside {c : Cfg} {f : FileRef} {s : State} (h : Inside c f s) :
    (exitPolymorph c.obj f s).callerClosed = false ∧ allClosed (exitPolymorph c.obj f s) := by
  obtain ⟨hc, h | h⟩ := h
  · obtain ⟨hp, hf, hh⟩ := h
    have ho : c.obj.asRef = none := by
      cases hobj : c.obj <;> simp_all [Obj.isPath, Obj.asRef]
    subst hf
    simp only [exitPolymorph, ho, ne_eq, reduceCtorEq, not_false_eq_true, if_true, closeRef]
    refine ⟨hc, ?_⟩
    intro b hb
    simp only [hh, List.set] at hb ⊢
    simpa using hb
  · obtain ⟨ho, hh⟩ := h
    simp only [exitPolymorph, ho, ne_eq, not_true_eq_false, if_false]
    refine ⟨hc, ?_⟩
    intro b hb
    rw [hh] at hb
    cases hb

theorem genResume_inv (c : Cfg) (f : FileRef) (i : Nat) (s : State) (h : Inside c f s) :
    GenInv c (genResume c f i s).1 (genResume c f i s).2 := by
  have hfr := mframe_genTurn c f i s
  unfold genResume
  split
  · next s' heq =>
    rw [heq] at hfr
    have := (h.frame hfr).log (.yielded i)
    exact ⟨this.1, this.2⟩
  · next s' heq =>
    rw [heq] at hfr
    have := exit_inside (h.frame hfr)
    exact ⟨this.1, this.2⟩
  · next e s' heq =>
    rw [heq] at hfr
    have := exit_inside (h.frame hfr)
    exact ⟨this.1, this.2⟩

/-- entering the `with` from a state with no handles -/
theorem open_inside (c : Cfg) (s : State) (hc : s.callerClosed = false) (hh : s.handles = []) :
    match openPolymorph c.plan c.obj s with
    | (.ok f, s') => Inside c f s'
    | (.error _, s') => s'.callerClosed = false ∧ s'.handles = [] := by
  have ho := openPolymorph_spec c.plan c.obj s
  split
  · next f s' heq =>
    rw [heq] at ho
    rcases ho with ⟨hn, hf, hh', hc'⟩ | ⟨hsome, hfr⟩
    · refine ⟨hc'.trans hc, Or.inl ⟨?_, ?_, ?_⟩⟩
      · cases hobj : c.obj <;> simp_all [Obj.isPath, Obj.asRef]
      · rw [hf, hh]; rfl
      · rw [hh', hh]; rfl
    · exact ⟨hfr.2.trans hc, Or.inr ⟨hsome, hfr.1.trans hh⟩⟩
  · next e s' heq =>
    rw [heq] at ho
    exact ⟨ho.2.trans hc, ho.1.trans hh⟩

theorem allClosed_nil {s : State} (h : s.handles = []) : allClosed s := by
  intro b hb; rw [h] at hb; cases hb

theorem genNext_inv (c : Cfg) (g : Gen) (s : State) (h : GenInv c g s) :
    GenInv c (genNext c g s).1 (genNext c g s).2 := by
  cases g with
  | notStarted =>
    have ho := open_inside c s h.1 h.2
    simp only [genNext]
    split
    · next e s' heq =>
      rw [heq] at ho
      exact ⟨ho.1, allClosed_nil ho.2⟩
    · next f s' heq =>
      rw [heq] at ho
      exact genResume_inv c f 0 s' ho
  | suspended f i => exact genResume_inv c f i s ⟨h.1, h.2⟩
  | done d => exact ⟨h.1, h.2⟩

theorem genClose_inv (c : Cfg) (g : Gen) (s : State) (h : GenInv c g s) :
    GenInv c (genClose c g s).1 (genClose c g s).2 := by
  cases g with
  | notStarted => exact ⟨h.1, allClosed_nil h.2⟩
  | suspended f i =>
    have := exit_inside (c := c) (f := f) (s := s) ⟨h.1, h.2⟩
    exact ⟨this.1, this.2⟩
  | done d => exact ⟨h.1, h.2⟩

theorem GenInv.log {c : Cfg} {g : Gen} {s : State} (h : GenInv c g s) (e : Event) :
    GenInv c g (s.log e) := h

theorem genExhaust_inv (c : Cfg) (fuel : Nat) (g : Gen) (s : State) (h : GenInv c g s) :
    GenInv c (genExhaust c fuel g s).1 (genExhaust c fuel g s).2 := by
  induction fuel generalizing g s with
  | zero => exact h
  | succ fuel ih =>
    have hn := genNext_inv c g s h
    unfold genExhaust
    split
    · next f i s' heq => rw [heq] at hn; exact ih _ _ hn
    · next r hr =>
      exact hn

theorem genStep_inv (c : Cfg) (st : Step) (g : Gen) (s : State) (h : GenInv c g s) :
    GenInv c (genStep c st g s).1 (genStep c st g s).2 := by
  cases st with
  | next => exact genNext_inv c g s h
  | exhaust => exact genExhaust_inv c _ g s h
  | close => exact genClose_inv c g _ (h.log _)
  | collect => exact genClose_inv c g _ (h.log _)

theorem runScript_inv (c : Cfg) (script : List Step) (g : Gen) (s : State) (h : GenInv c g s) :
    GenInv c (runScript c script g s).1 (runScript c script g s).2 := by
  induction script generalizing g s with
  | nil => exact h
  | cons st rest ih =>
    unfold runScript
    exact ih _ _ (genStep_inv c st g s h)

theorem genInv_init (c : Cfg) : GenInv c .notStarted State.init := ⟨rfl, rfl⟩

/-! ### termination of `exhaust`, and what the last step of a script guarantees -/

/-- how many more `next` calls can still yield -/
def budget (c : Cfg) : Gen → Nat
  | .notStarted => c.n + 1
  | .suspended _ i => c.n + 1 - i
  | .done _ => 0

theorem genResume_budget (c : Cfg) (f : FileRef) (i : Nat) (s : State) :
    (genResume c f i s).1.isDone = true ∨
      ((genResume c f i s).1 = .suspended f (i + 1) ∧ i < c.n) := by
  unfold genResume
  split
  · next s' heq =>
    right
    refine ⟨rfl, ?_⟩
    -- `genTurn` answers `true` only when `i < n`
    unfold genTurn at heq
    by_cases hi : i < c.n
    · exact hi
    · exfalso
      simp only [bind_eq, pure_eq, hi, if_false] at heq
      unfold M.bind at heq
      split at heq
      · simp [M.pure] at heq
      · simp at heq
  · left; rfl
  · left; rfl

theorem genNext_budget (c : Cfg) (g : Gen) (s : State) :
    (genNext c g s).1.isDone = true ∨ budget c (genNext c g s).1 < budget c g := by
  cases g with
  | notStarted =>
    simp only [genNext]
    split
    · left; rfl
    · next f s' _ =>
      rcases genResume_budget c f 0 s' with h | ⟨h, hi⟩
      · left; exact h
      · right; rw [h]; simp only [budget]; omega
  | suspended f i =>
    show (genResume c f i s).1.isDone = true ∨ _
    rcases genResume_budget c f i s with h | ⟨h, hi⟩
    · left; exact h
    · right
      show budget c (genResume c f i s).1 < _
      rw [h]; simp only [budget]; omega
  | done d => left; rfl

theorem genExhaust_done (c : Cfg) (fuel : Nat) (g : Gen) (s : State) (h : budget c g < fuel) :
    (genExhaust c fuel g s).1.isDone = true := by
  induction fuel generalizing g s with
  | zero => omega
  | succ fuel ih =>
    have hb := genNext_budget c g s
    unfold genExhaust
    split
    · next f i s' heq =>
      rw [heq] at hb
      rcases hb with hb | hb
      · simp [Gen.isDone] at hb
      · have hb' : budget c (.suspended f i) < budget c g := hb
        exact ih _ _ (by omega)
    · next r hr =>
      rcases hb with hb | hb
      · exact hb
      · -- not suspended and not done: impossible after `next`
        cases hg : (genNext c g s).1 with
        | notStarted =>
          exfalso
          cases g with
          | notStarted =>
            simp only [genNext] at hg
            split at hg
            · cases hg
            · next f s' _ =>
              unfold genResume at hg
              split at hg <;> cases hg
          | suspended f i =>
            have : (genResume c f i s).1 = .notStarted := hg
            unfold genResume at this
            split at this <;> cases this
          | done d => cases hg
        | suspended f i =>
          exfalso
          exact hr f i (genNext c g s).2 (by rw [← hg])
        | done d => rfl

theorem budget_le (c : Cfg) (g : Gen) : budget c g < c.n + 2 := by
  cases g <;> simp only [budget] <;> omega

theorem genClose_done (c : Cfg) (g : Gen) (s : State) : (genClose c g s).1.isDone = true := by
  cases g <;> rfl

/-- after `exhaust`, `close` or `collect` the iterator is finished -/
theorem genStep_done (c : Cfg) (st : Step) (hst : st ≠ .next) (g : Gen) (s : State) :
    (genStep c st g s).1.isDone = true := by
  cases st with
  | next => exact absurd rfl hst
  | exhaust => exact genExhaust_done c _ g s (budget_le c g)
  | close => exact genClose_done c g _
  | collect => exact genClose_done c g _

theorem runScript_append (c : Cfg) (a b : List Step) (g : Gen) (s : State) :
    runScript c (a ++ b) g s = runScript c b (runScript c a g s).1 (runScript c a g s).2 := by
  induction a generalizing g s with
  | nil => rfl
  | cons st rest ih =>
    simp only [List.cons_append, runScript]
    exact ih _ _

theorem runScript_last_done (c : Cfg) (a : List Step) (st : Step) (hst : st ≠ .next) (g : Gen)
    (s : State) : (runScript c (a ++ [st]) g s).1.isDone = true := by
  rw [runScript_append]
  simp only [runScript]
  exact genStep_done c st hst _ _

/-! ### the statements of `Theorems/C17.lean` -/

theorem settled_of_isDone {g : Gen} (h : g.isDone = true) : settled (.iterator g) := by
  cases g <;> simp_all [Gen.isDone, settled]

theorem run_loadAll (r : Request) (h : r.entry = .loadAll) :
    run r = ⟨.iterator (runScript ⟨r.plan, r.target.toObj, r.n⟩ r.script .notStarted State.init).1,
             (runScript ⟨r.plan, r.target.toObj, r.n⟩ r.script .notStarted State.init).2⟩ := by
  unfold run
  rw [h]

theorem run_genInv (r : Request) (h : r.entry = .loadAll) :
    ∃ g, (run r).outcome = .iterator g ∧ GenInv ⟨r.plan, r.target.toObj, r.n⟩ g (run r).state := by
  rw [run_loadAll r h]
  exact ⟨_, rfl, runScript_inv _ _ _ _ (genInv_init _)⟩

theorem caller_stream_never_closed (r : Request) : callerStreamOpen (run r).state := by
  cases he : r.entry with
  | loadAll =>
    obtain ⟨g, _, hinv⟩ := run_genInv r he
    exact hinv.1
  | loadAsdict fmt => unfold run; rw [he]; exact (finish_ok _ (mbal_loadAsdict _ _ _)).2
  | loadsAsdict fmt => unfold run; rw [he]; exact (finish_ok _ (mbal_loadsAsdict _ _)).2
  | load fmt => unfold run; rw [he]; exact (finish_ok _ (mbal_load _ _ _)).2
  | loads fmt => unfold run; rw [he]; exact (finish_ok _ (mbal_loads _ _)).2
  | dump fmt => unfold run; rw [he]; exact (finish_ok _ (mbal_dump _ _ _)).2
  | dumps fmt => unfold run; rw [he]; exact (finish_ok _ (mbal_dumps _ _)).2
  | dumpAll => unfold run; rw [he]; exact (finish_ok _ (mbal_dumpAll _ _ _)).2

theorem handles_closed (r : Request) (h : settled (run r).outcome) : handlesOK (run r) := by
  cases he : r.entry with
  | loadAll =>
    obtain ⟨g, hg, hinv⟩ := run_genInv r he
    rw [hg] at h
    refine ⟨?_, hinv.1⟩
    cases g with
    | notStarted => exact absurd h (by simp [settled])
    | suspended f i => exact absurd h (by simp [settled])
    | done d => exact hinv.2
  | loadAsdict fmt => unfold run; rw [he]; exact finish_ok _ (mbal_loadAsdict _ _ _)
  | loadsAsdict fmt => unfold run; rw [he]; exact finish_ok _ (mbal_loadsAsdict _ _)
  | load fmt => unfold run; rw [he]; exact finish_ok _ (mbal_load _ _ _)
  | loads fmt => unfold run; rw [he]; exact finish_ok _ (mbal_loads _ _)
  | dump fmt => unfold run; rw [he]; exact finish_ok _ (mbal_dump _ _ _)
  | dumps fmt => unfold run; rw [he]; exact finish_ok _ (mbal_dumps _ _)
  | dumpAll => unfold run; rw [he]; exact finish_ok _ (mbal_dumpAll _ _ _)

theorem call_settled (r : Request) (h : r.entry ≠ .loadAll) : settled (run r).outcome := by
  have key : ∀ m : M Unit, settled (finish m).outcome := by
    intro m; unfold finish; split <;> trivial
  unfold run
  cases he : r.entry <;> first | exact key _ | exact absurd he h

theorem iterator_settled (target : Target) (plan : Plan) (n : Nat) (script : List Step) (st : Step)
    (hst : st ≠ .next) :
    settled (run { entry := .loadAll, target, plan, n, script := script ++ [st] }).outcome := by
  rw [run_loadAll _ rfl]
  exact settled_of_isDone (runScript_last_done _ _ _ hst _ _)

theorem consumer_closed (target : Target) (plan : Plan) (n nexts : Nat) (e : Ending)
    (he : e ≠ .abandon) :
    settled (run { entry := .loadAll, target, plan, n, script := consumer nexts e }).outcome
      ∧ handlesOK (run { entry := .loadAll, target, plan, n, script := consumer nexts e }) := by
  have hs : settled (run { entry := .loadAll, target, plan, n, script := consumer nexts e }).outcome := by
    cases e with
    | exhaust => exact iterator_settled _ _ _ _ _ (by decide)
    | close => exact iterator_settled _ _ _ _ _ (by decide)
    | abandon => exact absurd rfl he
  exact ⟨hs, handles_closed _ hs⟩

theorem abandoned_iterator (r : Request) (f : FileRef) (i : Nat)
    (h : (run r).outcome = .iterator (.suspended f i)) :
    (run r).state.handles = (if r.target.toObj.isPath then [true] else [])
      ∧ callerStreamOpen (run r).state := by
  have he : r.entry = .loadAll := by
    cases he : r.entry with
    | loadAll => rfl
    | _ =>
      exfalso
      have := call_settled r (by rw [he]; simp)
      rw [h] at this
      exact this
  obtain ⟨g, hg, hinv⟩ := run_genInv r he
  rw [h] at hg
  cases hg
  refine ⟨?_, hinv.1⟩
  rcases hinv.2 with ⟨hp, _, hh⟩ | ⟨ho, hh⟩
  · simp only at hp
    rw [hh, hp]; rfl
  · simp only at ho
    rw [hh]
    cases ht : r.target <;> simp_all [Target.toObj, Obj.asRef, Obj.isPath]

theorem unstarted_iterator (r : Request) (h : (run r).outcome = .iterator .notStarted) :
    (run r).state.handles = [] ∧ callerStreamOpen (run r).state := by
  have he : r.entry = .loadAll := by
    cases he : r.entry with
    | loadAll => rfl
    | _ =>
      exfalso
      have := call_settled r (by rw [he]; simp)
      rw [h] at this
      exact this
  obtain ⟨g, hg, hinv⟩ := run_genInv r he
  rw [h] at hg
  cases hg
  exact ⟨hinv.2, hinv.1⟩

end Demes.Proofs.Handles
