/-
  C09 §10 — the command `to_ms` prints for a valid ms-expressible graph of constant sizes whose pulse
  proportions are below one (`PulsesBelowOne`: the first clause of `PulsesTame`, WITHOUT the clause on the
  order of same-time pulses) lies in the third fragment `C08.Tame3` (`tame3_finalEvs`, `tame3_toMs`).

  The moves `groupOps` reads off the group of time `T` are `dpMoves g (dpsEq g T) = pulseOps g T ++ demeOps g T`
  (`MsTame2.dpMoves_dpsEq`).  In a valid graph

  * every source is the (1-based) index of a deme of the graph, hence `≤ g.demes.length ≤ n`
    (`sourcesOld_dpMoves`);
  * a move with `q = 1` is not a pulse (its fraction is the pulse's proportion, `< 1`), so it is a move of a
    deme `d` that starts at `T`, and its source is `d`; no move of time `T` has `d` as its target: an ancestor
    starts strictly before `T` (`deme_target_ne_deme_source`), a pulse's source does not start at the pulse's
    time (`MsTame2.pulse_deme_cross`) — `jnt_dpMoves`;
  * every `-es` keeps a positive fraction (`splitPos_rawEvs3`: `splitPos_rawEvs` from the first clause only).
-/
import DemesVerif.Proofs.MsTame2
import DemesVerif.Proofs.MsRTExamples
import DemesVerif.Proofs.MsRTTameExamples
set_option linter.unusedSimpArgs false
set_option linter.unusedVariables false
namespace Demes.Proofs.MsRT
open Demes Demes.Ms Demes.Spec Demes.Spec.C07 Demes.Spec.C09
open Demes.Spec.MsSem (Cmd Parsed isMove)
open Demes.Spec.C08 (groupOps groupOpsAux flushOp noSourceAfterTarget GoodGroup goodGroups Tame' isSplitC cmdGroups
  sourcesOld joinedNeverTarget GoodGroup3 goodGroups3 Tame3)
open Demes.Proofs.ToMs
open Demes.Proofs.MsTame2 (pulseOps demeOps dpMoves_dpsEq pulse_deme_cross)

/-! ### `PulsesBelowOne` -/

theorem pulsesBelowOne_of_tame {g : Graph} (h : PulsesTame g = true) : PulsesBelowOne g = true := by
  simp only [PulsesTame, Bool.and_eq_true] at h
  exact h.1

theorem pulsesBelowOne_mem {g : Graph} (hpb : PulsesBelowOne g = true) {p : Pulse} (hp : p ∈ g.pulses) {x : Q}
    (hx : x ∈ p.proportions) : x < 1 := by
  simp only [PulsesBelowOne, List.all_eq_true, decide_eq_true_eq] at hpb
  exact hpb p hp x hx

theorem pulsesBelowOne_headD {g : Graph} (hpb : PulsesBelowOne g = true) {p : Pulse} (hp : p ∈ g.pulses) :
    p.proportions.headD 0 < 1 := by
  cases hpp : p.proportions with
  | nil => simp only [List.headD_nil]; decide
  | cons x xs =>
    simp only [List.headD_cons]
    exact pulsesBelowOne_mem hpb hp (by rw [hpp]; exact List.mem_cons_self)

theorem pulsesBelowOne_inGen (g : Graph) : PulsesBelowOne (inGenerations g) = PulsesBelowOne g := by
  unfold PulsesBelowOne
  have h1 : (inGenerations g).pulses = g.pulses.map (Pulse.scale g.generationTime) := rfl
  rw [h1, List.all_map]
  rfl

theorem pulsesBelowOne_inGen_of_valid {g : Graph} (hv : validGraph g = true) :
    PulsesBelowOne (inGenerations g) = PulsesBelowOne g := pulsesBelowOne_inGen g

/-! ### the moves of one time: sources are demes of the graph -/

section
variable {g : Graph} (c : Clauses g) (hx : MsExpressible g = true)
include c hx

omit c hx in
theorem toNat_idOf_le {name : String} (h : (g.demeId? name).isSome = true) : (idOf g name).toNat ≤ g.demes.length := by
  have := idOf_le h
  omega

omit c hx in
theorem mem_pulseOps {T : Q} {o : Nat × Nat × Q} (ho : o ∈ pulseOps g T) :
    ∃ p ∈ g.pulses, p.time = T ∧ o = pulseMove g p := by
  obtain ⟨p, hp, rfl⟩ := List.mem_map.1 ho
  obtain ⟨hpm, hpt'⟩ := List.mem_filter.1 (List.mem_reverse.1 hp)
  simp only [decide_eq_true_eq] at hpt'
  exact ⟨p, hpm, hpt', rfl⟩

omit hx in
theorem mem_demeOps {T : Q} {o : Nat × Nat × Q} (ho : o ∈ demeOps g T) :
    ∃ d ∈ g.demes, d.startTime = ETime.fin T ∧ o.1 = (idOf g d.name).toNat ∧ ∃ a anc, o.2.1 = (idOf g a).toNat
      ∧ (g.demeId? a).isSome = true ∧ findDeme g a = some anc ∧ ETime.fin T < anc.startTime := by
  obtain ⟨d, hd, hod⟩ := mem_dpMoves_demes _ ho
  obtain ⟨hdm, hdt⟩ := List.mem_filter.1 hd
  simp only [decide_eq_true_eq] at hdt
  obtain ⟨h1, h2⟩ := demeMove_facts c hdm hdt hod
  exact ⟨d, hdm, hdt, h1, h2⟩

/-- every source of a move of time `T` is the number of a deme of the graph -/
theorem source_le_dpMoves (T : Q) {o : Nat × Nat × Q} (ho : o ∈ dpMoves g (dpsEq g T)) : o.1 ≤ g.demes.length := by
  rw [dpMoves_dpsEq, List.mem_append] at ho
  rcases ho with ho | ho
  · obtain ⟨p, hpm, _, rfl⟩ := mem_pulseOps ho
    exact toNat_idOf_le (pulseOk_of_valid c hx hpm).dest
  · obtain ⟨d, hdm, _, h1, _⟩ := mem_demeOps c ho
    rw [h1]
    exact toNat_idOf_le (demeId_isSome_of_mem c hdm)

theorem sourcesOld_dpMoves (T : Q) {n : Nat} (hn : g.demes.length ≤ n) : sourcesOld n (dpMoves g (dpsEq g T)) = true := by
  simp only [sourcesOld, List.all_eq_true, decide_eq_true_eq]
  intro o ho
  exact Nat.le_trans (source_le_dpMoves c hx T ho) hn

omit hx in
/-- the target of a move of a deme born at `T` (an ancestor) is not the source of a move of a deme born at `T` -/
theorem deme_target_ne_deme_source (T : Q) : ∀ o' ∈ demeOps g T, ∀ o ∈ demeOps g T, o'.2.1 ≠ o.1 := by
  intro o' ho' o ho
  obtain ⟨_, _, _, _, a, anc, h2, haid, hanc, hlt⟩ := mem_demeOps c ho'
  obtain ⟨d, hdm, hdt, h1, _⟩ := mem_demeOps c ho
  intro heq
  rw [h2, h1] at heq
  have : a = d.name := toNat_idOf_inj haid (demeId_isSome_of_mem c hdm) heq
  rw [this, findDeme_of_mem c hdm] at hanc
  cases hanc
  rw [hdt] at hlt
  exact et_lt_irrefl' hlt (et_le_refl _)

/-- the populations joined at time `T` (the demes that start at `T`) receive no lineages at time `T` -/
theorem jnt_dpMoves (hpb : PulsesBelowOne g = true) (T : Q) : joinedNeverTarget (dpMoves g (dpsEq g T)) = true := by
  simp only [joinedNeverTarget, List.all_eq_true, Bool.or_eq_true, decide_eq_true_eq]
  intro o ho
  rw [dpMoves_dpsEq, List.mem_append] at ho
  rcases ho with ho | ho
  · -- a pulse moves its proportion, which is below one
    left
    obtain ⟨p, hpm, _, rfl⟩ := mem_pulseOps ho
    have := pulsesBelowOne_headD hpb hpm
    simp only [pulseMove]
    grind
  · -- a move of a deme born at `T`: its source is that deme
    right
    intro o' ho'
    rw [dpMoves_dpsEq, List.mem_append] at ho'
    rcases ho' with ho' | ho'
    · exact pulse_deme_cross c hx T o' ho' o ho
    · exact deme_target_ne_deme_source c T o' ho' o ho

end

/-! ### every `-es` keeps a positive fraction (from the first clause of `PulsesTame` only) -/

theorem splitPos_rawEvs3 {g : Graph} (c : Clauses g) (hx : MsExpressible g = true) (hpb : PulsesBelowOne g = true)
    {N0 : Q} {ev : Event Growth} (h : ev ∈ rawEvs g N0) : SplitPos ev := by
  cases ev with
  | split o t i p =>
    cases p with
    | fin y =>
      show 0 < y
      simp only [rawEvs, List.mem_append] at h
      rcases h with (h | h) | h
      · obtain ⟨_, _, _, _, h'⟩ := mem_sizeEvsAll h
        rcases h' with h' | h' <;> cases h'
      · rcases mem_ancEvs _ _ h with ⟨d, n', hd, h'⟩ | ⟨p, n', hp, h'⟩
        · have hdo := demeAncOk_of_valid c (mem_dps_deme hd)
          obtain ⟨ak, hak, hne, hp⟩ := split_mem_ancDemeEvs _ _ h'
          have hlt := (mem_zipIdx_anc hak).2
          cases hp
          exact tailProp_lt_one hdo.pos (by rw [hdo.len]; omega)
        · have hpm := mem_dps_pulse hp
          have hlt : p.proportions.headD 0 < 1 := pulsesBelowOne_headD hpb hpm
          simp only [pulseEvs, List.mem_cons, List.not_mem_nil, or_false] at h'
          rcases h' with h' | h'
          · cases h'
            grind
          · cases h'
      · have := migKind_migEvs h
        cases this
    | _ => trivial
  | _ => trivial

/-! ### every time group is a `GoodGroup3` -/

section
variable {g : Graph} (c : Clauses g) (hx : MsExpressible g = true) (hcs : ConstSizes g = true)
  (hpb : PulsesBelowOne g = true) {N0 : Q} (hN : 0 < N0)
include c hx hcs hpb hN

theorem cmdTame_finalEvs3 {e : Event Growth} (he : e ∈ finalEvs g N0) :
    (match cmdOfG e with
      | .split _ _ p => decide (0 < p) && decide (p ≤ 1)
      | _ => true) = true ∧ (isMove (cmdOfG e) = true → 0 < (cmdOfG e).t) := by
  refine cmdTame (evRT_finalEvs c hx hcs hN e he) ?_
  obtain ⟨e', he', rfl⟩ := List.mem_map.1 he
  exact splitPos_scale N0 (splitPos_rawEvs3 c hx hpb ((mem_sortBy _).1 he'))

/-- one time group of the command, read after the options `pre` -/
theorem goodGroup3_group {pre grp post : List (Event Growth)} (hF : finalEvs g N0 = pre ++ grp ++ post)
    (hne : grp ≠ []) (hsame : ∀ a ∈ grp, ∀ b ∈ grp, evT a = evT b)
    (hpre : ∀ a ∈ pre, ∀ b ∈ grp, evT a < evT b) (hpost : ∀ a ∈ grp, ∀ b ∈ post, evT a < evT b) :
    GoodGroup3 (g.demes.length + ((pre.map cmdOfG).filter isSplitC).length) (grp.map cmdOfG) = true := by
  obtain ⟨h0, tl, rfl⟩ : ∃ h0 tl, grp = h0 :: tl := by
    cases grp with
    | nil => exact absurd rfl hne
    | cons h0 tl => exact ⟨h0, tl, rfl⟩
  have hT : timeOf N0 (h0 :: tl) / (4 * N0) = evT h0 := by
    simp only [ToMs.timeOf, List.head?_cons, Option.map_some, Option.getD_some]
    exact mul_div_cancel_left4 hN _
  have b1 : ∀ a ∈ pre, evT a < timeOf N0 (h0 :: tl) / (4 * N0) := fun a ha => by
    rw [hT]; exact hpre a ha h0 List.mem_cons_self
  have b2 : ∀ a ∈ h0 :: tl, evT a = timeOf N0 (h0 :: tl) / (4 * N0) := fun a ha => by
    rw [hT]; exact hsame a ha h0 List.mem_cons_self
  have b3 : ∀ b ∈ post, timeOf N0 (h0 :: tl) / (4 * N0) < evT b := fun b hb => by
    rw [hT]; exact hpost h0 List.mem_cons_self b hb
  obtain ⟨_, hgrp⟩ := group_parts c hx hN (T := timeOf N0 (h0 :: tl)) hF b1 b2 b3
  have hcount : g.demes.length + ((pre.map cmdOfG).filter isSplitC).length
      = ancCount g.demes.length (dpsLt g (timeOf N0 (h0 :: tl))) := by
    have := count_pre c hx hN (T := timeOf N0 (h0 :: tl)) hF b1 b2 b3
    rw [runP_len] at this
    have hlen : (s0Of N0 g.demes.length).pops.length = g.demes.length := by simp [s0Of]
    rw [hlen] at this
    rw [count_splitC, this]
  have hmem : ∀ e ∈ h0 :: tl, e ∈ finalEvs g N0 := fun e he => by
    rw [hF]; exact List.mem_append_left _ (List.mem_append_right _ he)
  have hops : groupOps (g.demes.length + ((pre.map cmdOfG).filter isSplitC).length) ((h0 :: tl).map cmdOfG)
      = dpMoves g (dpsEq g (timeOf N0 (h0 :: tl))) := by
    rw [hcount]
    unfold groupOps
    rw [groupOpsAux_filter, hgrp, groupOps_ancEvs]
  unfold GoodGroup3
  rw [hops]
  simp only [Bool.and_eq_true]
  refine ⟨⟨?_, ?_⟩, ?_⟩
  · exact sourcesOld_dpMoves c hx _ (Nat.le_add_right _ _)
  · exact jnt_dpMoves c hx hpb _
  · rw [List.all_eq_true]
    intro cm hcm
    obtain ⟨e, he, rfl⟩ := List.mem_map.1 hcm
    exact (cmdTame_finalEvs3 c hx hcs hpb hN (hmem e he)).1

/-- the time groups `G`, read after the options `pre` -/
theorem goodGroups3_groups : ∀ (G : List (List (Event Growth))) (pre : List (Event Growth)),
    finalEvs g N0 = pre ++ G.flatten → GroupsOK G →
    (∀ a ∈ pre, ∀ grp ∈ G, ∀ b ∈ grp, evT a < evT b) →
    goodGroups3 (g.demes.length + ((pre.map cmdOfG).filter isSplitC).length) (G.map (List.map cmdOfG)) = true
  | [], _, _, _, _ => rfl
  | grp :: rest, pre, hF, hok, hsep => by
    have hinc := List.pairwise_cons.1 hok.inc
    obtain ⟨hne, hsame⟩ := hok.same grp List.mem_cons_self
    have hF' : finalEvs g N0 = pre ++ grp ++ rest.flatten := by rw [hF]; simp
    have hpost : ∀ a ∈ grp, ∀ b ∈ rest.flatten, evT a < evT b := by
      intro a ha b hb
      obtain ⟨g2, hg2, hb2⟩ := List.mem_flatten.1 hb
      exact hinc.1 g2 hg2 a ha b hb2
    have h1 := goodGroup3_group c hx hcs hpb hN hF' hne hsame
      (fun a ha b hb => hsep a ha grp List.mem_cons_self b hb) hpost
    have h2 := goodGroups3_groups rest (pre ++ grp) (by rw [hF'])
      ⟨hinc.2, fun g2 hg2 => hok.same g2 (List.mem_cons_of_mem _ hg2)⟩ (by
        intro a ha g2 hg2 b hb
        rcases List.mem_append.1 ha with ha | ha
        · exact hsep a ha g2 (List.mem_cons_of_mem _ hg2) b hb
        · exact hinc.1 g2 hg2 a ha b hb)
    simp only [List.map_append, List.filter_append, List.length_append, ← Nat.add_assoc] at h2
    simp only [List.map_cons, goodGroups3, Bool.and_eq_true]
    exact ⟨h1, h2⟩

end

/-- the command `to_ms` prints for a valid ms-expressible constant-size graph whose pulse proportions are below
one lies in `Tame3` — no condition on the order of same-time pulses -/
theorem tame3_finalEvs {g : Graph} (c : ToMs.Clauses g) (hx : MsExpressible g = true) (hcs : ConstSizes g = true)
    (hpb : PulsesBelowOne g = true) {N0 : Q} (hN : 0 < N0) (samples : Option (List Int)) :
    Demes.Spec.C08.Tame3 (prOf (ToMs.headerOf g samples) (ToMs.finalEvs g N0)) = true := by
  have hn : (prOf (headerOf g samples) (finalEvs g N0)).npop = g.demes.length := by
    show ((headerOf g samples).map (·.1)).getD 1 = g.demes.length
    unfold headerOf
    have := demes_pos c
    by_cases h1 : g.demes.length > 1
    · simp [h1]
    · simp [h1]; omega
  unfold Tame3
  rw [hn, cmdGroups_prOf _ _ (evRT_finalEvs c hx hcs hN) (sorted_finalEvs c hx hN)]
  have := goodGroups3_groups c hx hcs hpb hN (groupsByTime (finalEvs g N0)) []
    (by rw [flatten_groupsByTime]; rfl) (groupsOK_groupsByTime _ (sorted_byQ_finalEvs c hx hN))
    (fun a ha => by cases ha)
  simpa using this

/-- `tame3_finalEvs` for the command of `to_ms graph`: hypotheses on the graph itself -/
theorem tame3_toMs {graph : Graph} (hv : validGraph graph = true) (hx : MsExpressible graph = true)
    (hcs : ConstSizes graph = true) (hpb : PulsesBelowOne graph = true) {N0 : Q} (hN : 0 < N0)
    (samples : Option (List Int)) :
    Demes.Spec.C08.Tame3 (prOf (headerOf (inGenerations graph) samples) (finalEvs (inGenerations graph) N0)) = true :=
  tame3_finalEvs (clauses_of_valid (InGen.inGenerations_valid graph hv)) (by rw [expr_inGen]; exact hx)
    (by rw [constSizes_inGen]; exact hcs) (by rw [pulsesBelowOne_inGen_of_valid hv]; exact hpb) hN samples

/-! ### closed instances -/

/-- `chainGraph` (pulses `A → B`, `B → C` at one time) meets the hypotheses of `tame3_toMs`, not those of `tame_toMs` -/
theorem chainGraph_hyps3 :
    validGraph chainGraph = true ∧ MsExpressible chainGraph = true ∧ ConstSizes chainGraph = true
      ∧ PulsesBelowOne chainGraph = true ∧ PulsesTame chainGraph = false := by decide +kernel

example : PulsesBelowOne chainGraph = true ∧ PulsesTame chainGraph = false := by decide +kernel

/-- the command of `chainGraph` is in `Tame3` (by the theorem) -/
example : Demes.Spec.C08.Tame3 (prOf (headerOf (inGenerations chainGraph) none) (finalEvs (inGenerations chainGraph) 1)) = true :=
  tame3_toMs chainGraph_hyps3.1 chainGraph_hyps3.2.1 chainGraph_hyps3.2.2.1 chainGraph_hyps3.2.2.2.1 (by decide) none

/-- the command of `chainGraph` is in `Tame3` and not in `Tame'` (by evaluation) -/
theorem chainGraph_tame3_not_tame :
    Demes.Spec.C08.Tame3 (prOf (headerOf (inGenerations chainGraph) none) (finalEvs (inGenerations chainGraph) 1)) = true
      ∧ Demes.Spec.C08.Tame' (prOf (headerOf (inGenerations chainGraph) none) (finalEvs (inGenerations chainGraph) 1)) = false := by
  decide +kernel

/-- the same for `tameGraph chainPulses` (a deme with two ancestors born at the time of the chain, a migration) -/
theorem tameGraph_chain_tame3_not_tame :
    validGraph (tameGraph chainPulses) = true ∧ MsExpressible (tameGraph chainPulses) = true
      ∧ ConstSizes (tameGraph chainPulses) = true ∧ PulsesBelowOne (tameGraph chainPulses) = true
      ∧ PulsesTame (tameGraph chainPulses) = false
      ∧ Demes.Spec.C08.Tame3 (prOf (headerOf (inGenerations (tameGraph chainPulses)) none)
          (finalEvs (inGenerations (tameGraph chainPulses)) 1)) = true
      ∧ Demes.Spec.C08.Tame' (prOf (headerOf (inGenerations (tameGraph chainPulses)) none)
          (finalEvs (inGenerations (tameGraph chainPulses)) 1)) = false := by decide +kernel

/-- **boundary**: a pulse of proportion 1 (F6) is outside `PulsesBelowOne`, and its command outside `Tame3`
(`-es t i 0.0`: the fraction kept is not positive) -/
theorem tame3_needs_pulse_below_one :
    validGraph (tameGraph fullPulse) = true ∧ MsExpressible (tameGraph fullPulse) = true
      ∧ ConstSizes (tameGraph fullPulse) = true ∧ PulsesBelowOne (tameGraph fullPulse) = false
      ∧ Demes.Spec.C08.Tame3 (prOf (headerOf (inGenerations (tameGraph fullPulse)) none)
          (finalEvs (inGenerations (tameGraph fullPulse)) 1)) = false := by decide +kernel

#print axioms sourcesOld_dpMoves
#print axioms jnt_dpMoves
#print axioms splitPos_rawEvs3
#print axioms goodGroup3_group
#print axioms goodGroups3_groups
#print axioms tame3_finalEvs
#print axioms pulsesBelowOne_inGen_of_valid
#print axioms tame3_toMs
#print axioms chainGraph_hyps3
#print axioms chainGraph_tame3_not_tame
#print axioms tameGraph_chain_tame3_not_tame
#print axioms tame3_needs_pulse_below_one

end Demes.Proofs.MsRT
