/-
  C09, first sentence — the command `to_ms` prints for a valid ms-expressible graph of constant
  sizes lies in the growth-free fragment `EvRT` (`evRT_finalEvs`); transport of `ConstSizes` /
  `PulsesTame` along `inGenerations`.
-/
import DemesVerif.Proofs.MsRTGroups
import DemesVerif.Proofs.ToMsSem
set_option linter.unusedSimpArgs false
set_option linter.unusedVariables false
namespace Demes.Proofs.MsRT
open Demes Demes.Ms Demes.Spec Demes.Spec.C07 Demes.Spec.C09
open Demes.Spec.MsSem (Cmd Parsed)
open Demes.Proofs.ToMs

/-! ### scaling keeps the fragment -/

theorem evRT_scale {N0 : Q} (hN : 0 < N0) {e : Event Growth} (h : EvRT e) : EvRT (scaleEv N0 e) := by
  have h4 : (0 : Q) < 4 * N0 := by grind
  cases e with
  | popSizeChange o t i x =>
    obtain ⟨ho, hi, q, y, rfl, hq, rfl, hy⟩ := h
    exact ⟨ho, hi, q / (4 * N0), y, rfl, (InGen.div_nonneg h4).2 hq, rfl, hy⟩
  | migEntryChange o t i j x =>
    obtain ⟨ho, hi, hj, q, y, rfl, hq, rfl, hy⟩ := h
    exact ⟨ho, hi, hj, q / (4 * N0), y, rfl, (InGen.div_nonneg h4).2 hq, rfl, hy⟩
  | split o t i p =>
    obtain ⟨ho, hi, q, y, rfl, hq, rfl, hy0, hy1⟩ := h
    exact ⟨ho, hi, q / (4 * N0), y, rfl, (InGen.div_pos h4).2 hq, rfl, hy0, hy1⟩
  | join o t i j =>
    obtain ⟨ho, hi, hj, q, rfl, hq⟩ := h
    exact ⟨ho, hi, hj, q / (4 * N0), rfl, (InGen.div_pos h4).2 hq⟩
  | growthRateChange => exact h.elim
  | popGrowthRateChange => exact h.elim
  | sizeChange => exact h.elim
  | migRateChange => exact h.elim
  | migMatrixChange => exact h.elim

/-! ### the size options of a graph of constant sizes -/

theorem growthOf_const (N0 : Q) {e : Epoch} (h : e.startSize = e.endSize) : growthOf N0 e = .zero := by
  simp [growthOf, h]

/-- with constant sizes `demeSizeEvents` emits `-n` / `-en` only -/
theorem mem_sizeEvs_const {N0 : Q} {j : Int} {ev : Event Growth} :
    ∀ (es : List Epoch) (size : Q), (∀ e ∈ es, e.startSize = e.endSize) → ev ∈ sizeEvs N0 j size .zero es →
      ∃ e ∈ es, ev = .popSizeChange "" (.fin e.endTime) j (.fin (e.endSize / N0))
  | [], _, _, h => by simp [sizeEvs] at h
  | e :: es, size, hc, h => by
    have hg := growthOf_const N0 (hc e List.mem_cons_self)
    have hz : Growth.zero.eq Growth.zero = true := rfl
    simp only [sizeEvs, hg, ite_self, hz, Bool.not_true, Bool.false_eq_true, if_false, List.append_nil,
      List.mem_append] at h
    rcases h with h | h
    · by_cases h1 : size = e.endSize
      · simp [h1] at h
      · simp only [ne_eq, h1, not_false_eq_true, if_true, List.mem_singleton] at h
        exact ⟨e, List.mem_cons_self, h⟩
    · obtain ⟨e', he', h'⟩ := mem_sizeEvs_const es _ (fun x hx => hc x (List.mem_cons_of_mem _ hx)) h
      exact ⟨e', List.mem_cons_of_mem _ he', h'⟩

theorem constSizes_mem {g : Graph} (hcs : ConstSizes g = true) {d : Deme} (hd : d ∈ g.demes) {e : Epoch}
    (he : e ∈ d.epochs) : e.startSize = e.endSize := by
  simp only [ConstSizes, List.all_eq_true, decide_eq_true_eq] at hcs
  exact hcs d hd e he

/-! ### every option of the closed form is in the fragment -/

theorem key_pos {g : Graph} (c : Clauses g) {x : DemeOrPulse} (hx : InGraph g x) {q : Q} (hk : x.key = .fin q) :
    0 < q := by
  cases x with
  | deme d =>
    have hd : d ∈ g.demes := hx
    have h3 := c.h3
    simp only [v3, List.all_eq_true, Bool.and_eq_true, decide_eq_true_eq, beq_iff_eq] at h3
    have := (h3 d hd).2
    simp only [DemeOrPulse.key] at hk
    rw [hk] at this
    exact this
  | pulse p =>
    have hp : p ∈ g.pulses := hx
    obtain ⟨_, _, _, hpos, _⟩ := pulse_facts c hp
    simp only [DemeOrPulse.key, ETime.fin.injEq] at hk
    rw [← hk]; exact hpos

theorem evRT_rawEvs {g : Graph} (c : Clauses g) (hx : MsExpressible g = true) (hcs : ConstSizes g = true)
    {N0 : Q} (hN : 0 < N0) {ev : Event Growth} (h : ev ∈ rawEvs g N0) : EvRT ev := by
  simp only [rawEvs, List.mem_append] at h
  rcases h with (h | h) | h
  · simp only [sizeEvsAll, List.mem_flatMap] at h
    obtain ⟨dj, hdj, h⟩ := h
    have hm : dj.1 ∈ g.demes := mem_zipIdx_fst hdj
    obtain ⟨e, he, rfl⟩ := mem_sizeEvs_const _ _
      (fun e he => constSizes_mem hcs hm (List.mem_reverse.1 he)) h
    have hok := epochOk_of_valid c hx hm (List.mem_reverse.1 he)
    have hx0 : 0 ≤ e.endSize / N0 := by
      have := (InGen.div_pos (a := e.endSize) hN).2 hok.endSize; grind
    exact ⟨rfl, by omega, e.endTime, e.endSize / N0, rfl, hok.endTime, rfl, hx0⟩
  · have hgood := evGood_ancEvs _ _ (dpOk_of_valid c hx) h
    have hmem := (goodXs_dps c).mem
    have hok := ancEvOk_ancEvs c hx (dps g) g.demes.length (Nat.le_refl _) hmem h
    obtain ⟨x, hxm, q, hk, ht⟩ := ancEvs_key (dps g) g.demes.length (dpOk_of_valid c hx) h
    have hq : 0 < q := key_pos c (hmem x hxm) hk
    have ho := hgood.opt
    cases ev with
    | split o t i p =>
      obtain ⟨_, ⟨y, rfl, hy0, hy1⟩, hi, _⟩ := hok
      simp only [Event.t] at ht
      exact ⟨ho, hi, q, y, ht, hq, rfl, hy0, hy1⟩
    | join o t i j =>
      obtain ⟨_, hi, hj, _, _⟩ := hok
      simp only [Event.t] at ht
      exact ⟨ho, hi, hj, q, ht, hq⟩
    | _ => exact hok.elim
  · simp only [migEvs, List.mem_append, migOffs, migOns, List.mem_map, List.mem_filter] at h
    rcases h with ⟨m, ⟨hm, hc⟩, rfl⟩ | ⟨m, hm, rfl⟩
    · have hmo := migOk_of_valid c hm
      cases hst : m.startTime with
      | inf => simp [offCond, hst, ETime.isInf] at hc
      | fin t =>
        have h1 := idOf_pos g m.dest
        have h2 := idOf_pos g m.source
        refine ⟨rfl, by omega, by omega, t, 0, by simp [hst, Num.ofETime], hmo.start t hst, rfl, by grind⟩
    · have hmo := migOk_of_valid c hm
      have h1 := idOf_pos g m.dest
      have h2 := idOf_pos g m.source
      have hr : 0 ≤ 4 * N0 * m.rate := by
        have h4 : 0 ≤ 4 * N0 := by grind
        exact Rat.mul_nonneg h4 hmo.rate
      exact ⟨rfl, by omega, by omega, m.endTime, _, rfl, hmo.endTime, rfl, hr⟩

/-- every event of the growth-free closed form is in the fragment `EvRT` -/
theorem evRT_finalEvs {g : Graph} (c : ToMs.Clauses g) (hx : MsExpressible g = true) (hcs : ConstSizes g = true)
    {N0 : Q} (hN : 0 < N0) : ∀ e ∈ ToMs.finalEvs g N0, EvRT e := by
  intro e he
  obtain ⟨e', he', rfl⟩ := List.mem_map.1 he
  exact evRT_scale hN (evRT_rawEvs c hx hcs hN ((mem_sortBy _).1 he'))

#print axioms evRT_finalEvs

end Demes.Proofs.MsRT
