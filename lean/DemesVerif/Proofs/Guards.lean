/-
  Support for `Theorems/TablesGuards*.lean` (the semantic tie of the library's numeric guard
  conditions to the Model).  Nothing here depends on `Generated/Guards.lean`.

  * simp lemmas for the order of `ETime` and the coercions `Num.ofETime`, `Num.fin`
    (validated values seen as document numbers: never NaN);
  * `guard_close`: the closing tactic of the pointwise equivalences;
  * `…With`: each Model function that *inlines* a guard, written once more with the guard
    abstracted to a parameter.  The theorems say `Model function = …With <generated guards>`,
    for all inputs, so they are statements about the Model's own definitions: if either the
    Model function or the source's guard changes meaning, they stop compiling.  The `…With`
    functions themselves are not trusted for anything (they only occur on the right-hand side of
    those equations); `…With_self` below shows each is the Model function when the parameters are
    the Model's own tests.
-/
import DemesVerif.Model.NumGuards
import DemesVerif.Model.Resolve
import DemesVerif.Model.Views
namespace Demes.Proofs.Guards
open Demes Obj
set_option linter.unusedSimpArgs false

/-! ### order of `ETime`, coercions -/

theorem efin_le_fin (a b : Q) : (ETime.fin a ≤ ETime.fin b) ↔ a ≤ b := Iff.rfl
theorem einf_le_fin (a : Q) : (ETime.inf ≤ ETime.fin a) ↔ False := Iff.rfl
theorem e_le_inf (x : ETime) : (x ≤ ETime.inf) ↔ True := by cases x <;> exact Iff.rfl
theorem efin_lt_fin (a b : Q) : (ETime.fin a < ETime.fin b) ↔ a < b := Iff.rfl
theorem efin_lt_inf (a : Q) : (ETime.fin a < ETime.inf) ↔ True := Iff.rfl
theorem einf_lt (x : ETime) : (ETime.inf < x) ↔ False := by cases x <;> exact Iff.rfl

theorem emin_fin_fin (a b : Q) : ETime.min (.fin a) (.fin b) = if a ≤ b then .fin a else .fin b := by
  simp only [ETime.min, efin_le_fin]
theorem emin_fin_inf (a : Q) : ETime.min (.fin a) .inf = .fin a := by
  simp only [ETime.min, e_le_inf, if_true]
theorem emin_inf_fin (a : Q) : ETime.min .inf (.fin a) = .fin a := by
  simp only [ETime.min, einf_le_fin, if_false]
theorem emin_inf_inf : ETime.min .inf .inf = .inf := by
  simp only [ETime.min, e_le_inf, if_true]

/-- a validated time is never NaN -/
theorem ofETime_not_nan (t : ETime) : (Num.ofETime t).isNan = false := by cases t <;> rfl
/-- a validated rational is never NaN -/
theorem fin_not_nan (q : Q) : (Num.fin q).isNan = false := rfl
/-- `toETime` and `Num.ofETime` are inverse on times -/
theorem toETime_ofETime (t : ETime) : toETime (Num.ofETime t) = .ok t := by cases t <;> rfl
theorem toQ_fin (q : Q) : toQ (Num.fin q) = .ok q := rfl

/-! ### the comparisons on constructors (all by `rfl`; the proofs below never unfold `Num.lt`, `Num.le`,
`Num.eqIEEE`, … through their equation lemmas, so that no auxiliary matcher lemma is generated in
more than one module) -/

section rfl_lemmas
variable (a b : Q)
theorem lt_fin_fin : Num.lt (.fin a) (.fin b) = decide (a < b) := rfl
theorem lt_fin_pinf : Num.lt (.fin a) .pinf = true := rfl
theorem lt_fin_ninf : Num.lt (.fin a) .ninf = false := rfl
theorem lt_fin_nan : Num.lt (.fin a) .nan = false := rfl
theorem lt_pinf_fin : Num.lt .pinf (.fin b) = false := rfl
theorem lt_pinf_pinf : Num.lt .pinf .pinf = false := rfl
theorem lt_pinf_ninf : Num.lt .pinf .ninf = false := rfl
theorem lt_pinf_nan : Num.lt .pinf .nan = false := rfl
theorem lt_ninf_fin : Num.lt .ninf (.fin b) = true := rfl
theorem lt_ninf_pinf : Num.lt .ninf .pinf = true := rfl
theorem lt_ninf_ninf : Num.lt .ninf .ninf = false := rfl
theorem lt_ninf_nan : Num.lt .ninf .nan = false := rfl
theorem lt_nan_fin : Num.lt .nan (.fin b) = false := rfl
theorem lt_nan_pinf : Num.lt .nan .pinf = false := rfl
theorem lt_nan_ninf : Num.lt .nan .ninf = false := rfl
theorem lt_nan_nan : Num.lt .nan .nan = false := rfl
theorem le_fin_fin : Num.le (.fin a) (.fin b) = decide (a ≤ b) := rfl
theorem le_fin_pinf : Num.le (.fin a) .pinf = true := rfl
theorem le_fin_ninf : Num.le (.fin a) .ninf = false := rfl
theorem le_fin_nan : Num.le (.fin a) .nan = false := rfl
theorem le_pinf_fin : Num.le .pinf (.fin b) = false := rfl
theorem le_pinf_pinf : Num.le .pinf .pinf = true := rfl
theorem le_pinf_ninf : Num.le .pinf .ninf = false := rfl
theorem le_pinf_nan : Num.le .pinf .nan = false := rfl
theorem le_ninf_fin : Num.le .ninf (.fin b) = true := rfl
theorem le_ninf_pinf : Num.le .ninf .pinf = true := rfl
theorem le_ninf_ninf : Num.le .ninf .ninf = true := rfl
theorem le_ninf_nan : Num.le .ninf .nan = false := rfl
theorem le_nan_fin : Num.le .nan (.fin b) = false := rfl
theorem le_nan_pinf : Num.le .nan .pinf = false := rfl
theorem le_nan_ninf : Num.le .nan .ninf = false := rfl
theorem le_nan_nan : Num.le .nan .nan = false := rfl
theorem eqIEEE_fin_fin : Num.eqIEEE (.fin a) (.fin b) = decide (a = b) := rfl
theorem eqIEEE_fin_pinf : Num.eqIEEE (.fin a) .pinf = false := rfl
theorem eqIEEE_fin_ninf : Num.eqIEEE (.fin a) .ninf = false := rfl
theorem eqIEEE_fin_nan : Num.eqIEEE (.fin a) .nan = false := rfl
theorem eqIEEE_pinf_fin : Num.eqIEEE .pinf (.fin b) = false := rfl
theorem eqIEEE_pinf_pinf : Num.eqIEEE .pinf .pinf = true := rfl
theorem eqIEEE_pinf_ninf : Num.eqIEEE .pinf .ninf = false := rfl
theorem eqIEEE_pinf_nan : Num.eqIEEE .pinf .nan = false := rfl
theorem eqIEEE_ninf_fin : Num.eqIEEE .ninf (.fin b) = false := rfl
theorem eqIEEE_ninf_pinf : Num.eqIEEE .ninf .pinf = false := rfl
theorem eqIEEE_ninf_ninf : Num.eqIEEE .ninf .ninf = true := rfl
theorem eqIEEE_ninf_nan : Num.eqIEEE .ninf .nan = false := rfl
theorem eqIEEE_nan_fin : Num.eqIEEE .nan (.fin b) = false := rfl
theorem eqIEEE_nan_pinf : Num.eqIEEE .nan .pinf = false := rfl
theorem eqIEEE_nan_ninf : Num.eqIEEE .nan .ninf = false := rfl
theorem eqIEEE_nan_nan : Num.eqIEEE .nan .nan = false := rfl
theorem isInf_fin : Num.isInf (.fin a) = false := rfl
theorem isNan_fin : Num.isNan (.fin a) = false := rfl
theorem isInf_pinf : Num.isInf .pinf = true := rfl
theorem isNan_pinf : Num.isNan .pinf = false := rfl
theorem isInf_ninf : Num.isInf .ninf = true := rfl
theorem isNan_ninf : Num.isNan .ninf = false := rfl
theorem isInf_nan : Num.isInf .nan = false := rfl
theorem isNan_nan : Num.isNan .nan = true := rfl
theorem ofETime_fin : Num.ofETime (.fin a) = .fin a := rfl
theorem ofETime_inf : Num.ofETime .inf = .pinf := rfl
theorem eisInf_fin : (ETime.fin a).isInf = false := rfl
theorem eisInf_inf : ETime.inf.isInf = true := rfl
theorem toQ_fin' : toQ (.fin a) = .ok a := rfl
theorem toQ_pinf : toQ .pinf = valueErr "must be finite" := rfl
theorem toQ_ninf : toQ .ninf = valueErr "must be finite" := rfl
theorem toQ_nan : toQ .nan = valueErr "must be finite" := rfl
theorem toETime_fin : toETime (.fin a) = .ok (.fin a) := rfl
theorem toETime_pinf : toETime .pinf = .ok .inf := rfl
theorem toETime_ninf : toETime .ninf = valueErr "must be a time" := rfl
theorem toETime_nan : toETime .nan = valueErr "must be a time" := rfl
theorem asNumRaw_num (n : Num) : (Value.num n).asNumRaw? = some n := rfl
theorem instList_list (xs : List Value) : instList (.list xs) = .ok xs := rfl
theorem isOk_ok {ε α} (x : α) : (Except.ok x : Except ε α).isOk = true := rfl
theorem isOk_error {ε α} (e : ε) : (Except.error e : Except ε α).isOk = false := rfl
theorem num_zero : Num.zero = .fin 0 := rfl
theorem num_one : Num.one = .fin 1 := rfl
end rfl_lemmas

/-- on numbers that are not NaN, IEEE `==` is equality -/
theorem eqIEEE_eq_of_not_nan (x y : Num) (hy : y.isNan = false) : Num.eqIEEE x y = decide (x = y) := by
  cases x <;> cases y <;> simp_all [
    eqIEEE_fin_fin, eqIEEE_fin_pinf, eqIEEE_fin_ninf, eqIEEE_fin_nan, eqIEEE_pinf_fin,
    eqIEEE_pinf_pinf, eqIEEE_pinf_ninf, eqIEEE_pinf_nan, eqIEEE_ninf_fin, eqIEEE_ninf_pinf,
    eqIEEE_ninf_ninf, eqIEEE_ninf_nan, eqIEEE_nan_fin, eqIEEE_nan_pinf, eqIEEE_nan_ninf,
    eqIEEE_nan_nan, isNan_fin, isNan_pinf, isNan_ninf, isNan_nan]

/-- the vocabulary of the generated guards and of the Model's tests on constructors -/
macro "guard_simp" : tactic => `(tactic|
  simp_all [
    lt_fin_fin, lt_fin_pinf, lt_fin_ninf, lt_fin_nan, lt_pinf_fin, lt_pinf_pinf, lt_pinf_ninf,
    lt_pinf_nan, lt_ninf_fin, lt_ninf_pinf, lt_ninf_ninf, lt_ninf_nan, lt_nan_fin, lt_nan_pinf,
    lt_nan_ninf, lt_nan_nan, le_fin_fin, le_fin_pinf, le_fin_ninf, le_fin_nan, le_pinf_fin,
    le_pinf_pinf, le_pinf_ninf, le_pinf_nan, le_ninf_fin, le_ninf_pinf, le_ninf_ninf, le_ninf_nan,
    le_nan_fin, le_nan_pinf, le_nan_ninf, le_nan_nan, eqIEEE_fin_fin, eqIEEE_fin_pinf,
    eqIEEE_fin_ninf, eqIEEE_fin_nan, eqIEEE_pinf_fin, eqIEEE_pinf_pinf, eqIEEE_pinf_ninf,
    eqIEEE_pinf_nan, eqIEEE_ninf_fin, eqIEEE_ninf_pinf, eqIEEE_ninf_ninf, eqIEEE_ninf_nan,
    eqIEEE_nan_fin, eqIEEE_nan_pinf, eqIEEE_nan_ninf, eqIEEE_nan_nan, isInf_fin, isNan_fin,
    isInf_pinf, isNan_pinf, isInf_ninf, isNan_ninf, isInf_nan, isNan_nan, ofETime_fin, ofETime_inf,
    eisInf_fin, eisInf_inf, toQ_fin', toQ_pinf, toQ_ninf, toQ_nan, toETime_fin, toETime_pinf,
    toETime_ninf, toETime_nan, asNumRaw_num, instList_list, isOk_ok, isOk_error, num_zero, num_one,
    Num.pymax, Num.pymin, qmax, efin_le_fin, einf_le_fin, e_le_inf, efin_lt_fin, efin_lt_inf, einf_lt,
    emin_fin_fin, emin_fin_inf, emin_inf_fin, emin_inf_inf, valueErr, typeErr, pure, Except.pure])

/-- Closes a pointwise equivalence between a generated guard and a Model test once the generated
function has been unfolded and the `ETime` / `Num` variables split into cases.  It does not look
at the shape of the generated expression (so that an equivalent rewrite of the source still
proves): evaluate the comparisons on the constructors, split remaining `if`s, finish with linear
arithmetic. -/
macro "guard_close" : tactic => `(tactic| (
  try guard_simp
  repeat' (split <;> try guard_simp)
  all_goals (try grind)))

/-! ### Model functions with their guards abstracted -/

/-- `Demes.addEpoch` with the three tests of `Epoch.__attrs_post_init__` abstracted -/
def addEpochWith (gOrder : Num → Num → Bool) (gInf : Num → Num → Num → Bool) (gConst : String → Num → Num → Bool)
    (demeStart : ETime) (epochs : List Epoch) (e : Obj) : Except Err (List Epoch) := do
  let endTimeV ← match lookup "end_time" e with
    | some v => pure v
    | none => keyErr "end_time"
  let startSizeV := lookupNN "start_size" e
  let endSizeV := lookupNN "end_size" e
  let sizeFunctionV := lookupNN "size_function" e
  let selfingV := (lookup "selfing_rate" e).getD (.num (.fin 0))
  let cloningV := (lookup "cloning_rate" e).getD (.num (.fin 0))
  let (startTime, startSizeV', endSizeV') ← match epochs.getLast? with
    | none =>
      match startSizeV, endSizeV with
      | none, none => keyErr "first epoch must have start_size or end_size"
      | some s, none => pure (demeStart, s, s)
      | none, some e => pure (demeStart, e, e)
      | some s, some e => pure (demeStart, s, e)
    | some prev =>
      let s := startSizeV.getD (.num (.fin prev.endSize))
      let e := endSizeV.getD s
      pure (ETime.fin prev.endTime, s, e)
  let endTime ← nonNegFiniteQ endTimeV
  let startSize ← posFiniteQ startSizeV'
  let endSize ← posFiniteQ endSizeV'
  let sizeFunction ← match sizeFunctionV with
    | none => pure (if startSize = endSize then "constant" else "exponential")
    | some (.str s) => if sizeFunctions.contains s then pure s else valueErr "size_function"
    | some _ => valueErr "size_function"
  let selfingRate ← unitQ selfingV
  let cloningRate ← unitQ cloningV
  if gOrder (Num.ofETime startTime) (Num.fin endTime) then valueErr "must have start_time > end_time"
  if gInf (Num.ofETime startTime) (Num.fin startSize) (Num.fin endSize) then
    valueErr "if start time is inf, must be a constant size epoch" else
  if gConst sizeFunction (Num.fin startSize) (Num.fin endSize) then
    valueErr "start_size != end_size, but size_function is constant"
  pure (epochs ++ [{ startTime, endTime, startSize, endSize, sizeFunction, selfingRate, cloningRate }])

/-- `Demes.addDemeHeader` with the two numeric tests of `Graph._add_deme` abstracted
(`gNoAnc (len ancestors) start_time`, `gAlive anc.start_time start_time anc.end_time`) -/
def addDemeHeaderWith (gNoAnc : Nat → Num → Bool) (gAlive : Num → Num → Num → Bool)
    (g : Graph) (nameV descriptionV : Value)
    (ancestorsV proportionsV startTimeV : Option Value) : Except Err Deme := do
  let name ← match nameV with
    | .str s => pure s
    | _ => typeErr "deme name must be a str"
  if g.hasName name then valueErr s!"{name}: field 'name' must be unique"
  let ancVals ← match ancestorsV with
    | none => pure []
    | some v => instList v
  let ancestors ← ancVals.mapM (existingName g)
  let propVals : Option Value := match proportionsV with
    | some v => some v
    | none => none
  let startTime ← match startTimeV with
    | some v => do
        let n ← intOrFloat v
        pure n
    | none =>
      match ancestors with
      | [] => pure Num.pinf
      | [a] => do let d ← getDeme g a; pure (Num.fin d.endTime)
      | _ => valueErr "field 'start_time' not found, but is required for demes with multiple ancestors"
  if gNoAnc ancestors.length startTime then
    valueErr "field 'ancestors' not found, but is required for demes with a finite 'start_time'"
  ancestors.forM (fun a => do
    let anc ← getDeme g a
    if gAlive (Num.ofETime anc.startTime) startTime (Num.fin anc.endTime) then
      valueErr s!"start_time is outside the interval of existence for ancestor '{a}'"
    else pure ())
  if !isIdentifier name then valueErr s!"Invalid deme name '{name}'"
  let description ← instStr descriptionV
  vPositive startTime
  let st ← toETime startTime
  if !ancestors.Nodup then valueErr "duplicate ancestors"
  if ancestors.contains name then valueErr "deme cannot be its own ancestor"
  let proportions ← match propVals with
    | none => pure (if ancestors.length = 1 then [(1 : Q)] else [])
    | some v => do
      let xs ← instList v
      let ns ← xs.mapM intOrFloat
      let qs ← ns.mapM (fun n => do vUnitInterval n; vPositive n; toQ n)
      pure qs
  if !proportions.isEmpty && !proportionsSumOk proportions then
    valueErr "ancestry proportions must sum to 1.0"
  if ancestors.length ≠ proportions.length then
    valueErr "ancestors and proportions have different lengths" else
  pure { name, description, startTime := st, ancestors, proportions, epochs := [] }

/-- `Demes.addAsymmetricMigration` with the two tests of `AsymmetricMigration.__attrs_post_init__`
and the overlap test of `Graph._add_asymmetric_migration` abstracted
(`gOverlap other.source migration.source other.dest migration.dest other.start_time
migration.end_time migration.start_time other.end_time`) -/
def addAsymmetricMigrationWith (gSame : String → String → Bool) (gOrder : Num → Num → Bool)
    (gOverlap : String → String → String → String → Num → Num → Num → Num → Bool)
    (g : Graph) (sourceV destV rateV : Value)
    (startTimeV endTimeV : Option Value) : Except Err Graph := do
  let source ← existingName g sourceV
  let dest ← existingName g destV
  let (lo, hi) ← timeIntersection g source dest startTimeV
  let startV := startTimeV.getD (.num (Num.ofETime hi))
  let endV ← match endTimeV with
    | none => pure (Value.num (.fin lo))
    | some v => do let _ ← timeIntersection g source dest (some v); pure v
  if !isIdentifier source then valueErr "invalid name"
  if !isIdentifier dest then valueErr "invalid name"
  let startTime ← nonNegTime startV
  let endTime ← nonNegFiniteQ endV
  let rate ← unitQ rateV
  if gSame source dest then valueErr "source and dest cannot be the same deme"
  if gOrder (Num.ofETime startTime) (Num.fin endTime) then valueErr "must have start_time > end_time"
  if g.migrations.any (fun o => gOverlap o.source source o.dest dest
      (Num.ofETime o.startTime) (Num.fin endTime) (Num.ofETime startTime) (Num.fin o.endTime)) then
    valueErr s!"multiple migrations defined for source={source}, dest={dest}"
  pure { g with migrations := g.migrations ++ [{ source, dest, startTime, endTime, rate }] }

/-- `Demes.addPulse` with the two `==` tests of `Graph._add_pulse` (`gDestEnd time self[dest].end_time`,
`gSrcStart time self[source].start_time`; a `time` that is not a number raised earlier) and the sum
test of `Pulse.__attrs_post_init__` abstracted -/
def addPulseWith (gDestEnd gSrcStart : Num → Num → Bool) (gSum : Num → Bool)
    (g : Graph) (sourcesV destV timeV proportionsV : Value) : Except Err Graph := do
  let srcVals ← instList sourcesV
  let sources ← srcVals.mapM (existingName g)
  let dest ← existingName g destV
  sources.forM (fun s => discard (timeIntersection g s dest (some timeV)))
  let destDeme ← getDeme g dest
  let tRaw := timeV.asNumRaw?
  if tRaw.any (fun t => gDestEnd t (Num.fin destDeme.endTime)) then valueErr "invalid pulse at dest's end_time"
  sources.forM (fun s => do
    let sd ← getDeme g s
    if tRaw.any (fun t => gSrcStart t (Num.ofETime sd.startTime)) then
      valueErr "invalid pulse at source's start_time" else pure ())
  if !(sources.all isIdentifier) then valueErr "invalid name"
  if sources.isEmpty then valueErr "sources must have non-zero length"
  if !isIdentifier dest then valueErr "invalid name"
  let time ← posFiniteQ timeV
  let propVals ← instList proportionsV
  let proportions ← propVals.mapM unitExLoQ
  if sources.contains dest then valueErr "source cannot be the same as dest"
  if !sources.Nodup then valueErr "source cannot be repeated in sources"
  if sources.length ≠ proportions.length then valueErr "sources and proportions must have the same length"
  if gSum (Num.fin (qsum proportions)) then valueErr "proportions must sum to less than one" else
  pure { g with pulses := g.pulses ++ [{ sources, dest, time, proportions }] }

/-- `Demes.sweep` (inner loop of `Graph.migration_matrices`) with its three tests abstracted
(`gBreak start_time migration.end_time`, `gActive end_time migration.start_time`,
`gOccupied mm_list[k][dest_id][source_id]`) -/
def sweepWith (gBreak gActive : Num → Num → Bool) (gOccupied : Num → Bool)
    (mig : Migration) (src dst : Nat) : ETime → List Q → List Matrix → Except Err (List Matrix)
  | _, [], mms => pure mms
  | _, _ :: _, [] => pure []
  | start, e :: es, mm :: mms =>
    if gBreak (Num.ofETime start) (Num.fin mig.endTime) then pure (mm :: mms)
    else do
      let mm' ←
        if gActive (Num.fin e) (Num.ofETime mig.startTime) then
          (if gOccupied (Num.fin (mm.get dst src)) then
             valueErr s!"multiple migrations defined for source={mig.source}, dest={mig.dest}"
           else pure (mm.set dst src mig.rate))
        else pure mm
      let rest ← sweepWith gBreak gActive gOccupied mig src dst (ETime.fin e) es mms
      pure (mm' :: rest)

/-- `Demes.migrationMatrices` over `sweepWith` -/
def migrationMatricesWith (gBreak gActive : Num → Num → Bool) (gOccupied : Num → Bool)
    (g : Graph) : Except Err (List Matrix × List Q) := do
  let ends := mmEndTimes g.migrations
  let n := g.demes.length
  let init : List Matrix := List.replicate ends.length (zeroMatrix n)
  let mms ← g.migrations.foldlM (fun mms mig =>
    match g.demeId? mig.source, g.demeId? mig.dest with
    | some s, some d => sweepWith gBreak gActive gOccupied mig s d ETime.inf ends mms
    | _, _ => keyErr "deme_id") init
  pure (mms, ends)

/-- `Demes.checkMigrationRates` with the row test abstracted (`gRates row_sum isclose(row_sum, 1)`) -/
def checkMigrationRatesWith (gRates : Num → Bool → Bool) (g : Graph) : Except Err Unit := do
  let (mms, _) ← migrationMatrices g
  mms.forM (fun mm => mm.forM (fun row =>
    let s := rowSum row
    if gRates (Num.fin s) (iscloseQ s 1 relTol 0) then
      valueErr "sum of migration rates into deme is greater than 1"
    else pure ()))

/-- `Demes.sizeAt` with its first three tests abstracted (`gInf time self.start_time`,
`gEpoch epoch.start_time time epoch.end_time`,
`gEnd isclose(time, epoch.end_time) epoch.size_function epoch.start_size epoch.end_size`) -/
def sizeAtWith (gInf : Num → Num → Bool) (gEpoch : Num → Num → Num → Bool)
    (gEnd : Bool → String → Num → Num → Bool) (d : Deme) (t : ETime) : SizeResult :=
  if gInf (Num.ofETime t) (Num.ofETime d.startTime) then
    match d.epochs.head? with
    | some e => .exact e.startSize
    | none => .indexError
  else
    match d.epochs.find? (fun e => gEpoch (Num.ofETime e.startTime) (Num.ofETime t) (Num.fin e.endTime)) with
    | none => .exact 0
    | some e =>
      match t with
      | .inf => .exact 0
      | .fin tq =>
        if gEnd (closeDefault tq e.endTime) e.sizeFunction (Num.fin e.startSize) (Num.fin e.endSize) then
          .exact e.endSize
        else match e.startTime with
          | .inf => if e.sizeFunction = "exponential" || e.sizeFunction = "linear" then .nan else .indexError
          | .fin s =>
            let dt := (s - tq) / (s - e.endTime)
            if e.sizeFunction = "exponential" then .expo e.startSize e.endSize dt
            else if e.sizeFunction = "linear" then .exact (e.startSize + (e.endSize - e.startSize) * dt)
            else .indexError

/-- the validator text of `defaults.pulse.proportions` (it ends in `sum_less_than_one`) -/
def txtPulseProportions : String :=
  "attr.validators.deep_iterable(member_validator=attr.validators.and_(int_or_float, unit_interval_exclusive_lo), iterable_validator=attr.validators.and_(attr.validators.instance_of(list), nonzero_len, sum_less_than_one))"

/-! ### a small graph for the examples: `a` lives on (∞, 0] with size 1, `b` on (10, 0] growing
linearly from 1 to 2; one migration a → b on (8, 2] -/

def exA : Deme where
  name := "a"
  description := ""
  startTime := .inf
  ancestors := []
  proportions := []
  epochs := [{ startTime := .inf, endTime := 0, startSize := 1, endSize := 1, sizeFunction := "constant",
               selfingRate := 0, cloningRate := 0 }]
def exB : Deme where
  name := "b"
  description := ""
  startTime := .fin 10
  ancestors := ["a"]
  proportions := [1]
  epochs := [{ startTime := .fin 10, endTime := 0, startSize := 1, endSize := 2, sizeFunction := "linear",
               selfingRate := 0, cloningRate := 0 }]
def exGraph : Graph :=
  { emptyGraph with timeUnits := "generations", demes := [exA, exB], index := [("a", 0), ("b", 1)] }
def exGraphM : Graph :=
  { exGraph with migrations := [{ source := "a", dest := "b", startTime := .fin 8, endTime := 2, rate := 1/10 }] }
def num (q : Q) : Value := .num (.fin q)
def no2 : Num → Num → Bool := fun _ _ => false
def yes2 : Num → Num → Bool := fun _ _ => true

end Demes.Proofs.Guards
