/-
  Proofs for C03 — `check_defaults` (Model: `checkDefaults` over the four field tables) accepts a
  `defaults` mapping exactly when every entry is valid by the Spec's rule for that field
  (`validFields valid…Default`).
-/
import DemesVerif.Proofs.AcceptsBasic
namespace Demes.Proofs.Accepts
open Demes Demes.Obj Demes.Spec

/-! ### the loop -/

/-- the body of the loop of `checkDefaults` -/
def defaultsStep (table : List FieldSpec) (kv : String × Value) : Except Err Unit :=
  match table.find? (fun f => f.name = kv.1) with
  | none => keyErr s!"unexpected field: '{kv.1}'"
  | some f =>
    if hasType f.ty kv.2 then interpValidator f.validator kv.2
    else typeErr s!"field '{kv.1}' must be a {f.ty}"

theorem checkDefaults_eq (o : Obj) (table : List FieldSpec) :
    checkDefaults o table = o.forM (defaultsStep table) := rfl

theorem forM_ok_iff {α} (f : α → Except Err Unit) (l : List α) :
    l.forM f = .ok () ↔ ∀ x ∈ l, f x = .ok () := by
  induction l with
  | nil => exact ⟨fun _ _ h => (by cases h), fun _ => rfl⟩
  | cons x xs ih =>
    rw [Proofs.Asdict.forM_cons']
    constructor
    · intro h
      obtain ⟨u, hu, h⟩ := Proofs.bind_ok h
      intro y hy
      rcases List.mem_cons.1 hy with rfl | hy
      · exact hu
      · exact ih.1 h y hy
    · intro h
      rw [h x List.mem_cons_self, Proofs.ok_bind]
      exact ih.2 (fun y hy => h y (List.mem_cons_of_mem _ hy))

theorem checkDefaults_ok_iff (o : Obj) (table : List FieldSpec) :
    checkDefaults o table = .ok () ↔ ∀ kv ∈ o, defaultsStep table kv = .ok () := by
  rw [checkDefaults_eq, forM_ok_iff]

theorem validFields_iff (valid : String → Value → Bool) (o : Obj) :
    validFields valid o = true ↔ ∀ kv ∈ o, valid kv.1 kv.2 = true := by
  unfold validFields; exact List.all_eq_true

/-- the two loops agree when their bodies do -/
theorem checkDefaults_iff_of_step (table : List FieldSpec) (valid : String → Value → Bool)
    (h : ∀ k v, defaultsStep table (k, v) = .ok () ↔ valid k v = true) (o : Obj) :
    checkDefaults o table = .ok () ↔ validFields valid o = true := by
  rw [checkDefaults_ok_iff, validFields_iff]
  constructor
  · intro H kv hkv; exact (h kv.1 kv.2).1 (H kv hkv)
  · intro H kv hkv; exact (h kv.1 kv.2).2 (H kv hkv)

theorem step_some {table : List FieldSpec} {k : String} {f : FieldSpec} (v : Value)
    (h : table.find? (fun f => f.name = k) = some f) :
    defaultsStep table (k, v) =
      if hasType f.ty v then interpValidator f.validator v
      else typeErr s!"field '{k}' must be a {f.ty}" := by
  simp only [defaultsStep, h]

theorem step_none {table : List FieldSpec} {k : String} (v : Value)
    (h : table.find? (fun f => f.name = k) = none) :
    defaultsStep table (k, v) ≠ .ok () := by
  simp only [defaultsStep, h, keyErr]
  intro h; cases h

/-! ### validators against the Spec's value rules -/

theorem discard_ok_iff {α} (x : Except Err α) : discard x = .ok () ↔ ∃ a, x = .ok a := by
  cases x <;> simp [discard, Except.map]

theorem guarded_iff {b : Bool} {x : Except Err Unit} {e : Err} {P : Prop}
    (hP : P → b = true) (hx : b = true → (x = .ok () ↔ P)) :
    (if b = true then x else .error e) = .ok () ↔ P := by
  cases b with
  | true => simpa using hx rfl
  | false =>
    constructor
    · intro h; cases h
    · intro h; cases hP h

theorem hasType_str (v : Value) : hasType "str" v = isString v := by
  cases v <;> simp [hasType, isString, strOf]

theorem hasType_num (v : Value) : hasType "numbers.Number" v = (numOf v).isSome := by
  cases v <;> simp [hasType, numOf]

theorem hasType_list (v : Value) : hasType "list" v = (listOf v).isSome := by
  cases v <;> simp [hasType, listOf]

theorem isNum_isSome {p : Num → Bool} {v : Value} (h : isNum p v = true) : (numOf v).isSome = true := by
  unfold isNum at h
  cases hn : numOf v with
  | none => rw [hn] at h; cases h
  | some n => rfl

theorem isNum_iff {p : Num → Bool} {v : Value} : isNum p v = true ↔ ∃ n, numOf v = some n ∧ p n = true := by
  unfold isNum
  cases numOf v with
  | none => simp
  | some n => simp

theorem posTime_valid (v : Value) : (∃ t, posTime v = .ok t) ↔ isNum numPos v = true := by
  rw [isNum_iff]
  constructor
  · rintro ⟨t, h⟩
    obtain ⟨h1, h2⟩ := (posTime_ok_iff v t).1 h
    refine ⟨_, timeOf_eq_some.1 h1, ?_⟩
    cases t with
    | inf => rfl
    | fin q => exact decide_eq_true h2
  · rintro ⟨n, h1, h2⟩
    cases n with
    | fin q => exact ⟨.fin q, (posTime_ok_iff v _).2 ⟨timeOf_eq_some.2 h1, of_decide_eq_true h2⟩⟩
    | pinf => exact ⟨.inf, (posTime_ok_iff v _).2 ⟨timeOf_eq_some.2 h1, trivial⟩⟩
    | ninf => cases h2
    | nan => cases h2

theorem nonNegTime_valid (v : Value) : (∃ t, nonNegTime v = .ok t) ↔ isNum numNonNeg v = true := by
  rw [isNum_iff]
  constructor
  · rintro ⟨t, h⟩
    obtain ⟨h1, h2⟩ := (nonNegTime_ok_iff v t).1 h
    refine ⟨_, timeOf_eq_some.1 h1, ?_⟩
    cases t with
    | inf => rfl
    | fin q => exact decide_eq_true (Rat.not_lt.1 h2)
  · rintro ⟨n, h1, h2⟩
    cases n with
    | fin q =>
      exact ⟨.fin q, (nonNegTime_ok_iff v _).2 ⟨timeOf_eq_some.2 h1, Rat.not_lt.2 (of_decide_eq_true h2)⟩⟩
    | pinf => exact ⟨.inf, (nonNegTime_ok_iff v _).2 ⟨timeOf_eq_some.2 h1, fun h => h⟩⟩
    | ninf => cases h2
    | nan => cases h2

theorem isNum_fin_iff {p : Num → Bool} {P : Q → Prop} (hfin : ∀ q, p (.fin q) = true ↔ P q)
    (hpinf : p .pinf = false) (hninf : p .ninf = false) (hnan : p .nan = false) (v : Value) :
    isNum p v = true ↔ ∃ q, finOf v = some q ∧ P q := by
  rw [isNum_iff]
  constructor
  · rintro ⟨n, h1, h2⟩
    cases n with
    | fin q => exact ⟨q, finOf_eq_some.2 h1, (hfin q).1 h2⟩
    | pinf => rw [hpinf] at h2; cases h2
    | ninf => rw [hninf] at h2; cases h2
    | nan => rw [hnan] at h2; cases h2
  · rintro ⟨q, h1, h2⟩
    exact ⟨_, finOf_eq_some.1 h1, (hfin q).2 h2⟩

theorem isNum_posFinite_iff (v : Value) : isNum numPosFinite v = true ↔ ∃ q, finOf v = some q ∧ 0 < q :=
  isNum_fin_iff (fun q => by simp [numPosFinite]) rfl rfl rfl v
theorem isNum_nonNegFinite_iff (v : Value) : isNum numNonNegFinite v = true ↔ ∃ q, finOf v = some q ∧ 0 ≤ q :=
  isNum_fin_iff (fun q => by simp [numNonNegFinite]) rfl rfl rfl v
theorem isNum_unit_iff (v : Value) : isNum numUnit v = true ↔ ∃ q, finOf v = some q ∧ (0 ≤ q ∧ q ≤ 1) :=
  isNum_fin_iff (fun q => by simp [numUnit]) rfl rfl rfl v
theorem isNum_unitExLo_iff (v : Value) : isNum numUnitExLo v = true ↔ ∃ q, finOf v = some q ∧ (0 < q ∧ q ≤ 1) :=
  isNum_fin_iff (fun q => by simp [numUnitExLo]) rfl rfl rfl v

theorem posFiniteQ_valid (v : Value) : (∃ q, posFiniteQ v = .ok q) ↔ isNum numPosFinite v = true := by
  rw [isNum_posFinite_iff]; simp only [posFiniteQ_ok_iff]
theorem nonNegFiniteQ_valid (v : Value) : (∃ q, nonNegFiniteQ v = .ok q) ↔ isNum numNonNegFinite v = true := by
  rw [isNum_nonNegFinite_iff]; simp only [nonNegFiniteQ_ok_iff]
theorem unitQ_valid (v : Value) : (∃ q, unitQ v = .ok q) ↔ isNum numUnit v = true := by
  rw [isNum_unit_iff]; simp only [unitQ_ok_iff]
theorem unitExLoQ_valid (v : Value) : (∃ q, unitExLoQ v = .ok q) ↔ isNum numUnitExLo v = true := by
  rw [isNum_unitExLo_iff]; simp only [unitExLoQ_ok_iff]

theorem demeName_valid (v : Value) : (∃ s, demeName v = .ok s) ↔ isIdent v = true := by
  cases v <;> simp [demeName, instStr, isIdent, typeErr, valueErr, bind, Except.bind, pure, Except.pure]
  rename_i s
  by_cases h : isIdentifier s = true <;> simp [h]

theorem mapM_exists_ok_iff {α β} (f : α → Except Err β) (xs : List α) :
    (∃ ys, xs.mapM f = .ok ys) ↔ ∀ x ∈ xs, ∃ y, f x = .ok y := by
  induction xs with
  | nil => exact ⟨fun _ _ h => (by cases h), fun _ => ⟨[], by rw [List.mapM_nil]; rfl⟩⟩
  | cons x xs ih =>
    rw [List.mapM_cons]
    constructor
    · rintro ⟨ys, h⟩
      obtain ⟨y, hy, h⟩ := Proofs.bind_ok h
      obtain ⟨ys', hys', h⟩ := Proofs.bind_ok h
      intro z hz
      rcases List.mem_cons.1 hz with rfl | hz
      · exact ⟨y, hy⟩
      · exact ih.1 ⟨ys', hys'⟩ z hz
    · intro h
      obtain ⟨y, hy⟩ := h x List.mem_cons_self
      obtain ⟨ys, hys⟩ := ih.2 (fun z hz => h z (List.mem_cons_of_mem _ hz))
      exact ⟨y :: ys, by rw [hy, Proofs.ok_bind, hys, Proofs.ok_bind]; rfl⟩

theorem mapM_valid {β} (f : Value → Except Err β) (p : Value → Bool)
    (hfp : ∀ v, (∃ y, f v = .ok y) ↔ p v = true) (xs : List Value) :
    (∃ ys, xs.mapM f = .ok ys) ↔ xs.all p = true := by
  rw [mapM_exists_ok_iff, List.all_eq_true]
  constructor
  · intro h x hx; exact (hfp x).1 (h x hx)
  · intro h x hx; exact (hfp x).2 (h x hx)

theorem namesList_valid (v : Value) : (∃ l, namesList v = .ok l) ↔ isListOf isIdent v = true := by
  cases v <;> try (simp [namesList, instList, isListOf, typeErr, bind, Except.bind]; done)
  rename_i xs
  exact mapM_valid demeName isIdent demeName_valid xs

/-! ### one table entry: required type, then validator -/

theorem fld_str_none (v : Value) (m : String) :
    (if hasType "str" v = true then interpValidator "None" v else typeErr m) = .ok () ↔
      isString v = true := by
  unfold typeErr
  refine guarded_iff (fun h => by rw [hasType_str]; exact h) (fun h => ?_)
  rw [hasType_str] at h
  simp [interpValidator, pure, Except.pure, h]

theorem fld_str_name (v : Value) (m : String) :
    (if hasType "str" v = true then interpValidator "valid_deme_name" v else typeErr m) = .ok () ↔
      isIdent v = true := by
  unfold typeErr
  refine guarded_iff (fun h => ?_) (fun _ => ?_)
  · cases v <;> first | cases h | (simp [hasType])
  · have : interpValidator "valid_deme_name" v = discard (demeName v) := by simp [interpValidator]
    rw [this, discard_ok_iff, demeName_valid]

theorem fld_num {α} {txt : String} {x : Value → Except Err α} {p : Num → Bool} (v : Value) (m : String)
    (hi : interpValidator txt v = discard (x v)) (hx : (∃ a, x v = .ok a) ↔ isNum p v = true) :
    (if hasType "numbers.Number" v = true then interpValidator txt v else typeErr m) = .ok () ↔
      isNum p v = true := by
  unfold typeErr
  refine guarded_iff (fun h => by rw [hasType_num]; exact isNum_isSome h) (fun _ => ?_)
  rw [hi, discard_ok_iff, hx]

theorem fld_num_posTime (v : Value) (m : String) :
    (if hasType "numbers.Number" v = true then interpValidator "[int_or_float, positive]" v
      else typeErr m) = .ok () ↔ isNum numPos v = true :=
  fld_num v m (by simp [interpValidator]) (posTime_valid v)

theorem fld_num_nonNegTime (v : Value) (m : String) :
    (if hasType "numbers.Number" v = true then interpValidator "[int_or_float, non_negative]" v
      else typeErr m) = .ok () ↔ isNum numNonNeg v = true :=
  fld_num v m (by simp [interpValidator]) (nonNegTime_valid v)

theorem fld_num_nonNegFinite (v : Value) (m : String) :
    (if hasType "numbers.Number" v = true then interpValidator "[int_or_float, non_negative, finite]" v
      else typeErr m) = .ok () ↔ isNum numNonNegFinite v = true :=
  fld_num v m (by simp [interpValidator]) (nonNegFiniteQ_valid v)

theorem fld_num_posFinite (v : Value) (m : String) :
    (if hasType "numbers.Number" v = true then interpValidator "[int_or_float, positive, finite]" v
      else typeErr m) = .ok () ↔ isNum numPosFinite v = true :=
  fld_num v m (by simp [interpValidator]) (posFiniteQ_valid v)

theorem fld_num_unit (v : Value) (m : String) :
    (if hasType "numbers.Number" v = true then interpValidator "[int_or_float, unit_interval]" v
      else typeErr m) = .ok () ↔ isNum numUnit v = true :=
  fld_num v m (by simp [interpValidator]) (unitQ_valid v)

/-- a `list` entry: not a list on neither side, else the validator on the elements -/
theorem fld_list {txt : String} {P : Value → Bool} (v : Value) (m : String)
    (hP : ∀ v, P v = true → (listOf v).isSome = true)
    (hx : ∀ xs, interpValidator txt (.list xs) = .ok () ↔ P (.list xs) = true) :
    (if hasType "list" v = true then interpValidator txt v else typeErr m) = .ok () ↔ P v = true := by
  unfold typeErr
  refine guarded_iff (fun h => by rw [hasType_list]; exact hP v h) (fun h => ?_)
  rw [hasType_list] at h
  cases v with
  | list xs => exact hx xs
  | _ => cases h

theorem isListOf_isSome {p : Value → Bool} (v : Value) (h : isListOf p v = true) :
    (listOf v).isSome = true := by
  cases v <;> simp [isListOf, listOf] at h ⊢

theorem isNonEmptyListOf_isSome {p : Value → Bool} (v : Value) (h : isNonEmptyListOf p v = true) :
    (listOf v).isSome = true := by
  cases v <;> simp [isNonEmptyListOf, listOf] at h ⊢

theorem fld_list_names (v : Value) (m : String) :
    (if hasType "list" v = true then interpValidator txtNames v else typeErr m) = .ok () ↔
      isListOf isIdent v = true := by
  refine fld_list v m isListOf_isSome (fun xs => ?_)
  have : interpValidator txtNames (.list xs) = discard (namesList (.list xs)) := by
    simp [interpValidator, txtNames]
  rw [this, discard_ok_iff, namesList_valid]

theorem fld_list_props (v : Value) (m : String) :
    (if hasType "list" v = true then interpValidator "attr.validators.deep_iterable(member_validator=[int_or_float, unit_interval_exclusive_lo], iterable_validator=attr.validators.instance_of(list))" v else typeErr m) = .ok () ↔
      isListOf (isNum numUnitExLo) v = true := by
  refine fld_list v m isListOf_isSome (fun xs => ?_)
  have : interpValidator "attr.validators.deep_iterable(member_validator=[int_or_float, unit_interval_exclusive_lo], iterable_validator=attr.validators.instance_of(list))" (.list xs)
      = discard (xs.mapM unitExLoQ) := by
    simp [interpValidator, txtNames, instList, bind, Except.bind, pure, Except.pure]
  rw [this, discard_ok_iff]
  exact mapM_valid unitExLoQ _ unitExLoQ_valid xs

theorem fld_list_sources (v : Value) (m : String) :
    (if hasType "list" v = true then interpValidator ("attr.validators.and_(" ++ txtNames ++ ", nonzero_len)") v else typeErr m) = .ok () ↔
      isNonEmptyListOf isIdent v = true := by
  refine fld_list v m isNonEmptyListOf_isSome (fun xs => ?_)
  have : interpValidator ("attr.validators.and_(" ++ txtNames ++ ", nonzero_len)") (.list xs)
      = (xs.mapM demeName >>= fun ys =>
          if ys.isEmpty = true then valueErr "must have non-zero length" else pure ()) := by
    simp [interpValidator, txtNames, namesList, instList, bind, Except.bind, pure, Except.pure]
  rw [this]
  show _ ↔ (!xs.isEmpty && xs.all isIdent) = true
  rw [Bool.and_eq_true, ← mapM_valid demeName isIdent demeName_valid xs]
  constructor
  · intro h
    obtain ⟨ys, hys, h⟩ := Proofs.bind_ok h
    refine ⟨?_, ys, hys⟩
    cases xs with
    | nil =>
      rw [List.mapM_nil] at hys; cases hys
      simp [valueErr] at h
    | cons x xs => rfl
  · rintro ⟨hne, ys, hys⟩
    rw [hys, Proofs.ok_bind]
    cases xs with
    | nil => cases hne
    | cons x xs =>
      rw [List.mapM_cons] at hys
      obtain ⟨y, _, h⟩ := Proofs.bind_ok hys
      obtain ⟨ys', _, h⟩ := Proofs.bind_ok h
      cases h
      rfl

/-- the Spec's rule for `defaults.pulse.proportions`, on a list -/
theorem pulseProps_spec (xs : List Value) :
    validPulseDefault "proportions" (.list xs) = true ↔
      ((!xs.isEmpty) = true ∧ xs.all (isNum numUnitExLo) = true) ∧
        ∃ qs, mapOpt finOf xs = some qs ∧ qsumS qs ≤ 1 := by
  have : finsOf (.list xs) = mapOpt finOf xs := rfl
  simp only [validPulseDefault, String.reduceEq, if_false, if_true, Bool.and_eq_true,
    isNonEmptyListOf, this]
  cases mapOpt finOf xs with
  | none => simp
  | some qs => simp

theorem pulseProps_isSome (v : Value) (h : validPulseDefault "proportions" v = true) :
    (listOf v).isSome = true := by
  simp only [validPulseDefault, String.reduceEq, if_false, if_true, Bool.and_eq_true] at h
  exact isNonEmptyListOf_isSome v h.1

theorem mapM_unitExLoQ_ok_iff (xs : List Value) (qs : List Q) :
    xs.mapM unitExLoQ = .ok qs ↔ mapOpt finOf xs = some qs ∧ ∀ q ∈ qs, 0 < q ∧ q ≤ 1 :=
  mapM_ok_iff unitExLoQ finOf (fun q => 0 < q ∧ q ≤ 1) unitExLoQ_ok_iff xs qs

theorem pulseProps_model (xs : List Value) :
    interpValidator "attr.validators.deep_iterable(member_validator=attr.validators.and_(int_or_float, unit_interval_exclusive_lo), iterable_validator=attr.validators.and_(attr.validators.instance_of(list), nonzero_len, sum_less_than_one))" (.list xs)
      = ((if xs.isEmpty = true then valueErr "must have non-zero length" else pure ()) >>= fun _ =>
          xs.mapM unitExLoQ >>= fun qs =>
            if qsum qs > 1 then valueErr "must sum to less than one" else pure ()) := by
  simp [interpValidator, txtNames, instList, bind, Except.bind, pure, Except.pure]
  split <;> rfl

theorem fld_list_pulseProps (v : Value) (m : String) :
    (if hasType "list" v = true then interpValidator "attr.validators.deep_iterable(member_validator=attr.validators.and_(int_or_float, unit_interval_exclusive_lo), iterable_validator=attr.validators.and_(attr.validators.instance_of(list), nonzero_len, sum_less_than_one))" v else typeErr m) = .ok () ↔
      validPulseDefault "proportions" v = true := by
  refine fld_list (P := fun v => validPulseDefault "proportions" v) v m pulseProps_isSome (fun xs => ?_)
  rw [pulseProps_model, pulseProps_spec, ← mapM_valid unitExLoQ _ unitExLoQ_valid xs]
  constructor
  · intro h
    obtain ⟨_, h0, h⟩ := Proofs.bind_ok h
    obtain ⟨qs, hqs, h⟩ := Proofs.bind_ok h
    have hne : (!xs.isEmpty) = true := by
      cases xs with
      | nil => cases h0
      | cons x xs => rfl
    refine ⟨⟨hne, qs, hqs⟩, ?_⟩
    refine ⟨qs, ((mapM_unitExLoQ_ok_iff xs qs).1 hqs).1, ?_⟩
    rw [← Proofs.Asdict.qsum_eq]
    by_cases hs : qsum qs > 1
    · rw [if_pos hs] at h; cases h
    · exact Rat.not_lt.1 hs
  · rintro ⟨⟨hne, qs, hqs⟩, qs', hqs', hsum⟩
    rw [((mapM_unitExLoQ_ok_iff xs qs).1 hqs).1] at hqs'
    cases hqs'
    rw [← Proofs.Asdict.qsum_eq] at hsum
    have hs : ¬ qsum qs > 1 := Rat.not_lt.2 hsum
    have h0 : (if xs.isEmpty = true then (valueErr "must have non-zero length" : Except Err Unit)
        else pure ()) = .ok () := by
      cases xs with
      | nil => cases hne
      | cons x xs => rfl
    rw [h0, Proofs.ok_bind, hqs, Proofs.ok_bind, if_neg hs]
    rfl

/-! ### the four tables -/

theorem demeStep_iff (k : String) (v : Value) :
    defaultsStep demeDefaultsTable (k, v) = .ok () ↔ validDemeDefault k v = true := by
  unfold validDemeDefault
  by_cases h1 : k = "description"
  · subst h1
    rw [step_some (f := ⟨"description", "str", "None"⟩) v (by simp [demeDefaultsTable])]
    simpa using fld_str_none v _
  by_cases h2 : k = "start_time"
  · subst h2
    rw [step_some (f := ⟨"start_time", "numbers.Number", "[int_or_float, positive]"⟩) v
      (by simp [demeDefaultsTable])]
    simpa using fld_num_posTime v _
  by_cases h3 : k = "ancestors"
  · subst h3
    rw [step_some (f := ⟨"ancestors", "list", txtNames⟩) v (by simp [demeDefaultsTable])]
    simpa using fld_list_names v _
  by_cases h4 : k = "proportions"
  · subst h4
    rw [step_some (f := ⟨"proportions", "list", "attr.validators.deep_iterable(member_validator=[int_or_float, unit_interval_exclusive_lo], iterable_validator=attr.validators.instance_of(list))"⟩) v (by simp [demeDefaultsTable])]
    simpa using fld_list_props v _
  · have hn : demeDefaultsTable.find? (fun f => f.name = k) = none := by
      simp [demeDefaultsTable, eq_comm, *]
    simp only [if_neg h1, if_neg h2, if_neg h3, if_neg h4]
    exact ⟨fun h => absurd h (step_none v hn), fun h => by cases h⟩

theorem migrationStep_iff (k : String) (v : Value) :
    defaultsStep migrationDefaultsTable (k, v) = .ok () ↔ validMigrationDefault k v = true := by
  unfold validMigrationDefault
  by_cases h1 : k = "rate"
  · subst h1
    rw [step_some (f := ⟨"rate", "numbers.Number", "[int_or_float, unit_interval]"⟩) v
      (by simp [migrationDefaultsTable])]
    simpa using fld_num_unit v _
  by_cases h2 : k = "start_time"
  · subst h2
    rw [step_some (f := ⟨"start_time", "numbers.Number", "[int_or_float, non_negative]"⟩) v
      (by simp [migrationDefaultsTable])]
    simpa using fld_num_nonNegTime v _
  by_cases h3 : k = "end_time"
  · subst h3
    rw [step_some (f := ⟨"end_time", "numbers.Number", "[int_or_float, non_negative, finite]"⟩) v
      (by simp [migrationDefaultsTable])]
    simpa using fld_num_nonNegFinite v _
  by_cases h4 : k = "source"
  · subst h4
    rw [step_some (f := ⟨"source", "str", "valid_deme_name"⟩) v
      (by simp [migrationDefaultsTable])]
    simpa using fld_str_name v _
  by_cases h5 : k = "dest"
  · subst h5
    rw [step_some (f := ⟨"dest", "str", "valid_deme_name"⟩) v
      (by simp [migrationDefaultsTable])]
    simpa using fld_str_name v _
  by_cases h6 : k = "demes"
  · subst h6
    rw [step_some (f := ⟨"demes", "list", txtNames⟩) v
      (by simp [migrationDefaultsTable])]
    simpa using fld_list_names v _
  · have hn : migrationDefaultsTable.find? (fun f => f.name = k) = none := by
      simp [migrationDefaultsTable, eq_comm, *]
    simp only [if_neg h1, if_neg h2, if_neg h3, if_neg h4, if_neg h5, if_neg h6]
    exact ⟨fun h => absurd h (step_none v hn), fun h => by cases h⟩

theorem pulseStep_iff (k : String) (v : Value) :
    defaultsStep pulseDefaultsTable (k, v) = .ok () ↔ validPulseDefault k v = true := by
  unfold validPulseDefault
  by_cases h1 : k = "sources"
  · subst h1
    rw [step_some (f := ⟨"sources", "list", "attr.validators.and_(" ++ txtNames ++ ", nonzero_len)"⟩) v
      (by simp [pulseDefaultsTable])]
    simpa using fld_list_sources v _
  by_cases h2 : k = "dest"
  · subst h2
    rw [step_some (f := ⟨"dest", "str", "valid_deme_name"⟩) v
      (by simp [pulseDefaultsTable])]
    simpa using fld_str_name v _
  by_cases h3 : k = "time"
  · subst h3
    rw [step_some (f := ⟨"time", "numbers.Number", "[int_or_float, positive, finite]"⟩) v
      (by simp [pulseDefaultsTable])]
    simpa using fld_num_posFinite v _
  by_cases h4 : k = "proportions"
  · subst h4
    rw [step_some (f := ⟨"proportions", "list", "attr.validators.deep_iterable(member_validator=attr.validators.and_(int_or_float, unit_interval_exclusive_lo), iterable_validator=attr.validators.and_(attr.validators.instance_of(list), nonzero_len, sum_less_than_one))"⟩) v
      (by simp [pulseDefaultsTable])]
    exact fld_list_pulseProps v _
  · have hn : pulseDefaultsTable.find? (fun f => f.name = k) = none := by
      simp [pulseDefaultsTable, eq_comm, *]
    simp only [if_neg h1, if_neg h2, if_neg h3, if_neg h4]
    exact ⟨fun h => absurd h (step_none v hn), fun h => by cases h⟩

theorem epochStep_iff (k : String) (v : Value) :
    defaultsStep epochDefaultsTable (k, v) = .ok () ↔ validEpochDefault k v = true := by
  unfold validEpochDefault
  by_cases h1 : k = "end_time"
  · subst h1
    rw [step_some (f := ⟨"end_time", "numbers.Number", "[int_or_float, non_negative, finite]"⟩) v
      (by simp [epochDefaultsTable])]
    simpa using fld_num_nonNegFinite v _
  by_cases h2 : k = "start_size"
  · subst h2
    rw [step_some (f := ⟨"start_size", "numbers.Number", "[int_or_float, positive, finite]"⟩) v
      (by simp [epochDefaultsTable])]
    simpa using fld_num_posFinite v _
  by_cases h3 : k = "end_size"
  · subst h3
    rw [step_some (f := ⟨"end_size", "numbers.Number", "[int_or_float, positive, finite]"⟩) v
      (by simp [epochDefaultsTable])]
    simpa using fld_num_posFinite v _
  by_cases h4 : k = "selfing_rate"
  · subst h4
    rw [step_some (f := ⟨"selfing_rate", "numbers.Number", "[int_or_float, unit_interval]"⟩) v
      (by simp [epochDefaultsTable])]
    simpa using fld_num_unit v _
  by_cases h5 : k = "cloning_rate"
  · subst h5
    rw [step_some (f := ⟨"cloning_rate", "numbers.Number", "[int_or_float, unit_interval]"⟩) v
      (by simp [epochDefaultsTable])]
    simpa using fld_num_unit v _
  by_cases h6 : k = "size_function"
  · subst h6
    rw [step_some (f := ⟨"size_function", "str", "None"⟩) v
      (by simp [epochDefaultsTable])]
    simpa using fld_str_none v _
  · have hn : epochDefaultsTable.find? (fun f => f.name = k) = none := by
      simp [epochDefaultsTable, eq_comm, *]
    simp only [if_neg h1, if_neg h2, if_neg h3, if_neg h4, if_neg h5, if_neg h6]
    exact ⟨fun h => absurd h (step_none v hn), fun h => by cases h⟩

/-! ### the statements -/

/-- `check_defaults` on `defaults.deme` accepts exactly the mappings all of whose entries are valid -/
theorem checkDefaults_deme_iff (o : Obj) :
    checkDefaults o demeDefaultsTable = .ok () ↔ validFields validDemeDefault o = true :=
  checkDefaults_iff_of_step _ _ demeStep_iff o

theorem checkDefaults_migration_iff (o : Obj) :
    checkDefaults o migrationDefaultsTable = .ok () ↔ validFields validMigrationDefault o = true :=
  checkDefaults_iff_of_step _ _ migrationStep_iff o

theorem checkDefaults_pulse_iff (o : Obj) :
    checkDefaults o pulseDefaultsTable = .ok () ↔ validFields validPulseDefault o = true :=
  checkDefaults_iff_of_step _ _ pulseStep_iff o

theorem checkDefaults_epoch_iff (o : Obj) :
    checkDefaults o epochDefaultsTable = .ok () ↔ validFields validEpochDefault o = true :=
  checkDefaults_iff_of_step _ _ epochStep_iff o

/-! ### a valid `defaults` mapping has only fields of its table -/

theorem validFields_keys {valid : String → Value → Bool} {allowed : List String}
    (hv : ∀ k v, valid k v = true → k ∈ allowed) {o : Obj} (h : validFields valid o = true) :
    ∀ k ∈ keys o, k ∈ allowed := by
  intro k hk
  obtain ⟨kv, hkv, rfl⟩ := List.mem_map.1 hk
  exact hv kv.1 kv.2 ((validFields_iff valid o).1 h kv hkv)

theorem validFields_deme_keys {o : Obj} (h : validFields validDemeDefault o = true) :
    ∀ k ∈ keys o, k ∈ ["description", "start_time", "ancestors", "proportions"] := by
  refine validFields_keys (fun k v hk => ?_) h
  unfold validDemeDefault at hk
  by_cases h1 : k = "description"
  · simp [h1]
  by_cases h2 : k = "start_time"
  · simp [h2]
  by_cases h3 : k = "ancestors"
  · simp [h3]
  by_cases h4 : k = "proportions"
  · simp [h4]
  · simp only [if_neg h1, if_neg h2, if_neg h3, if_neg h4] at hk
    cases hk

theorem validFields_epoch_keys {o : Obj} (h : validFields validEpochDefault o = true) :
    ∀ k ∈ keys o, k ∈ allowedEpoch := by
  refine validFields_keys (fun k v hk => ?_) h
  unfold validEpochDefault at hk
  unfold allowedEpoch
  by_cases h1 : k = "end_time"
  · simp [h1]
  by_cases h2 : k = "start_size"
  · simp [h2]
  by_cases h3 : k = "end_size"
  · simp [h3]
  by_cases h4 : k = "selfing_rate"
  · simp [h4]
  by_cases h5 : k = "cloning_rate"
  · simp [h5]
  by_cases h6 : k = "size_function"
  · simp [h6]
  · simp only [if_neg h1, if_neg h2, if_neg h3, if_neg h4, if_neg h5, if_neg h6] at hk
    cases hk

/-! ### non-vacuity: each side of each equivalence is inhabited by a non-trivial mapping -/

example : validFields validDemeDefault
    [("description", .str "d"), ("start_time", .num .pinf), ("ancestors", .list [.str "a"]),
     ("proportions", .list [.num (.fin 1)])] = true := by decide +kernel
example : validFields validMigrationDefault
    [("rate", .num (.fin (1/2))), ("start_time", .num .pinf), ("end_time", .num (.fin 0)),
     ("source", .str "a"), ("dest", .str "b"), ("demes", .list [.str "a", .str "b"])] = true := by
  decide +kernel
example : validFields validPulseDefault
    [("sources", .list [.str "a"]), ("dest", .str "b"), ("time", .num (.fin 10)),
     ("proportions", .list [.num (.fin (1/2)), .bool true])] = false := by decide +kernel
example : validFields validPulseDefault
    [("sources", .list [.str "a"]), ("dest", .str "b"), ("time", .num (.fin 10)),
     ("proportions", .list [.num (.fin (1/2)), .num (.fin (1/2))])] = true := by decide +kernel
example : validFields validEpochDefault
    [("end_time", .num (.fin 0)), ("start_size", .num (.fin 100)), ("end_size", .bool true),
     ("selfing_rate", .bool false), ("cloning_rate", .num (.fin 1)),
     ("size_function", .str "anything")] = true := by decide +kernel
example : validFields validEpochDefault [("start_time", .num (.fin 0))] = false := by decide +kernel

/-- the Model accepts / rejects the same concrete mappings (through the equivalences) -/
example : checkDefaults
    [("sources", .list [.str "a"]), ("dest", .str "b"), ("time", .num (.fin 10)),
     ("proportions", .list [.num (.fin (1/2)), .num (.fin (1/2))])] pulseDefaultsTable = .ok () :=
  (checkDefaults_pulse_iff _).2 (by decide +kernel)
example : checkDefaults
    [("proportions", .list [.num (.fin (1/2)), .bool true])] pulseDefaultsTable ≠ .ok () :=
  fun h => absurd ((checkDefaults_pulse_iff _).1 h) (by decide +kernel)
example : checkDefaults [("start_time", .num (.fin 0))] epochDefaultsTable ≠ .ok () :=
  fun h => absurd ((checkDefaults_epoch_iff _).1 h) (by decide +kernel)


end Demes.Proofs.Accepts
