/-
  C09, first sentence — acceptance of the `to_ms` output by `from_ms`: every option record argparse
  builds from the printed command passes the validators of its class (`validEvent`).
-/
import DemesVerif.Proofs.MsAccParse
namespace Demes.Proofs.MsAcc
open Demes Demes.Ms Demes.Spec Demes.Spec.C07 Demes.Spec.C09
open Demes.Spec.MsSem (Cmd)
open Demes.Spec.C08 (ArgsAgree cmdOf)
open Demes.Proofs.ToMs (headerOf finalEvs)
open Demes.Proofs.MsRT (prOf EvRT cmdOfG isInit evRT_toMs)
open Demes.Proofs.FromMs (cmdOf_growthAll cmdOf_growth cmdOf_sizeAll cmdOf_size cmdOf_migAll
  cmdOf_migEntry cmdOf_migMatrix cmdOf_split cmdOf_join)

theorem vUnitInterval_fin {y : Q} (h0 : 0 ≤ y) (h1 : y ≤ 1) : vUnitInterval (.fin y) = .ok () := by
  simp [vUnitInterval, Num.le, Num.zero, Num.one, h0, h1, pure, Except.pure]

theorem pos_of_toNat_eq {i i' : Int} (h : i.toNat = i'.toNat) (h' : 1 ≤ i') : 0 < i := by omega

/-- the command a record of the fragment stands for, by constructor -/
theorem cmdOfG_cases {e' : Event Growth} (he' : EvRT e') :
    (∃ (q : Q) (i : Int) (x : Q) (b : Bool), 0 ≤ q ∧ 1 ≤ i ∧ 0 ≤ x ∧ cmdOfG e' = .setSize q i.toNat x b) ∨
    (∃ (q : Q) (i j : Int) (x : Q), 0 ≤ q ∧ 1 ≤ i ∧ 1 ≤ j ∧ 0 ≤ x ∧ cmdOfG e' = .setMigEntry q i.toNat j.toNat x) ∨
    (∃ (q : Q) (i : Int) (y : Q), 0 ≤ q ∧ 1 ≤ i ∧ 0 ≤ y ∧ y ≤ 1 ∧ cmdOfG e' = .split q i.toNat y) ∨
    (∃ (q : Q) (i j : Int), 0 ≤ q ∧ 1 ≤ i ∧ 1 ≤ j ∧ cmdOfG e' = .join q i.toNat j.toNat) := by
  cases e' with
  | popSizeChange o t i x =>
    obtain ⟨_, hi, q, y, rfl, hq, rfl, hy⟩ := he'
    exact .inl ⟨q, i, y, _, hq, hi, hy, rfl⟩
  | migEntryChange o t i j x =>
    obtain ⟨_, hi, hj, q, y, rfl, hq, rfl, hy⟩ := he'
    exact .inr (.inl ⟨q, i, j, y, hq, hi, hj, hy, rfl⟩)
  | split o t i p =>
    obtain ⟨_, hi, q, y, rfl, hq, rfl, hy0, hy1⟩ := he'
    exact .inr (.inr (.inl ⟨q, i, y, Rat.le_of_lt hq, hi, hy0, hy1, rfl⟩))
  | join o t i j =>
    obtain ⟨_, hi, hj, q, rfl, hq⟩ := he'
    exact .inr (.inr (.inr ⟨q, i, j, Rat.le_of_lt hq, hi, hj, rfl⟩))
  | growthRateChange => exact he'.elim
  | popGrowthRateChange => exact he'.elim
  | sizeChange => exact he'.elim
  | migRateChange => exact he'.elim
  | migMatrixChange => exact he'.elim

/-- a record that denotes (`cmdOf`) the same ms option as a record of the fragment passes the validators of its class -/
theorem validEvent_of_cmdOf {e : Event Num} {e' : Event Growth} (he' : EvRT e') (h : cmdOf e = some (cmdOfG e')) :
    validEvent e := by
  have hcs := cmdOfG_cases he'
  cases e with
  | growthRateChange o t a =>
    obtain ⟨_, _, _, _, h'⟩ := cmdOf_growthAll h
    rcases hcs with ⟨_, _, _, _, _, _, _, hc⟩ | ⟨_, _, _, _, _, _, _, _, hc⟩ | ⟨_, _, _, _, _, _, _, hc⟩ | ⟨_, _, _, _, _, _, hc⟩ <;>
      (rw [hc] at h'; cases h')
  | popGrowthRateChange o t i a =>
    obtain ⟨_, _, _, _, h'⟩ := cmdOf_growth h
    rcases hcs with ⟨_, _, _, _, _, _, _, hc⟩ | ⟨_, _, _, _, _, _, _, _, hc⟩ | ⟨_, _, _, _, _, _, _, hc⟩ | ⟨_, _, _, _, _, _, hc⟩ <;>
      (rw [hc] at h'; cases h')
  | sizeChange o t x =>
    obtain ⟨_, _, _, _, h'⟩ := cmdOf_sizeAll h
    rcases hcs with ⟨_, _, _, _, _, _, _, hc⟩ | ⟨_, _, _, _, _, _, _, _, hc⟩ | ⟨_, _, _, _, _, _, _, hc⟩ | ⟨_, _, _, _, _, _, hc⟩ <;>
      (rw [hc] at h'; cases h')
  | migRateChange o t x =>
    obtain ⟨_, _, _, _, h'⟩ := cmdOf_migAll h
    rcases hcs with ⟨_, _, _, _, _, _, _, hc⟩ | ⟨_, _, _, _, _, _, _, _, hc⟩ | ⟨_, _, _, _, _, _, _, hc⟩ | ⟨_, _, _, _, _, _, hc⟩ <;>
      (rw [hc] at h'; cases h')
  | migMatrixChange o t n mm =>
    obtain ⟨_, _, h'⟩ := cmdOf_migMatrix h
    rcases hcs with ⟨_, _, _, _, _, _, _, hc⟩ | ⟨_, _, _, _, _, _, _, _, hc⟩ | ⟨_, _, _, _, _, _, _, hc⟩ | ⟨_, _, _, _, _, _, hc⟩ <;>
      (rw [hc] at h'; cases h')
  | popSizeChange o t i x =>
    obtain ⟨tq, a, rfl, rfl, h'⟩ := cmdOf_size h
    rcases hcs with ⟨q, i', x, b, hq, hi, hx, hc⟩ | ⟨_, _, _, _, _, _, _, _, hc⟩ | ⟨_, _, _, _, _, _, _, hc⟩ | ⟨_, _, _, _, _, _, hc⟩
    · rw [hc] at h'
      injection h' with h1 h2 h3 h4
      subst h1 h3
      exact ⟨MsPrint.vT_fin _ hq, pos_of_toNat_eq h2.symm hi, MsPrint.vNonNeg_fin _ hx⟩
    all_goals (rw [hc] at h'; cases h')
  | migEntryChange o t i j r =>
    obtain ⟨tq, a, rfl, rfl, h'⟩ := cmdOf_migEntry h
    rcases hcs with ⟨_, _, _, _, _, _, _, hc⟩ | ⟨q, i', j', x, hq, hi, hj, hx, hc⟩ | ⟨_, _, _, _, _, _, _, hc⟩ | ⟨_, _, _, _, _, _, hc⟩
    · rw [hc] at h'; cases h'
    · rw [hc] at h'
      injection h' with h1 h2 h3 h4
      subst h1 h4
      exact ⟨MsPrint.vT_fin _ hq, pos_of_toNat_eq h2.symm hi, pos_of_toNat_eq h3.symm hj,
        MsPrint.vNonNeg_fin _ hx⟩
    all_goals (rw [hc] at h'; cases h')
  | split o t i p =>
    obtain ⟨tq, a, rfl, rfl, h'⟩ := cmdOf_split h
    rcases hcs with ⟨_, _, _, _, _, _, _, hc⟩ | ⟨_, _, _, _, _, _, _, _, hc⟩ | ⟨q, i', y, hq, hi, hy0, hy1, hc⟩ | ⟨_, _, _, _, _, _, hc⟩
    · rw [hc] at h'; cases h'
    · rw [hc] at h'; cases h'
    · rw [hc] at h'
      injection h' with h1 h2 h3
      subst h1 h3
      exact ⟨MsPrint.vT_fin _ hq, pos_of_toNat_eq h2.symm hi, vUnitInterval_fin hy0 hy1⟩
    · rw [hc] at h'; cases h'
  | join o t i j =>
    obtain ⟨tq, rfl, h'⟩ := cmdOf_join h
    rcases hcs with ⟨_, _, _, _, _, _, _, hc⟩ | ⟨_, _, _, _, _, _, _, _, hc⟩ | ⟨_, _, _, _, _, _, _, hc⟩ | ⟨q, i', j', hq, hi, hj, hc⟩
    · rw [hc] at h'; cases h'
    · rw [hc] at h'; cases h'
    · rw [hc] at h'; cases h'
    · rw [hc] at h'
      injection h' with h1 h2 h3
      subst h1
      exact ⟨MsPrint.vT_fin _ hq, pos_of_toNat_eq h2.symm hi, pos_of_toNat_eq h3.symm hj⟩

example : validEvent (.popSizeChange "-en" (.fin 1) 2 (.fin (1/2))) :=
  validEvent_of_cmdOf (e' := .popSizeChange "" (.fin 1) 2 (.fin (1/2)))
    ⟨rfl, by decide, 1, 1/2, rfl, by decide +kernel, rfl, by decide +kernel⟩ (by decide +kernel)

/-- pointwise reading of `l.map f = (l'.map k).map some` -/
theorem mem_of_map_eq {α β γ} {f : α → Option γ} {k : β → γ} :
    ∀ {l : List α} {l' : List β}, l.map f = (l'.map k).map some → ∀ a ∈ l, ∃ b ∈ l', f a = some (k b)
  | [], _, _, a, ha => by cases ha
  | x :: l, [], h, _, _ => by cases h
  | x :: l, y :: l', h, a, ha => by
    simp only [List.map_cons, List.cons.injEq] at h
    rcases List.mem_cons.1 ha with rfl | ha
    · exact ⟨y, List.mem_cons_self, h.1⟩
    · obtain ⟨b, hb, hab⟩ := mem_of_map_eq h.2 a ha
      exact ⟨b, List.mem_cons_of_mem _ hb, hab⟩

/-- every option record argparse builds from the command `to_ms` prints passes the validators of its class -/
theorem toMs_output_validators_ok (c : NumCodec) (sa : Growth → String) {g : Graph} (hv : validGraph g = true)
    (hx : MsExpressible g = true) (hcs : ConstSizes g = true) {N0 : Q} (hN : 0 < N0)
    {samples : Option (List Int)} (hs : samplesOk g samples = true) {toks : List (Tok Growth)}
    (htoks : toMs g N0 samples = .ok toks) (hc : CodecCovers c toks) :
    ∃ args, parseKnownArgs (renderG c sa toks) = .ok args
      ∧ ∀ e ∈ args.initialState ++ args.demographicEvents, validEvent e := by
  obtain ⟨args, h1, h2, _⟩ := toMs_output_parses c sa hv hx hcs hN hs htoks hc
  refine ⟨args, h1, ?_⟩
  have hrt := evRT_toMs hv hx hcs hN
  intro e he
  rcases List.mem_append.1 he with he | he
  · obtain ⟨e', he', hee⟩ := mem_of_map_eq (k := cmdOfG) h2.initial e he
    exact validEvent_of_cmdOf (hrt e' (List.mem_filter.1 he').1) hee
  · obtain ⟨e', he', hee⟩ := mem_of_map_eq (k := cmdOfG) h2.events e he
    exact validEvent_of_cmdOf (hrt e' (List.mem_filter.1 he').1) hee

#print axioms validEvent_of_cmdOf
#print axioms toMs_output_validators_ok

end Demes.Proofs.MsAcc
