/-
  C08, link C (movements), a wider fragment — what a time group of the wide fragment leaves alone
  (the counterparts of `applyParams_joined`, `group_positions`, `group_stable` for `GroupEndW`).
-/
import DemesVerif.Proofs.FromMsWideSem
namespace Demes.Proofs.FromMs
open Demes Demes.Ms Demes.Spec Demes.Spec.MsSem Demes.Spec.C08

/-- the sources of the entries of `split_join_params` are sources of moves -/
theorem params_srcW {T' : Q} {s : BState} {σ : St} {s1 : BState} {g1 : GState} {L1 : List (Nat × Row)}
    {ops : List MOp} (he : GroupEndW T' s σ s1 g1 L1 ops) {e : MOp} (hem : e ∈ g1.params) :
    ∃ o ∈ ops, e.1 = o.1 - 1 := by
  by_cases hq : e.2.2 = 1
  · obtain ⟨o, ho, _, h2⟩ := he.jSrc e hem hq
    exact ⟨o, ho, h2⟩
  · have hS : e ∈ g1.params.filter isS := List.mem_filter.mpr ⟨hem, by simp [isS, hq]⟩
    rw [he.sEntries] at hS
    obtain ⟨o, ho, _, rfl⟩ := mem_filter_map_op0 hS
    exact ⟨o, ho, rfl⟩

/-- `applyParams` does not touch the demes of populations joined before the group -/
theorem applyParams_joinedW {T' : Q} {s : BState} {σ : St} {s1 : BState} {g1 : GState} {L1 : List (Nat × Row)}
    {ops : List MOp} (he : GroupEndW T' s σ s1 g1 L1 ops) {j : Nat} (hj : s.joined.contains j = true) :
    (applyParams T' s1 g1).demes[j]? = s1.demes[j]? := by
  rw [applyParams_eq]
  obtain ⟨_, _, ap3, ap4⟩ := apFold T' g1 g1.params s1
  cases hd : s1.demes[j]? with
  | none =>
    apply List.getElem?_eq_none_iff.mpr
    rw [ap3]; exact List.getElem?_eq_none_iff.mp hd
  | some d =>
    rw [ap4 j d hd]
    have : g1.params.any (fun e => decide (e.1 = j)) = false := by
      rw [Bool.eq_false_iff]
      intro hany
      rw [List.any_eq_true] at hany
      obtain ⟨e, hem, hej⟩ := hany
      obtain ⟨o, ho, hs⟩ := params_srcW he hem
      have h1 := he.srcAlive o ho
      have h2 : e.1 = j := of_decide_eq_true hej
      rw [← hs, h2, hj] at h1
      cases h1
    rw [this]
    rfl

section
variable {T T' : Q} {s : BState} {σ : St} {s1 : BState} {g1 : GState} {L1 : List (Nat × Row)} {ops : List MOp}

/-- the demes after the group, position by position -/
theorem group_positionsW (hsim : SizeSim T s σ) (he : GroupEndW T' s σ s1 g1 L1 ops) (hnames : NameInv s)
    (hjs : ∀ j, s.joined.contains j = true → s1.demes[j]? = s.demes[j]?) :
    (∀ (i : Nat) (d0 : BDeme), s.demes[i]? = some d0 → ∃ D, (applyParams T' s1 g1).demes[i]? = some D ∧
      (D = d0 ∨ (d0.startTime = .inf ∧ D.name = d0.name ∧ bEndTime D = bEndTime d0
        ∧ (D.startTime = .inf ∨ D.startTime = .fin T'))))
    ∧ (∀ (i : Nat) (D : BDeme), s.demes.length ≤ i → (applyParams T' s1 g1).demes[i]? = some D →
      bEndTime D = T' ∧ (D.startTime = .inf ∨ D.startTime = .fin T')) := by
  have hn0 : s.demes.length = s.numDemes := by rw [hsim.len, hsim.num]
  constructor
  · intro i d0 h0
    have hi : i < s.numDemes := by rw [← hn0]; exact (List.getElem?_eq_some_iff.mp h0).1
    have hi2 : i < (applyParams T' s1 g1).demes.length := by rw [(s2_lenW he).1]; have := he.n0le; omega
    have hD := List.getElem?_eq_getElem hi2
    refine ⟨_, hD, ?_⟩
    by_cases hj : s.joined.contains i = true
    · left
      have := applyParams_joinedW he hj
      rw [hD, hjs i hj, h0] at this
      exact Option.some.inj this
    · right
      obtain ⟨d, hd, _, hname, hstD, hbD, _⟩ := s2_atW he hD
      obtain ⟨d0', h0', e1, e2⟩ := he.dOld i d hi hd
      rw [h0] at h0'
      cases h0'
      have hp : i < σ.pops.length := by rw [← hsim.num]; exact hi
      obtain ⟨rr, _, _, r4⟩ := hsim.rel i d0 _ h0 (List.getElem?_eq_getElem hp)
      have hinf : d0.startTime = .inf := by
        rw [rr.2.2]
        have hj' : s.joined.contains i = false := by simpa using hj
        rw [hj'] at r4
        have : MsSem.alive σ.pops[i] = true := by
          cases hh : MsSem.alive σ.pops[i] with
          | true => rfl
          | false => rw [hh] at r4; cases r4
        simpa [MsSem.alive] using this
      refine ⟨hinf, by rw [hname, (name_at hnames h0).1], by rw [hbD, e1], ?_⟩
      rw [hstD]
      rcases e2 with e2 | ⟨e2, _, _⟩
      · left; rw [e2, hinf]
      · right; exact e2
  · intro i D hi hD
    obtain ⟨d, hd, _, _, hstD, hbD, _⟩ := s2_atW he hD
    obtain ⟨a, b⟩ := he.dNew i d (by omega) hd
    exact ⟨by rw [hbD, a], by rw [hstD]; exact b⟩

/-- **stability**: the movement rows of an earlier time `T0 < T'` are not changed by the group at `T'` -/
theorem group_stableW (hsim : SizeSim T s σ) (he : GroupEndW T' s σ s1 g1 L1 ops) (hnames : NameInv s)
    (hjs : ∀ j, s.joined.contains j = true → s1.demes[j]? = s.demes[j]?)
    (hend : ∀ (j : Nat) (d : BDeme), s.demes[j]? = some d → bEndTime d < T')
    {T0 : Q} (h0 : T0 < T') {L : List (Nat × Row)}
    (hL : groupMoves (popNames s.numDemes) T0 s.demes (s.pulses.getD []) = .ok L) :
    groupMoves (popNames (applyParams T' s1 g1).numDemes) T0 (applyParams T' s1 g1).demes
      ((applyParams T' s1 g1).pulses.getD []) = .ok L := by
  obtain ⟨pw, tl⟩ := group_positionsW hsim he hnames hjs
  rw [groupMoves_view] at hL ⊢
  have hne : ¬ T' = T0 := fun e => by rw [e] at h0; exact Rat.lt_irrefl h0
  -- pulses
  have hP : ((applyParams T' s1 g1).pulses.getD []).filter (fun p => decide (p.time = T0))
      = (s.pulses.getD []).filter (fun p => decide (p.time = T0)) := by
    rw [applyParams_eq, (apFold T' g1 g1.params s1).1, he.pulses, List.filter_append]
    have : ((g1.params.filter (fun e => emitB g1 e.1)).map (mkPulse T')).filter (fun p => decide (p.time = T0)) = [] := by
      rw [List.filter_eq_nil_iff]
      intro p hp
      obtain ⟨e, _, rfl⟩ := List.mem_map.mp hp
      show ¬ decide (T' = T0) = true
      simpa using hne
    rw [this, List.append_nil]
  rw [hP]
  have hcongr : viewMoves (popNames s.numDemes) T0
      (((applyParams T' s1 g1).demes.filter nonTransient).map viewB)
      (((s.pulses.getD []).filter (fun p => decide (p.time = T0))).map bp2p)
      = viewMoves (popNames s.numDemes) T0 ((s.demes.filter nonTransient).map viewB)
      (((s.pulses.getD []).filter (fun p => decide (p.time = T0))).map bp2p) := by
    apply viewMoves_congr
    · rw [(view_filters T0 _).1, (view_filters T0 _).1]
      apply filter_map_pointwise
      · intro i d0 hd0
        obtain ⟨D, hD, hc⟩ := pw i d0 hd0
        refine ⟨D, hD, ?_⟩
        rcases hc with rfl | ⟨hinf, hn, hb, hs⟩
        · exact ⟨rfl, fun _ => rfl⟩
        · have hb0 := hend i d0 hd0
          have hne2 : ¬ T' = bEndTime d0 := fun e => by rw [e] at hb0; exact Rat.lt_irrefl hb0
          refine ⟨?_, fun _ => hn⟩
          unfold rowC viewB nonTransient
          dsimp only
          rw [hb, hinf]
          rcases hs with hs | hs
          · rw [hs]
          · rw [hs]
            have : T0 ≤ T' := Rat.le_of_lt h0
            simp [etime_fin_le_fin, etime_fin_le_inf, this, hne2]
      · intro i D hi hD
        obtain ⟨hb, _⟩ := tl i D hi hD
        unfold rowC viewB
        dsimp only
        rw [hb]
        have : ¬ T' < T0 := Rat.not_lt.mpr (Rat.le_of_lt h0)
        simp [this]
    · rw [(view_filters T0 _).2, (view_filters T0 _).2]
      apply filter_map_pointwise
      · intro i d0 hd0
        obtain ⟨D, hD, hc⟩ := pw i d0 hd0
        refine ⟨D, hD, ?_⟩
        rcases hc with rfl | ⟨hinf, hn, hb, hs⟩
        · exact ⟨rfl, fun _ => rfl⟩
        · have h1 : bornC T0 (viewB D) = false := by
            unfold bornC viewB
            dsimp only
            rcases hs with hs | hs
            · rw [hs]; rfl
            · rw [hs]; simpa using hne
          have h2 : bornC T0 (viewB d0) = false := by
            unfold bornC viewB
            dsimp only
            rw [hinf]; rfl
          rw [h1, h2]
          exact ⟨rfl, fun h => by simp at h⟩
      · intro i D hi hD
        obtain ⟨_, hs⟩ := tl i D hi hD
        have h1 : bornC T0 (viewB D) = false := by
          unfold bornC viewB
          dsimp only
          rcases hs with hs | hs
          · rw [hs]; rfl
          · rw [hs]; simpa using hne
        rw [h1]; rfl
  rw [← hcongr] at hL
  exact viewMoves_mono (popNames_le (by rw [(s2_lenW he).2]; exact he.n0le)) hL

end

end Demes.Proofs.FromMs
