/-
  Model of the command line (`demes/__main__.py`): `ParseCommand.__call__`,
  `ParseCommand.load_and_count_documents`, `MsCommand.__call__`, `cli`.

  Everything the command line prints is the output of a library call on a loaded graph, so the
  Model works over ABSTRACT documents and calls:

  * the input file is the list of outcomes that successive `next()` calls on the generator
    `demes.load_all(file)` produce: `Doc.ok g` (the graph with abstract identity `g` is yielded) or
    `Doc.fail` (`load_all` raises when this document is requested: YAML syntax error, null value,
    invalid model; a generator that has raised is finished, nothing after it is ever read);
  * what is printed is the list of library calls (`Call`) whose whole output has been written to
    `sys.stdout`, in order;
  * `lib : Call → Bool` says whether a library call returns normally (`true`) or raises (`false`,
    e.g. `to_ms` on a graph that ms cannot express, or with `N0 = 0`).

  The functions mirror the Python statement by statement (see the comments).  Core Lean only.
-/
import DemesVerif.Model.Num
namespace Demes.Cli

/-- outcome of requesting one document from the generator `demes.load_all(file)` -/
inductive Doc where
  | ok (g : Nat)
  | fail
  deriving DecidableEq, Repr, Inhabited

/-- `output_format` -/
inductive Fmt where
  | yaml | json | ms
  deriving DecidableEq, Repr, Inhabited

/-- the parsed options of `demes parse`: `args.json`, `args.ms` (`None` or a float),
`args.simplified` -/
structure Flags where
  json : Bool
  ms : Option Q
  simplified : Bool
  deriving DecidableEq, Repr, Inhabited

/-- a library call whose output goes to `sys.stdout` -/
inductive Call where
  /-- `print(demes.to_ms(graph, N0=n0))` -/
  | toMs (g : Nat) (n0 : Q)
  /-- `demes.dump(graph, sys.stdout, simplified=…, format=…)` -/
  | dump (g : Nat) (fmt : Fmt) (simplified : Bool)
  /-- one iteration of the loop of `demes.dump_all(graphs, sys.stdout, simplified=…)`: the
  document of `g` between `---` and `...` -/
  | dumpAllDoc (g : Nat) (simplified : Bool)
  /-- `top_parser.print_help()` -/
  | help
  deriving DecidableEq, Repr, Inhabited

/-- how the process ends -/
inductive Exit where
  /-- normal return: status 0 -/
  | exit0
  /-- `argparse` refuses the command line (status 2), or no sub-command (`exit(1)`) -/
  | usage
  /-- `demes.load_all` raised (uncaught exception: status 1) -/
  | loadError
  /-- `RuntimeError`: several models with a non-YAML output format -/
  | unsupported
  /-- the library call `c` raised; part of its output may already have been written -/
  | libError (c : Call)
  deriving DecidableEq, Repr, Inhabited

/-- `printed`: the library calls that ran to completion on `sys.stdout`, in order (so it is
what has ALREADY been written when `exit` is an error); `exit`: how the process ends -/
structure Outcome where
  printed : List Call
  exit : Exit
  deriving DecidableEq, Repr, Inhabited

/-! ### iterators -/

/-- result of `next(it)` -/
inductive Next (σ : Type) where
  /-- `StopIteration` -/
  | stop
  /-- the generator raised (and is finished) -/
  | raise
  /-- a graph and the iterator's new state -/
  | yield (g : Nat) (rest : σ)
  deriving Repr

/-- `next()` on the generator `demes.load_all(file)` whose remaining documents are `gen` -/
def genNext : List Doc → Next (List Doc)
  | [] => .stop
  | .fail :: _ => .raise
  | .ok g :: rest => .yield g rest

/-- `itertools.chain(graph_list, graph_generator)`: the not yet consumed part of the list and
the generator's remaining documents -/
structure Chain where
  buffered : List Nat
  gen : List Doc
  deriving DecidableEq, Repr, Inhabited

/-- `next()` on the chain: the list first, then the generator -/
def Chain.next : Chain → Next Chain
  | ⟨g :: bs, gen⟩ => .yield g ⟨bs, gen⟩
  | ⟨[], gen⟩ =>
    match genNext gen with
    | .stop => .stop
    | .raise => .raise
    | .yield g rest => .yield g ⟨[], rest⟩

/-! ### `load_and_count_documents` -/

/-- the `for graph in graph_generator:` loop with the list built so far; `none` = the
generator raised, otherwise the list and the generator's remaining documents -/
def lookLoop : List Doc → List Nat → Option (List Nat × List Doc)
  | [], acc => some (acc, [])                       -- StopIteration ends the loop
  | .fail :: _, _ => none                           -- the exception propagates
  | .ok g :: rest, acc =>
    let acc := acc ++ [g]                           -- graph_list.append(graph)
    if acc.length > 1 then some (acc, rest)         -- if len(graph_list) > 1: break
    else lookLoop rest acc

/-- `load_and_count_documents`: `(num_documents, graph_iter)`, or `none` when `load_all`
raises during the look-ahead -/
def loadAndCount (docs : List Doc) : Option (Nat × Chain) :=
  match lookLoop docs [] with                       -- graph_list = []; for …
  | none => none
  | some (graphList, gen) =>
    some (graphList.length, ⟨graphList, gen⟩)       -- len(graph_list), chain(graph_list, generator)

/-! ### `ParseCommand.__call__` -/

/-- `if args.json … elif args.ms is not None … else` -/
def outputFormat (f : Flags) : Fmt :=
  if f.json then .json
  else if f.ms.isSome then .ms                      -- `is not None`: `--ms 0` selects ms too
  else .yaml

/-- Python truthiness of `args.ms` (`None` and `0.0` are false) -/
def msTruthy (f : Flags) : Bool :=
  match f.ms with
  | none => false
  | some n0 => n0 != 0

/-- a single library call writing to stdout -/
def run1 (lib : Call → Bool) (c : Call) : Outcome :=
  if lib c then ⟨[c], .exit0⟩ else ⟨[], .libError c⟩

/-- `dump_all`'s loop once the chain's list is used up: the documents come from the generator,
each is written as soon as it has been loaded -/
def drainGen (lib : Call → Bool) (s : Bool) : List Doc → List Call → Outcome
  | [], out => ⟨out, .exit0⟩
  | .fail :: _, out => ⟨out, .loadError⟩
  | .ok g :: rest, out =>
    if lib (.dumpAllDoc g s) then drainGen lib s rest (out ++ [.dumpAllDoc g s])
    else ⟨out, .libError (.dumpAllDoc g s)⟩

/-- `dump_all`'s loop `for graph in graphs:` over the chain -/
def drainChain (lib : Call → Bool) (s : Bool) : List Nat → List Doc → List Call → Outcome
  | [], gen, out => drainGen lib s gen out
  | g :: bs, gen, out =>
    if lib (.dumpAllDoc g s) then drainChain lib s bs gen (out ++ [.dumpAllDoc g s])
    else ⟨out, .libError (.dumpAllDoc g s)⟩

/-- `demes.dump_all(graphs, sys.stdout, simplified=s)` -/
def dumpAll (lib : Call → Bool) (s : Bool) (c : Chain) : Outcome :=
  drainChain lib s c.buffered c.gen []

/-- `ParseCommand.__call__(args)` on the file whose document outcomes are `docs` -/
def parse (lib : Call → Bool) (f : Flags) (docs : List Doc) : Outcome :=
  let outputFormat := outputFormat f
  let _ignored := if msTruthy f && f.simplified then () else ()   -- `pass`
  match loadAndCount docs with
  | none => ⟨[], .loadError⟩
  | some (numDocuments, graphs) =>
    if numDocuments = 0 then ⟨[], .exit0⟩                          -- `pass`
    else if numDocuments = 1 then
      match graphs.next with                                       -- graph = next(graphs)
      | .stop => ⟨[], .loadError⟩
      | .raise => ⟨[], .loadError⟩
      | .yield graph _ =>
        match f.ms with                                            -- `if args.ms is not None`
        | some n0 => run1 lib (.toMs graph n0)
        | none => run1 lib (.dump graph outputFormat f.simplified)
    else
      if outputFormat != .yaml then ⟨[], .unsupported⟩            -- raise RuntimeError
      else dumpAll lib f.simplified graphs

/-! ### `MsCommand.__call__` and `cli` -/

/-- the command line after `argparse`: no sub-command; `parse` with its options, whether
`argparse.FileType` could open the file, and the file's documents; `ms` with the outcome of
`ms.build_graph(args, N0)` -/
inductive Cmd where
  | noSub
  | parse (f : Flags) (fileOk : Bool) (docs : List Doc)
  | ms (built : Doc)
  deriving Repr, Inhabited

/-- `MsCommand.__call__`: `demes.dump(graph, sys.stdout)` — YAML, `simplified=True` by default -/
def msCommand (lib : Call → Bool) (built : Doc) : Outcome :=
  match built with
  | .fail => ⟨[], .loadError⟩
  | .ok g => run1 lib (.dump g .yaml true)

/-- `cli(argv)` -/
def cli (lib : Call → Bool) : Cmd → Outcome
  | .noSub => ⟨[.help], .usage⟩                    -- print_help(); exit(1)
  | .parse f fileOk docs =>
    if f.json && f.ms.isSome then ⟨[], .usage⟩     -- mutually exclusive group
    else if !fileOk then ⟨[], .usage⟩              -- FileType: "can't open"
    else parse lib f docs
  | .ms built => msCommand lib built

end Demes.Cli
