/-
  `assert_close` / `isclose` of the event records `Split`, `Branch`, `Merge`, `Admix`
  (demes/demes.py), statement by statement, in the vocabulary of Model/Close.lean.

  Every `assert_close` is a sequence of `assert` statements:
    Split :  class; `self.parent == other.parent`; `sorted(self.children) == sorted(other.children)`;
             `math.isclose(self.time, other.time, rel_tol=, abs_tol=)`; and then `return True`
    Branch:  class; parent; child; time                                    (falls off the end: `None`)
    Merge :  class; `isclose_deme_proportions(self.parents, self.proportions, other.parents,
             other.proportions, rel_tol=, abs_tol=)`; child; time          (`None`)
    Admix :  the same text as Merge                                        (`None`)
  Every `isclose` is `try: self.assert_close(other, rel_tol=, abs_tol=); return True
  except AssertionError: return False`.

  `sorted` on a list of names is the sort by code points (`cmpS`).  The records are the ones of
  Model/Views.lean: a split carries a finite time, a branch / merger / admixture the child's start time.
  `Merge` and `Admix` are two classes with the same fields; `Record` carries the class, so that
  `assert self.__class__ is other.__class__` has a meaning.
-/
import DemesVerif.Model.Close
import DemesVerif.Model.Views
namespace Demes

/-- the `assert` of an `assert_close` that failed -/
inductive CloseFail where
  | cls | parent | children | child | proportions | time
  deriving DecidableEq, Repr

/-- what `assert_close` returns when no `assert` fails: `Split.assert_close` ends with `return True`,
the other three fall off the end -/
inductive AssertRet where
  | pyTrue | pyNone
  deriving DecidableEq, Repr

/-- `assert c` -/
def assertThat (c : Bool) (f : CloseFail) : Except CloseFail Unit :=
  if c then pure () else throw f

/-- `try: <call>; return True  except AssertionError: return False` -/
def returnsNormally {α} (r : Except CloseFail α) : Bool :=
  match r with
  | .ok _ => true
  | .error _ => false

/-! ### `Split` -/

/-- `Split.assert_close` after the class test -/
def SplitEv.assertClose (t : Tol) (a b : SplitEv) : Except CloseFail AssertRet := do
  assertThat (a.parent == b.parent) .parent
  assertThat (sortBy cmpS a.children == sortBy cmpS b.children) .children
  assertThat (closeQ t a.time b.time) .time
  pure .pyTrue

/-- `Split.isclose` (same class) -/
def SplitEv.isclose (t : Tol) (a b : SplitEv) : Bool := returnsNormally (SplitEv.assertClose t a b)

/-! ### `Branch` -/

/-- `Branch.assert_close` after the class test -/
def BranchEv.assertClose (t : Tol) (a b : BranchEv) : Except CloseFail AssertRet := do
  assertThat (a.parent == b.parent) .parent
  assertThat (a.child == b.child) .child
  assertThat (closeE t a.time b.time) .time
  pure .pyNone

/-- `Branch.isclose` (same class) -/
def BranchEv.isclose (t : Tol) (a b : BranchEv) : Bool := returnsNormally (BranchEv.assertClose t a b)

/-! ### `Merge` -/

/-- `Merge.assert_close` after the class test -/
def MergeEv.mergeAssertClose (t : Tol) (a b : MergeEv) : Except CloseFail AssertRet := do
  assertThat (iscloseDemeProportions t a.parents a.proportions b.parents b.proportions) .proportions
  assertThat (a.child == b.child) .child
  assertThat (closeE t a.time b.time) .time
  pure .pyNone

/-- `Merge.isclose` (same class) -/
def MergeEv.mergeIsclose (t : Tol) (a b : MergeEv) : Bool := returnsNormally (MergeEv.mergeAssertClose t a b)

/-! ### `Admix` (the class repeats `Merge` word for word; kept separate because the source does) -/

/-- `Admix.assert_close` after the class test -/
def MergeEv.admixAssertClose (t : Tol) (a b : MergeEv) : Except CloseFail AssertRet := do
  assertThat (iscloseDemeProportions t a.parents a.proportions b.parents b.proportions) .proportions
  assertThat (a.child == b.child) .child
  assertThat (closeE t a.time b.time) .time
  pure .pyNone

/-- `Admix.isclose` (same class) -/
def MergeEv.admixIsclose (t : Tol) (a b : MergeEv) : Bool := returnsNormally (MergeEv.admixAssertClose t a b)

/-! ### records with their class -/

/-- an event record together with its Python class -/
inductive Record where
  | split (s : SplitEv)
  | branch (b : BranchEv)
  | merge (m : MergeEv)
  | admix (m : MergeEv)
  deriving DecidableEq, Repr

/-- the name of the record's class -/
def Record.className : Record → String
  | .split _ => "Split"
  | .branch _ => "Branch"
  | .merge _ => "Merge"
  | .admix _ => "Admix"

/-- `self.assert_close(other, rel_tol=, abs_tol=)`: the first statement of all four methods is
`assert self.__class__ is other.__class__`; then the class's own asserts -/
def Record.assertClose (t : Tol) : Record → Record → Except CloseFail AssertRet
  | .split a, .split b => SplitEv.assertClose t a b
  | .branch a, .branch b => BranchEv.assertClose t a b
  | .merge a, .merge b => MergeEv.mergeAssertClose t a b
  | .admix a, .admix b => MergeEv.admixAssertClose t a b
  | _, _ => throw .cls

/-- `self.isclose(other, rel_tol=, abs_tol=)` -/
def Record.isclose (t : Tol) (a b : Record) : Bool := returnsNormally (Record.assertClose t a b)

end Demes
