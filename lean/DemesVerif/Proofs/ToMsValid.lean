/-
  C07 — what `validGraph` and `MsExpressible` give the generators of `toMs`.
-/
import DemesVerif.Proofs.ToMsAnc
import DemesVerif.Proofs.ToMsSort
import DemesVerif.Proofs.MatValid
import DemesVerif.Proofs.ResolveDemes
set_option linter.unusedSimpArgs false
set_option linter.unusedVariables false
namespace Demes.Proofs.ToMs
open Demes Demes.Ms Demes.Spec Demes.Spec.C07 Demes.Proofs.RV

/-- the clauses of `validGraph`, one hypothesis each -/
structure Clauses (g : Graph) : Prop where
  h0 : v0 g = true
  h1 : v1 g = true
  h2 : v2 g = true
  h3 : v3 g = true
  h4 : v4 g = true
  h5 : v5 g = true
  h6 : v6 g = true
  h8 : v8 g = true
  h9 : v9 g = true
  h10 : v10 g = true
  h11 : v11 g = true
  h12 : v12 g = true
  h13 : v13 g = true

theorem clauses_of_valid {g : Graph} (hv : validGraph g = true) : Clauses g := by
  simp only [validGraph, validData, Bool.and_eq_true] at hv
  obtain ⟨h0, ⟨⟨⟨⟨⟨⟨⟨⟨⟨⟨⟨h1, h2⟩, h3⟩, h4⟩, h5⟩, h6⟩, h8⟩, h9⟩, h10⟩, h11⟩, h12⟩, h13⟩⟩ := hv
  exact ⟨h0, h1, h2, h3, h4, h5, h6, h8, h9, h10, h11, h12, h13⟩

theorem nodup_names {g : Graph} (c : Clauses g) : (g.demes.map (·.name)).Nodup := by
  have := c.h1
  simp only [v1, Bool.and_eq_true, decide_eq_true_eq] at this
  exact this.2

theorem expr_epochs {g : Graph} (hx : MsExpressible g = true) {d : Deme} (hd : d ∈ g.demes) {e : Epoch}
    (he : e ∈ d.epochs) : e.sizeFunction = "constant" ∨ e.sizeFunction = "exponential" := by
  simp only [MsExpressible, Bool.and_eq_true, List.all_eq_true, Bool.or_eq_true, decide_eq_true_eq] at hx
  exact hx.1 d hd e he

theorem expr_pulses {g : Graph} (hx : MsExpressible g = true) {p : Pulse} (hp : p ∈ g.pulses) :
    p.sources.length ≤ 1 := by
  simp only [MsExpressible, Bool.and_eq_true, List.all_eq_true, decide_eq_true_eq] at hx
  exact hx.2 p hp

theorem epochOk_of_valid {g : Graph} (c : Clauses g) (hx : MsExpressible g = true) {d : Deme} (hd : d ∈ g.demes)
    {e : Epoch} (he : e ∈ d.epochs) : EpochOk e := by
  have h6 := c.h6
  simp only [v6, List.all_eq_true, Bool.and_eq_true, decide_eq_true_eq, Bool.or_eq_true, Bool.not_eq_true',
    bne_iff_ne, ne_eq, beq_iff_eq] at h6
  obtain ⟨⟨⟨⟨⟨⟨⟨⟨⟨hs, hes⟩, _⟩, _⟩, _⟩, _⟩, _⟩, hc⟩, hinf⟩, het⟩ := h6 d hd e he
  refine ⟨expr_epochs hx hd he, ?_, het, hes, hs⟩
  intro hst
  rcases hinf with h | h
  · rw [hst] at h; simp [ETime.isInf] at h
  · exact h

theorem findDeme_of_mem {g : Graph} (c : Clauses g) {d : Deme} (hd : d ∈ g.demes) : findDeme g d.name = some d := by
  have hn := nodup_names c
  obtain ⟨j, hj⟩ := List.mem_iff_getElem?.mp hd
  simp only [findDeme]
  rw [List.find?_eq_some_iff_append]
  refine ⟨by simp, ?_⟩
  have hlt : j < g.demes.length := (List.getElem?_eq_some_iff.mp hj).1
  refine ⟨g.demes.take j, g.demes.drop (j + 1), ?_, ?_⟩
  · have : g.demes[j] = d := (List.getElem?_eq_some_iff.mp hj).2
    rw [← this]; simp
  · intro a ha
    simp only [decide_eq_true_eq, Bool.not_eq_true', decide_eq_false_iff_not]
    intro hname
    obtain ⟨i, hi⟩ := List.mem_iff_getElem?.mp ha
    have hil : i < j := by
      have := (List.getElem?_eq_some_iff.mp hi).1
      simp at this; omega
    have hi' : g.demes[i]? = some a := by
      rw [List.getElem?_take] at hi; simpa [hil] using hi
    have h1 : (g.demes.map (·.name))[i]? = (g.demes.map (·.name))[j]? := by
      simp [List.getElem?_map, hi', hj, hname]
    have hi'' : i < (g.demes.map (·.name)).length := by simp; omega
    rw [List.getElem?_inj hi'' hn] at h1
    omega

theorem demeId_isSome_of_findDeme {g : Graph} (c : Clauses g) {name : String} {d : Deme}
    (h : findDeme g name = some d) : (g.demeId? name).isSome = true := by
  obtain ⟨j, hj, _⟩ := demeId_of_findDeme (nodup_names c) h
  simp [hj]

theorem deme?_isSome_of_findDeme {g : Graph} (c : Clauses g) {name : String} {d : Deme}
    (h : findDeme g name = some d) : (g.deme? name).isSome = true := by
  rw [RV.deme?_eq_findDeme c.h0, h]; rfl

theorem demeAncOk_of_valid {g : Graph} (c : Clauses g) {d : Deme} (hd : d ∈ g.demes) : DemeAncOk g d := by
  have h3 := c.h3
  have h4 := c.h4
  simp only [v3, List.all_eq_true, Bool.and_eq_true, decide_eq_true_eq, beq_iff_eq] at h3
  simp only [v4, List.all_eq_true, Bool.and_eq_true, decide_eq_true_eq, beq_iff_eq] at h4
  obtain ⟨⟨ha, hemp⟩, hpos⟩ := h3 d hd
  obtain ⟨⟨hlen, hp⟩, _⟩ := h4 d hd
  refine ⟨?_, demeId_isSome_of_findDeme c (findDeme_of_mem c hd), hlen, fun p hpm => (hp p hpm).1, ?_⟩
  · intro a ham
    have := ha a ham
    split at this
    · rename_i anc hanc; exact demeId_isSome_of_findDeme c hanc
    · cases this
  · intro hne
    cases hst : d.startTime with
    | inf =>
      rw [hst] at hemp
      simp [ETime.isInf] at hemp
      exact absurd hemp hne
    | fin t =>
      rw [hst] at hpos
      exact ⟨t, rfl, by simp only [InGen.fin_lt_fin] at hpos; grind⟩

theorem pulseOk_of_valid {g : Graph} (c : Clauses g) (hx : MsExpressible g = true) {p : Pulse} (hp : p ∈ g.pulses) :
    PulseOk g p := by
  have h11 := c.h11
  simp only [v11, List.all_eq_true] at h11
  have := h11 p hp
  simp only [Bool.and_eq_true, decide_eq_true_eq, beq_iff_eq, Bool.not_eq_true', List.isEmpty_eq_false_iff,
    List.all_eq_true] at this
  obtain ⟨⟨⟨⟨⟨⟨⟨hne, _⟩, _⟩, hlen⟩, hpr⟩, _⟩, htime⟩, hd⟩ := this
  have hle := expr_pulses hx hp
  obtain ⟨s, hs⟩ : ∃ s, p.sources = [s] := by
    cases hss : p.sources with
    | nil => exact absurd hss hne
    | cons s r =>
      cases r with
      | nil => exact ⟨s, rfl⟩
      | cons _ _ => rw [hss] at hle; simp at hle
  split at hd
  · cases hd
  · rename_i dd hdd
    simp only [Bool.and_eq_true, List.all_eq_true] at hd
    have hsrc := hd.2 s (by rw [hs]; simp)
    refine ⟨⟨s, hs, ?_⟩, demeId_isSome_of_findDeme c hdd, ?_, by grind⟩
    · split at hsrc
      · cases hsrc
      · rename_i sd hsd; exact demeId_isSome_of_findDeme c hsd
    · cases hpp : p.proportions with
      | nil => rw [hs, hpp] at hlen; simp at hlen
      | cons p0 r =>
        have := hpr p0 (by rw [hpp]; simp)
        exact ⟨p0, rfl, this.1, this.2⟩

theorem migOk_of_valid {g : Graph} (c : Clauses g) {m : Migration} (hm : m ∈ g.migrations) : MigOk g m := by
  have hf : MigFacts g := migFacts_of c.h1 c.h6 c.h8 c.h9
  obtain ⟨s, d, hs, hd, hlt, _⟩ := hf.mig m hm
  have h8 := c.h8
  simp only [v8, List.all_eq_true] at h8
  have h8m := h8 m hm
  rw [hs, hd] at h8m
  simp only [Bool.and_eq_true, decide_eq_true_eq, coexist] at h8m
  have hend := mig_end_nonneg hf hm
  refine ⟨deme?_isSome_of_findDeme c hd, deme?_isSome_of_findDeme c hs, demeId_isSome_of_findDeme c hd,
    demeId_isSome_of_findDeme c hs, hend, h8m.2.1.2, ?_⟩
  intro t ht
  rw [ht] at hlt
  simp only [InGen.fin_lt_fin] at hlt
  grind

theorem dpOk_of_valid {g : Graph} (c : Clauses g) (hx : MsExpressible g = true) :
    ∀ x ∈ dps g, DpOk g x := by
  intro x hx'
  have := (mem_sortBy _).1 hx'
  rcases List.mem_append.1 this with h | h
  · obtain ⟨p, hp, rfl⟩ := List.mem_map.1 h
    exact pulseOk_of_valid c hx (List.mem_reverse.1 hp)
  · obtain ⟨d, hd, rfl⟩ := List.mem_map.1 h
    exact demeAncOk_of_valid c hd

end Demes.Proofs.ToMs
