/-
  C07 — the graph side of the migration comparison: which rates `graphSem`'s merged migration
  segments cover.
-/
import DemesVerif.Proofs.ToMsSemMig
set_option linter.unusedSimpArgs false
set_option linter.unusedVariables false
namespace Demes.Proofs.ToMs
open Demes Demes.Ms Demes.Spec Demes.Spec.C07 Demes.Proofs.RV
open Demes.Spec.MsSem

/-- some segment of `l` contains `t` and has rate `r` -/
def CovR (l : List MigSeg) (t r : Q) : Prop := ∃ m ∈ l, m.t0 ≤ t ∧ ETime.fin t < m.t1 ∧ m.rate = r

def WfSeg (i j : Nat) (m : MigSeg) : Prop := ETime.fin m.t0 < m.t1 ∧ m.dest = i ∧ m.source = j

theorem covR_append (l1 l2 : List MigSeg) (t r : Q) : CovR (l1 ++ l2) t r ↔ CovR l1 t r ∨ CovR l2 t r := by
  unfold CovR
  constructor
  · rintro ⟨m, hm, h⟩
    rcases List.mem_append.1 hm with hm | hm
    · exact Or.inl ⟨m, hm, h⟩
    · exact Or.inr ⟨m, hm, h⟩
  · rintro (⟨m, hm, h⟩ | ⟨m, hm, h⟩)
    · exact ⟨m, List.mem_append_left _ hm, h⟩
    · exact ⟨m, List.mem_append_right _ hm, h⟩

theorem covR_singleton (m : MigSeg) (t r : Q) : CovR [m] t r ↔ (m.t0 ≤ t ∧ ETime.fin t < m.t1 ∧ m.rate = r) := by
  unfold CovR; simp

theorem mergeStep_spec {i j : Nat} {acc : List MigSeg} {m : MigSeg} (hacc : ∀ x ∈ acc, WfSeg i j x) (hm : WfSeg i j m)
    (t r : Q) :
    (CovR (mergeStep acc m) t r ↔ CovR acc t r ∨ CovR [m] t r) ∧ ∀ x ∈ mergeStep acc m, WfSeg i j x := by
  unfold mergeStep
  cases hl : acc.getLast? with
  | none =>
    have : acc = [] := by simpa using hl
    subst this
    simp only []
    refine ⟨by simp [CovR], ?_⟩
    intro x hx; simp only [List.mem_singleton] at hx; subst hx; exact hm
  | some last =>
    obtain ⟨ini, rfl⟩ := List.getLast?_eq_some_iff.mp hl
    have hlast := hacc last (by simp)
    have hini : ∀ x ∈ ini, WfSeg i j x := fun x hx => hacc x (List.mem_append_left _ hx)
    simp only []
    by_cases hc : (decide (last.t1 = ETime.fin m.t0) && decide (last.rate = m.rate)) = true
    · simp only [hc, if_true, List.dropLast_concat]
      simp only [Bool.and_eq_true, decide_eq_true_eq] at hc
      obtain ⟨ht1, hrate⟩ := hc
      have hlt : last.t0 < m.t0 := by have := hlast.1; rw [ht1] at this; exact this
      constructor
      · rw [covR_append, covR_append, covR_singleton, covR_singleton, covR_singleton, or_assoc]
        apply or_congr_right
        simp only [ht1, hrate]
        constructor
        · rintro ⟨h1, h2, h3⟩
          by_cases hlt' : t < m.t0
          · exact Or.inl ⟨h1, hlt', h3⟩
          · exact Or.inr ⟨by grind, h2, h3⟩
        · rintro (⟨h1, h2, h3⟩ | ⟨h1, h2, h3⟩)
          · refine ⟨h1, ?_, h3⟩
            have h2' : t < m.t0 := h2
            exact et_lt_of_lt_of_le (show ETime.fin t < ETime.fin m.t0 from h2') (et_le_of_lt hm.1)
          · exact ⟨by grind, h2, h3⟩
      · intro x hx
        rcases List.mem_append.1 hx with hx | hx
        · exact hini x hx
        · simp only [List.mem_singleton] at hx
          subst hx
          refine ⟨?_, hlast.2.1, hlast.2.2⟩
          exact et_lt_of_lt_of_le (show ETime.fin last.t0 < ETime.fin m.t0 from hlt) (et_le_of_lt hm.1)
    · simp only [hc, Bool.false_eq_true, if_false]
      refine ⟨covR_append _ _ _ _, ?_⟩
      intro x hx
      rcases List.mem_append.1 hx with hx | hx
      · exact hacc x hx
      · simp only [List.mem_singleton] at hx; subst hx; exact hm

theorem foldl_mergeStep_spec {i j : Nat} : ∀ (l acc : List MigSeg), (∀ x ∈ acc, WfSeg i j x) → (∀ x ∈ l, WfSeg i j x) →
    ∀ (t r : Q), (CovR (l.foldl mergeStep acc) t r ↔ CovR acc t r ∨ CovR l t r)
      ∧ ∀ x ∈ l.foldl mergeStep acc, WfSeg i j x
  | [], acc, hacc, _, t, r => ⟨by simp [CovR], hacc⟩
  | m :: l, acc, hacc, hl, t, r => by
    have hm := hl m List.mem_cons_self
    obtain ⟨h1, h2⟩ := mergeStep_spec hacc hm t r
    obtain ⟨h3, h4⟩ := foldl_mergeStep_spec l (mergeStep acc m) (fun x hx => (mergeStep_spec hacc hm t r).2 x hx)
      (fun x hx => hl x (List.mem_cons_of_mem _ hx)) t r
    refine ⟨?_, h4⟩
    rw [List.foldl_cons, h3, h1]
    have : CovR (m :: l) t r ↔ CovR [m] t r ∨ CovR l t r := covR_append [m] l t r
    rw [this, or_assoc]

theorem insertMig_perm (x : MigSeg) : ∀ l : List MigSeg, (insertMig x l).Perm (x :: l)
  | [] => List.Perm.refl _
  | y :: ys => by
    unfold insertMig
    split
    · exact List.Perm.refl _
    · exact ((insertMig_perm x ys).cons y).trans (List.Perm.swap x y ys)

theorem mem_foldr_insertMig {x : MigSeg} : ∀ {l : List MigSeg}, x ∈ l.foldr insertMig [] ↔ x ∈ l
  | [] => Iff.rfl
  | y :: ys => by
    rw [List.foldr_cons, (insertMig_perm y _).mem_iff, List.mem_cons, List.mem_cons, mem_foldr_insertMig]

/-- the merged segments of the pair `(a+1, b+1)` -/
def blockOf (raw : List MigSeg) (a b : Nat) : List MigSeg :=
  ((raw.filter (fun m => m.dest = a + 1 && m.source = b + 1 && m.rate ≠ 0)).foldr insertMig []).foldl mergeStep []

theorem mem_gMigsOf {raw : List MigSeg} {n : Nat} {m : MigSeg} :
    m ∈ gMigsOf raw n ↔ ∃ a b, a < n ∧ b < n ∧ m ∈ blockOf raw a b := by
  unfold gMigsOf blockOf
  simp only [List.mem_flatMap, List.mem_range]
  constructor
  · rintro ⟨a, ha, b, hb, h⟩; exact ⟨a, b, ha, hb, h⟩
  · rintro ⟨a, b, ha, hb, h⟩; exact ⟨a, ha, b, hb, h⟩

theorem blockOf_spec {raw : List MigSeg} (hwf : ∀ m ∈ raw, ETime.fin m.t0 < m.t1) (a b : Nat) (t r : Q) :
    (CovR (blockOf raw a b) t r ↔ ∃ m ∈ raw, m.dest = a + 1 ∧ m.source = b + 1 ∧ m.rate ≠ 0 ∧ m.t0 ≤ t ∧ ETime.fin t < m.t1 ∧ m.rate = r)
      ∧ ∀ x ∈ blockOf raw a b, x.dest = a + 1 ∧ x.source = b + 1 := by
  have hmine : ∀ x ∈ (raw.filter (fun m => m.dest = a + 1 && m.source = b + 1 && m.rate ≠ 0)).foldr insertMig [],
      WfSeg (a + 1) (b + 1) x ∧ x ∈ raw ∧ x.rate ≠ 0 := by
    intro x hx
    rw [mem_foldr_insertMig] at hx
    obtain ⟨hxr, hp⟩ := List.mem_filter.1 hx
    simp only [Bool.and_eq_true, decide_eq_true_eq, ne_eq, decide_not, Bool.not_eq_true', decide_eq_false_iff_not] at hp
    exact ⟨⟨hwf x hxr, hp.1.1, hp.1.2⟩, hxr, hp.2⟩
  obtain ⟨h1, h2⟩ := foldl_mergeStep_spec (i := a + 1) (j := b + 1) _ [] (fun _ h => by cases h)
    (fun x hx => (hmine x hx).1) t r
  refine ⟨?_, fun x hx => ⟨(h2 x hx).2.1, (h2 x hx).2.2⟩⟩
  unfold blockOf
  rw [h1]
  constructor
  · rintro (⟨m, hm, _⟩ | ⟨m, hm, ht0, ht1, hr⟩)
    · cases hm
    · obtain ⟨hw, hraw, hne⟩ := hmine m hm
      exact ⟨m, hraw, hw.2.1, hw.2.2, hne, ht0, ht1, hr⟩
  · rintro ⟨m, hraw, hd, hs, hne, ht0, ht1, hr⟩
    right
    refine ⟨m, ?_, ht0, ht1, hr⟩
    rw [mem_foldr_insertMig]
    exact List.mem_filter.2 ⟨hraw, by simp [hd, hs, hne]⟩

/-- which `(rate, time)` pairs the merged migration segments of a pair cover -/
theorem gMigsOf_cover {raw : List MigSeg} (hwf : ∀ m ∈ raw, ETime.fin m.t0 < m.t1) {n a b : Nat} (ha : a < n) (hb : b < n)
    (t r : Q) :
    (∃ m ∈ gMigsOf raw n, covers m (a + 1) (b + 1) t = true ∧ m.rate = r)
      ↔ ∃ m ∈ raw, m.dest = a + 1 ∧ m.source = b + 1 ∧ m.rate ≠ 0 ∧ m.t0 ≤ t ∧ ETime.fin t < m.t1 ∧ m.rate = r := by
  rw [← (blockOf_spec hwf a b t r).1]
  constructor
  · rintro ⟨m, hm, hc, hr⟩
    obtain ⟨a', b', _, _, hmb⟩ := mem_gMigsOf.1 hm
    simp only [covers, Bool.and_eq_true, decide_eq_true_eq] at hc
    obtain ⟨hd, hs⟩ := (blockOf_spec hwf a' b' t r).2 m hmb
    have ha' : a' = a := by have := hc.1.1.1; omega
    have hb' : b' = b := by have := hc.1.1.2; omega
    subst ha' hb'
    exact ⟨m, hmb, hc.1.2, hc.2, hr⟩
  · rintro ⟨m, hmb, ht0, ht1, hr⟩
    obtain ⟨hd, hs⟩ := (blockOf_spec hwf a b t r).2 m hmb
    exact ⟨m, mem_gMigsOf.2 ⟨a, b, ha, hb, hmb⟩, by simp [covers, hd, hs, ht0, ht1], hr⟩

end Demes.Proofs.ToMs
