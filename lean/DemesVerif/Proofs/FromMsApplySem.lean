/-
  C08, link C (movements) — `applyParams_sem`: for a good time group, the ancestry and pulses that
  `applyParams` writes, read back by `groupMoves`, give the interpreter's movement rows.
-/
import DemesVerif.Proofs.FromMsApplyGroup
import DemesVerif.Proofs.FromMsNames
namespace Demes.Proofs.FromMs
open Demes Demes.Ms Demes.Spec.MsSem Demes.Spec.C08
open Demes.Proofs.RV (bind_ok pure_ok)

/-- the (0-based) population a deme of the Builder is, by its name -/
def jOf (N : Nat) (d : BDeme) : Nat :=
  match popId (popNames N) d.name with
  | .ok m => m - 1
  | .error _ => 0

theorem jOf_name {N j : Nat} {d : BDeme} (h : d.name = Ms.demeName j) (hj : j < N) : jOf N d = j := by
  unfold jOf; rw [h, popId_popNamesC N j hj]; rfl

/-- the row filter of `groupMoves` -/
def rowP (T' : Q) (d : BDeme) : Bool :=
  (decide (bEndTime d < T') && decide (ETime.fin T' ≤ d.startTime)) && nonTransient d

/-- the born filter of `groupMoves` -/
def bornP (T' : Q) (d : BDeme) : Bool := decide (d.startTime = ETime.fin T') && nonTransient d

theorem setAnc_fields (g : GState) (j : Nat) (d : BDeme) :
    (setAnc g j d).name = d.name ∧ (setAnc g j d).startTime = d.startTime ∧ bEndTime (setAnc g j d) = bEndTime d :=
  ⟨rfl, rfl, rfl⟩

theorem nonTransient_congr {d d' : BDeme} (h1 : d'.startTime = d.startTime) (h2 : bEndTime d' = bEndTime d) :
    nonTransient d' = nonTransient d := by
  unfold nonTransient; rw [h1, h2]

theorem rowP_congr {T' : Q} {d d' : BDeme} (h1 : d'.startTime = d.startTime) (h2 : bEndTime d' = bEndTime d) :
    rowP T' d' = rowP T' d := by
  unfold rowP; rw [nonTransient_congr h1 h2, h1, h2]

theorem bornP_congr {T' : Q} {d d' : BDeme} (h1 : d'.startTime = d.startTime) (h2 : bEndTime d' = bEndTime d) :
    bornP T' d' = bornP T' d := by
  unfold bornP; rw [nonTransient_congr h1 h2, h1]

theorem groupMoves_eq (names : List String) (T : Q) (demes : List BDeme) (pulses : List BPulse) :
    groupMoves names T demes pulses = (do
      let L0 ← (demes.filter (rowP T)).mapM (fun d => do let id ← popId names d.name; pure (id, ([(id, (1 : Q))] : Row)))
      let L1 ← (pulses.filter (fun p => p.time = T)).foldlM (fun (L : List (Nat × Row)) (p : BPulse) => do
        let dest ← popId names p.dest
        let srcs ← p.sources.mapM (popId names)
        pure (pulseRows dest srcs p.proportions L)) L0
      (demes.filter (bornP T)).foldlM (fun (L : List (Nat × Row)) (d : BDeme) => do
        let me ← popId names d.name
        let ancs ← (bAncestors d).mapM (popId names)
        pure (bornRows me ancs (bProportions d) L)) L1) := by
  unfold groupMoves rowP bornP
  simp only [List.filter_filter]

/-- what is known at the end of the options of a good time group -/
structure GroupEnd (T' : Q) (s : BState) (σ : St) (s1 : BState) (g1 : GState) (L1 : List (Nat × Row))
    (ops : List MOp) : Prop where
  /-- the fragment: `NSAT` (`GoodGroup`), or `Frag3` (`GoodGroup3`) -/
  frag : NSAT ops ∨ Frag3 s.numDemes ops
  pos : ∀ o ∈ ops, 1 ≤ o.1 ∧ 1 ≤ o.2.1 ∧ 0 ≤ o.2.2 ∧ o.2.2 ≤ 1
  ub : ∀ o ∈ ops, o.1 ≤ s1.numDemes ∧ o.2.1 ≤ s1.numDemes
  joinNe : ∀ o ∈ ops, o.2.2 = 1 → o.2.1 ≠ o.1
  last : ops.Pairwise (fun o o' => o.2.2 = 1 → o'.1 ≠ o.1 ∧ o'.2.1 ≠ o.1)
  params : g1.params = ops.map op0
  rows : ∀ ir ∈ L1, ∀ k, Row.get ir.2 k = foldOps ops (delta ir.1) k
  rel : LmRel g1.lm L1
  lmLen : ∀ row ∈ g1.lm, row.length = s1.numDemes
  keys : L1.map (·.1) = (initL σ).map (·.1)
  rowsOK : ∀ ir ∈ L1, RowOK ir.2
  names : NameInv s1
  len : s1.demes.length = s1.numDemes
  n0le : s.numDemes ≤ s1.numDemes
  dOld : ∀ (j : Nat) (d : BDeme), j < s.numDemes → s1.demes[j]? = some d → ∃ d0, s.demes[j]? = some d0 ∧
    bEndTime d = bEndTime d0 ∧
    (d.startTime = d0.startTime ∨
      (d.startTime = .fin T' ∧ d0.startTime = .inf ∧ ∃ o ∈ ops, o.1 = j + 1 ∧ o.2.2 = 1))
  dNew : ∀ (j : Nat) (d : BDeme), s.numDemes ≤ j → s1.demes[j]? = some d →
    bEndTime d = T' ∧ (d.startTime = .inf ∨ d.startTime = .fin T')
  dJoin : ∀ o ∈ ops, o.2.2 = 1 → ∃ d, s1.demes[o.1 - 1]? = some d ∧ d.startTime = .fin T'
  pulses : s1.pulses = s.pulses
  srcAlive : ∀ o ∈ ops, s.joined.contains (o.1 - 1) = false

theorem fracOK_of_good {n : Nat} {cmds : List Cmd} (h : GoodGroup n cmds = true) : ∀ c ∈ cmds, FracOK c := by
  unfold GoodGroup at h
  simp only [Bool.and_eq_true, List.all_eq_true] at h
  intro c hc
  have := h.1.2 c hc
  cases c <;> first | trivial | (simpa [FracOK] using this)

theorem group_end {N0 T T' : Q} {s s1 : BState} {g1 : GState} {σ σ1 : St} {L1 : List (Nat × Row)}
    {evs : List (Event Num)}
    (hsim : SizeSim T s σ) (hT : T ≤ T') (hall : ∀ e ∈ evs, HasCmd e)
    (htime : ∀ e ∈ evs, 4 * N0 * (cmdOfD e).t = T')
    (hm : evs.foldlM (stepEvent N0 T') (s, { lm := initLm s evs, params := [] }) = .ok (s1, g1))
    (hs : (evs.map cmdOfD).foldlM (Spec.MsSem.step N0) (σ, initL σ) = .ok (σ1, L1))
    (hgood : GoodGroup s.numDemes (evs.map cmdOfD) = true) (hnames : NameInv s) :
    SizeSim T' s1 σ1 ∧ GroupEnd T' s σ s1 g1 L1 (groupOps s.numDemes (evs.map cmdOfD)) := by
  have hns : NSAT (groupOps s.numDemes (evs.map cmdOfD)) := by
    apply nsat_of_bool
    unfold GoodGroup at hgood
    simp only [Bool.and_eq_true] at hgood
    exact hgood.1.1
  have hfr : ∀ e ∈ evs, FracOK (cmdOfD e) :=
    fun e he => fracOK_of_good hgood _ (List.mem_map.mpr ⟨e, he, rfl⟩)
  obtain ⟨done, pend, hsim1, hinv, hrel, hlen⟩ := events_groupInv hns evs hsim hT hall htime hfr
    (groupInv_init hsim _ _ rfl) (initLm_rel hsim evs) (initLm_length s evs) hm hs
  have hlink : groupOps s.numDemes (evs.map cmdOfD) = done ++ flushOp s1.numDemes pend := hinv.link
  obtain ⟨pos1, jv1, last1⟩ := hinv.flushed
  obtain ⟨hkeys, hok1⟩ := steps_rowsOK _ hs (fun ir hir => by
    obtain ⟨h1, _, e, _⟩ := initL_mem hir
    rw [e]; exact rowOK_single _ _ h1)
  have hnames1 : NameInv s1 :=
    RV.foldlM_inv (fun (sg : BState × GState) => NameInv sg.1) _
      (fun a ev b ha hst => by
        obtain ⟨a1, a2⟩ := a
        obtain ⟨b1, b2⟩ := b
        exact stepEvent_names ha hst) _ _ _ hnames hm
  refine ⟨hsim1, ⟨Or.inl hns, ?_, ?_, ?_, ?_, ?_, ?_, hrel, hlen, hkeys, hok1, hnames1, ?_, hinv.n0le, ?_, hinv.dNew, ?_,
    hinv.pulses, ?_⟩⟩
  · rw [hlink]; exact pos1
  · rw [hlink]; exact hinv.ub
  · rw [hlink]; intro o ho hq; exact (hinv.joinedV o (jv1 o ho hq) hq).2
  · rw [hlink]; exact last1
  · rw [hlink]; exact hinv.params
  · rw [hlink]; exact hinv.rows
  · rw [hsim1.len, hsim1.num]
  · intro j d hj hd
    obtain ⟨d0, h0, e1, e2⟩ := hinv.dOld j d hj hd
    refine ⟨d0, h0, e1, ?_⟩
    rcases e2 with e2 | ⟨e2, e3, o, ho, e4⟩
    · exact Or.inl e2
    · exact Or.inr ⟨e2, e3, o, by rw [hlink]; exact List.mem_append_left _ ho, e4⟩
  · rw [hlink]; intro o ho hq; exact hinv.dJoin o (jv1 o ho hq) hq
  · rw [hlink]; exact hinv.srcAlive

theorem etime_fin_le_inf (a : Q) : (ETime.fin a ≤ ETime.inf) = True := by simp [LE.le, ETime.le]
theorem etime_fin_le_fin (a b : Q) : (ETime.fin a ≤ ETime.fin b) = (a ≤ b) := rfl

theorem name_at {s : BState} (h : NameInv s) {j : Nat} {d : BDeme} (hd : s.demes[j]? = some d) :
    d.name = Ms.demeName j ∧ j < s.numDemes := by
  unfold NameInv at h
  have h1 : (s.demes.map (·.name))[j]? = some d.name := by rw [List.getElem?_map, hd]; rfl
  rw [h, List.getElem?_map] at h1
  have hj : j < s.numDemes := by
    by_contra hge
    rw [List.getElem?_eq_none_iff.mpr (by simp; omega)] at h1
    cases h1
  rw [List.getElem?_range hj] at h1
  simp only [Option.map_some, Option.some.injEq] at h1
  exact ⟨h1.symm, hj⟩

/-- a deme of the state after `applyParams`, by position -/
theorem s2_at {T' : Q} {s : BState} {σ : St} {s1 : BState} {g1 : GState} {L1 : List (Nat × Row)} {ops : List MOp}
    (he : GroupEnd T' s σ s1 g1 L1 ops) {j : Nat} {D : BDeme} (hD : (applyParams T' s1 g1).demes[j]? = some D) :
    ∃ d, s1.demes[j]? = some d ∧ j < s1.numDemes ∧ D.name = Ms.demeName j ∧ D.startTime = d.startTime
      ∧ bEndTime D = bEndTime d
      ∧ D = (if g1.params.any (fun e => decide (e.1 = j)) && assignB g1 j then setAnc g1 j d else d) := by
  rw [applyParams_eq] at hD
  obtain ⟨_, _, ap3, ap4⟩ := apFold T' g1 g1.params s1
  have hj : j < s1.demes.length := by rw [← ap3]; exact (List.getElem?_eq_some_iff.mp hD).1
  have hd := List.getElem?_eq_getElem hj
  rw [ap4 j _ hd] at hD
  obtain ⟨hn, hlt⟩ := name_at he.names hd
  refine ⟨s1.demes[j], hd, hlt, ?_, ?_, ?_, ?_⟩
  · cases hD; split <;> exact hn
  · cases hD; split <;> rfl
  · cases hD; split <;> rfl
  · cases hD; rfl

theorem initL_eq (σ : St) : initL σ = ((σ.pops.zipIdx 0).filter (fun pi => alive pi.1)).map
    (fun (pi : Pop × Nat) => (pi.2 + 1, ([(pi.2 + 1, (1 : Q))] : Row))) := rfl

/-- the rows `groupMoves` starts from are the interpreter's -/
theorem rows_eq {T T' : Q} {s : BState} {σ : St} {s1 : BState} {g1 : GState} {L1 : List (Nat × Row)} {ops : List MOp}
    (hsim : SizeSim T s σ) (he : GroupEnd T' s σ s1 g1 L1 ops)
    (hend : ∀ (j : Nat) (d : BDeme), s.demes[j]? = some d → bEndTime d < T')
    (hst : ∀ (j : Nat) (d : BDeme), s.demes[j]? = some d → d.startTime = .inf ∨ ∃ t, d.startTime = .fin t ∧ t < T') :
    ((applyParams T' s1 g1).demes.filter (rowP T')).map
        (fun D => (jOf s1.numDemes D + 1, ([(jOf s1.numDemes D + 1, (1 : Q))] : Row))) = initL σ := by
  rw [initL_eq]
  apply filter_map_zipIdx
  · rw [applyParams_eq, (apFold T' g1 g1.params s1).2.2.1, he.len, ← hsim.num]; exact he.n0le
  · intro i D hD
    obtain ⟨d, hd, hlt, hname, hstD, hbD, _⟩ := s2_at he hD
    rw [rowP_congr hstD hbD]
    cases hp : σ.pops[i]? with
    | none =>
      dsimp only
      have hi : s.numDemes ≤ i := by
        rw [hsim.num]; exact List.getElem?_eq_none_iff.mp hp
      unfold rowP
      rw [(he.dNew i d hi hd).1]
      simp
    | some p =>
      dsimp only
      have hi : i < s.numDemes := by
        rw [hsim.num]; exact (List.getElem?_eq_some_iff.mp hp).1
      obtain ⟨d0, h0, e1, e2⟩ := he.dOld i d hi hd
      obtain ⟨rr, _, _, _⟩ := hsim.rel i d0 p h0 hp
      have hb := hend i d0 h0
      refine ⟨?_, by rw [jOf_name hname hlt, Nat.zero_add]⟩
      unfold rowP nonTransient alive
      rw [e1, ← rr.2.2]
      rcases hst i d0 h0 with h | ⟨t, ht, hlt'⟩
      · rw [h]
        rcases e2 with e2 | ⟨e2, _, _⟩
        · rw [e2, h]; simp [hb, etime_fin_le_inf]
        · rw [e2]
          have hne : ¬ T' = bEndTime d0 := fun e => by rw [e] at hb; exact Rat.lt_irrefl hb
          simp [hb, etime_fin_le_fin, hne]
      · rcases e2 with e2 | ⟨_, e3, _⟩
        · rw [e2, ht]
          have : ¬ T' ≤ t := Rat.not_le.mpr hlt'
          simp [etime_fin_le_fin, this]
        · rw [ht] at e3; cases e3

/-! ## the final matrix, by row -/

section
variable {T' : Q} {s : BState} {σ : St} {s1 : BState} {g1 : GState} {L1 : List (Nat × Row)} {ops : List MOp}

theorem F_zero (he : GroupEnd T' s σ s1 g1 L1 ops) {r : Nat} (hr : 1 ≤ r) : foldOps ops (delta r) 0 = 0 := by
  rw [foldOps_other ops _ 0 (fun o ho => by have := he.pos o ho; omega)]
  exact delta_ne (by omega)

/-- the Builder's matrix row of a population alive before the group -/
theorem lm_row (he : GroupEnd T' s σ s1 g1 L1 ops) {ir : Nat × Row} (hir : ir ∈ L1) :
    1 ≤ ir.1 ∧ ∀ k, lmGet g1.lm (ir.1 - 1) k = foldOps ops (delta ir.1) (k + 1) := by
  obtain ⟨h1, h2⟩ := he.rel ir hir
  exact ⟨h1, fun k => by rw [h2 k, he.rows ir hir]⟩

theorem alive_key {T : Q} (hsim : SizeSim T s σ) (he : GroupEnd T' s σ s1 g1 L1 ops) {j : Nat} {d0 : BDeme}
    (h0 : s.demes[j]? = some d0) (hinf : d0.startTime = .inf) : ∃ ir ∈ L1, ir.1 = j + 1 := by
  have hj : j < σ.pops.length := by rw [← hsim.len]; exact (List.getElem?_eq_some_iff.mp h0).1
  have hp := List.getElem?_eq_getElem hj
  obtain ⟨rr, _, _, _⟩ := hsim.rel j d0 _ h0 hp
  have hal : alive σ.pops[j] = true := by
    unfold alive; rw [← rr.2.2, hinf]; rfl
  have hmem : (j + 1) ∈ (initL σ).map (·.1) := by
    rw [initL_eq]
    apply List.mem_map.mpr
    refine ⟨(j + 1, [(j + 1, 1)]), ?_, rfl⟩
    apply List.mem_map.mpr
    refine ⟨(σ.pops[j], j), ?_, rfl⟩
    rw [List.mem_filter]
    refine ⟨?_, hal⟩
    rw [List.mem_zipIdx_iff_getElem?]
    simpa using hp
  rw [← he.keys] at hmem
  obtain ⟨ir, hir, e⟩ := List.mem_map.mp hmem
  exact ⟨ir, hir, e⟩

/-- a join in the list of moves: column zero, something at the target -/
theorem join_facts (he : GroupEnd T' s σ s1 g1 L1 ops) {o : MOp} (ho : o ∈ ops) (hq : o.2.2 = 1) :
    (∀ r, foldOps ops (delta r) o.1 = 0) ∧ 0 < foldOps ops (delta o.1) o.2.1 := by
  obtain ⟨pre, post, hsplit⟩ := List.append_of_mem ho
  have hne := he.joinNe o ho hq
  have hlast := he.last
  rw [hsplit, List.pairwise_append] at hlast
  obtain ⟨_, hl2, hl3⟩ := hlast
  have hpost : ∀ o' ∈ post, o'.1 ≠ o.1 ∧ o'.2.1 ≠ o.1 := fun o' ho' => List.rel_of_pairwise_cons hl2 ho' hq
  constructor
  · intro r
    rw [hsplit]
    exact foldOps_col_zero pre post o hq hne hpost (delta r)
  · rw [hsplit]
    have hfr : ∀ o' ∈ pre ++ o :: post, 0 ≤ o'.2.2 ∧ o'.2.2 ≤ 1 := by
      intro o' ho'
      have := he.pos o' (hsplit ▸ ho')
      exact ⟨this.2.2.1, this.2.2.2⟩
    have hpre : ∀ o' ∈ pre, o'.1 = o.1 → o'.2.2 < 1 := by
      intro o' ho' ha
      have hle := (he.pos o' (by rw [hsplit]; exact List.mem_append_left _ ho')).2.2.2
      rcases Rat.le_iff_lt_or_eq.mp hle with hl | heq
      · exact hl
      · exact ((hl3 o' ho' o (List.mem_cons_self ..) heq).1 ha.symm).elim
    rcases he.frag with hns | h3
    · exact foldOps_join_pos pre post o hq hne (hsplit ▸ hns) hfr hpre (fun o' ho' => (hpost o' ho').1)
    · apply foldOps_join_pos3 pre post o hq hne hfr hpre
      intro o' ho' hsrc
      have hmem : o' ∈ ops := by rw [hsplit]; exact List.mem_append_right _ (List.mem_cons_of_mem _ ho')
      rcases Rat.le_iff_lt_or_eq.mp (he.pos o' hmem).2.2.2 with hl | heq
      · exact hl
      · exact (h3.2 o' hmem heq o ho hsrc.symm).elim

/-- `emitB` on the Builder's matrix is `Emits` on the rows as functions -/
theorem emit_iff (he : GroupEnd T' s σ s1 g1 L1 ops) {ir : Nat × Row} (hir : ir ∈ L1) :
    emitB g1 (ir.1 - 1) = true ↔ Emits (fun r => foldOps ops (delta r)) ir.1 := by
  obtain ⟨h1, hrow⟩ := lm_row he hir
  unfold emitB Emits
  have hdiag : lmGet g1.lm (ir.1 - 1) (ir.1 - 1) = foldOps ops (delta ir.1) ir.1 := by
    rw [hrow]; congr 1; omega
  have hanc : (ancOf g1 (ir.1 - 1)).isEmpty = false ↔ ∃ k, k ≠ ir.1 ∧ 0 < foldOps ops (delta ir.1) k := by
    rw [anc_nonempty_iff]
    constructor
    · intro ⟨x, hx, hp⟩
      exact ⟨x + 1, by omega, by rw [← hrow]; exact hp⟩
    · intro ⟨k, hk, hp⟩
      have hk1 : 1 ≤ k := by
        by_contra hlt
        have : k = 0 := by omega
        rw [this, F_zero he h1] at hp
        exact Rat.lt_irrefl hp
      refine ⟨k - 1, by omega, ?_⟩
      rw [hrow]
      have : k - 1 + 1 = k := by omega
      rw [this]; exact hp
  simp only [Bool.and_eq_true, Bool.not_eq_true', decide_eq_false_iff_not, hdiag]
  rw [hanc]
  exact And.comm

/-- a population that is not joined at the start of the group has a row -/
theorem alive_row {T : Q} (hsim : SizeSim T s σ) (he : GroupEnd T' s σ s1 g1 L1 ops) {j : Nat}
    (hj : j < s.numDemes) (hnj : s.joined.contains j = false) : ∃ ir ∈ L1, ir.1 = j + 1 := by
  have hlt : j < s.demes.length := by rw [hsim.len, ← hsim.num]; exact hj
  have h0 := List.getElem?_eq_getElem hlt
  have hp : j < σ.pops.length := by rw [← hsim.num]; exact hj
  obtain ⟨rr, _, _, r4⟩ := hsim.rel j _ _ h0 (List.getElem?_eq_getElem hp)
  apply alive_key hsim he h0
  rw [rr.2.2]
  rw [hnj] at r4
  have : alive σ.pops[j] = true := by
    cases hh : alive σ.pops[j] with
    | true => rfl
    | false => rw [hh] at r4; cases r4
  simpa [alive] using this

/-- on the third fragment: a move for which no pulse is emitted has a joined source, or is trivial -/
theorem nonemit_trivial {T : Q} (hsim : SizeSim T s σ) (he : GroupEnd T' s σ s1 g1 L1 ops)
    (h3 : Frag3 s.numDemes ops) : ∀ o ∈ ops, emitB g1 (o.1 - 1) = false →
      (∃ o' ∈ ops, o'.1 = o.1 ∧ o'.2.2 = 1) ∨ o.2.1 = o.1 ∨ o.2.2 = 0 := by
  intro o ho hem
  obtain ⟨o1, _, _, _⟩ := he.pos o ho
  have hle := h3.1 o ho
  obtain ⟨ir, hir, hkey⟩ := alive_row hsim he (j := o.1 - 1) (by omega) (he.srcAlive o ho)
  have hk : ir.1 = o.1 := by omega
  have hne : ¬ Emits (fun r => foldOps ops (delta r)) o.1 := by
    intro hE
    have := (emit_iff he hir).mpr (by rw [hk]; exact hE)
    rw [hk, hem] at this
    cases this
  have hfrac : ∀ o' ∈ ops, 0 ≤ o'.2.2 ∧ o'.2.2 ≤ 1 := fun o' ho' => ⟨(he.pos o' ho').2.2.1, (he.pos o' ho').2.2.2⟩
  by_cases hJ : ∃ o' ∈ ops, o'.1 = o.1 ∧ o'.2.2 = 1
  · exact Or.inl hJ
  · right
    have hdiag : foldOps ops (delta o.1) o.1 ≠ 0 := fun e => hJ (diag_zero_joined hfrac e)
    apply trivial_of_no_offdiag (J := fun a => ∃ o' ∈ ops, o'.1 = a ∧ o'.2.2 = 1) hfrac
      (fun o' ho' ⟨o'', ho'', e1, e2⟩ => h3.2 o'' ho'' e2 o' ho' e1.symm)
      (fun o' ho' hq => ⟨o', ho', rfl, hq⟩) hJ
      (fun k hk hp => hne ⟨hdiag, k, hk, hp⟩) o ho rfl

/-- a deme that `groupMoves` treats as born at the time of the group -/
theorem born_facts {T : Q} (hsim : SizeSim T s σ) (he : GroupEnd T' s σ s1 g1 L1 ops) (hT0 : T' ≠ 0)
    (hst : ∀ (j : Nat) (d : BDeme), s.demes[j]? = some d → d.startTime = .inf ∨ ∃ t, d.startTime = .fin t ∧ t < T')
    {j : Nat} {D : BDeme} (hD : (applyParams T' s1 g1).demes[j]? = some D) (hb : bornP T' D = true) :
    BornView s1.numDemes D j (ancOf g1 j) ∧ jOf s1.numDemes D = j
      ∧ (∃ o ∈ ops, o.1 = j + 1 ∧ o.2.2 = 1) ∧ (∃ ir ∈ L1, ir.1 = j + 1) := by
  obtain ⟨d, hd, hlt, hname, hstD, hbD, hDeq⟩ := s2_at he hD
  unfold bornP at hb
  simp only [Bool.and_eq_true, decide_eq_true_eq] at hb
  obtain ⟨hb1, hb2⟩ := hb
  have hj : j < s.numDemes := by
    by_contra hge
    have := (he.dNew j d (by omega) hd).1
    unfold nonTransient at hb2
    rw [hb1] at hb2
    simp only [Bool.or_eq_true, decide_eq_true_eq] at hb2
    rcases hb2 with h | h
    · exact hT0 h
    · exact h (by rw [hbD, this])
  obtain ⟨d0, h0, _, e2⟩ := he.dOld j d hj hd
  rw [hstD] at hb1
  have hcase : d0.startTime = .inf ∧ ∃ o ∈ ops, o.1 = j + 1 ∧ o.2.2 = 1 := by
    rcases e2 with e2 | ⟨_, e3, e4⟩
    · rw [hb1] at e2
      rcases hst j d0 h0 with h | ⟨t, ht, hlt'⟩
      · rw [h] at e2; cases e2
      · rw [ht] at e2; cases e2; exact (Rat.lt_irrefl hlt').elim
    · exact ⟨e3, e4⟩
  obtain ⟨hinf, o, ho, ho1, hoq⟩ := hcase
  obtain ⟨ir, hir, hkey⟩ := alive_key hsim he h0 hinf
  obtain ⟨_, hrow⟩ := lm_row he hir
  have hj' : ir.1 - 1 = j := by omega
  rw [hj', hkey] at hrow
  obtain ⟨hcol, hpos⟩ := join_facts he ho hoq
  obtain ⟨_, ph, _, _⟩ := he.pos o ho
  have hne := he.joinNe o ho hoq
  have hassign : assignB g1 j = true := by
    unfold assignB
    simp only [Bool.and_eq_true, Bool.not_eq_true', decide_eq_true_eq]
    constructor
    · rw [anc_nonempty_iff]
      refine ⟨o.2.1 - 1, by omega, ?_⟩
      rw [hrow]
      have : o.2.1 - 1 + 1 = o.2.1 := by omega
      rw [this, ← ho1]; exact hpos
    · rw [hrow, ← ho1]; exact hcol o.1
  have hany : g1.params.any (fun e => decide (e.1 = j)) = true := by
    rw [he.params, List.any_eq_true]
    exact ⟨op0 o, List.mem_map.mpr ⟨o, ho, rfl⟩, by
      rw [decide_eq_true_eq]; show o.1 - 1 = j; omega⟩
  rw [hany, hassign] at hDeq
  simp only [Bool.and_self, if_true] at hDeq
  refine ⟨⟨hname, hlt, by rw [hDeq]; rfl, by rw [hDeq]; rfl, ancOf_lt g1 j _ he.lmLen⟩, jOf_name hname hlt,
    ⟨o, ho, ho1, hoq⟩, ⟨ir, hir, hkey⟩⟩

end

theorem forall2_map_of_keys {α} {R : Nat × Row → Nat × Row → Prop} {G : α → Nat × Row} {key : α → Nat} :
    ∀ {L0 : List α} {L1 : List (Nat × Row)}, L1.map (·.1) = L0.map key →
    (∀ x ∈ L0, ∀ b ∈ L1, b.1 = key x → R (G x) b) → List.Forall₂ R (L0.map G) L1 := by
  intro L0
  induction L0 with
  | nil =>
    intro L1 hk _
    cases L1 with
    | nil => exact List.Forall₂.nil
    | cons b L1 => simp at hk
  | cons x L0 ih =>
    intro L1 hk h
    cases L1 with
    | nil => simp at hk
    | cons b L1 =>
      simp only [List.map_cons, List.cons.injEq] at hk
      exact List.Forall₂.cons (h x (List.mem_cons_self ..) b (List.mem_cons_self ..) hk.1)
        (ih hk.2 (fun x' hx' b' hb' => h x' (List.mem_cons_of_mem _ hx') b' (List.mem_cons_of_mem _ hb')))

theorem ok_bind {α β} (a : α) (f : α → Except String β) : ((Except.ok a : Except String α) >>= f) = f a := rfl

/-- a Builder move back on populations numbered from 1 -/
def up1 (e : MOp) : MOp := (e.1 + 1, e.2.1 + 1, e.2.2)

section
variable {T T' : Q} {s : BState} {σ : St} {s1 : BState} {g1 : GState} {L1 : List (Nat × Row)} {ops : List MOp}

theorem s2_len (he : GroupEnd T' s σ s1 g1 L1 ops) :
    (applyParams T' s1 g1).demes.length = s1.numDemes ∧ (applyParams T' s1 g1).numDemes = s1.numDemes := by
  rw [applyParams_eq]
  obtain ⟨_, a2, a3, _⟩ := apFold T' g1 g1.params s1
  exact ⟨by rw [a3, he.len], a2⟩

theorem s2_jOf (he : GroupEnd T' s σ s1 g1 L1 ops) :
    (applyParams T' s1 g1).demes.map (fun D => jOf s1.numDemes D + 1) = (List.range s1.numDemes).map (· + 1) := by
  apply List.ext_getElem?
  intro i
  rw [List.getElem?_map, List.getElem?_map]
  cases hD : (applyParams T' s1 g1).demes[i]? with
  | none =>
    have : s1.numDemes ≤ i := by rw [← (s2_len he).1]; exact List.getElem?_eq_none_iff.mp hD
    rw [List.getElem?_eq_none_iff.mpr (by simpa using this)]
    rfl
  | some D =>
    obtain ⟨d, _, hlt, hname, _⟩ := s2_at he hD
    rw [List.getElem?_range hlt, Option.map_some, Option.map_some, jOf_name hname hlt]

theorem emitted_eq (he : GroupEnd T' s σ s1 g1 L1 ops) :
    (g1.params.filter (fun e => emitB g1 e.1)).map up1 = ops.filter (fun o => emitB g1 (o.1 - 1)) := by
  rw [he.params, List.filter_map, List.map_map]
  have : (ops.filter ((fun e => emitB g1 e.1) ∘ op0)) = ops.filter (fun o => emitB g1 (o.1 - 1)) := rfl
  rw [this]
  conv => rhs; rw [← List.map_id (ops.filter (fun o => emitB g1 (o.1 - 1)))]
  apply List.map_congr_left
  intro o ho
  obtain ⟨h1, h2, _⟩ := he.pos o (List.mem_filter.mp ho).1
  show (o.1 - 1 + 1, o.2.1 - 1 + 1, o.2.2) = o
  have e1 : o.1 - 1 + 1 = o.1 := by omega
  have e2 : o.2.1 - 1 + 1 = o.2.1 := by omega
  rw [e1, e2]

/-- **`applyParams_sem`, from the facts at the end of the group** -/
theorem applyParams_sem_of_end (hsim : SizeSim T s σ) (he : GroupEnd T' s σ s1 g1 L1 ops) (hT0 : T' ≠ 0)
    (hend : ∀ (j : Nat) (d : BDeme), s.demes[j]? = some d → bEndTime d < T')
    (hst : ∀ (j : Nat) (d : BDeme), s.demes[j]? = some d → d.startTime = .inf ∨ ∃ t, d.startTime = .fin t ∧ t < T')
    (hpul : ∀ p ∈ s.pulses.getD [], p.time ≠ T') :
    ∃ L2, groupMoves (popNames (applyParams T' s1 g1).numDemes) T' (applyParams T' s1 g1).demes
        ((applyParams T' s1 g1).pulses.getD []) = .ok L2 ∧ canonRows L2 = canonRows L1 := by
  obtain ⟨hlen2, hN⟩ := s2_len he
  have hmemD : ∀ D ∈ (applyParams T' s1 g1).demes, ∃ j, (applyParams T' s1 g1).demes[j]? = some D :=
    fun D hD => List.mem_iff_getElem?.mp hD
  -- the rows
  have hL0 : ((applyParams T' s1 g1).demes.filter (rowP T')).mapM
      (fun d => do let id ← popId (popNames s1.numDemes) d.name; pure (id, ([(id, (1 : Q))] : Row)))
      = .ok (initL σ) := by
    rw [rows_mapM (popNames s1.numDemes) (fun D => jOf s1.numDemes D + 1), rows_eq hsim he hend hst]
    intro D hD
    obtain ⟨j, hj⟩ := hmemD D (List.mem_filter.mp hD).1
    obtain ⟨_, _, hlt, hname, _⟩ := s2_at he hj
    rw [hname, popId_popNamesC _ _ hlt, jOf_name hname hlt]
  -- the pulses of the time
  have hps : ((applyParams T' s1 g1).pulses.getD []).filter (fun p => decide (p.time = T'))
      = (g1.params.filter (fun e => emitB g1 e.1)).map (mkPulse T') := by
    rw [applyParams_eq, (apFold T' g1 g1.params s1).1, he.pulses, List.filter_append]
    have h1 : (s.pulses.getD []).filter (fun p => decide (p.time = T')) = [] := by
      rw [List.filter_eq_nil_iff]
      intro p hp
      simpa using hpul p hp
    rw [h1, List.nil_append, List.filter_eq_self]
    intro p hp
    obtain ⟨e, _, rfl⟩ := List.mem_map.mp hp
    simp [mkPulse]
  have hes : ∀ e ∈ g1.params.filter (fun e => emitB g1 e.1), e.1 < s1.numDemes ∧ e.2.1 < s1.numDemes := by
    intro e hem
    have hm := (List.mem_filter.mp hem).1
    rw [he.params] at hm
    obtain ⟨o, ho, rfl⟩ := List.mem_map.mp hm
    obtain ⟨h1, h2, _⟩ := he.pos o ho
    obtain ⟨h3, h4⟩ := he.ub o ho
    show o.1 - 1 < _ ∧ o.2.1 - 1 < _
    omega
  -- the demes born at the time
  have hborn : ∀ D ∈ (applyParams T' s1 g1).demes.filter (bornP T'),
      BornView s1.numDemes D (jOf s1.numDemes D) (ancOf g1 (jOf s1.numDemes D))
      ∧ (∃ o ∈ ops, o.1 = jOf s1.numDemes D + 1 ∧ o.2.2 = 1) ∧ (∃ ir ∈ L1, ir.1 = jOf s1.numDemes D + 1) := by
    intro D hD
    obtain ⟨hDm, hDb⟩ := List.mem_filter.mp hD
    obtain ⟨j, hj⟩ := hmemD D hDm
    obtain ⟨v, hjo, h3, h4⟩ := born_facts hsim he hT0 hst hj hDb
    rw [hjo]
    exact ⟨v, h3, h4⟩
  refine ⟨((applyParams T' s1 g1).demes.filter (bornP T')).foldl (fun L D => L.map (fun ir =>
      (ir.1, bornRow1 (jOf s1.numDemes D + 1) ((ancOf g1 (jOf s1.numDemes D)).map (fun po => (po.2 + 1, po.1))) ir.2)))
    ((g1.params.filter (fun e => emitB g1 e.1)).foldl (fun L e => L.map (fun ir =>
      (ir.1, pulseRow1 (e.1 + 1) (e.2.1 + 1) e.2.2 ir.2))) (initL σ)), ?_, ?_⟩
  · rw [groupMoves_eq, hN, hL0, ok_bind, hps, pulses_foldlM T' s1.numDemes _ _ hes, ok_bind,
      born_foldlM s1.numDemes (jOf s1.numDemes) (fun D => ancOf g1 (jOf s1.numDemes D)) _ _ (fun D hD => (hborn D hD).1)]
  · rw [foldl_map_rows (fun (e : MOp) => pulseRow1 (e.1 + 1) (e.2.1 + 1) e.2.2),
      foldl_map_rows (fun (D : BDeme) => bornRow1 (jOf s1.numDemes D + 1)
        ((ancOf g1 (jOf s1.numDemes D)).map (fun po => (po.2 + 1, po.1)))), List.map_map]
    apply canonRows_congr
    apply forall2_map_of_keys (key := fun x => x.1) he.keys
    intro x hx b hb hkey
    obtain ⟨hx1, hx2, hxe, _⟩ := initL_mem hx
    -- the read-back structure
    have hfrac : ∀ o ∈ ops, 0 ≤ o.2.2 ∧ o.2.2 ≤ 1 := fun o ho => ⟨(he.pos o ho).2.2.1, (he.pos o ho).2.2.2⟩
    have hRB : (((((applyParams T' s1 g1).demes.filter (bornP T')).map (fun D =>
          (jOf s1.numDemes D + 1, (ancOf g1 (jOf s1.numDemes D)).map (fun po => (po.2 + 1, po.1))))).map (·.1)).Nodup)
        ∧ (∀ b ∈ (((applyParams T' s1 g1).demes.filter (bornP T')).map (fun D =>
          (jOf s1.numDemes D + 1, (ancOf g1 (jOf s1.numDemes D)).map (fun po => (po.2 + 1, po.1))))),
            ∀ r, foldOps ops (delta r) b.1 = 0)
        ∧ (∀ b ∈ (((applyParams T' s1 g1).demes.filter (bornP T')).map (fun D =>
          (jOf s1.numDemes D + 1, (ancOf g1 (jOf s1.numDemes D)).map (fun po => (po.2 + 1, po.1))))),
            ∀ k, wsum b.2 k = if k ≠ b.1 ∧ 0 < foldOps ops (delta b.1) k
              then foldOps ops (delta b.1) k else 0) := by
      refine ⟨?_, ?_, ?_⟩
      · rw [List.map_map]
        have hsub : (((applyParams T' s1 g1).demes.filter (bornP T')).map (fun D => jOf s1.numDemes D + 1)).Sublist
            ((applyParams T' s1 g1).demes.map (fun D => jOf s1.numDemes D + 1)) :=
          List.Sublist.map _ List.filter_sublist
        rw [s2_jOf he] at hsub
        apply List.Nodup.sublist hsub
        unfold List.Nodup
        rw [List.pairwise_map]
        exact (List.nodup_range).imp (fun hab e => hab (by omega))
      · intro bb hbb r
        obtain ⟨D, hD, rfl⟩ := List.mem_map.mp hbb
        obtain ⟨_, ⟨o, ho, ho1, hoq⟩, _⟩ := hborn D hD
        dsimp only
        rw [← ho1]
        exact (join_facts he ho hoq).1 r
      · intro bb hbb k
        obtain ⟨D, hD, rfl⟩ := List.mem_map.mp hbb
        obtain ⟨_, _, ⟨ir, hir, hkey'⟩⟩ := hborn D hD
        obtain ⟨h1, hrow⟩ := lm_row he hir
        dsimp only
        rw [wsum_ancOf]
        have hj' : ir.1 - 1 = jOf s1.numDemes D := by omega
        rw [hj', hkey'] at hrow
        by_cases hk : 1 ≤ k
        · have e : k - 1 + 1 = k := by omega
          rw [hrow, e]
          by_cases hc : k ≠ jOf s1.numDemes D + 1 ∧ 0 < foldOps ops (delta (jOf s1.numDemes D + 1)) k
          · rw [if_pos ⟨hk, by omega, hc.2⟩, if_pos hc]
          · rw [if_neg (fun h => hc ⟨by omega, h.2.2⟩), if_neg hc]
        · have hk0 : k = 0 := by omega
          subst hk0
          rw [if_neg (by omega), F_zero he (by omega), if_neg (fun h => Rat.lt_irrefl h.2)]
    have hjoin : ∀ o ∈ ops, o.1 = x.1 → o.2.2 = 1 → x.1 ∈
        (((applyParams T' s1 g1).demes.filter (bornP T')).map (fun D =>
          (jOf s1.numDemes D + 1, (ancOf g1 (jOf s1.numDemes D)).map (fun po => (po.2 + 1, po.1))))).map (·.1) := by
      intro o ho ho1 hoq
      obtain ⟨d, hd, hdst⟩ := he.dJoin o ho hoq
      rw [ho1] at hd
      have hjlt : x.1 - 1 < s.numDemes := by rw [hsim.num]; omega
      have hlt2 : x.1 - 1 < (applyParams T' s1 g1).demes.length := by
        rw [hlen2, ← he.len]; exact (List.getElem?_eq_some_iff.mp hd).1
      have hD := List.getElem?_eq_getElem hlt2
      obtain ⟨d', hd', hlt, hname, hstD, hbD, _⟩ := s2_at he hD
      rw [hd] at hd'
      cases hd'
      obtain ⟨d0, h0, e1, _⟩ := he.dOld _ d hjlt hd
      have hbp : bornP T' (applyParams T' s1 g1).demes[x.1 - 1] = true := by
        unfold bornP nonTransient
        rw [hstD, hdst, hbD, e1]
        have hb := hend _ d0 h0
        have hne : ¬ T' = bEndTime d0 := fun e => by rw [e] at hb; exact Rat.lt_irrefl hb
        simp [hne]
      rw [List.map_map]
      apply List.mem_map.mpr
      refine ⟨_, List.mem_filter.mpr ⟨List.getElem_mem hlt2, hbp⟩, ?_⟩
      show jOf s1.numDemes _ + 1 = x.1
      rw [jOf_name hname hlt]
      omega
    have hrb : foldBorn (((applyParams T' s1 g1).demes.filter (bornP T')).map (fun D =>
          (jOf s1.numDemes D + 1, (ancOf g1 (jOf s1.numDemes D)).map (fun po => (po.2 + 1, po.1)))))
        (foldOps (ops.filter (fun o => (fun a => emitB g1 (a - 1)) o.1)) (delta x.1))
        = foldOps ops (delta x.1) := by
      rcases he.frag with hns | h3
      · exact readBack_row (F := fun r => foldOps ops (delta r)) ⟨hns, hfrac, hRB.1, hRB.2.1, hRB.2.2⟩ x.1 rfl hjoin (fun a => emitB g1 (a - 1))
          (by rw [← hkey]; exact emit_iff he hb)
      · exact readBack_row3 (F := fun r => foldOps ops (delta r)) ⟨h3.2, hfrac, hRB.1, hRB.2.1, hRB.2.2⟩ x.1 rfl hjoin (fun a => emitB g1 (a - 1))
          (by rw [← hkey]; exact fun hem => ((emit_iff he hb).mp hem).1)
          (nonemit_trivial hsim he h3)
    -- the row `groupMoves` computes, as a function
    have hget : (fun y => Row.get (((applyParams T' s1 g1).demes.filter (bornP T')).foldl
        (fun r D => bornRow1 (jOf s1.numDemes D + 1) ((ancOf g1 (jOf s1.numDemes D)).map (fun po => (po.2 + 1, po.1))) r)
        ((g1.params.filter (fun e => emitB g1 e.1)).foldl
          (fun r e => pulseRow1 (e.1 + 1) (e.2.1 + 1) e.2.2 r) x.2)) y)
        = foldOps ops (delta x.1) := by
      rw [foldl_get _ (fun (D : BDeme) => bornF (jOf s1.numDemes D + 1)
            ((ancOf g1 (jOf s1.numDemes D)).map (fun po => (po.2 + 1, po.1))))
          (fun D r y => bornRow1_get _ _ r y),
        foldl_get _ (fun (e : MOp) => opF (up1 e)) (fun e r y => pulseRow1_get _ _ _ r y)]
      have h0 : (fun y => Row.get x.2 y) = delta x.1 := by
        funext y; rw [hxe, single_get]
      rw [h0, ← hrb, ← emitted_eq he]
      unfold foldBorn foldOps
      rw [List.foldl_map, List.foldl_map]
    refine ⟨hkey.symm, ?_, he.rowsOK b hb, ?_⟩
    · apply foldl_rowOK
      · intro D hD r hr
        exact bornRow1_ok hr (by omega) (fun ap hap => by
          obtain ⟨po, _, rfl⟩ := List.mem_map.mp hap
          show 1 ≤ po.2 + 1
          omega)
      · apply foldl_rowOK
        · intro e _ r hr
          exact pulseRow1_ok _ hr (by omega) (by omega)
        · rw [hxe]; exact rowOK_single _ _ hx1
    · intro k
      rw [he.rows b hb k, hkey]
      exact congrFun hget k

end

/-- **`applyParams_sem`.**  A good time group of the run: the Builder state `s` and the interpreter
state `σ` correspond (`SizeSim`), both process the options `evs` of the group at time `T' ≠ 0`, all
demes of `s` are older than `T'` and none of them starts at `T'` or later unless it is alive, no
pulse of `s` is at `T'`.  Then the ancestry and the pulses that `applyParams` writes, read back by
`groupMoves` the way `graphSem` reads a graph, are the interpreter's movement matrix of the group
(in canonical form). -/
theorem applyParams_sem {N0 T T' : Q} {s s1 : BState} {g1 : GState} {σ σ1 : St} {L1 : List (Nat × Row)}
    {evs : List (Event Num)}
    (hsim : SizeSim T s σ) (hT : T ≤ T') (hall : ∀ e ∈ evs, HasCmd e)
    (htime : ∀ e ∈ evs, 4 * N0 * (cmdOfD e).t = T')
    (hm : evs.foldlM (stepEvent N0 T') (s, { lm := initLm s evs, params := [] }) = .ok (s1, g1))
    (hs : (evs.map cmdOfD).foldlM (Spec.MsSem.step N0) (σ, initL σ) = .ok (σ1, L1))
    (hgood : GoodGroup s.numDemes (evs.map cmdOfD) = true) (hT0 : T' ≠ 0) (hnames : NameInv s)
    (hend : ∀ (j : Nat) (d : BDeme), s.demes[j]? = some d → bEndTime d < T')
    (hst : ∀ (j : Nat) (d : BDeme), s.demes[j]? = some d → d.startTime = .inf ∨ ∃ t, d.startTime = .fin t ∧ t < T')
    (hpul : ∀ p ∈ s.pulses.getD [], p.time ≠ T') :
    ∃ L2, groupMoves (popNames (applyParams T' s1 g1).numDemes) T' (applyParams T' s1 g1).demes
        ((applyParams T' s1 g1).pulses.getD []) = .ok L2 ∧ canonRows L2 = canonRows L1 := by
  obtain ⟨_, he⟩ := group_end hsim hT hall htime hm hs hgood hnames
  exact applyParams_sem_of_end hsim he hT0 hend hst hpul

end Demes.Proofs.FromMs
