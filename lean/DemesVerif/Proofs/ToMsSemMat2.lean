/-
  C07 — the migration matrix of `msSemG` along a run: every entry between two initial
  populations is the last rate written into it, or `0` once one of them has been joined.
-/
import DemesVerif.Proofs.ToMsSemMat
set_option linter.unusedSimpArgs false
set_option linter.unusedVariables false
namespace Demes.Proofs.ToMs
open Demes Demes.Ms Demes.Spec Demes.Spec.C07 Demes.Proofs.RV
open Demes.Spec.MsSem

def joinedIn (pre : List (Event Growth)) (a : Nat) : Bool := pre.any (isJoinIdx a)

def isMigIdx (a b : Nat) : Event Growth → Bool
  | .migEntryChange _ _ i j (.fin _) => idx i = a && idx j = b
  | _ => false

def lastMig (pre : List (Event Growth)) (a b : Nat) : Q :=
  match (pre.filter (isMigIdx a b)).getLast? with
  | some (.migEntryChange _ _ _ _ (.fin r)) => r
  | _ => 0

def entryAfter (N0 : Q) (pre : List (Event Growth)) (a b : Nat) : Q :=
  if joinedIn pre a || joinedIn pre b then 0 else lastMig pre a b / (4 * N0)

theorem joinedIn_snoc (pre : List (Event Growth)) (e : Event Growth) (a : Nat) :
    joinedIn (pre ++ [e]) a = (joinedIn pre a || isJoinIdx a e) := by
  simp [joinedIn, List.any_append]

theorem lastMig_snoc_other {pre : List (Event Growth)} {e : Event Growth} {a b : Nat} (h : isMigIdx a b e = false) :
    lastMig (pre ++ [e]) a b = lastMig pre a b := by
  simp [lastMig, List.filter_append, List.filter_cons, h]

theorem lastMig_snoc_hit {pre : List (Event Growth)} {o : String} {t : Num} {i j : Int} {r : Q} :
    lastMig (pre ++ [.migEntryChange o t i j (.fin r)]) (idx i) (idx j) = r := by
  simp [lastMig, List.filter_append, List.filter_cons, isMigIdx]

theorem entryAfter_snoc_other {N0 : Q} {pre : List (Event Growth)} {e : Event Growth} {a b : Nat}
    (hj1 : isJoinIdx a e = false) (hj2 : isJoinIdx b e = false) (hm : isMigIdx a b e = false) :
    entryAfter N0 (pre ++ [e]) a b = entryAfter N0 pre a b := by
  simp [entryAfter, joinedIn_snoc, hj1, hj2, lastMig_snoc_other hm]

/-- the invariant of the run -/
structure MatInv (N0 : Q) (n0 : Nat) (s : StG) (pre : List (Event Growth)) : Prop where
  square : Square s.pops.length s.mat
  len : n0 ≤ s.pops.length
  entry : ∀ a b, a < n0 → b < n0 → a ≠ b → matGet s.mat a b = entryAfter N0 pre a b

theorem not_joined_of_alive {N0 : Q} {n0 : Nat} {pre : List (Event Growth)} {i : Int}
    (h : AliveIn (runP N0 (s0Of N0 n0) pre) i) (hi : idx i < n0) : joinedIn pre (idx i) = false := by
  obtain ⟨_, p, hp, hhi⟩ := h
  have h0 : (s0Of N0 n0).pops[idx i]? = some { lo := 0, upd := [⟨0, some N0, some .zero⟩] } := by
    simp [s0Of, List.getElem?_replicate, hi]
  rw [runP_pops_get pre h0] at hp
  cases hp
  simp only [hiFrom] at hhi
  cases hf : (pre.filter (isJoinIdx (idx i))).getLast? with
  | some x => rw [hf] at hhi; cases hhi
  | none =>
    have hnil : pre.filter (isJoinIdx (idx i)) = [] := by simpa using hf
    unfold joinedIn
    rw [Bool.eq_false_iff]
    intro hany
    obtain ⟨x, hx, hxj⟩ := List.any_eq_true.1 hany
    have : x ∈ pre.filter (isJoinIdx (idx i)) := List.mem_filter.2 ⟨hx, hxj⟩
    rw [hnil] at this; cases this

theorem alive_idx_lt {s : StG} {i : Int} (h : AliveIn s i) : idx i < s.pops.length := by
  obtain ⟨_, p, hp, _⟩ := h
  exact (List.getElem?_eq_some_iff.mp hp).1

theorem matInv_step {N0 : Q} {n0 : Nat} {pre : List (Event Growth)} {e : Event Growth}
    (hinv : MatInv N0 n0 (runP N0 (s0Of N0 n0) pre) pre) (hok : OkEv (runP N0 (s0Of N0 n0) pre) e) :
    MatInv N0 n0 (runP N0 (s0Of N0 n0) (pre ++ [e])) (pre ++ [e]) := by
  rw [runP_append]
  show MatInv N0 n0 (stepP N0 (runP N0 (s0Of N0 n0) pre) e) (pre ++ [e])
  generalize hs : runP N0 (s0Of N0 n0) pre = s at hinv hok
  cases e with
  | popSizeChange o t i x =>
    obtain ⟨_, ⟨y, rfl⟩, _⟩ := hok
    refine ⟨by simpa [stepP, updPop] using hinv.square, by simpa [stepP, updPop] using hinv.len, ?_⟩
    intro a b ha hb hab
    rw [entryAfter_snoc_other rfl rfl rfl]
    simpa [stepP, updPop] using hinv.entry a b ha hb hab
  | popGrowthRateChange o t i al =>
    refine ⟨by simpa [stepP, updPop] using hinv.square, by simpa [stepP, updPop] using hinv.len, ?_⟩
    intro a b ha hb hab
    rw [entryAfter_snoc_other rfl rfl rfl]
    simpa [stepP, updPop] using hinv.entry a b ha hb hab
  | migEntryChange o t i j r =>
    obtain ⟨_, ⟨y, rfl⟩, hai, haj, hne⟩ := hok
    have hi := alive_idx_lt hai
    have hj := alive_idx_lt haj
    refine ⟨by simpa [stepP, StG.snap] using square_matSet hinv.square _ _ _,
      by simpa [stepP, StG.snap] using hinv.len, ?_⟩
    intro a b ha hb hab
    have hget : matGet (stepP N0 s (.migEntryChange o t i j (.fin y))).mat a b
        = if a = idx i ∧ b = idx j then y / (4 * N0) else matGet s.mat a b := by
      simp only [stepP, StG.snap]
      exact matGet_matSet hinv.square hi hj _ a b
    rw [hget]
    by_cases hhit : a = idx i ∧ b = idx j
    · obtain ⟨rfl, rfl⟩ := hhit
      rw [← hs] at hai haj
      simp only [if_true, and_self, entryAfter, joinedIn_snoc, isJoinIdx, Bool.or_false,
        not_joined_of_alive hai ha, not_joined_of_alive haj hb, Bool.false_eq_true, if_false, lastMig_snoc_hit]
    · rw [if_neg hhit, hinv.entry a b ha hb hab]
      have hm : isMigIdx a b (.migEntryChange o t i j (.fin y)) = false := by
        simp only [isMigIdx, Bool.and_eq_false_iff, decide_eq_false_iff_not]
        by_cases h1 : idx i = a
        · right; intro h2; exact hhit ⟨h1.symm, h2.symm⟩
        · left; exact h1
      rw [entryAfter_snoc_other rfl rfl hm]
  | split o t i p =>
    obtain ⟨_, ⟨y, rfl, _, _⟩, _⟩ := hok
    refine ⟨by simpa [stepP, StG.snap] using square_extendMat hinv.square,
      by simp [stepP, StG.snap]; have := hinv.len; omega, ?_⟩
    intro a b ha hb hab
    rw [entryAfter_snoc_other rfl rfl rfl]
    have hlen := hinv.len
    simp only [stepP, StG.snap]
    rw [matGet_extendMat hinv.square (by omega) (by omega)]
    exact hinv.entry a b ha hb hab
  | join o t i j =>
    refine ⟨by simpa [stepP, StG.snap, updPop] using square_zeroRC _ _ _,
      by simpa [stepP, StG.snap, updPop] using hinv.len, ?_⟩
    intro a b ha hb hab
    have hlen := hinv.len
    simp only [stepP, StG.snap, updPop]
    rw [matGet_zeroRC _ _ (by omega) (by omega)]
    by_cases hz : a = idx i ∨ b = idx i
    · rw [if_pos hz]
      simp only [entryAfter, joinedIn_snoc, isJoinIdx]
      rcases hz with rfl | rfl <;> simp
    · rw [if_neg hz, hinv.entry a b ha hb hab]
      have h1 : isJoinIdx a (.join o t i j) = false := by
        simp only [isJoinIdx, decide_eq_false_iff_not]; intro h; exact hz (Or.inl h.symm)
      have h2 : isJoinIdx b (.join o t i j) = false := by
        simp only [isJoinIdx, decide_eq_false_iff_not]; intro h; exact hz (Or.inr h.symm)
      rw [entryAfter_snoc_other h1 h2 rfl]
  | growthRateChange => exact hok.elim
  | sizeChange => exact hok.elim
  | migRateChange => exact hok.elim
  | migMatrixChange => exact hok.elim

theorem matInv_init (N0 : Q) (n0 : Nat) : MatInv N0 n0 (s0Of N0 n0) [] := by
  refine ⟨by simpa [s0Of] using square_zeros n0, by simp [s0Of], ?_⟩
  intro a b _ _ _
  simp [s0Of, matGet_zeros, entryAfter, joinedIn, lastMig, InGen.zero_div]

theorem matInv_run {N0 : Q} {n0 : Nat} : ∀ (post pre : List (Event Growth)),
    MatInv N0 n0 (runP N0 (s0Of N0 n0) pre) pre →
    (∀ p e q, post = p ++ e :: q → OkEv (runP N0 (s0Of N0 n0) (pre ++ p)) e) →
    MatInv N0 n0 (runP N0 (s0Of N0 n0) (pre ++ post)) (pre ++ post)
  | [], pre, h, _ => by simpa using h
  | e :: r, pre, h, hok => by
    have h1 := matInv_step h (by simpa using hok [] e r rfl)
    have := matInv_run r (pre ++ [e]) h1 (fun p e' q hr => by
      have := hok (e :: p) e' q (by rw [hr]; rfl)
      simpa using this)
    simpa using this

end Demes.Proofs.ToMs
