#!/bin/sh
# queue.sh N "P k" "P k" ... : evaluate sequentially in copy N, after anything already running there
N=$1; shift
cd /tmp/seed8
while ps -eo args | grep -q "[/]tmp/eval$N/verif/harness/seed_eval.py"; do sleep 5; done
exec flock /tmp/eval$N.lock sh -c 'N=$0; for job in "$@"; do python3 eval.py $N $job; done' "$N" "$@"
