/-
  Declarative specification of the discrete demographic events (C14).

  Everything here is defined by filtering the deme list; nothing imitates the loop of
  `Graph.discrete_demographic_events`.  Demes are found by their own name (`findDeme`), not
  through the name index.
-/
import DemesVerif.Spec.Relations
namespace Demes.Spec
open Demes

/-- the deme called `a` exists and ends exactly at time `t` -/
def endsAt (g : Graph) (a : String) (t : ETime) : Bool :=
  match findDeme g a with
  | some p => t == ETime.fin p.endTime
  | none => false

/-- every ancestor of `d` ends exactly when `d` starts -/
def aligned (g : Graph) (d : Deme) : Bool := d.ancestors.all (fun a => endsAt g a d.startTime)

/-- `d` has exactly one ancestor, and that ancestor ends when `d` starts -/
def isSplitChild (g : Graph) (d : Deme) : Bool := d.ancestors.length == 1 && aligned g d

/-- `d` has exactly one ancestor, and that ancestor lives on after `d` starts -/
def isBranchChild (g : Graph) (d : Deme) : Bool := d.ancestors.length == 1 && !aligned g d

/-- `d` has several ancestors, all of which end when `d` starts -/
def isMergerChild (g : Graph) (d : Deme) : Bool := decide (2 ≤ d.ancestors.length) && aligned g d

/-- `d` has several ancestors, not all of which end when `d` starts -/
def isAdmixChild (g : Graph) (d : Deme) : Bool := decide (2 ≤ d.ancestors.length) && !aligned g d

/-- the branch event creating `d`, if `d` is a branch child -/
def branchEvOf? (g : Graph) (d : Deme) : Option BranchEv :=
  match d.ancestors with
  | [p] => if endsAt g p d.startTime then none
           else some { parent := p, child := d.name, time := d.startTime }
  | _ => none

/-- branches: demes with exactly one ancestor `p` whose end time is not the deme's start
time, each giving `⟨p, name, start time⟩`, in deme order -/
def specBranches (g : Graph) : List BranchEv := g.demes.filterMap (branchEvOf? g)

def mergeEvOf (d : Deme) : MergeEv :=
  { parents := d.ancestors, proportions := d.proportions, child := d.name, time := d.startTime }

/-- mergers: demes with at least two ancestors that all end at the deme's start, in deme
order -/
def specMergers (g : Graph) : List MergeEv := (g.demes.filter (isMergerChild g)).map mergeEvOf

/-- admixtures: demes with at least two ancestors that do not all end at the deme's start,
in deme order -/
def specAdmixtures (g : Graph) : List MergeEv := (g.demes.filter (isAdmixChild g)).map mergeEvOf

/-- the split children of `pd`: demes whose only ancestor is `pd` and that start exactly when
`pd` ends, in deme order -/
def splitChildren (g : Graph) (pd : Deme) : List Deme :=
  g.demes.filter (fun c => c.ancestors == [pd.name] && c.startTime == ETime.fin pd.endTime)

/-- splits: one per deme having at least one split child, in (parent) deme order -/
def specSplits (g : Graph) : List SplitEv :=
  g.demes.filterMap (fun pd =>
    let cs := splitChildren g pd
    if cs.isEmpty then none
    else some { parent := pd.name, children := cs.map (·.name), time := pd.endTime })

/-- two split events are the same up to the order of their children (a Python `set`) -/
def SplitEv.Equiv (a b : SplitEv) : Prop :=
  a.parent = b.parent ∧ a.time = b.time ∧ a.children.Perm b.children

/-- two split lists of the same length agree position by position, up to the order of each
children list -/
def splitsPointwise : List SplitEv → List SplitEv → Prop
  | [], [] => True
  | x :: xs, y :: ys => SplitEv.Equiv x y ∧ splitsPointwise xs ys
  | _, _ => False

/-- two split lists agree up to the order of the list and of each children list -/
def splitsAgree (xs ys : List SplitEv) : Prop :=
  ∃ zs : List SplitEv, zs.Perm ys ∧ splitsPointwise xs zs

/-- the names of all demes the four spec lists account for, with multiplicity:
split children, branch children, merger children, admixture children -/
def accountedChildren (g : Graph) : List String :=
  (specSplits g).flatMap (·.children) ++ (specBranches g).map (·.child)
    ++ (specMergers g).map (·.child) ++ (specAdmixtures g).map (·.child)

end Demes.Spec
