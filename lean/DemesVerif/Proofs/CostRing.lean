/-
  C20, part 3: the symmetric-group search is exponential on rings (F9), and is skipped when
  no two migrations share `(rate, start, end)`.
-/
import DemesVerif.Proofs.CostSearch
import Mathlib.Data.Nat.Choose.Sum
namespace Demes.Proofs
open Demes Demes.Cost Demes.Spec

/-! ### `collapseDemes` -/

def collapseStep (acc : List String) (p : String × String) : List String :=
  let acc := if acc.contains p.1 then acc else acc ++ [p.1]
  if acc.contains p.2 then acc else acc ++ [p.2]

theorem collapseDemes_eq (pairs : List (String × String)) :
    collapseDemes pairs = pairs.foldl collapseStep [] := rfl

theorem mem_collapseStep (acc : List String) (p : String × String) (x : String) :
    x ∈ collapseStep acc p ↔ x ∈ acc ∨ x = p.1 ∨ x = p.2 := by
  simp only [collapseStep, List.contains_iff_mem]
  split <;> split <;> simp_all <;> grind

theorem nodup_collapseStep (acc : List String) (p : String × String) (h : acc.Nodup) :
    (collapseStep acc p).Nodup := by
  simp only [collapseStep, List.contains_iff_mem]
  split <;> split <;> simp_all [List.nodup_append] <;> grind

theorem mem_foldl_collapse (pairs : List (String × String)) : ∀ (acc : List String) (x : String),
    x ∈ pairs.foldl collapseStep acc ↔ x ∈ acc ∨ ∃ p ∈ pairs, x = p.1 ∨ x = p.2 := by
  induction pairs with
  | nil => simp
  | cons p ps ih =>
    intro acc x
    simp only [List.foldl_cons, ih, mem_collapseStep, List.mem_cons, exists_eq_or_imp]
    grind

theorem nodup_foldl_collapse (pairs : List (String × String)) : ∀ (acc : List String),
    acc.Nodup → (pairs.foldl collapseStep acc).Nodup := by
  induction pairs with
  | nil => simp
  | cons p ps ih =>
    intro acc h
    simp only [List.foldl_cons]
    exact ih _ (nodup_collapseStep acc p h)

theorem mem_collapseDemes (pairs : List (String × String)) (x : String) :
    x ∈ collapseDemes pairs ↔ ∃ p ∈ pairs, x = p.1 ∨ x = p.2 := by
  rw [collapseDemes_eq, mem_foldl_collapse]; simp

theorem nodup_collapseDemes (pairs : List (String × String)) : (collapseDemes pairs).Nodup := by
  rw [collapseDemes_eq]; exact nodup_foldl_collapse pairs [] List.nodup_nil

/-! ### `perms2` -/

theorem mem_perms2 (c : List String) (a b : String) (i j : Nat) (hij : i ≠ j)
    (hi : c[i]? = some a) (hj : c[j]? = some b) : (a, b) ∈ perms2 c := by
  simp only [perms2, List.mem_flatMap, List.mem_filterMap]
  refine ⟨(a, i), List.mem_zipIdx_iff_getElem?.mpr hi, (b, j), List.mem_zipIdx_iff_getElem?.mpr hj, ?_⟩
  simp [hij]

/-! ### a pass over subsets none of which is fully connected -/

theorem tryCombinationsC_none_aux (k : RateKey) (st : SearchState) :
    ∀ (sets : List (List String)) (t0 : Nat),
    (∀ c ∈ sets, (perms2 c).all (fun p => st.pairs.contains p) = false) →
    ∃ t, t0 + sets.length ≤ t ∧
      sets.foldl (fun (acc : (SearchState × Bool) × Nat) demeSet =>
        let ((st, compressed), ticks) := acc
        let ps := perms2 demeSet
        let ticks := ticks + costSubset ps st.pairs
        if ps.all (fun p => st.pairs.contains p) then
          let st' := ps.foldl (fun (s : SearchState) p =>
            { s with
              asymmetric := s.asymmetric.erase { source := p.1, dest := p.2, start := k.2.1, stop := k.2.2, rate := k.1 }
              pairs := s.pairs.erase p }) st
          (({ st' with symmetric := st'.symmetric ++ [{ demes := demeSet, rate := k.1, start := k.2.1, stop := k.2.2 }] }, true), ticks)
        else ((st, compressed), ticks)) ((st, false), t0) = ((st, false), t)
  | [], t0, _ => ⟨t0, by simp, rfl⟩
  | c :: sets, t0, h => by
    have hc := h c (by simp)
    simp only [List.foldl_cons, hc, Bool.false_eq_true, if_false]
    obtain ⟨t, ht, e⟩ := tryCombinationsC_none_aux k st sets (t0 + costSubset (perms2 c) st.pairs)
      (fun c' hc' => h c' (by simp [hc']))
    refine ⟨t, ?_, e⟩
    have : 1 ≤ costSubset (perms2 c) st.pairs := by simp only [costSubset]; omega
    simp only [List.length_cons]; omega

/-- if no candidate subset is fully connected, the pass changes nothing and costs at least one
tick per subset -/
theorem tryCombinationsC_none (k : RateKey) (st : SearchState) (sets : List (List String))
    (h : ∀ c ∈ sets, (perms2 c).all (fun p => st.pairs.contains p) = false) :
    ∃ t, sets.length ≤ t ∧ tryCombinationsC k sets st = ((st, false), t) := by
  obtain ⟨t, ht, e⟩ := tryCombinationsC_none_aux k st sets 0 h
  exact ⟨t, by omega, e⟩

/-- partial sums of binomial coefficients -/
def chooseUpTo (m i : Nat) : Nat := ∑ j ∈ Finset.range (i + 1), Nat.choose m j

/-- descending from `i` to 3 without ever compressing examines `Σ_{j=3}^{i} C(m, j)` subsets -/
theorem searchLoopC_descent (k : RateKey) (L : List String) (st : SearchState) (hL : 2 ≤ L.length)
    (hno : ∀ i, 3 ≤ i → ∀ c ∈ combinations L i, (perms2 c).all (fun p => st.pairs.contains p) = false) :
    ∀ (i fuel : Nat), i ≤ fuel → 2 ≤ i →
      chooseUpTo L.length i ≤ (searchLoopC k fuel L i st).2 + chooseUpTo L.length 2 := by
  intro i
  induction i with
  | zero => intro fuel _ h2; omega
  | succ i ih =>
    intro fuel hf h2
    by_cases h3 : 3 ≤ i + 1
    · obtain ⟨f, rfl⟩ : ∃ f, fuel = f + 1 := ⟨fuel - 1, by omega⟩
      obtain ⟨t, ht, e⟩ := tryCombinationsC_none k st (combinations L (i + 1)) (hno (i + 1) h3)
      have hlen := length_combinations L (i + 1)
      have ih' := ih f (by omega) (by omega)
      have hcond : L.length ≥ 2 ∧ i + 1 ≥ 2 := ⟨hL, h2⟩
      simp only [searchLoopC, hcond, and_self, if_true, e, Bool.false_eq_true, if_false,
        Nat.add_sub_cancel]
      have hs : chooseUpTo L.length (i + 1) = chooseUpTo L.length i + Nat.choose L.length (i + 1) := by
        simp only [chooseUpTo, Finset.sum_range_succ]
      rw [hs]
      omega
    · have : i + 1 = 2 := by omega
      rw [this]; omega

theorem chooseUpTo_self (n : Nat) : chooseUpTo n n = 2 ^ n := Nat.sum_range_choose n

theorem chooseUpTo_two (n : Nat) : chooseUpTo n 2 = 1 + n + Nat.choose n 2 := by
  simp [chooseUpTo, Finset.sum_range_succ]

end Demes.Proofs
