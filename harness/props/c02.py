"""C02 — resolution fills in omitted fields exactly as the Demes specification says."""
from __future__ import annotations

from props.resolve_common import *  # noqa: F401,F403
from props.builder_route import check_builder_routes, check_builder_calls

RULE = ("generated semantic models (every value known) written in k random spellings each (fields omitted / explicit / hoisted "
        "into top-level or deme-level defaults, ints vs floats, dict key order), optionally with equal sub-objects shared by "
        "reference (one Python object, YAML anchors), through dict / YAML / JSON / Builder; compared with the resolution "
        "prescribed by the specification (computed from the semantic model, never from the library) and with the Lean Model; "
        "a case is one (model, spelling, route); non-trivial = at least one field omitted or defaulted; distinct by document")
ASSUMPTIONS = ["numbers dyadic (exact); object sharing is observed at run time: the pure Model receives the unfolded tree"]
EXPLANATION = ("Theorems over the Lean Model of Graph.fromdict: defaults precedence (lookup_insertDefaults, lookup_update, "
               "epoch_default_precedence), resolveEpochs_spec / addDemeHeader_spec (each resolved field is the one the declarative "
               "fill-in rules prescribe), symmetric migrations = their written-out ordered pairs, stable pulse sort, explicit = omitted "
               "spellings; Model tied to the code by exact comparison; all spellings and routes must give the identical dictionary, "
               "equal to the specification's expectation.")


def share(doc, rng):
    """make equal sub-objects one Python object (pattern of sharing chosen at random)"""
    doc = copy.deepcopy(doc)
    pool = {}

    def walk(v):
        if isinstance(v, dict):
            for k in list(v):
                v[k] = walk(v[k])
            key = json.dumps(show(canon_doc(v)), sort_keys=False)
        elif isinstance(v, list):
            for i in range(len(v)):
                v[i] = walk(v[i])
            key = json.dumps(show(canon_doc(v)))
        else:
            return v
        if key in pool and rng.random() < 0.8:
            return pool[key]
        pool[key] = v
        return v

    return walk(doc), len(pool)


def yaml_with_anchors(doc):
    """dump with the default (aliasing) representer so that shared objects become anchors/aliases"""
    import ruamel.yaml
    s = io.StringIO()
    y = ruamel.yaml.YAML(typ="safe")
    y.sort_base_mapping_type_on_output = False    # keep the document's key order (metadata order is part of the model)
    y.dump(doc, s)
    return s.getvalue()


def as_other_mappings(obj, memo=None):
    """the same object graph (sharing kept) held in OrderedDict mappings instead of plain dicts"""
    import collections
    memo = {} if memo is None else memo
    if id(obj) in memo:
        return memo[id(obj)]
    if isinstance(obj, dict):
        out = memo[id(obj)] = collections.OrderedDict()
        for k, v in obj.items():
            out[k] = as_other_mappings(v, memo)
        return out
    if isinstance(obj, list):
        out = memo[id(obj)] = []
        out.extend(as_other_mappings(v, memo) for v in obj)
        return out
    return obj


def defaults_corpus():
    """fixed documents about default precedence with hand-written expectations (facts about the resolved dictionary):
    demes WITHOUT an `epochs` list that take everything from their own / the top-level epoch defaults, in one document"""
    docs = []
    d = {"time_units": "generations", "defaults": {"epoch": {"start_size": 100}},
         "demes": [{"name": "A"}, {"name": "B", "defaults": {"epoch": {"start_size": 200}}},
                   {"name": "C", "defaults": {"epoch": {"start_size": 300, "selfing_rate": 0.5}}}, {"name": "D"},
                   {"name": "E", "ancestors": ["A"], "start_time": 10, "defaults": {"epoch": {"end_size": 50}}}]}
    facts = [("A", 100, 100, 0), ("B", 200, 200, 0), ("C", 300, 300, 0.5), ("D", 100, 100, 0), ("E", 100, 50, 0)]
    docs.append((d, facts))
    d2 = {"time_units": "generations", "defaults": {"epoch": {"start_size": 7, "cloning_rate": 0.25}},
          "demes": [{"name": "X", "defaults": {"epoch": {"cloning_rate": 0}}}, {"name": "Y"}, {"name": "Z", "epochs": [{"start_size": 9}]}, {"name": "W"}]}
    docs.append((d2, [("X", 7, 7, 0), ("Y", 7, 7, 0), ("Z", 9, 9, 0), ("W", 7, 7, 0)]))
    return docs


def check_defaults_corpus(ctx):
    for d, facts in defaults_corpus():
        ctx.count(show(canon_doc(d)), True, tags=["defaults_corpus"])
        for route, c in route_results(d, ("dict", "builder_fromdict", "yaml", "json")).items():
            if c[0] != "ok":
                ctx.violation(f"a valid model is rejected through route {route} ({c[1]})", {"document": d, "route": route}, python=py_repro(d, "g.asdict()"))
                continue
            got = {x["name"]: x for x in c[2].asdict()["demes"]}
            for name, ss, es, selfing in facts:
                e = got[name]["epochs"][0]
                if (e["start_size"], e["end_size"], e["selfing_rate"]) != (ss, es, selfing) or len(got[name]["epochs"]) != 1:
                    ctx.violation(f"resolved dictionary differs from the specification's resolution (route {route})", {"document": d, "route": route},
                                  detail={"deme": name, "got": [e["start_size"], e["end_size"], e["selfing_rate"]], "expected": [ss, es, selfing]},
                                  python=py_repro(d, "g.asdict()"))
                    break
        cl = [x for x in got.values()] if c[0] == "ok" else []
        if d.get("defaults", {}).get("epoch", {}).get("cloning_rate") is not None and c[0] == "ok":
            want = {"X": 0, "Y": 0.25, "Z": 0.25, "W": 0.25}
            for x in cl:
                if x["epochs"][0]["cloning_rate"] != want[x["name"]]:
                    ctx.violation("resolved dictionary differs from the specification's resolution (route json)", {"document": d},
                                  detail={"deme": x["name"], "cloning_rate": x["epochs"][0]["cloning_rate"], "expected": want[x["name"]]})


def run(ctx):
    n = 250 if ctx.tier == "quick" else 3000
    done = 0
    check_defaults_corpus(ctx)
    while done < n and ctx.time_left() > 10:
        models = gen_models(ctx, min(100, n - done), max_demes=6 if ctx.tier == "quick" else 9)
        done += len(models)
        docs, meta = [], []
        for m in models:
            exp = canon(G.plain(G.expected(m)))
            for level in (0, 0.5, 1, 1):
                d = G.spell(m, ctx.rng, level=level)
                docs.append(d); meta.append((m, exp, level))
        reps = model_resolve(ctx, docs)
        check_builder_routes(ctx, docs)          # Builder route: real Builder.data / resolve vs Model, per document
        graphs = []
        for d, (m, exp, level), rep in zip(docs, meta, reps):
            omitted = level > 0
            res = route_results(d, ("dict", "builder", "yaml", "json") if json_safe(d) else ("dict", "builder", "yaml"))
            ctx.count(show(canon_doc(d)), omitted, tags=[f"level={level}"] + G.features(m))
            compare_with_model(ctx, d, res["dict"], rep)
            for r, c in res.items():
                if c[0] != "ok":
                    ctx.violation(f"a valid model is rejected through route {r} ({c[1]})", {"document": show(canon_doc(d)), "route": r},
                                  python=py_repro(d, "g.asdict()"))
                elif not canon_eq(c[1], exp):
                    ctx.violation(f"resolved dictionary differs from the specification's resolution (route {r})",
                                  {"document": show(canon_doc(d)), "route": r},
                                  detail={"got": show(c[1]), "expected": show(exp)}, python=py_repro(d, "g.asdict()"))
            # sharing: the same document with equal sub-objects aliased
            sd, _ = share(d, ctx.rng)
            try:
                g1 = demes.Graph.fromdict(sd)
                r1 = canon(g1.asdict())
            except Exception as e:  # noqa: BLE001
                r1 = ("err", type(e).__name__)
            try:
                g2 = demes.loads(yaml_with_anchors(sd))
                r2 = canon(g2.asdict())
            except Exception as e:  # noqa: BLE001
                r2 = ("err", type(e).__name__)
            try:
                g3 = demes.Graph.fromdict(as_other_mappings(sd))
                r3 = canon(g3.asdict())
            except Exception as e:  # noqa: BLE001
                r3 = ("err", type(e).__name__)
            ctx.count({"shared": show(canon_doc(d))}, True, tags=["sharing"])
            for name, r in (("shared Python objects", r1), ("YAML anchors/aliases", r2), ("shared Python objects held in OrderedDict mappings", r3)):
                if isinstance(r, tuple) or not canon_eq(r, exp):
                    ctx.violation(f"{name}: document with sub-objects shared by reference resolves differently",
                                  {"document": show(canon_doc(d)), "sharing": name},
                                  detail={"got": r if isinstance(r, tuple) else show(r), "expected": show(exp)})
    # Builder route: random call sequences (None / "Infinity" / wrong types / repeated resolve / fromdict starts)
    check_builder_calls(ctx, 200 if ctx.tier == "quick" else 2000)


def replay(ctx, payload):
    from props.c01 import plain_doc
    doc = plain_doc(payload["input"]["document"])
    for r, c in route_results(doc).items():
        print(r, c[:2] if c[0] == "err" else show(c[1]))
    print("model:", model_resolve(ctx, [doc])[0])
    return 0
