/-
  Real-analysis reading of `SizeResult.expo`: the exponential interpolation
  `n0 * exp(log(n1/n0) * dt)` starts at `n0`, ends at `n1` and stays between them.
  Together with `Proofs.sizeAt_between` this gives the "lies between the epoch's start and end
  sizes" clause of C13 for every size function, in the reals.
-/
import DemesVerif.Proofs.SizeAt
import Mathlib.Analysis.SpecialFunctions.Log.Basic
namespace Demes.Proofs
open Demes Demes.Spec

/-- the real number a symbolic `SizeResult.expo n0 n1 dt` stands for -/
noncomputable def expoReal (n0 n1 dt : ℝ) : ℝ := n0 * Real.exp (Real.log (n1 / n0) * dt)

theorem expoReal_zero (n0 n1 : ℝ) : expoReal n0 n1 0 = n0 := by
  simp [expoReal]

theorem expoReal_one (n0 n1 : ℝ) (h0 : 0 < n0) (h1 : 0 < n1) : expoReal n0 n1 1 = n1 := by
  unfold expoReal
  rw [mul_one, Real.exp_log (div_pos h1 h0)]
  field_simp

theorem expoReal_between (n0 n1 dt : ℝ) (h0 : 0 < n0) (h1 : 0 < n1) (hd0 : 0 ≤ dt) (hd1 : dt ≤ 1) :
    min n0 n1 ≤ expoReal n0 n1 dt ∧ expoReal n0 n1 dt ≤ max n0 n1 := by
  have hq : 0 < n1 / n0 := div_pos h1 h0
  have hexp : Real.exp (Real.log (n1 / n0)) = n1 / n0 := Real.exp_log hq
  have hmul : n0 * (n1 / n0) = n1 := by field_simp
  unfold expoReal
  rcases le_total n0 n1 with h | h
  · have hr : 0 ≤ Real.log (n1 / n0) := Real.log_nonneg (by rw [le_div_iff₀ h0]; linarith)
    have a : 0 ≤ Real.log (n1 / n0) * dt := mul_nonneg hr hd0
    have b : Real.log (n1 / n0) * dt ≤ Real.log (n1 / n0) := by
      calc _ ≤ Real.log (n1 / n0) * 1 := mul_le_mul_of_nonneg_left hd1 hr
        _ = _ := mul_one _
    have e1 : 1 ≤ Real.exp (Real.log (n1 / n0) * dt) := Real.one_le_exp a
    have e2 : Real.exp (Real.log (n1 / n0) * dt) ≤ n1 / n0 := by
      have := Real.exp_le_exp.2 b; rwa [hexp] at this
    rw [min_eq_left h, max_eq_right h]
    constructor
    · calc n0 = n0 * 1 := (mul_one _).symm
        _ ≤ _ := mul_le_mul_of_nonneg_left e1 (le_of_lt h0)
    · calc _ ≤ n0 * (n1 / n0) := mul_le_mul_of_nonneg_left e2 (le_of_lt h0)
        _ = n1 := hmul
  · have hr : Real.log (n1 / n0) ≤ 0 :=
      Real.log_nonpos (le_of_lt hq) (by rw [div_le_one h0]; exact h)
    have a : Real.log (n1 / n0) * dt ≤ 0 := mul_nonpos_of_nonpos_of_nonneg hr hd0
    have b : Real.log (n1 / n0) ≤ Real.log (n1 / n0) * dt := by
      calc _ = Real.log (n1 / n0) * 1 := (mul_one _).symm
        _ ≤ _ := mul_le_mul_of_nonpos_left hd1 hr
    have e1 : Real.exp (Real.log (n1 / n0) * dt) ≤ 1 := Real.exp_le_one_iff.2 a
    have e2 : n1 / n0 ≤ Real.exp (Real.log (n1 / n0) * dt) := by
      have := Real.exp_le_exp.2 b; rwa [hexp] at this
    rw [min_eq_right h, max_eq_left h]
    constructor
    · calc n1 = n0 * (n1 / n0) := hmul.symm
        _ ≤ _ := mul_le_mul_of_nonneg_left e2 (le_of_lt h0)
    · calc _ ≤ n0 * 1 := mul_le_mul_of_nonneg_left e1 (le_of_lt h0)
        _ = n0 := mul_one _

/-- the real number a `SizeResult` stands for (none for NaN / an exception) -/
noncomputable def realOf : SizeResult → Option ℝ
  | .exact q => some (q : ℝ)
  | .expo n0 n1 dt => some (expoReal n0 n1 dt)
  | .nan => none
  | .indexError => none

theorem cast_qmin (a b : Q) : ((qmin a b : Q) : ℝ) = min (a : ℝ) (b : ℝ) := by
  have : qmin a b = min a b := by unfold qmin; rw [min_def]
  rw [this, Rat.cast_min]

theorem cast_qmax (a b : Q) : ((qmax a b : Q) : ℝ) = max (a : ℝ) (b : ℝ) := by
  have : qmax a b = max a b := by unfold qmax; rw [max_def]
  rw [this, Rat.cast_max]

/-- Inside an epoch of a valid graph the reported size denotes a real number lying between
the epoch's start and end sizes — for every size function. -/
theorem sizeAt_real_between (g : Graph) (hv : validGraph g = true) (d : Deme) (hd : d ∈ g.demes)
    (e : Epoch) (he : e ∈ d.epochs) (t : Q) (hin : inEpoch e t) :
    ∃ r : ℝ, realOf (sizeAt d (ETime.fin t)) = some r
      ∧ min (e.startSize : ℝ) (e.endSize : ℝ) ≤ r ∧ r ≤ max (e.startSize : ℝ) (e.endSize : ℝ) := by
  have ok := valid_v6 hv hd e he
  rcases sizeAt_between g hv d hd e he t hin with ⟨v, h, h1, h2⟩ | ⟨dt, h, h1, h2, _⟩
  · refine ⟨(v : ℝ), by rw [h]; rfl, ?_, ?_⟩
    · rw [← cast_qmin]; exact Rat.cast_le.2 h1
    · rw [← cast_qmax]; exact Rat.cast_le.2 h2
  · refine ⟨_, by rw [h]; rfl, ?_⟩
    exact expoReal_between _ _ _ (Rat.cast_pos.2 ok.startPos) (Rat.cast_pos.2 ok.endPos)
      (by exact_mod_cast le_of_lt h1) (by exact_mod_cast h2)

/-- At every time of its lifetime a deme of a valid graph reports a positive real size. -/
theorem sizeAt_real_pos (g : Graph) (hv : validGraph g = true) (d : Deme) (hd : d ∈ g.demes)
    (t : Q) (ht : alive d t) : ∃ r : ℝ, realOf (sizeAt d (ETime.fin t)) = some r ∧ 0 < r := by
  obtain ⟨e, he, hin, _⟩ := sizeAt_unique_epoch g hv d hd t ht
  obtain ⟨r, hr, h1, _⟩ := sizeAt_real_between g hv d hd e he t hin
  have ok := valid_v6 hv hd e he
  have : (0 : ℝ) < min (e.startSize : ℝ) (e.endSize : ℝ) :=
    lt_min (Rat.cast_pos.2 ok.startPos) (Rat.cast_pos.2 ok.endPos)
  exact ⟨r, hr, lt_of_lt_of_le this h1⟩

end Demes.Proofs
