/-
  Request dispatch of the driver: core operations (resolve, views, closeness, validity).
  Each topic file `Ops/<Topic>.lean` exports `dispatch? : String → Json → Option Json`;
  `Ops.lean` chains them.
-/
import DemesVerif.Wire
import DemesVerif.Model.Views
import DemesVerif.Model.Close
import DemesVerif.Spec.Valid
namespace Demes.Ops.Core
open Lean Demes Demes.Wire

def withValue (j : Json) (key : String) (k : Value → Json) : Json :=
  match j.getObjVal? key with
  | .error e => Json.mkObj [("fail", .str e)]
  | .ok a =>
    match toValue a with
    | .error e => Json.mkObj [("fail", .str e)]
    | .ok v => k v

def withGraph (j : Json) (key : String) (k : Graph → Json) : Json :=
  withValue j key (fun v =>
    match Read.graph v with
    | .error e => Json.mkObj [("fail", .str s!"graph reader: {e.msg}")]
    | .ok g => k g)

def indexJ (g : Graph) : Json :=
  .arr (g.index.map (fun (k, i) => Json.arr #[.str k, .num i])).toArray

def matJ (m : Matrix) : Json := .arr (m.map (fun row => Json.arr (row.map qJ).toArray)).toArray

def sizeJ : SizeResult → Json
  | .exact q => Json.mkObj [("exact", qJ q)]
  | .expo a b dt => Json.mkObj [("expo", .arr #[qJ a, qJ b, qJ dt])]
  | .nan => Json.mkObj [("nan", .bool true)]
  | .indexError => Json.mkObj [("error", .str "IndexError")]

def nameMapJ (m : NameMap) : Json :=
  .arr (m.map (fun (k, vs) => Json.arr #[.str k, .arr (vs.map Json.str).toArray])).toArray

def eventsJ (ev : Events) : Json :=
  let strs (xs : List String) : Json := .arr (xs.map Json.str).toArray
  let qs (xs : List Q) : Json := .arr (xs.map qJ).toArray
  let merge (m : MergeEv) : Json := Json.mkObj [("parents", strs m.parents), ("proportions", qs m.proportions),
      ("child", .str m.child), ("time", tJ m.time)]
  Json.mkObj [
    ("pulses", .arr (ev.pulses.map (fun p => ofValue p.asdict)).toArray),
    ("splits", .arr (ev.splits.map (fun s => Json.mkObj [("parent", .str s.parent), ("children", strs s.children), ("time", qJ s.time)])).toArray),
    ("branches", .arr (ev.branches.map (fun b => Json.mkObj [("parent", .str b.parent), ("child", .str b.child), ("time", tJ b.time)])).toArray),
    ("mergers", .arr (ev.mergers.map merge).toArray),
    ("admixtures", .arr (ev.admixtures.map merge).toArray)]

def dispatch? (op : String) (j : Json) : Option Json :=
    if op = "is_identifier" then some <|
      -- {"names": [str, ...]} ↦ {"ok": [Bool, ...]}: `str.isidentifier` of the Model, name by name
      match j.getObjValAs? (Array String) "names" with
      | .ok names => okJ (.arr (names.map (fun s => Json.bool (isIdentifier s))))
      | .error e => Json.mkObj [("err", "BadRequest"), ("msg", e)]
    else if op = "resolve" then some <|
      withValue j "doc" (fun v =>
        match resolve v with
        | .error e => errJ e
        | .ok g => Json.mkObj [("ok", ofValue g.asdict), ("index", indexJ g)])
    else if op = "read_asdict" then some <|
      withGraph j "graph" (fun g => okJ (ofValue g.asdict))
    else if op = "matrices" then some <|
      withGraph j "graph" (fun g =>
        match migrationMatrices g with
        | .error e => errJ e
        | .ok (mms, ends) => okJ (Json.mkObj [("mm", .arr (mms.map matJ).toArray), ("end_times", .arr (ends.map qJ).toArray)]))
    else if op = "valid" then some <|
      withGraph j "graph" (fun g =>
        let g := match j.getObjVal? "index" with
          | .ok (.arr kvs) => { g with index := kvs.toList.filterMap (fun kv => match kv with
              | .arr #[.str k, .num n] => some (k, n.mantissa.toNat) | _ => none) }
          | _ => g
        okJ (.arr ((Spec.failing g).map Json.str).toArray))
    else if op = "size_at" then some <|
      withGraph j "graph" (fun g =>
        withValue j "times" (fun tv =>
          match tv with
          | .list ts =>
            okJ (.arr (g.demes.map (fun d => Json.arr (ts.map (fun t =>
              match t with
              | .num n => match n.toETime? with
                | some et => sizeJ (sizeAt d et)
                | none => .null
              | _ => .null)).toArray)).toArray)
          | _ => Json.mkObj [("fail", .str "times")]))
    else if op = "pred_succ" then some <|
      withGraph j "graph" (fun g =>
        okJ (Json.mkObj [("pred", nameMapJ (predecessors g)), ("succ", nameMapJ (successors g))]))
    else if op = "events" then some <|
      withGraph j "graph" (fun g =>
        match discreteEvents g with
        | none => Json.mkObj [("err", .str "KeyError")]
        | some ev => okJ (eventsJ ev))
    else if op = "in_generations" then some <|
      withGraph j "graph" (fun g => let g' := inGenerations g
        Json.mkObj [("ok", ofValue g'.asdict), ("index", indexJ g')])
    else if op = "rename" then some <|
      withGraph j "graph" (fun g =>
        match j.getObjVal? "names" with
        | .ok (.arr kvs) =>
          let r : Renaming := kvs.toList.filterMap (fun kv => match kv with
            | .arr #[.str a, .str b] => some (a, b) | _ => none)
          match renameDemesChecked g r with
          | .error e => errJ e
          | .ok g' => Json.mkObj [("ok", ofValue g'.asdict), ("index", indexJ g')]
        | _ => Json.mkObj [("fail", .str "names")])
    else if op = "isclose" then some <|
      withGraph j "a" (fun a => withGraph j "b" (fun b =>
        let tol : Tol := match j.getObjValAs? String "rel", j.getObjValAs? String "abs" with
          | .ok r, .ok ab => match parseRat r, parseRat ab with
            | some r, some ab => ⟨r, ab⟩
            | _, _ => defaultTol
          | _, _ => defaultTol
        okJ (.bool (Graph.isclose tol a b))))
    else none

end Demes.Ops.Core
