/-
  Proofs for C09, first sentence — closed instances of `from_ms(to_ms(g))` checked in the kernel:
  the F6 counterexample (a pulse of proportion 1) and two graphs that do go round (a pulse of
  1/2; ancestry + sizes + a migration), compared through the independent `graphSem`.
-/
import DemesVerif.Proofs.MsRoundTrip
import DemesVerif.Spec.MsSem
import DemesVerif.Spec.Valid
namespace Demes.Proofs.MsPrint
open Demes Demes.Ms Demes.Spec.C09 Demes.Spec.MsSem

def growthStr : Growth → String
  | .zero => "0.0"
  | .sym _ _ => "?"

def twoDemePulse (p : Q) : Graph :=
  { description := "", timeUnits := "generations", generationTime := 1, doi := [], metadata := [],
    demes := [constDeme "A" "" 1 0 0, constDeme "B" "" 1 0 0],
    migrations := [], pulses := [{ sources := ["A"], dest := "B", time := 4, proportions := [p] }],
    index := [("A", 0), ("B", 1)] }

/-- A from the infinite past (size 2), B branches off A at time 4 (size 1/2), migration A → B
at rate 1/8 while both exist -/
def branchMig : Graph :=
  { description := "", timeUnits := "generations", generationTime := 1, doi := [], metadata := [],
    demes := [constDeme "A" "" 2 0 0,
              { name := "B", description := "", startTime := .fin 4, ancestors := ["A"], proportions := [1],
                epochs := [{ startTime := .fin 4, endTime := 0, startSize := 1/2, endSize := 1/2,
                             sizeFunction := "constant", selfingRate := 0, cloningRate := 0 }] }],
    migrations := [{ source := "A", dest := "B", startTime := .fin 4, endTime := 0, rate := 1/8 }],
    pulses := [], index := [("A", 0), ("B", 1)] }

def roundTripSem (g : Graph) (N0 : Q) (names : List String) : Option DemogSem := do
  let toks ← (toMs g N0 none).toOption
  let mg ← (fromMs (renderG tableCodec growthStr toks) N0 (some names)).toOption
  (msGraphSem mg (some names)).toOption

/-- **F6.**  A pulse of proportion 1: `to_ms` prints `-es 1.0 2 0.0 -ej 1.0 3 1`, and
`from_ms` of that command fails (the deme made by `-es` gets all lineages, so the Builder turns
the pulse into ancestry of a deme that does not end there). -/
theorem ms_roundtrip_pulse1_counterexample :
    Spec.validGraph (twoDemePulse 1) = true ∧
    (toMs (twoDemePulse 1) 1 none).toOption.map (renderG tableCodec growthStr)
      = some ["-I", "2", "0", "0", "-es", "1.0", "2", "0.0", "-ej", "1.0", "3", "1"] ∧
    (fromMs ["-I", "2", "0", "0", "-es", "1.0", "2", "0.0", "-ej", "1.0", "3", "1"] 1 (some ["A", "B"])).toOption.isSome
      = false := by decide +kernel

/-- the same graph with proportion 1/2 goes round: same demography -/
theorem ms_roundtrip_pulse_half :
    Spec.validGraph (twoDemePulse (1/2)) = true ∧
    (roundTripSem (twoDemePulse (1/2)) 1 ["A", "B"]).isSome = true ∧
    roundTripSem (twoDemePulse (1/2)) 1 ["A", "B"] = (graphSem (inGenerations (twoDemePulse (1/2))) (some ["A", "B"])).toOption := by
  decide +kernel

/-- ancestry (`-ej`), sizes (`-n`) and a migration (`-m`) go round: same demography -/
theorem ms_roundtrip_branch_migration :
    Spec.validGraph branchMig = true ∧
    (toMs branchMig 1 none).toOption.map (renderG tableCodec growthStr)
      = some ["-I", "2", "0", "0", "-n", "1", "2.0", "-n", "2", "0.5", "-m", "2", "1", "0.5", "-ej", "1.0", "2", "1"] ∧
    (roundTripSem branchMig 1 ["A", "B"]).isSome = true ∧
    roundTripSem branchMig 1 ["A", "B"] = (graphSem (inGenerations branchMig) (some ["A", "B"])).toOption := by
  decide +kernel

end Demes.Proofs.MsPrint
