/-
  Proofs for C05, part C.1 — the simplified epoch (`simplify_epochs`, Model `Epoch.simplified`)
  is read back by `Deme._add_epoch` (Model `addEpoch`) as the original epoch.
-/
import DemesVerif.Proofs.SimplifyFields
namespace Demes.Proofs.C05
open Demes Demes.Spec Demes.Obj

/-! ### lookups in a field list assembled from optional pieces -/

theorem lookup_append (k : String) (a b : Obj) :
    lookup k (a ++ b) = (lookup k a).or (lookup k b) := by
  induction a with
  | nil => simp [lookup]
  | cons x xs ih =>
    obtain ⟨k', v⟩ := x
    simp only [List.cons_append, lookup]
    split
    · simp
    · exact ih

theorem lookup_nil (k : String) : lookup k [] = none := rfl

theorem lookup_cons (k k' : String) (v : Value) (r : Obj) :
    lookup k ((k', v) :: r) = if k' = k then some v else lookup k r := rfl

theorem lookupNN_of_lookup {k : String} {d : Obj} {r : Option Value} (h : lookup k d = r)
    (hr : r ≠ some .null) : lookupNN k d = r := by
  unfold lookupNN
  rw [h]
  split
  · exact absurd rfl hr
  · rfl

theorem ep_end_time (e : Epoch) : lookup "end_time" (epochSimplifiedObj e) = some (numV e.endTime) := by
  simp [epochSimplifiedObj, lookup_cons]

theorem ep_start_size (e : Epoch) :
    lookupNN "start_size" (epochSimplifiedObj e) = some (numV e.startSize) := by
  apply lookupNN_of_lookup
  · simp [epochSimplifiedObj, lookup_cons]
  · simp [numV]

theorem ep_end_size (e : Epoch) :
    lookupNN "end_size" (epochSimplifiedObj e)
      = if e.startSize = e.endSize then none else some (numV e.endSize) := by
  apply lookupNN_of_lookup
  · simp only [epochSimplifiedObj, lookup_append, lookup_cons, lookup_nil, apply_ite (lookup "end_size")]
    by_cases h : e.startSize = e.endSize <;> simp [h]
  · split <;> simp [numV]

theorem ep_size_function (e : Epoch) :
    lookupNN "size_function" (epochSimplifiedObj e)
      = if e.sizeFunction = (if e.startSize = e.endSize then "constant" else "exponential") then none
        else some (.str e.sizeFunction) := by
  apply lookupNN_of_lookup
  · simp only [epochSimplifiedObj, lookup_append, lookup_cons, lookup_nil,
      apply_ite (lookup "size_function")]
    by_cases h1 : e.startSize = e.endSize <;>
    by_cases h2 : e.sizeFunction = (if e.startSize = e.endSize then "constant" else "exponential") <;>
    simp [h1, h2]
  · split <;> simp

theorem ep_selfing (e : Epoch) :
    (lookup "selfing_rate" (epochSimplifiedObj e)).getD (.num (.fin 0)) = numV e.selfingRate := by
  simp only [epochSimplifiedObj, lookup_append, lookup_cons, lookup_nil,
    apply_ite (lookup "selfing_rate")]
  by_cases h : e.selfingRate = 0 <;> simp [h, numV]

theorem ep_cloning (e : Epoch) :
    (lookup "cloning_rate" (epochSimplifiedObj e)).getD (.num (.fin 0)) = numV e.cloningRate := by
  simp only [epochSimplifiedObj, lookup_append, lookup_cons, lookup_nil,
    apply_ite (lookup "cloning_rate")]
  by_cases h : e.cloningRate = 0 <;> simp [h, numV]


theorem v6Epoch_facts {e : Epoch} (h : v6Epoch e = true) :
    0 < e.startSize ∧ 0 < e.endSize ∧ 0 ≤ e.selfingRate ∧ e.selfingRate ≤ 1
    ∧ 0 ≤ e.cloningRate ∧ e.cloningRate ≤ 1 ∧ sizeFunctions.contains e.sizeFunction = true
    ∧ (e.sizeFunction = "constant" → e.startSize = e.endSize)
    ∧ (e.startTime.isInf = true → e.startSize = e.endSize) ∧ 0 ≤ e.endTime := by
  simp only [v6Epoch, Bool.and_eq_true, decide_eq_true_eq, Bool.or_eq_true, bne_iff_ne, ne_eq,
    beq_iff_eq, Bool.not_eq_true'] at h
  obtain ⟨⟨⟨⟨⟨⟨⟨⟨⟨a1, a2⟩, a3⟩, a4⟩, a5⟩, a6⟩, a7⟩, a8⟩, a9⟩, a10⟩ := h
  refine ⟨a1, a2, a3, a4, a5, a6, a7, ?_, ?_, a10⟩
  · intro hc; rcases a8 with h | h
    · exact absurd hc h
    · exact h
  · intro hc; rcases a9 with h | h
    · rw [hc] at h; cases h
    · exact h

/-- C.1 — `_add_epoch` reads the simplified epoch back as the epoch itself.

`Epoch.simplified` always emits `end_time` and `start_size`; `end_size` is omitted iff equal to
`start_size`; `size_function` is omitted iff it is the one resolution infers ("constant" for equal
sizes, "exponential" otherwise) — this is the repaired behaviour: before the repair an explicit
"exponential" (or "linear") on an epoch with equal sizes was dropped together with `end_size` and
came back as "constant" —; the two rates are omitted iff 0. -/
theorem epoch_simplified_roundtrip (demeStart : ETime) (prev : List Epoch) (e : Epoch)
    (hv : v6Epoch e = true) (hlt : ETime.fin e.endTime < e.startTime)
    (hst : e.startTime = match prev.getLast? with
      | none => demeStart
      | some p => ETime.fin p.endTime) :
    addEpoch demeStart prev (epochSimplifiedObj e) = .ok (prev ++ [e]) := by
  obtain ⟨a1, a2, a3, a4, a5, a6, a7, a8, a9, a10⟩ := v6Epoch_facts hv
  have hnle : ¬ (e.startTime ≤ ETime.fin e.endTime) := by
    cases hs : e.startTime with
    | inf => exact fun h => h
    | fin s => rw [hs] at hlt; exact fun h => absurd ((fin_lt_fin _ _).1 hlt) (not_lt.2 ((fin_le_fin _ _).1 h))
  unfold addEpoch
  rw [ep_end_time, ep_start_size, ep_end_size, ep_size_function, ep_selfing, ep_cloning]
  obtain ⟨st, et, ss, es, sf, sr, cr⟩ := e
  dsimp only at *
  have a7' : sf ∈ sizeFunctions := by simpa using a7
  by_cases heq : ss = es
  · subst heq
    by_cases hsf : sf = "constant"
    · subst hsf
      cases hl : prev.getLast? <;> rw [hl] at hst <;> dsimp only at hst <;> subst hst <;>
      simp [bind, Except.bind, pure, Except.pure, nonNegFiniteQ_numV _ a10, posFiniteQ_numV _ a1,
        unitQ_numV _ a3 a4, unitQ_numV _ a5 a6, hnle]
    · cases hl : prev.getLast? <;> rw [hl] at hst <;> dsimp only at hst <;> subst hst <;>
      simp [bind, Except.bind, pure, Except.pure, nonNegFiniteQ_numV _ a10, posFiniteQ_numV _ a1,
        unitQ_numV _ a3 a4, unitQ_numV _ a5 a6, hnle, hsf, a7']
  · have hinf : st.isInf = false := by
      cases h : st.isInf
      · rfl
      · exact absurd (a9 h) heq
    have hnc : sf ≠ "constant" := fun h => heq (a8 h)
    by_cases hsf : sf = "exponential"
    · subst hsf
      cases hl : prev.getLast? <;> rw [hl] at hst <;> dsimp only at hst <;> subst hst <;>
      simp [bind, Except.bind, pure, Except.pure, nonNegFiniteQ_numV _ a10, posFiniteQ_numV _ a1,
        posFiniteQ_numV _ a2, unitQ_numV _ a3 a4, unitQ_numV _ a5 a6, hnle, heq, hinf]
    · cases hl : prev.getLast? <;> rw [hl] at hst <;> dsimp only at hst <;> subst hst <;>
      simp [bind, Except.bind, pure, Except.pure, nonNegFiniteQ_numV _ a10, posFiniteQ_numV _ a1,
        posFiniteQ_numV _ a2, unitQ_numV _ a3 a4, unitQ_numV _ a5 a6, hnle, heq, hinf, hsf, a7', hnc]



theorem forM_ok {α} (f : α → Except Err Unit) : ∀ l : List α, (∀ x ∈ l, f x = .ok ()) → l.forM f = .ok ()
  | [], _ => rfl
  | x :: xs, h => by
    show (f x >>= fun _ => xs.forM f) = _
    rw [h x List.mem_cons_self]
    exact forM_ok f xs (fun y hy => h y (List.mem_cons_of_mem _ hy))

theorem checkAllowed_ok (d : Obj) (allowed : List String)
    (h : ∀ kv ∈ d, allowed.contains kv.1 = true) : checkAllowed d allowed = .ok () := by
  unfold checkAllowed
  apply forM_ok
  intro kv hkv
  have := h kv hkv
  simp only [List.contains_iff_mem] at this
  simp [this, pure, Except.pure]

theorem ep_keys_allowed (e : Epoch) :
    ∀ kv ∈ epochSimplifiedObj e, allowedEpoch.contains kv.1 = true := by
  intro kv h
  simp only [epochSimplifiedObj, List.mem_append, List.mem_cons, List.mem_ite_nil_left,
    List.not_mem_nil, or_false] at h
  rcases h with ((((h | h) | ⟨_, h⟩) | ⟨_, h⟩) | ⟨_, h⟩) | ⟨_, h⟩ <;> subst h <;> dsimp only <;> decide

theorem contiguous_cons' (start : ETime) (e : Epoch) (es : List Epoch) :
    contiguous start (e :: es) = true ↔
      e.startTime = start ∧ ETime.fin e.endTime < e.startTime
        ∧ contiguous (ETime.fin e.endTime) es = true := by
  simp only [contiguous, Bool.and_eq_true, beq_iff_eq, decide_eq_true_eq, and_assoc]

/-- the resolver's start time for the next epoch: the previous epoch's end, or the deme's
start for the first epoch -/
def nextStart (demeStart : ETime) (acc : List Epoch) : ETime :=
  match acc.getLast? with
  | none => demeStart
  | some p => ETime.fin p.endTime

/-- one iteration of the epoch loop (the body of `resolveEpochs`) -/
def epochStep (demeStart : ETime) (n : Nat) (epochDefaults : Obj) (acc : List Epoch)
    (ej : Obj × Nat) : Except Err (List Epoch) := do
  let (e, j) := ej
  checkAllowed e allowedEpoch
  let e := insertDefaults e epochDefaults
  let e ← if contains "end_time" e then pure e
    else if j = n - 1 then pure (Obj.set "end_time" (.num (.fin 0)) e)
    else keyErr s!"epochs[{j}]: required field 'end_time' not found"
  addEpoch demeStart acc e

theorem resolveEpochs_eq (demeStart : ETime) (epochDefaults : Obj) (epochs : List Obj) :
    resolveEpochs demeStart epochDefaults epochs
      = (epochs.zipIdx).foldlM (epochStep demeStart epochs.length epochDefaults) [] := rfl

theorem epochStep_simplified (demeStart : ETime) (n j : Nat) (acc : List Epoch) (e : Epoch)
    (hv : v6Epoch e = true) (hlt : ETime.fin e.endTime < e.startTime)
    (hst : e.startTime = nextStart demeStart acc) :
    epochStep demeStart n [] acc (epochSimplifiedObj e, j) = .ok (acc ++ [e]) := by
  have hce : contains "end_time" (epochSimplifiedObj e) = true := by
    simp [contains, ep_end_time]
  have hadd := epoch_simplified_roundtrip demeStart acc e hv hlt hst
  simp only [epochStep, insertDefaults, List.foldl_nil,
    checkAllowed_ok _ _ (ep_keys_allowed e), hce, if_true, bind, Except.bind, pure, Except.pure, hadd]

theorem resolveEpochs_fold (demeStart : ETime) (n : Nat) :
    ∀ (es : List Epoch) (acc : List Epoch) (k : Nat),
      contiguous (nextStart demeStart acc) es = true → (∀ e ∈ es, v6Epoch e = true) →
      ((es.map epochSimplifiedObj).zipIdx k).foldlM (epochStep demeStart n []) acc
        = .ok (acc ++ es) := by
  intro es
  induction es with
  | nil => intro acc k _ _; simp [pure, Except.pure]
  | cons e es ih =>
    intro acc k hc hv
    obtain ⟨c1, c2, c3⟩ := (contiguous_cons' _ _ _).1 hc
    rw [List.map_cons, List.zipIdx_cons, List.foldlM_cons,
      epochStep_simplified demeStart n k acc e (hv e List.mem_cons_self) c2 c1]
    have := ih (acc ++ [e]) (k + 1) (by simpa [nextStart] using c3)
      (fun e' he' => hv e' (List.mem_cons_of_mem _ he'))
    simpa [List.append_assoc, bind, Except.bind] using this

/-- C.1, whole deme — the simplified epoch list of a deme whose epochs are contiguous from its
start time (V5) and individually valid (V6) resolves, without any defaults, to the deme's
epochs. -/
theorem deme_epochs_roundtrip (d : Deme)
    (hc : contiguous d.startTime d.epochs = true) (hv : ∀ e ∈ d.epochs, v6Epoch e = true) :
    resolveEpochs d.startTime [] (d.epochs.map epochSimplifiedObj) = .ok d.epochs := by
  rw [resolveEpochs_eq]
  have := resolveEpochs_fold d.startTime (d.epochs.map epochSimplifiedObj).length d.epochs [] 0 hc hv
  simpa using this


/-- C.1 for a deme of a graph satisfying V5 and V6 -/
theorem deme_epochs_roundtrip_of_valid (g : Graph) (h5 : v5 g = true) (h6 : v6 g = true)
    (d : Deme) (hd : d ∈ g.demes) :
    resolveEpochs d.startTime [] (d.epochs.map epochSimplifiedObj) = .ok d.epochs := by
  have h5' := List.all_eq_true.1 h5 d hd
  simp only [Bool.and_eq_true] at h5'
  rw [v6_eq] at h6
  exact deme_epochs_roundtrip d h5'.2 (List.all_eq_true.1 (List.all_eq_true.1 h6 d hd))

end Demes.Proofs.C05
