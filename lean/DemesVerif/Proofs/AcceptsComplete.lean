/-
  Proofs for C03, part 9 — completeness of `resolve` against the Spec (no spurious rejection):
  a well-formed document of acceptable shape whose filled-in graph is valid is resolved — to
  that graph.
-/
import DemesVerif.Proofs.AcceptsSound
namespace Demes.Proofs.Accepts
open Demes Demes.Obj Demes.Spec

/-! ### `fill`, taken apart -/

theorem fill_inv {d : Value} {g : Graph} (h : fill d = some g) :
    ∃ data defaults DD MD PD GE g0 demes g1 migs mss pulses pus,
      d = .obj data ∧
      sectionOf data "defaults" = some defaults ∧
      sectionOf defaults "deme" = some DD ∧ sectionOf defaults "migration" = some MD ∧
      sectionOf defaults "pulse" = some PD ∧ sectionOf defaults "epoch" = some GE ∧
      fillHeader data = some g0 ∧
      (lookup "demes" data).bind objsOf = some demes ∧
      fillDemes DD GE g0 demes = some g1 ∧
      objListOf data "migrations" = some migs ∧ mapOpt (fillMigration MD g1) migs = some mss ∧
      objListOf data "pulses" = some pulses ∧ mapOpt (fillPulse PD) pulses = some pus ∧
      g = { g1 with migrations := mss.flatten,
                    pulses := sortDescStable (fun p : Pulse => p.time) pus } := by
  unfold fill at h
  obtain ⟨data, hdata, h⟩ := obind_some h
  obtain ⟨defaults, h1, h⟩ := obind_some h
  obtain ⟨DD, h2, h⟩ := obind_some h
  obtain ⟨MD, h3, h⟩ := obind_some h
  obtain ⟨PD, h4, h⟩ := obind_some h
  obtain ⟨GE, h5, h⟩ := obind_some h
  obtain ⟨g0, h6, h⟩ := obind_some h
  obtain ⟨demes, h7, h⟩ := obind_some h
  obtain ⟨g1, h8, h⟩ := obind_some h
  obtain ⟨migs, h9, h⟩ := obind_some h
  obtain ⟨mss, h10, h⟩ := obind_some h
  obtain ⟨pulses, h11, h⟩ := obind_some h
  obtain ⟨pus, h12, h⟩ := obind_some h
  cases h
  exact ⟨data, defaults, DD, MD, PD, GE, g0, demes, g1, migs, mss, pulses, pus, objOf_eq_some.1 hdata, h1,
    h2, h3, h4, h5, h6, h7, h8, h9, h10, h11, h12, rfl⟩

/-! ### the deme loop -/

theorem hasName_congr {G G' : Graph} (hi : G'.index = G.index) (a : String) :
    G'.hasName a = G.hasName a := by
  unfold Graph.hasName Graph.indexLookup
  rw [hi]

/-- `DemeOk` only looks at the demes and the name index -/
theorem demeOk_congr {G G' : Graph} {d : Deme} (h : Asdict.DemeOk G d) (hd : G'.demes = G.demes)
    (hi : G'.index = G.index) : Asdict.DemeOk G' d := by
  refine ⟨?_, h.ident, ?_, h.nodup, h.notSelf, h.inf, h.pos, h.len, h.props, h.sum⟩
  · rw [hasName_congr hi]; exact h.fresh
  · intro a ha
    obtain ⟨anc, h1, h2⟩ := h.anc a ha
    exact ⟨anc, by rw [deme?_congr hd hi]; exact h1, h2⟩

theorem demes_complete {DD GE : Obj} (hDD : ∀ k ∈ keys DD, k ∈ allowedDeme) {gf : Graph}
    (h1 : v1 gf = true) (h2 : v2 gf = true) (h3 : v3 gf = true) (h4 : v4 gf = true)
    (h5 : v5 gf = true) (h6 : v6 gf = true) :
    ∀ (ds : List Obj) (G G1 : Graph),
      (∀ dd ∈ ds, demeSchemaOK dd = true) → (∀ dd ∈ ds, (Value.obj dd).wf = true) →
      fillDemes DD GE G ds = some G1 → G.index = Asdict.mkIndex G.demes → gf.demes = G1.demes →
      ds.foldlM (resolveDeme DD GE) G = .ok G1 := by
  intro ds
  induction ds with
  | nil =>
    intro G G1 _ _ hf _ _
    cases hf
    rfl
  | cons dd ds ih =>
    intro G G1 hs hwf hf hi hgf
    simp only [fillDemes] at hf
    cases hfd : fillDeme DD GE G dd with
    | none => rw [hfd] at hf; cases hf
    | some d =>
      rw [hfd] at hf
      obtain ⟨_, _, _, _, _, _, _, ⟨more, hmore⟩, _⟩ := fillDemes_shape ds _ G1 hf
      have hsplit : gf.demes = G.demes ++ d :: more := by
        rw [hgf, hmore]; simp [addDeme]
      have hok : Asdict.DemeOk G d :=
        demeOk_congr (Asdict.demeOk_of_valid h1 h2 h3 h4 hsplit) rfl hi
      have hdm : d ∈ gf.demes := by rw [hsplit]; exact List.mem_append_right _ List.mem_cons_self
      obtain ⟨hname, hca, ld, L, es, hld, hca2, hL, hv, hes, hne, hce⟩ :=
        demeSchemaOK_iff.1 (hs dd List.mem_cons_self)
      have hstep : resolveDeme DD GE G dd = .ok (addDeme G d) :=
        resolveDeme_complete hDD hname hca hld hca2 hL ((checkDefaults_epoch_iff L).2 hv)
          (wf_deme_nodup (hwf dd List.mem_cons_self) ld L hld hL) hes hne hce hfd hok
          (fun e he => Asdict.epochOk_of_valid h5 h6 hdm he)
      rw [List.foldlM_cons, hstep]
      exact ih _ _ (fun x hx => hs x (List.mem_cons_of_mem _ hx))
        (fun x hx => hwf x (List.mem_cons_of_mem _ hx)) hf
        (by simp only [addDeme, Asdict.mkIndex_concat, hi]) hgf

/-! ### **completeness** -/

/-- a well-formed document of acceptable shape whose filled-in graph is valid is resolved, and to
that graph -/
theorem resolve_of_fill {d : Value} {g : Graph} (hwf : d.wf = true) (hs : schemaOK d = true)
    (hf : fill d = some g) (hv : validGraph g = true) : resolve d = .ok g := by
  obtain ⟨data, defaults, DD, MD, PD, GE, g0, demes, g1, migs, mss, pulses, pus, rfl, f1, f2, f3, f4, f5,
    f6, f7, f8, f9, f10, f11, f12, hg⟩ := fill_inv hf
  obtain ⟨data', defaults', DD', MD', PD', GE', demes', migs', pulses', hd, s1, s2, s3, s4, s5, s6, s7, s8,
    s9, s10, s11, s12, s13, s14, s15, s16, s17, s18, s19⟩ := schemaOK_iff.1 hs
  cases hd
  rw [f1] at s2; cases s2
  rw [f2] at s4; cases s4
  rw [f3] at s6; cases s6
  rw [f4] at s8; cases s8
  rw [f5] at s10; cases s10
  rw [f7] at s13; cases s13
  rw [f9] at s16; cases s16
  rw [f11] at s18; cases s18
  obtain ⟨h0, h1, h2, h3, h4, h5, h6, h8, h9, h10, h11, h12, h13⟩ := Asdict.clauses_of_valid hv
  obtain ⟨e1, e2, e3, e4⟩ := fillHeader_empty f6
  obtain ⟨a1, a2, a3, a4, a5, a6, a7, _, a9⟩ := fillDemes_shape demes g0 g1 f8
  rw [e3] at a6
  rw [e4] at a7
  have hidx : g1.index = Asdict.mkIndex g1.demes := a9 (by rw [e1, e2]; rfl)
  have hDD : ∀ k ∈ keys DD, k ∈ allowedDeme := allowedDeme_of_valid s5
  have hwfd : ∀ dd ∈ demes, (Value.obj dd).wf = true := by
    obtain ⟨v, hv', hos⟩ := obind_some' f7
    exact wf_objs hwf hv' hos
  -- header
  have h13' : v13 g0 = true := by
    have : v13 g0 = v13 g := by
      subst hg
      simp only [v13, a2, a3, a4]
    rw [this]; exact h13
  have r1 : resolveHeader data = .ok g0 := resolveHeader_complete f6 h13'
  -- demes
  have hgd : g.demes = g1.demes := by subst hg; rfl
  have r2 : demes.foldlM (resolveDeme DD GE) g0 = .ok g1 :=
    demes_complete hDD h1 h2 h3 h4 h5 h6 demes g0 g1 s15 hwfd f8 (by rw [e1, e2]; rfl) hgd
  -- migrations
  have hgm : g.migrations = mss.flatten := by subst hg; rfl
  have hgi : g.index = g1.index := by subst hg; rfl
  have r3 : migs.foldlM (resolveMigration MD) g1
      = .ok { g1 with migrations := g1.migrations ++ mss.flatten } := by
    refine migrations_complete migs mss g1 s17 f10 ?_
    intro pre mg post hsplit
    obtain ⟨s, dm, hok⟩ := Asdict.migOk_of_valid h1 h6 h8 h9 (pre := pre) (m := mg) (rest := post)
      (by rw [hgm, hsplit])
    refine ⟨s, dm, migOk_congr hok ?_ ?_ ?_⟩
    · exact hgd.symm
    · show g1.index = Asdict.mkIndex g.demes
      rw [hgd]; exact hidx
    · show g1.migrations ++ pre = pre
      rw [a6]; rfl
  -- rates
  have r4 : checkMigrationRates { g1 with migrations := g1.migrations ++ mss.flatten } = .ok () := by
    have : checkMigrationRates { g1 with migrations := g1.migrations ++ mss.flatten }
        = checkMigrationRates g := by
      subst hg
      rw [a6]
      rfl
    rw [this]
    exact checkMigrationRates_of_v10 g h1 h5 h6 h8 h9 h10
  -- pulses
  have hgp : g.pulses = sortDescStable (fun p : Pulse => p.time) pus := by subst hg; rfl
  have r5 : pulses.foldlM (resolvePulse PD) { g1 with migrations := g1.migrations ++ mss.flatten }
      = .ok { { g1 with migrations := g1.migrations ++ mss.flatten } with
              pulses := g1.pulses ++ pus } := by
    refine pulses_complete pulses pus _ s19 f12 ?_
    intro pu hpu
    have hmem : pu ∈ g.pulses := by
      rw [hgp]; exact (sortDescStable_perm _ pus).mem_iff.2 hpu
    obtain ⟨dd, hok⟩ := Asdict.pulseOk_of_valid h1 h11 (pre := []) hmem
    refine ⟨dd, pulseOk_congr hok ?_ ?_⟩
    · exact hgd.symm
    · show g1.index = Asdict.mkIndex g.demes
      rw [hgd]; exact hidx
  -- assemble
  have p1 : checkAllowed data allowedTop = .ok () := by
    rw [checkAllowed_iff_onlyFields, ← topFields_eq]; exact s1
  have p2 : checkAllowed defaults allowedDefaults = .ok () := by
    rw [checkAllowed_iff_onlyFields, ← defaultsFields_eq]; exact s3
  have hne : demes.isEmpty = false := by
    cases demes with
    | nil => exact (s14 rfl).elim
    | cons _ _ => rfl
  unfold resolve
  simp only [instObj, Proofs.ok_bind, Asdict.pure_bind', p1, (popObject_ok_iff _ _ _).2 f1, p2,
    (popObject_ok_iff _ _ _).2 f2, (checkDefaults_deme_iff DD).2 s5,
    (popObject_ok_iff _ _ _).2 f3, (checkDefaults_migration_iff MD).2 s7,
    (popObject_ok_iff _ _ _).2 f4, (checkDefaults_pulse_iff PD).2 s9,
    (popObject_ok_iff _ _ _).2 f5, (checkDefaults_epoch_iff GE).2 s11, r1,
    (popObjList_none_ok_iff _ _ _).2 f7, hne, Bool.false_eq_true, ↓reduceIte, r2,
    (popObjList_ok_iff _ _ _ _).2 f9, r3, r4, (popObjList_ok_iff _ _ _ _).2 f11, r5]
  subst hg
  simp only [a6, a7, List.nil_append, sortPulses_eq_sortDescStable]
  rfl

end Demes.Proofs.Accepts
