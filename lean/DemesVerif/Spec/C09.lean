/-
  Spec definitions for C09 — "every ms option string the library prints parses back to an
  option of the same kind with the same indices and the same values".

  What the Model does.  `Event.print` / `Structure.print` produce a list of *abstract* tokens
  (`Tok`): a flag, an integer, a number (`Num`: an exact rational or an IEEE special), a growth
  rate, or a raw string (`x` on the diagonal of `-ma`/`-ema`, the sample sizes of `-I`).  How a
  number token becomes characters (`float_str`: `str(a)` for `a ≥ 0`, `format(a, ".10f")` for
  `a < 0`) is *below* the Model: it is a matter of `float.__repr__`.  The Model's parser
  (`parseKnownArgs`) on the other hand works on strings, and reads a decimal string as its
  exact rational value (`pyFloat`).

  So a number codec is needed, and it is stated here explicitly: `NumCodec`.  It cannot demand
  `float(str x) = x` for *every* rational `x` (1/3 has no finite decimal string that denotes it
  exactly), hence the codec carries its domain `dom` (the numbers that are doubles whose `repr`
  denotes them exactly; on the real side `float(repr(x)) == x` holds for every double).
  Integers need no hypothesis: `str(int)` is `toString`, and `pyInt (toString i) = i` is proved.
-/
import DemesVerif.Model.Ms
import DemesVerif.Spec.C07Sem
import DemesVerif.Spec.C08
namespace Demes.Spec.C09
open Demes Demes.Ms

/-! ## The number codec (`float_str` / `float`) -/

/-- `5·10⁻¹¹`: half a unit of the tenth decimal place -/
def tenDecimals : Q := 5 / 10 ^ 11

/-- "the same value": exactly for a number that is not negative (`≥ 0`, `inf`, `nan`); a
negative finite number comes back as a non-positive finite number at distance `≤ 5·10⁻¹¹`
(it was printed in fixed-point form with ten decimals). -/
def numClose (x y : Num) : Prop :=
  (Num.lt x Num.zero = false → y = x) ∧
  (∀ a, x = .fin a → a < 0 → ∃ b, y = .fin b ∧ b ≤ 0 ∧ qabs (a - b) ≤ tenDecimals)

/-- `-d…d.dddddddddd`: the shape of `format(a, ".10f")` for a negative finite `a` -/
def fixedPointShape (cs : List Char) : Prop :=
  ∃ ip fp, cs = '-' :: (ip ++ '.' :: fp) ∧ ip ≠ [] ∧ ip.all Char.isDigit = true
    ∧ fp.length = 10 ∧ fp.all Char.isDigit = true

/-- The hypothesis on `float_str` (printing) against `float` (the Model's `pyFloat`).
`dom` is the set of numbers the codec is claimed for. -/
structure NumCodec where
  /-- `float_str` -/
  str : Num → String
  dom : Num → Prop
  /-- `str(a)` of a double that is not negative does not begin with a minus sign … -/
  nonneg_head : ∀ x, dom x → Num.lt x Num.zero = false → (str x).toList.head? ≠ some '-'
  /-- … and `float` gives the number back -/
  nonneg_parse : ∀ x, dom x → Num.lt x Num.zero = false → pyFloat (str x) = some x
  /-- a negative finite number is printed in fixed-point form with ten decimals … -/
  neg_shape : ∀ q, dom (.fin q) → q < 0 → fixedPointShape (str (.fin q)).toList
  /-- … which denotes a number within `5·10⁻¹¹` -/
  neg_parse : ∀ q, dom (.fin q) → q < 0 →
    ∃ b, pyFloat (str (.fin q)) = some (.fin b) ∧ b ≤ 0 ∧ qabs (q - b) ≤ tenDecimals

/-- a number the codec can print such that the parser reads a number back: in the domain and
not `-inf` (`format(-inf, ".10f")` is `-inf`, which argparse takes for an unknown option) -/
def NumCodec.ok (c : NumCodec) (x : Num) : Prop := c.dom x ∧ x ≠ .ninf

/-- the characters of a printed token (`" ".join` is undone by `command.split()`) -/
def renderTok (c : NumCodec) : Tok Num → String
  | .flag s => s
  | .int i => toString i
  | .num x => c.str x
  | .alpha a => c.str a
  | .raw s => s

def render (c : NumCodec) (toks : List (Tok Num)) : List String := toks.map (renderTok c)

/-! ## The option records -/

/-- the records the constructors (`attrs` converters + validators) let through -/
def validEvent : Event Num → Prop
  | .growthRateChange _ t a => vT t = .ok () ∧ vFinite a = .ok ()
  | .popGrowthRateChange _ t i a => vT t = .ok () ∧ 0 < i ∧ vFinite a = .ok ()
  | .sizeChange _ t x => vT t = .ok () ∧ vNonNegative x = .ok ()
  | .popSizeChange _ t i x => vT t = .ok () ∧ 0 < i ∧ vNonNegative x = .ok ()
  | .migRateChange _ t x => vT t = .ok () ∧ vNonNegative x = .ok ()
  | .migEntryChange _ t i j r => vT t = .ok () ∧ 0 < i ∧ 0 < j ∧ vNonNegative r = .ok ()
  | .migMatrixChange _ t npop _ => vT t = .ok () ∧ 0 < npop
  | .split _ t i p => vT t = .ok () ∧ 0 < i ∧ vUnitInterval p = .ok ()
  | .join _ t i j => vT t = .ok () ∧ 0 < i ∧ 0 < j

def validStructure (s : Structure) : Prop :=
  0 < s.npop ∧ vNonNegative s.rate = .ok () ∧ (s.n.length : Int) = s.npop

/-- every number of the record is one the codec prints; the time is not NaN (a NaN time
passes `non_negative` but `t > 0` is false, so the record prints as its `t = 0` form) -/
def codecEvent (c : NumCodec) : Event Num → Prop
  | .growthRateChange _ t a => c.ok t ∧ t ≠ .nan ∧ c.ok a
  | .popGrowthRateChange _ t _ a => c.ok t ∧ t ≠ .nan ∧ c.ok a
  | .sizeChange _ t x => c.ok t ∧ c.ok x
  | .popSizeChange _ t _ x => c.ok t ∧ t ≠ .nan ∧ c.ok x
  | .migRateChange _ t x => c.ok t ∧ c.ok x
  | .migEntryChange _ t _ _ r => c.ok t ∧ t ≠ .nan ∧ c.ok r
  | .migMatrixChange _ t npop mm => c.ok t ∧ t ≠ .nan ∧
      ∀ m, matrixOf npop mm = .ok m → ∀ row ∈ m, ∀ x ∈ row, c.ok x
  | .split _ t _ p => c.ok t ∧ c.ok p
  | .join _ t _ _ => c.ok t

inductive Dest where
  | structure_ | initialState | demographicEvents
  deriving DecidableEq, Repr

/-- the option flag `str(event)` begins with -/
def flagOf {α} : Event α → String
  | .growthRateChange _ t _ => if numPos t then "-eG" else "-G"
  | .popGrowthRateChange _ t _ _ => if numPos t then "-eg" else "-g"
  | .sizeChange .. => "-eN"
  | .popSizeChange _ t _ _ => if numPos t then "-en" else "-n"
  | .migRateChange .. => "-eM"
  | .migEntryChange _ t _ _ _ => if numPos t then "-em" else "-m"
  | .migMatrixChange _ t _ _ => if numPos t then "-ema" else "-ma"
  | .split .. => "-es"
  | .join .. => "-ej"

/-- the list `build_parser` sends the printed option to: `t > 0` ↦ `demographic_events`,
`t = 0` ↦ `initial_state` for the options that have both forms (`-G`/`-eG`, `-g`/`-eg`,
`-n`/`-en`, `-m`/`-em`, `-ma`/`-ema`); `-eN`, `-eM`, `-es`, `-ej` exist as events only -/
def destOf {α} : Event α → Dest
  | .growthRateChange _ t _ => if numPos t then .demographicEvents else .initialState
  | .popGrowthRateChange _ t _ _ => if numPos t then .demographicEvents else .initialState
  | .popSizeChange _ t _ _ => if numPos t then .demographicEvents else .initialState
  | .migEntryChange _ t _ _ _ => if numPos t then .demographicEvents else .initialState
  | .migMatrixChange _ t _ _ => if numPos t then .demographicEvents else .initialState
  | _ => .demographicEvents

def isMigMatrix {α} : Event α → Bool
  | .migMatrixChange .. => true
  | _ => false

/-- the parse result that holds exactly one option, in the given list, and nothing else -/
def Args.single (d : Dest) (e : Event Num) : Args :=
  match d with
  | .initialState => { initialState := [e] }
  | _ => { demographicEvents := [e] }

/-- entrywise `numClose` of two `n × n` matrices (both come from `matrixOf n …`, which fixes
their shape) -/
def matClose (n : Nat) (m m' : List (List Num)) : Prop :=
  ∀ j k, j < n → k < n → numClose ((m.getD j []).getD k .nan) ((m'.getD j []).getD k .nan)

/-- `e'` is "an option of the same kind with the same indices and the same values" as `e`,
and was produced by the option flag `flag`.  Same constructor, `opt = flag`, the same time,
the same integers; numbers related by `numClose`; for a migration matrix the same `npop` and
entrywise `numClose` matrices `M` (the strings themselves differ: `1` is printed `1.0`). -/
def sameOption (flag : String) : Event Num → Event Num → Prop
  | .growthRateChange _ t a, .growthRateChange o' t' a' => o' = flag ∧ t' = t ∧ numClose a a'
  | .popGrowthRateChange _ t i a, .popGrowthRateChange o' t' i' a' => o' = flag ∧ t' = t ∧ i' = i ∧ numClose a a'
  | .sizeChange _ t x, .sizeChange o' t' x' => o' = flag ∧ t' = t ∧ x' = x
  | .popSizeChange _ t i x, .popSizeChange o' t' i' x' => o' = flag ∧ t' = t ∧ i' = i ∧ x' = x
  | .migRateChange _ t x, .migRateChange o' t' x' => o' = flag ∧ t' = t ∧ x' = x
  | .migEntryChange _ t i j r, .migEntryChange o' t' i' j' r' => o' = flag ∧ t' = t ∧ i' = i ∧ j' = j ∧ r' = r
  | .migMatrixChange _ t n mm, .migMatrixChange o' t' n' mm' => o' = flag ∧ t' = t ∧ n' = n ∧
      ∃ m m', matrixOf n mm = .ok m ∧ matrixOf n mm' = .ok m' ∧ matClose n.toNat m m'
  | .split _ t i p, .split o' t' i' p' => o' = flag ∧ t' = t ∧ i' = i ∧ p' = p
  | .join _ t i j, .join o' t' i' j' => o' = flag ∧ t' = t ∧ i' = i ∧ j' = j
  | _, _ => False

/-- `e` with `option_strings[0]` set -/
def withOpt {α} (e : Event α) (o : String) : Event α :=
  match e with
  | .growthRateChange _ t a => .growthRateChange o t a
  | .popGrowthRateChange _ t i a => .popGrowthRateChange o t i a
  | .sizeChange _ t x => .sizeChange o t x
  | .popSizeChange _ t i x => .popSizeChange o t i x
  | .migRateChange _ t x => .migRateChange o t x
  | .migEntryChange _ t i j r => .migEntryChange o t i j r
  | .migMatrixChange _ t n mm => .migMatrixChange o t n mm
  | .split _ t i p => .split o t i p
  | .join _ t i j => .join o t i j

/-- no growth rate of the record is negative (then the round trip is exact) -/
def alphaNonNeg : Event Num → Prop
  | .growthRateChange _ _ a => Num.lt a Num.zero = false
  | .popGrowthRateChange _ _ _ a => Num.lt a Num.zero = false
  | _ => True

/-! ## Printer against the arity table -/

def isFlagTok {α} : Tok α → Bool
  | .flag _ => true
  | _ => false

/-- `toks` is a flag followed by as many argument tokens as the arity table of `build_parser`
demands for that flag (`nargs=k`: exactly `k`; `nargs='+'`: at least one) -/
def matchesArity {α} (toks : List (Tok α)) : Prop :=
  ∃ f rest, toks = .flag f :: rest ∧ (∀ t ∈ rest, isFlagTok t = false) ∧
    match arity.lookup f with
    | some (.fixed n) => rest.length = n
    | some .plus => 1 ≤ rest.length
    | none => False

/-! ## Graph → ms → graph (first sentence of C09) -/

/-- the characters of a token of `to_ms` (growth rates are the symbolic `-ln(r)/dt`, rendered by
`sa`; how a real number is rendered is outside the Model) -/
def renderTokG (c : NumCodec) (sa : Growth → String) : Tok Growth → String
  | .flag s => s
  | .int i => toString i
  | .num x => c.str x
  | .alpha a => sa a
  | .raw s => s

def renderG (c : NumCodec) (sa : Growth → String) (toks : List (Tok Growth)) : List String :=
  toks.map (renderTokG c sa)

/-- one epoch of constant size `N` from the infinite past to the present -/
def constEpoch (N sr cr : Q) : Epoch :=
  { startTime := .inf, endTime := 0, startSize := N, endSize := N, sizeFunction := "constant",
    selfingRate := sr, cloningRate := cr }

/-- a deme of constant size `N` without ancestors -/
def constDeme (name desc : String) (N sr cr : Q) : Deme :=
  { name := name, description := desc, startTime := .inf, ancestors := [], proportions := [],
    epochs := [constEpoch N sr cr] }

/-! ## Graph → ms → graph: the composition of C07 and C08

`to_ms` (C07) is interpreted by `Spec.C07.msSemG` (typed option records, symbolic growth rates);
`from_ms` (C08) is compared with `Spec.MsSem.msSem` (strings, rational growth rates).  The
definitions below connect the two: the class of graphs on which no non-zero growth rate is
printed (`ConstSizes`), the hypothesis that the number codec covers what is printed
(`CodecCovers`), the embedding of the observable of `msSemG` into the observable of `msSem`
(`embedSem`), and the relation "the demography `A` of an ms command (or of the graph `from_ms`
builds from it) is the demography `gs` of the graph on the lifetimes of the graph's demes"
(`SemRefines`; an ms population exists from time 0 whereas a deme may end before the present, so
nothing is asked of `A` before a deme's `end_time`). -/

section RoundTrip
open Demes.Spec.MsSem (Seg PopSem MigSeg Move DemogSem Pop mkSeg migSegs)
open Demes.Spec.C07 (Upd PopSemG DemogSemG)

/-- every epoch of the graph has equal start and end sizes (whatever its `size_function`), so
that `to_ms` emits no `-g` / `-eg` option -/
def ConstSizes (g : Graph) : Bool :=
  g.demes.all (fun d => d.epochs.all (fun e => decide (e.startSize = e.endSize)))

/-- a token the codec can print so that it is read back: every number token is in the codec's
domain (and is not `-inf`) -/
def tokCovered (c : NumCodec) : Tok Growth → Prop
  | .num x => c.ok x
  | _ => True

/-- the codec covers every number of the command -/
def CodecCovers (c : NumCodec) (toks : List (Tok Growth)) : Prop := ∀ t ∈ toks, tokCovered c t

instance (c : NumCodec) [∀ x, Decidable (c.ok x)] : DecidablePred (tokCovered c) := fun t => by
  cases t <;> unfold tokCovered <;> infer_instance

instance (c : NumCodec) [∀ x, Decidable (c.ok x)] (toks : List (Tok Growth)) : Decidable (CodecCovers c toks) := by
  unfold CodecCovers; infer_instance

/-- the rational value of a symbolic growth rate; only `0` has one (the embedding is used on
growth-free demographies only, see `GrowthFree`) -/
def growthQ : Growth → Q
  | .zero => 0
  | .sym _ _ => 0

/-- the population of the string interpreter (`MsSem.Pop`) that a list of size / growth updates
builds, by the interpreter's own `Pop.change` -/
def evalUpds (lo : Q) (upd : List Upd) : Pop :=
  upd.foldl (fun q u => q.change u.t (u.size.map Sz.ofQ) (u.growth.map growthQ))
    { lo := lo, t0 := lo, size0 := Sz.ofQ 0 }

/-- the end of a population's lifetime as `-ej` records it in the string interpreter -/
def closePop (q : Pop) : ETime → Pop
  | .inf => q
  | .fin T => { q with hi := .fin T, t0 := T, size0 := q.sizeAt T,
                       segs := if q.t0 < T then q.segs ++ [mkSeg q.t0 (.fin T) q.size0 q.growth] else q.segs }

/-- a population of `msSemG` (update list) as a population of `msSem` (evaluated segments) -/
def embedPop (p : PopSemG) : PopSem :=
  { id := p.id, lo := p.lo, hi := p.hi, segs := C08.finalSegs (closePop (evalUpds p.lo p.upd) p.hi) }

/-- no update sets a non-zero growth rate -/
def GrowthFree (s : DemogSemG) : Bool :=
  s.pops.all (fun p => p.upd.all (fun u => u.growth = none || u.growth = some .zero))

/-- the observable of `msSemG` as an observable of `msSem`: update lists evaluated into
segments, the matrix snapshots run-length encoded into the migration step function (`migSegs`,
over the number of populations of the last snapshot), the lineage movements unchanged -/
def embedSem (s : DemogSemG) : DemogSem :=
  { pops := s.pops.map embedPop,
    migs := migSegs s.snaps ((s.snaps.getLast?.map (·.2.length)).getD 0),
    moves := s.moves }

/-- the size of a population at time `t`: the value there of the one segment that owns `t` -/
def sizeAt (p : PopSem) (t : Q) : Option Sz :=
  match p.segs.filter (C08.segOwns · t) with
  | [s] => C08.segValue s t
  | _ => none

/-- the rate at which a lineage of population `i` moves to population `j` at time `t` according
to a migration step function (`0` when no segment of the pair covers `t`) -/
def rateOf (migs : List MigSeg) (i j : Nat) (t : Q) : Q :=
  ((migs.find? (fun m => C07.covers m i j t)).map (·.rate)).getD 0

/-- at time `t`, for lineages of population `pi` (inside its lifetime): the rate of moving to `pj`
is the graph's when `pj` exists, and `0` when it does not (`C07.migMatchAt` with the rate read off
a step function instead of the matrix snapshots) -/
def migRefinesAt (A gs : DemogSem) (pi pj : PopSem) (t : Q) : Bool :=
  let r := rateOf A.migs pi.id pj.id t
  if C07.inLife pj t then
    if r = 0 then gs.migs.all (fun m => !C07.covers m pi.id pj.id t)
    else gs.migs.any (fun m => C07.covers m pi.id pj.id t && m.rate = r)
  else r = 0

/-- the times at which one of the two migration step functions, or the set of living demes, can
change -/
def migCutsD (A gs : DemogSem) : List Q :=
  0 :: A.migs.map (·.t0) ++ C07.finTimes (A.migs.map (·.t1)) ++ gs.migs.map (·.t0) ++ C07.finTimes (gs.migs.map (·.t1))
    ++ gs.pops.map (·.lo) ++ C07.finTimes (gs.pops.map (·.hi))

/-- the same migration rates at every time of a deme's lifetime, none into a deme outside its
lifetime (step functions: checked at every time one of them can change) -/
def migsRefine (A gs : DemogSem) : Bool :=
  gs.pops.all (fun pi => gs.pops.all (fun pj => pi.id = pj.id ||
    (migCutsD A gs).all (fun t => !C07.inLife pi t || migRefinesAt A gs pi pj t)))

/-- **`A` describes the demography `gs` of a graph on the lifetimes of its demes**: the same
populations in the same order; each ends where the graph's deme starts and exists at least from
the deme's end time; at *every* time of a deme's lifetime the population has the deme's size
(exactly, as a symbolic size `coef·exp(expo)`, so growth rates agree too); the migration rates
agree on the lifetimes (`migsRefine`); and the lineage movements, restricted to the lifetimes,
are the graph's (`C07.restrictMoves`). -/
structure SemRefines (A gs : DemogSem) : Prop where
  ids : A.pops.map (·.id) = gs.pops.map (·.id)
  lives : ∀ ab ∈ A.pops.zip gs.pops, ab.1.hi = ab.2.hi ∧ ab.1.lo ≤ ab.2.lo
  sizes : ∀ ab ∈ A.pops.zip gs.pops, ∀ t, ab.2.lo ≤ t → ETime.fin t < ab.2.hi →
    (sizeAt ab.2 t).isSome = true ∧ sizeAt ab.1 t = sizeAt ab.2 t
  migs : migsRefine A gs = true
  moves : C07.restrictMoves gs A.moves = some gs.moves

/-- the pulses whose `to_ms` encoding lies in the fragment `C08.Tame'` on which the lineage movements
of `from_ms` are proved: every proportion is below one (F6: a pulse of proportion 1 is printed
`-es t d 0.0 -ej …`), and of two pulses at the same time the one listed first does not go into the
source of the one listed later (`to_ms` prints the later one first; `Tame'` asks that no population
is split or joined after it has received lineages at the same time) -/
def PulsesTame (g : Graph) : Bool :=
  g.pulses.all (fun p => p.proportions.all (fun x => decide (x < 1)))
  && pairwiseB (fun a b => !(a.time == b.time) || !(b.sources.contains a.dest)) g.pulses

end RoundTrip

/-! ## Graph → ms → graph with the same deme names (C09 §7) -/

/-- the demes are listed by non-increasing start time (oldest first): the order in which `from_ms` returns
its demes (`Builder._sort_demes_by_ancestry`, a stable sort on `start_time`, descending).  A valid graph lists
every deme after its ancestors, which is weaker: `A`, `B` (from `A` at time 4), `C` (from the infinite past)
is valid and not `StartsSorted`. -/
def StartsSorted (g : Graph) : Bool :=
  pairwiseB (fun a b => decide (b.startTime ≤ a.startTime)) g.demes
/-! ## Graph → ms → graph with exponential epochs (§8 of Theorems/C09.lean)

`to_ms` prints an exponential epoch as `-eg t i α`, `α = -ln(start/end)/dt` (the symbolic `Growth` of the
Model, rendered by the printer `sa`); the parser reads the decimal string back as a rational `α'`
(`growthVal sa`), and `from_ms` rebuilds the older size of the epoch as `size · exp(-α'·Δt)`.  What does
not depend on the *value* of a growth rate is exact; what does is the demography of the graph with every
growth rate replaced by its printed value (`regrow`). -/

section Growth
open Demes.Spec.MsSem (Seg PopSem MigSeg Move DemogSem Pop mkSeg migSegs)
open Demes.Spec.C07 (Upd PopSemG DemogSemG)

/-- the rational the parsers read off the string printed for a growth rate (`0` when the string is not a
finite number: excluded by `GrowthPrinter.parse`) -/
def growthVal (sa : Growth → String) (G : Growth) : Q :=
  match pyFloat (sa G) with
  | some (.fin q) => q
  | _ => 0

/-- the growth rates `to_ms` computes for the epochs of `g` (`get_growth_rate`, `4·N0` units) -/
def epochGrowths (g : Graph) (N0 : Q) : List Growth :=
  (inGenerations g).demes.flatMap (fun d => d.epochs.map (C07.growthOf N0))

/-- **the hypothesis on the printer of growth rates**, on the growth rates `Gs` of a graph: every printed
string reads as a finite number (`float`) and is an argument for argparse (not taken for an option:
`printed_numbers_are_not_flags`); the rate `0` of a constant epoch is printed as a string that reads as `0`;
and the printed value depends only on the real number printed (`Growth.eq`: `-ln(r₁)/dt₁ = -ln(r₂)/dt₂`) —
`to_ms` prints a rate only when it differs from the rate in force, so the rate in force in an epoch may have
been printed from the `(r, dt)` of a more recent epoch with the same rate. -/
structure GrowthPrinter (sa : Growth → String) (Gs : List Growth) : Prop where
  parse : ∀ G ∈ Gs, ∃ q, pyFloat (sa G) = some (.fin q)
  arg : ∀ G ∈ Gs, classify (sa G) = .ok .arg
  zero : growthVal sa .zero = 0
  congr : ∀ G ∈ Gs, ∀ G' ∈ Gs, G.eq G' = true → growthVal sa G = growthVal sa G'

/-- `GrowthPrinter`, decided -/
def growthPrinterB (sa : Growth → String) (Gs : List Growth) : Bool :=
  Gs.all (fun G => match pyFloat (sa G) with | some (.fin _) => true | _ => false)
  && Gs.all (fun G => match classify (sa G) with | .ok .arg => true | _ => false)
  && decide (growthVal sa .zero = 0)
  && Gs.all (fun G => Gs.all (fun G' => !(G.eq G') || decide (growthVal sa G = growthVal sa G')))

/-- the population of the string interpreter that a list of size / growth updates builds, the growth rate
`G` (ms units) read as the rational `gv G` -/
def evalUpdsV (gv : Growth → Q) (N0 : Q) (lo : Q) (upd : List Upd) : Pop :=
  upd.foldl (fun q u => q.change u.t (u.size.map Sz.ofQ) (u.growth.map (fun G => gv G / (4 * N0))))
    { lo := lo, t0 := lo, size0 := Sz.ofQ 0 }

/-- `embedPop` with growth rates: a population of `msSemG` (update list, symbolic growth rates) as a
population of `msSem` (evaluated segments, rational growth rates) -/
def embedPopV (gv : Growth → Q) (N0 : Q) (p : PopSemG) : PopSem :=
  { id := p.id, lo := p.lo, hi := p.hi, segs := C08.finalSegs (closePop (evalUpdsV gv N0 p.lo p.upd) p.hi) }

/-- `embedSem` with growth rates -/
def embedSemV (gv : Growth → Q) (N0 : Q) (s : DemogSemG) : DemogSem :=
  { pops := s.pops.map (embedPopV gv N0),
    migs := migSegs s.snaps ((s.snaps.getLast?.map (·.2.length)).getD 0),
    moves := s.moves }

/-- the growth rate (per generation) that comes back for a segment of a graph: the printed value of the
segment's own growth rate (`C07.segGrowth`: `0` for a constant epoch, `-ln(start/end)/dt` otherwise) -/
def segRateV (gv : Growth → Q) (N0 : Q) (s : Seg) : Q :=
  ((C07.segGrowth N0 s).map gv).getD 0 / (4 * N0)

/-- the segments of a graph population (from the present backwards) with every growth rate replaced by the
value that comes back.  `prev` is, for the segment before (more recent), its original size at its older end
and the size it reaches there with the replaced rate: where the graph's size is continuous `to_ms` prints no
`-en`, so the next segment starts from the size reached; where it jumps, `-en` sets the size exactly. -/
def regrowSegs (gv : Growth → Q) (N0 : Q) : Option (Sz × Sz) → List Seg → List Seg
  | _, [] => []
  | prev, s :: ss =>
    let size' : Sz := match prev with
      | some (origOld, cur) => if origOld = s.size then cur else s.size
      | none => s.size
    let s' : Seg := { mkSeg s.t0 s.t1 size' (segRateV gv N0 s) with fn := s.fn }
    s' :: regrowSegs gv N0 (match s.sizeOld, s'.sizeOld with | some o, some o' => some (o, o') | _, _ => none) ss

def regrowPop (gv : Growth → Q) (N0 : Q) (p : PopSem) : PopSem :=
  { p with segs := regrowSegs gv N0 none p.segs }

/-- **the demography of a graph with every growth rate replaced by its printed value**: lifetimes,
migrations and lineage movements unchanged; constant epochs stay constant, an exponential epoch grows at the
rate `gv G / (4·N0)` per generation from the size at its recent end -/
def regrow (gv : Growth → Q) (N0 : Q) (gs : DemogSem) : DemogSem :=
  { gs with pops := gs.pops.map (regrowPop gv N0) }

/-- the times of a graph population at which the size cannot depend on a printed growth rate: going
backwards from the present (or from the last jump of the size, where `-en` sets it), all the epochs so far
are constant — or the time is the recent end of the first exponential one.  `prev`: for the segment before,
its original size at its older end, and whether the size there is still exact. -/
def exactSegs : Option (Sz × Bool) → List Seg → Q → Bool
  | _, [], _ => false
  | prev, s :: ss, t =>
    let ex : Bool := match prev with
      | some (o, e) => o != s.size || e
      | none => true
    let const : Bool := s.sizeOld == some s.size
    if C08.segOwns s t then ex && (const || t == s.t0)
    else exactSegs (s.sizeOld.map (fun o => (o, ex && const))) ss t

def exactAt (p : PopSem) (t : Q) : Bool := exactSegs none p.segs t

/-- **`SemRefines` up to the values of the growth rates**: `SemRefines` with the size clause asked only at
the times `exactAt` — every time of a constant epoch not preceded (towards the present, since the last jump
of the size) by an exponential one, and the recent end of the first exponential epoch of such a run.  The
populations, their order and lifetimes, the migration rates and the lineage movements are those of the
graph, exactly. -/
structure SemRefinesUpToGrowth (A gs : DemogSem) : Prop where
  ids : A.pops.map (·.id) = gs.pops.map (·.id)
  lives : ∀ ab ∈ A.pops.zip gs.pops, ab.1.hi = ab.2.hi ∧ ab.1.lo ≤ ab.2.lo
  sizes : ∀ ab ∈ A.pops.zip gs.pops, ∀ t, ab.2.lo ≤ t → ETime.fin t < ab.2.hi → exactAt ab.2 t = true →
    (sizeAt ab.2 t).isSome = true ∧ sizeAt ab.1 t = sizeAt ab.2 t
  migs : migsRefine A gs = true
  moves : C07.restrictMoves gs A.moves = some gs.moves

end Growth

/-! ## Graph → ms → graph without the lineage movements (§9 of Theorems/C09.lean)

The lineage movements of the graph `from_ms` returns are proved on the fragments `C08.Tame'` / `C08.Tame2` only;
everything else `SemRefines` asks is proved for every command `from_ms` accepts. -/

section NoMoves
open Demes.Spec.MsSem (DemogSem)

/-- **`SemRefines` without its last clause** (the lineage movements): the same populations in the same order, the
same lifetimes, at every time of a deme's lifetime the deme's size, the same migration rates on the lifetimes. -/
structure SemRefinesSizesMigs (A gs : DemogSem) : Prop where
  ids : A.pops.map (·.id) = gs.pops.map (·.id)
  lives : ∀ ab ∈ A.pops.zip gs.pops, ab.1.hi = ab.2.hi ∧ ab.1.lo ≤ ab.2.lo
  sizes : ∀ ab ∈ A.pops.zip gs.pops, ∀ t, ab.2.lo ≤ t → ETime.fin t < ab.2.hi →
    (sizeAt ab.2 t).isSome = true ∧ sizeAt ab.1 t = sizeAt ab.2 t
  migs : migsRefine A gs = true

end NoMoves

/-! ## Graph → ms → graph with chains of pulses (§10 of Theorems/C09.lean) -/

/-- every pulse proportion is below one — the first clause of `PulsesTame` (F6: a pulse of proportion 1 is printed
`-es t d 0.0 -ej …`, which `from_ms` rejects), without the clause on the order of same-time pulses: the `to_ms`
encoding of such a graph lies in the fragment `C08.Tame3` -/
def PulsesBelowOne (g : Graph) : Bool :=
  g.pulses.all (fun p => p.proportions.all (fun x => decide (x < 1)))

end Demes.Spec.C09
