/-
  C08, time 0 — the refinement on the fragment `Tame''` (the first two clauses of `GoodGroup`): the
  third clause ("a group with `-es`/`-ej` is not at time 0") is discharged from the acceptance by
  `from_ms`.  Only the first time group can be at time 0.  If it moves lineages, then either the
  Builder state carries a `ZeroMark` afterwards (and `from_ms` fails), or it has written neither a
  pulse nor a deme start; in that case every row of the movement matrix is the identity, and so is
  what the interpreter records: nothing.
-/
import DemesVerif.Proofs.FromMsZeroMark
namespace Demes.Proofs.FromMs
open Demes Demes.Ms Demes.Spec Demes.Spec.MsSem Demes.Spec.C08

/-! ## the end of a group, from the first two clauses of `GoodGroup` -/

theorem group_end2 {N0 T T' : Q} {s s1 : BState} {g1 : GState} {σ σ1 : St} {L1 : List (Nat × Row)}
    {evs : List (Event Num)}
    (hsim : SizeSim T s σ) (hT : T ≤ T') (hall : ∀ e ∈ evs, HasCmd e)
    (htime : ∀ e ∈ evs, 4 * N0 * (cmdOfD e).t = T')
    (hm : evs.foldlM (stepEvent N0 T') (s, { lm := initLm s evs, params := [] }) = .ok (s1, g1))
    (hs : (evs.map cmdOfD).foldlM (Spec.MsSem.step N0) (σ, initL σ) = .ok (σ1, L1))
    (hns : NSAT (groupOps s.numDemes (evs.map cmdOfD))) (hfr : ∀ e ∈ evs, FracOK (cmdOfD e))
    (hnames : NameInv s) :
    SizeSim T' s1 σ1 ∧ GroupEnd T' s σ s1 g1 L1 (groupOps s.numDemes (evs.map cmdOfD)) := by
  obtain ⟨done, pend, hsim1, hinv, hrel, hlen⟩ := events_groupInv hns evs hsim hT hall htime hfr
    (groupInv_init hsim _ _ rfl) (initLm_rel hsim evs) (initLm_length s evs) hm hs
  have hlink : groupOps s.numDemes (evs.map cmdOfD) = done ++ flushOp s1.numDemes pend := hinv.link
  obtain ⟨pos1, jv1, last1⟩ := hinv.flushed
  obtain ⟨hkeys, hok1⟩ := steps_rowsOK _ hs (fun ir hir => by
    obtain ⟨h1, _, e, _⟩ := initL_mem hir
    rw [e]; exact rowOK_single _ _ h1)
  have hnames1 : NameInv s1 :=
    RV.foldlM_inv (fun (sg : BState × GState) => NameInv sg.1) _
      (fun a ev b ha hst => by
        obtain ⟨a1, a2⟩ := a
        obtain ⟨b1, b2⟩ := b
        exact stepEvent_names ha hst) _ _ _ hnames hm
  refine ⟨hsim1, ⟨Or.inl hns, ?_, ?_, ?_, ?_, ?_, ?_, hrel, hlen, hkeys, hok1, hnames1, ?_, hinv.n0le, ?_, hinv.dNew, ?_,
    hinv.pulses, ?_⟩⟩
  · rw [hlink]; exact pos1
  · rw [hlink]; exact hinv.ub
  · rw [hlink]; intro o ho hq; exact (hinv.joinedV o (jv1 o ho hq) hq).2
  · rw [hlink]; exact last1
  · rw [hlink]; exact hinv.params
  · rw [hlink]; exact hinv.rows
  · rw [hsim1.len, hsim1.num]
  · intro j d hj hd
    obtain ⟨d0, h0, e1, e2⟩ := hinv.dOld j d hj hd
    refine ⟨d0, h0, e1, ?_⟩
    rcases e2 with e2 | ⟨e2, e3, o, ho, e4⟩
    · exact Or.inl e2
    · exact Or.inr ⟨e2, e3, o, by rw [hlink]; exact List.mem_append_left _ ho, e4⟩
  · rw [hlink]; intro o ho hq; exact hinv.dJoin o (jv1 o ho hq) hq
  · rw [hlink]; exact hinv.srcAlive

theorem good12_parts {n : Nat} {cmds : List Cmd} (h : GoodGroup12 n cmds = true) :
    NSAT (groupOps n cmds) ∧ ∀ c ∈ cmds, FracOK c := by
  unfold GoodGroup12 at h
  simp only [Bool.and_eq_true, List.all_eq_true] at h
  refine ⟨nsat_of_bool _ h.1, ?_⟩
  intro c hc
  have := h.2 c hc
  cases c <;> first | trivial | (simpa [FracOK] using this)

/-- with the times of its `-es`/`-ej` positive, the first two clauses give a `GoodGroup` -/
theorem goodGroup_of_12 {n : Nat} {cmds : List Cmd} (h : GoodGroup12 n cmds = true)
    (hpos : ∀ c ∈ cmds, isMove c = true → 0 < c.t) : GoodGroup n cmds = true := by
  unfold GoodGroup12 at h
  unfold GoodGroup
  rw [h, Bool.true_and, List.all_eq_true]
  intro c hc
  obtain ⟨h1, h2⟩ := List.mem_filter.mp hc
  simpa using hpos c h1 h2

/-- the groups after a group at a time `≥ 0` are at positive times -/
theorem goodGroups_of_12 {N0 : Q} (hN : 0 < N0) : ∀ (K : List (List Cmd)) (n : Nat) (T : Q), 0 ≤ T →
    TimesOK2 N0 (some T) K → goodGroups12 n K = true → goodGroups n K = true := by
  intro K
  induction K with
  | nil => intro _ _ _ _ _; rfl
  | cons g rest ih =>
    intro n T hT ht h
    obtain ⟨T', hprev, htg, hrest⟩ := ht
    have hTT : T < T' := hprev
    simp only [goodGroups12, Bool.and_eq_true] at h
    simp only [goodGroups, Bool.and_eq_true]
    refine ⟨goodGroup_of_12 h.1 ?_, ih _ T' (Rat.le_of_lt (lt_of_le_of_lt hT hTT)) hrest h.2⟩
    intro c hc _
    have h4 : (0 : Q) < 4 * N0 := by linarith
    have hpos : 0 < 4 * N0 * c.t := by rw [htg c hc]; exact lt_of_le_of_lt hT hTT
    by_contra hle
    have hle' : c.t ≤ 0 := Rat.not_lt.mp hle
    have : 4 * N0 * c.t ≤ 0 := by
      have := Rat.mul_le_mul_of_nonneg_left hle' (Rat.le_of_lt h4)
      simpa using this
    exact Rat.lt_irrefl (lt_of_lt_of_le hpos this)

/-! ## the first group, at time 0, with `-es` / `-ej` -/

theorem forall2_map_self {α β} {R : α → β → Prop} {f : α → β} : ∀ (l : List α), (∀ a ∈ l, R a (f a)) →
    List.Forall₂ R l (l.map f) := by
  intro l
  induction l with
  | nil => intro _; exact List.Forall₂.nil
  | cons a l ih =>
    intro h
    exact List.Forall₂.cons (h a (List.mem_cons_self ..)) (ih (fun x hx => h x (List.mem_cons_of_mem _ hx)))

/-- rows that are the identity as functions are dropped by `canonRows` -/
theorem canonRows_delta {L : List (Nat × Row)} (hok : ∀ ir ∈ L, 1 ≤ ir.1 ∧ RowOK ir.2)
    (h : ∀ ir ∈ L, ∀ k, Row.get ir.2 k = delta ir.1 k) : canonRows L = [] := by
  have h1 : canonRows L = canonRows (L.map (fun ir => (ir.1, ([(ir.1, (1 : Q))] : Row)))) := by
    apply canonRows_congr
    apply forall2_map_self
    intro ir hir
    refine ⟨rfl, (hok ir hir).2, rowOK_single _ _ (hok ir hir).1, ?_⟩
    intro k
    dsimp only
    rw [h ir hir k, single_get]
  rw [h1]
  apply canonRows_identity
  intro x hx
  obtain ⟨ir, _, rfl⟩ := List.mem_map.mp hx
  rfl

/-- own moves with fractions below 1 that move nothing: every move to another population has
fraction 0 -/
theorem foldOps_own_fixed_q (r : Nat) : ∀ (ops : List MOp) (f : RowF), OwnOps r ops → (∀ o ∈ ops, o.2.2 < 1) →
    (∀ k, 0 ≤ f k) → 0 < f r → (∀ k, k ≠ r → foldOps ops f k ≤ f k) →
    ∀ o ∈ ops, o.2.1 ≠ o.1 → o.2.2 = 0 := by
  intro ops
  induction ops with
  | nil => intro f _ _ _ _ _ o ho; cases ho
  | cons o rest ih =>
    intro f ho hq hf hr hle
    rw [foldOps_cons] at hle
    obtain ⟨ha, hq0, hq1⟩ := ho o (List.mem_cons_self ..)
    have ho' : OwnOps r rest := fun o' ho' => ho o' (List.mem_cons_of_mem _ ho')
    have hf' := opF_nonneg hq0 hq1 hf
    have hmono := foldOps_own_mono r rest (opF o f) ho' hf'
    have hhead : o.2.1 ≠ o.1 → o.2.2 = 0 := by
      intro hh
      have hhr : o.2.1 ≠ r := by rw [← ha]; exact hh
      have h1 := hmono o.2.1 hhr
      have h2 := hle o.2.1 hhr
      have h3 : opF o f o.2.1 = f o.2.1 + f o.1 * o.2.2 := by unfold opF; simp [hh]
      have h4 : f o.1 * o.2.2 ≤ 0 := by linarith
      have h5 : 0 ≤ f o.1 * o.2.2 := Rat.mul_nonneg (hf _) hq0
      have h6 : f o.1 * o.2.2 = 0 := Rat.le_antisymm h4 h5
      rw [ha] at h6
      rcases Rat.mul_eq_zero.mp h6 with h | h
      · rw [h] at hr; exact (Rat.lt_irrefl hr).elim
      · exact h
    have hstep : opF o f = f := by
      by_cases hh : o.2.1 = o.1
      · funext k
        unfold opF
        by_cases h1 : k = o.2.1
        · simp [h1, hh]
        · have : ¬ k = o.1 := by rw [← hh]; exact h1
          simp [h1, this]
      · have h7 := hhead hh
        funext k
        unfold opF
        by_cases h1 : k = o.2.1
        · simp [h1, hh, h7]
        · by_cases h2 : k = o.1
          · simp [h2, h7]
          · simp [h1, h2]
    rw [hstep] at hle
    intro o' ho'' hne
    rcases List.mem_cons.mp ho'' with rfl | ho''
    · exact hhead hne
    · exact ih f ho' (fun x hx => hq x (List.mem_cons_of_mem _ hx)) hf hr hle o' ho'' hne

/-- **the first time group, at time 0**, from the facts at the end of its options: if the Builder state after the
group is not marked (`ZeroMark`), nothing was written and nothing was recorded -/
theorem first_group_zero_core {s : BState} {σ σ' σ1 : St} {s1 : BState} {g1 : GState} {L1 : List (Nat × Row)}
    {ops : List MOp} {mv : Bool}
    (hsim : SizeSim 0 s σ) (hsim1 : SizeSim 0 s1 σ1) (he : GroupEnd 0 s σ s1 g1 L1 ops)
    (hinit : ∀ (j : Nat) (d : BDeme), s.demes[j]? = some d → d.startTime = .inf ∧ bEndTime d = 0)
    (hpul : s.pulses.getD [] = []) (hmv0 : σ.moves = [])
    (hmoves : σ'.moves = (if mv && !(canonRows L1).isEmpty
          then σ.moves ++ [{ time := 0, rows := canonRows L1 }] else σ.moves))
    (hz : ¬ ZeroMark (applyParams 0 s1 g1)) :
    MovesInv 0 (applyParams 0 s1 g1) σ' ∧ ∀ o ∈ ops,
        o.2.2 ≠ 1 ∧ (o.1 ≤ s.numDemes → o.2.1 ≠ o.1 → o.2.2 = 0) := by
  obtain ⟨ap1, _, ap3, ap4⟩ := apFold 0 g1 g1.params s1
  have ap5 := apFold_joined 0 g1 g1.params s1
  -- no pulse was emitted
  have hF1 : ∀ e ∈ g1.params, emitB g1 e.1 = false := by
    intro e hem
    cases hemit : emitB g1 e.1 with
    | false => rfl
    | true =>
      exfalso
      apply hz
      left
      refine ⟨mkPulse 0 e, ?_, rfl⟩
      rw [applyParams_eq, ap1]
      exact List.mem_append_right _ (List.mem_map.mpr ⟨e, List.mem_filter.mpr ⟨hem, hemit⟩, rfl⟩)
  -- no deme starts at time 0
  have hF2 : ∀ (j : Nat) (d : BDeme), s1.demes[j]? = some d → d.startTime ≠ .fin 0 := by
    intro j d hd hst
    apply hz
    right
    have hj : j < σ1.pops.length := by rw [← hsim1.len]; exact (List.getElem?_eq_some_iff.mp hd).1
    obtain ⟨rr, _, _, r4⟩ := hsim1.rel j d _ hd (List.getElem?_eq_getElem hj)
    have hal : MsSem.alive σ1.pops[j] = false := by
      unfold MsSem.alive; rw [← rr.2.2, hst]; rfl
    refine ⟨j, _, by rw [applyParams_eq]; exact ap4 j d hd, ?_, ?_⟩
    · split
      · exact hst
      · exact hst
    · rw [applyParams_eq, ap5, r4, hal]; rfl
  -- no population was joined
  have hF3 : ∀ o ∈ ops, o.2.2 ≠ 1 := by
    intro o ho hq
    obtain ⟨d, hd, hst⟩ := he.dJoin o ho hq
    exact hF2 _ d hd hst
  have hfrac : ∀ o ∈ ops, 0 ≤ o.2.2 ∧ o.2.2 ≤ 1 := fun o ho => ⟨(he.pos o ho).2.2.1, (he.pos o ho).2.2.2⟩
  have hnoemit : ∀ o ∈ ops, emitB g1 (o.1 - 1) = false := by
    intro o ho
    have := hF1 (op0 o) (by rw [he.params]; exact List.mem_map.mpr ⟨o, ho, rfl⟩)
    exact this
  -- every row of the matrix is the identity
  have hfil : ops.filter (fun o => emitB g1 (o.1 - 1)) = [] := by
    rw [List.filter_eq_nil_iff]
    intro o ho
    simp [hnoemit o ho]
  have hrow : ∀ ir ∈ L1, ∀ k, Row.get ir.2 k = delta ir.1 k := by
    intro ir hir k
    rw [he.rows ir hir k]
    have hrb : foldBorn [] (foldOps (ops.filter (fun o => (fun a => emitB g1 (a - 1)) o.1)) (delta ir.1))
        = foldOps ops (delta ir.1) := by
      rcases he.frag with hns | h3
      · exact readBack_row (F := fun r => foldOps ops (delta r)) (born := [])
          ⟨hns, hfrac, List.nodup_nil, fun b hb => (by cases hb), fun b hb => (by cases hb)⟩
          ir.1 rfl (fun o ho _ hq => (hF3 o ho hq).elim) (fun a => emitB g1 (a - 1)) (emit_iff he hir)
      · exact readBack_row3 (F := fun r => foldOps ops (delta r)) (born := [])
          ⟨h3.2, hfrac, List.nodup_nil, fun b hb => (by cases hb), fun b hb => (by cases hb)⟩
          ir.1 rfl (fun o ho _ hq => (hF3 o ho hq).elim) (fun a => emitB g1 (a - 1))
          (fun hem => ((emit_iff he hir).mp hem).1) (nonemit_trivial hsim he h3)
    rw [hfil] at hrb
    exact (congrFun hrb k).symm
  have hcan : canonRows L1 = [] :=
    canonRows_delta (fun ir hir => ⟨(he.rel ir hir).1, he.rowsOK ir hir⟩) hrow
  have hmv : σ'.moves = [] := by
    rw [hmoves, hcan, hmv0]
    simp
  -- the demes after the group
  have hdem : ∀ (j : Nat) (D : BDeme), (applyParams 0 s1 g1).demes[j]? = some D →
      D.startTime = .inf ∧ bEndTime D = 0 := by
    intro j D hD
    obtain ⟨d, hd, _, _, hstD, hbD, _⟩ := s2_at he hD
    rw [hstD, hbD]
    by_cases hj : j < s.numDemes
    · obtain ⟨d0, h0, e1, e2⟩ := he.dOld j d hj hd
      obtain ⟨i1, i2⟩ := hinit j d0 h0
      refine ⟨?_, by rw [e1, i2]⟩
      rcases e2 with e2 | ⟨e2, _, _⟩
      · rw [e2, i1]
      · exact (hF2 j d hd e2).elim
    · obtain ⟨a, b⟩ := he.dNew j d (by omega) hd
      refine ⟨?_, a⟩
      rcases b with b | b
      · exact b
      · exact (hF2 j d hd b).elim
  refine ⟨⟨Rat.le_refl, by rw [hmv]; exact List.Pairwise.nil, ?_, ?_, ?_, ?_⟩, ?_⟩
  rotate_right
  · -- the moves of a population that existed before the group move nothing
    intro o ho
    refine ⟨hF3 o ho, ?_⟩
    intro hle hne'
    rcases he.frag with hns | h3
    · obtain ⟨o1, _, _, _⟩ := he.pos o ho
      have hlt : o.1 - 1 < s.demes.length := by rw [hsim.len, ← hsim.num]; omega
      have h0 := List.getElem?_eq_getElem hlt
      obtain ⟨ir, hir, hkey⟩ := alive_key hsim he h0 (hinit _ _ h0).1
      have hkey' : ir.1 = o.1 := by omega
      have hFr : foldOps ops (delta o.1) = delta o.1 := by
        funext k
        rw [← hkey', ← he.rows ir hir k, hrow ir hir k]
      rw [foldOps_own_delta o.1 _ hns] at hFr
      have hown : OwnOps o.1 (ops.filter (fun o' => o'.1 = o.1)) := by
        intro o' ho'
        obtain ⟨h1, h2⟩ := List.mem_filter.mp ho'
        exact ⟨by simpa using h2, (he.pos o' h1).2.2.1, (he.pos o' h1).2.2.2⟩
      have hlt1 : ∀ o' ∈ ops.filter (fun o' => o'.1 = o.1), o'.2.2 < 1 := by
        intro o' ho'
        have h1 := (List.mem_filter.mp ho').1
        exact lt_of_le_of_ne (he.pos o' h1).2.2.2 (hF3 o' h1)
      exact foldOps_own_fixed_q o.1 _ (delta o.1) hown hlt1 (delta_nonneg o.1) (by rw [delta_self]; decide)
        (fun k _ => by rw [hFr]) o (List.mem_filter.mpr ⟨ho, by simp⟩) hne'
    · rcases nonemit_trivial hsim he h3 o ho (hnoemit o ho) with ⟨o', ho', _, hq⟩ | h | h
      · exact (hF3 o' ho' hq).elim
      · exact (hne' h).elim
      · exact h
  · intro m hmm
    rw [hmv] at hmm
    cases hmm
  · intro T0 hev
    exfalso
    rcases hev with ⟨p, hp, _⟩ | ⟨D, hD, _, hst⟩
    · rw [applyParams_eq, ap1, he.pulses, hpul, List.nil_append] at hp
      obtain ⟨e, hem, _⟩ := List.mem_map.mp hp
      obtain ⟨h1, h2⟩ := List.mem_filter.mp hem
      rw [hF1 e h1] at h2
      cases h2
    · obtain ⟨j, hj⟩ := List.mem_iff_getElem?.mp hD
      rw [(hdem j D hj).1] at hst
      cases hst
  · intro j D hD
    rw [(hdem j D hD).2]
  · intro j D hD
    exact Or.inl (hdem j D hD).1

/-- **the first time group, at time 0.**  From the initial state (every deme starts at `∞` and has
its only epoch end at 0, no pulse, no movement recorded): after a group at time 0 that satisfies the
first two clauses of `GoodGroup`, either the Builder state is marked (`ZeroMark`: `from_ms` will
fail), or the invariant of the run holds: nothing was written, nothing was recorded. -/
theorem first_group_zero {N0 : Q} {s s' : BState} {σ σ' : St} {evs : List (Event Num)}
    (hsim : SizeSim 0 s σ) (hnames : NameInv s)
    (hall : ∀ e ∈ evs, HasCmd e) (hne : evs ≠ []) (htime : ∀ e ∈ evs, 4 * N0 * (cmdOfD e).t = 0)
    (hns : NSAT (groupOps s.numDemes (evs.map cmdOfD))) (hfr : ∀ e ∈ evs, FracOK (cmdOfD e))
    (hinit : ∀ (j : Nat) (d : BDeme), s.demes[j]? = some d → d.startTime = .inf ∧ bEndTime d = 0)
    (hpul : s.pulses.getD [] = []) (hmv0 : σ.moves = [])
    (hm : Ms.stepGroup N0 s evs = .ok s') (hs : Spec.MsSem.stepGroup N0 σ (evs.map cmdOfD) = .ok σ') :
    (MovesInv 0 s' σ' ∧ ∀ o ∈ groupOps s.numDemes (evs.map cmdOfD),
        o.2.2 ≠ 1 ∧ (o.1 ≤ s.numDemes → o.2.1 ≠ o.1 → o.2.2 = 0)) ∨ ZeroMark s' := by
  by_cases hz : ZeroMark s'
  · exact Or.inr hz
  left
  obtain ⟨t, s1, g1, ht, hfold, rfl⟩ := stepGroup_ok hm
  obtain ⟨ht1, ht2⟩ := head_time hall hne htime
  have htT := ht1 t ht
  rw [htT] at hfold hz ⊢
  obtain ⟨σ1, L1, hsfold, hmoves⟩ := stepGroup_moves hs
  rw [ht2] at hmoves
  obtain ⟨hsim1, he⟩ := group_end2 hsim (Rat.le_refl) hall htime hfold hsfold hns hfr hnames
  exact first_group_zero_core hsim hsim1 he hinit hpul hmv0 hmoves hz

end Demes.Proofs.FromMs
