/-
  Proofs for C09, part 3 — print → parse for every option record except the migration
  matrix: `-G`, `-eG`, `-g`, `-eg`, `-eN`, `-n`, `-en`, `-eM`, `-m`, `-em`, `-es`, `-ej`, and `-I`.
-/
import DemesVerif.Proofs.MsPrintParse
namespace Demes.Proofs.MsPrint
open Demes Demes.Ms Demes.Spec.C09


theorem mem2 {α} {p : α → Prop} {a b : α} (ha : p a) (hb : p b) : ∀ s ∈ [a, b], p s := by
  intro s hs; simp at hs; rcases hs with h | h <;> subst h <;> assumption
theorem mem1 {α} {p : α → Prop} {a : α} (ha : p a) : ∀ s ∈ [a], p s := by
  intro s hs; simp at hs; subst hs; assumption
theorem mem3 {α} {p : α → Prop} {a b c : α} (ha : p a) (hb : p b) (hc : p c) : ∀ s ∈ [a, b, c], p s := by
  intro s hs; simp at hs; rcases hs with h | h | h <;> subst h <;> assumption
theorem mem4 {α} {p : α → Prop} {a b c d : α} (ha : p a) (hb : p b) (hc : p c) (hd : p d) : ∀ s ∈ [a, b, c, d], p s := by
  intro s hs; simp at hs; rcases hs with h | h | h | h <;> subst h <;> assumption

theorem pp_popSizeChange (c : NumCodec) (o : String) (t : Num) (i : Int) (x : Num)
    (e : Event Num) (he : e = .popSizeChange o t i x) (hv : validEvent e) (hc : codecEvent c e) :
    ∃ toks, e.print = .ok toks ∧
      parseKnownArgs (render c toks) = .ok (Args.single (destOf e) (.popSizeChange (flagOf e) t i x)) := by
  subst he
  obtain ⟨hvt, hi0, hvx⟩ := hv
  obtain ⟨hct, hnan, hcx⟩ := hc
  have hx := cFloat_exact c x hcx (vNonNeg_lt x hvx)
  have ht := cFloat_exact c t hct (vNonNeg_lt t hvt)
  cases hp : numPos t
  · have ht0 := time_zero t hvt hnan hp
    subst ht0
    refine ⟨_, rfl, ?_⟩
    simp only [hp, flagOf, destOf, Args.single, render, List.map, renderTok,
      Bool.false_eq_true, if_false, List.cons_append, List.nil_append]
    exact parse_single "-n" _ (.fixed 2) _ rfl rfl rfl
      (mem2 (classify_toString_int i) (classify_num c x hcx))
      (act_n _ _ i x (cInt_toString i) hx hi0 hvx)
  · refine ⟨_, rfl, ?_⟩
    simp only [hp, flagOf, destOf, Args.single, render, List.map, renderTok,
      if_true, List.cons_append, List.nil_append]
    exact parse_single "-en" _ (.fixed 3) _ rfl rfl rfl
      (mem3 (classify_num c t hct) (classify_toString_int i) (classify_num c x hcx))
      (act_en _ _ _ t i x ht (cInt_toString i) hx hvt hi0 hvx)

theorem pp_popGrowthRateChange (c : NumCodec) (o : String) (t : Num) (i : Int) (x : Num)
    (e : Event Num) (he : e = .popGrowthRateChange o t i x) (hv : validEvent e) (hc : codecEvent c e) :
    ∃ toks x', e.print = .ok toks ∧ numClose x x' ∧
      parseKnownArgs (render c toks) = .ok (Args.single (destOf e) (.popGrowthRateChange (flagOf e) t i x')) := by
  subst he
  obtain ⟨hvt, hi0, hvx⟩ := hv
  obtain ⟨hct, hnan, hcx⟩ := hc
  obtain ⟨x', hx, hcl, hfin⟩ := cFloat_close c x hcx
  have ht := cFloat_exact c t hct (vNonNeg_lt t hvt)
  cases hp : numPos t
  · have ht0 := time_zero t hvt hnan hp
    subst ht0
    refine ⟨_, x', rfl, hcl, ?_⟩
    simp only [hp, flagOf, destOf, Args.single, render, List.map, renderTok,
      Bool.false_eq_true, if_false, List.cons_append, List.nil_append]
    exact parse_single "-g" _ (.fixed 2) _ rfl rfl rfl
      (mem2 (classify_toString_int i) (classify_num c x hcx))
      (act_g _ _ i x' (cInt_toString i) hx hi0 (hfin hvx))
  · refine ⟨_, x', rfl, hcl, ?_⟩
    simp only [hp, flagOf, destOf, Args.single, render, List.map, renderTok,
      if_true, List.cons_append, List.nil_append]
    exact parse_single "-eg" _ (.fixed 3) _ rfl rfl rfl
      (mem3 (classify_num c t hct) (classify_toString_int i) (classify_num c x hcx))
      (act_eg _ _ _ t i x' ht (cInt_toString i) hx hvt hi0 (hfin hvx))

theorem pp_growthRateChange (c : NumCodec) (o : String) (t : Num) (x : Num)
    (e : Event Num) (he : e = .growthRateChange o t x) (hv : validEvent e) (hc : codecEvent c e) :
    ∃ toks x', e.print = .ok toks ∧ numClose x x' ∧
      parseKnownArgs (render c toks) = .ok (Args.single (destOf e) (.growthRateChange (flagOf e) t x')) := by
  subst he
  obtain ⟨hvt, hvx⟩ := hv
  obtain ⟨hct, hnan, hcx⟩ := hc
  obtain ⟨x', hx, hcl, hfin⟩ := cFloat_close c x hcx
  have ht := cFloat_exact c t hct (vNonNeg_lt t hvt)
  cases hp : numPos t
  · have ht0 := time_zero t hvt hnan hp
    subst ht0
    refine ⟨_, x', rfl, hcl, ?_⟩
    simp only [hp, flagOf, destOf, Args.single, render, List.map, renderTok,
      Bool.false_eq_true, if_false, List.cons_append, List.nil_append]
    exact parse_single "-G" _ (.fixed 1) _ rfl rfl rfl
      (mem1 (classify_num c x hcx))
      (act_G _ x' hx (hfin hvx))
  · refine ⟨_, x', rfl, hcl, ?_⟩
    simp only [hp, flagOf, destOf, Args.single, render, List.map, renderTok,
      if_true, List.cons_append, List.nil_append]
    exact parse_single "-eG" _ (.fixed 2) _ rfl rfl rfl
      (mem2 (classify_num c t hct) (classify_num c x hcx))
      (act_eG _ _ t x' ht hx hvt (hfin hvx))

theorem pp_sizeChange (c : NumCodec) (o : String) (t : Num) (x : Num)
    (e : Event Num) (he : e = .sizeChange o t x) (hv : validEvent e) (hc : codecEvent c e) :
    ∃ toks, e.print = .ok toks ∧
      parseKnownArgs (render c toks) = .ok (Args.single (destOf e) (.sizeChange (flagOf e) t x)) := by
  subst he
  obtain ⟨hvt, hvx⟩ := hv
  obtain ⟨hct, hcx⟩ := hc
  have hx := cFloat_exact c x hcx (vNonNeg_lt x hvx)
  have ht := cFloat_exact c t hct (vNonNeg_lt t hvt)
  refine ⟨_, rfl, ?_⟩
  simp only [flagOf, destOf, Args.single, render, List.map, renderTok]
  exact parse_single "-eN" _ (.fixed 2) _ rfl rfl rfl
    (mem2 (classify_num c t hct) (classify_num c x hcx))
    (act_eN _ _ t x ht hx hvt hvx)

theorem pp_migRateChange (c : NumCodec) (o : String) (t : Num) (x : Num)
    (e : Event Num) (he : e = .migRateChange o t x) (hv : validEvent e) (hc : codecEvent c e) :
    ∃ toks, e.print = .ok toks ∧
      parseKnownArgs (render c toks) = .ok (Args.single (destOf e) (.migRateChange (flagOf e) t x)) := by
  subst he
  obtain ⟨hvt, hvx⟩ := hv
  obtain ⟨hct, hcx⟩ := hc
  have hx := cFloat_exact c x hcx (vNonNeg_lt x hvx)
  have ht := cFloat_exact c t hct (vNonNeg_lt t hvt)
  refine ⟨_, rfl, ?_⟩
  simp only [flagOf, destOf, Args.single, render, List.map, renderTok]
  exact parse_single "-eM" _ (.fixed 2) _ rfl rfl rfl
    (mem2 (classify_num c t hct) (classify_num c x hcx))
    (act_eM _ _ t x ht hx hvt hvx)

theorem pp_migEntryChange (c : NumCodec) (o : String) (t : Num) (i j : Int) (x : Num)
    (e : Event Num) (he : e = .migEntryChange o t i j x) (hv : validEvent e) (hc : codecEvent c e) :
    ∃ toks, e.print = .ok toks ∧
      parseKnownArgs (render c toks) = .ok (Args.single (destOf e) (.migEntryChange (flagOf e) t i j x)) := by
  subst he
  obtain ⟨hvt, hi0, hj0, hvx⟩ := hv
  obtain ⟨hct, hnan, hcx⟩ := hc
  have hx := cFloat_exact c x hcx (vNonNeg_lt x hvx)
  have ht := cFloat_exact c t hct (vNonNeg_lt t hvt)
  cases hp : numPos t
  · have ht0 := time_zero t hvt hnan hp
    subst ht0
    refine ⟨_, rfl, ?_⟩
    simp only [hp, flagOf, destOf, Args.single, render, List.map, renderTok,
      Bool.false_eq_true, if_false, List.cons_append, List.nil_append]
    exact parse_single "-m" _ (.fixed 3) _ rfl rfl rfl
      (mem3 (classify_toString_int i) (classify_toString_int j) (classify_num c x hcx))
      (act_m _ _ _ i j x (cInt_toString i) (cInt_toString j) hx hi0 hj0 hvx)
  · refine ⟨_, rfl, ?_⟩
    simp only [hp, flagOf, destOf, Args.single, render, List.map, renderTok,
      if_true, List.cons_append, List.nil_append]
    exact parse_single "-em" _ (.fixed 4) _ rfl rfl rfl
      (mem4 (classify_num c t hct) (classify_toString_int i) (classify_toString_int j) (classify_num c x hcx))
      (act_em _ _ _ _ t i j x ht (cInt_toString i) (cInt_toString j) hx hvt hi0 hj0 hvx)

theorem pp_split (c : NumCodec) (o : String) (t : Num) (i : Int) (x : Num)
    (e : Event Num) (he : e = .split o t i x) (hv : validEvent e) (hc : codecEvent c e) :
    ∃ toks, e.print = .ok toks ∧
      parseKnownArgs (render c toks) = .ok (Args.single (destOf e) (.split (flagOf e) t i x)) := by
  subst he
  obtain ⟨hvt, hi0, hvx⟩ := hv
  obtain ⟨hct, hcx⟩ := hc
  have hx := cFloat_exact c x hcx (vUnit_lt x hvx)
  have ht := cFloat_exact c t hct (vNonNeg_lt t hvt)
  refine ⟨_, rfl, ?_⟩
  simp only [flagOf, destOf, Args.single, render, List.map, renderTok]
  exact parse_single "-es" _ (.fixed 3) _ rfl rfl rfl
    (mem3 (classify_num c t hct) (classify_toString_int i) (classify_num c x hcx))
    (act_es _ _ _ t i x ht (cInt_toString i) hx hvt hi0 hvx)

theorem pp_join (c : NumCodec) (o : String) (t : Num) (i j : Int)
    (e : Event Num) (he : e = .join o t i j) (hv : validEvent e) (hc : codecEvent c e) :
    ∃ toks, e.print = .ok toks ∧
      parseKnownArgs (render c toks) = .ok (Args.single (destOf e) (.join (flagOf e) t i j)) := by
  subst he
  obtain ⟨hvt, hi0, hj0⟩ := hv
  have hct : c.ok t := hc
  have ht := cFloat_exact c t hct (vNonNeg_lt t hvt)
  refine ⟨_, rfl, ?_⟩
  simp only [flagOf, destOf, Args.single, render, List.map, renderTok]
  exact parse_single "-ej" _ (.fixed 3) _ rfl rfl rfl
    (mem3 (classify_num c t hct) (classify_toString_int i) (classify_toString_int j))
    (act_ej _ _ _ t i j ht (cInt_toString i) (cInt_toString j) hvt hi0 hj0)



theorem render_raw (c : NumCodec) (n : List String) : (n.map (Tok.raw (α := Num))).map (renderTok c) = n := by
  induction n with
  | nil => rfl
  | cons a t ih => simp only [List.map_cons, renderTok, ih]

/-- `-I npop n₁ … n_npop [rate]` parses back to the same `Structure` -/
theorem pp_structure (c : NumCodec) (s : Structure) (hv : validStructure s)
    (hc : c.ok s.rate) (hnan : s.rate ≠ .nan) (hn : ∀ x ∈ s.n, classify x = .ok .arg) :
    parseKnownArgs (render c s.print) = .ok { structure_ := some s } := by
  have hlt := vNonNeg_lt s.rate hv.2.1
  have hr := cFloat_exact c s.rate hc hlt
  cases hp : numPos s.rate
  · have h0 := time_zero s.rate hv.2.1 hnan hp
    have hrender : render c s.print = "-I" :: toString s.npop :: s.n := by
      simp only [render, Structure.print, hp, List.map_cons, renderTok,
        render_raw, List.cons_append, List.nil_append, Bool.false_eq_true, if_false, List.append_nil]
    rw [hrender]
    apply parse_single "-I" _ .plus _ rfl rfl (by simp)
    · intro x hx
      rcases List.mem_cons.1 hx with h | h
      · rw [h]; exact classify_toString_int _
      · exact hn x h
    · exact act_I_norate _ s hv (cInt_toString _) h0
  · have hrender : render c s.print = "-I" :: toString s.npop :: (s.n ++ [c.str s.rate]) := by
      simp only [render, Structure.print, hp, List.map_append, List.map_cons, List.map_nil, renderTok,
        render_raw, List.cons_append, List.nil_append, if_true]
    rw [hrender]
    apply parse_single "-I" _ .plus _ rfl rfl (by simp)
    · intro x hx
      rcases List.mem_cons.1 hx with h | h
      · rw [h]; exact classify_toString_int _
      · rcases List.mem_append.1 h with h | h
        · exact hn x h
        · simp at h; rw [h]; exact classify_num c _ hc
    · exact act_I_rate _ _ s hv (cInt_toString _) hr

end Demes.Proofs.MsPrint
