/-
  Semantic tie of the tests of `Deme.size_at` (see `Theorems/TablesGuards.lean` for the method).
-/
import DemesVerif.Generated.Guards
import DemesVerif.Proofs.Guards
namespace Demes.Tables
open Demes Demes.Proofs.Guards
set_option linter.unusedSimpArgs false

theorem guards_sites_size_at : Generated.guardSitesSizeAt = [("Deme.size_at", 5, 0)] := by decide +kernel

theorem guards_context_size_at : Generated.guardContextSizeAt =
    [("guard_size_at_inf", []), ("guard_size_at_epoch", ["for v0 in self.epochs"]),
     ("guard_size_at_end_size", [])] := by decide +kernel

/-- first branch: `math.isinf(time) and math.isinf(self.start_time)` -/
theorem guard_size_at_inf_meaning (t start : ETime) :
    Generated.guard_size_at_inf (time := Num.ofETime t) (self_start_time := Num.ofETime start)
      = (t.isInf && start.isInf) := by
  unfold Generated.guard_size_at_inf
  cases t <;> cases start <;> guard_close

/-- epoch selection: `epoch.start_time > time >= epoch.end_time` -/
theorem guard_size_at_epoch_meaning (eStart : ETime) (eEnd : Q) (t : ETime) :
    Generated.guard_size_at_epoch (v0_start_time := Num.ofETime eStart) (time := Num.ofETime t)
      (v0_end_time := Num.fin eEnd)
      = (decide (t < eStart) && decide (ETime.fin eEnd ≤ t)) := by
  unfold Generated.guard_size_at_epoch
  cases t <;> cases eStart <;> guard_close

/-- the end-size shortcut: `math.isclose(time, epoch.end_time) or epoch.size_function == "constant"
or epoch.start_size == epoch.end_size` (`isclose` opaque; the Model supplies `closeDefault`) -/
theorem guard_size_at_end_size_meaning (close : Bool) (sizeFunction : String) (startSize endSize : Q) :
    Generated.guard_size_at_end_size (isclose_time_v0_end_time := close) (v0_size_function := sizeFunction)
      (v0_start_size := Num.fin startSize) (v0_end_size := Num.fin endSize)
      = (close || sizeFunction = "constant" || startSize = endSize) := by
  unfold Generated.guard_size_at_end_size
  cases close <;> guard_close

/-- `sizeAt` makes exactly the source's three tests -/
theorem guards_tie_size_at : sizeAt = sizeAtWith
    (fun t s => Generated.guard_size_at_inf (time := t) (self_start_time := s))
    (fun es t ee => Generated.guard_size_at_epoch (v0_start_time := es) (time := t) (v0_end_time := ee))
    (fun c sf ss es => Generated.guard_size_at_end_size (isclose_time_v0_end_time := c)
      (v0_size_function := sf) (v0_start_size := ss) (v0_end_size := es)) := by
  funext d t
  unfold sizeAt sizeAtWith
  simp only [guard_size_at_inf_meaning, guard_size_at_epoch_meaning, guard_size_at_end_size_meaning]
  first | done | rfl

/-! ### `sizeAtWith` really uses its guard arguments: `b` grows linearly from 1 to 2 on (10, 0] -/

section sensitivity

example : sizeAt exB (.fin 5) = .exact (3/2) ∧ sizeAt exB (.fin 10) = .exact 0 ∧ sizeAt exB (.fin 0) = .exact 2
    ∧ sizeAt exB .inf = .exact 0 ∧ sizeAt exA .inf = .exact 1 := by decide +kernel
example :
    sizeAtWith no2 (fun _ _ _ => true) (fun _ _ _ _ => false) exB (.fin 5) = .exact (3/2)
    ∧ sizeAtWith yes2 (fun _ _ _ => true) (fun _ _ _ _ => false) exB (.fin 5) = .exact 1
    ∧ sizeAtWith no2 (fun _ _ _ => false) (fun _ _ _ _ => false) exB (.fin 5) = .exact 0
    ∧ sizeAtWith no2 (fun _ _ _ => true) (fun _ _ _ _ => true) exB (.fin 5) = .exact 2 := by decide +kernel

end sensitivity

end Demes.Tables
