/-
  Semantic tie of the command line, demes/__main__.py (C19).

  `Generated/GuardsCli.lean` holds, regenerated from the source's AST on every run, the bodies of
  `ParseCommand.__call__` and `MsCommand.__call__` as terms of `Cli.Prog.Stmt` and the body of `cli` as a
  term of `Cli.Prog.Top` (`Model/CliProg.lean`): every test, every library call with the keyword arguments
  it is given (`simplified=args.simplified`, `format=output_format`, `N0=args.ms`,
  `N0=args.reference_size`, or none: then the default of the callee's signature in load_dump.py, also
  generated), that every call writes to `sys.stdout`, the `raise RuntimeError`, and — by the absence of
  any `try` in the languages — that nothing catches an exception.  The theorems below say that the
  Model's `parse`, `msCommand` and `cli` (`Model/Cli.lean`) ARE the meaning of the generated terms, for
  all flags, documents and library behaviours.  From the parsers: the mutually exclusive groups (`cli`'s
  usage error is `conflict` of the generated groups), the sub-command → class table behind
  `args.func(args)`, the owner of each `add_argument`; from `load_and_count_documents`: the `break` test as
  a function of the list length (`lookLoop = lookLoopWith <generated test>`) and the rest of the body with
  its locals renamed in order of first binding.

  Dropping or changing a keyword argument, testing `args.ms` for truth instead of `is not None`,
  `>= 1` for `> 1`, `add_argument_group` for `add_mutually_exclusive_group`, a `try` around
  `args.func(args)`, printing somewhere else than stdout: each makes a named theorem fail to compile.
  Renaming locals, reordering keyword arguments and reformatting do not.
-/
import DemesVerif.Generated.GuardsCli
import DemesVerif.Proofs.Guards3Cli
namespace Demes.Tables
open Demes Demes.Cli Demes.Cli.Prog Demes.Proofs.Guards3

/-! ### `ParseCommand.__call__` -/

/-- the Model's `parse` is the meaning of the generated body: the choice of the output format, the
look-ahead, the three cases of the document count, `to_ms(graph, N0=args.ms)` resp.
`dump(graph, sys.stdout, simplified=args.simplified, format=output_format)` for one document, the
`RuntimeError` resp. `dump_all(graphs, sys.stdout, simplified=args.simplified)` for several -/
theorem cli_tie_parse_call (lib : Call → Bool) (f : Flags) (docs : List Doc) (built : Doc) :
    run ⟨lib, f, docs, built, Generated.cliDumpDefaults⟩ Generated.cliParseCall = parse lib f docs :=
  run_progParse ⟨lib, f, docs, built, Generated.cliDumpDefaults⟩

/-! ### `MsCommand.__call__` -/

/-- `graph = ms.build_graph(args, N0=args.reference_size); demes.dump(graph, sys.stdout)` with the
defaults `format="yaml"`, `simplified=True` of `dump`'s signature -/
theorem cli_tie_ms_call (lib : Call → Bool) (f : Flags) (docs : List Doc) (built : Doc) :
    run ⟨lib, f, docs, built, Generated.cliDumpDefaults⟩ Generated.cliMsCall = msCommand lib built :=
  run_progMs ⟨lib, f, docs, built, Generated.cliDumpDefaults⟩
    (show Generated.cliDumpDefaults.dumpFormat = .yaml by decide +kernel)
    (show Generated.cliDumpDefaults.dumpSimplified = true by decide +kernel)

theorem cli_dump_defaults : Generated.cliDumpDefaults = ⟨.yaml, true, true⟩ := by decide +kernel

/-! ### `cli` -/

/-- the Model's `cli` is the meaning of the generated body of `cli` over the generated exclusive groups
and dispatch table: `parse_args` (usage error on `--json` with `--ms`, on an unreadable file), help and
`exit(1)` without a sub-command, then `args.func(args)` — whose outcome, exceptions included, is the
outcome of the process -/
theorem cli_tie_main (lib : Call → Bool) (cmd : Cmd) :
    runTop ⟨Generated.cliExclusiveGroups, Generated.cliDispatch, parse lib, msCommand lib⟩ Generated.cliMain cmd
      = cli lib cmd :=
  runTop_progCli lib cmd

/-- `--json` and `--ms` are in one mutually exclusive group, `--simplified` in none -/
theorem cli_tie_exclusive (f : Flags) :
    conflict Generated.cliExclusiveGroups f = (f.json && f.ms.isSome) :=
  conflict_exclusiveGroups f

theorem cli_dispatch : Generated.cliDispatch = [("parse", "ParseCommand"), ("ms", "MsCommand")]
    ∧ Generated.cliSubparsersKw = ["dest='subcommand'"] := by decide +kernel

/-- the arguments of `demes parse`: which object they are added to, their `type=` -/
theorem cli_parse_arguments : Generated.cliParseArguments =
    [("json", "exclusive#0", "-", "-"), ("ms", "exclusive#0", "float", "-"), ("simplified", "parser", "-", "-"),
     ("filename", "parser", "argparse.FileType()", "-")] := by decide +kernel

/-- the arguments of `demes ms`: `-N0` is a required float, the ms options come from `ms.build_parser`
(tied by `tables_ms_parser`) -/
theorem cli_ms_arguments : Generated.cliMsArguments =
    [("reference_size", "group", "float", "True"), ("<ms.build_parser>", "group", "-", "-")]
    ∧ Generated.cliMsExclusiveGroups = [] := by decide +kernel

/-! ### `load_and_count_documents` -/

/-- `len(graph_list) > 1` -/
theorem cli_look_ahead_break_meaning (n : Nat) : Generated.cli_look_ahead_break n = decide (n > 1) := by
  unfold Generated.cli_look_ahead_break
  first | rfl | simp | grind

/-- the Model's look-ahead loop is the loop with the source's `break` test -/
theorem cli_tie_look_loop (docs : List Doc) (acc : List Nat) :
    lookLoop docs acc = lookLoopWith Generated.cli_look_ahead_break docs acc :=
  (lookLoopWith_eq _ cli_look_ahead_break_meaning docs acc).symm

/-- the rest of the body: the generator is `demes.load_all(filename)`, every graph it yields is appended,
the count is the length of the list, the iterator is `chain(list, generator)` in this order -/
theorem cli_look_ahead : Generated.cliLookAhead =
    [("v1 = demes.load_all(v0)", []),
     ("v2 = []", []),
     ("for v3 in v1", []),
     ("v2.append(v3)", ["for v3 in v1"]),
     ("if len(v2) > 1", ["for v3 in v1"]),
     ("break", ["for v3 in v1", "if len(v2) > 1"]),
     ("v4 = len(v2)", []),
     ("v5 = itertools.chain(v2, v1)", []),
     ("return (v4, v5)", [])] := by decide +kernel

/-! ### what the meaning does not see: the `pass` under `if args.ms and args.simplified` -/

theorem cli_term_parse_call : Generated.cliParseCall = progParse := by decide +kernel
theorem cli_term_ms_call : Generated.cliMsCall = progMs := by decide +kernel
theorem cli_term_main : Generated.cliMain = progCli := by decide +kernel

/-! ### non-vacuity: the meaning of the generated terms on concrete command lines -/

/-- `demes parse -s two.yaml`: both documents through `dump_all` with `simplified=True` -/
example : run ⟨fun _ => true, ⟨false, none, true⟩, [.ok 0, .ok 1], .fail, Generated.cliDumpDefaults⟩ Generated.cliParseCall
    = ⟨[.dumpAllDoc 0 true, .dumpAllDoc 1 true], .exit0⟩ := by decide +kernel

/-- `demes parse --json --ms 1 f`: refused by argparse -/
example : runTop ⟨Generated.cliExclusiveGroups, Generated.cliDispatch, parse (fun _ => true), msCommand (fun _ => true)⟩
    Generated.cliMain (.parse ⟨true, some 1, false⟩ true [.ok 0]) = ⟨[], .usage⟩ := by decide +kernel

end Demes.Tables
