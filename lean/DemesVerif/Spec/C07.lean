/-
  Spec for C07 — "ms arguments emitted for a graph describe the same demography".

  * `MsExpressible` : the class of graphs ms can express.
  * `parseCmd`      : reading a typed token list (`Tok Growth`, what `toMs` emits) back into
                      the `-I` header and the list of option records, with the arities of
                      the ms manual.
  * event-level ms rules for one population / one ordered pair of populations
    (`applySizeEv`, `popSizesMatch`, `migRateAt`, `wellNumbered`): the part of the ms
    manual's backwards-time semantics each of the lemmas `toMs_sizes`, `toMs_migrations`,
    `toMs_numbering` is about.

  Growth rates are the symbols of the Model (`Growth`: `0` or `-ln(r)/dt`), compared with the
  exact equality `Growth.eq`; `growthOf N0 e` is the rate ms needs for epoch `e`:
  `α = -ln(start/end) / (Δt / 4N0)`.
-/
import DemesVerif.Model.Ms
import DemesVerif.Spec.Valid
import DemesVerif.Spec.MsSem
namespace Demes.Spec.C07
open Demes Demes.Ms

/-! ## The ms-expressible class -/

/-- every epoch constant or exponential, every pulse with a single source -/
def MsExpressible (g : Graph) : Bool :=
  g.demes.all (fun d => d.epochs.all (fun e => e.sizeFunction = "constant" || e.sizeFunction = "exponential"))
  && g.pulses.all (fun p => decide (p.sources.length ≤ 1))

/-- `samples` is absent or has one entry per deme -/
def samplesOk (g : Graph) : Option (List Int) → Bool
  | none => true
  | some s => s.length = g.demes.length

/-! ## Reading an emitted command -/

structure MsCmd where
  /-- `-I npop n₁ … n_npop` -/
  header : Option (Nat × List String)
  events : List (Event Growth)
  deriving DecidableEq

/-- one option with the arity of the manual; the record carries time `0` for the options
without a time argument (`-n`, `-g`, `-m`) -/
def parseOne : List (Tok Growth) → Option (Event Growth × List (Tok Growth))
  | .flag f :: r =>
    if f = "-n" then
      match r with
      | .int i :: .num x :: r' => some (.popSizeChange "" (.fin 0) i x, r')
      | _ => none
    else if f = "-en" then
      match r with
      | .num t :: .int i :: .num x :: r' => some (.popSizeChange "" t i x, r')
      | _ => none
    else if f = "-g" then
      match r with
      | .int i :: .alpha a :: r' => some (.popGrowthRateChange "" (.fin 0) i a, r')
      | _ => none
    else if f = "-eg" then
      match r with
      | .num t :: .int i :: .alpha a :: r' => some (.popGrowthRateChange "" t i a, r')
      | _ => none
    else if f = "-m" then
      match r with
      | .int i :: .int j :: .num x :: r' => some (.migEntryChange "" (.fin 0) i j x, r')
      | _ => none
    else if f = "-em" then
      match r with
      | .num t :: .int i :: .int j :: .num x :: r' => some (.migEntryChange "" t i j x, r')
      | _ => none
    else if f = "-es" then
      match r with
      | .num t :: .int i :: .num p :: r' => some (.split "" t i p, r')
      | _ => none
    else if f = "-ej" then
      match r with
      | .num t :: .int i :: .int j :: r' => some (.join "" t i j, r')
      | _ => none
    else none
  | _ => none

/-- the options of a command, in command-line order (`fuel` ≥ number of tokens) -/
def parseEvents : Nat → List (Tok Growth) → Option (List (Event Growth))
  | _, [] => some []
  | 0, _ :: _ => none
  | fuel + 1, t :: ts =>
    match parseOne (t :: ts) with
    | some (e, r) => (parseEvents fuel r).map (e :: ·)
    | none => none

def raws : List (Tok Growth) → Option (List String)
  | [] => some []
  | .raw s :: r => (raws r).map (s :: ·)
  | _ => none

def parseCmd (ts : List (Tok Growth)) : Option MsCmd :=
  match ts with
  | .flag f :: .int n :: r =>
    if f = "-I" then
      if n < 1 || r.length < n.toNat then none
      else
        match raws (r.take n.toNat), parseEvents r.length (r.drop n.toNat) with
        | some ss, some evs => some ⟨some (n.toNat, ss), evs⟩
        | _, _ => none
    else (parseEvents ts.length ts).map (⟨none, ·⟩)
  | _ => (parseEvents ts.length ts).map (⟨none, ·⟩)

/-- the time of an option (ms units), finite in every command `toMs` emits -/
def evT (e : Event Growth) : Q :=
  match e.t with
  | .fin q => q
  | _ => 0

/-- all the times a graph (in generations) mentions -/
def graphTimes (g : Graph) : List Q :=
  g.demes.flatMap (fun d => (match d.startTime with | .fin t => [t] | .inf => []) ++ d.epochs.map (·.endTime))
  ++ g.pulses.map (·.time)
  ++ g.migrations.flatMap (fun m => (match m.startTime with | .fin t => [t] | .inf => []) ++ [m.endTime])

/-- the kinds of options `toMs` emits -/
def isSizeKind : Event Growth → Bool
  | .popSizeChange .. => true
  | .popGrowthRateChange .. => true
  | _ => false

def isMigKind : Event Growth → Bool
  | .migEntryChange .. => true
  | _ => false

/-! ## Sizes: the ms rule for one population -/

/-- the growth rate ms needs for an epoch: `0` when the sizes are equal, else
`-ln(start/end) / (Δt / 4N0)` -/
def growthOf (N0 : Q) (e : Epoch) : Growth :=
  if e.endSize ≠ e.startSize then
    match e.startTime with
    | .fin st => .sym (e.startSize / e.endSize) ((st - e.endTime) / (4 * N0))
    | .inf => .zero
  else .zero

/-- a size or growth option of population `j` -/
def isSizeEvOf (j : Int) : Event Growth → Bool
  | .popSizeChange _ _ i _ => i = j
  | .popGrowthRateChange _ _ i _ => i = j
  | _ => false

/-- the ms rule on (size in units of N0, growth rate): `-en t i x` sets the size and resets the
growth rate to 0, `-n i x` (time 0) sets the size only, `-g` / `-eg` set the growth rate -/
def applySizeEv (st : Q × Growth) : Event Growth → Q × Growth
  | .popSizeChange _ t _ (.fin x) => (x, if numPos t then .zero else st.2)
  | .popGrowthRateChange _ _ _ a => (st.1, a)
  | _ => st

/-- the state of population `j` after the options scheduled at ms time `t` (command-line
order), entering with `st` -/
def stateAfter (j : Int) (evs : List (Event Growth)) (t : Q) (st : Q × Growth) : Q × Growth :=
  (evs.filter (fun e => isSizeEvOf j e && e.t == .fin t)).foldl applySizeEv st

/-- no size / growth option of population `j` strictly inside `(a, b)` -/
def quietInside (j : Int) (evs : List (Event Growth)) (a : Q) (b : ETime) : Bool :=
  evs.all (fun e => !(isSizeEvOf j e) ||
    match e.t with
    | .fin t => !(decide (a < t) && decide (ETime.fin t < b))
    | _ => false)

/-- walking the epochs of a deme from the present: at the recent end of each epoch, after the
options scheduled there, the population has the epoch's end size (÷N0) and the epoch's growth
rate; nothing changes inside the epoch, so at its old end the size is the epoch's start size
(÷N0) — the definition of the rate -/
def epochsMatch (N0 : Q) (j : Int) (evs : List (Event Growth)) : Q × Growth → List Epoch → Bool
  | _, [] => true
  | st, e :: es =>
    let st' := stateAfter j evs (e.endTime / (4 * N0)) st
    st'.1 == e.endSize / N0 && st'.2.eq (growthOf N0 e)
      && quietInside j evs (e.endTime / (4 * N0)) (e.startTime.div (4 * N0))
      && epochsMatch N0 j evs (e.startSize / N0, st'.2) es

/-- population `j` of the command has the size history of deme `d` over the deme's lifetime:
nothing is scheduled for it before the deme's end time (it has size N0, growth 0 until then),
and from there on `epochsMatch` -/
def popSizesMatch (N0 : Q) (j : Int) (d : Deme) (evs : List (Event Growth)) : Bool :=
  evs.all (fun e => !(isSizeEvOf j e) ||
    match e.t with
    | .fin t => decide (d.endTime / (4 * N0) ≤ t)
    | _ => false)
  && epochsMatch N0 j evs (1, .zero) d.epochs.reverse

/-- the repaired sawtooth defect (`-en` resets the growth rate): in a list of options, every
size change of population `j` scheduled at the recent end of a non-constant epoch of the deme
is immediately followed by the `-eg` (or `-g`) that sets that epoch's growth rate again -/
def enThenEg (N0 : Q) (j : Int) (epochs : List Epoch) : List (Event Growth) → Bool
  | [] => true
  | x :: rest =>
    (match x with
     | .popSizeChange _ t i _ =>
       !(i == j) || epochs.all (fun e =>
         !(t == .fin (e.endTime / (4 * N0)) && e.startSize != e.endSize)
           || rest.head? == some (.popGrowthRateChange "" t j (growthOf N0 e)))
     | _ => true) && enThenEg N0 j epochs rest

/-! ## Migration: the ms rule for one ordered pair -/

def isMigEvOf (i j : Int) : Event Growth → Bool
  | .migEntryChange _ _ i' j' _ => i' = i && j' = j
  | _ => false

/-- the entry `M[i][j]` in force at ms time `t`: the last `-m i j` / `-em t' i j` option with
`t' ≤ t` in a time-sorted command (command-line order at equal times), `0` if none -/
def migRateAt (evs : List (Event Growth)) (i j : Int) (t : Q) : Q :=
  match (evs.filter (fun e => isMigEvOf i j e && Num.le e.t (.fin t))).getLast? with
  | some (.migEntryChange _ _ _ _ (.fin r)) => r
  | _ => 0

/-! ## Numbering of the populations created by `-es` -/

def isSplitJoin : Event Growth → Bool
  | .split .. => true
  | .join .. => true
  | _ => false

/-- the `-es` / `-ej` options of a command in command-line order, `n` = current number of
populations: every `-es t i p` splits one of the `n0` initial populations and is immediately
followed by the `-ej t n+1 j` that joins the population ms has just created (number `n+1`) to
an initial population; every other `-ej` is between initial populations -/
def wellNumbered (n0 : Nat) : Nat → List (Event Growth) → Bool
  | _, [] => true
  | n, .split _ t i _ :: .join _ t' i' j :: r =>
    t == t' && i' == ((n : Int) + 1) && decide (1 ≤ i) && decide (i ≤ (n0 : Int))
      && decide (1 ≤ j) && decide (j ≤ (n0 : Int)) && wellNumbered n0 (n + 1) r
  | n, .join _ _ i j :: r =>
    decide (1 ≤ i) && decide (i ≤ (n0 : Int)) && decide (1 ≤ j) && decide (j ≤ (n0 : Int))
      && wellNumbered n0 n r
  | _, _ => false

end Demes.Spec.C07
