"""C03 — documents that break any specification rule are rejected, never resolved."""
from __future__ import annotations

from props.resolve_common import *  # noqa: F401,F403

RULE = ("rule-targeted and random structural mutants (values exactly on, just inside, just outside each bound; deleted / retyped "
        "/ null / renamed / unknown fields at every level; invalid defaults that are never used) of generated valid models, through "
        "dict / YAML / JSON / Builder; accept/reject compared with the Lean Model, accepted results validated by Spec.validGraph, "
        "and un-mutated valid models must be accepted; a case is one mutant; non-trivial = not identical to its parent; distinct by document")
ASSUMPTIONS = ["numbers dyadic except the injected specials; bool in a numeric position is generated (the Model treats it as Python does) "
               "but the specification's verdict on it is not asserted (DESIGN §9)"]
EXPLANATION = ("Theorems resolve_valid (accepted => every rule of the data model holds, so a document whose resolution would break a rule "
               "is rejected), resolve_asdict (no spurious rejection of machine-data-model documents), tables_* (field lists and "
               "defaults validators regenerated from the source equal the Model's) over the Lean Model; Model tied to the code by exact "
               "agreement of accept/reject on every mutant in every route.")


def run(ctx):
    n = 400 if ctx.tier == "quick" else 5000
    done = 0
    while done < n and ctx.time_left() > 10:
        models = gen_models(ctx, min(100, n - done), max_demes=5 if ctx.tier == "quick" else 8)
        done += len(models)
        docs, meta = [], []
        for m in models:
            base = G.spell(m, ctx.rng, level=ctx.rng.choice([0, 0.5, 1]))
            docs.append(base); meta.append(("parent", base))
            for _ in range(6):
                md, t = M.mutate(base, ctx.rng)
                docs.append(md); meta.append((t, base))
            # second migration for one ordered pair, inside the coexistence interval
            for _ in range(3):
                ov = G.overlap_variant(m, ctx.rng)
                if ov is not None:
                    docs.append(G.spell(ov[0], ctx.rng, level=ctx.rng.choice([0, 0.5])))
                    meta.append(("overlap:" + ("overlapping" if ov[1] else "disjoint"), base))
        reps = model_resolve(ctx, docs)
        graphs, gdocs = [], []
        for d, (t, base), rep in zip(docs, meta, reps):
            routes = ["dict", "builder_fromdict"]
            if ctx.rng.random() < 0.35:
                routes.append("yaml")
                if json_safe(d):
                    routes.append("json")
            try:
                res = route_results(d, tuple(routes))
            except Exception:  # noqa: BLE001
                res = {"dict": impl.resolve(d)}
            code = res["dict"]
            ctx.count(show(canon_doc(d)), t != "parent", tags=[("op:" + t.split("+")[0].split(":")[0]), "accepted" if code[0] == "ok" else "rejected:" + code[1]])
            compare_with_model(ctx, d, code, rep)
            if t == "overlap:overlapping" and code[0] == "ok":
                ctx.violation("a document with two migrations for one ordered pair overlapping in time is resolved", {"document": show(canon_doc(d))}, python=py_repro(d, "g.migrations"))
            if t == "parent" and code[0] != "ok":
                ctx.violation("a valid model is rejected", {"document": show(canon_doc(d))}, python=py_repro(d, "g"))
            # the routes must agree on accept/reject (YAML/JSON refuse nulls that a dict may carry: skip documents with None)
            has_none = "null" in json.dumps(show(canon_doc(d)))
            for r, c in res.items():
                if r in ("yaml", "json") and has_none:
                    continue
                if (c[0] == "ok") != (code[0] == "ok"):
                    ctx.violation(f"route {r} {'accepts' if c[0] == 'ok' else 'rejects'} a document that Graph.fromdict {'rejects' if c[0] == 'ok' else 'accepts'}",
                                  {"document": show(canon_doc(d)), "route": r})
                if c[0] == "ok":
                    graphs.append(c[2]); gdocs.append({"route": r, "document": show(canon_doc(d))})
        check_valid(ctx, graphs, "accepted mutant", gdocs)


def replay(ctx, payload):
    from props.c01 import plain_doc
    doc = plain_doc(payload["input"]["document"])
    for r, c in route_results(doc).items():
        print(r, c[:2] if c[0] == "err" else "accepted")
    print("model:", {k: v for k, v in model_resolve(ctx, [doc])[0].items() if k != "ok"})
    return 0
