/-
  Driver operation `cli` (C19): runs the command-line Model on abstract document outcomes.

    {"op":"cli","cmd":"parse","json":b,"ms":null|"p/q","simplified":b,"file_ok":b,
     "docs":[g | "fail", …],"raises":[g, …]}
    {"op":"cli","cmd":"ms","built": g | "fail","raises":[g, …]}
    {"op":"cli","cmd":"none"}

  `raises` lists the graphs whose library call raises (with fixed flags each graph has exactly one
  call).  Reply: {"ok":{"printed":[call…],"exit":kind,"exit_call":call|null,
  "num_documents":n|null,"branch":tag}}.
-/
import DemesVerif.Wire
import DemesVerif.Model.Cli
namespace Demes.Ops.Cli
open Lean Demes Demes.Wire Demes.Cli

def fmtStr : Fmt → String
  | .yaml => "yaml" | .json => "json" | .ms => "ms"

def callGraph : Call → Option Nat
  | .toMs g _ => some g
  | .dump g _ _ => some g
  | .dumpAllDoc g _ => some g
  | .help => none

def callJ : Call → Json
  | .toMs g n0 => Json.mkObj [("call", .str "to_ms"), ("g", .num g), ("n0", .str (ratToString n0))]
  | .dump g fmt s => Json.mkObj [("call", .str "dump"), ("g", .num g), ("format", .str (fmtStr fmt)),
      ("simplified", .bool s)]
  | .dumpAllDoc g s => Json.mkObj [("call", .str "dump_all_doc"), ("g", .num g), ("simplified", .bool s)]
  | .help => Json.mkObj [("call", .str "help")]

def exitStr : Exit → String
  | .exit0 => "exit0" | .usage => "usage" | .loadError => "load_error"
  | .unsupported => "unsupported" | .libError _ => "lib_error"

def outcomeJ (o : Outcome) (num : Option Nat) (branch : String) : Json :=
  okJ (Json.mkObj [
    ("printed", .arr (o.printed.map callJ).toArray),
    ("exit", .str (exitStr o.exit)),
    ("exit_call", match o.exit with | .libError c => callJ c | _ => .null),
    ("num_documents", match num with | some n => .num n | none => .null),
    ("branch", .str branch)])

def readDoc : Json → Option Doc
  | .str "fail" => some .fail
  | .num n => if n.exponent = 0 ∧ 0 ≤ n.mantissa then some (.ok n.mantissa.toNat) else none
  | _ => none

def readNats (j : Json) (key : String) : List Nat :=
  match j.getObjVal? key with
  | .ok (.arr xs) => xs.toList.filterMap (fun x => match x with
      | .num n => if n.exponent = 0 ∧ 0 ≤ n.mantissa then some n.mantissa.toNat else none
      | _ => none)
  | _ => []

def libOf (raises : List Nat) : Call → Bool := fun c =>
  match callGraph c with
  | some g => !raises.contains g
  | none => true

def fail (m : String) : Json := Json.mkObj [("fail", .str m)]

def dispatch? (op : String) (j : Json) : Option Json :=
  if op = "cli" then some <|
    let lib := libOf (readNats j "raises")
    match j.getObjValAs? String "cmd" with
    | .error e => fail e
    | .ok "none" => outcomeJ (cli lib .noSub) none "no_subcommand"
    | .ok "ms" =>
      match (j.getObjVal? "built").toOption.bind readDoc with
      | none => fail "bad built"
      | some b => outcomeJ (cli lib (.ms b)) none "ms"
    | .ok "parse" =>
      let b (k : String) : Bool := (j.getObjValAs? Bool k).toOption.getD false
      let ms? : Except String (Option Q) :=
        match j.getObjVal? "ms" with
        | .ok (.str s) => match parseRat s with
          | some q => .ok (some q)
          | none => .error s!"bad ms {s}"
        | .ok .null => .ok none
        | .error _ => .ok none
        | _ => .error "bad ms"
      match ms? with
      | .error e => fail e
      | .ok ms =>
        match j.getObjVal? "docs" with
        | .ok (.arr xs) =>
          match xs.toList.mapM readDoc with
          | none => fail "bad docs"
          | some docs =>
            let f : Flags := ⟨b "json", ms, b "simplified"⟩
            let fileOk := (j.getObjValAs? Bool "file_ok").toOption.getD true
            let num := (loadAndCount docs).map (·.1)
            let branch :=
              if f.json && f.ms.isSome then "exclusive"
              else if !fileOk then "no_file"
              else match num with
                | none => "lookahead_raises"
                | some 0 => "zero"
                | some 1 => if f.ms.isSome then "one_ms" else "one_dump"
                | some _ => if outputFormat f != .yaml then "many_unsupported" else "many_dump_all"
            outcomeJ (cli lib (.parse f fileOk docs)) num branch
        | _ => fail "bad docs"
    | .ok c => fail s!"unknown cmd {c}"
  else none

end Demes.Ops.Cli
