/-
  Spec definitions for C10 — what it *means* for two graphs to describe the same model up to a
  numerical tolerance, written declaratively (matchings and pointwise relations), independent
  of the sort-and-zip control flow of `Graph.assert_close`.
-/
import DemesVerif.Spec.Relations
import DemesVerif.Model.Close
namespace Demes.Spec
open Demes

/-- `xs` and `ys` have the same length and are related position by position -/
def Pointwise {α β} (R : α → β → Prop) (xs : List α) (ys : List β) : Prop :=
  xs.length = ys.length ∧ ∀ (i : Nat) x y, xs[i]? = some x → ys[i]? = some y → R x y

/-- `math.isclose(a, b, rel_tol, abs_tol)` on finite numbers: equal, or
`|a - b| ≤ max(rel_tol · max(|a|, |b|), abs_tol)` -/
def WithinTol (t : Tol) (a b : Q) : Prop :=
  a = b ∨ qabs (a - b) ≤ qmax (t.rel * qmax (qabs a) (qabs b)) t.abs

instance (t : Tol) (a b : Q) : Decidable (WithinTol t a b) := by
  unfold WithinTol; infer_instance

/-- the same on times: ∞ is close to ∞ only -/
def WithinTolE (t : Tol) : ETime → ETime → Prop
  | .inf, .inf => True
  | .fin x, .fin y => WithinTol t x y
  | _, _ => False

instance (t : Tol) (a b : ETime) : Decidable (WithinTolE t a b) := by
  cases a <;> cases b <;> unfold WithinTolE <;> infer_instance

/-- all seven attributes of two epochs agree (numbers up to the tolerance) -/
structure EpochClose (t : Tol) (x y : Epoch) : Prop where
  startTime : WithinTolE t x.startTime y.startTime
  endTime : WithinTol t x.endTime y.endTime
  startSize : WithinTol t x.startSize y.startSize
  endSize : WithinTol t x.endSize y.endSize
  sizeFunction : x.sizeFunction = y.sizeFunction
  selfingRate : WithinTol t x.selfingRate y.selfingRate
  cloningRate : WithinTol t x.cloningRate y.cloningRate

/-- all five attributes of two migrations agree -/
structure MigrationClose (t : Tol) (x y : Migration) : Prop where
  source : x.source = y.source
  dest : x.dest = y.dest
  startTime : WithinTolE t x.startTime y.startTime
  endTime : WithinTol t x.endTime y.endTime
  rate : WithinTol t x.rate y.rate

/-- two lists of (name, weight) pairs agree up to order: some rearrangement of `ys` carries,
position by position, the names of `xs` with weights within the tolerance -/
def PairsClose (t : Tol) (xs ys : List (String × Q)) : Prop :=
  ∃ zs, zs.Perm ys ∧ Pointwise (fun x z => x.1 = z.1 ∧ WithinTol t x.2 z.2) xs zs

/-- names with proportions (a deme's ancestry, a pulse's sources) agree up to order -/
structure WeightsClose (t : Tol) (an : List String) (ap : List Q) (bn : List String)
    (bp : List Q) : Prop where
  namesCount : an.length = bn.length
  weightsCount : ap.length = bp.length
  pairs : PairsClose t (an.zip ap) (bn.zip bp)

/-- two demes agree: same name, close start time, same ancestry up to order, the same number
of epochs and pairwise close epochs.  The description is not compared. -/
structure DemeClose (t : Tol) (x y : Deme) : Prop where
  name : x.name = y.name
  startTime : WithinTolE t x.startTime y.startTime
  ancestry : WeightsClose t x.ancestors x.proportions y.ancestors y.proportions
  epochCount : x.epochs.length = y.epochs.length
  epochs : Pointwise (EpochClose t) x.epochs y.epochs

/-- two pulses agree: same destination, same set (and number) of sources, close time, close
total proportion, and the same per-source proportions up to order. -/
structure PulseClose (t : Tol) (x y : Pulse) : Prop where
  dest : x.dest = y.dest
  sourceCount : x.sources.length = y.sources.length
  sources : ∀ s, s ∈ x.sources ↔ s ∈ y.sources
  time : WithinTol t x.time y.time
  total : WithinTol t (qsumL x.proportions) (qsumL y.proportions)
  proportions : WeightsClose t x.sources x.proportions y.sources y.proportions

/-- Two graphs describe the same model up to the tolerance `t`: same time units and
generation time; the demes of `b` can be rearranged to match
those of `a` one by one; likewise the migrations; the pulses match in the given order.
Descriptions, DOIs, metadata and the name index are not mentioned. -/
structure SemClose (t : Tol) (a b : Graph) : Prop where
  timeUnits : a.timeUnits = b.timeUnits
  generationTime : a.generationTime = b.generationTime
  demes : ∃ ds, ds.Perm b.demes ∧ Pointwise (DemeClose t) a.demes ds
  migrations : ∃ ms, ms.Perm b.migrations ∧ Pointwise (MigrationClose t) a.migrations ms
  pulses : Pointwise (PulseClose t) a.pulses b.pulses

/-- `d'` is `d` with another description -/
def SameUpToDescription (d d' : Deme) : Prop := d' = { d with description := d'.description }

/-- `d'` is `d` with its (ancestor, proportion) pairs rearranged -/
structure SameUpToAncestorOrder (d d' : Deme) : Prop where
  name : d'.name = d.name
  description : d'.description = d.description
  startTime : d'.startTime = d.startTime
  epochs : d'.epochs = d.epochs
  wellFormed : d.ancestors.length = d.proportions.length
  wellFormed' : d'.ancestors.length = d'.proportions.length
  pairs : (d'.ancestors.zip d'.proportions).Perm (d.ancestors.zip d.proportions)

end Demes.Spec
