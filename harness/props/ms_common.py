"""Shared machinery of the ms properties C07-C09: generators of ms command lines and of
ms-expressible graphs, calls into the real converter, comparison of the real results with the
Lean Model (exactly on the dyadic stream, symbolic sizes / growth rates evaluated in Python at
1e-9) and with the independent Spec interpreter (`ms_sem` / `graph_sem`).

Float residue, excluded by construction of the generators (each exclusion is counted):
 (a) cancelling growth: a size reached through exp() whose total exponent is 0
     (growth +a for dt then -a for dt): the real code compares c*exp(x)*exp(-x) != c in doubles,
     the Model compares exact reals.  `cancel_risk` rejects every command in which some signed
     combination of its growth rates over consecutive grid intervals sums to 0.
 (b) `-eM x` / `-I ... rate`: the code divides by (npop-1); rates are multiples of 60*2^-k so the
     quotient is a dyadic rational for every npop-1 <= 6.
 (c) to_ms: `p_k / sum(p[k:])` of a three-ancestor deme must be dyadic (`SAFE3`), and two
     consecutive epochs of a deme whose growth rates are mathematically equal but computed from
     different (ratio, span) pairs are resampled (`growth_residue`): the code compares the two
     doubles -log(r)/dt.
 (d) |growth * dt| stays < 40 (math.exp overflow / underflow is not modelled).
"""
from __future__ import annotations

import copy
import itertools
import logging
import math
import warnings
from decimal import Decimal
from fractions import Fraction

import demes
import demes.ms as dms

import gen_graphs as G
from wire import canon, dec, enc, show, num_str

warnings.simplefilter("ignore")
logging.getLogger("demes.ms").setLevel(logging.ERROR)

N0S = [Fraction(1), Fraction(2), Fraction(64), Fraction(1, 4)]
TIME_POOL = [Fraction(k, 8) for k in (1, 2, 3, 4, 6, 8)]
SIZES_X = [Fraction(1, 2), Fraction(1), Fraction(2), Fraction(4), Fraction(1, 4), Fraction(3)]
ALPHAS = [Fraction(0), Fraction(1, 2), Fraction(1), Fraction(2), Fraction(4), Fraction(-1, 2), Fraction(-1), Fraction(-2), Fraction(-4)]
MIGS = [Fraction(1, 64), Fraction(1, 32), Fraction(1, 16), Fraction(1, 8)]
SPLITS = [Fraction(1, 4), Fraction(1, 2), Fraction(3, 4), Fraction(1, 8)]
NAMES = ["A", "B", "C", "D", "E", "F", "G", "H", "pop_1", "_x", "Z9"]
IGNORED = [["-t", "5.0"], ["-T"], ["-r", "2.0", "100"], ["-s", "5"], ["-seeds", "1", "2", "3"], ["-p", "5"], ["-L"]]
SAFE3 = [[Fraction(1, 2), Fraction(1, 4), Fraction(1, 4)], [Fraction(1, 2), Fraction(1, 8), Fraction(3, 8)],
         [Fraction(3, 4), Fraction(1, 8), Fraction(1, 8)], [Fraction(1, 4), Fraction(3, 8), Fraction(3, 8)]]


# ----------------------------------------------------------------------------- spelling

def spell(rng, q, bad_negative=False):
    """a command-line spelling of the dyadic rational q that Python's float() reads exactly"""
    q = Fraction(q)
    f = float(q)
    assert Fraction(f) == q
    r = repr(f)
    forms = [r, r]
    if q.denominator == 1:
        forms += [str(int(q)), str(int(q))]
    d = Decimal(q.numerator) / Decimal(q.denominator)
    sci = "{:e}".format(d)
    if q >= 0:
        forms.append(sci)
        forms.append("+" + r)
        if r.startswith("0."):
            forms.append(r[1:])
    else:
        if r.startswith("-0."):
            forms.append("-" + r[2:])
        if bad_negative:
            return sci          # e.g. -5e-1: argparse takes it for an option string
    return rng.choice(forms)


def spell_int(rng, i):
    u = rng.random()
    if u < 0.9 or i < 0:
        return str(i)
    if u < 0.95:
        return "+" + str(i)
    return "0" + str(i)


# ----------------------------------------------------------------------------- command generator

class Cmd:
    def __init__(self, tokens, N0, names, tags):
        self.tokens = tokens
        self.N0 = N0
        self.names = names
        self.tags = tags

    @property
    def text(self):
        return " ".join(self.tokens)

    def case(self):
        return {"command": self.text, "N0": num_str(self.N0), "deme_names": self.names}

    def repro(self):
        nm = "" if self.names is None else f", deme_names={self.names!r}"
        return f"/venv/bin/python -c \"import demes; print(demes.from_ms({self.text!r}, N0={float(self.N0)!r}{nm}))\""


def gen_command(rng, max_events=8):
    N0 = rng.choice(N0S)
    npop = rng.choice([1, 2, 2, 2, 3, 3])
    tags = set()
    k = rng.randint(1, 4)
    grid = sorted(rng.sample(TIME_POOL, k))
    if rng.random() < 0.06:
        grid = [Fraction(0)] + grid[: k - 1] if k > 1 else [Fraction(0)]
        tags.add("time0")
    cur = npop
    joined = set()
    bad = lambda p: rng.random() < p

    def pop(exclude=()):
        live = [i for i in range(1, cur + 1) if i not in joined and i not in exclude]
        if bad(0.015) or not live:
            tags.add("bad_index")
            c = [0, cur + 1, -1] + sorted(joined)
            return spell_int(rng, rng.choice(c))
        return spell_int(rng, rng.choice(live))

    def size():
        if bad(0.01):
            tags.add("bad_value")
            return rng.choice(["0", "-1", "abc", "-0.5"])
        return spell(rng, rng.choice(SIZES_X))

    def alpha():
        if bad(0.008):
            tags.add("bad_value")
            return rng.choice(["inf", "abc", "1e"])
        a = rng.choice(ALPHAS)
        if a < 0 and bad(0.03):
            tags.add("bad_negative_spelling")
            return spell(rng, a, bad_negative=True)
        return spell(rng, a)

    def mig():
        if bad(0.02):
            tags.add("big_rate")
            return spell(rng, 4 * N0 * rng.choice([2, Fraction(3, 4)]))
        if bad(0.1):
            return spell(rng, 0)
        if bad(0.02):
            tags.add("bad_value")
            return rng.choice(["-1", "x"])
        return spell(rng, 4 * N0 * rng.choice(MIGS))

    def island():
        if bad(0.15):
            return spell(rng, 0)
        return spell(rng, 4 * N0 * 60 * rng.choice([Fraction(1, 256), Fraction(1, 512)]))

    def time(t):
        if bad(0.004):
            tags.add("bad_value")
            return rng.choice(["-1", "abc"])
        return spell(rng, t)

    def matrix(n):
        out = []
        for a in range(1, n + 1):
            for b in range(1, n + 1):
                if a == b:
                    out.append(rng.choice(["x", "x", "0", "1.0"]))
                elif a in joined or b in joined:
                    out.append(rng.choice(["x", "0", spell(rng, 4 * N0 * rng.choice(MIGS))]))
                elif bad(0.03):
                    tags.add("nan_entry")
                    out.append("x")
                else:
                    out.append(mig())
        return out

    structure = []
    if npop > 1 or rng.random() < 0.3:
        samples = [rng.choice(["1", "2", "0", "10"]) for _ in range(npop)]
        if bad(0.02):
            samples = samples[:-1]
            tags.add("bad_structure")
        structure = ["-I", spell_int(rng, npop)] + samples
        if npop > 1 and rng.random() < 0.3:
            structure.append(island())
            tags.add("island_rate")
        elif bad(0.02):
            structure.append("-1")
            tags.add("bad_value")
    initial = []
    for _ in range(rng.choice([0, 0, 1, 1, 2, 3])):
        kind = rng.choice(["-n", "-n", "-g", "-g", "-G", "-m", "-m", "-ma"])
        if kind == "-n":
            initial.append(["-n", pop(), size()])
        elif kind == "-g":
            initial.append(["-g", pop(), alpha()])
        elif kind == "-G":
            initial.append(["-G", alpha()])
        elif kind == "-m" and npop > 1:
            a = pop()
            initial.append(["-m", a, pop(exclude=(int(a),) if a.lstrip("+-").isdigit() and not bad(0.05) else ()), mig()])
        elif kind == "-ma" and (npop > 1 or bad(0.3)):
            initial.append(["-ma"] + matrix(npop if not bad(0.05) else npop + 1))
            tags.add("matrix")
    events = []   # (time index, tokens)
    budget = rng.randint(0, max_events)
    for ti, t in enumerate(grid):
        if budget <= 0:
            break
        ne = min(budget, rng.choice([0, 1, 1, 2, 2, 3, 4]))
        budget -= ne
        if ne >= 2:
            tags.add("same_time")
        j = 0
        while j < ne:
            j += 1
            kind = rng.choice(["-en", "-en", "-en", "-eN", "-eg", "-eg", "-eg", "-eG", "-em", "-em", "-eM", "-ema",
                               "-es", "-es", "-es", "-ej", "-ej", "-ej"])
            T = time(t)
            if kind == "-en":
                events.append((ti, ["-en", T, pop(), size()]))
            elif kind == "-eN":
                events.append((ti, ["-eN", T, size()]))
            elif kind == "-eg":
                events.append((ti, ["-eg", T, pop(), alpha()]))
            elif kind == "-eG":
                events.append((ti, ["-eG", T, alpha()]))
            elif kind == "-em":
                if len([x for x in range(1, cur + 1) if x not in joined]) < 2 and not bad(0.1):
                    continue
                a = pop()
                b = pop(exclude=(int(a),) if a.lstrip("+-").isdigit() and not bad(0.05) else ())
                events.append((ti, ["-em", T, a, b, mig()]))
            elif kind == "-eM":
                events.append((ti, ["-eM", T, island()]))
                tags.add("island_rate")
            elif kind == "-ema":
                n = cur if not bad(0.06) else cur + rng.choice([-1, 1])
                events.append((ti, ["-ema", T, spell_int(rng, n)] + matrix(max(n, 0))))
                tags.add("matrix")
            elif kind == "-es":
                if cur >= 6:
                    continue
                i = pop()
                if bad(0.04):
                    p = rng.choice(["0", "1", "1.0", "0.0"])
                    tags.add("split_0_or_1")
                elif bad(0.02):
                    p = rng.choice(["1.5", "-0.5", "abc"])
                    tags.add("bad_value")
                else:
                    p = spell(rng, rng.choice(SPLITS))
                events.append((ti, ["-es", T, i, p]))
                cur += 1
                tags.add("split")
                if rng.random() < 0.65:
                    new = cur
                    live = [x for x in range(1, cur) if x not in joined]
                    if live:
                        events.append((ti, ["-ej", time(t), spell_int(rng, new), spell_int(rng, rng.choice(live))]))
                        joined.add(new)
                        tags.add("split_join")
            elif kind == "-ej":
                live = [x for x in range(1, cur + 1) if x not in joined]
                if len(live) < 2 and not bad(0.3):
                    continue
                a = pop()
                b = pop(exclude=(int(a),) if a.lstrip("+-").isdigit() and not bad(0.03) else ())
                events.append((ti, ["-ej", T, a, b]))
                if a.lstrip("+").isdigit() and 1 <= int(a) <= cur:
                    joined.add(int(a))
                tags.add("join")
    # a pair's migration switched off and, later, on again with the SAME rate: two separate
    # migrations with a gap, not one
    if npop >= 2 and len(grid) >= 2 and rng.random() < 0.12:
        a, b = rng.sample(range(1, npop + 1), 2)
        r = 4 * N0 * rng.choice(MIGS)
        i, j = sorted(rng.sample(range(len(grid)), 2))
        if rng.random() < 0.6:
            initial.append(["-m", str(a), str(b), spell(rng, r)])
        else:
            initial.append(["-ma"] + [("x" if x == y else (spell(rng, r) if (x, y) == (a, b) else "0")) for x in range(1, npop + 1) for y in range(1, npop + 1)])
        mid = rng.choice(["0", "0.0", spell(rng, 4 * N0 * rng.choice([m for m in MIGS if 4 * N0 * m != r] or MIGS))])
        events.append((i, ["-em", spell(rng, grid[i]), str(a), str(b), mid]))
        events.append((j, ["-em", spell(rng, grid[j]), str(a), str(b), spell(rng, r)]))
        events.sort(key=lambda e: e[0])
        tags.add("mig_off_on_same_rate" if mid in ("0", "0.0") else "mig_r1_r2_r1")
    # most commands end every growth phase (a growing root deme cannot be represented)
    if events and rng.random() < 0.8:
        ti = max(t for t, _ in events)
        if rng.random() < 0.5 and len(grid) > ti + 1:
            ti += 1
        T = spell(rng, grid[ti])
        events.append((ti, ["-eG", T, rng.choice(["0", "0.0"])] if rng.random() < 0.6 else ["-eN", T, spell(rng, rng.choice(SIZES_X))]))
    elif not events and initial and rng.random() < 0.8:
        events.append((0, ["-eG", spell(rng, grid[0]), "0"]))
    # ---- order of the options on the command line
    mode = rng.random()
    opts = [("I", structure)] if structure else []
    if mode < 0.5:
        opts += [("i", o) for o in initial] + [("e", o) for _, o in events]
        tags.add("order:time")
    elif mode < 0.85:
        # random merge that keeps the relative order inside every same-time group
        seqs = [[("I", structure)]] if structure else []
        seqs.append([("i", o) for o in initial])
        for ti in range(len(grid)):
            seqs.append([("e", o) for tj, o in events if tj == ti])
        seqs = [s for s in seqs if s]
        opts = []
        while seqs:
            s = rng.choice(seqs)
            opts.append(s.pop(0))
            if not s:
                seqs.remove(s)
        tags.add("order:merge")
    else:
        opts += [("i", o) for o in initial] + [("e", o) for _, o in events]
        rng.shuffle(opts)
        tags.add("order:shuffle")
    if rng.random() < 0.3:
        for _ in range(rng.choice([1, 1, 2])):
            opts.insert(rng.randint(0, len(opts)), ("x", list(rng.choice(IGNORED))))
        tags.add("ignored_options")
    if opts and rng.random() < 0.08:
        which = rng.randrange(len(opts))
        o = list(opts[which][1])
        u = rng.random()
        if u < 0.4 and len(o) > 1:
            del o[rng.randrange(1, len(o))]
            tags.add("mut:missing_arg")
        elif u < 0.7:
            o.append(rng.choice(["7", "0.5"]))
            tags.add("mut:extra_arg")
        elif u < 0.8:
            o[0] = rng.choice(["-e", "-eX", "-I", "-n1", "-m", "-es1", "-x=1"])
            tags.add("mut:flag")
        elif u < 0.92 and len(o) > 1:
            # argparse's explicit-argument forms: -G0.5, -G=0.5, -I2
            o = [o[0] + rng.choice(["", "="]) + o[1]] + o[2:]
            tags.add("mut:glue")
        else:
            o = o + o
            tags.add("mut:dup")
        opts[which] = (opts[which][0], o)
    tokens = [t for _, o in opts for t in o]
    names = None
    if rng.random() < 0.2:
        good = cur - len([x for x in joined if x > npop])
        want = rng.choice([good, good, good, good, cur, npop, cur + 1])
        want = max(1, want)
        pool = rng.sample(NAMES, min(len(NAMES), want))
        if rng.random() < 0.3:
            # a permutation of the default names: still a renaming that must be applied
            pool = [f"deme{i + 1}" for i in range(want)]
            rng.shuffle(pool)
            tags.add("deme_names_permutation")
        if bad(0.1) and len(pool) > 1:
            pool[-1] = pool[0]
        names = pool
        tags.add("deme_names")
    return Cmd(tokens, N0, names, sorted(tags))


def _num(tok):
    try:
        return Fraction(float(tok))
    except (ValueError, OverflowError):
        return None


def cancel_risk(tokens):
    """float residue (a): could a product-sum of growth rates over consecutive intervals be 0?"""
    alphas, times = set(), {Fraction(0)}
    i = 0
    while i < len(tokens):
        t = tokens[i]
        pos = {"-G": (None, 1), "-g": (None, 2), "-eG": (1, 2), "-eg": (1, 3)}.get(t)
        if pos:
            tpos, apos = pos
            if i + apos < len(tokens):
                a = _num(tokens[i + apos])
                if a is not None and a != 0 and abs(a) != math.inf:
                    alphas.add(a)
            if tpos is not None and i + tpos < len(tokens):
                x = _num(tokens[i + tpos])
                if x is not None and 0 <= x < math.inf:
                    times.add(x)
        elif t in ("-eN", "-en", "-eM", "-em", "-ema", "-es", "-ej") and i + 1 < len(tokens):
            x = _num(tokens[i + 1])
            if x is not None and 0 <= x < math.inf:
                times.add(x)
        i += 1
    if not any(a > 0 for a in alphas) or not any(a < 0 for a in alphas):
        return False
    ts = sorted(times)
    deltas = [b - a for a, b in zip(ts, ts[1:])]
    choices = sorted(alphas) + [Fraction(0)]
    for lo in range(len(deltas)):
        for hi in range(lo + 1, len(deltas) + 1):
            ds = deltas[lo:hi]
            for combo in itertools.product(choices, repeat=len(ds)):
                if any(combo) and sum(c * d for c, d in zip(combo, ds)) == 0:
                    return True
    return False


def small_scope_commands(N0=Fraction(1)):
    """every command with <= 3 events over a 2-point time grid on 2 populations (thorough tier)"""
    M = repr(float(4 * N0 * Fraction(1, 8)))
    X = repr(float(4 * N0 * Fraction(60, 256)))
    alphabet = []
    for t in ("0.5", "1.0"):
        alphabet += [["-en", t, "1", "2"], ["-en", t, "2", "2"], ["-eN", t, "2"], ["-eg", t, "1", "1.0"], ["-eg", t, "2", "-1.0"],
                     ["-eG", t, "1.0"], ["-em", t, "1", "2", M], ["-eM", t, X], ["-es", t, "1", "0.5"], ["-es", t, "2", "0.25"],
                     ["-ej", t, "1", "2"], ["-ej", t, "2", "1"], ["-ej", t, "3", "1"], ["-ej", t, "3", "2"]]
    for k in range(0, 4):
        for combo in itertools.product(alphabet, repeat=k):
            yield Cmd(["-I", "2", "1", "1"] + [x for o in combo for x in o], N0, None, ["exhaustive"])


# ----------------------------------------------------------------------------- the real code

def code_from_ms(cmd: Cmd):
    try:
        g = demes.from_ms(cmd.text, N0=float(cmd.N0), deme_names=None if cmd.names is None else list(cmd.names))
    except Exception as e:  # noqa: BLE001 - every exception is a rejection
        return ("err", type(e).__name__, str(e)[:80])
    return ("ok", g)


def code_to_ms(g, N0, samples):
    # the command for (g, N0, samples) must not depend on what was converted before: the same graph is first
    # converted under another sampling scheme (result discarded)
    try:
        demes.to_ms(g, N0=float(N0), samples=None if samples is not None else [1] * len(g.demes))
    except Exception:  # noqa: BLE001
        pass
    try:
        s = demes.to_ms(g, N0=float(N0), samples=samples)
    except Exception as e:  # noqa: BLE001
        return ("err", type(e).__name__, str(e)[:80])
    return ("ok", s)


def index_of(g):
    pos = {id(d): i for i, d in enumerate(g.demes)}
    return [[k, pos.get(id(v), -1)] for k, v in g._deme_map.items()]


# ----------------------------------------------------------------------------- comparisons

def sz_eval(sz):
    """(exact Fraction | None, float value) of a symbolic size {coef, expo}"""
    c, x = dec(sz["coef"]), dec(sz["expo"])
    if x == 0:
        return c, float(c)
    return None, float(c) * math.exp(float(x))


def close(a, b, rel=1e-9, abs_=0.0):
    return a == b or abs(a - b) <= rel * max(abs(a), abs(b)) + abs_


def cmp_from_ms_graph(g, model):
    """None or a description of the first difference between the code's graph and the Model's"""
    d = canon(g.asdict())
    m = model["ok"]
    for k in ("description", "time_units"):
        if d[k] != m[k]:
            return f"{k}: {d[k]!r} vs {m[k]!r}"
    if d["generation_time"] != dec(m["generation_time"]):
        return "generation_time"
    if len(d["demes"]) != len(m["demes"]):
        return f"number of demes {len(d['demes'])} vs {len(m['demes'])}"
    for a, b in zip(d["demes"], m["demes"]):
        for k in ("name", "description", "ancestors"):
            if a[k] != b[k]:
                return f"deme {a['name']}.{k}: {a[k]!r} vs {b[k]!r}"
        if a["start_time"] != dec(b["start_time"]):
            return f"deme {a['name']}.start_time {a['start_time']} vs {dec(b['start_time'])}"
        if a["proportions"] != [dec(x) for x in b["proportions"]]:
            return f"deme {a['name']}.proportions"
        if len(a["epochs"]) != len(b["epochs"]):
            return f"deme {a['name']}: {len(a['epochs'])} vs {len(b['epochs'])} epochs"
        for j, (e, f) in enumerate(zip(a["epochs"], b["epochs"])):
            for k in ("end_time", "selfing_rate", "cloning_rate"):
                if e[k] != dec(f[k]):
                    return f"deme {a['name']}.epochs[{j}].{k}"
            if e["size_function"] != f["size_function"]:
                return f"deme {a['name']}.epochs[{j}].size_function {e['size_function']} vs {f['size_function']}"
            for k in ("start_size", "end_size"):
                exact, val = sz_eval(f[k])
                if exact is not None:
                    if e[k] != exact:
                        return f"deme {a['name']}.epochs[{j}].{k}: {e[k]} vs exact {exact}"
                elif not close(float(e[k]), val):
                    return f"deme {a['name']}.epochs[{j}].{k}: {float(e[k])!r} vs symbolic {val!r}"
    for key in ("migrations", "pulses"):
        mm = [dec(x) for x in m[key]]
        if d[key] != mm:
            return f"{key}: {show(d[key])} vs {show(mm)}"
    if index_of(g) != model.get("index"):
        return f"name index {index_of(g)} vs {model.get('index')}"
    return None


def parse_code_tokens(s):
    return s.split()


def cmp_to_ms_tokens(code_str, model_tokens):
    """None or a description of the first difference between the printed command and the Model's tokens"""
    toks = code_str.split()
    if len(toks) != len(model_tokens):
        return f"{len(toks)} tokens vs {len(model_tokens)}"
    for k, (c, m) in enumerate(zip(toks, model_tokens)):
        if "flag" in m:
            if c != m["flag"]:
                return f"token {k}: {c} vs flag {m['flag']}"
        elif "raw" in m:
            if c != m["raw"]:
                return f"token {k}: {c} vs {m['raw']}"
        elif "int" in m:
            if not c.lstrip("-").isdigit() or int(c) != m["int"]:
                return f"token {k}: {c} vs int {m['int']}"
        elif "sym" in m:
            r, dt = [float(dec(x)) for x in m["sym"]]
            want = -math.log(r) / dt
            try:
                got = float(c)
            except ValueError:
                return f"token {k}: {c} is not a number"
            if not close(got, want, 1e-9, 5.1e-11 if want < 0 else 0.0):
                return f"token {k}: growth {got!r} vs symbolic {want!r}"
        elif "n" in m:
            want = dec(m)
            try:
                got = float(c)
            except ValueError:
                return f"token {k}: {c} is not a number"
            if isinstance(want, float):
                if not (got == want or (math.isnan(got) and math.isnan(want))):
                    return f"token {k}: {c} vs {want}"
            elif math.isinf(got) or math.isnan(got) or Fraction(got) != want:
                return f"token {k}: {c} vs exact {want}"
        else:
            return f"token {k}: unknown model token {m}"
    return None


# ---- DemogSem (decoded driver output)

def sem_decode(j):
    pops = {}
    for p in j["pops"]:
        segs = []
        for s in p["segs"]:
            segs.append({"t0": dec(s["t0"]), "t1": dec(s["t1"]), "size": sz_eval(s["size"]),
                         "growth": None if s["growth"] is None else dec(s["growth"]),
                         "size_old": None if s["size_old"] is None else sz_eval(s["size_old"]), "fn": s["fn"]})
        pops[p["id"]] = {"lo": dec(p["lo"]), "hi": dec(p["hi"]), "segs": segs}
    migs = [(m[0], m[1], dec(m[2]), dec(m[3]), dec(m[4])) for m in j["migs"]]
    moves = [(dec(m["time"]), [(r[0], [(e[0], dec(e[1])) for e in r[1]]) for r in m["rows"]]) for m in j["moves"]]
    return {"pops": pops, "migs": migs, "moves": moves}


def seg_growth(s):
    """(is exactly zero, float growth rate) of a segment"""
    if s["growth"] is not None:
        return s["growth"] == 0, float(s["growth"])
    a, b = s["size"], s["size_old"]
    if s["fn"] == "constant" or (a[0] is not None and a[0] == b[0]) or a[1] == b[1]:
        return True, 0.0
    if s["fn"] != "exponential" or math.isinf(s["t1"]):
        return False, math.nan
    return False, math.log(a[1] / b[1]) / float(s["t1"] - s["t0"])


def seg_value(s, t):
    """(exact | None, float) size of the segment's population at time t (t0 <= t < t1)"""
    zero, g = seg_growth(s)
    if zero or t == s["t0"]:
        return s["size"]
    return None, s["size"][1] * math.exp(-g * float(t - s["t0"]))


def cmp_sem(A, B, size_rel=1e-9, growth_abs=0.0, what=("ms", "graph"), restrict=False, numeric_sizes=False):
    """None or the first difference between two decoded DemogSem (exact on times, migration rates
    and lineage movements; sizes exact where both are exact, else numerically).

    restrict=True is the relation of C07/C09: B (a graph) fixes every population's lifetime; A (an ms
    command, where every initial population exists from time 0) must agree with B on each lifetime,
    must end each population where B does, and must not let a lineage enter a population outside
    its lifetime (migration or lineage movement)."""
    if sorted(A["pops"]) != sorted(B["pops"]):
        return f"populations alive: {sorted(A['pops'])} ({what[0]}) vs {sorted(B['pops'])} ({what[1]})"
    life = {k: (p["lo"], p["hi"]) for k, p in B["pops"].items()}
    for k in sorted(A["pops"]):
        pa, pb = A["pops"][k], B["pops"][k]
        if pa["hi"] != pb["hi"] or (pa["lo"] != pb["lo"] if not restrict else pa["lo"] > pb["lo"]):
            return f"population {k}: lifetime [{pa['lo']},{pa['hi']}) vs [{pb['lo']},{pb['hi']})"
        cuts = sorted({pb["lo"]} | {t for t in ({s["t0"] for s in pa["segs"]} | {s["t0"] for s in pb["segs"]}) if pb["lo"] <= t < pb["hi"]})
        for t in cuts:
            sa = [s for s in pa["segs"] if s["t0"] <= t < s["t1"]]
            sb = [s for s in pb["segs"] if s["t0"] <= t < s["t1"]]
            if len(sa) != 1 or len(sb) != 1:
                return f"population {k}: {len(sa)} / {len(sb)} segments own time {t}"
            va, vb = seg_value(sa[0], t), seg_value(sb[0], t)
            if va[0] is not None and vb[0] is not None and not numeric_sizes:
                if va[0] != vb[0]:
                    return f"population {k}: size at {t}: {va[0]} vs {vb[0]}"
            elif not close(va[1], vb[1], size_rel):
                return f"population {k}: size at {t}: {va[1]!r} vs {vb[1]!r}"
            (za, ga), (zb, gb) = seg_growth(sa[0]), seg_growth(sb[0])
            if za != zb and not ((growth_abs or numeric_sizes) and abs(ga - gb) <= growth_abs + (1e-9 if numeric_sizes else 0)):
                return f"population {k}: growth from {t}: {'0' if za else ga} vs {'0' if zb else gb}"
            if not (za and zb) and not close(ga, gb, 1e-9 if not numeric_sizes else 1e-7, 1e-12 + growth_abs):
                return f"population {k}: growth from {t}: {ga!r} vs {gb!r}"
    migs_a = A["migs"]
    if restrict:
        clipped = []
        for (i, j, t0, t1, r) in migs_a:
            (li, hi_), (lj, hj) = life[i], life[j]
            # lineages sit in i only during i's lifetime; they may move to j only during j's
            a0, a1 = max(t0, li), min(t1, hi_)
            if not a0 < a1:
                continue
            w0, w1 = max(a0, lj), min(a1, hj)
            if not (w0 == a0 and w1 == a1):
                return (f"migration: lineages of population {i} can enter population {j} outside its lifetime "
                        f"[{lj},{hj}) during [{a0},{a1}) (rate {r})")
            clipped.append((i, j, w0, w1, r))
        migs_a = clipped
    if migs_a != B["migs"]:
        only_a = [m for m in migs_a if m not in B["migs"]]
        only_b = [m for m in B["migs"] if m not in migs_a]
        return f"migration: only {what[0]} {show(canon(only_a[:3]))}; only {what[1]} {show(canon(only_b[:3]))}"
    moves_a = A["moves"]
    if restrict:
        out = []
        for (T, rows) in moves_a:
            keep = []
            for (i, row) in rows:
                if not (life[i][0] < T <= life[i][1]):
                    continue
                for (j, pr) in row:
                    if not (life[j][0] <= T < life[j][1]):
                        return f"lineage movements: a lineage of population {i} enters population {j} at {T}, outside its lifetime [{life[j][0]},{life[j][1]})"
                keep.append((i, row))
            if keep:
                out.append((T, keep))
        moves_a = out
    if moves_a != B["moves"]:
        return f"lineage movements: {show(canon(moves_a))} ({what[0]}) vs {show(canon(B['moves']))} ({what[1]})"
    return None


# ----------------------------------------------------------------------------- graphs for to_ms

def growth_residue(g):
    """float residue (c): consecutive epochs with mathematically equal growth rates that the code
    computes from different (ratio, span) pairs"""
    for d in g.demes:
        prev = None
        for e in reversed(d.epochs):
            cur = None
            if e.start_size != e.end_size and not math.isinf(e.start_time):
                cur = (Fraction(e.start_size) / Fraction(e.end_size), Fraction(e.start_time) - Fraction(e.end_time))
            if prev is not None and cur is not None and prev != cur:
                (r1, d1), (r2, d2) = prev, cur
                m, n = d2.numerator * d1.denominator, d1.numerator * d2.denominator
                gg = math.gcd(m, n)
                if r1 ** (m // gg) == r2 ** (n // gg):
                    return True
            prev = cur
    return False


def gen_ms_graph(rng, max_demes=6, expressible=True, stats=None):
    """(document, Graph) of a valid graph; ms-expressible unless `expressible` is False"""
    for _ in range(200):
        m = G.gen_model(rng, max_demes=max_demes, ms_expressible=expressible, near=0)
        for d in m.demes:
            if len(d["ancestors"]) == 3:
                d["proportions"] = list(rng.choice(SAFE3))
        if rng.random() < 0.25:
            # sawtooth / continued growth: consecutive epochs with the same ratio
            cands = [d for d in m.demes if len(d["epochs"]) >= 2]
            if cands:
                d = rng.choice(cands)
                j = rng.randrange(len(d["epochs"]) - 1)
                if not (j == 0 and d["start_time"] == math.inf):
                    a, b = d["epochs"][j], d["epochs"][j + 1]
                    a["size_function"] = b["size_function"] = "exponential"
                    if a["start_size"] == a["end_size"]:
                        a["end_size"] = rng.choice([s for s in G.SIZES if s != a["start_size"]])
                    if rng.random() < 0.5:
                        b["start_size"], b["end_size"] = a["start_size"], a["end_size"]          # sawtooth
                    else:
                        nxt = Fraction(a["end_size"]) ** 2 / Fraction(a["start_size"])
                        if Fraction(float(nxt)) == nxt and nxt >= 1:
                            b["start_size"] = a["end_size"]
                            b["end_size"] = nxt if nxt.denominator != 1 else int(nxt)          # continued growth
        doc = G.spell(m, rng, level=rng.choice([0, 0.5, 1]))
        try:
            g = demes.Graph.fromdict(copy.deepcopy(doc))
        except Exception:  # noqa: BLE001
            continue
        if growth_residue(g.in_generations()):
            if stats is not None:
                stats["excluded_growth_residue"] += 1
            continue
        return doc, g
    raise RuntimeError("graph generator starved")


def graph_features(g):
    f = []
    if len(g.demes) > 1:
        f.append("multi_deme")
    if any(len(d.ancestors) > 1 for d in g.demes):
        f.append("multi_ancestor")
    if any(len(d.epochs) > 1 for d in g.demes):
        f.append("multi_epoch")
    if any(e.start_size != e.end_size for d in g.demes for e in d.epochs):
        f.append("growth")
    if g.migrations:
        f.append("migration")
    if g.pulses:
        f.append("pulse")
    if any(p.proportions[0] == 1 for p in g.pulses):
        f.append("pulse_proportion_1")
    if any(d.end_time > 0 for d in g.demes):
        f.append("extinct_deme")
    ts = [d.start_time for d in g.demes if not math.isinf(d.start_time)] + [p.time for p in g.pulses]
    if len(ts) != len(set(ts)):
        f.append("coincident_events")
    if g.generation_time != 1:
        f.append("non_generation_units")
    return f


def printed_tolerances(N0, tmax):
    """tolerances that account for negative growth rates being printed with 10 decimals:
    (relative size tolerance, absolute growth tolerance in graph units)"""
    g_abs = 5.1e-11 / (4 * float(N0))
    return 1e-9 + 2 * g_abs * float(tmax), g_abs


def graph_tmax(g):
    g = g.in_generations()
    ts = [0.0] + [d.start_time for d in g.demes if not math.isinf(d.start_time)] + [e.end_time for d in g.demes for e in d.epochs]
    return max(ts)
