/-
  Proofs for C03, part 8 — soundness of `resolve` against the Spec: a document the library
  resolves has an acceptable shape (`resolve_schema`) and resolves to the graph the fill-in
  rules prescribe (`resolve_eq_fill`).
-/
import DemesVerif.Proofs.AcceptsSchema
import DemesVerif.Proofs.AcceptsDefaults
import DemesVerif.Proofs.AcceptsHeader
import DemesVerif.Proofs.AcceptsDeme
import DemesVerif.Proofs.AcceptsMig
import DemesVerif.Proofs.AcceptsPulse
import DemesVerif.Proofs.AcceptsSort
namespace Demes.Proofs.Accepts
open Demes Demes.Obj Demes.Spec

/-! ### `resolve`, taken apart (every check kept) -/

theorem resolve_inv {dataV : Value} {g : Graph} (h : resolve dataV = .ok g) :
    ∃ data defaults DD MD PD GE g0 demesList g1 migs g2 pulses g3,
      dataV = .obj data ∧
      checkAllowed data allowedTop = .ok () ∧
      popObject data "defaults" = .ok defaults ∧
      checkAllowed defaults allowedDefaults = .ok () ∧
      popObject defaults "deme" = .ok DD ∧ checkDefaults DD demeDefaultsTable = .ok () ∧
      popObject defaults "migration" = .ok MD ∧ checkDefaults MD migrationDefaultsTable = .ok () ∧
      popObject defaults "pulse" = .ok PD ∧ checkDefaults PD pulseDefaultsTable = .ok () ∧
      popObject defaults "epoch" = .ok GE ∧ checkDefaults GE epochDefaultsTable = .ok () ∧
      resolveHeader data = .ok g0 ∧
      popObjList data "demes" none = .ok demesList ∧ demesList ≠ [] ∧
      demesList.foldlM (resolveDeme DD GE) g0 = .ok g1 ∧
      popObjList data "migrations" (some []) = .ok migs ∧
      migs.foldlM (resolveMigration MD) g1 = .ok g2 ∧
      checkMigrationRates g2 = .ok () ∧
      popObjList data "pulses" (some []) = .ok pulses ∧
      pulses.foldlM (resolvePulse PD) g2 = .ok g3 ∧
      g = { g3 with pulses := sortPulses g3.pulses } := by
  unfold resolve at h
  obtain ⟨data, hdata, h⟩ := Proofs.bind_ok h
  obtain ⟨_, c1, h⟩ := Proofs.bind_ok h
  obtain ⟨defaults, hdef, h⟩ := Proofs.bind_ok h
  obtain ⟨_, c2, h⟩ := Proofs.bind_ok h
  obtain ⟨DD, hDD, h⟩ := Proofs.bind_ok h
  obtain ⟨_, c3, h⟩ := Proofs.bind_ok h
  obtain ⟨MD, hMD, h⟩ := Proofs.bind_ok h
  obtain ⟨_, c4, h⟩ := Proofs.bind_ok h
  obtain ⟨PD, hPD, h⟩ := Proofs.bind_ok h
  obtain ⟨_, c5, h⟩ := Proofs.bind_ok h
  obtain ⟨GE, hGE, h⟩ := Proofs.bind_ok h
  obtain ⟨_, c6, h⟩ := Proofs.bind_ok h
  obtain ⟨g0, hg0, h⟩ := Proofs.bind_ok h
  obtain ⟨demesList, hdl, h⟩ := Proofs.bind_ok h
  extract_lets jp at h
  split at h
  · cases h
  rename_i hne
  simp -zeta only [jp] at h
  obtain ⟨g1, hg1, h⟩ := Proofs.bind_ok h
  obtain ⟨migs, hmigs, h⟩ := Proofs.bind_ok h
  obtain ⟨g2, hg2, h⟩ := Proofs.bind_ok h
  obtain ⟨_, c7, h⟩ := Proofs.bind_ok h
  obtain ⟨pulses, hp, h⟩ := Proofs.bind_ok h
  obtain ⟨g3, hg3, h⟩ := Proofs.bind_ok h
  cases h
  refine ⟨data, defaults, DD, MD, PD, GE, g0, demesList, g1, migs, g2, pulses, g3, ?_, c1, hdef, c2, hDD,
    c3, hMD, c4, hPD, c5, hGE, c6, hg0, hdl, ?_, hg1, hmigs, hg2, c7, hp, hg3, rfl⟩
  · cases dataV with
    | obj kvs => cases hdata; rfl
    | _ => cases hdata
  · intro he
    apply hne
    rw [he]; rfl

/-! ### the deme loop -/

theorem allowedDeme_of_valid {DD : Obj} (h : validFields validDemeDefault DD = true) :
    ∀ k ∈ keys DD, k ∈ allowedDeme := validFields_deme_keys h

/-- the epoch loop only succeeds on epochs with known fields (no hypothesis on the defaults) -/
theorem resolveEpochs_allowed {st : ETime} {D : Obj} {es : List Obj} {eps : List Epoch}
    (h : resolveEpochs st D es = .ok eps) : ∀ e ∈ es, onlyFields epochFields e = true := by
  obtain ⟨hlen, hall⟩ := (Proofs.resolveEpochs_ok_iff st D es eps).1 h
  intro e he
  obtain ⟨i, hi, rfl⟩ := List.mem_iff_getElem.1 he
  rw [epochFields_eq, ← checkAllowed_iff_onlyFields]
  exact (hall i hi (hlen ▸ hi)).1

/-- the shape of a deme entry the library resolves is acceptable (no `wf` hypothesis) -/
theorem resolveDeme_schema {DD GE : Obj} {g g' : Graph} {dd : Obj}
    (hDD : ∀ k ∈ keys DD, k ∈ allowedDeme) (h : resolveDeme DD GE g dd = .ok g') :
    demeSchemaOK dd = true := by
  obtain ⟨nameV, d, ld, L, es, eps, hname, hca, _, hld, hca2, hL, hcd, hes, hne, heps, _⟩ :=
    resolveDeme_inv h
  have hld' : sectionOf dd "defaults" = some ld := by
    have := (popObject_ok_iff _ _ _).1 hld
    unfold sectionOf at this ⊢
    rwa [lookup_ins_of_none (lookup_none_of_allowed hDD defaults_notin)] at this
  have hes' : epochsOf dd = some es := by
    have := (popObjList_ok_iff _ _ _ _).1 hes
    rwa [lookup_ins_of_none (lookup_none_of_allowed hDD epochs_notin)] at this
  refine demeSchemaOK_iff.2 ⟨by rw [hname]; rfl, ?_, ld, L, es, hld', ?_, (popObject_ok_iff _ _ _).1 hL,
    (checkDefaults_epoch_iff L).1 hcd, hes', hne, resolveEpochs_allowed heps⟩
  · rw [demeFields_eq, ← checkAllowed_iff_onlyFields]; exact hca
  · rw [demeDefaultsFields_eq, ← checkAllowed_iff_onlyFields]; exact hca2

theorem demes_schema {DD GE : Obj} (hDD : ∀ k ∈ keys DD, k ∈ allowedDeme) :
    ∀ (ds : List Obj) (g g' : Graph), ds.foldlM (resolveDeme DD GE) g = .ok g' →
      ∀ dd ∈ ds, demeSchemaOK dd = true := by
  intro ds
  induction ds with
  | nil => intro g g' _ dd hdd; cases hdd
  | cons x ds ih =>
    intro g g' h dd hdd
    rw [List.foldlM_cons] at h
    obtain ⟨g1, h1, h⟩ := Proofs.bind_ok h
    rcases List.mem_cons.1 hdd with rfl | hdd
    · exact resolveDeme_schema hDD h1
    · exact ih _ _ h dd hdd

theorem demes_fill {DD GE : Obj} (hDD : ∀ k ∈ keys DD, k ∈ allowedDeme) :
    ∀ (ds : List Obj) (g g' : Graph),
      (∀ dd ∈ ds, (Value.obj dd).wf = true) → ds.foldlM (resolveDeme DD GE) g = .ok g' →
      (∀ dd ∈ ds, demeSchemaOK dd = true) ∧ fillDemes DD GE g ds = some g' := by
  intro ds
  induction ds with
  | nil =>
    intro g g' _ h
    cases h
    exact ⟨fun _ h => (by cases h), rfl⟩
  | cons dd ds ih =>
    intro g g' hwf h
    rw [List.foldlM_cons] at h
    obtain ⟨g1, h1, h⟩ := Proofs.bind_ok h
    obtain ⟨hname, hca, ld, L, es, d, hld, hca2, hL, hcd, hes, hne, hce, hf, rfl⟩ :=
      resolveDeme_fill hDD (wf_deme_nodup (hwf dd List.mem_cons_self)) h1
    obtain ⟨hs, hfd⟩ := ih _ _ (fun x hx => hwf x (List.mem_cons_of_mem _ hx)) h
    refine ⟨?_, ?_⟩
    · intro x hx
      rcases List.mem_cons.1 hx with rfl | hx
      · exact demeSchemaOK_iff.2 ⟨hname, hca, ld, L, es, hld, hca2, hL,
          (checkDefaults_epoch_iff L).1 hcd, hes, hne, hce⟩
      · exact hs x hx
    · simp only [fillDemes, hf]
      exact hfd

/-- what `fillDemes` leaves alone, and what it extends -/
theorem fillDemes_shape {DD GE : Obj} : ∀ (ds : List Obj) (g g' : Graph),
    fillDemes DD GE g ds = some g' →
      g'.description = g.description ∧ g'.timeUnits = g.timeUnits ∧
      g'.generationTime = g.generationTime ∧ g'.doi = g.doi ∧ g'.metadata = g.metadata ∧
      g'.migrations = g.migrations ∧ g'.pulses = g.pulses ∧
      (∃ more, g'.demes = g.demes ++ more) ∧
      (g.index = Asdict.mkIndex g.demes → g'.index = Asdict.mkIndex g'.demes) := by
  intro ds
  induction ds with
  | nil =>
    intro g g' h
    cases h
    exact ⟨rfl, rfl, rfl, rfl, rfl, rfl, rfl, ⟨[], by simp⟩, id⟩
  | cons dd ds ih =>
    intro g g' h
    simp only [fillDemes] at h
    cases hf : fillDeme DD GE g dd with
    | none => rw [hf] at h; cases h
    | some d =>
      rw [hf] at h
      obtain ⟨a1, a2, a3, a4, a5, a6, a7, ⟨more, a8⟩, a9⟩ := ih _ _ h
      refine ⟨a1, a2, a3, a4, a5, a6, a7, ⟨d :: more, ?_⟩, ?_⟩
      · rw [a8]; simp [addDeme]
      · intro hi
        apply a9
        simp only [addDeme, Asdict.mkIndex_concat, hi]

/-! ### **soundness** -/

/-- the shape of a document the library resolves is acceptable -/
theorem resolve_schema {d : Value} {g : Graph} (h : resolve d = .ok g) :
    schemaOK d = true := by
  obtain ⟨data, defaults, DD, MD, PD, GE, g0, demesList, g1, migs, g2, pulses, g3, rfl, c1, hdef, c2, hDD,
    c3, hMD, c4, hPD, c5, hGE, c6, hg0, hdl, hne, hg1, hmigs, hg2, c7, hp, hg3, rfl⟩ := resolve_inv h
  have v3 := (checkDefaults_deme_iff DD).1 c3
  have hdl' := (popObjList_none_ok_iff _ _ _).1 hdl
  have hs := demes_schema (allowedDeme_of_valid v3) demesList g0 g1 hg1
  obtain ⟨hm, _⟩ := migrations_fill migs g1 g2 hg2
  obtain ⟨hpu, _⟩ := pulses_fill pulses g2 g3 hg3
  refine schemaOK_iff.2 ⟨data, defaults, DD, MD, PD, GE, demesList, migs, pulses, rfl, ?_, ?_, ?_, ?_, v3, ?_,
    ?_, ?_, ?_, ?_, ?_, resolveHeader_timeUnits hg0, hdl', hne, hs, ?_, hm, ?_, hpu⟩
  · rw [topFields_eq, ← checkAllowed_iff_onlyFields]; exact c1
  · exact (popObject_ok_iff _ _ _).1 hdef
  · rw [defaultsFields_eq, ← checkAllowed_iff_onlyFields]; exact c2
  · exact (popObject_ok_iff _ _ _).1 hDD
  · exact (popObject_ok_iff _ _ _).1 hMD
  · exact (checkDefaults_migration_iff MD).1 c4
  · exact (popObject_ok_iff _ _ _).1 hPD
  · exact (checkDefaults_pulse_iff PD).1 c5
  · exact (popObject_ok_iff _ _ _).1 hGE
  · exact (checkDefaults_epoch_iff GE).1 c6
  · exact (popObjList_ok_iff _ _ _ _).1 hmigs
  · exact (popObjList_ok_iff _ _ _ _).1 hp

/-- **the resolved graph is the one the fill-in rules of the specification prescribe** -/
theorem resolve_eq_fill {d : Value} {g : Graph} (hwf : d.wf = true) (h : resolve d = .ok g) :
    fill d = some g := by
  obtain ⟨data, defaults, DD, MD, PD, GE, g0, demesList, g1, migs, g2, pulses, g3, rfl, c1, hdef, c2, hDD,
    c3, hMD, c4, hPD, c5, hGE, c6, hg0, hdl, hne, hg1, hmigs, hg2, c7, hp, hg3, rfl⟩ := resolve_inv h
  have v3 := (checkDefaults_deme_iff DD).1 c3
  have hdl' := (popObjList_none_ok_iff _ _ _).1 hdl
  have hwfd : ∀ dd ∈ demesList, (Value.obj dd).wf = true := by
    obtain ⟨v, hv, hos⟩ := obind_some' hdl'
    exact wf_objs hwf hv hos
  obtain ⟨_, hfd⟩ := demes_fill (allowedDeme_of_valid v3) demesList g0 g1 hwfd hg1
  obtain ⟨_, mss, hms, rfl⟩ := migrations_fill migs g1 g2 hg2
  obtain ⟨_, pus, hpus, rfl⟩ := pulses_fill pulses _ g3 hg3
  have hh := resolveHeader_fill hg0
  obtain ⟨e1, e2, e3, e4⟩ := fillHeader_empty hh
  obtain ⟨_, _, _, _, _, a6, a7, _, _⟩ := fillDemes_shape demesList g0 g1 hfd
  rw [e3] at a6
  rw [e4] at a7
  unfold fill
  have hm' : objListOf data "migrations" = some migs := (popObjList_ok_iff _ _ _ _).1 hmigs
  have hp' : objListOf data "pulses" = some pulses := (popObjList_ok_iff _ _ _ _).1 hp
  simp only [objOf, some_obind, (popObject_ok_iff _ _ _).1 hdef, (popObject_ok_iff _ _ _).1 hDD,
    (popObject_ok_iff _ _ _).1 hMD, (popObject_ok_iff _ _ _).1 hPD, (popObject_ok_iff _ _ _).1 hGE, hh,
    hdl', hfd, hm', hms, hp', hpus, pure]
  simp only [a6, a7, List.nil_append, sortPulses_eq_sortDescStable]

end Demes.Proofs.Accepts
