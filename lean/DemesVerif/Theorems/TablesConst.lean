import DemesVerif.Generated.Const
import DemesVerif.Model.Num
namespace Demes.Tables
open Demes

theorem tables_rel_tol : mkRat Generated.relTolNum Generated.relTolDen = relTol := by decide +kernel
theorem tables_abs_tol : mkRat Generated.absTolNum Generated.absTolDen = absTol := by decide +kernel

end Demes.Tables
