/-
  Views and graph-to-graph operations of demes/demes.py:
  `Deme.size_at`, `Graph.predecessors/successors/discrete_demographic_events`,
  `Graph.in_generations`, `Graph.rename_demes`.
-/
import DemesVerif.Model.Matrices
namespace Demes

/-! ### `Deme.size_at` -/

/-- result of `size_at`: an exact rational, or the symbolic exponential
`n0 * exp(log(n1/n0) * dt)` (never evaluated in Lean), or the NaN the float formula
produces for an infinitely long non-constant-function epoch. -/
inductive SizeResult where
  | exact (q : Q)
  | expo (n0 n1 dt : Q)
  | nan
  | indexError
  deriving DecidableEq, Repr

/-- `math.isclose(time, end_time)` with the default tolerances (rel 1e-9, abs 0) -/
def closeDefault (a b : Q) : Bool := iscloseQ a b relTol 0

def sizeAt (d : Deme) (t : ETime) : SizeResult :=
  if t.isInf && d.startTime.isInf then
    match d.epochs.head? with
    | some e => .exact e.startSize
    | none => .indexError
  else
    match d.epochs.find? (fun e => decide (t < e.startTime) && decide (ETime.fin e.endTime ≤ t)) with
    | none => .exact 0
    | some e =>
      match t with
      | .inf => .exact 0   -- unreachable: no epoch contains ∞
      | .fin tq =>
        if closeDefault tq e.endTime || e.sizeFunction = "constant" || e.startSize = e.endSize then
          .exact e.endSize
        else match e.startTime with
          | .inf => if e.sizeFunction = "exponential" || e.sizeFunction = "linear" then .nan else .indexError
          | .fin s =>
            let dt := (s - tq) / (s - e.endTime)
            if e.sizeFunction = "exponential" then .expo e.startSize e.endSize dt
            else if e.sizeFunction = "linear" then .exact (e.startSize + (e.endSize - e.startSize) * dt)
            else .indexError

/-! ### predecessors / successors -/

abbrev NameMap := List (String × List String)

def NameMap.setDefault (m : NameMap) (k : String) : NameMap :=
  if m.any (fun kv => kv.1 = k) then m else m ++ [(k, [])]

def NameMap.append (m : NameMap) (k v : String) : NameMap :=
  m.map (fun kv => if kv.1 = k then (kv.1, kv.2 ++ [v]) else kv)

def predecessors (g : Graph) : NameMap :=
  g.demes.foldl (fun pred d =>
    d.ancestors.foldl (fun p a => p.append d.name a) (pred.setDefault d.name)) []

def successors (g : Graph) : NameMap :=
  g.demes.foldl (fun succ d =>
    d.ancestors.foldl (fun s a => (s.setDefault a).append a d.name) (succ.setDefault d.name)) []

/-! ### discrete demographic events -/

structure SplitEv where
  parent : String
  children : List String      -- a Python `set`: order not meaningful
  time : Q
  deriving DecidableEq, Repr

structure BranchEv where
  parent : String
  child : String
  time : ETime
  deriving DecidableEq, Repr

structure MergeEv where
  parents : List String
  proportions : List Q
  child : String
  time : ETime
  deriving DecidableEq, Repr

structure Events where
  pulses : List Pulse
  splits : List SplitEv
  branches : List BranchEv
  mergers : List MergeEv
  admixtures : List MergeEv
  deriving Repr

/-- `Graph.discrete_demographic_events()`; demes are looked up through the name index
(`self[c]`) exactly as the implementation does.  `none` = the lookup raised `KeyError`. -/
def discreteEvents (g : Graph) : Option Events := do
  let init : Events × NameMap := ({ pulses := g.pulses, splits := [], branches := [], mergers := [], admixtures := [] }, [])
  let (ev, splitsToAdd) ← (predecessors g).foldlM (fun (acc : Events × NameMap) (cp : String × List String) => do
    let (ev, sp) := acc
    let (c, p) := cp
    match p with
    | [] => pure (ev, sp)
    | [p0] =>
      let cd ← g.deme? c
      let pd ← g.deme? p0
      if cd.startTime = ETime.fin pd.endTime then
        pure (ev, (sp.setDefault p0).append p0 c)
      else
        pure ({ ev with branches := ev.branches ++ [{ parent := p0, child := c, time := cd.startTime }] }, sp)
    | _ =>
      let cd ← g.deme? c
      let ends ← p.mapM (fun a => (g.deme? a).map (fun d => ETime.fin d.endTime))
      let aligned := ends.all (fun e => cd.startTime = e)
      let e : MergeEv := { parents := cd.ancestors, proportions := cd.proportions, child := c, time := cd.startTime }
      if aligned then pure ({ ev with mergers := ev.mergers ++ [e] }, sp)
      else pure ({ ev with admixtures := ev.admixtures ++ [e] }, sp)) init
  let splits ← splitsToAdd.mapM (fun (kv : String × List String) => do
    let pd ← g.deme? kv.1
    pure ({ parent := kv.1, children := kv.2, time := pd.endTime } : SplitEv))
  pure { ev with splits := splits }

/-! ### in_generations -/

def Epoch.scale (gt : Q) (e : Epoch) : Epoch :=
  { e with startTime := e.startTime.div gt, endTime := e.endTime / gt }

def Deme.scale (gt : Q) (d : Deme) : Deme :=
  { d with startTime := d.startTime.div gt, epochs := d.epochs.map (Epoch.scale gt) }

def Migration.scale (gt : Q) (m : Migration) : Migration :=
  { m with startTime := m.startTime.div gt, endTime := m.endTime / gt }

def Pulse.scale (gt : Q) (p : Pulse) : Pulse := { p with time := p.time / gt }

/-- `Graph.in_generations()` -/
def inGenerations (g : Graph) : Graph :=
  { g with
    demes := g.demes.map (Deme.scale g.generationTime)
    migrations := g.migrations.map (Migration.scale g.generationTime)
    pulses := g.pulses.map (Pulse.scale g.generationTime)
    timeUnits := "generations"
    generationTime := 1 }

/-! ### rename_demes -/

abbrev Renaming := List (String × String)

def Renaming.get? (r : Renaming) (k : String) : Option String := (r.find? (fun kv => kv.1 = k)).map (·.2)
def Renaming.apply (r : Renaming) (k : String) : String := (r.get? k).getD k

/-- `graph._deme_map = {deme.name: deme for deme in graph.demes}`: a dict comprehension —
a repeated name keeps its first position in the key order and the last deme as value -/
def rebuildIndex (demes : List Deme) : List (String × Nat) :=
  (demes.zipIdx).foldl (fun idx (di : Deme × Nat) =>
    if idx.any (fun kv => kv.1 = di.1.name) then
      idx.map (fun kv => if kv.1 = di.1.name then (kv.1, di.2) else kv)
    else idx ++ [(di.1.name, di.2)]) []

/-- `Graph.rename_demes(names)` -/
def renameDemes (g : Graph) (r : Renaming) : Graph :=
  let demes := g.demes.map (fun d => { d with name := r.apply d.name, ancestors := d.ancestors.map r.apply })
  { g with
    demes := demes
    migrations := g.migrations.map (fun m => { m with source := r.apply m.source, dest := r.apply m.dest })
    pulses := g.pulses.map (fun p => { p with sources := p.sources.map r.apply, dest := r.apply p.dest })
    index := rebuildIndex demes }

/-- the checks at the end of `rename_demes` (added by the repair of defect F23): every resulting
name is a valid identifier, and `len(graph._deme_map) == len(graph.demes)`, i.e. the resulting names
are pairwise distinct.  (New names that are not strings cannot be expressed in a `Renaming`; the
implementation raises `TypeError` for them.) -/
def renameNamesOk (g : Graph) (r : Renaming) : Bool :=
  let names := g.demes.map (fun d => r.apply d.name)
  names.all isIdentifier && decide names.Nodup

/-- `Graph.rename_demes(names)` with its validation: the renamed graph, or `ValueError` -/
def renameDemesChecked (g : Graph) (r : Renaming) : Except Err Graph :=
  if renameNamesOk g r then pure (renameDemes g r)
  else valueErr "invalid or colliding deme names after renaming"

end Demes
