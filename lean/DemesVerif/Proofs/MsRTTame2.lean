/-
  C09, first sentence — the command `to_ms` prints for a valid ms-expressible graph of constant
  sizes with tame pulses lies in the fragment `C08.Tame'` (`tame_finalEvs`).

  * `groupOps` only looks at the `-es` / `-ej` options, and on the options the walk over
    `sorted(reversed(pulses) + demes)` emits for the elements of one time it is the graph-level
    list of moves `dpMoves`;
  * `dpMoves` of the elements of one time satisfies `noSourceAfterTarget` (validity + `PulsesTame`);
  * induction over the time groups, as for the moves of C07 (`ToMs.movesOf_groups`).
-/
import DemesVerif.Proofs.MsRTTame
set_option linter.unusedSimpArgs false
set_option linter.unusedVariables false
namespace Demes.Proofs.MsRT
open Demes Demes.Ms Demes.Spec Demes.Spec.C07 Demes.Spec.C09
open Demes.Spec.MsSem (Cmd Parsed isMove)
open Demes.Spec.C08 (groupOps groupOpsAux flushOp noSourceAfterTarget GoodGroup goodGroups Tame' isSplitC cmdGroups)
open Demes.Proofs.ToMs

/-! ### `groupOps` reads the `-es` / `-ej` options only -/

theorem groupOpsAux_skip {c : Cmd} (h : isMove c = false) (n : Nat) (pend : Option (Nat × Q)) (tl : List Cmd) :
    groupOpsAux n pend (c :: tl) = groupOpsAux n pend tl := by
  cases c <;> simp [isMove] at h <;> simp only [groupOpsAux]

theorem groupOpsAux_cons_congr (c : Cmd) {tl1 tl2 : List Cmd}
    (h : ∀ n pend, groupOpsAux n pend tl1 = groupOpsAux n pend tl2) (n : Nat) (pend : Option (Nat × Q)) :
    groupOpsAux n pend (c :: tl1) = groupOpsAux n pend (c :: tl2) := by
  cases c with
  | split t i p => simp only [groupOpsAux, h]
  | join t a k =>
    cases pend with
    | none => simp only [groupOpsAux, h]
    | some iq => obtain ⟨i, q⟩ := iq; simp only [groupOpsAux, h]
  | _ => simp only [groupOpsAux, h]

theorem isMove_cmdOfG_of_not_sj {e : Event Growth} (h : isSplitJoin e = false) : isMove (cmdOfG e) = false := by
  cases e with
  | popSizeChange o t i x => cases x <;> rfl
  | migEntryChange o t i j x => cases x <;> rfl
  | split => cases h
  | join => cases h
  | _ => rfl

theorem groupOpsAux_filter : ∀ (l : List (Event Growth)) (n : Nat) (pend : Option (Nat × Q)),
    groupOpsAux n pend (l.map cmdOfG) = groupOpsAux n pend ((l.filter isSplitJoin).map cmdOfG)
  | [], _, _ => rfl
  | e :: l, n, pend => by
    cases hsj : isSplitJoin e with
    | false =>
      simp only [List.map_cons, List.filter_cons, hsj, Bool.false_eq_true, if_false]
      rw [groupOpsAux_skip (isMove_cmdOfG_of_not_sj hsj)]
      exact groupOpsAux_filter l n pend
    | true =>
      simp only [List.map_cons, List.filter_cons, hsj, if_true]
      exact groupOpsAux_cons_congr _ (fun n' pend' => groupOpsAux_filter l n' pend') n pend

/-! ### the moves of the elements of one time, at graph level -/

/-- the moves of a deme born at the time: to each ancestor, from the deme -/
def demeMoves (g : Graph) (d : Deme) : List (String × Nat) → List (Nat × Nat × Q)
  | [] => []
  | (a, k) :: r =>
    ((idOf g d.name).toNat, (idOf g a).toNat,
      if k = d.ancestors.length - 1 then 1 else 1 - (1 - tailProp d k)) :: demeMoves g d r

/-- the move of a pulse: from the destination to the source -/
def pulseMove (g : Graph) (p : Pulse) : Nat × Nat × Q :=
  ((idOf g p.dest).toNat, (idOf g (p.sources.headD "")).toNat, 1 - (1 - p.proportions.headD 0))

def dpMoves (g : Graph) : List DemeOrPulse → List (Nat × Nat × Q)
  | [] => []
  | .deme d :: r => demeMoves g d d.ancestors.zipIdx ++ dpMoves g r
  | .pulse p :: r => pulseMove g p :: dpMoves g r

theorem cmdOfG_scale_split (N0 : Q) (o : String) (t : Num) (i : Int) (y : Q) :
    ∃ t', cmdOfG (scaleEv N0 (.split o t i (.fin y))) = .split t' i.toNat y := ⟨_, rfl⟩

theorem cmdOfG_scale_join (N0 : Q) (o : String) (t : Num) (i j : Int) :
    ∃ t', cmdOfG (scaleEv N0 (.join o t i j)) = .join t' i.toNat j.toNat := ⟨_, rfl⟩

theorem groupOps_ancDemeEvs (g : Graph) (d : Deme) (N0 : Q) :
    ∀ (aks : List (String × Nat)) (n : Nat) (rest : List Cmd),
      groupOpsAux n none (((ancDemeEvs g d n aks).map (scaleEv N0)).map cmdOfG ++ rest)
        = demeMoves g d aks ++ groupOpsAux (ancDemeCount d n aks) none rest
  | [], n, rest => rfl
  | (a, k) :: r, n, rest => by
    by_cases hl : k = d.ancestors.length - 1
    · simp only [ancDemeEvs, ancDemeCount, demeMoves, hl, if_true, List.map_cons, List.cons_append]
      obtain ⟨t', ht'⟩ := cmdOfG_scale_join N0 "" (Num.ofETime d.startTime) (idOf g d.name) (idOf g a)
      rw [ht']
      simp only [groupOpsAux]
      rw [groupOps_ancDemeEvs g d N0 r n rest]
    · simp only [ancDemeEvs, ancDemeCount, demeMoves, hl, if_false, List.map_cons, List.cons_append]
      obtain ⟨t1, ht1⟩ := cmdOfG_scale_split N0 "" (Num.ofETime d.startTime) (idOf g d.name) (1 - tailProp d k)
      obtain ⟨t2, ht2⟩ := cmdOfG_scale_join N0 "" (Num.ofETime d.startTime) ((n + 1 : Nat) : Int) (idOf g a)
      rw [ht1, ht2]
      have hn : ((n + 1 : Nat) : Int).toNat = n + 1 := by omega
      simp only [groupOpsAux, flushOp, List.nil_append, hn, if_true]
      rw [groupOps_ancDemeEvs g d N0 r (n + 1) rest]

theorem groupOps_ancEvs (g : Graph) (N0 : Q) : ∀ (xs : List DemeOrPulse) (n : Nat),
    groupOpsAux n none (((ancEvs g n xs).map (scaleEv N0)).map cmdOfG) = dpMoves g xs
  | [], n => rfl
  | .deme d :: r, n => by
    rw [ancEvs, List.map_append, List.map_append, groupOps_ancDemeEvs, dpMoves, groupOps_ancEvs g N0 r]
  | .pulse p :: r, n => by
    simp only [ancEvs, pulseEvs, List.cons_append, List.nil_append, List.map_cons, dpMoves, pulseMove]
    obtain ⟨t1, ht1⟩ := cmdOfG_scale_split N0 "" (.fin p.time) (idOf g p.dest) (1 - p.proportions.headD 0)
    obtain ⟨t2, ht2⟩ := cmdOfG_scale_join N0 "" (.fin p.time) ((n + 1 : Nat) : Int) (idOf g (p.sources.headD ""))
    rw [ht1, ht2]
    have hn : ((n + 1 : Nat) : Int).toNat = n + 1 := by omega
    simp only [groupOpsAux, flushOp, List.nil_append, hn, if_true]
    rw [groupOps_ancEvs g N0 r (n + 1)]

/-! ### `noSourceAfterTarget` as a pairwise statement -/

theorem nsat_iff : ∀ (l : List (Nat × Nat × Q)),
    noSourceAfterTarget l = true ↔ l.Pairwise (fun o o' => o.2.1 ≠ o'.1)
  | [] => by simp [noSourceAfterTarget]
  | o :: r => by
    simp only [noSourceAfterTarget, Bool.and_eq_true, List.all_eq_true, decide_eq_true_eq, List.pairwise_cons,
      nsat_iff r]

/-! ### the members of `dpMoves` -/

theorem toNat_idOf_inj {g : Graph} {a b : String} (ha : (g.demeId? a).isSome = true) (hb : (g.demeId? b).isSome = true)
    (h : (idOf g a).toNat = (idOf g b).toNat) : a = b := by
  have h1 := idOf_pos g a
  have h2 := idOf_pos g b
  exact idOf_inj ha hb (by omega)

theorem mem_demeMoves {g : Graph} {d : Deme} {o : Nat × Nat × Q} : ∀ (aks : List (String × Nat)),
    o ∈ demeMoves g d aks → o.1 = (idOf g d.name).toNat ∧ ∃ ak ∈ aks, o.2.1 = (idOf g ak.1).toNat
  | [], h => by simp [demeMoves] at h
  | (a, k) :: r, h => by
    simp only [demeMoves, List.mem_cons] at h
    rcases h with rfl | h
    · exact ⟨rfl, (a, k), List.mem_cons_self, rfl⟩
    · obtain ⟨h1, ak, hak, h2⟩ := mem_demeMoves r h
      exact ⟨h1, ak, List.mem_cons_of_mem _ hak, h2⟩

theorem dpMoves_append (g : Graph) : ∀ (xs ys : List DemeOrPulse), dpMoves g (xs ++ ys) = dpMoves g xs ++ dpMoves g ys
  | [], _ => rfl
  | .deme d :: r, ys => by simp only [List.cons_append, dpMoves, dpMoves_append g r ys, List.append_assoc]
  | .pulse p :: r, ys => by simp only [List.cons_append, dpMoves, dpMoves_append g r ys]

theorem dpMoves_pulses (g : Graph) : ∀ (ps : List Pulse), dpMoves g (ps.map DemeOrPulse.pulse) = ps.map (pulseMove g)
  | [] => rfl
  | p :: ps => by simp only [List.map_cons, dpMoves, dpMoves_pulses g ps]

theorem mem_dpMoves_demes {g : Graph} {o : Nat × Nat × Q} : ∀ (ds : List Deme),
    o ∈ dpMoves g (ds.map DemeOrPulse.deme) → ∃ d ∈ ds, o ∈ demeMoves g d d.ancestors.zipIdx
  | [], h => by simp [dpMoves] at h
  | d :: ds, h => by
    simp only [List.map_cons, dpMoves, List.mem_append] at h
    rcases h with h | h
    · exact ⟨d, List.mem_cons_self, h⟩
    · obtain ⟨d', hd', h'⟩ := mem_dpMoves_demes ds h
      exact ⟨d', List.mem_cons_of_mem _ hd', h'⟩

/-! ### the moves of one time never leave a population that has received lineages -/

section
variable {g : Graph} (c : Clauses g) (hx : MsExpressible g = true)
include c hx

omit hx in
/-- the source of a move of a deme born at `T` is that deme; its target is an ancestor, which starts
strictly earlier -/
theorem demeMove_facts {T : Q} {d : Deme} (hd : d ∈ g.demes) (hst : d.startTime = ETime.fin T) {o : Nat × Nat × Q}
    (ho : o ∈ demeMoves g d d.ancestors.zipIdx) :
    o.1 = (idOf g d.name).toNat ∧ ∃ a anc, o.2.1 = (idOf g a).toNat ∧ (g.demeId? a).isSome = true
      ∧ findDeme g a = some anc ∧ ETime.fin T < anc.startTime := by
  obtain ⟨h1, ak, hak, h2⟩ := mem_demeMoves _ ho
  obtain ⟨anc, hanc, hlt, _⟩ := ancestor_facts c hd (mem_zipIdx_anc hak).1
  rw [hst] at hlt
  exact ⟨h1, ak.1, anc, h2, demeId_isSome_of_findDeme c hanc, hanc, hlt⟩

theorem nsat_dpMoves (hpt : PulsesTame g = true) (T : Q) : noSourceAfterTarget (dpMoves g (dpsEq g T)) = true := by
  rw [nsat_iff, dpsEq_eq, dpMoves_append, dpMoves_pulses, List.pairwise_append]
  simp only [PulsesTame, Bool.and_eq_true] at hpt
  have hpw := (pairwiseB_iff _ _).1 hpt.2
  refine ⟨?_, ?_, ?_⟩
  · -- two pulses of the time: the one listed later in the graph is printed first
    rw [List.pairwise_map, List.pairwise_reverse]
    refine (hpw.filter _).imp_of_mem ?_
    intro a b ha hb hab
    obtain ⟨ham, hat⟩ := List.mem_filter.1 ha
    obtain ⟨hbm, hbt⟩ := List.mem_filter.1 hb
    simp only [decide_eq_true_eq] at hat hbt
    obtain ⟨s, hs, hsid⟩ := (pulseOk_of_valid c hx hbm).src
    have hda := (pulseOk_of_valid c hx ham).dest
    simp only [hat, hbt, beq_self_eq_true, Bool.not_true, Bool.false_or, Bool.not_eq_true', hs] at hab
    simp only [pulseMove, hs, List.headD_cons]
    intro heq
    have : s = a.dest := toNat_idOf_inj hsid hda heq
    rw [this] at hab
    simp at hab
  · -- two moves of demes born at the time: an ancestor starts strictly earlier
    rw [List.pairwise_iff_forall_sublist]
    intro o o' hsub
    have ho := hsub.subset List.mem_cons_self
    have ho' := hsub.subset (List.mem_cons_of_mem _ List.mem_cons_self)
    obtain ⟨d, hd, hod⟩ := mem_dpMoves_demes _ ho
    obtain ⟨d', hd', hod'⟩ := mem_dpMoves_demes _ ho'
    obtain ⟨hdm, hdt⟩ := List.mem_filter.1 hd
    obtain ⟨hdm', hdt'⟩ := List.mem_filter.1 hd'
    simp only [decide_eq_true_eq] at hdt hdt'
    obtain ⟨_, a, anc, h2, haid, hanc, hlt⟩ := demeMove_facts c hdm hdt hod
    obtain ⟨h1', _⟩ := demeMove_facts c hdm' hdt' hod'
    intro heq
    rw [h2, h1'] at heq
    have : a = d'.name := toNat_idOf_inj haid (demeId_isSome_of_mem c hdm') heq
    rw [this, findDeme_of_mem c hdm'] at hanc
    cases hanc
    rw [hdt'] at hlt
    exact et_lt_irrefl' hlt (et_le_refl _)
  · -- a pulse, then a deme born at the time: the source of a pulse does not start at the pulse's time
    intro o ho o' ho'
    obtain ⟨p, hp, rfl⟩ := List.mem_map.1 ho
    obtain ⟨hpm, hpt'⟩ := List.mem_filter.1 (List.mem_reverse.1 hp)
    simp only [decide_eq_true_eq] at hpt'
    obtain ⟨d', hd', hod'⟩ := mem_dpMoves_demes _ ho'
    obtain ⟨hdm', hdt'⟩ := List.mem_filter.1 hd'
    simp only [decide_eq_true_eq] at hdt'
    obtain ⟨h1', _⟩ := demeMove_facts c hdm' hdt' hod'
    obtain ⟨s, hs, hsid⟩ := (pulseOk_of_valid c hx hpm).src
    obtain ⟨dd, _, _, _, _, hsrc⟩ := pulse_facts c hpm
    obtain ⟨sd, hsd, _, _, hne, _, _⟩ := hsrc s (by rw [hs]; simp)
    simp only [pulseMove, hs, List.headD_cons]
    intro heq
    rw [h1'] at heq
    have : s = d'.name := toNat_idOf_inj hsid (demeId_isSome_of_mem c hdm') heq
    rw [this, findDeme_of_mem c hdm'] at hsd
    cases hsd
    rw [hdt', hpt'] at hne
    exact hne rfl

end

/-! ### every `-es` keeps a positive fraction -/

/-- the fraction of an `-es` option is positive -/
def SplitPos : Event Growth → Prop
  | .split _ _ _ (.fin y) => 0 < y
  | _ => True

theorem splitPos_scale (N0 : Q) {e : Event Growth} (h : SplitPos e) : SplitPos (scaleEv N0 e) := by
  cases e with
  | split o t i p => cases p <;> exact h
  | _ => trivial

theorem sumFrom_gt {ps : List Q} (hp : ∀ x ∈ ps, 0 < x) {k : Nat} (hk : k + 1 < ps.length) :
    ps.getD k 0 < sumFrom ps k := by
  have hk0 : k < ps.length := by omega
  have h1 : ps.drop k = ps[k] :: ps[k + 1] :: ps.drop (k + 2) := by
    rw [List.drop_eq_getElem_cons hk0, List.drop_eq_getElem_cons hk]
  have hg : ps.getD k 0 = ps[k] := by simp [List.getD, List.getElem?_eq_getElem hk0]
  have ha : 0 < ps[k + 1] := hp _ (List.getElem_mem _)
  have := foldl_add_ge (ps.drop (k + 2)) (0 + ps[k] + ps[k + 1]) (fun x hx => hp x (List.mem_of_mem_drop hx))
  unfold sumFrom
  rw [h1, hg]
  simp only [List.foldl_cons]
  grind

theorem tailProp_lt_one {d : Deme} (hpos : ∀ p ∈ d.proportions, 0 < p) {k : Nat} (hk : k + 1 < d.proportions.length) :
    0 < 1 - tailProp d k := by
  have hlt := sumFrom_gt hpos hk
  have hk0 : k < d.proportions.length := by omega
  have hg : d.proportions.getD k 0 = d.proportions[k] := by simp [List.getD, List.getElem?_eq_getElem hk0]
  have hp : 0 < d.proportions[k] := hpos _ (List.getElem_mem _)
  have hc : 0 < sumFrom d.proportions k := by grind
  have h1 : tailProp d k < 1 := by
    have := (InGen.div_lt_div (a := d.proportions.getD k 0) hc).2 hlt
    rwa [div_self_pos hc] at this
  grind

theorem split_mem_ancDemeEvs {g : Graph} {d : Deme} {o : String} {t : Num} {i : Int} {p : Num} :
    ∀ (aks : List (String × Nat)) (n : Nat), Event.split o t i p ∈ ancDemeEvs g d n aks →
      ∃ ak ∈ aks, ak.2 ≠ d.ancestors.length - 1 ∧ p = .fin (1 - tailProp d ak.2)
  | [], _, h => by simp [ancDemeEvs] at h
  | (a, k) :: r, n, h => by
    simp only [ancDemeEvs] at h
    split at h
    · rcases List.mem_cons.1 h with h | h
      · cases h
      · obtain ⟨ak, hak, h'⟩ := split_mem_ancDemeEvs r n h
        exact ⟨ak, List.mem_cons_of_mem _ hak, h'⟩
    · rename_i hl
      rcases List.mem_cons.1 h with h | h
      · cases h; exact ⟨(a, k), List.mem_cons_self, hl, rfl⟩
      · rcases List.mem_cons.1 h with h | h
        · cases h
        · obtain ⟨ak, hak, h'⟩ := split_mem_ancDemeEvs r (n + 1) h
          exact ⟨ak, List.mem_cons_of_mem _ hak, h'⟩

theorem splitPos_rawEvs {g : Graph} (c : Clauses g) (hx : MsExpressible g = true) (hpt : PulsesTame g = true)
    {N0 : Q} {ev : Event Growth} (h : ev ∈ rawEvs g N0) : SplitPos ev := by
  cases ev with
  | split o t i p =>
    cases p with
    | fin y =>
      show 0 < y
      simp only [rawEvs, List.mem_append] at h
      rcases h with (h | h) | h
      · obtain ⟨_, _, _, _, h'⟩ := mem_sizeEvsAll h
        rcases h' with h' | h' <;> cases h'
      · rcases mem_ancEvs _ _ h with ⟨d, n', hd, h'⟩ | ⟨p, n', hp, h'⟩
        · have hdo := demeAncOk_of_valid c (mem_dps_deme hd)
          obtain ⟨ak, hak, hne, hp⟩ := split_mem_ancDemeEvs _ _ h'
          have hlt := (mem_zipIdx_anc hak).2
          cases hp
          exact tailProp_lt_one hdo.pos (by rw [hdo.len]; omega)
        · have hpm := mem_dps_pulse hp
          obtain ⟨p0, hp0, _, _⟩ := (pulseOk_of_valid c hx hpm).prop
          simp only [PulsesTame, Bool.and_eq_true, List.all_eq_true, decide_eq_true_eq] at hpt
          have hlt : p0 < 1 := hpt.1 p hpm p0 (List.mem_of_mem_head? hp0)
          have hhd : p.proportions.headD 0 = p0 := by
            cases hpp : p.proportions with
            | nil => simp [hpp] at hp0
            | cons x xs => simp [hpp] at hp0 ⊢; exact hp0
          simp only [pulseEvs, List.mem_cons, List.not_mem_nil, or_false] at h'
          rcases h' with h' | h'
          · cases h'
            rw [hhd]; grind
          · cases h'
      · have := migKind_migEvs h
        cases this
    | _ => trivial
  | _ => trivial

/-- what `GoodGroup` asks of each option -/
theorem cmdTame {e : Event Growth} (h : EvRT e) (hs : SplitPos e) :
    (match cmdOfG e with
      | .split _ _ p => decide (0 < p) && decide (p ≤ 1)
      | _ => true) = true ∧ (isMove (cmdOfG e) = true → 0 < (cmdOfG e).t) := by
  cases e with
  | popSizeChange o t i x => obtain ⟨_, _, q, y, rfl, _, rfl, _⟩ := h; exact ⟨rfl, fun h => by cases h⟩
  | migEntryChange o t i j x => obtain ⟨_, _, _, q, y, rfl, _, rfl, _⟩ := h; exact ⟨rfl, fun h => by cases h⟩
  | split o t i p =>
    obtain ⟨_, _, q, y, rfl, hq, rfl, _, hy1⟩ := h
    have hy0 : 0 < y := hs
    refine ⟨?_, fun _ => hq⟩
    simp only [cmdOfG, Bool.and_eq_true, decide_eq_true_eq]
    exact ⟨hy0, hy1⟩
  | join o t i j => obtain ⟨_, _, _, q, rfl, hq⟩ := h; exact ⟨rfl, fun _ => hq⟩
  | growthRateChange => exact h.elim
  | popGrowthRateChange => exact h.elim
  | sizeChange => exact h.elim
  | migRateChange => exact h.elim
  | migMatrixChange => exact h.elim

theorem isSplitC_cmdOfG (e : Event Growth) : isSplitC (cmdOfG e) = isSplitFin e := by
  cases e with
  | popSizeChange o t i x => cases x <;> rfl
  | migEntryChange o t i j x => cases x <;> rfl
  | split o t i p => cases p <;> rfl
  | _ => rfl

theorem count_splitC (l : List (Event Growth)) :
    ((l.map cmdOfG).filter isSplitC).length = (l.filter isSplitFin).length := by
  rw [List.filter_map, List.length_map]
  congr 1
  apply List.filter_congr
  intro x _
  exact isSplitC_cmdOfG x

/-! ### every time group is good -/

section
variable {g : Graph} (c : Clauses g) (hx : MsExpressible g = true) (hcs : ConstSizes g = true)
  (hpt : PulsesTame g = true) {N0 : Q} (hN : 0 < N0)
include c hx hcs hpt hN

theorem cmdTame_finalEvs {e : Event Growth} (he : e ∈ finalEvs g N0) :
    (match cmdOfG e with
      | .split _ _ p => decide (0 < p) && decide (p ≤ 1)
      | _ => true) = true ∧ (isMove (cmdOfG e) = true → 0 < (cmdOfG e).t) := by
  refine cmdTame (evRT_finalEvs c hx hcs hN e he) ?_
  obtain ⟨e', he', rfl⟩ := List.mem_map.1 he
  exact splitPos_scale N0 (splitPos_rawEvs c hx hpt ((mem_sortBy _).1 he'))

/-- one time group of the command, read after the options `pre` -/
theorem goodGroup_group {pre grp post : List (Event Growth)} (hF : finalEvs g N0 = pre ++ grp ++ post)
    (hne : grp ≠ []) (hsame : ∀ a ∈ grp, ∀ b ∈ grp, evT a = evT b)
    (hpre : ∀ a ∈ pre, ∀ b ∈ grp, evT a < evT b) (hpost : ∀ a ∈ grp, ∀ b ∈ post, evT a < evT b) :
    GoodGroup (g.demes.length + ((pre.map cmdOfG).filter isSplitC).length) (grp.map cmdOfG) = true := by
  obtain ⟨h0, tl, rfl⟩ : ∃ h0 tl, grp = h0 :: tl := by
    cases grp with
    | nil => exact absurd rfl hne
    | cons h0 tl => exact ⟨h0, tl, rfl⟩
  have hT : timeOf N0 (h0 :: tl) / (4 * N0) = evT h0 := by
    simp only [timeOf, List.head?_cons, Option.map_some, Option.getD_some]
    exact mul_div_cancel_left4 hN _
  have b1 : ∀ a ∈ pre, evT a < timeOf N0 (h0 :: tl) / (4 * N0) := fun a ha => by
    rw [hT]; exact hpre a ha h0 List.mem_cons_self
  have b2 : ∀ a ∈ h0 :: tl, evT a = timeOf N0 (h0 :: tl) / (4 * N0) := fun a ha => by
    rw [hT]; exact hsame a ha h0 List.mem_cons_self
  have b3 : ∀ b ∈ post, timeOf N0 (h0 :: tl) / (4 * N0) < evT b := fun b hb => by
    rw [hT]; exact hpost h0 List.mem_cons_self b hb
  obtain ⟨_, hgrp⟩ := group_parts c hx hN (T := timeOf N0 (h0 :: tl)) hF b1 b2 b3
  have hcount : g.demes.length + ((pre.map cmdOfG).filter isSplitC).length
      = ancCount g.demes.length (dpsLt g (timeOf N0 (h0 :: tl))) := by
    have := count_pre c hx hN (T := timeOf N0 (h0 :: tl)) hF b1 b2 b3
    rw [runP_len] at this
    have hlen : (s0Of N0 g.demes.length).pops.length = g.demes.length := by simp [s0Of]
    rw [hlen] at this
    rw [count_splitC, this]
  have hmem : ∀ e ∈ h0 :: tl, e ∈ finalEvs g N0 := fun e he => by
    rw [hF]; exact List.mem_append_left _ (List.mem_append_right _ he)
  unfold GoodGroup
  simp only [Bool.and_eq_true]
  refine ⟨⟨?_, ?_⟩, ?_⟩
  · rw [hcount]
    unfold groupOps
    rw [groupOpsAux_filter, hgrp, groupOps_ancEvs]
    exact nsat_dpMoves c hx hpt _
  · rw [List.all_eq_true]
    intro cm hcm
    obtain ⟨e, he, rfl⟩ := List.mem_map.1 hcm
    exact (cmdTame_finalEvs c hx hcs hpt hN (hmem e he)).1
  · rw [List.all_eq_true]
    intro cm hcm
    obtain ⟨hcm1, hcm2⟩ := List.mem_filter.1 hcm
    obtain ⟨e, he, rfl⟩ := List.mem_map.1 hcm1
    simp only [decide_eq_true_eq]
    exact (cmdTame_finalEvs c hx hcs hpt hN (hmem e he)).2 hcm2

/-- the time groups `G`, read after the options `pre` -/
theorem goodGroups_groups : ∀ (G : List (List (Event Growth))) (pre : List (Event Growth)),
    finalEvs g N0 = pre ++ G.flatten → GroupsOK G →
    (∀ a ∈ pre, ∀ grp ∈ G, ∀ b ∈ grp, evT a < evT b) →
    goodGroups (g.demes.length + ((pre.map cmdOfG).filter isSplitC).length) (G.map (List.map cmdOfG)) = true
  | [], _, _, _, _ => rfl
  | grp :: rest, pre, hF, hok, hsep => by
    have hinc := List.pairwise_cons.1 hok.inc
    obtain ⟨hne, hsame⟩ := hok.same grp List.mem_cons_self
    have hF' : finalEvs g N0 = pre ++ grp ++ rest.flatten := by rw [hF]; simp
    have hpost : ∀ a ∈ grp, ∀ b ∈ rest.flatten, evT a < evT b := by
      intro a ha b hb
      obtain ⟨g2, hg2, hb2⟩ := List.mem_flatten.1 hb
      exact hinc.1 g2 hg2 a ha b hb2
    have h1 := goodGroup_group c hx hcs hpt hN hF' hne hsame
      (fun a ha b hb => hsep a ha grp List.mem_cons_self b hb) hpost
    have h2 := goodGroups_groups rest (pre ++ grp) (by rw [hF'])
      ⟨hinc.2, fun g2 hg2 => hok.same g2 (List.mem_cons_of_mem _ hg2)⟩ (by
        intro a ha g2 hg2 b hb
        rcases List.mem_append.1 ha with ha | ha
        · exact hsep a ha g2 (List.mem_cons_of_mem _ hg2) b hb
        · exact hinc.1 g2 hg2 a ha b hb)
    simp only [List.map_append, List.filter_append, List.length_append, ← Nat.add_assoc] at h2
    simp only [List.map_cons, goodGroups, Bool.and_eq_true]
    exact ⟨h1, h2⟩

end

/-- the command `to_ms` prints for a valid ms-expressible constant-size graph with tame pulses lies in `Tame'` -/
theorem tame_finalEvs {g : Graph} (c : ToMs.Clauses g) (hx : MsExpressible g = true) (hcs : ConstSizes g = true)
    (hpt : PulsesTame g = true) {N0 : Q} (hN : 0 < N0) (samples : Option (List Int)) :
    Demes.Spec.C08.Tame' (prOf (ToMs.headerOf g samples) (ToMs.finalEvs g N0)) = true := by
  have hn : (prOf (headerOf g samples) (finalEvs g N0)).npop = g.demes.length := by
    show ((headerOf g samples).map (·.1)).getD 1 = g.demes.length
    unfold headerOf
    have := demes_pos c
    by_cases h1 : g.demes.length > 1
    · simp [h1]
    · simp [h1]; omega
  unfold Tame'
  rw [hn, cmdGroups_prOf _ _ (evRT_finalEvs c hx hcs hN) (sorted_finalEvs c hx hN)]
  have := goodGroups_groups c hx hcs hpt hN (groupsByTime (finalEvs g N0)) []
    (by rw [flatten_groupsByTime]; rfl) (groupsOK_groupsByTime _ (sorted_byQ_finalEvs c hx hN))
    (fun a ha => by cases ha)
  simpa using this

/-! ### transport along `inGenerations` -/

theorem constSizes_inGen (g : Graph) : ConstSizes (inGenerations g) = ConstSizes g := by
  simp [ConstSizes, inGenerations, List.all_map, Function.comp_def]
  rfl

theorem pulsesTame_inGen (g : Graph) (hg : 0 < g.generationTime) : PulsesTame (inGenerations g) = PulsesTame g := by
  unfold PulsesTame
  have h1 : (inGenerations g).pulses = g.pulses.map (Pulse.scale g.generationTime) := rfl
  rw [h1, List.all_map, InGen.pairwiseB_map (Pulse.scale g.generationTime)
    (fun a b => !(a.time == b.time) || !(b.sources.contains a.dest))]
  · rfl
  · intro a b
    have : (a.time / g.generationTime == b.time / g.generationTime) = (a.time == b.time) := by
      rw [Bool.eq_iff_iff]
      simp only [beq_iff_eq]
      exact InGen.div_eq_div hg
    simp only [InGen.Pulse.scale_time, InGen.Pulse.scale_sources, InGen.Pulse.scale_dest, this]

theorem pulsesTame_inGen_of_valid {g : Graph} (hv : validGraph g = true) :
    PulsesTame (inGenerations g) = PulsesTame g := by
  have h13 := (clauses_of_valid hv).h13
  simp only [v13, Bool.and_eq_true, decide_eq_true_eq] at h13
  exact pulsesTame_inGen g h13.1.1.2

/-- `tame_finalEvs` for the command of `to_ms graph`: hypotheses on the graph itself -/
theorem tame_toMs {graph : Graph} (hv : validGraph graph = true) (hx : MsExpressible graph = true)
    (hcs : ConstSizes graph = true) (hpt : PulsesTame graph = true) {N0 : Q} (hN : 0 < N0)
    (samples : Option (List Int)) :
    Demes.Spec.C08.Tame' (prOf (headerOf (inGenerations graph) samples) (finalEvs (inGenerations graph) N0)) = true :=
  tame_finalEvs (clauses_of_valid (InGen.inGenerations_valid graph hv)) (by rw [expr_inGen]; exact hx)
    (by rw [constSizes_inGen]; exact hcs) (by rw [pulsesTame_inGen_of_valid hv]; exact hpt) hN samples

/-- `evRT_finalEvs` for the command of `to_ms graph` -/
theorem evRT_toMs {graph : Graph} (hv : validGraph graph = true) (hx : MsExpressible graph = true)
    (hcs : ConstSizes graph = true) {N0 : Q} (hN : 0 < N0) :
    ∀ e ∈ finalEvs (inGenerations graph) N0, EvRT e :=
  evRT_finalEvs (clauses_of_valid (InGen.inGenerations_valid graph hv)) (by rw [expr_inGen]; exact hx)
    (by rw [constSizes_inGen]; exact hcs) hN

#print axioms evRT_finalEvs
#print axioms tame_finalEvs
#print axioms constSizes_inGen
#print axioms pulsesTame_inGen
#print axioms tame_toMs

end Demes.Proofs.MsRT
