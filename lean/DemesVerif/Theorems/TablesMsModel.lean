/-
  The arity table the Model's argparse layer uses (`Ms.arity`) is the one of `build_parser`
  (pinned copy of the regenerated source table; `Theorems/TablesMs.lean` proves the pinned and
  the freshly regenerated tables equal).  Not registered for a property yet (stage 1).
-/
import DemesVerif.Model.Ms
import DemesVerif.Model.Pinned
namespace Demes.Tables
open Demes

def nargsText : Ms.Nargs → String
  | .fixed n => toString n
  | .plus => "'+'"

/-- every option of `build_parser` except `-f` (not modelled) with its `nargs` -/
theorem tables_ms_model_arity :
    ((Pinned.msParser.filter (fun r => r.1 ≠ "-f")).map (fun r => (r.1, r.2.1)))
      = Ms.arity.map (fun a => (a.1, nargsText a.2)) := by decide +kernel

/-- the destination list of every option: initial state vs demographic events -/
theorem tables_ms_model_dest :
    ((Pinned.msParser.filter (fun r => r.2.2.2.1 = "'demographic_events'")).map (·.1))
      = ["-eG", "-eg", "-eN", "-en", "-eM", "-em", "-ema", "-es", "-ej"] ∧
    ((Pinned.msParser.filter (fun r => r.2.2.2.1 = "'initial_state'")).map (·.1))
      = ["-n", "-g", "-G", "-m", "-ma"] := by decide +kernel

end Demes.Tables
