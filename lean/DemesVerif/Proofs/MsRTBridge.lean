/-
  C09, first sentence — the bridge lemma: on a time-sorted command of the growth-free fragment the
  string interpreter `msSem` of the rendered command gives the embedded observable of the typed
  interpreter `msSemG`; the observable is well formed.
-/
import DemesVerif.Proofs.MsRTInv
import DemesVerif.Proofs.MsRTParse
namespace Demes.Proofs.MsRT
open Demes Demes.Ms Demes.Spec Demes.Spec.C07 Demes.Spec.C09
open Demes.Spec.MsSem (Cmd Parsed Pop St Row Mat matGet matSet canonRows Move DemogSem PopSem mkSeg msSem migSegs)
open Demes.Spec.C08 (cmdGroups initSt runState finishSem finalSegs msSem_eq)
open Demes.Proofs.ToMs (s0Of popsObs byQ Sorted foldr_insertEv sortBy_of_sorted flatten_groupsByTime)

/-! ### the two ends of the run -/

theorem map_const_range {β} (n : Nat) (c : β) : (List.range n).map (fun _ => c) = List.replicate n c := by
  rw [List.map_const', List.length_range]

theorem initSt_embed (hdr : Option (Nat × List String)) (evs : List (Event Growth)) (N0 : Q) :
    initSt (prOf hdr evs) N0 = embedSt (s0Of N0 ((hdr.map (·.1)).getD 1)) := by
  have hmat : ∀ n : Nat, (List.range n).map (fun i => (List.range n).map (fun j =>
      if i = j then (0 : Q) else 0 / ((n : Q) - 1) / (4 * N0))) = List.replicate n (List.replicate n 0) := by
    intro n
    have : ∀ i : Nat, (List.range n).map (fun j => if i = j then (0 : Q) else 0 / ((n : Q) - 1) / (4 * N0))
        = List.replicate n 0 := by
      intro i
      rw [← map_const_range]
      apply List.map_congr_left
      intro j _
      split
      · rfl
      · simp
    simp only [this, map_const_range]
  unfold initSt embedSt s0Of prOf
  simp only [List.map_replicate, embedPopG_new, hmat]

theorem getLast?_snoc {α} (l : List α) (a : α) : (l ++ [a]).getLast? = some a := by simp

theorem obs_point (p : PopG) (k : Nat) :
    (if decide (ETime.fin (embedPopG p).lo < (embedPopG p).hi) then
        some ({ id := k + 1, lo := (embedPopG p).lo, hi := (embedPopG p).hi,
                segs := if decide (ETime.fin (embedPopG p).t0 < (embedPopG p).hi) then
                  (embedPopG p).segs ++ [mkSeg (embedPopG p).t0 (embedPopG p).hi (embedPopG p).size0 (embedPopG p).growth]
                  else (embedPopG p).segs } : PopSem)
      else none)
    = (if decide (ETime.fin p.lo < p.hi) then some ({ id := k + 1, lo := p.lo, hi := p.hi, upd := p.upd } : PopSemG)
        else none).map embedPop := by
  have hE : embedPop ⟨k + 1, p.lo, p.hi, p.upd⟩
      = ⟨k + 1, (embedPopG p).lo, (embedPopG p).hi, finalSegs (embedPopG p)⟩ := by
    rw [embedPopG_lo, embedPopG_hi]; rfl
  rw [embedPopG_lo, embedPopG_hi]
  split
  · rw [Option.map_some, hE, embedPopG_lo, embedPopG_hi]
    simp only [finalSegs, embedPopG_hi]
  · rfl

theorem finishSem_embed {T : Q} (s : StG) (hinv : RunInv T s.pops s.mat s.snaps) :
    finishSem (embedSt s) = embedSem { pops := popsObs s.pops, snaps := s.snaps, moves := s.moves } := by
  obtain ⟨pre, t, hlast⟩ := hinv.last
  have hn : ((s.snaps.getLast?.map (·.2.length)).getD 0) = s.pops.length := by
    rw [hlast, getLast?_snoc]; exact hinv.matLen
  unfold finishSem embedSem
  simp only [hn]
  congr 1
  · -- populations
    unfold popsObs embedSt
    simp only [zipIdx_map, List.filterMap_map, List.map_filterMap]
    apply List.filterMap_congr
    intro pk _
    exact obs_point pk.1 pk.2
  · simp [embedSt]

theorem popsObs_mem {pops : List PopG} {p : PopSemG} (h : p ∈ popsObs pops) :
    ∃ q ∈ pops, p.lo = q.lo ∧ p.hi = q.hi ∧ p.upd = q.upd := by
  unfold popsObs at h
  obtain ⟨pk, hpk, hp⟩ := List.mem_filterMap.1 h
  have hq : pk.1 ∈ pops := by
    have := List.mem_zipIdx hpk
    obtain ⟨_, _, h3⟩ := this
    rw [h3]; exact List.getElem_mem _
  obtain ⟨p0, k⟩ := pk
  simp only at hp hq
  split at hp
  · cases hp; exact ⟨p0, hq, rfl, rfl, rfl⟩
  · cases hp

theorem s0_inv (N0 : Q) (n : Nat) : RunInv 0 (s0Of N0 n).pops (s0Of N0 n).mat (s0Of N0 n).snaps := by
  unfold s0Of
  refine ⟨?_, ?_, ?_, ?_, ?_, List.pairwise_singleton _ _, ?_, ⟨[], 0, rfl⟩, by simp, ?_⟩
  · intro p hp; rw [List.eq_of_mem_replicate hp]; exact List.pairwise_singleton _ _
  · intro p hp; rw [List.eq_of_mem_replicate hp]; exact ⟨_, [], rfl, rfl, rfl⟩
  · intro p hp u hu
    rw [List.eq_of_mem_replicate hp] at hu
    simp only [List.mem_singleton] at hu; subst hu; exact Rat.le_refl
  · intro p hp u hu
    rw [List.eq_of_mem_replicate hp]; exact le_inf _
  · intro p hp u hu
    rw [List.eq_of_mem_replicate hp] at hu
    simp only [List.mem_singleton] at hu; subst hu; exact Or.inr rfl
  · intro x hx
    simp only [List.mem_singleton] at hx; subst hx; exact Rat.le_refl
  · intro tm htm
    simp only [List.mem_singleton] at htm; subst htm
    refine ⟨by simp, ?_⟩
    intro row hr
    rw [List.eq_of_mem_replicate hr]; simp

/-! ### the typed interpreter on a sorted command -/

theorem foldr_insertEv_sorted {evs : List (Event Growth)} (hs : evs.Pairwise (fun a b => evT a ≤ evT b)) :
    evs.foldr insertEv [] = evs := by
  rw [foldr_insertEv]
  apply sortBy_of_sorted
  exact hs.imp (fun h => by simpa [byQ] using h)

/-- what a successful `msSemG` computed -/
theorem msSemG_run {hdr : Option (Nat × List String)} {evs : List (Event Growth)} {N0 : Q} {semG : DemogSemG}
    (hs : evs.Pairwise (fun a b => evT a ≤ evT b)) (h : msSemG ⟨hdr, evs⟩ N0 = .ok semG) :
    0 < N0 ∧ ∃ s, (groupsByTime evs).foldlM (stepGroupG N0) (s0Of N0 ((hdr.map (·.1)).getD 1)) = .ok s
      ∧ semG = { pops := popsObs s.pops, snaps := s.snaps, moves := s.moves } := by
  unfold msSemG at h
  by_cases hN : N0 ≤ 0
  · simp [hN, throw, throwThe, MonadExceptOf.throw, bind, Except.bind] at h
  · simp only [hN, if_false, foldr_insertEv_sorted hs, bind, Except.bind, pure, Except.pure] at h
    refine ⟨by grind, ?_⟩
    have h0 : ({ pops := List.replicate ((hdr.map (·.1)).getD 1) { lo := 0, upd := [⟨0, some N0, some .zero⟩] },
                 mat := List.replicate ((hdr.map (·.1)).getD 1) (List.replicate ((hdr.map (·.1)).getD 1) 0),
                 snaps := [(0, List.replicate ((hdr.map (·.1)).getD 1) (List.replicate ((hdr.map (·.1)).getD 1) 0))] } : StG)
        = s0Of N0 ((hdr.map (·.1)).getD 1) := rfl
    rw [h0] at h
    cases hrun : (groupsByTime evs).foldlM (stepGroupG N0) (s0Of N0 ((hdr.map (·.1)).getD 1)) with
    | error err => rw [hrun] at h; cases h
    | ok s =>
      rw [hrun] at h
      cases h
      exact ⟨s, rfl, rfl⟩

/-! ### the bridge -/

/-- **The bridge between the two interpreters.**  For a command (header `hdr`, option records `evs`)
of the growth-free fragment (`EvRT`), sorted by time, whose numbers the codec covers: if the typed
interpreter `msSemG` gives the command a meaning `semG`, then the string interpreter `msSem` gives
the rendered command the meaning `embedSem semG`.  Moreover the observable is well formed: every
population's update list is chronological (`UpdWF`), the matrix snapshots are chronological and no
larger than the last one. -/
theorem msSem_render (c : NumCodec) (sa : Growth → String) (hdr : Option (Nat × List String))
    (evs : List (Event Growth)) (N0 : Q) (semG : DemogSemG)
    (hh : HdrOK hdr) (he : ∀ e ∈ evs, EvRT e) (hs : evs.Pairwise (fun a b => evT a ≤ evT b))
    (hc : CodecCovers c (toksOf hdr evs)) (h : msSemG ⟨hdr, evs⟩ N0 = .ok semG) :
    msSem (renderG c sa (toksOf hdr evs)) N0 = .ok (embedSem semG)
    ∧ (∀ p ∈ semG.pops, UpdWF p)
    ∧ semG.snaps.Pairwise (fun a b => a.1 ≤ b.1)
    ∧ (∀ tm ∈ semG.snaps, tm.2.length ≤ (semG.snaps.getLast?.map (·.2.length)).getD 0
          ∧ ∀ row ∈ tm.2, row.length ≤ (semG.snaps.getLast?.map (·.2.length)).getD 0) := by
  obtain ⟨hN, s, hrun, rfl⟩ := msSemG_run hs h
  have hflat := flatten_groupsByTime evs
  obtain ⟨T, hinv⟩ := groups_inv hN (groupsByTime evs) _ s 0 hrun (by rw [hflat]; exact he) (by rw [hflat]; exact hs)
    (by
      rw [hflat]
      intro e hm
      have h1 := evT_nonneg (he e hm)
      have : (0 : Q) ≤ 4 * N0 := by linarith
      exact mul_nonneg this h1) (s0_inv N0 _)
  obtain ⟨pre, t, hlast⟩ := hinv.last
  have hn : ((s.snaps.getLast?.map (·.2.length)).getD 0) = s.pops.length := by
    rw [hlast, getLast?_snoc]; exact hinv.matLen
  refine ⟨?_, ?_, hinv.chron, ?_⟩
  · rw [msSem_eq]
    have hNle : ¬ N0 ≤ 0 := by linarith
    simp only [hNle, if_false, parse_render c sa hdr evs hh he hc, bind, Except.bind]
    unfold runState
    rw [cmdGroups_prOf hdr evs he hs, initSt_embed,
      groups_embed (groupsByTime evs) _ s (fun grp hg e hm => he e (by
        rw [← hflat]; exact List.mem_flatten.2 ⟨grp, hg, hm⟩)) hrun]
    simp only [pure, Except.pure]
    rw [finishSem_embed s hinv]
  · intro p hp
    obtain ⟨q, hq, h1, h2, h3⟩ := popsObs_mem hp
    refine ⟨by rw [h3]; exact hinv.sorted q hq, ?_, ?_, by rw [h3]; exact hinv.growth q hq⟩
    · obtain ⟨u, r, hu, hlo, hsz⟩ := hinv.head q hq
      exact ⟨u, r, by rw [h3]; exact hu, by rw [h1]; exact hlo, hsz⟩
    · rw [h3, h2]; exact hinv.hi q hq
  · show ∀ tm ∈ s.snaps, _
    rw [hn]
    exact hinv.dims

#print axioms msSem_render

end Demes.Proofs.MsRT
