/-
  C09 §8 — acceptance of the `to_ms` output by `from_ms` for graphs with exponential epochs: shared
  definitions.  The definitions of `Proofs/MsAccDefs.lean` with the option `-g` / `-eg` added to the fragment
  and the exactness of the sizes dropped from the invariant (a size that went through `exp` is the symbolic
  `coef · exp(expo)`; what the validation needs is `coef > 0`).

  `AncWF`, `PulseWF` (ancestry, pulses), `MigWF`, `DocMigsWF` (matrix history, migrations of the document) do
  not mention sizes and are those of `MsAccDefs`.
-/
import DemesVerif.Proofs.MsAccDefs
namespace Demes.Proofs.MsGrow
open Demes Demes.Ms Demes.Spec Demes.Spec.MsSem Demes.Spec.C08 Demes.Proofs.FromMs
open Demes.Proofs.MsAcc (AncWF PulseWF)

/-! ## the commands -/

/-- the options `to_ms` emits, with the signs validity gives them: sizes are positive, growth rates are any
rational, migration entries are not negative, a split keeps a fraction strictly between 0 and 1, and
`-es` / `-ej` happen at positive times -/
def fragCmdV : Cmd → Bool
  | .setSize t i x _ => decide (0 ≤ t) && decide (1 ≤ i) && decide (0 < x)
  | .setGrowth t i _ => decide (0 ≤ t) && decide (1 ≤ i)
  | .setMigEntry t i j m => decide (0 ≤ t) && decide (1 ≤ i) && decide (1 ≤ j) && decide (0 ≤ m)
  | .split t i p => decide (0 < t) && decide (1 ≤ i) && decide (0 < p) && decide (p < 1)
  | .join t i j => decide (0 < t) && decide (1 ≤ i) && decide (1 ≤ j)
  | _ => false

theorem fragCmdV_of {c : Cmd} (h : MsAcc.fragCmd c = true) : fragCmdV c = true := by
  cases c <;> first | exact h | cases h

/-- no size or growth option names a population that is joined in the same time group (the shape of F4:
the joined deme would get an epoch of length zero) -/
def noSizeAtJoinGV (cs : List Cmd) : Bool :=
  cs.all (fun c => match c with
    | .join _ i _ => cs.all (fun d => match d with
        | .setSize _ i' _ _ => i' != i
        | .setGrowth _ i' _ => i' != i
        | _ => true)
    | _ => true)

/-- what the acceptance proof needs of one time group beyond `GoodGroup`: only options of the fragment;
no size / growth change of a population joined in the group; no lineage movement from a population to
itself (`n` populations exist before the group; `groupOps` are the movements `(a, h, q)` of the group) -/
def groupFragV (n : Nat) (cs : List Cmd) : Bool :=
  cs.all fragCmdV && noSizeAtJoinGV cs && (groupOps n cs).all (fun o => o.1 != o.2.1)

/-- every time group satisfies `groupFragV`; `n` populations exist before the first one -/
def groupsFragV : Nat → List (List Cmd) → Bool
  | _, [] => true
  | n, g :: rest => groupFragV n g && groupsFragV (n + (g.filter isSplitC).length) rest

/-! ## the invariant of the event loop -/

/-- sizes and times of the epochs of a Builder deme during the event loop (`epochs[0]` is the open, most
ancient epoch, which carries the growth rate in force; closed epochs carry their `start_size` and no growth
rate); every size is `coef · exp(expo)` with `coef > 0`; `T` is the time of the last group processed -/
structure EpochsWFV (T : Q) (d : BDeme) : Prop where
  ne : d.epochs ≠ []
  sizes : ∀ e ∈ d.epochs, 0 < e.endSize.coef
  closed : ∀ e r, d.epochs = e :: r → ∀ e' ∈ r, e'.growthRate = none ∧
    ∃ z, e'.startSize = some z ∧ 0 < z.coef
  times : (d.epochs.map (·.endTime)).Pairwise (fun a b => b < a)
  last0 : 0 ≤ bEndTime d
  headLe : ∀ e r, d.epochs = e :: r → e.endTime ≤ T

theorem epochsWFV_of {T : Q} {d : BDeme} (h : MsAcc.EpochsWF T d) : EpochsWFV T d where
  ne := h.ne
  sizes := fun e he => (h.sizes e he).2
  closed := fun e r he e' he' => by
    obtain ⟨h1, z, h2, _, h3⟩ := h.closed e r he e' he'
    exact ⟨h1, z, h2, h3⟩
  times := h.times
  last0 := h.last0
  headLe := h.headLe

/-- deme `j` of the state: well-formed epochs; not joined: no start time, no ancestry; joined at `Tj`:
its open epoch ends before `Tj`, or the deme is transient (created and joined at `Tj`), and it has a
well-formed ancestry -/
structure DemeWFV (T : Q) (s : BState) (j : Nat) (d : BDeme) : Prop where
  ep : EpochsWFV T d
  live : s.joined.contains j = false → d.startTime = .inf ∧ d.ancestors = none ∧ d.proportions = none
  dead : s.joined.contains j = true → ∃ Tj, d.startTime = .fin Tj ∧ 0 < Tj ∧ Tj ≤ T ∧
    ((∀ e r, d.epochs = e :: r → e.endTime < Tj) ∨ (∃ e, d.epochs = [e] ∧ e.endTime = Tj)) ∧ AncWF s j Tj d

/-- **the invariant of the event loop** (demes and pulses), sizes symbolic -/
structure AccInvV (T : Q) (s : BState) : Prop where
  nonneg : 0 ≤ T
  len : s.demes.length = s.numDemes
  pos : 1 ≤ s.numDemes
  jlt : ∀ j ∈ s.joined, j < s.numDemes
  demes : ∀ j d, s.demes[j]? = some d → DemeWFV T s j d
  pulses : ∀ p ∈ s.pulses.getD [], PulseWF T s p

theorem accInvV_of {T : Q} {s : BState} (h : MsAcc.AccInv T s) : AccInvV T s where
  nonneg := h.nonneg
  len := h.len
  pos := h.pos
  jlt := h.jlt
  demes := fun (j : Nat) (d : BDeme) hd =>
    { ep := epochsWFV_of (h.demes j d hd).ep, live := (h.demes j d hd).live, dead := (h.demes j d hd).dead }
  pulses := h.pulses

/-- at the end of the event loop no deme without a start time has a growth rate in force ("growth rate for
infinite-length epoch is invalid"): on `to_ms` output the oldest epoch of a deme without ancestors is
constant (V6/V7), so the last `-eg` of its population sets the rate `0` -/
def GrowthClosed (s : BState) : Prop :=
  ∀ (j : Nat) (d : BDeme), s.demes[j]? = some d → d.startTime = .inf → curGrowth d = 0

end Demes.Proofs.MsGrow
