/-
  `Graph.asdict()` and the strict reader of the machine data model.
-/
import DemesVerif.Model.Resolve
namespace Demes

def numV (q : Q) : Value := .num (.fin q)
def timeV (t : ETime) : Value := .num (Num.ofETime t)
def strsV (xs : List String) : Value := .list (xs.map Value.str)
def numsV (xs : List Q) : Value := .list (xs.map numV)

/-! `coerce_types` applied by `attr.asdict` to every leaf, including those of `metadata`:
an `Integral` (Python's `bool` included) becomes an `int`. -/
mutual
def coerceV : Value → Value
  | .bool b => .num (.fin (if b then 1 else 0))
  | .list xs => .list (coerceL xs)
  | .obj kvs => .obj (coerceO kvs)
  | .null => .null
  | .num n => .num n
  | .str s => .str s
def coerceL : List Value → List Value
  | [] => []
  | x :: xs => coerceV x :: coerceL xs
def coerceO : List (String × Value) → List (String × Value)
  | [] => []
  | (k, v) :: r => (k, coerceV v) :: coerceO r
end

def Epoch.asdict (e : Epoch) : Value :=
  .obj [("end_time", numV e.endTime), ("start_size", numV e.startSize),
        ("end_size", numV e.endSize), ("size_function", .str e.sizeFunction),
        ("selfing_rate", numV e.selfingRate), ("cloning_rate", numV e.cloningRate)]

def Deme.asdict (d : Deme) : Value :=
  .obj [("name", .str d.name), ("description", .str d.description),
        ("start_time", timeV d.startTime), ("ancestors", strsV d.ancestors),
        ("proportions", numsV d.proportions), ("epochs", .list (d.epochs.map Epoch.asdict))]

def Migration.asdict (m : Migration) : Value :=
  .obj [("source", .str m.source), ("dest", .str m.dest), ("start_time", timeV m.startTime),
        ("end_time", numV m.endTime), ("rate", numV m.rate)]

def Pulse.asdict (p : Pulse) : Value :=
  .obj [("sources", strsV p.sources), ("dest", .str p.dest), ("time", numV p.time),
        ("proportions", numsV p.proportions)]

/-- `Graph.asdict()` (with `keep_empty_fields=True`) -/
def Graph.asdict (g : Graph) : Value :=
  .obj [("description", .str g.description), ("time_units", .str g.timeUnits),
        ("generation_time", numV g.generationTime), ("doi", strsV g.doi),
        ("metadata", .obj (coerceO g.metadata)),
        ("demes", .list (g.demes.map Deme.asdict)),
        ("migrations", .list (g.migrations.map Migration.asdict)),
        ("pulses", .list (g.pulses.map Pulse.asdict))]

/-! ### strict reader of the fully-resolved form (no defaults, every field present).
Used by the driver to receive graphs produced by the implementation. -/

namespace Read

def field (d : Obj) (k : String) : Except Err Value :=
  match Obj.lookup k d with
  | some v => pure v
  | none => keyErr k

def q (v : Value) : Except Err Q :=
  match v with
  | .num (.fin x) => pure x
  | _ => typeErr "expected a finite number"

def time (v : Value) : Except Err ETime :=
  match v with
  | .num (.fin x) => pure (.fin x)
  | .num .pinf => pure .inf
  | _ => typeErr "expected a time"

def str (v : Value) : Except Err String := instStr v
def strs (v : Value) : Except Err (List String) := do (← instList v).mapM instStr
def qs (v : Value) : Except Err (List Q) := do (← instList v).mapM q

def epoch (start : ETime) (v : Value) : Except Err Epoch := do
  let d ← instObj v
  pure { startTime := start, endTime := ← q (← field d "end_time"),
         startSize := ← q (← field d "start_size"), endSize := ← q (← field d "end_size"),
         sizeFunction := ← str (← field d "size_function"),
         selfingRate := ← q (← field d "selfing_rate"), cloningRate := ← q (← field d "cloning_rate") }

def epochs (start : ETime) : List Value → Except Err (List Epoch)
  | [] => pure []
  | v :: vs => do
    let e ← epoch start v
    let rest ← epochs (.fin e.endTime) vs
    pure (e :: rest)

def deme (v : Value) : Except Err Deme := do
  let d ← instObj v
  let st ← time (← field d "start_time")
  pure { name := ← str (← field d "name"), description := ← str (← field d "description"),
         startTime := st, ancestors := ← strs (← field d "ancestors"),
         proportions := ← qs (← field d "proportions"),
         epochs := ← epochs st (← instList (← field d "epochs")) }

def migration (v : Value) : Except Err Migration := do
  let d ← instObj v
  pure { source := ← str (← field d "source"), dest := ← str (← field d "dest"),
         startTime := ← time (← field d "start_time"), endTime := ← q (← field d "end_time"),
         rate := ← q (← field d "rate") }

def pulse (v : Value) : Except Err Pulse := do
  let d ← instObj v
  pure { sources := ← strs (← field d "sources"), dest := ← str (← field d "dest"),
         time := ← q (← field d "time"), proportions := ← qs (← field d "proportions") }

/-- read `Graph.asdict()` output; the name index is rebuilt from the deme list -/
def graph (v : Value) : Except Err Graph := do
  let d ← instObj v
  let demes ← (← instList (← field d "demes")).mapM deme
  pure { description := ← str (← field d "description"), timeUnits := ← str (← field d "time_units"),
         generationTime := ← q (← field d "generation_time"), doi := ← strs (← field d "doi"),
         metadata := ← instObj (← field d "metadata"),
         demes := demes,
         migrations := ← (← instList (← field d "migrations")).mapM migration,
         pulses := ← (← instList (← field d "pulses")).mapM pulse,
         index := (demes.zipIdx).map (fun (dm, i) => (dm.name, i)) }

end Read

end Demes
