/-
  C01, stage 5: the pulse loop of `Graph.fromdict` and the final sort.
-/
import DemesVerif.Proofs.ResolveMigrations
namespace Demes.Proofs.RV
open Demes Demes.Spec

/-! ### `Graph._add_pulse` -/

/-- the per-pulse clause of V11 -/
def v11body (g : Graph) (p : Pulse) : Bool :=
  !p.sources.isEmpty && decide (p.sources.Nodup) && !p.sources.contains p.dest
    && p.sources.length == p.proportions.length
    && p.proportions.all (fun x => decide (0 < x) && decide (x ≤ 1))
    && decide (qsumS p.proportions ≤ 1)
    && decide (0 < p.time)
    && match findDeme g p.dest with
       | none => false
       | some d =>
         p.time != d.endTime &&
         p.sources.all (fun s =>
           match findDeme g s with
           | none => false
           | some sd =>
             let (lo, hi) := coexist sd d
             decide (lo ≤ p.time) && decide (ETime.fin p.time ≤ hi) && (ETime.fin p.time != sd.startTime))

theorem v11_eq (g : Graph) : v11 g = g.pulses.all (v11body g) := rfl

theorem addPulse_ok {g g' : Graph} {sourcesV destV timeV proportionsV : Value} (h0 : v0 g = true)
    (h : addPulse g sourcesV destV timeV proportionsV = .ok g') :
    ∃ p, g' = { g with pulses := g.pulses ++ [p] } ∧ v11body g p = true := by
  unfold addPulse at h
  obtain ⟨srcVals, _, h⟩ := bind_ok.1 h
  obtain ⟨sources, hsources, h⟩ := bind_ok.1 h
  obtain ⟨dest, hdest, h⟩ := bind_ok.1 h
  obtain ⟨_, hti, h⟩ := bind_ok.1 h
  obtain ⟨destDeme, hdestDeme, h⟩ := bind_ok.1 h
  extract_lets tRaw jA jB jC jD at h
  obtain ⟨hdestEnd, h⟩ := ite_verr h
  dsimp -zeta only [jD] at h
  obtain ⟨_, hsrcStart, h⟩ := bind_ok.1 h
  obtain ⟨_, h⟩ := ite_verr h
  dsimp -zeta only [jC] at h
  obtain ⟨hnonempty, h⟩ := ite_verr h
  dsimp -zeta only [jB] at h
  obtain ⟨_, h⟩ := ite_verr h
  dsimp -zeta only [jA] at h
  obtain ⟨time, htime, h⟩ := bind_ok.1 h
  obtain ⟨propVals, _, h⟩ := bind_ok.1 h
  obtain ⟨proportions, hprops, h⟩ := bind_ok.1 h
  extract_lets jE jF jG at h
  obtain ⟨hnotdest, h⟩ := ite_verr h
  dsimp -zeta only [jG] at h
  obtain ⟨hnodup, h⟩ := ite_verr h
  dsimp -zeta only [jF] at h
  obtain ⟨hlen, h⟩ := ite_verr h
  dsimp -zeta only [jE] at h
  simp only [ite_ok, valueErr_ok, and_false, false_or, pure_ok] at h
  obtain ⟨hsum, rfl⟩ := h
  refine ⟨_, rfl, ?_⟩
  obtain ⟨htv, htpos⟩ := posFiniteQ_ok htime
  have hdd := getDeme_ok hdestDeme
  rw [deme?_eq_findDeme h0] at hdd
  simp only [v11body, hdd, Bool.and_eq_true, Bool.not_eq_true', decide_eq_true_eq, beq_iff_eq,
    List.all_eq_true, bne_iff_ne, ne_eq]
  refine ⟨⟨⟨⟨⟨⟨⟨by simpa using hnonempty, by simpa using hnodup⟩, by simpa using hnotdest⟩,
    by simpa using hlen⟩, ?_⟩, ?_⟩, htpos⟩, ?_, ?_⟩
  · intro x hx
    obtain ⟨v, _, hv⟩ := (mapM_ok _ _ _ hprops).2 x hx
    exact unitExLoQ_ok hv
  · rw [← qsum_eq]; exact Rat.not_lt.1 hsum
  · intro he
    apply hdestEnd
    show timeV.asNumRaw? = _
    rw [htv, he]
  · intro s hs
    have h1 := forM_ok _ _ hti s hs
    obtain ⟨⟨lo, hi⟩, h1⟩ := discard_ok.1 h1
    obtain ⟨d1, d2, hd1, hd2, hlo, hhi, hst⟩ := timeIntersection_ok h1
    rw [deme?_eq_findDeme h0] at hd1 hd2
    rw [hdd] at hd2; cases hd2
    subst hlo hhi
    obtain ⟨t, ht1, ht2, ht3⟩ := hst timeV rfl
    rw [htv] at ht1; cases ht1
    have h2 := forM_ok _ _ hsrcStart s hs
    obtain ⟨sd, hsd, h2⟩ := bind_ok.1 h2
    have hsd := getDeme_ok hsd
    rw [deme?_eq_findDeme h0, hd1] at hsd; cases hsd
    simp only [ite_ok, valueErr_ok, and_false, false_or] at h2
    rw [hd1]
    simp only [coexist, Bool.and_eq_true, bne_iff_ne, ne_eq]
    refine ⟨⟨decide_eq_true ?_, decide_eq_true ?_⟩, ?_⟩
    · simpa [Num.le] using ht2
    · exact num_fin_le_ofETime ht3
    · intro he
      apply h2.1
      show timeV.asNumRaw? = _
      rw [htv, ← he]; rfl

/-! ### the pulse loop -/

theorem v8_congr {g g' : Graph} (hd : g'.demes = g.demes) (hm : g'.migrations = g.migrations) :
    v8 g' = v8 g := by
  simp only [v8, findDeme, hd, hm]

theorem v9_congr {g g' : Graph} (hm : g'.migrations = g.migrations) : v9 g' = v9 g := by
  simp only [v9, hm]

theorem v10_congr {g g' : Graph} (hd : g'.demes = g.demes) (hm : g'.migrations = g.migrations) :
    v10 g' = v10 g := by
  simp only [v10, boundaries, ingressAt, hd, hm]

theorem v11body_congr {g g' : Graph} (hd : g'.demes = g.demes) (p : Pulse) :
    v11body g' p = v11body g p := by
  simp only [v11body, findDeme, hd]

/-- invariant of the pulse loop -/
structure Inv5 (g : Graph) : Prop where
  d : DInv g
  ne : g.demes ≠ []
  h13 : v13 g = true
  h8 : v8 g = true
  h9 : v9 g = true
  h10 : v10 g = true
  h11 : v11 g = true

theorem addPulse_inv {g g' : Graph} {sourcesV destV timeV proportionsV : Value} (hi : Inv5 g)
    (h : addPulse g sourcesV destV timeV proportionsV = .ok g') : Inv5 g' := by
  obtain ⟨p, rfl, hp⟩ := addPulse_ok hi.d.h0 h
  refine ⟨DInv.congr (g := g) rfl rfl hi.d, hi.ne, v13_congr rfl rfl rfl hi.h13, ?_, ?_, ?_, ?_⟩
  · exact (v8_congr (g := g) (g' := { g with pulses := g.pulses ++ [p] }) rfl rfl).trans hi.h8
  · exact (v9_congr (g := g) (g' := { g with pulses := g.pulses ++ [p] }) rfl).trans hi.h9
  · exact (v10_congr (g := g) (g' := { g with pulses := g.pulses ++ [p] }) rfl rfl).trans hi.h10
  · have h11 := hi.h11
    rw [v11_eq] at h11 ⊢
    simp only [List.all_append, List.all_cons, List.all_nil, Bool.and_true, Bool.and_eq_true]
    constructor
    · rw [List.all_eq_true] at h11 ⊢
      intro x hx
      exact (v11body_congr (g := g) (g' := { g with pulses := g.pulses ++ [p] }) rfl x).trans (h11 x hx)
    · exact (v11body_congr (g := g) (g' := { g with pulses := g.pulses ++ [p] }) rfl p).trans hp

theorem resolvePulse_inv {pd : Obj} {g g' : Graph} {p : Obj} (hi : Inv5 g)
    (h : resolvePulse pd g p = .ok g') : Inv5 g' := by
  unfold resolvePulse at h
  obtain ⟨_, _, h⟩ := bind_ok.1 h
  extract_lets p1 at h
  split at h
  · exact addPulse_inv hi h
  · exact (keyErr_ok.1 h).elim

theorem pulseLoop_ok {pd : Obj} {g2 g3 : Graph} {xs : List Obj} (h2 : Inv3 g2) (h10 : v10 g2 = true)
    (h : List.foldlM (resolvePulse pd) g2 xs = .ok g3) : Inv5 g3 := by
  refine foldlM_inv Inv5 _ (fun s a s' hs hst => resolvePulse_inv hs hst) _ _ _ ?_ h
  refine ⟨h2.d, h2.ne, h2.h13, h2.h8, h2.h9, h10, ?_⟩
  simp [v11, h2.pulses]

/-! ### the final sort -/

theorem insertPulse_perm (p : Pulse) : ∀ l : List Pulse, (insertPulse p l).Perm (p :: l)
  | [] => .refl _
  | q :: qs => by
    unfold insertPulse
    split
    · exact .refl _
    · exact ((insertPulse_perm p qs).cons q).trans (.swap p q qs)

theorem sortPulses_perm : ∀ l : List Pulse, (sortPulses l).Perm l
  | [] => .refl _
  | p :: ps => by
    show (insertPulse p (sortPulses ps)).Perm (p :: ps)
    exact (insertPulse_perm p _).trans ((sortPulses_perm ps).cons p)

theorem insertPulse_sorted (p : Pulse) : ∀ l : List Pulse,
    l.Pairwise (fun a b => b.time ≤ a.time) → (insertPulse p l).Pairwise (fun a b => b.time ≤ a.time)
  | [], _ => by simp [insertPulse]
  | q :: qs, h => by
    unfold insertPulse
    obtain ⟨h1, h2⟩ := List.pairwise_cons.1 h
    split
    · rename_i hle
      refine List.pairwise_cons.2 ⟨?_, h⟩
      intro b hb
      rcases List.mem_cons.1 hb with rfl | hb
      · exact hle
      · exact Rat.le_trans (h1 b hb) hle
    · rename_i hle
      refine List.pairwise_cons.2 ⟨?_, insertPulse_sorted p qs h2⟩
      intro b hb
      rcases List.mem_cons.1 ((insertPulse_perm p qs).mem_iff.1 hb) with rfl | hb
      · exact Rat.le_of_lt (Rat.not_le.1 hle)
      · exact h1 b hb

theorem sortPulses_sorted : ∀ l : List Pulse, (sortPulses l).Pairwise (fun a b => b.time ≤ a.time)
  | [] => .nil
  | p :: ps => insertPulse_sorted p _ (sortPulses_sorted ps)


end Demes.Proofs.RV
