/-
  C09, first sentence — acceptance: non-vacuity of `ms_roundtrip_accepts` / `ms_roundtrip_sem`, and the
  witnesses for the hypothesis `PulsesTame`.
-/
import DemesVerif.Proofs.MsAccFinal
import DemesVerif.Proofs.MsAccMigExamples
import DemesVerif.Proofs.MsRTExamples
namespace Demes.Proofs.MsAcc
open Demes Demes.Ms Demes.Spec Demes.Spec.C07 Demes.Spec.C09
open Demes.Spec.MsSem (msSem graphSem)
open Demes.Spec.C08 (resultSem semEquiv)
open Demes.Proofs.MsPrint (tableCodec growthStr twoDemePulse branchMig)
open Demes.Proofs.MsRT (admixture twoEpochs chainGraph refinesAt)

/-- every hypothesis of `ms_roundtrip_accepts` (with `samples = none`, the codec `tableCodec` and the growth
printer `growthStr`), decided -/
def acceptHyps (g : Graph) (N0 : Q) : Bool :=
  validGraph g && MsExpressible g && ConstSizes g && PulsesTame g && decide (0 < N0) &&
  match toMs g N0 none with
  | .ok toks => decide (CodecCovers tableCodec toks)
  | .error _ => false

/-- `from_ms` accepts the command `to_ms` prints for `g` (evaluated) -/
def accepted (g : Graph) (N0 : Q) : Bool :=
  match toMs g N0 none with
  | .ok toks => (fromMs (renderG tableCodec growthStr toks) N0 none).toOption.isSome
  | .error _ => false

/-- the theorem for a graph that meets the hypotheses: `from_ms` accepts the printed command -/
theorem accepted_of_hyps {g : Graph} {N0 : Q} (h : acceptHyps g N0 = true) : accepted g N0 = true := by
  unfold acceptHyps at h
  simp only [Bool.and_eq_true, decide_eq_true_eq] at h
  obtain ⟨⟨⟨⟨⟨h1, h2⟩, h3⟩, h4⟩, h5⟩, h6⟩ := h
  unfold accepted
  cases ht : toMs g N0 none with
  | error e => rw [ht] at h6; cases h6
  | ok toks =>
    rw [ht] at h6
    simp only [decide_eq_true_eq] at h6
    obtain ⟨mg, hmg, _⟩ := ms_roundtrip_accepts tableCodec growthStr h1 h2 h3 h4 h5 (samples := none) rfl ht h6
    simp only [hmg]
    rfl

/-- … and, with exact proportions, the returned graph describes the demography of `g` -/
theorem roundTrip_of_acceptHyps {g : Graph} {N0 : Q} (h : acceptHyps g N0 = true) (hex : ExactProportions g = true) :
    ∃ toks mg sem rs gs, toMs g N0 none = .ok toks
      ∧ fromMs (renderG tableCodec growthStr toks) N0 none = .ok mg
      ∧ msSem (renderG tableCodec growthStr toks) N0 = .ok sem ∧ resultSem mg = .ok rs
      ∧ graphSem (inGenerations g) none = .ok gs
      ∧ semEquiv sem rs = true ∧ SemRefines sem gs ∧ SemRefines rs gs := by
  unfold acceptHyps at h
  simp only [Bool.and_eq_true, decide_eq_true_eq] at h
  obtain ⟨⟨⟨⟨⟨h1, h2⟩, h3⟩, h4⟩, h5⟩, h6⟩ := h
  cases ht : toMs g N0 none with
  | error e => rw [ht] at h6; cases h6
  | ok toks =>
    rw [ht] at h6
    simp only [decide_eq_true_eq] at h6
    obtain ⟨mg, sem, rs, gs, r⟩ := ms_roundtrip_sem tableCodec growthStr h1 h2 hex h3 h4 h5 (samples := none) rfl ht h6
    exact ⟨toks, mg, sem, rs, gs, rfl, r⟩

/-- the hypotheses hold for: a branch with a migration; an admixture with two ancestors (a population
created by `-es` and removed as a transient deme); a pulse of proportion 1/2; a graph in years whose ancestor
changes size when its descendant starts, with a migration (`-en` and `-ej` at one time); the admixture with
three migrations, two of them into one deme with total rate exactly one; also with `N0 = 2` -/
example : acceptHyps branchMig 1 = true := by decide +kernel
example : acceptHyps admixture 1 = true := by decide +kernel
example : acceptHyps admixture 2 = true := by decide +kernel
example : acceptHyps (twoDemePulse (1/2)) 1 = true := by decide +kernel
example : acceptHyps twoEpochs 1 = true := by decide +kernel
example : acceptHyps admixMig 1 = true := by decide +kernel

/-- the theorem at work -/
example : accepted admixMig 1 = true := accepted_of_hyps (by decide +kernel)
example := roundTrip_of_acceptHyps (g := admixture) (N0 := 1) (by decide +kernel) (by decide +kernel)

/-- the conclusion, evaluated independently of the theorem -/
example : [branchMig, admixture, twoDemePulse (1/2), twoEpochs, admixMig].map (fun g => accepted g 1)
    = [true, true, true, true, true] := by decide +kernel

/-- the command of `admixMig` (an `-es` / `-ej` pair, `-em` switched on and off) -/
example : (toMs admixMig 1 none).toOption.map (renderG tableCodec growthStr)
    = some ["-I", "3", "0", "0", "0", "-n", "1", "2.0", "-n", "3", "0.5", "-m", "3", "2", "1.0", "-em", "0.25", "3", "1", "3.0",
            "-em", "0.5", "3", "1", "0.0", "-em", "0.5", "2", "1", "0.5", "-es", "1.0", "3", "0.5", "-ej", "1.0", "4", "1",
            "-ej", "1.0", "3", "2", "-ej", "2.0", "2", "1"] := by decide +kernel

/-! ### the hypothesis `PulsesTame` -/

/-- **`PulsesTame` cannot be dropped (F6).**  `twoDemePulse 1` (a pulse of proportion 1) satisfies every
other hypothesis of `ms_roundtrip_accepts`, and `from_ms` rejects the command `to_ms` prints for it
(`-I 2 0 0 -es 1.0 2 0.0 -ej 1.0 3 1`). -/
theorem accepts_counterexample_pulse1 :
    validGraph (twoDemePulse 1) = true ∧ MsExpressible (twoDemePulse 1) = true ∧ ConstSizes (twoDemePulse 1) = true
    ∧ ExactProportions (twoDemePulse 1) = true ∧ PulsesTame (twoDemePulse 1) = false
    ∧ (match toMs (twoDemePulse 1) 1 none with
       | .ok toks => decide (CodecCovers tableCodec toks)
       | .error _ => false) = true
    ∧ accepted (twoDemePulse 1) 1 = false := by decide +kernel

/-- **the order clause of `PulsesTame` is sufficient, not necessary, for acceptance**: pulses `A → B` (listed
first) and `B → C` at one time are not `PulsesTame` (the printed command is outside the fragment `Tame'` on
which the lineage movements of `from_ms` are proved), and `from_ms` accepts the command -/
theorem accepts_order_not_necessary :
    validGraph chainGraph = true ∧ PulsesTame chainGraph = false
    ∧ chainGraph.pulses.all (fun p => p.proportions.all (fun x => decide (x < 1))) = true
    ∧ accepted chainGraph 1 = true := by decide +kernel

#print axioms accepted_of_hyps
#print axioms roundTrip_of_acceptHyps
#print axioms accepts_counterexample_pulse1

end Demes.Proofs.MsAcc
