/-
  C19 — the command line prints exactly what the library would.  Declarative side, written
  from the property text (not from the control flow of `__main__.py`):

  * `loaded docs` / `loadFails docs`: what `list(demes.load_all(file))` gives — the graphs before
    the first failing document, and whether there is a failing document at all;
  * `libraryCall f g`: "the corresponding library call on the loaded graph" for one graph;
  * `expected f gs`: the calls whose output the command must print for a file whose documents
    are the graphs `gs` (`none`: an unsupported combination, which must end with an error);
  * `Iterates next s gs raised`: iterating `next` from state `s` yields exactly the graphs `gs`
    and then stops (`raised = false`) or raises (`raised = true`).
-/
import DemesVerif.Model.Cli
namespace Demes.Spec.C19
open Demes Demes.Cli

/-- the graphs `demes.load_all(file)` yields before it raises or ends -/
def loaded : List Doc → List Nat
  | [] => []
  | .fail :: _ => []
  | .ok g :: rest => g :: loaded rest

/-- the input is invalid: some document cannot be loaded -/
def loadFails (docs : List Doc) : Bool := docs.contains .fail

/-- 1-based position of the first failing document -/
def failPos (docs : List Doc) : Nat := (loaded docs).length + 1

/-- "the fully-resolved YAML of each graph, the simplified YAML with -s, JSON with -j and the
ms arguments for the given reference size with --ms": the library call for one graph -/
def libraryCall (f : Flags) (g : Nat) : Call :=
  match f.ms with
  | some n0 => .toMs g n0
  | none => .dump g (if f.json then .json else .yaml) f.simplified

/-- YAML output was asked for (neither `-j` nor `--ms`) -/
def wantsYaml (f : Flags) : Bool := !f.json && f.ms.isNone

/-- what must be printed for a file whose documents are exactly the graphs `gs`: nothing for an
empty file, the library call for a single graph, `dump_all` (one `---`…`...` document per graph,
in order) for several graphs as YAML; several graphs with JSON or ms output is the unsupported
combination (`none`) -/
def expected (f : Flags) (gs : List Nat) : Option (List Call) :=
  match gs with
  | [] => some []
  | [g] => some [libraryCall f g]
  | _ => if wantsYaml f then some (gs.map (fun g => Call.dumpAllDoc g f.simplified)) else none

/-- iterating `next` from `s` yields exactly `gs`, then stops (`false`) or raises (`true`) -/
inductive Iterates {σ : Type} (next : σ → Next σ) : σ → List Nat → Bool → Prop where
  | stop {s} : next s = .stop → Iterates next s [] false
  | raise {s} : next s = .raise → Iterates next s [] true
  | yield {s g s' gs r} : next s = .yield g s' → Iterates next s' gs r → Iterates next s (g :: gs) r

/-- an outcome is a success only if it is complete: exit status 0 requires every document of
the input to be loadable, the combination to be supported, every library call to have returned,
and the printed calls to be exactly the expected ones in order -/
def successComplete (lib : Call → Bool) (f : Flags) (docs : List Doc) (o : Outcome) : Prop :=
  o.exit = .exit0 →
    docs = (loaded docs).map Doc.ok ∧ expected f (loaded docs) = some o.printed
      ∧ ∀ c ∈ o.printed, lib c = true

end Demes.Spec.C19
