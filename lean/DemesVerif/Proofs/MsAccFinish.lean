/-
  C09 (acceptance), after the event loop — assembly: on a state that satisfies the invariants of the
  event loop (`AccInv`, `NameInv`) and whose matrix history yields well-formed migrations (`DocMigsWF`),
  `finishDoc` succeeds, the document has the shape `resolve` wants, the explicit graph `docGraph` is
  valid whatever the placeholder table, and therefore `Demes.resolve` accepts the document.

  * `MsAccFinishDefs.lean`   — `DocWF`: the well-formed document, stated on the document alone;
  * `MsAccFinishDoc.lean`    — `finaliseGrowth`, transient demes, `_remove_transient_demes` succeeds;
  * `MsAccFinishWF.lean`     — `finDoc` (closed form), `finishDoc_eq`, `finDoc_wf`;
  * `MsAccFinishDemes.lean`  — V1 … V6 from `DocWF`;
  * `MsAccFinishMigs.lean`   — V8 … V10 from `DocWF`;
  * `MsAccFinishPulses.lean` — V11, V12 from `DocWF`.
-/
import DemesVerif.Proofs.MsAccFinishWF
import DemesVerif.Proofs.MsAccFinishDemes
import DemesVerif.Proofs.MsAccFinishMigs
import DemesVerif.Proofs.MsAccFinishPulses
namespace Demes.Proofs.MsAcc
open Demes Demes.Ms Demes.Spec Demes.Spec.C08 Demes.Proofs.FromMs

/-- **a well-formed document fills in to a valid graph**, whatever the placeholder table -/
theorem valid_of_docwf {doc : MsDoc} (h : DocWF doc) (tab : List (Sz × Q)) :
    validGraph (docGraph tab doc) = true := by
  unfold validGraph validData
  rw [doc_v0, docwf_v1 h, docwf_v2 h, docwf_v3 h, docwf_v4 h, docwf_v5 h, docwf_v6 h, docwf_v8 h, docwf_v9 h,
    docwf_v10 h, docwf_v11 h, docwf_v12 h, doc_v13]
  rfl

/-- `Demes.resolve` accepts a well-formed document and returns the explicit graph -/
theorem resolve_of_docwf {doc : MsDoc} (h : DocWF doc) (tab : List (Sz × Q)) :
    Demes.resolve (doc.toValue tab) = .ok (docGraph tab doc) :=
  resolve_doc_of_valid tab doc (docShape_of_wf h) (valid_of_docwf h tab)

set_option linter.unusedVariables false in
/-- **after the event loop: `finishDoc` succeeds, and its document is acceptable** — the document is
`finDoc N0 s migs0` (the finalised non-transient demes sorted by start time, the scaled migrations, the
pulses reversed), it is well-formed, has the shape `resolve` wants, and its explicit graph is valid -/
theorem finish_accepts' {N0 : Q} (hN : 0 < N0) {s : BState} {T : Q} (hinv : AccInv T s) (hn : NameInv s)
    {migs0 : List BMigration}
    (hm : addMigrationsFromMatrices ((List.range s.numDemes).map Ms.demeName) s.mmList s.mmEndTimes = .ok migs0)
    (hmw : DocMigsWF s (migs0.map (scaleMig N0))) :
    finishDoc N0 s = .ok (finDoc N0 s migs0) ∧ DocWF (finDoc N0 s migs0) ∧ DocShape (finDoc N0 s migs0)
      ∧ ∀ tab, validGraph (docGraph tab (finDoc N0 s migs0)) = true :=
  have hw := finDoc_wf hinv hn hmw
  ⟨finishDoc_eq hinv hn hm hmw, hw, docShape_of_wf hw, valid_of_docwf hw⟩

/-- **after the event loop: `finishDoc` succeeds, and its document is acceptable** -/
theorem finish_accepts {N0 : Q} (hN : 0 < N0) {s : BState} {T : Q} (hinv : AccInv T s) (hn : NameInv s)
    {migs0 : List BMigration}
    (hm : addMigrationsFromMatrices ((List.range s.numDemes).map Ms.demeName) s.mmList s.mmEndTimes = .ok migs0)
    (hmw : DocMigsWF s (migs0.map (scaleMig N0))) :
    ∃ doc, finishDoc N0 s = .ok doc ∧ DocShape doc ∧ ∀ tab, validGraph (docGraph tab doc) = true :=
  have h := finish_accepts' hN hinv hn hm hmw
  ⟨_, h.1, h.2.2.1, h.2.2.2⟩

/-- **after the event loop: `finishDoc` succeeds and `Demes.resolve` accepts its document** (with the
placeholder table `buildGraph` uses), returning the explicit graph -/
theorem finish_resolves {N0 : Q} (hN : 0 < N0) {s : BState} {T : Q} (hinv : AccInv T s) (hn : NameInv s)
    {migs0 : List BMigration}
    (hm : addMigrationsFromMatrices ((List.range s.numDemes).map Ms.demeName) s.mmList s.mmEndTimes = .ok migs0)
    (hmw : DocMigsWF s (migs0.map (scaleMig N0))) :
    ∃ doc g, finishDoc N0 s = .ok doc ∧ Demes.resolve (doc.toValue (placeholders doc)) = .ok g := by
  obtain ⟨h1, hw, _, _⟩ := finish_accepts' hN hinv hn hm hmw
  exact ⟨_, _, h1, resolve_of_docwf hw _⟩

/-- the graph `resolve` returns is the explicit graph of the document -/
theorem finish_resolves_eq {N0 : Q} {s : BState} {T : Q} (hinv : AccInv T s) (hn : NameInv s)
    {migs0 : List BMigration} (hmw : DocMigsWF s (migs0.map (scaleMig N0))) (tab : List (Sz × Q)) :
    Demes.resolve ((finDoc N0 s migs0).toValue tab) = .ok (docGraph tab (finDoc N0 s migs0)) :=
  resolve_of_docwf (finDoc_wf hinv hn hmw) tab

/-! ## non-vacuity -/

/-- run `build_graph` on a command up to (not including) `resolve`, with `N0 = 1`: the event loop and
`finishDoc` succeed, the matrix sweep succeeds on the names `deme1 …`, `finishDoc` returns `finDoc`, the
document has the acceptable shape and its explicit graph is valid -/
def finishCheck (tokens : List String) : Bool :=
  match parseKnownArgs tokens with
  | .ok args =>
    match buildState args 1 with
    | .ok s =>
      match addMigrationsFromMatrices ((List.range s.numDemes).map Ms.demeName) s.mmList s.mmEndTimes,
            finishDoc 1 s with
      | .ok migs0, .ok doc =>
        docShapeB doc && validGraph (docGraph [] doc)
          && decide (doc.demes = (finDoc 1 s migs0).demes)
          && decide (doc.migrations = (finDoc 1 s migs0).migrations)
          && decide (doc.pulses = (finDoc 1 s migs0).pulses)
      | _, _ => false
    | _ => false
  | _ => false

/-- three populations, two size changes, an admixture written as `-es` + two `-ej` (one transient deme,
which `finishDoc` removes), a later join -/
example : finishCheck ["-I", "3", "0", "0", "0", "-n", "1", "2.0", "-n", "3", "0.5", "-es", "1.0", "3", "0.5",
    "-ej", "1.0", "4", "1", "-ej", "1.0", "3", "2", "-ej", "2.0", "2", "1"] = true := by decide +kernel

/-- two populations with migration, a pulse written as `-es` + `-ej`, a join -/
example : finishCheck ["-I", "2", "0", "0", "-m", "2", "1", "0.5", "-es", "0.5", "2", "0.5", "-ej", "0.5", "3", "1",
    "-ej", "1.0", "2", "1"] = true := by decide +kernel

/-- (populations at the end of the loop, demes / migrations / pulses of the document) -/
def finishCounts (tokens : List String) : Option (Nat × Nat × Nat × Nat) :=
  match parseKnownArgs tokens with
  | .ok args =>
    match buildState args 1 with
    | .ok s =>
      match finishDoc 1 s with
      | .ok doc => some (s.numDemes, doc.demes.length, doc.migrations.length, (doc.pulses.getD []).length)
      | _ => none
    | _ => none
  | _ => none

/-- in both commands the population `-es` creates is joined at once: a transient deme, which
`_remove_transient_demes` deletes; the second document has a migration and a pulse -/
example : finishCounts ["-I", "3", "0", "0", "0", "-n", "1", "2.0", "-n", "3", "0.5", "-es", "1.0", "3", "0.5",
    "-ej", "1.0", "4", "1", "-ej", "1.0", "3", "2", "-ej", "2.0", "2", "1"] = some (4, 3, 0, 0)
  ∧ finishCounts ["-I", "2", "0", "0", "-m", "2", "1", "0.5", "-es", "0.5", "2", "0.5", "-ej", "0.5", "3", "1",
    "-ej", "1.0", "2", "1"] = some (3, 2, 1, 1) := by decide +kernel

#print axioms finish_accepts
#print axioms finish_resolves

end Demes.Proofs.MsAcc
