/-
  Support for `Theorems/TablesGuardsHandles.lean` (C17).  Nothing here depends on `Generated/`.

  The control flow of every entry point of demes/load_dump.py as a term of `Handles.Prog.Stmt`
  (`prog*`), the context manager as a `Cm` (`cmOpenFilePolymorph`), and the proofs that the Model's
  functions (`Model/Handles.lean`) are the meaning of these terms (`Model/HandlesProg.lean`).
-/
import DemesVerif.Model.HandlesProg
namespace Demes.Proofs.Guards3
open Demes.Handles Demes.Handles.Prog

/-! ### the terms -/

/-- `_open_file_polymorph` -/
def cmOpenFilePolymorph : Cm :=
  { openFallback := [.typeError], passesMode := true, encoding := "utf-8", yieldsFile := true,
    handlers := [], orelse := [], finally_ := [.closeIfOwned], after := [] }

def progLoadAsdict : Stmt :=
  .seq (.onFormat (.withPolymorph .param .r (.fileStage .parse 0)) (.withPolymorph .param .r (.fileStage .parse 0)))
    (.seq (.stage .null) (.stage .unstringify))

def progLoadsAsdict : Stmt := .withStringIO (.call .loadAsdict (.stream 0))

def progLoad : Stmt := .seq (.call .loadAsdict .param) (.stage .resolve)

def progLoads : Stmt := .seq (.call .loadsAsdict .noFile) (.stage .resolve)

/-- the body of the `for` loop of `load_all` -/
def turnLoadAll : Stmt := .seq (.stage .null) (.seq (.stage .unstringify) (.seq (.stage .resolve) .yield))

def progLoadAll : Stmt := .withPolymorph .param .r (.withYaml (.forDocs 0 turnLoadAll))

def progDump : Stmt :=
  .seq (.stage .simplify)
    (.onFormat (.withPolymorph .param .w (.seq (.prep .serialise) (.fileStage .serialise 0)))
      (.withPolymorph .param .w (.fileStage .serialise 0)))

def progDumps : Stmt := .withStringIO (.call .dump (.stream 0))

def progDumpAll : Stmt := .withPolymorph .param .w (.forGraphs (.seq (.stage .simplify) (.fileStage .serialise 0)))

/-! ### the Model's functions as callees -/

/-- what a call of another function of load_dump.py means: the Model's function of that name
(`load_all` and `dump_all` are called by no function of the module) -/
def modelCallee (p : Plan) (fmt : Format) : Fn → Obj → M Unit
  | .loadAsdict, o => loadAsdict p fmt o
  | .loadsAsdict, _ => loadsAsdict p fmt
  | .load, o => load p fmt o
  | .loads, _ => loads p fmt
  | .dump, o => Handles.dump p fmt o
  | .dumps, _ => dumps p fmt
  | .loadAll, _ => pure ()
  | .dumpAll, _ => pure ()

/-- the environment of a call `entry(filename = o, format = fmt)` under fault plan `p` -/
def envOf (p : Plan) (fmt : Format) (n : Nat) (o : Obj) : Env :=
  { plan := p, fmt := fmt, n := n, param := o, callee := modelCallee p fmt }

/-! ### the context manager -/

theorem cmEnter_eq (p : Plan) (o : Obj) : cmEnter cmOpenFilePolymorph p o = openPolymorph p o := by
  cases o <;> rfl

theorem cmExit_eq (k : ExitKind) (o : Obj) (f : FileRef) (s : State) :
    cmExit cmOpenFilePolymorph k o f s = (exitPolymorph o f s, k != .normal) := by
  cases k <;> rfl

/-! ### functions that are called -/

theorem denote_loadAsdict (p : Plan) (fmt : Format) (n : Nat) (o : Obj) :
    denote progLoadAsdict (envOf p fmt n o) = loadAsdict p fmt o := by
  cases fmt <;> rfl

theorem denote_loadsAsdict (p : Plan) (fmt : Format) (n : Nat) (o : Obj) :
    denote progLoadsAsdict (envOf p fmt n o) = loadsAsdict p fmt := rfl

theorem denote_load (p : Plan) (fmt : Format) (n : Nat) (o : Obj) :
    denote progLoad (envOf p fmt n o) = load p fmt o := rfl

theorem denote_loads (p : Plan) (fmt : Format) (n : Nat) (o : Obj) :
    denote progLoads (envOf p fmt n o) = loads p fmt := rfl

theorem denote_dump (p : Plan) (fmt : Format) (n : Nat) (o : Obj) :
    denote progDump (envOf p fmt n o) = Handles.dump p fmt o := by
  cases fmt <;> rfl

theorem denote_dumps (p : Plan) (fmt : Format) (n : Nat) (o : Obj) :
    denote progDumps (envOf p fmt n o) = dumps p fmt := rfl

theorem loopM_dumpAll (p : Plan) (f : FileRef) (i r : Nat) :
    loopM (fun i => (do stage p .simplify i; fileStage p f .serialise i : M Unit)) i r = dumpAllLoop p f i r := by
  induction r generalizing i with
  | zero => rfl
  | succ r ih =>
    show (do (do stage p .simplify i; fileStage p f .serialise i : M Unit); loopM _ (i + 1) r) = _
    rw [ih]
    funext s
    simp only [dumpAllLoop, bind, M.bind]
    cases stage p .simplify i s with
    | mk r1 s1 => cases r1 <;> rfl

theorem denote_dumpAll (p : Plan) (fmt : Format) (n : Nat) (o : Obj) :
    denote progDumpAll (envOf p fmt n o) = dumpAll p n o := by
  show withPolymorph p o (fun f => loopM (fun i => (do stage p .simplify i; fileStage p f .serialise i : M Unit)) 0 n) = _
  simp only [loopM_dumpAll]
  rfl

/-! ### `load_all`: the generator -/

/-- the environment in which `start` runs the body of `load_all` -/
def envG (c : Cfg) : Env :=
  { plan := c.plan, fmt := .yaml, n := c.n, param := c.obj, callee := fun _ _ => pure () }

/-- the rest of the body of `load_all` from "ask the parser for document `i`" (fuel `r`), inside the
`with` whose file variable is `f` -/
def loopFrom (c : Cfg) (f : FileRef) (i r : Nat) : State → Res :=
  loopDocs c.n (fun i => fileStage c.plan f .parse i)
    (fun i K' t => denoteG turnLoadAll { envG c with files := [f], doc := i } (exitPolymorph c.obj f) K' t)
    (exitPolymorph c.obj f) (fun t => .done (.ok ()) (exitPolymorph c.obj f t)) i r

theorem start_loadAll (c : Cfg) (s : State) :
    start progLoadAll c s =
      match openPolymorph c.plan c.obj s with
      | (.error e, s') => .done (.error e) s'
      | (.ok f, s') => loopFrom c f 0 (c.n + 1) s' := by
  show (match openPolymorph c.plan c.obj s with
      | (.error e, s') => Res.done (.error e) (id s')
      | (.ok f, s') => _) = _
  rfl

/-- the generator object that stands for the Model's `g` when the loop has fuel `r` left -/
def absGen (c : Cfg) (r : Nat) : Gen → GenR
  | .notStarted => .notStarted
  | .suspended f i => .suspended f i (loopFrom c f i r) (exitPolymorph c.obj f)
  | .done d => .done d

theorem settle_loopFrom (c : Cfg) (f : FileRef) (i r : Nat) (s : State) :
    settle (loopFrom c f i (r + 1) s) = ((absGen c r (genResume c f i s).1), (genResume c f i s).2) := by
  unfold loopFrom genResume genTurn
  simp only [loopDocs, liftG, bind, M.bind]
  cases h0 : fileStage c.plan f .parse i s with
  | mk r0 s0 =>
    cases r0 with
    | error e => rfl
    | ok u =>
      by_cases hi : i < c.n
      · simp only [hi, if_true, turnLoadAll, denoteG, liftG, envG, M.bind]
        cases h1 : stage c.plan .null i s0 with
        | mk r1 s1 =>
          cases r1 with
          | error e => rfl
          | ok u1 =>
            simp only []
            cases h2 : stage c.plan .unstringify i s1 with
            | mk r2 s2 =>
              cases r2 with
              | error e => rfl
              | ok u2 =>
                simp only []
                cases h3 : stage c.plan .resolve i s2 with
                | mk r3 s3 =>
                  cases r3 with
                  | error e => rfl
                  | ok u3 => rfl
      · simp only [hi, if_false]
        rfl

theorem genResume_suspended (c : Cfg) (f f' : FileRef) (i j : Nat) (s : State)
    (h : (genResume c f i s).1 = .suspended f' j) : f' = f ∧ j = i + 1 ∧ i < c.n := by
  unfold genResume genTurn at h
  simp only [bind, M.bind] at h
  cases h0 : fileStage c.plan f .parse i s with
  | mk r0 s0 =>
    rw [h0] at h
    cases r0 with
    | error e => simp at h
    | ok u =>
      by_cases hi : i < c.n
      · simp only [hi, if_true] at h
        split at h
        · injection h with h1 h2
          exact ⟨h1.symm, h2.symm, hi⟩
        · simp at h
        · simp at h
      · simp only [hi, if_false] at h
        simp [pure, M.pure] at h

theorem absGen_toGen (c : Cfg) (r : Nat) (g : Gen) : (absGen c r g).toGen = g := by
  cases g <;> rfl

/-- `gr` stands for the Model's `g`: a suspended generator holds the rest of the loop, with enough fuel -/
def Sim (c : Cfg) (gr : GenR) (g : Gen) : Prop :=
  ∃ r, gr = absGen c (r + 1) g ∧ ∀ f i, g = .suspended f i → i + r = c.n

theorem Sim.toGen {c : Cfg} {gr : GenR} {g : Gen} (h : Sim c gr g) : gr.toGen = g := by
  obtain ⟨r, rfl, _⟩ := h
  exact absGen_toGen c _ g

theorem sim_of_resume (c : Cfg) (f : FileRef) (i r : Nat) (s : State) (hr : i + r = c.n) :
    Sim c (absGen c r (genResume c f i s).1) (genResume c f i s).1 := by
  cases hg : (genResume c f i s).1 with
  | notStarted => exact ⟨0, rfl, by intro f i h; cases h⟩
  | done d => exact ⟨0, rfl, by intro f i h; cases h⟩
  | suspended f' j =>
    obtain ⟨_, hj, hi⟩ := genResume_suspended c f f' i j s hg
    obtain ⟨r', rfl⟩ : ∃ r', r = r' + 1 := ⟨r - 1, by omega⟩
    refine ⟨r', rfl, ?_⟩
    intro f'' j' h
    cases h
    omega

theorem sim_next (c : Cfg) (gr : GenR) (g : Gen) (s : State) (h : Sim c gr g) :
    Sim c (genNextR progLoadAll c gr s).1 (genNext c g s).1
      ∧ (genNextR progLoadAll c gr s).2 = (genNext c g s).2 := by
  obtain ⟨r, rfl, hr⟩ := h
  cases g with
  | notStarted =>
    simp only [absGen, genNextR, genNext, start_loadAll]
    cases h0 : openPolymorph c.plan c.obj s with
    | mk r0 s0 =>
      cases r0 with
      | error e => exact ⟨⟨0, rfl, by intro f i h; cases h⟩, rfl⟩
      | ok f =>
        simp only [settle_loopFrom]
        exact ⟨sim_of_resume c f 0 c.n s0 (by omega), trivial⟩
  | suspended f i =>
    simp only [absGen, genNextR, genNext, settle_loopFrom]
    exact ⟨sim_of_resume c f i r s (hr f i rfl), trivial⟩
  | done d => exact ⟨⟨0, rfl, by intro f i h; cases h⟩, rfl⟩

theorem sim_close (c : Cfg) (gr : GenR) (g : Gen) (s : State) (h : Sim c gr g) :
    Sim c (genCloseR gr s).1 (genClose c g s).1 ∧ (genCloseR gr s).2 = (genClose c g s).2 := by
  obtain ⟨r, rfl, hr⟩ := h
  cases g <;> exact ⟨⟨0, rfl, by intro f i h; cases h⟩, rfl⟩

theorem sim_exhaust (c : Cfg) (fuel : Nat) (gr : GenR) (g : Gen) (s : State) (h : Sim c gr g) :
    Sim c (genExhaustR progLoadAll c fuel gr s).1 (genExhaust c fuel g s).1
      ∧ (genExhaustR progLoadAll c fuel gr s).2 = (genExhaust c fuel g s).2 := by
  induction fuel generalizing gr g s with
  | zero => exact ⟨h, rfl⟩
  | succ fuel ih =>
    have hn := sim_next c gr g s h
    unfold genExhaustR genExhaust
    cases hR : genNextR progLoadAll c gr s with
    | mk gr' sr =>
      cases hM : genNext c g s with
      | mk g' sm =>
        rw [hR, hM] at hn
        obtain ⟨hs, rfl⟩ : Sim c gr' g' ∧ sr = sm := hn
        have ht := hs.toGen
        cases g' with
        | suspended f i =>
          cases gr' with
          | suspended f' i' nx cl =>
            cases ht
            exact ih _ _ _ hs
          | notStarted => cases ht
          | done d => cases ht
        | notStarted =>
          cases gr' with
          | suspended f' i' nx cl => cases ht
          | notStarted => exact ⟨hs, rfl⟩
          | done d => cases ht
        | done d =>
          cases gr' with
          | suspended f' i' nx cl => cases ht
          | notStarted => cases ht
          | done d' => exact ⟨hs, rfl⟩

theorem sim_step (c : Cfg) (st : Step) (gr : GenR) (g : Gen) (s : State) (h : Sim c gr g) :
    Sim c (genStepR progLoadAll c st gr s).1 (genStep c st g s).1
      ∧ (genStepR progLoadAll c st gr s).2 = (genStep c st g s).2 := by
  cases st with
  | next => exact sim_next c gr g s h
  | exhaust => exact sim_exhaust c _ gr g s h
  | close => exact sim_close c gr g _ h
  | collect => exact sim_close c gr g _ h

theorem sim_script (c : Cfg) (script : List Step) (gr : GenR) (g : Gen) (s : State) (h : Sim c gr g) :
    Sim c (runScriptR progLoadAll c script gr s).1 (runScript c script g s).1
      ∧ (runScriptR progLoadAll c script gr s).2 = (runScript c script g s).2 := by
  induction script generalizing gr g s with
  | nil => exact ⟨h, rfl⟩
  | cons st rest ih =>
    have hs := sim_step c st gr g s h
    unfold runScriptR runScript
    cases hR : genStepR progLoadAll c st gr s with
    | mk gr' sr =>
      cases hM : genStep c st g s with
      | mk g' sm =>
        rw [hR, hM] at hs
        obtain ⟨hs, rfl⟩ : Sim c gr' g' ∧ sr = sm := hs
        exact ih gr' g' sr hs

/-- the first `next` -/
theorem genNext_loadAll_first (c : Cfg) (s : State) :
    genNext c .notStarted s
      = ((genNextR progLoadAll c .notStarted s).1.toGen, (genNextR progLoadAll c .notStarted s).2) := by
  have h := sim_next c .notStarted .notStarted s ⟨0, rfl, by intro f i h; cases h⟩
  rw [h.1.toGen, h.2]

/-- the Model's iterator of `load_all`, driven by any consumer script, is the generator semantics of
`progLoadAll` -/
theorem runScript_loadAll (c : Cfg) (script : List Step) :
    runScript c script .notStarted State.init
      = ((runScriptR progLoadAll c script .notStarted State.init).1.toGen,
         (runScriptR progLoadAll c script .notStarted State.init).2) := by
  have h := sim_script c script .notStarted .notStarted State.init ⟨0, rfl, by intro f i h; cases h⟩
  rw [h.1.toGen, h.2]

end Demes.Proofs.Guards3
