"""C17 — file handles are never leaked and caller streams never closed.

Runs the REAL entry points of demes/load_dump.py under a wrapper of ``builtins.open`` (every
file the library opens is recorded, with whether it is closed afterwards) and under recording
/ fault-injecting wrappers of every module attribute the entry points look up at call time.
The observed event trace (open / stage entered / close / yield / raise / return), the final
flags and the outcome are compared with the Lean Model (driver op ``handles``) for every
combination of a finite space, and the property is evaluated directly on the observations.
"""
from __future__ import annotations

import builtins
import gc
import inspect
import io
import json
import os
import pathlib
import shutil
import sys
import tempfile
import types

import ruamel.yaml

import demes
from demes import load_dump as ld

RULE = ("complete enumeration (no sampling): every I/O entry point (load_asdict, loads_asdict, load, loads, load_all, "
        "dump, dumps, dump_all) x format {json, yaml, unknown} x simplified {True, False} x target {str path, "
        "pathlib.Path, open text file, io.StringIO, None, object(), non-existent path, directory path} x fault plan "
        "{none; injected at open/parse/null/unstringify/resolve/simplify/serialise via the module attributes looked up "
        "at call time; natural: malformed text, null value, non-iterable 'demes', invalid model, a graph whose asdict "
        "raises, unserialisable metadata, bytes argument, missing/dir path} x (multi-document entries) n = 0..N "
        "documents with the fault at every document index k (and a parse fault after the last document) x "
        "(load_all) consumer: m = 0..n+1 calls of next, then exhaust | close | abandon+del+gc.collect() "
        "(N = 4 quick, 6 thorough). A case is one call; non-trivial = the library opened a handle or was given a "
        "caller stream, and a fault fired or the entry is multi-document")
ASSUMPTIONS = [
    "CPython's semantics of with / try-finally / contextlib.contextmanager / generator close() and the finalisation "
    "of a dropped generator (del + gc.collect() calls close()) are trusted; the Model encodes them",
    "a library-opened file is 'closed' iff its .closed attribute is True; closes are observed at the next recorded "
    "event (stage entry, yield, return, raise), which fixes their position in the trace exactly",
    "fault injection replaces module attributes looked up at call time (demes.load_dump._load_yaml_asdict, "
    "_dump_yaml_fromdict, _no_null_values, _unstringify_infinities, _stringify_infinities, the names json / io / "
    "ruamel as referenced from load_dump, demes.Graph.fromdict / asdict / asdict_simplified, builtins.open); the "
    "wrappers call the originals when no fault is planned and are restored in a finally",
    "for load_all the recording subclass of ruamel.yaml.YAML only wraps the generator returned by load_all",
    "an abandoned (suspended, un-closed, still referenced) load_all iterator keeps its file open: outside the "
    "property; it is compared with the Model but never reported as a violation",
    "the 'simplified' flag selects which of asdict / asdict_simplified is called and does not change control flow; "
    "the Model has no such parameter",
]
EXPLANATION = ("Theorems handles_closed / call_settled / caller_stream_never_closed / iterator_settled / consumer_closed "
               "/ abandoned_iterator / unstarted_iterator / trace_faithful over the control-flow Model "
               "(Model/Handles.lean) for all entries, targets, fault stages, document counts n, fault indices k and "
               "consumer scripts; Model tied to the code by exact comparison of the event trace, final handle flags and "
               "outcome on the complete finite space above; the property itself evaluated on the real file objects.")

STAGES = ["open", "parse", "null", "unstringify", "resolve", "simplify", "serialise"]
REAL_OPEN = builtins.open


class Injected(Exception):
    """the planned fault"""

    def __init__(self, stage, k):
        super().__init__(f"injected fault at {stage} of document {k}")
        self.stage, self.k = stage, k


# ---------------------------------------------------------------------------------------------
# documents and graphs

GOOD = {"time_units": "generations", "demes": [{"name": "a", "epochs": [{"start_size": 1}]}]}


def _doc(kind):
    d = json.loads(json.dumps(GOOD))
    if kind == "null":
        d["demes"][0]["description"] = None
    elif kind == "unstringify":
        d["demes"] = 5
    elif kind == "resolve":
        d["demes"][0]["epochs"][0]["start_size"] = -1
    return d


def text(fmt, kind):
    """one document of the given format that fails naturally at stage `kind` (None = good)"""
    if kind == "parse":
        return "{" if fmt == "json" else "demes: [\n"
    d = _doc(kind)
    if fmt == "json":
        return json.dumps(d)
    if kind == "unstringify":
        return "time_units: generations\ndemes: 5\n"
    s = "time_units: generations\ndemes:\n- name: a\n"
    if kind == "null":
        s += "  description: null\n"
    s += "  epochs:\n  - start_size: %d\n" % (-1 if kind == "resolve" else 1)
    return s


def multidoc(n, fault):
    """YAML stream of n documents, the k-th failing naturally at stage s (fault = (s, k) or None);
    a parse fault at k = n is trailing garbage after the last document"""
    docs = [text("yaml", None)] * n
    if fault is not None:
        s, k = fault
        if k < n:
            docs[k] = text("yaml", s)
        elif s == "parse":
            docs.append(text("yaml", "parse"))
    return "".join("---\n" + d for d in docs)


class BadFloat:
    def __float__(self):
        raise RuntimeError("natural fault: value cannot be converted")


class Opaque:
    """no JSON / safe-YAML representation"""


_GRAPHS = {}


def graph(kind):
    """a graph that dumps fine (None), whose asdict raises ('simplify'), or that cannot be serialised"""
    if kind not in _GRAPHS:
        d = json.loads(json.dumps(GOOD))
        if kind == "serialise":
            d["metadata"] = {"x": Opaque()}
        g = demes.Graph.fromdict(d)
        if kind == "simplify":
            object.__setattr__(g.demes[0].epochs[0], "start_size", BadFloat())
        _GRAPHS[kind] = g
    return _GRAPHS[kind]


# ---------------------------------------------------------------------------------------------
# recording

def from_library():
    """was the wrapper called directly by code of demes/load_dump.py?"""
    return sys._getframe(2).f_globals.get("__name__") == "demes.load_dump"


class Recorder:
    def __init__(self, fault, inject):
        self.fault = tuple(fault) if fault else None   # (stage, k)
        self.inject = inject
        self.events = []
        self.handles = []       # objects the library created (files via open, StringIO), in order
        self.noted = []         # closed already noted?
        self.caller = None      # the caller's stream
        self.caller_noted = False
        self.counts = {}

    def sync(self):
        for i, h in enumerate(self.handles):
            if h.closed and not self.noted[i]:
                self.noted[i] = True
                self.events.append(["closed", i])
        if self.caller is not None and self.caller.closed and not self.caller_noted:
            self.caller_noted = True
            self.events.append(["caller_closed"])

    def log(self, ev):
        self.sync()
        self.events.append(ev)

    def new_handle(self, h):
        self.handles.append(h)
        self.noted.append(False)
        self.events.append(["opened", len(self.handles) - 1])

    def stage(self, name, k=None, fire=True):
        """stage `name` entered (for the k-th time unless k is given); raise the planned fault"""
        if k is None:
            k = self.counts.get(name, 0)
            self.counts[name] = k + 1
        self.log(["stage", name, k])
        if fire and self.inject and self.fault == (name, k):
            raise Injected(name, k)
        return k

    def last_stage(self):
        for ev in reversed(self.events):
            if ev[0] == "stage":
                return [ev[1], ev[2]]
            if ev[0] in ("call_open", "new_stringio"):
                return ["open", 0]
        return ["?", 0]

    def exn(self, e):
        if isinstance(e, Injected):
            return [e.stage, e.k]
        if isinstance(e, ValueError) and str(e).startswith("unknown format"):
            return ["unknown_format"]
        return self.last_stage()


class Patches:
    """install the recording / fault-injecting wrappers; restore everything on exit"""

    def __init__(self, rec, json_point="stringify"):
        self.rec = rec
        self.json_point = json_point   # where a json serialise fault is injected
        self.saved = []

    def set(self, obj, name, value):
        self.saved.append((obj, name, obj.__dict__[name] if name in obj.__dict__ else getattr(obj, name)))
        setattr(obj, name, value)

    def __enter__(self):
        rec = self.rec
        try:
            self.install(rec)
        except BaseException:
            self.__exit__(None, None, None)
            raise
        return self

    def install(self, rec):
        o_load_yaml, o_dump_yaml = ld._load_yaml_asdict, ld._dump_yaml_fromdict
        o_null, o_unstr, o_str = ld._no_null_values, ld._unstringify_infinities, ld._stringify_infinities
        o_fromdict = demes.Graph.fromdict
        o_asdict, o_asdict_s = demes.Graph.asdict, demes.Graph.asdict_simplified

        def w_open(file, *a, **kw):
            if not from_library():
                return REAL_OPEN(file, *a, **kw)
            rec.log(["call_open"])
            if isinstance(file, (str, os.PathLike)) and rec.inject and rec.fault == ("open", 0):
                raise Injected("open", 0)
            f = REAL_OPEN(file, *a, **kw)
            rec.new_handle(f)
            return f

        class RecStringIO(io.StringIO):
            def __new__(cls, *a, **kw):
                rec.log(["new_stringio"])
                if rec.inject and rec.fault == ("open", 0):
                    raise Injected("open", 0)
                return super().__new__(cls, *a, **kw)

            def __init__(self, *a, **kw):
                super().__init__(*a, **kw)
                rec.new_handle(self)

        def w_load_yaml(fp):
            if not from_library():
                return o_load_yaml(fp)
            rec.stage("parse")
            return o_load_yaml(fp)

        def w_json_load(fp, **kw):
            rec.stage("parse")
            return json.load(fp, **kw)

        def w_stringify(data):
            # first statement inside the `with` of the json branch of dump: the serialise stage starts here
            if not from_library():
                return o_str(data)
            rec.stage("serialise", fire=(self.json_point == "stringify"))
            return o_str(data)

        def w_json_dump(data, fp, **kw):
            if self.json_point == "dump":
                k = rec.counts.get("serialise", 1) - 1
                if rec.inject and rec.fault == ("serialise", k):
                    raise Injected("serialise", k)
            return json.dump(data, fp, **kw)

        def w_dump_yaml(data, fp, multidoc=False):
            if not from_library():
                return o_dump_yaml(data, fp, multidoc=multidoc)
            rec.stage("serialise")
            return o_dump_yaml(data, fp, multidoc=multidoc)

        def w_null(data):
            if not from_library():
                return o_null(data)
            rec.stage("null")
            return o_null(data)

        def w_unstr(data):
            if not from_library():
                return o_unstr(data)
            rec.stage("unstringify")
            return o_unstr(data)

        def w_fromdict(cls, data):
            if not from_library():
                return o_fromdict(data)
            rec.stage("resolve")
            return o_fromdict(data)

        def w_asdict(self_, *a, **kw):
            if not from_library():
                return o_asdict(self_, *a, **kw)
            rec.stage("simplify")
            return o_asdict(self_, *a, **kw)

        def w_asdict_s(self_):
            if not from_library():
                return o_asdict_s(self_)
            rec.stage("simplify")
            return o_asdict_s(self_)

        class RecYAML(ruamel.yaml.YAML):
            def load_all(self_, stream):
                it = super().load_all(stream)
                k = 0
                while True:
                    rec.stage("parse", k)
                    try:
                        d = next(it)
                    except StopIteration:
                        return
                    yield d
                    k += 1

        self.set(builtins, "open", w_open)
        self.set(ld, "io", types.SimpleNamespace(StringIO=RecStringIO))
        self.set(ld, "json", types.SimpleNamespace(load=w_json_load, dump=w_json_dump))
        self.set(ld, "ruamel", types.SimpleNamespace(yaml=types.SimpleNamespace(YAML=RecYAML)))
        self.set(ld, "_load_yaml_asdict", w_load_yaml)
        self.set(ld, "_dump_yaml_fromdict", w_dump_yaml)
        self.set(ld, "_no_null_values", w_null)
        self.set(ld, "_unstringify_infinities", w_unstr)
        self.set(ld, "_stringify_infinities", w_stringify)
        self.set(demes.Graph, "fromdict", classmethod(w_fromdict))
        self.set(demes.Graph, "asdict", w_asdict)
        self.set(demes.Graph, "asdict_simplified", w_asdict_s)

    def __exit__(self, *exc):
        while self.saved:
            obj, name, old = self.saved.pop()
            setattr(obj, name, old)
        return False


# ---------------------------------------------------------------------------------------------
# one case on the real code

LOADERS = {"load_asdict", "loads_asdict", "load", "loads", "load_all"}
STRING_ENTRIES = {"loads_asdict", "loads", "dumps"}
MODEL_TARGET = {"str": "path", "missing-str": "path", "dir-str": "path",
                "Path": "pathlike", "missing-Path": "pathlike", "dir-Path": "pathlike",
                "file": "stream", "StringIO": "stream", "None": "invalid", "object": "invalid"}


class Env:
    """temporary directory with cached input files"""

    def __init__(self):
        self.dir = tempfile.mkdtemp(prefix="c17-")
        self.cache = {}
        os.mkdir(os.path.join(self.dir, "a-directory"))

    def infile(self, content):
        p = self.cache.get(content)
        if p is None:
            p = os.path.join(self.dir, f"in{len(self.cache)}.txt")
            with REAL_OPEN(p, "w", encoding="utf-8") as fh:
                fh.write(content)
            self.cache[content] = p
        return p

    def close(self):
        shutil.rmtree(self.dir, ignore_errors=True)


def make_target(env, case, content):
    """(object passed as `filename`, the caller's stream or None)"""
    t = case["target"]
    reading = case["entry"] in LOADERS
    if t in ("str", "Path"):
        p = env.infile(content) if reading else os.path.join(env.dir, "out.txt")
        return (p if t == "str" else pathlib.Path(p)), None
    if t.startswith("missing"):
        p = os.path.join(env.dir, "no-such-dir", "f.txt")
        return (p if t.endswith("str") else pathlib.Path(p)), None
    if t.startswith("dir"):
        p = os.path.join(env.dir, "a-directory")
        return (p if t.endswith("str") else pathlib.Path(p)), None
    if t == "file":
        p = env.infile(content) if reading else os.path.join(env.dir, "out-stream.txt")
        f = REAL_OPEN(p, "r" if reading else "w", encoding="utf-8")
        return f, f
    if t == "StringIO":
        f = io.StringIO(content) if reading else io.StringIO()
        return f, f
    if t == "None":
        return None, None
    return object(), None


def observe(env, case):
    """run the real call described by `case`; returns the observation"""
    entry, fmt = case["entry"], case.get("format", "yaml")
    fault = case.get("fault")
    inject = case.get("mode") == "inject"
    natural = tuple(fault) if (fault and not inject) else None
    n = case.get("n", 1)
    rec = Recorder(fault, inject)
    pyfmt = "xml" if fmt == "unknown" else fmt
    tfmt = "yaml" if fmt == "unknown" else fmt
    obs = {}
    # inputs
    if entry == "load_all":
        content = multidoc(n, natural if natural and natural[0] != "open" else None)
    elif entry in LOADERS:
        content = text(tfmt, natural[0] if natural and natural[0] != "open" else None)
    else:
        content = ""
    if entry in STRING_ENTRIES:
        target, stream = None, None
        if entry != "dumps" and natural and natural[0] == "open":
            content = content.encode()       # io.StringIO(bytes) raises TypeError
    else:
        target, stream = make_target(env, case, content)
    rec.caller = stream
    if entry == "dump" or entry == "dumps":
        graphs = [graph(natural[0] if natural and natural[0] in ("simplify", "serialise") else None)]
    elif entry == "dump_all":
        graphs = [graph(natural[0] if natural and natural[0] in ("simplify", "serialise") and natural[1] == i else None)
                  for i in range(n)]
    simplified = case.get("simplified", True)
    it = None
    try:
        with Patches(rec, case.get("json_point", "stringify")):
            if entry == "load_all":
                try:
                    it = ld.load_all(target)
                except Exception as e:  # noqa: BLE001 - a generator function never raises at call time
                    rec.log(["raised_at_call"] + rec.exn(e))
                    it = iter(())
                if not hasattr(it, "close"):
                    class _Closed:
                        def __init__(self, inner): self.inner = inner
                        def __iter__(self): return self
                        def __next__(self): return next(self.inner)
                        def close(self): pass
                    it = _Closed(it)
                yielded = 0

                def one_next():
                    nonlocal yielded
                    try:
                        g = next(it)
                    except StopIteration:
                        rec.log(["stop"])
                        return "stop"
                    except Exception as e:  # noqa: BLE001
                        # observed while the exception (and its traceback) is still alive: "closed by the
                        # time the call has raised", not "closed once the caller lets go of the exception"
                        obs.setdefault("open_at_raise", []).append([not h.closed for h in rec.handles])
                        rec.log(["raised"] + rec.exn(e))
                        if isinstance(e, Injected) and (e.stage, e.k) != rec.fault:
                            obs["foreign"] = repr(e)
                        return "raised"
                    if not isinstance(g, demes.Graph):
                        obs["foreign"] = f"yielded {type(g).__name__}"
                    rec.log(["yielded", yielded])
                    yielded += 1
                    return "yielded"

                for step in case["script"]:
                    if step == "next":
                        one_next()
                    elif step == "exhaust":
                        while one_next() == "yielded":
                            pass
                    elif step == "close":
                        rec.log(["gen_close"])
                        it.close()
                        rec.sync()
                    elif step == "collect":
                        # the abandoned iterator, still referenced: observed, outside the property
                        rec.sync()
                        obs["abandoned"] = {"handles": [not h.closed for h in rec.handles],
                                            "state": (inspect.getgeneratorstate(it) if inspect.isgenerator(it) else "NOT_A_GENERATOR")}
                        rec.log(["collect"])
                        it = None
                        gc.collect()
                        rec.sync()
                rec.sync()
                obs["outcome"] = ["iterator", (inspect.getgeneratorstate(it) if inspect.isgenerator(it) else "NOT_A_GENERATOR") if it is not None else "GEN_COLLECTED"]
            else:
                try:
                    if entry == "load_asdict":
                        ld.load_asdict(target, format=pyfmt)
                    elif entry == "load":
                        ld.load(target, format=pyfmt)
                    elif entry == "loads_asdict":
                        ld.loads_asdict(content, format=pyfmt)
                    elif entry == "loads":
                        ld.loads(content, format=pyfmt)
                    elif entry == "dump":
                        ld.dump(graphs[0], target, format=pyfmt, simplified=simplified)
                    elif entry == "dumps":
                        ld.dumps(graphs[0], format=pyfmt, simplified=simplified)
                    elif entry == "dump_all":
                        ld.dump_all(graphs, target, simplified=simplified)
                    else:
                        raise KeyError(entry)
                except Exception as e:  # noqa: BLE001 - every exception is an outcome
                    obs.setdefault("open_at_raise", []).append([not h.closed for h in rec.handles])
                    rec.log(["raised"] + rec.exn(e))
                    obs["outcome"] = ["raised"] + rec.exn(e)
                    obs["exception"] = type(e).__name__
                else:
                    rec.log(["returned"])
                    obs["outcome"] = ["returned"]
        obs["trace"] = rec.events
        obs["handles"] = [not h.closed for h in rec.handles]
        obs["caller_closed"] = bool(stream.closed) if stream is not None else False
        obs["kinds"] = [type(h).__name__ for h in rec.handles]
    finally:
        it = None
        for h in rec.handles:
            if not h.closed:
                h.close()
        if stream is not None and not stream.closed:
            stream.close()
    return obs


# ---------------------------------------------------------------------------------------------
# the Model's answer and the comparison

def request(case):
    entry = case["entry"]
    r = {"op": "handles", "entry": entry, "format": case.get("format", "yaml"),
         "target": MODEL_TARGET[case.get("target", "StringIO")],
         "fault": list(case["fault"]) if case.get("fault") else None, "n": case.get("n", 1),
         "script": case.get("script", [])}
    return r


GEN_STATE = {"not_started": "GEN_CREATED", "suspended": "GEN_SUSPENDED", "exhausted": "GEN_CLOSED",
             "failed": "GEN_CLOSED", "closed": "GEN_CLOSED"}


def model_view(case, rep):
    """the Model's reply in the vocabulary of the observation"""
    m = rep["ok"]
    out = m["outcome"]
    if out[0] == "iterator":
        st = GEN_STATE[out[1]]
        if case["script"] and case["script"][-1] == "collect":
            st = "GEN_COLLECTED"
        out = ["iterator", st]
    return {"trace": m["trace"], "handles": m["handles"], "caller_closed": m["caller_closed"], "outcome": out}


def python_line(case):
    return ("cd /verif/harness && /venv/bin/python -c 'import json, props.c17 as m; e = m.Env(); "
            f'print(json.dumps(m.observe(e, json.loads(r"""{json.dumps(case)}""")), indent=1)); e.close()\'')


def judge(ctx, case, obs, rep, abandoned_rep=None):
    ctx.compared += 1
    if "ok" not in rep:
        ctx.disagreement("handles", case, obs, rep)
        return
    mv = model_view(case, rep)
    ov = {k: obs[k] for k in ("trace", "handles", "caller_closed", "outcome")}
    if ov != mv or "foreign" in obs:
        ctx.disagreement("handles", case, obs, rep["ok"])
    if abandoned_rep is not None and "abandoned" in obs:
        a = abandoned_rep.get("ok", {})
        want = {"handles": a.get("handles"), "state": GEN_STATE.get((a.get("outcome") or [None, None])[1])}
        if obs["abandoned"] != want:
            ctx.disagreement("handles (abandoned iterator)", case, obs["abandoned"], a)
    # the property, on the observations alone
    settled = obs["outcome"][0] != "iterator" or obs["outcome"][1] in ("GEN_CLOSED", "GEN_COLLECTED")
    if obs["caller_closed"] or ["caller_closed"] in obs["trace"]:
        ctx.violation(f"{case['entry']}: the caller's stream was closed by the library", case, detail=obs,
                      python=python_line(case))
    if settled and any(obs["handles"]):
        ctx.violation(f"{case['entry']}: a file opened by the library is still open after the call "
                      f"{'returned' if obs['outcome'] == ['returned'] else 'raised / the iterator finished'}",
                      case, detail=obs, python=python_line(case))
    if any(any(x) for x in obs.get("open_at_raise", [])):
        ctx.violation(f"{case['entry']}: a file opened by the library is still open at the moment the call raises "
                      "(it is closed only when the caller releases the exception)", case, detail=obs, python=python_line(case))
    opened = [e for e in obs["trace"] if e[0] == "opened"]
    fired = any(e[0] == "raised" for e in obs["trace"])
    multi = case["entry"] in ("load_all", "dump_all")
    nontrivial = bool(opened or case.get("target") in ("file", "StringIO")) and (fired or multi)
    tags = [case["entry"], "target:" + case.get("target", "string"), "fault:" + (case["fault"][0] if case.get("fault") else "none"),
            "mode:" + case.get("mode", "none"), "outcome:" + obs["outcome"][0] + ("/" + str(obs["outcome"][1]) if len(obs["outcome"]) > 1 else "")]
    ctx.count(case, nontrivial, tags)


# ---------------------------------------------------------------------------------------------
# the finite space

TARGETS = ["str", "Path", "file", "StringIO", "None", "object"]
OPEN_NATURAL = ["missing-str", "missing-Path", "dir-str", "dir-Path"]


def single_cases():
    for entry in ("load_asdict", "load"):
        nat = ["parse", "null", "unstringify"] + (["resolve"] if entry == "load" else [])
        for fmt in ("json", "yaml", "unknown"):
            for t in TARGETS:
                yield {"entry": entry, "format": fmt, "target": t, "fault": None}
                for s in STAGES:
                    yield {"entry": entry, "format": fmt, "target": t, "fault": [s, 0], "mode": "inject"}
                for s in nat:
                    yield {"entry": entry, "format": fmt, "target": t, "fault": [s, 0], "mode": "natural"}
            for t in OPEN_NATURAL:
                yield {"entry": entry, "format": fmt, "target": t, "fault": ["open", 0], "mode": "natural"}
    for entry in ("loads_asdict", "loads"):
        nat = ["open", "parse", "null", "unstringify"] + (["resolve"] if entry == "loads" else [])
        for fmt in ("json", "yaml", "unknown"):
            yield {"entry": entry, "format": fmt, "fault": None}
            for s in STAGES:
                yield {"entry": entry, "format": fmt, "fault": [s, 0], "mode": "inject"}
            for s in nat:
                yield {"entry": entry, "format": fmt, "fault": [s, 0], "mode": "natural"}
    for simplified in (True, False):
        for fmt in ("json", "yaml", "unknown"):
            base = {"format": fmt, "simplified": simplified}
            for t in TARGETS:
                yield {"entry": "dump", **base, "target": t, "fault": None}
                for s in STAGES:
                    yield {"entry": "dump", **base, "target": t, "fault": [s, 0], "mode": "inject"}
                if fmt == "json":
                    yield {"entry": "dump", **base, "target": t, "fault": ["serialise", 0], "mode": "inject", "json_point": "dump"}
                for s in ("simplify", "serialise"):
                    yield {"entry": "dump", **base, "target": t, "fault": [s, 0], "mode": "natural"}
            for t in OPEN_NATURAL:
                yield {"entry": "dump", **base, "target": t, "fault": ["open", 0], "mode": "natural"}
            yield {"entry": "dumps", **base, "fault": None}
            for s in STAGES:
                yield {"entry": "dumps", **base, "fault": [s, 0], "mode": "inject"}
            if fmt == "json":
                yield {"entry": "dumps", **base, "fault": ["serialise", 0], "mode": "inject", "json_point": "dump"}
            for s in ("simplify", "serialise"):
                yield {"entry": "dumps", **base, "fault": [s, 0], "mode": "natural"}


def dump_all_cases(nmax):
    for simplified in (True, False):
        for t in TARGETS:
            for n in range(nmax + 1):
                base = {"entry": "dump_all", "simplified": simplified, "target": t, "n": n}
                yield {**base, "fault": None}
                yield {**base, "fault": ["open", 0], "mode": "inject"}
                for k in range(n):
                    for s in ("simplify", "serialise"):
                        yield {**base, "fault": [s, k], "mode": "inject"}
                        yield {**base, "fault": [s, k], "mode": "natural"}
                # a fault planned one past the last graph never fires
                yield {**base, "fault": ["serialise", n], "mode": "inject"}
        for t in OPEN_NATURAL:
            for n in (0, 2):
                yield {"entry": "dump_all", "simplified": simplified, "target": t, "n": n, "fault": ["open", 0], "mode": "natural"}


def scripts(n):
    for m in range(n + 2):
        for end in ("exhaust", "close", "collect"):
            yield ["next"] * m + [end]


def load_all_cases(nmax):
    for t in TARGETS:
        for n in range(nmax + 1):
            plans = [(None, None), (["open", 0], "inject")]
            for k in range(n):
                for s in ("parse", "null", "unstringify", "resolve"):
                    plans.append(([s, k], "inject"))
                    plans.append(([s, k], "natural"))
            plans.append((["parse", n], "inject"))
            plans.append((["parse", n], "natural"))
            for fault, mode in plans:
                for sc in scripts(n):
                    c = {"entry": "load_all", "target": t, "n": n, "fault": fault, "script": sc}
                    if mode:
                        c["mode"] = mode
                    yield c
    for t in OPEN_NATURAL:
        for sc in scripts(1):
            yield {"entry": "load_all", "target": t, "n": 1, "fault": ["open", 0], "mode": "natural", "script": sc}


def all_cases(nmax):
    yield from single_cases()
    yield from dump_all_cases(nmax)
    yield from load_all_cases(nmax)


def extra_property_cases(ctx, env):
    """cases outside the Model's fault space, judged on the property alone: caller-supplied BINARY streams
    (the library must not close them, whether the call succeeds or fails, also after a garbage collection),
    and input files that are not valid UTF-8 (the failure happens while READING; the file the library opened
    must be closed by the time the call raises)"""
    g = graph(None)
    text_yaml = text("yaml", None)
    text_json = text("json", None)
    # ---- binary caller streams
    def writers():
        yield "dump", "json", lambda f: ld.dump(g, f, format="json")
        yield "dump", "yaml", lambda f: ld.dump(g, f, format="yaml")
        yield "dump_all", "yaml", lambda f: ld.dump_all([g, g], f)
    def readers():
        yield "load", "yaml", text_yaml, lambda f: ld.load(f, format="yaml")
        yield "load", "json", text_json, lambda f: ld.load(f, format="json")
        yield "load_asdict", "yaml", text_yaml, lambda f: ld.load_asdict(f, format="yaml")
        yield "load_asdict", "json", text_json, lambda f: ld.load_asdict(f, format="json")
        yield "load_all", "yaml", text_yaml, lambda f: list(ld.load_all(f))
    def check_stream(entry, fmt, kind, stream, call):
        case = {"entry": entry, "format": fmt, "target": kind, "extra": "binary caller stream"}
        ctx.count(case, True, tags=[entry, "target:" + kind, "extra:binary_stream"])
        outcome = "returned"
        try:
            call(stream)
        except Exception as e:  # noqa: BLE001 - TypeError on the unchanged tree: a text writer on a binary stream
            outcome = "raised " + type(e).__name__
        gc.collect()
        if stream.closed:
            ctx.violation(f"{entry}: the caller's stream was closed by the library", case, detail={"outcome": outcome},
                          python=f"import io, demes; s = io.BytesIO(); ... demes.{entry}(..., s{', format=' + repr(fmt) if entry == 'dump' else ''}); assert not s.closed")
        else:
            stream.close()
    for entry, fmt, call in writers():
        check_stream(entry, fmt, "BytesIO", io.BytesIO(), call)
        check_stream(entry, fmt, "binary file", REAL_OPEN(os.path.join(env.dir, "out-binary.bin"), "wb"), call)
    for entry, fmt, content, call in readers():
        check_stream(entry, fmt, "BytesIO", io.BytesIO(content.encode()), call)
        pth = os.path.join(env.dir, "in-binary.bin")
        with REAL_OPEN(pth, "wb") as fh:
            fh.write(content.encode())
        check_stream(entry, fmt, "binary file", REAL_OPEN(pth, "rb"), call)
    # ---- input that is not valid UTF-8
    bad = os.path.join(env.dir, "latin1.txt")
    with REAL_OPEN(bad, "wb") as fh:
        fh.write("description: caf\u00e9 model\ntime_units: generations\ndemes:\n- name: A\n  epochs:\n  - start_size: 100\n".encode("latin-1"))
    for entry, fmt, _content, call in readers():
        for kind, target in (("str", bad), ("Path", pathlib.Path(bad))):
            case = {"entry": entry, "format": fmt, "target": kind, "extra": "file that is not valid UTF-8"}
            ctx.count(case, True, tags=[entry, "target:" + kind, "extra:bad_utf8"])
            opened = []

            def tracking_open(file, *a, **kw):
                f = REAL_OPEN(file, *a, **kw)
                opened.append(f)
                return f
            builtins.open = tracking_open
            try:
                try:
                    call(target)
                    still = []
                except Exception:  # noqa: BLE001 - observed while the exception is alive
                    still = [f for f in opened if not f.closed]
            finally:
                builtins.open = REAL_OPEN
            if still:
                ctx.violation(f"{entry}: a file opened by the library is still open at the moment the call raises", case,
                              python=f"write a latin-1 encoded document to a file and call demes.{entry}(path{', format=' + repr(fmt) if entry != 'load_all' else ''}) with builtins.open tracked")
            for f in opened:
                if not f.closed:
                    f.close()


def run_batch(ctx, env, cases):
    reqs = []
    for c in cases:
        reqs.append(request(c))
        if c["entry"] == "load_all" and c["script"][-1] == "collect":
            r = request(c)
            r["script"] = c["script"][:-1]
            reqs.append(r)
    reps = iter(ctx.driver.batch(reqs))
    for c in cases:
        rep = next(reps)
        arep = next(reps) if (c["entry"] == "load_all" and c["script"][-1] == "collect") else None
        obs = observe(env, c)
        judge(ctx, c, obs, rep, arep)


def run(ctx):
    nmax = 4 if ctx.tier == "quick" else 6
    env = Env()
    saved = {k: ld.__dict__[k] for k in ("io", "json", "ruamel", "_load_yaml_asdict", "_dump_yaml_fromdict",
                                         "_no_null_values", "_unstringify_infinities", "_stringify_infinities")}
    complete = True
    # the existing heap is of no interest to the gc.collect() of the "abandoned iterator" cases
    gc.collect()
    gc.freeze()
    try:
        extra_property_cases(ctx, env)
        batch = []
        for c in all_cases(nmax):
            batch.append(c)
            if len(batch) >= 2000:
                run_batch(ctx, env, batch)
                batch = []
                if ctx.time_left() < 5:
                    complete = False
                    break
        if batch and complete:
            run_batch(ctx, env, batch)
    finally:
        gc.unfreeze()
        env.close()
    # the patches are gone
    for k, v in saved.items():
        assert ld.__dict__[k] is v, k
    assert builtins.open is REAL_OPEN
    ctx.exhaustive = complete
    ctx.extra["scope"] = {"max_documents": nmax, "complete": complete}
    if not complete:
        ctx.notes.append("time budget reached before the enumeration was complete")


def replay(ctx, payload):
    case = payload.get("input") or (payload.get("disagreements") or [{}])[0].get("input")
    if not case:
        print("nothing to replay:", list(payload))
        return 0
    env = Env()
    try:
        obs = observe(env, case)
    finally:
        env.close()
    rep = ctx.driver.batch([request(case)])[0]
    print("case:          ", json.dumps(case))
    print("implementation:", json.dumps(obs))
    print("model:         ", json.dumps(rep))
    return 0
