/-
  Semantic tie of `ms.build_graph` (C08): its tests on population indices, times, growth rates, counts and
  lineage proportions.

  `Generated.guard_ms_*` are the translated `if` tests; `convertPopulationId`, `epochResolve`,
  `migrationMatrixAt`, `finaliseGrowth`, `applyParams` and the `-eG`, `-eg`, `-em`, `-ema` branches of `stepEvent`
  (`Model/Ms.lean`) are proved equal, for ALL inputs, to their `…With` forms (Proofs/Guards2Ms.lean) over them.
  The tests on sizes (symbolic in the Model), on `joined` inside the matrix loops and the `isinstance` dispatch
  are not translated; `guards_tests_ms_build` pins the text of every `if` of the function.
-/
import DemesVerif.Generated.GuardsMsBuild
import DemesVerif.Proofs.Guards2Ms
namespace Demes.Tables
open Demes Demes.Ms Demes.Proofs.Guards Demes.Proofs.Guards2
set_option linter.unusedSimpArgs false

theorem guards_sites_ms_build : Generated.guardSitesMsBuild = [("build_graph", 36, 6)] := by decide +kernel

theorem guards_context_ms_build : Generated.guardContextMsBuild =
    [
     ("guard_ms_bad_id", ["FunctionDef"]),
     ("guard_ms_joined_id", ["FunctionDef"]),
     ("guard_ms_outside", ["FunctionDef"]),
     ("guard_ms_new_epoch", ["FunctionDef"]),
     ("guard_ms_new_matrix", ["FunctionDef"]),
     ("guard_ms_growth_all", ["for (v16, v17) in itertools.groupby(args.initial_state + args.demographic_events, operator.attrgetter('t'))", "for v23 in v19", "if isinstance(v23, GrowthRateChange)", "for (v5, v25) in enumerate(v4.data['demes'])", "if v5 not in v3"]),
     ("guard_ms_growth_one", ["for (v16, v17) in itertools.groupby(args.initial_state + args.demographic_events, operator.attrgetter('t'))", "for v23 in v19", "else of if isinstance(v23, GrowthRateChange)", "if isinstance(v23, PopulationGrowthRateChange)"]),
     ("guard_ms_diagonal", ["for (v16, v17) in itertools.groupby(args.initial_state + args.demographic_events, operator.attrgetter('t'))", "for v23 in v19", "else of if isinstance(v23, GrowthRateChange)", "else of if isinstance(v23, PopulationGrowthRateChange)", "else of if isinstance(v23, SizeChange)", "else of if isinstance(v23, PopulationSizeChange)", "else of if isinstance(v23, MigrationRateChange)", "if isinstance(v23, MigrationMatrixEntryChange)"]),
     ("guard_ms_npop", ["for (v16, v17) in itertools.groupby(args.initial_state + args.demographic_events, operator.attrgetter('t'))", "for v23 in v19", "else of if isinstance(v23, GrowthRateChange)", "else of if isinstance(v23, PopulationGrowthRateChange)", "else of if isinstance(v23, SizeChange)", "else of if isinstance(v23, PopulationSizeChange)", "else of if isinstance(v23, MigrationRateChange)", "else of if isinstance(v23, MigrationMatrixEntryChange)", "if isinstance(v23, MigrationMatrixChange)"]),
     ("guard_ms_foreign", ["for (v16, v17) in itertools.groupby(args.initial_state + args.demographic_events, operator.attrgetter('t'))", "for (v5, v32, v46) in v22", "for (v49, v50) in enumerate(v21[v5])"]),
     ("guard_ms_no_foreign", ["for (v16, v17) in itertools.groupby(args.initial_state + args.demographic_events, operator.attrgetter('t'))", "for (v5, v32, v46) in v22"]),
     ("guard_ms_replaced", ["for (v16, v17) in itertools.groupby(args.initial_state + args.demographic_events, operator.attrgetter('t'))", "for (v5, v32, v46) in v22"]),
     ("guard_ms_growing", ["for v25 in v4.data['demes']"]),
     ("guard_ms_infinite", ["for v25 in v4.data['demes']", "if v24 != 0"])] := by decide +kernel

theorem guards_tests_ms_build : Generated.guardTestsMsBuild =
    [
     (0, "args.structure is not None", false),
     (1, "v0 > 1", false),
     (2, "p0 < 1 or p0 > v0", true),
     (3, "v7 in v3", true),
     (4, "not v9 > p2 >= v10", true),
     (5, "p2 > v10", false),
     (6, "p3 > v2[0]", false),
     (7, "isinstance(v23, GrowthRateChange)", false),
     (8, "v5 not in v3", false),
     (9, "v27 != v24", false),
     (10, "isinstance(v23, PopulationGrowthRateChange)", false),
     (11, "v27 != v24", false),
     (12, "isinstance(v23, SizeChange)", false),
     (13, "v5 not in v3", false),
     (14, "v27 != 0 or v26['end_size'] != v30", false),
     (15, "isinstance(v23, PopulationSizeChange)", false),
     (16, "v27 != 0 or v26['end_size'] != v30", false),
     (17, "'-en' in v23.option_strings", false),
     (18, "isinstance(v23, MigrationRateChange)", false),
     (19, "v5 not in v3", false),
     (20, "v5 != v32 and v32 not in v3", false),
     (21, "isinstance(v23, MigrationMatrixEntryChange)", false),
     (22, "v33 == v34", true),
     (23, "isinstance(v23, MigrationMatrixChange)", false),
     (24, "'-ma' in v23.option_strings", false),
     (25, "v23.npop != v0", true),
     (26, "v5 != v32", false),
     (27, "isinstance(v23, Join)", false),
     (28, "v41 == v36", false),
     (29, "v32 != v36", false),
     (30, "isinstance(v23, Split)", false),
     (31, "v5 != v49 and v50 > 0", false),
     (32, "len(v47) == 0", false),
     (33, "v51 == 0", false),
     (34, "v24 != 0", false),
     (35, "math.isinf(v52)", true)] := by decide +kernel

/-! ### `convert_population_id` -/

theorem guard_ms_bad_id_meaning (i : Int) (n : Nat) :
    Generated.guard_ms_bad_id (p0 := .fin (i : Q)) (v0 := .fin (n : Q))
      = (decide (i < 1) || decide (i > (n : Int))) := by
  unfold Generated.guard_ms_bad_id
  have h1 : ((i : Q) < 1) ↔ i < 1 := by exact_mod_cast Iff.rfl
  have h2 : ((n : Q) < (i : Q)) ↔ (n : Int) < i := by exact_mod_cast Iff.rfl
  simp [lt_fin_fin, h1, h2]

theorem guard_ms_joined_id_meaning (joined : List Nat) (pid : Nat) :
    Generated.guard_ms_joined_id (v3 := joined) (v7 := pid) = joined.contains pid := by
  unfold Generated.guard_ms_joined_id
  first | rfl | simp

theorem guards_tie_convert_population_id : convertPopulationId = convertPopulationIdWith
    (fun i n => Generated.guard_ms_bad_id (p0 := i) (v0 := n))
    (fun js p => Generated.guard_ms_joined_id (v3 := js) (v7 := p)) := by
  funext s i
  unfold convertPopulationId convertPopulationIdWith
  simp only [guard_ms_bad_id_meaning, guard_ms_joined_id_meaning]
  first | done | rfl

/-! ### `epoch_resolve`, `migration_matrix_at` -/

theorem guard_ms_outside_meaning (time : Q) (start : ETime) (e : Q) :
    Generated.guard_ms_outside (p2 := .fin time) (p1_start_time := Num.ofETime start) (v8_end_time := .fin e)
      = !(decide (ETime.fin time < start) && decide (e ≤ time)) := by
  unfold Generated.guard_ms_outside
  cases start <;> guard_close

theorem guard_ms_new_epoch_meaning (time e : Q) :
    Generated.guard_ms_new_epoch (p2 := .fin time) (v8_end_time := .fin e) = decide (e < time) := by
  unfold Generated.guard_ms_new_epoch
  guard_close

theorem guards_tie_epoch_resolve : epochResolve = epochResolveWith
    (fun t s e => Generated.guard_ms_outside (p2 := t) (p1_start_time := s) (v8_end_time := e))
    (fun t e => Generated.guard_ms_new_epoch (p2 := t) (v8_end_time := e)) := by
  funext d time
  unfold epochResolve epochResolveWith
  simp only [guard_ms_outside_meaning, guard_ms_new_epoch_meaning, decide_eq_true_eq]
  first | done | rfl

theorem guard_ms_new_matrix_meaning (time e : Q) :
    Generated.guard_ms_new_matrix (p3 := .fin time) (v2_0 := .fin e) = decide (e < time) := by
  unfold Generated.guard_ms_new_matrix
  guard_close

theorem guards_tie_migration_matrix_at : migrationMatrixAt = migrationMatrixAtWith
    (fun t e => Generated.guard_ms_new_matrix (p3 := t) (v2_0 := e)) := by
  funext s time
  unfold migrationMatrixAt migrationMatrixAtWith
  simp only [guard_ms_new_matrix_meaning, decide_eq_true_eq]
  first | done | rfl

/-! ### the event loop: `-eG`, `-eg`, `-em`, `-ema` -/

theorem guard_ms_growth_all_meaning (cur new : Q) :
    Generated.guard_ms_growth_all (v27 := .fin cur) (v24 := .fin new) = decide (cur ≠ new) := by
  unfold Generated.guard_ms_growth_all
  guard_close

theorem guard_ms_growth_one_meaning (cur new : Q) :
    Generated.guard_ms_growth_one (v27 := .fin cur) (v24 := .fin new) = decide (cur ≠ new) := by
  unfold Generated.guard_ms_growth_one
  guard_close

theorem guard_ms_diagonal_meaning (i j : Nat) :
    Generated.guard_ms_diagonal (v33 := .fin (i : Q)) (v34 := .fin (j : Q)) = decide (i = j) := by
  unfold Generated.guard_ms_diagonal
  have h : ((i : Q) = (j : Q)) ↔ i = j := by exact_mod_cast Iff.rfl
  simp [eqIEEE_fin_fin, h]

theorem guard_ms_npop_meaning (npop : Int) (n : Nat) :
    Generated.guard_ms_npop (v23_npop := .fin (npop : Q)) (v0 := .fin (n : Q)) = decide (npop ≠ (n : Int)) := by
  unfold Generated.guard_ms_npop
  have h : ((npop : Q) = (n : Q)) ↔ npop = (n : Int) := by exact_mod_cast Iff.rfl
  simp [eqIEEE_fin_fin, h]

theorem guards_tie_step_event : stepEvent = stepEventWith
    (fun c n => Generated.guard_ms_growth_all (v27 := c) (v24 := n))
    (fun c n => Generated.guard_ms_growth_one (v27 := c) (v24 := n))
    (fun i j => Generated.guard_ms_diagonal (v33 := i) (v34 := j))
    (fun p n => Generated.guard_ms_npop (v23_npop := p) (v0 := n)) := by
  funext N0 time sg ev
  obtain ⟨s, g⟩ := sg
  cases ev <;>
    simp only [stepEvent, stepEventWith, guard_ms_growth_all_meaning, guard_ms_growth_one_meaning,
      guard_ms_diagonal_meaning, guard_ms_npop_meaning, decide_eq_true_eq] <;>
    first | done | rfl

/-! ### after a time group: ancestry or pulses -/

theorem guard_ms_foreign_meaning (j o : Nat) (p : Q) :
    Generated.guard_ms_foreign (v5 := .fin (j : Q)) (v49 := .fin (o : Q)) (v50 := .fin p)
      = (decide (j ≠ o) && decide (p > 0)) := by
  unfold Generated.guard_ms_foreign
  have h : ((j : Q) = (o : Q)) ↔ j = o := by exact_mod_cast Iff.rfl
  simp [eqIEEE_fin_fin, lt_fin_fin, h]

theorem guard_ms_no_foreign_meaning {α} (xs : List α) :
    Generated.guard_ms_no_foreign (len_v47 := xs.length) = xs.isEmpty := by
  unfold Generated.guard_ms_no_foreign
  cases xs <;> simp

theorem guard_ms_replaced_meaning (x : Q) :
    Generated.guard_ms_replaced (v21_v5_v5 := .fin x) = decide (x = 0) := by
  unfold Generated.guard_ms_replaced
  guard_close

theorem guards_tie_apply_params : applyParams = applyParamsWith
    (fun j o p => Generated.guard_ms_foreign (v5 := j) (v49 := o) (v50 := p))
    (fun n => Generated.guard_ms_no_foreign (len_v47 := n))
    (fun x => Generated.guard_ms_replaced (v21_v5_v5 := x)) := by
  funext time s g
  unfold applyParams applyParamsWith
  simp only [guard_ms_foreign_meaning, guard_ms_no_foreign_meaning, guard_ms_replaced_meaning, decide_eq_true_eq]
  first | done | rfl

/-! ### the oldest epochs -/

theorem guard_ms_growing_meaning (x : Q) :
    Generated.guard_ms_growing (v24 := .fin x) = decide (x ≠ 0) := by
  unfold Generated.guard_ms_growing
  guard_close

theorem guard_ms_infinite_meaning (t : ETime) :
    Generated.guard_ms_infinite (v52 := Num.ofETime t) = t.isInf := by
  unfold Generated.guard_ms_infinite
  cases t <;> guard_close

theorem guards_tie_finalise_growth : finaliseGrowth = finaliseGrowthWith
    (fun x => Generated.guard_ms_growing (v24 := x))
    (fun t => Generated.guard_ms_infinite (v52 := t)) := by
  funext d
  unfold finaliseGrowth finaliseGrowthWith
  simp only [guard_ms_growing_meaning, guard_ms_infinite_meaning, decide_eq_true_eq]
  cases d.epochs with
  | nil => rfl
  | cons e r => cases d.startTime <;> simp [ETime.isInf]

end Demes.Tables
