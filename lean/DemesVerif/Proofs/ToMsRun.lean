/-
  C07 — the interpreter `msSemG`: generic facts (ordering, time groups, the pure step that a
  well-addressed option performs).
-/
import DemesVerif.Spec.C07Sem
import DemesVerif.Proofs.ToMsNumbering
set_option linter.unusedSimpArgs false
set_option linter.unusedVariables false
namespace Demes.Proofs.ToMs
open Demes Demes.Ms Demes.Spec Demes.Spec.C07 Demes.Proofs.RV
open Demes.Spec.MsSem (Row Mat matGet matSet canonRows Move DemogSem PopSem Seg MigSeg)

/-! ### ordering the options -/

theorem insertEv_eq (e : Event Growth) : ∀ l, insertEv e l = insertBy byQ e l
  | [] => rfl
  | d :: ds => by
    simp only [insertEv, insertBy, byQ, decide_eq_true_eq]
    split
    · rfl
    · rw [insertEv_eq e ds]

theorem foldr_insertEv (l : List (Event Growth)) : l.foldr insertEv [] = sortBy byQ l := by
  induction l with
  | nil => rfl
  | cons e l ih => simp only [List.foldr_cons, ih, insertEv_eq, sortBy_cons]

/-! ### time groups -/

theorem flatten_groupEv (e : Event Growth) (gs : List (List (Event Growth))) :
    (groupEv e gs).flatten = e :: gs.flatten := by
  unfold groupEv
  split
  · split <;> simp
  · simp

theorem flatten_groupsByTime (evs : List (Event Growth)) : (groupsByTime evs).flatten = evs := by
  induction evs with
  | nil => rfl
  | cons e evs ih =>
    simp only [groupsByTime, List.foldr_cons] at ih ⊢
    rw [flatten_groupEv, ih]

/-! ### `set` and `modify` -/

theorem set_eq_modify {α} (l : List α) (i : Nat) (p : α) (f : α → α) (h : l[i]? = some p) :
    l.set i (f p) = l.modify i f := by
  apply List.ext_getElem?
  intro k
  rw [List.getElem?_set, List.getElem?_modify]
  by_cases hik : i = k
  · subst hik
    have hlt : i < l.length := (List.getElem?_eq_some_iff.mp h).1
    have hp : l[i] = p := (List.getElem?_eq_some_iff.mp h).2
    simp [hlt, h, hp]
  · simp [hik]

/-! ### the pure step -/

/-- position of population `i` -/
def idx (i : Int) : Nat := (i - 1).toNat

def updPop (s : StG) (i : Int) (f : PopG → PopG) : StG := { s with pops := s.pops.modify (idx i) f }

def extendMat (m : Mat) (n : Nat) : Mat := m.map (fun r => r ++ [0]) ++ [List.replicate (n + 1) 0]

def zeroRC (m : Mat) (n k : Nat) : Mat :=
  (List.range n).map (fun a => (List.range n).map (fun b => if a = k || b = k then 0 else matGet m a b))

def stepP (N0 : Q) (s : StG) (e : Event Growth) : StG :=
  let T := 4 * N0 * evT e
  let n := s.pops.length
  match e with
  | .popSizeChange _ t i (.fin x) =>
    updPop s i (fun p => { p with upd := p.upd ++ [⟨T, some (x * N0), if numPos t then some .zero else none⟩] })
  | .popGrowthRateChange _ _ i a => updPop s i (fun p => { p with upd := p.upd ++ [⟨T, none, some a⟩] })
  | .migEntryChange _ _ i j (.fin m) => s.snap T (matSet s.mat (idx i) (idx j) (m / (4 * N0)))
  | .split _ _ _ (.fin _) =>
    ({ s with pops := s.pops ++ [({ lo := T, upd := [⟨T, some N0, some .zero⟩] } : PopG)] }).snap T (extendMat s.mat n)
  | .join _ _ i _ => (updPop s i (fun p => { p with hi := .fin T })).snap T (zeroRC s.mat n (idx i))
  | _ => s

/-- population `i` exists and has not been joined -/
def AliveIn (s : StG) (i : Int) : Prop := 1 ≤ i ∧ ∃ p, s.pops[idx i]? = some p ∧ p.hi = .inf

/-- the option is well addressed in state `s` -/
def OkEv (s : StG) : Event Growth → Prop
  | .popSizeChange _ t i x => (∃ q, t = .fin q) ∧ (∃ y, x = .fin y) ∧ AliveIn s i
  | .popGrowthRateChange _ t i _ => (∃ q, t = .fin q) ∧ AliveIn s i
  | .migEntryChange _ t i j r => (∃ q, t = .fin q) ∧ (∃ y, r = .fin y) ∧ AliveIn s i ∧ AliveIn s j ∧ i ≠ j
  | .split _ t i p => (∃ q, t = .fin q) ∧ (∃ y, p = .fin y ∧ 0 ≤ y ∧ y ≤ 1) ∧ AliveIn s i
  | .join _ t i j => (∃ q, t = .fin q) ∧ AliveIn s i ∧ AliveIn s j ∧ i ≠ j
  | _ => False

theorem pop_ok {s : StG} {i : Int} (h : AliveIn s i) :
    ∃ p, s.pops[idx i]? = some p ∧ p.hi = .inf ∧ s.pop i = .ok p := by
  obtain ⟨h1, p, hp, hhi⟩ := h
  refine ⟨p, hp, hhi, ?_⟩
  have : ¬ i < 1 := by omega
  unfold idx at hp
  unfold StG.pop
  rw [if_neg this]
  simp only [hp, aliveG, hhi, decide_true, if_true]
  rfl

theorem stepSt_ok {N0 : Q} {s : StG} {e : Event Growth} (h : OkEv s e) : stepSt N0 s e = .ok (stepP N0 s e) := by
  cases e with
  | popSizeChange o t i x =>
    obtain ⟨⟨q, rfl⟩, ⟨y, rfl⟩, ha⟩ := h
    obtain ⟨p, hp, _, hpop⟩ := pop_ok ha
    simp only [stepSt, Event.t, hpop, bind, Except.bind, pure, Except.pure, stepP, evT, StG.setPop, updPop, idx]
    rw [set_eq_modify _ _ p (fun p => { p with upd := p.upd ++ [⟨4 * N0 * q, some (y * N0), if numPos (.fin q) then some .zero else none⟩] }) (show s.pops[(i - 1).toNat]? = some p from hp)]
  | popGrowthRateChange o t i a =>
    obtain ⟨⟨q, rfl⟩, ha⟩ := h
    obtain ⟨p, hp, _, hpop⟩ := pop_ok ha
    simp only [stepSt, Event.t, hpop, bind, Except.bind, pure, Except.pure, stepP, evT, StG.setPop, updPop, idx]
    rw [set_eq_modify _ _ p (fun p => { p with upd := p.upd ++ [⟨4 * N0 * q, none, some a⟩] }) (show s.pops[(i - 1).toNat]? = some p from hp)]
  | migEntryChange o t i j r =>
    obtain ⟨⟨q, rfl⟩, ⟨y, rfl⟩, hi, hj, hne⟩ := h
    obtain ⟨_, _, _, hpi⟩ := pop_ok hi
    obtain ⟨_, _, _, hpj⟩ := pop_ok hj
    simp [stepSt, Event.t, hpi, hpj, hne, bind, Except.bind, pure, Except.pure, stepP, evT, idx]
  | split o t i p =>
    obtain ⟨⟨q, rfl⟩, ⟨y, rfl, h0, h1⟩, hi⟩ := h
    obtain ⟨_, _, _, hpi⟩ := pop_ok hi
    have : ¬ (y < 0 ∨ 1 < y) := by grind
    simp [stepSt, Event.t, hpi, this, bind, Except.bind, pure, Except.pure, stepP, evT, extendMat]
  | join o t i j =>
    obtain ⟨⟨q, rfl⟩, hi, hj, hne⟩ := h
    obtain ⟨p, hp, _, hpi⟩ := pop_ok hi
    obtain ⟨_, _, _, hpj⟩ := pop_ok hj
    simp only [stepSt, Event.t, hpi, hpj, hne, if_false, bind, Except.bind, pure, Except.pure, stepP, evT, StG.setPop,
      updPop, zeroRC, idx]
    rw [set_eq_modify _ _ p (fun p => { p with hi := .fin (4 * N0 * q) }) (show s.pops[(i - 1).toNat]? = some p from hp)]
    rfl
  | growthRateChange => exact h.elim
  | sizeChange => exact h.elim
  | migRateChange => exact h.elim
  | migMatrixChange => exact h.elim

/-! ### running a list of options -/

def runP (N0 : Q) (s : StG) (evs : List (Event Growth)) : StG := evs.foldl (stepP N0) s

theorem runP_append (N0 : Q) (s : StG) (a b : List (Event Growth)) : runP N0 s (a ++ b) = runP N0 (runP N0 s a) b := by
  simp [runP, List.foldl_append]

theorem runP_cons (N0 : Q) (s : StG) (e : Event Growth) (r : List (Event Growth)) :
    runP N0 s (e :: r) = runP N0 (stepP N0 s e) r := rfl

theorem run_ok {N0 : Q} : ∀ (evs : List (Event Growth)) (s : StG),
    (∀ pre e post, evs = pre ++ e :: post → OkEv (runP N0 s pre) e) →
    evs.foldlM (stepSt N0) s = .ok (runP N0 s evs)
  | [], _, _ => rfl
  | e :: r, s, h => by
    have h0 : OkEv s e := h [] e r rfl
    rw [List.foldlM_cons, stepSt_ok h0]
    simp only [bind, Except.bind]
    exact run_ok r _ (fun pre e' post hr => by
      have := h (e :: pre) e' post (by rw [hr]; rfl)
      exact this)

/-! ### the moves do not influence the run -/

/-- same populations, matrix and snapshots -/
def CoreEq (s s' : StG) : Prop := s.pops = s'.pops ∧ s.mat = s'.mat ∧ s.snaps = s'.snaps

theorem CoreEq.refl (s : StG) : CoreEq s s := ⟨rfl, rfl, rfl⟩

theorem stepP_core {N0 : Q} {s s' : StG} (h : CoreEq s s') (e : Event Growth) : CoreEq (stepP N0 s e) (stepP N0 s' e) := by
  obtain ⟨h1, h2, h3⟩ := h
  cases e with
  | popSizeChange o t i x => cases x <;> simp [stepP, updPop, CoreEq, h1, h2, h3]
  | popGrowthRateChange o t i a => simp [stepP, updPop, CoreEq, h1, h2, h3]
  | migEntryChange o t i j r => cases r <;> simp [stepP, StG.snap, CoreEq, h1, h2, h3]
  | split o t i p => cases p <;> simp [stepP, StG.snap, CoreEq, h1, h2, h3]
  | join o t i j => simp [stepP, StG.snap, updPop, CoreEq, h1, h2, h3]
  | growthRateChange => exact ⟨h1, h2, h3⟩
  | sizeChange => exact ⟨h1, h2, h3⟩
  | migRateChange => exact ⟨h1, h2, h3⟩
  | migMatrixChange => exact ⟨h1, h2, h3⟩

theorem stepP_moves (N0 : Q) (s : StG) (e : Event Growth) : (stepP N0 s e).moves = s.moves := by
  cases e with
  | popSizeChange o t i x => cases x <;> rfl
  | migEntryChange o t i j r => cases r <;> rfl
  | split o t i p => cases p <;> rfl
  | _ => rfl

theorem runP_core {N0 : Q} : ∀ (evs : List (Event Growth)) {s s' : StG}, CoreEq s s' → CoreEq (runP N0 s evs) (runP N0 s' evs)
  | [], _, _, h => h
  | e :: r, _, _, h => runP_core r (stepP_core h e)

theorem runP_moves (N0 : Q) : ∀ (evs : List (Event Growth)) (s : StG), (runP N0 s evs).moves = s.moves
  | [], _ => rfl
  | e :: r, s => by rw [runP_cons, runP_moves N0 r, stepP_moves]

theorem aliveIn_core {s s' : StG} (h : CoreEq s s') (i : Int) : AliveIn s i ↔ AliveIn s' i := by
  unfold AliveIn; rw [h.1]

theorem okEv_core {s s' : StG} (h : CoreEq s s') (e : Event Growth) : OkEv s e ↔ OkEv s' e := by
  cases e <;> simp only [OkEv, aliveIn_core h]

/-! ### running the time groups -/

def newMoves (N0 : Q) (s : StG) (grp : List (Event Growth)) : List Move :=
  if grp.any isSplitJoin then
    let rows := canonRows (grp.foldl stepRow (s.pops.length, rows0 s)).2
    if rows.isEmpty then [] else [{ time := 4 * N0 * ((grp.head?.map evT).getD 0), rows := rows }]
  else []

theorem newMoves_core {N0 : Q} {s s' : StG} (h : CoreEq s s') (grp : List (Event Growth)) :
    newMoves N0 s grp = newMoves N0 s' grp := by
  unfold newMoves rows0; rw [h.1]

theorem stepGroupG_ok {N0 : Q} {s s' : StG} {grp : List (Event Growth)} (h : grp.foldlM (stepSt N0) s = .ok s') :
    stepGroupG N0 s grp = .ok { s' with moves := s'.moves ++ newMoves N0 s grp } := by
  unfold stepGroupG newMoves
  rw [h]
  simp only [bind, Except.bind]
  by_cases hsj : grp.any isSplitJoin = true
  · simp only [hsj, if_true]
    split <;> simp [pure, Except.pure]
  · simp [hsj, pure, Except.pure]

/-- the moves recorded by the groups `gs` run from `s` -/
def movesOf (N0 : Q) : StG → List (List (Event Growth)) → List Move
  | _, [] => []
  | s, grp :: gs => newMoves N0 s grp ++ movesOf N0 (runP N0 s grp) gs

theorem movesOf_core {N0 : Q} : ∀ (gs : List (List (Event Growth))) {s s' : StG}, CoreEq s s' →
    movesOf N0 s gs = movesOf N0 s' gs
  | [], _, _, _ => rfl
  | grp :: gs, _, _, h => by
    simp only [movesOf]
    rw [newMoves_core h, movesOf_core gs (runP_core grp h)]

theorem groups_ok {N0 : Q} : ∀ (gs : List (List (Event Growth))) (s : StG),
    (∀ pre e post, gs.flatten = pre ++ e :: post → OkEv (runP N0 s pre) e) →
    ∃ s', gs.foldlM (stepGroupG N0) s = .ok s' ∧ CoreEq s' (runP N0 s gs.flatten)
      ∧ s'.moves = s.moves ++ movesOf N0 s gs
  | [], s, _ => ⟨s, rfl, CoreEq.refl _, by simp [movesOf]⟩
  | grp :: gs, s, h => by
    have hgrp : grp.foldlM (stepSt N0) s = .ok (runP N0 s grp) := run_ok grp s (fun pre e post hg => by
      apply h pre e (post ++ gs.flatten)
      rw [List.flatten_cons, hg]; simp)
    obtain ⟨s1, hs1⟩ : ∃ s1 : StG, s1 = { runP N0 s grp with moves := (runP N0 s grp).moves ++ newMoves N0 s grp } :=
      ⟨_, rfl⟩
    have hcore : CoreEq s1 (runP N0 s grp) := by rw [hs1]; exact ⟨rfl, rfl, rfl⟩
    have hm1 : s1.moves = s.moves ++ newMoves N0 s grp := by
      rw [hs1]; show (runP N0 s grp).moves ++ _ = _; rw [runP_moves]
    obtain ⟨s', h1, h2, h3⟩ := groups_ok gs s1
      (fun pre e post hg => by
        rw [okEv_core (runP_core pre hcore)]
        rw [← runP_append]
        apply h (grp ++ pre) e post
        rw [List.flatten_cons, hg]; simp)
    refine ⟨s', ?_, ?_, ?_⟩
    · rw [List.foldlM_cons, stepGroupG_ok hgrp, ← hs1]
      exact h1
    · rw [List.flatten_cons, runP_append]
      exact ⟨h2.1.trans (runP_core _ hcore).1, h2.2.1.trans (runP_core _ hcore).2.1, h2.2.2.trans (runP_core _ hcore).2.2⟩
    · rw [h3, hm1, movesOf_core gs hcore, movesOf, List.append_assoc]

end Demes.Proofs.ToMs
