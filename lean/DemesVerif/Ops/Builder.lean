/-
  Driver ops for the Builder route.

    {"op": "builder", "calls": [[method, kwargs], ...], "start": value?, "trace": bool?}
       method  "init" | "add_deme" | "add_migration" | "add_pulse" | "resolve"
       kwargs  an ordered mapping (wire `{"o": [...]}`) of the keyword arguments that are passed
               (`add_deme`'s positional `name` under the key "name"); an omitted key = not passed
       start   if present, the Builder is `Builder.fromdict(start)`, else `Builder()`
     -> {"data": value, "steps": [...], "datas": [...] (if trace)}
       steps[i]  for `resolve`: {"ok": asdict, "index": ...} | {"err": class, "msg": ...};
                 for the other calls: {"raised": bool}

    {"op": "builder_of_doc", "doc": mapping}
     -> {"form": bool, "ordered": bool, "data": Builder.run (callsOfDoc doc), "ncalls": n}
-/
import DemesVerif.Ops.Core
import DemesVerif.Spec.Builder
namespace Demes.Ops.Builder
open Lean Demes Demes.Wire Demes.Ops.Core Demes.Spec.BuilderRoute

def kwargsOk (allowed : List String) (kw : Obj) : Bool := kw.all (fun kv => allowed.contains kv.1)

def parseCall (j : Json) : Except String BuilderCall :=
  match j with
  | .arr #[.str method, kwJ] => do
    let kwV ← toValue kwJ
    let kw ← match kwV with
      | .obj kvs => pure kvs
      | _ => throw "kwargs must be a mapping"
    let get (k : String) : Option Value := Obj.lookup k kw
    if method = "init" then
      if !kwargsOk ["description", "time_units", "generation_time", "doi", "defaults", "metadata"] kw then
        throw "unknown keyword"
      pure (.init (get "description") (get "time_units") (get "generation_time") (get "doi")
        (get "defaults") (get "metadata"))
    else if method = "add_deme" then
      if !kwargsOk demeKeys kw then throw "unknown keyword"
      match get "name" with
      | none => throw "add_deme: name is required"
      | some name =>
        pure (.addDeme name (get "description") (get "ancestors") (get "proportions") (get "start_time")
          (get "epochs") (get "defaults"))
    else if method = "add_migration" then
      if !kwargsOk migrationKeys kw then throw "unknown keyword"
      pure (.addMigration (get "rate") (get "demes") (get "source") (get "dest") (get "start_time")
        (get "end_time"))
    else if method = "add_pulse" then
      if !kwargsOk pulseKeys kw then throw "unknown keyword"
      pure (.addPulse (get "sources") (get "dest") (get "proportions") (get "time"))
    else if method = "resolve" then pure .resolve
    else throw s!"unknown method {method}"
  | _ => throw "a call is [method, kwargs]"

def outcomeJ (r : Except Err Graph) : Json :=
  match r with
  | .error e => errJ e
  | .ok g => Json.mkObj [("ok", ofValue g.asdict), ("index", indexJ g)]

def stepJ (data : Value) (c : BuilderCall) : Json :=
  match Demes.Builder.output data c with
  | some r => outcomeJ r
  | none => Json.mkObj [("raised", .bool (Demes.Builder.raises data c))]

/-- (data after, per-call reports, data after each call) -/
def runTrace (data : Value) : List BuilderCall → Value × List Json × List Json
  | [] => (data, [], [])
  | c :: cs =>
    let data' := Demes.Builder.stepV data c
    let (final, steps, datas) := runTrace data' cs
    (final, stepJ data c :: steps, ofValue data' :: datas)

def dispatch? (op : String) (j : Json) : Option Json :=
  if op = "builder" then some <|
    match j.getObjVal? "calls" with
    | .ok (.arr cs) =>
      match cs.toList.mapM parseCall with
      | .error e => Json.mkObj [("fail", .str e)]
      | .ok calls =>
        let start : Except String Value := match j.getObjVal? "start" with
          | .ok s => (toValue s).map Demes.Builder.fromdict
          | .error _ => pure (.obj Demes.Builder.emptyData)
        match start with
        | .error e => Json.mkObj [("fail", .str e)]
        | .ok data =>
          let (final, steps, datas) := runTrace data calls
          let trace := match j.getObjValAs? Bool "trace" with | .ok b => b | _ => false
          Json.mkObj ([("data", ofValue final), ("steps", Json.arr steps.toArray)]
            ++ (if trace then [("datas", Json.arr datas.toArray)] else []))
    | _ => Json.mkObj [("fail", .str "calls")]
  else if op = "builder_of_doc" then some <|
    withValue j "doc" (fun v =>
      match v with
      | .obj d =>
        Json.mkObj [("form", .bool (builderForm d)), ("ordered", .bool (builderOrdered d)),
          ("data", ofValue (.obj (Demes.Builder.run (callsOfDoc d)))),
          ("ncalls", .num (callsOfDoc d).length)]
      | _ => Json.mkObj [("fail", .str "doc must be a mapping")])
  else none

end Demes.Ops.Builder
