/-
  Proofs for C05, parts A.4 (second half) and B — the stripped migration bounds are re-inferred
  by `Graph._add_asymmetric_migration` (Model `addAsymmetricMigration`), and the records
  emitted by the simplification are pairwise different.
-/
import DemesVerif.Spec.C05
import DemesVerif.Proofs.SimplifySearch
import DemesVerif.Proofs.Events
import DemesVerif.Proofs.Rename
import Mathlib.Tactic.Linarith
import Mathlib.Algebra.Order.Field.Basic
namespace Demes.Proofs.C05
open Demes Demes.Spec

theorem posFiniteQ_numV (q : Q) (h : 0 < q) : posFiniteQ (numV q) = .ok q := by
  have : ¬ q ≤ 0 := not_le.2 h
  simp [posFiniteQ, intOrFloat, numV, Value.asNumRaw?, Num.isNan, vPositive, Num.le, Num.zero,
    vFinite, Num.isInf, toQ, bind, Except.bind, pure, Except.pure, this]

theorem nonNegFiniteQ_numV (q : Q) (h : 0 ≤ q) : nonNegFiniteQ (numV q) = .ok q := by
  have : ¬ q < 0 := not_lt.2 h
  simp [nonNegFiniteQ, intOrFloat, numV, Value.asNumRaw?, Num.isNan, vNonNegative, Num.lt, Num.zero,
    vFinite, Num.isInf, toQ, bind, Except.bind, pure, Except.pure, this]

theorem unitQ_numV (q : Q) (h0 : 0 ≤ q) (h1 : q ≤ 1) : unitQ (numV q) = .ok q := by
  simp [unitQ, intOrFloat, numV, Value.asNumRaw?, Num.isNan, vUnitInterval, Num.le, Num.zero, Num.one,
    toQ, bind, Except.bind, pure, Except.pure, h0, h1]

theorem nonNegTime_timeV (t : ETime) (h : ETime.fin 0 ≤ t) : nonNegTime (timeV t) = .ok t := by
  cases t with
  | inf => 
    simp [nonNegTime, intOrFloat, timeV, Num.ofETime, Value.asNumRaw?, Num.isNan, vNonNegative, Num.lt, Num.zero,
      toETime, bind, Except.bind, pure, Except.pure]
  | fin q =>
    have : ¬ q < 0 := not_lt.2 h
    simp [nonNegTime, intOrFloat, timeV, Num.ofETime, Value.asNumRaw?, Num.isNan, vNonNegative, Num.lt, Num.zero,
      toETime, bind, Except.bind, pure, Except.pure, this]

/-! ### lookups in a graph with the same demes and index -/

theorem deme?_congr {g g' : Graph} (hd : g'.demes = g.demes) (hi : g'.index = g.index) (n : String) :
    g'.deme? n = g.deme? n := by
  unfold Graph.deme? Graph.indexLookup
  rw [hd, hi]

theorem hasName_of_deme? {g : Graph} {n : String} {d : Deme} (h : g.deme? n = some d) :
    g.hasName n = true := by
  unfold Graph.deme? at h
  unfold Graph.hasName
  cases hl : g.indexLookup n with
  | none => rw [hl] at h; cases h
  | some i => rfl

theorem existingName_str {g : Graph} {n : String} (h : g.hasName n = true) :
    existingName g (.str n) = .ok n := by
  simp [existingName, h, pure, Except.pure]

theorem getDeme_ok {g : Graph} {n : String} {d : Deme} (h : g.deme? n = some d) :
    getDeme g n = .ok d := by
  simp [getDeme, h, pure, Except.pure]

theorem num_le_ofETime (a b : ETime) : Num.le (Num.ofETime a) (Num.ofETime b) = decide (a ≤ b) := by
  cases a <;> cases b <;> simp [Num.ofETime, Num.le, fin_le_fin, le_inf, inf_le_fin]

theorem timeIntersection_none {g : Graph} {a b : String} {s d : Deme}
    (hs : g.deme? a = some s) (hd : g.deme? b = some d) :
    timeIntersection g a b none = .ok (qmax s.endTime d.endTime, ETime.min s.startTime d.startTime) := by
  simp [timeIntersection, getDeme_ok hs, getDeme_ok hd, bind, Except.bind, pure, Except.pure]

theorem timeIntersection_time {g : Graph} {a b : String} {s d : Deme}
    (hs : g.deme? a = some s) (hd : g.deme? b = some d) (t : ETime)
    (h1 : ETime.fin (qmax s.endTime d.endTime) ≤ t) (h2 : t ≤ ETime.min s.startTime d.startTime) :
    timeIntersection g a b (some (timeV t))
      = .ok (qmax s.endTime d.endTime, ETime.min s.startTime d.startTime) := by
  have e1 : Num.le (Num.fin (qmax s.endTime d.endTime)) (Num.ofETime t) = true := by
    show Num.le (Num.ofETime (ETime.fin (qmax s.endTime d.endTime))) (Num.ofETime t) = true
    rw [num_le_ofETime]; exact decide_eq_true h1
  have e2 : Num.le (Num.ofETime t) (Num.ofETime (ETime.min s.startTime d.startTime)) = true := by
    rw [num_le_ofETime]; exact decide_eq_true h2
  simp [timeIntersection, getDeme_ok hs, getDeme_ok hd, bind, Except.bind, pure, Except.pure, timeV,
    Value.asNumRaw?, e1, e2]

theorem timeIntersection_num {g : Graph} {a b : String} {s d : Deme}
    (hs : g.deme? a = some s) (hd : g.deme? b = some d) (q : Q)
    (h1 : qmax s.endTime d.endTime ≤ q) (h2 : ETime.fin q ≤ ETime.min s.startTime d.startTime) :
    timeIntersection g a b (some (numV q))
      = .ok (qmax s.endTime d.endTime, ETime.min s.startTime d.startTime) :=
  timeIntersection_time hs hd (ETime.fin q) h1 h2


/-! ### `stripBounds` -/

/-- the older end of the coexistence interval of the two demes, if both exist -/
def hiOf (g : Graph) (a b : String) : Option ETime :=
  match g.deme? a, g.deme? b with
  | some s, some d => some (ETime.min s.startTime d.startTime)
  | _, _ => none

def loOf (g : Graph) (a b : String) : Option Q :=
  match g.deme? a, g.deme? b with
  | some s, some d => some (qmax s.endTime d.endTime)
  | _, _ => none

theorem stripBounds_eq (g : Graph) (m : Migration) :
    stripBounds g m =
      { source := m.source, dest := m.dest,
        start := if hiOf g m.source m.dest = some m.startTime then none else some m.startTime,
        stop := if loOf g m.source m.dest = some m.endTime then none else some m.endTime,
        rate := m.rate } := rfl

/-- `start_time` / `end_time` are kept exactly when they differ from the pair's own bounds -/
theorem stripBounds_start (g : Graph) (m : Migration) :
    (stripBounds g m).start = if hiOf g m.source m.dest = some m.startTime then none else some m.startTime :=
  rfl
theorem stripBounds_stop (g : Graph) (m : Migration) :
    (stripBounds g m).stop = if loOf g m.source m.dest = some m.endTime then none else some m.endTime :=
  rfl

theorem ite_none_some_inj {α} [DecidableEq α] {o : Option α} {x y : α}
    (h : (if o = some x then none else some x) = (if o = some y then none else some y)) : x = y := by
  by_cases hx : o = some x <;> by_cases hy : o = some y
  · exact Option.some.inj (hx.symm.trans hy)
  · simp [hx] at h; exact h
  · simp [hy] at h; exact h.symm
  · simpa [hx, hy] using h

theorem stripBounds_injective (g : Graph) : Function.Injective (stripBounds g) := by
  intro m1 m2 h
  rw [stripBounds_eq, stripBounds_eq] at h
  obtain ⟨s1, d1, t1, e1, r1⟩ := m1
  obtain ⟨s2, d2, t2, e2, r2⟩ := m2
  simp only [AMig.mk.injEq] at h
  obtain ⟨hs, hd, hst, hen, hr⟩ := h
  subst hs hd hr
  have ht := ite_none_some_inj hst
  have he := ite_none_some_inj hen
  subst ht he
  rfl

/-! ### facts from the validity clauses -/

theorem v8_facts {g : Graph} (h : v8 g = true) {m : Migration} (hm : m ∈ g.migrations) :
    ∃ s d, findDeme g m.source = some s ∧ findDeme g m.dest = some d ∧ m.source ≠ m.dest
      ∧ ETime.fin m.endTime < m.startTime ∧ qmax s.endTime d.endTime ≤ m.endTime
      ∧ m.startTime ≤ ETime.min s.startTime d.startTime ∧ 0 ≤ m.rate ∧ m.rate ≤ 1 := by
  unfold v8 at h
  have := List.all_eq_true.mp h m hm
  simp only [Bool.and_eq_true] at this
  obtain ⟨h1, h2⟩ := this
  split at h2
  · rename_i s d hs hd
    simp only [coexist, Bool.and_eq_true, decide_eq_true_eq] at h2
    obtain ⟨⟨⟨⟨a1, a2⟩, a3⟩, a4⟩, a5⟩ := h2
    exact ⟨s, d, hs, hd, by simpa using h1, a1, of_decide_eq_true a2, of_decide_eq_true a3, a4, a5⟩
  · exact absurd h2 (by simp)

/-- V8 (non-empty activity intervals) and V9 (same-pair migrations disjoint) leave no room
for a repeated migration record -/
theorem migrations_nodup {g : Graph} (h8 : v8 g = true) (h9 : v9 g = true) : g.migrations.Nodup := by
  unfold v9 at h9
  rw [pairwiseB_iff] at h9
  refine h9.imp_of_mem ?_
  intro a b ha _ hr e
  subst e
  obtain ⟨_, _, _, _, _, hlt, _⟩ := v8_facts h8 ha
  simp [disjoint, hlt] at hr

theorem deme_endTime_nonneg {g : Graph} (h6 : v6 g = true) {d : Deme} (hd : d ∈ g.demes) :
    0 ≤ d.endTime := by
  rw [v6_eq] at h6
  have hall := List.all_eq_true.1 (List.all_eq_true.1 h6 d hd)
  unfold Deme.endTime Deme.endTime?
  cases hl : d.epochs.getLast? with
  | none => simp
  | some e =>
    have he : e ∈ d.epochs := List.mem_of_getLast? hl
    have := hall e he
    simp only [v6Epoch, Bool.and_eq_true, decide_eq_true_eq] at this
    simpa using this.2

theorem le_qmax_left (a b : Q) : a ≤ qmax a b := by
  unfold qmax; split <;> [assumption; exact le_refl _]


/-- A.4 (second half) — under V8 and V9 no two records denoted by the simplified migration list
coincide -/
theorem simplify_records_nodup (g : Graph) (h8 : v8 g = true) (h9 : v9 g = true) :
    (expandAll (simplifyMigrations g)).Nodup :=
  (simplify_invariant g).nodup_iff.2 ((migrations_nodup h8 h9).map (stripBounds_injective g))

theorem etime_fin_le_of_lt {a : Q} {b : ETime} (h : ETime.fin a < b) : ETime.fin a ≤ b := by
  cases b
  · exact (fin_le_fin _ _).2 (le_of_lt ((fin_lt_fin _ _).1 h))
  · trivial

theorem etime_le_trans' {a b c : ETime} (h1 : a ≤ b) (h2 : b ≤ c) : a ≤ c := by
  cases a <;> cases b <;> cases c
  · exact (fin_le_fin _ _).2 (le_trans ((fin_le_fin _ _).1 h1) ((fin_le_fin _ _).1 h2))
  · trivial
  · exact ((inf_le_fin _).1 h2).elim
  · trivial
  · exact ((inf_le_fin _).1 h1).elim
  · trivial
  · exact ((inf_le_fin _).1 h2).elim
  · trivial

/-- B — feeding the stripped record of a migration `m` of a valid graph back to
`_add_asymmetric_migration`, on any graph with the same demes and name index, re-infers the
deleted bounds and appends exactly `m` (provided no migration already present overlaps it). -/
theorem stripBounds_roundtrip (g g' : Graph) (h0 : v0 g = true) (h1 : v1 g = true)
    (h6 : v6 g = true) (h8 : v8 g = true) (hdm : g'.demes = g.demes) (hix : g'.index = g.index)
    (m : Migration) (hm : m ∈ g.migrations)
    (hno : g'.migrations.any (fun o => o.source = m.source && o.dest = m.dest
      && decide (ETime.fin m.endTime < o.startTime) && decide (ETime.fin o.endTime < m.startTime)) = false) :
    addAsymmetricMigration g' (.str m.source) (.str m.dest) (numV m.rate)
        ((stripBounds g m).start.map timeV) ((stripBounds g m).stop.map numV)
      = .ok { g' with migrations := g'.migrations ++ [m] } := by
  obtain ⟨s, d, hs, hd, hne, hlt, hlo, hhi, hr0, hr1⟩ := v8_facts h8 hm
  have hs' : g'.deme? m.source = some s := by rw [deme?_congr hdm hix, deme?_eq_findDeme g h0]; exact hs
  have hd' : g'.deme? m.dest = some d := by rw [deme?_congr hdm hix, deme?_eq_findDeme g h0]; exact hd
  have hsg : g.deme? m.source = some s := by rw [deme?_eq_findDeme g h0]; exact hs
  have hdg : g.deme? m.dest = some d := by rw [deme?_eq_findDeme g h0]; exact hd
  obtain ⟨hsm, hsn⟩ := findDeme_some hs
  obtain ⟨hdm', hdn⟩ := findDeme_some hd
  have hv1 := h1
  simp only [v1, Bool.and_eq_true, List.all_eq_true] at hv1
  have hids : isIdentifier m.source = true := hsn ▸ hv1.1.2 s hsm
  have hidd : isIdentifier m.dest = true := hdn ▸ hv1.1.2 d hdm'
  have hend0 : 0 ≤ m.endTime :=
    le_trans (le_trans (deme_endTime_nonneg h6 hsm) (le_qmax_left _ _)) hlo
  have hstart0 : ETime.fin 0 ≤ m.startTime :=
    etime_le_trans' (show ETime.fin 0 ≤ ETime.fin m.endTime from hend0) (etime_fin_le_of_lt hlt)
  have hlo' : ETime.fin (qmax s.endTime d.endTime) ≤ m.startTime :=
    etime_le_trans' (show ETime.fin _ ≤ ETime.fin m.endTime from hlo) (etime_fin_le_of_lt hlt)
  have hend_hi : ETime.fin m.endTime ≤ ETime.min s.startTime d.startTime :=
    etime_le_trans' (etime_fin_le_of_lt hlt) hhi
  have hhi' : hiOf g m.source m.dest = some (ETime.min s.startTime d.startTime) := by
    simp [hiOf, hsg, hdg]
  have hlo'' : loOf g m.source m.dest = some (qmax s.endTime d.endTime) := by
    simp [loOf, hsg, hdg]
  have hti := timeIntersection_none hs' hd'
  have hti1 := timeIntersection_time hs' hd' m.startTime hlo' hhi
  have hti2 := timeIntersection_num hs' hd' m.endTime hlo hend_hi
  have e1 : nonNegTime (Value.num (Num.ofETime m.startTime)) = .ok m.startTime :=
    nonNegTime_timeV _ hstart0
  have e2 : nonNegFiniteQ (Value.num (Num.fin m.endTime)) = .ok m.endTime :=
    nonNegFiniteQ_numV _ hend0
  rw [stripBounds_start, stripBounds_stop, hhi', hlo'']
  unfold addAsymmetricMigration
  by_cases c1 : ETime.min s.startTime d.startTime = m.startTime <;>
  by_cases c2 : qmax s.endTime d.endTime = m.endTime
  all_goals
    simp only [c1, c2, Option.some.injEq, if_true, if_false, Option.map_none, Option.map_some,
      existingName_str (hasName_of_deme? hs'), existingName_str (hasName_of_deme? hd'),
      hti, hti1, hti2, bind, Except.bind, pure, Except.pure, Option.getD_none, Option.getD_some,
      hids, hidd, Bool.not_true, Bool.false_eq_true, nonNegTime_timeV _ hstart0, e1, e2,
      nonNegFiniteQ_numV _ hend0, unitQ_numV _ hr0 hr1, hne, hlt, decide_true, hno]
    

end Demes.Proofs.C05
