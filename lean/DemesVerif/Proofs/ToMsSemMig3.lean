/-
  C07 — `migsMatch`: the migration part of `≈` for the emitted command.
-/
import DemesVerif.Proofs.ToMsSemMig2
set_option linter.unusedSimpArgs false
set_option linter.unusedVariables false
namespace Demes.Proofs.ToMs
open Demes Demes.Ms Demes.Spec Demes.Spec.C07 Demes.Proofs.RV
open Demes.Spec.MsSem

section
variable {g : Graph} (c : Clauses g) (hx : MsExpressible g = true) {N0 : Q} (hN : 0 < N0)
include c

theorem pidOf_eq_iff {a : Nat} {da : Deme} (ha : g.demes[a]? = some da) {name : String}
    (hs : (g.demeId? name).isSome = true) : pidOf g name = a + 1 ↔ name = da.name := by
  rw [← idOf_eq_iff (nodup_names c) ha hs, idOf_eq_pidOf]
  constructor
  · intro h; rw [h]
  · intro h; exact_mod_cast h

theorem gRaw_wf : ∀ m ∈ gRaw g, ETime.fin m.t0 < m.t1 := by
  intro m' hm'
  obtain ⟨m, hm, rfl⟩ := List.mem_map.1 hm'
  exact mig_lt c hm

/-- the graph's merged segments cover `(t, r)` for the pair exactly when a migration of the pair
with non-zero rate `r` is active at `t` -/
theorem gSem_cover {a b : Nat} {da db : Deme} (ha : g.demes[a]? = some da) (hb : g.demes[b]? = some db) (t r : Q) :
    (∃ m ∈ (gSem g).migs, covers m (a + 1) (b + 1) t = true ∧ m.rate = r)
      ↔ ∃ m ∈ g.migrations, m.dest = da.name ∧ m.source = db.name ∧ m.rate ≠ 0 ∧ activeAt m t = true ∧ m.rate = r := by
  have halt : a < g.demes.length := (List.getElem?_eq_some_iff.mp ha).1
  have hblt : b < g.demes.length := (List.getElem?_eq_some_iff.mp hb).1
  show (∃ m ∈ gMigsOf (gRaw g) g.demes.length, _) ↔ _
  rw [gMigsOf_cover (gRaw_wf c) halt hblt]
  constructor
  · rintro ⟨m', hm', hd, hs, hne, ht0, ht1, hr⟩
    obtain ⟨m, hm, rfl⟩ := List.mem_map.1 hm'
    have hok := migOk_of_valid c hm
    exact ⟨m, hm, (pidOf_eq_iff c ha hok.destId).1 hd, (pidOf_eq_iff c hb hok.sourceId).1 hs, hne,
      by simp [activeAt, ht0, ht1], hr⟩
  · rintro ⟨m, hm, hd, hs, hne, hact, hr⟩
    have hok := migOk_of_valid c hm
    simp only [activeAt, Bool.and_eq_true, decide_eq_true_eq] at hact
    exact ⟨_, List.mem_map.2 ⟨m, hm, rfl⟩, (pidOf_eq_iff c ha hok.destId).2 hd, (pidOf_eq_iff c hb hok.sourceId).2 hs,
      hne, hact.2, hact.1, hr⟩

/-- at most one migration of a pair is active at a time -/
theorem active_unique {da db : Deme} {m m' : Migration} (hm : m ∈ g.migrations) (hm' : m' ∈ g.migrations)
    (hp : pairB da db m = true) (hp' : pairB da db m' = true) {t : Q} (h : activeAt m t = true) (h' : activeAt m' t = true) :
    m' = m := by
  obtain ⟨L1, L2, hms⟩ := List.append_of_mem hm
  rw [hms] at hm'
  have hcases : m' ∈ L1 ++ L2 ∨ m' = m := by
    rcases List.mem_append.1 hm' with h | h
    · exact Or.inl (List.mem_append_left _ h)
    · rcases List.mem_cons.1 h with h | h
      · exact Or.inr h
      · exact Or.inl (List.mem_append_right _ h)
  rcases hcases with hin | heq
  · exfalso
    simp only [activeAt, Bool.and_eq_true, decide_eq_true_eq] at h h'
    rcases pair_disjoint c hms hp hin hp' with hd | hd
    · exact et_lt_irrefl' h'.1 (et_le_trans hd (show ETime.fin m.endTime ≤ ETime.fin t from h.2))
    · exact et_lt_irrefl' h.1 (et_le_trans hd (show ETime.fin m'.endTime ≤ ETime.fin t from h'.2))
  · exact heq

omit c in
theorem mul_div_cancel_left4 {N0 : Q} (hN : 0 < N0) (x : Q) : 4 * N0 * x / (4 * N0) = x := by
  have h4 : (4 * N0) ≠ 0 := by grind
  rw [Rat.mul_comm, Rat.mul_div_cancel h4]

include hx hN in
/-- the migration comparison at one time of deme `a`'s lifetime -/
theorem migMatchAt_run (sem : DemogSemG)
    (hsn : sem.snaps = (runP N0 (s0Of N0 g.demes.length) (finalEvs g N0)).snaps)
    {a b : Nat} {da db : Deme} (ha : g.demes[a]? = some da) (hb : g.demes[b]? = some db) (hab : a ≠ b) {t : Q}
    (hlife : inLife (gPopOf g da) t = true) : migMatchAt sem (gSem g) (gPopOf g da) (gPopOf g db) t = true := by
  have hdam : da ∈ g.demes := List.mem_of_getElem? ha
  have hdbm : db ∈ g.demes := List.mem_of_getElem? hb
  have hf : MigFacts g := migFacts_of c.h1 c.h6 c.h8 c.h9
  simp only [inLife, gPopOf, Bool.and_eq_true, decide_eq_true_eq] at hlife
  obtain ⟨hlo', hhi'⟩ := hlife
  have hlo : da.endTime ≤ t := of_decide_eq_true hlo'
  have hhi : ETime.fin t < da.startTime := of_decide_eq_true hhi'
  have ht0 : 0 ≤ t := Rat.le_trans (deme_end_nonneg hf hdam) hlo
  have hida : (gPopOf g da).id = a + 1 := pidOf_getElem c ha
  have hidb : (gPopOf g db).id = b + 1 := pidOf_getElem c hb
  have hr := matAt_finalEvs c hx hN ha hb hab ht0 hhi
  have hpair : ∀ m, m.dest = da.name → m.source = db.name → pairB da db m = true := fun m h1 h2 => by
    simp [pairB, h1, h2]
  -- a covering segment of the graph is an active migration of the pair with a non-zero rate
  have hcov := fun (r : Q) => gSem_cover c ha hb t r
  unfold migMatchAt
  simp only [hida, hidb, Nat.add_sub_cancel, hsn]
  by_cases hlb : inLife (gPopOf g db) t = true
  · rw [if_pos hlb]
    simp only [inLife, gPopOf, Bool.and_eq_true, decide_eq_true_eq] at hlb
    have hlb2 : ETime.fin t < db.startTime := of_decide_eq_true hlb.2
    rw [hr, if_pos hlb2]
    obtain ⟨hact, hnone⟩ := migRateAt_finalEvs c hx hN ha hb t
    by_cases hex : ∃ m ∈ g.migrations, m.dest = da.name ∧ m.source = db.name ∧ activeAt m t = true
    · obtain ⟨m, hm, hd, hs, hac⟩ := hex
      rw [hact m hm hd hs hac, mul_div_cancel_left4 hN]
      by_cases hr0 : m.rate = 0
      · rw [if_pos hr0, List.all_eq_true]
        intro m' hm'
        rw [Bool.not_eq_true']
        cases hc : covers m' (a + 1) (b + 1) t with
        | false => rfl
        | true =>
          obtain ⟨m'', hm'', hd'', hs'', hne'', hac'', _⟩ := (hcov m'.rate).1 ⟨m', hm', hc, rfl⟩
          have := active_unique c hm hm'' (hpair m hd hs) (hpair m'' hd'' hs'') hac hac''
          rw [this] at hne''
          exact absurd hr0 hne''
      · rw [if_neg hr0, List.any_eq_true]
        obtain ⟨m', hm', hc, hrm⟩ := (hcov m.rate).2 ⟨m, hm, hd, hs, hr0, hac, rfl⟩
        exact ⟨m', hm', by simp [hc, hrm]⟩
    · have hnone' : ∀ m ∈ g.migrations, m.dest = da.name → m.source = db.name → activeAt m t = false := by
        intro m hm hd hs
        cases hac : activeAt m t with
        | false => rfl
        | true => exact absurd ⟨m, hm, hd, hs, hac⟩ hex
      rw [hnone hnone' hhi hlb2, InGen.zero_div, if_pos rfl, List.all_eq_true]
      intro m' hm'
      rw [Bool.not_eq_true']
      cases hc : covers m' (a + 1) (b + 1) t with
      | false => rfl
      | true =>
        obtain ⟨m'', hm'', hd'', hs'', _, hac'', _⟩ := (hcov m'.rate).1 ⟨m', hm', hc, rfl⟩
        exact absurd ⟨m'', hm'', hd'', hs'', hac''⟩ hex
  · rw [if_neg hlb, decide_eq_true_eq, hr]
    by_cases hlt : ETime.fin t < db.startTime
    · rw [if_pos hlt]
      -- `t` is before deme `b`'s end time: no migration of the pair has begun
      have hnlo : ¬ db.endTime ≤ t := by
        intro h; exact hlb (by simp [inLife, gPopOf, h, hlt])
      obtain ⟨_, hnone⟩ := migRateAt_finalEvs c hx hN ha hb t
      have hnone' : ∀ m ∈ g.migrations, m.dest = da.name → m.source = db.name → activeAt m t = false := by
        intro m hm hd hs
        cases hac : activeAt m t with
        | false => rfl
        | true =>
          exfalso
          simp only [activeAt, Bool.and_eq_true, decide_eq_true_eq] at hac
          obtain ⟨s, d, hfs, _, _, hq⟩ := hf.mig m hm
          rw [hs, findDeme_of_mem c hdbm] at hfs
          cases hfs
          have : db.endTime ≤ m.endTime := by unfold qmax at hq; split at hq <;> grind
          exact hnlo (Rat.le_trans this hac.2)
      rw [hnone hnone' hhi hlt, InGen.zero_div]
    · rw [if_neg hlt]

include hx hN in
/-- the migration part of `≈` -/
theorem migsMatch_run (sem : DemogSemG)
    (hsn : sem.snaps = (runP N0 (s0Of N0 g.demes.length) (finalEvs g N0)).snaps) :
    migsMatch sem (gSem g) = true := by
  unfold migsMatch
  rw [List.all_eq_true]
  intro pi hpi
  rw [List.all_eq_true]
  intro pj hpj
  rw [gSem_pops c] at hpi hpj
  obtain ⟨da, hda, rfl⟩ := List.mem_map.1 hpi
  obtain ⟨db, hdb, rfl⟩ := List.mem_map.1 hpj
  obtain ⟨a, ha⟩ := List.mem_iff_getElem?.mp hda
  obtain ⟨b, hb⟩ := List.mem_iff_getElem?.mp hdb
  rw [Bool.or_eq_true]
  by_cases hab : a = b
  · left
    subst hab
    rw [ha] at hb; cases hb
    simp
  · right
    rw [List.all_eq_true]
    intro t _
    cases hl : inLife (gPopOf g da) t with
    | false => rfl
    | true => simpa using migMatchAt_run c hx hN sem hsn ha hb hab hl

end

end Demes.Proofs.ToMs
