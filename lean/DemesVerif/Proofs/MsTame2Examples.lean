/-
  C09 §9 — closed instances: the same-time configurations of `to_ms` output against `PulsesTame`, `Tame'` and
  `Tame2` (they always agree: `toMs_output_tame2`), with what `from_ms` does by evaluation; the hypotheses of
  `ms_roundtrip_sizes_migs` decided (`sizesMigsHyps`), and a decidable consequence of its conclusion.
-/
import DemesVerif.Proofs.MsTame2Final
import DemesVerif.Proofs.MsTame2RT
import DemesVerif.Proofs.MsAccExamples
import DemesVerif.Proofs.MsRTTameExamples
namespace Demes.Proofs.MsTame2
open Demes Demes.Ms Demes.Spec Demes.Spec.C07 Demes.Spec.C09
open Demes.Spec.MsSem (DemogSem msSem graphSem parse)
open Demes.Spec.C08 (semEquiv semEquivSizesMigs SemAgree resultSem Tame' Tame2)
open Demes.Proofs.MsPrint (tableCodec growthStr twoDemePulse branchMig)
open Demes.Proofs.MsRT (chainGraph tameGraph okPulses chainPulses fullPulse admixDeme roundTripAgainst refinesAt cEpoch)
open Demes.Proofs.MsAcc (accepted)

/-- `(Tame' pr, Tame2 pr)` for the command `to_ms` prints for `g`, as the ms parser reads it -/
def fragsOf (g : Graph) (N0 : Q) : Option (Bool × Bool) :=
  match toMs g N0 none with
  | .ok toks => (parse (renderG tableCodec growthStr toks)).toOption.map (fun pr => (Tame' pr, Tame2 pr))
  | .error _ => none

def threeDemes (ps : List Pulse) : Graph :=
  { description := "", timeUnits := "generations", generationTime := 1, doi := [], metadata := [],
    demes := [constDeme "A" "" 1 0 0, constDeme "B" "" 2 0 0, constDeme "C" "" 3 0 0],
    migrations := [], pulses := ps, index := [("A", 0), ("B", 1), ("C", 2)] }

/-- `D` is born at time 4 from `A` and `B`; `A`, `B`, `C` live on -/
def fourDemes (ps : List Pulse) : Graph :=
  { description := "", timeUnits := "generations", generationTime := 1, doi := [], metadata := [],
    demes := [constDeme "A" "" 1 0 0, constDeme "B" "" 2 0 0, constDeme "C" "" 3 0 0,
              { name := "D", description := "", startTime := .fin 4, ancestors := ["A", "B"], proportions := [1/2, 1/2],
                epochs := [cEpoch (.fin 4) 0 (1/2)] }],
    migrations := [], pulses := ps, index := [("A", 0), ("B", 1), ("C", 2), ("D", 3)] }

def pl (s d : String) (t p : Q) : Pulse := { sources := [s], dest := d, time := t, proportions := [p] }

/-- at the time `D` starts: a pulse into the newborn `D`, a pulse into its ancestor `A`, a pulse out of its
ancestor `B` — no pulse goes into the source of a pulse listed later -/
def startPulses : List Pulse := [pl "C" "D" 4 (7/8), pl "C" "A" 4 (3/4), pl "B" "C" 4 (1/2)]

/-- the same pulses, `B → C` listed first: it goes into the source of `C → D` and of `C → A` -/
def startPulsesChain : List Pulse := [pl "B" "C" 4 (1/2), pl "C" "D" 4 (7/8), pl "C" "A" 4 (3/4)]

/-- a chain of three pulses at the time `D` starts, ending in the newborn deme -/
def longChain : List Pulse := [pl "A" "B" 4 (1/2), pl "B" "C" 4 (3/4), pl "C" "D" 4 (7/8)]

/-- **inside**: deme starts (one and two ancestors) together with pulses at one time — into the newborn deme, into
and out of its ancestors — are `PulsesTame`, and the commands are in `Tame'` and `Tame2` -/
theorem starts_with_pulses_inside :
    validGraph (fourDemes startPulses) = true ∧ MsExpressible (fourDemes startPulses) = true
    ∧ PulsesTame (fourDemes startPulses) = true ∧ fragsOf (fourDemes startPulses) 1 = some (true, true)
    ∧ roundTripAgainst (fourDemes startPulses) (fourDemes startPulses) 1 [0, 3, 4, 5] = some true := by decide +kernel

/-- **outside, and converted correctly**: pulse chains (a pulse into the source of a pulse listed later, at one
time) — two pulses; the pulses of `startPulses` in the other order; three pulses ending in a newborn deme.  All
proportions are below one; the graphs are valid and ms-expressible, not `PulsesTame`; the commands are outside
`Tame'` AND outside `Tame2` (the earlier move is an `-es`/`-ej` pair, not a join); `from_ms` accepts them, and
the returned graph passes `refinesAt` — lineage movements included — against the graph. -/
theorem chains_outside_tame2 :
    [chainGraph, fourDemes startPulsesChain, fourDemes longChain].all
        (fun g => validGraph g && MsExpressible g && ConstSizes g
          && g.pulses.all (fun p => p.proportions.all (fun x => decide (x < 1))) && !PulsesTame g) = true
    ∧ [chainGraph, fourDemes startPulsesChain, fourDemes longChain].map (fun g => fragsOf g 1)
        = [some (false, false), some (false, false), some (false, false)]
    ∧ [chainGraph, fourDemes startPulsesChain, fourDemes longChain].map (fun g => accepted g 1)
        = [true, true, true]
    ∧ roundTripAgainst chainGraph chainGraph 1 [0, 3, 4, 5] = some true
    ∧ roundTripAgainst (fourDemes startPulsesChain) (fourDemes startPulsesChain) 1 [0, 3, 4, 5] = some true
    ∧ roundTripAgainst (fourDemes longChain) (fourDemes longChain) 1 [0, 3, 4, 5] = some true := by decide +kernel

/-- the printed command of `chainGraph`, and of the three-pulse chain -/
example : (toMs chainGraph 1 none).toOption.map (renderG tableCodec growthStr)
    = some ["-I", "3", "0", "0", "0", "-es", "1.0", "3", "0.5", "-ej", "1.0", "4", "2", "-es", "1.0", "2", "0.5", "-ej", "1.0", "5", "1"] := by
  decide +kernel
example : (toMs (fourDemes longChain) 1 none).toOption.map (renderG tableCodec growthStr)
    = some ["-I", "4", "0", "0", "0", "0", "-n", "2", "2.0", "-n", "3", "3.0", "-n", "4", "0.5",
            "-es", "1.0", "4", "0.125", "-ej", "1.0", "5", "3", "-es", "1.0", "3", "0.25", "-ej", "1.0", "6", "2",
            "-es", "1.0", "2", "0.5", "-ej", "1.0", "7", "1", "-es", "1.0", "4", "0.5", "-ej", "1.0", "8", "1",
            "-ej", "1.0", "4", "2"] := by decide +kernel

/-- the graph `from_ms` returns for the command `to_ms` prints for `g` -/
def returned (g : Graph) (N0 : Q) : Option Graph :=
  match toMs g N0 none with
  | .ok toks => (fromMs (renderG tableCodec growthStr toks) N0 none).toOption.map (·.graph)
  | .error _ => none

/-- what `from_ms` returns for the three-pulse chain: `D` gets its whole row as ancestry (the pulse into `D` at its
start time is folded into it: 25/64 = 1/8·1/2 + 7/8·3/4·1/2, 7/32 = 7/8·1/4), the other two pulses come back in the
graph's order -/
example : (returned (fourDemes longChain) 1).map (fun g' => g'.demes.map (fun d => (d.name, d.ancestors, d.proportions)))
    = some [("deme1", [], []), ("deme2", [], []), ("deme3", [], []),
            ("deme4", ["deme1", "deme2", "deme3"], [25/64, 25/64, 7/32])] := by decide +kernel
example : (returned (fourDemes longChain) 1).map (fun g' => g'.pulses.map (fun p => (p.sources, p.dest, p.proportions)))
    = some [(["deme1"], "deme2", [1/2]), (["deme2"], "deme3", [3/4])] := by decide +kernel

/-- **outside, and rejected (F6)**: a pulse of proportion 1 -/
theorem full_pulse_outside :
    PulsesTame (twoDemePulse 1) = false ∧ fragsOf (twoDemePulse 1) 1 = some (false, false)
    ∧ accepted (twoDemePulse 1) 1 = false
    ∧ PulsesTame (tameGraph fullPulse) = false := by decide +kernel

/-! ### `ms_roundtrip_sizes_migs`: hypotheses, conclusion -/

/-- every hypothesis of `ms_roundtrip_sizes_migs` (with `samples = none`, the codec `tableCodec` and the growth
printer `growthStr`), decided: no condition on the pulses -/
def sizesMigsHyps (g : Graph) (N0 : Q) : Bool :=
  validGraph g && MsExpressible g && ConstSizes g && decide (0 < N0) &&
  match toMs g N0 none with
  | .ok toks => decide (CodecCovers tableCodec toks) && (fromMs (renderG tableCodec growthStr toks) N0 none).toOption.isSome
  | .error _ => false

/-- the conclusion of the theorem for a graph that meets the hypotheses -/
theorem sizesMigs_of_hyps {g : Graph} {N0 : Q} (h : sizesMigsHyps g N0 = true) :
    ∃ toks mg sem rs gs, toMs g N0 none = .ok toks
      ∧ fromMs (renderG tableCodec growthStr toks) N0 none = .ok mg
      ∧ msSem (renderG tableCodec growthStr toks) N0 = .ok sem ∧ resultSem mg = .ok rs
      ∧ graphSem (inGenerations (normalizeProportions g)) none = .ok gs
      ∧ semEquivSizesMigs sem rs = true ∧ SemRefines sem gs ∧ SemRefinesSizesMigs rs gs := by
  unfold sizesMigsHyps at h
  simp only [Bool.and_eq_true, decide_eq_true_eq] at h
  obtain ⟨⟨⟨⟨h1, h2⟩, h3⟩, h4⟩, h5⟩ := h
  cases ht : toMs g N0 none with
  | error e => rw [ht] at h5; cases h5
  | ok toks =>
    rw [ht] at h5
    simp only [Bool.and_eq_true, decide_eq_true_eq] at h5
    obtain ⟨h6, h7⟩ := h5
    cases hf : fromMs (renderG tableCodec growthStr toks) N0 none with
    | error e => rw [hf] at h7; cases h7
    | ok mg =>
      obtain ⟨sem, rs, gs, r⟩ := ms_roundtrip_sizes_migs tableCodec growthStr h1 h2 h3 h4 (samples := none) rfl ht h6 hf
      exact ⟨toks, mg, sem, rs, gs, rfl, hf, r⟩

/-- a decidable consequence of `SemRefinesSizesMigs A gs`: `refinesAt` without the lineage movements -/
def refinesNoMovesAt (A gs : DemogSem) (ts : List Q) : Bool :=
  decide (A.pops.map (·.id) = gs.pops.map (·.id))
  && (A.pops.zip gs.pops).all (fun ab => decide (ab.1.hi = ab.2.hi) && decide (ab.1.lo ≤ ab.2.lo))
  && (A.pops.zip gs.pops).all (fun ab => ts.all (fun t =>
        !(decide (ab.2.lo ≤ t) && decide (ETime.fin t < ab.2.hi))
          || ((C09.sizeAt ab.2 t).isSome && decide (C09.sizeAt ab.1 t = C09.sizeAt ab.2 t))))
  && migsRefine A gs

theorem refinesNoMovesAt_of {A gs : DemogSem} (h : SemRefinesSizesMigs A gs) (ts : List Q) :
    refinesNoMovesAt A gs ts = true := by
  unfold refinesNoMovesAt
  simp only [Bool.and_eq_true, decide_eq_true_eq, List.all_eq_true, Bool.or_eq_true, Bool.not_eq_true',
    Bool.and_eq_false_iff, decide_eq_false_iff_not]
  refine ⟨⟨⟨h.ids, fun ab hab => h.lives ab hab⟩, ?_⟩, h.migs⟩
  intro ab hab t _
  by_cases h1 : ab.2.lo ≤ t
  · by_cases h2 : ETime.fin t < ab.2.hi
    · exact Or.inr (h.sizes ab hab t h1 h2)
    · exact Or.inl (Or.inr h2)
  · exact Or.inl (Or.inl h1)

/-- the observable of the graph `from_ms` returns for the command `to_ms` prints for `g`, against the observable
of `g'`, lineage movements left aside -/
def roundTripNoMoves (g g' : Graph) (N0 : Q) (ts : List Q) : Option Bool :=
  match toMs g N0 none with
  | .ok toks =>
    match fromMs (renderG tableCodec growthStr toks) N0 none with
    | .ok mg =>
      match resultSem mg, graphSem (inGenerations g') none with
      | .ok rs, .ok gs => some (refinesNoMovesAt rs gs ts)
      | _, _ => none
    | .error _ => none
  | .error _ => none

/-- the hypotheses hold for the chain graphs (which are not `PulsesTame`), and for graphs that are -/
example : [chainGraph, fourDemes startPulsesChain, fourDemes longChain, fourDemes startPulses, branchMig].all
    (fun g => sizesMigsHyps g 1) = true := by decide +kernel
example : sizesMigsHyps (twoDemePulse 1) 1 = false := by decide +kernel
example := sizesMigs_of_hyps (g := fourDemes longChain) (N0 := 1) (by decide +kernel)

/-- the conclusion evaluated independently of the theorem; it is not vacuous: it fails against the chain graph
with another size for `C` -/
example : roundTripNoMoves (fourDemes longChain) (fourDemes longChain) 1 [0, 3, 4, 5] = some true
    ∧ roundTripNoMoves chainGraph chainGraph 1 [0, 3, 4, 5] = some true
    ∧ roundTripNoMoves chainGraph (threeDemes chainGraph.pulses) 1 [0] = some false := by decide +kernel

#print axioms starts_with_pulses_inside
#print axioms chains_outside_tame2
#print axioms full_pulse_outside
#print axioms sizesMigs_of_hyps

end Demes.Proofs.MsTame2
