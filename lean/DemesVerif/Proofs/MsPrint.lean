/-
  Proofs for C09 — the theorems proper: print → parse for every option record
  (`print_parse_option_partial`, `print_parse_option_exact`, `pp_structure`), the printer
  against the arity table (`parser_arity_matches_printer`), and the counterexamples
  (F20 `-ma`; NaN time; `-inf` matrix entry).
-/
import DemesVerif.Proofs.MsPrintOptions
import DemesVerif.Proofs.MsPrintMatrix
import DemesVerif.Proofs.MsPrintCodec
namespace Demes.Proofs.MsPrint
open Demes Demes.Ms Demes.Spec.C09


theorem ok_inj {α} {a b : α} (h : (Except.ok a : Except Err α) = .ok b) : a = b := by cases h; rfl

/-- **print → parse, every option record except `-ma`.** -/
theorem print_parse_option_partial (c : NumCodec) (e : Event Num) (hv : validEvent e) (hc : codecEvent c e)
    (hne : ¬ (isMigMatrix e = true ∧ numPos e.t = false))
    (toks : List (Tok Num)) (hprint : e.print = .ok toks) :
    ∃ e', parseKnownArgs (render c toks) = .ok (Args.single (destOf e) e') ∧ sameOption (flagOf e) e e' := by
  cases e with
  | growthRateChange o t a =>
    obtain ⟨toks', a', hp, hcl, hparse⟩ := pp_growthRateChange c o t a _ rfl hv hc
    rw [hprint] at hp; cases ok_inj hp
    exact ⟨_, hparse, rfl, rfl, hcl⟩
  | popGrowthRateChange o t i a =>
    obtain ⟨toks', a', hp, hcl, hparse⟩ := pp_popGrowthRateChange c o t i a _ rfl hv hc
    rw [hprint] at hp; cases ok_inj hp
    exact ⟨_, hparse, rfl, rfl, rfl, hcl⟩
  | sizeChange o t x =>
    obtain ⟨toks', hp, hparse⟩ := pp_sizeChange c o t x _ rfl hv hc
    rw [hprint] at hp; cases ok_inj hp
    exact ⟨_, hparse, rfl, rfl, rfl⟩
  | popSizeChange o t i x =>
    obtain ⟨toks', hp, hparse⟩ := pp_popSizeChange c o t i x _ rfl hv hc
    rw [hprint] at hp; cases ok_inj hp
    exact ⟨_, hparse, rfl, rfl, rfl, rfl⟩
  | migRateChange o t x =>
    obtain ⟨toks', hp, hparse⟩ := pp_migRateChange c o t x _ rfl hv hc
    rw [hprint] at hp; cases ok_inj hp
    exact ⟨_, hparse, rfl, rfl, rfl⟩
  | migEntryChange o t i j x =>
    obtain ⟨toks', hp, hparse⟩ := pp_migEntryChange c o t i j x _ rfl hv hc
    rw [hprint] at hp; cases ok_inj hp
    exact ⟨_, hparse, rfl, rfl, rfl, rfl, rfl⟩
  | migMatrixChange o t n mm =>
    have hp : numPos t = true := by
      cases h : numPos t
      · exact absurd ⟨rfl, h⟩ hne
      · rfl
    obtain ⟨mm', hparse, hm⟩ := pp_ema c o t n mm _ rfl hv hc hp toks hprint
    refine ⟨.migMatrixChange "-ema" t n mm', ?_, ?_⟩
    · simpa only [destOf, hp, if_true] using hparse
    · simp only [sameOption, flagOf, hp, if_true, true_and]
      exact hm
  | split o t i x =>
    obtain ⟨toks', hp, hparse⟩ := pp_split c o t i x _ rfl hv hc
    rw [hprint] at hp; cases ok_inj hp
    exact ⟨_, hparse, rfl, rfl, rfl, rfl⟩
  | join o t i j =>
    obtain ⟨toks', hp, hparse⟩ := pp_join c o t i j _ rfl hv hc
    rw [hprint] at hp; cases ok_inj hp
    exact ⟨_, hparse, rfl, rfl, rfl, rfl⟩



theorem sameOption_exact (f : String) (e e' : Event Num) (h : sameOption f e e')
    (ha : alphaNonNeg e) (hm : isMigMatrix e = false) : e' = withOpt e f := by
  cases e <;> cases e' <;> simp only [sameOption, isMigMatrix] at h hm <;> try (cases hm)
  all_goals simp only [alphaNonNeg] at ha
  all_goals simp only [withOpt]
  · obtain ⟨h1, h2, h3⟩ := h; rw [h1, h2, h3.1 ha]
  · obtain ⟨h1, h2, h3, h4⟩ := h; rw [h1, h2, h3, h4.1 ha]
  · obtain ⟨h1, h2, h3⟩ := h; rw [h1, h2, h3]
  · obtain ⟨h1, h2, h3, h4⟩ := h; rw [h1, h2, h3, h4]
  · obtain ⟨h1, h2, h3⟩ := h; rw [h1, h2, h3]
  · obtain ⟨h1, h2, h3, h4, h5⟩ := h; rw [h1, h2, h3, h4, h5]
  · obtain ⟨h1, h2, h3, h4⟩ := h; rw [h1, h2, h3, h4]
  · obtain ⟨h1, h2, h3, h4⟩ := h; rw [h1, h2, h3, h4]

/-- **print → parse, exactly**: a record without a negative growth rate (and not a migration
matrix, whose entry *strings* are re-rendered) comes back identical, with `opt` the flag. -/
theorem print_parse_option_exact (c : NumCodec) (e : Event Num) (hv : validEvent e) (hc : codecEvent c e)
    (hm : isMigMatrix e = false) (ha : alphaNonNeg e)
    (toks : List (Tok Num)) (hprint : e.print = .ok toks) :
    parseKnownArgs (render c toks) = .ok (Args.single (destOf e) (withOpt e (flagOf e))) := by
  obtain ⟨e', hparse, hsame⟩ := print_parse_option_partial c e hv hc (by rw [hm]; simp) toks hprint
  rw [hparse, sameOption_exact _ e e' hsame ha hm]

/-- **no printed number, integer or `x` is taken for an option flag** -/
theorem printed_numbers_are_not_flags (c : NumCodec) :
    (∀ x, c.ok x → classify (c.str x) = .ok .arg) ∧
    (∀ i : Int, classify (toString i) = .ok .arg) ∧
    classify "x" = .ok .arg :=
  ⟨classify_num c, classify_toString_int, classify_x⟩

theorem print_succeeds {α} (e : Event α) (hm : isMigMatrix e = false) : ∃ toks, e.print = .ok toks := by
  cases e <;> first | exact ⟨_, rfl⟩ | cases hm

theorem print_mat {α} (o : String) (t : Num) (npop : Int) (mm : List String) (toks : List (Tok α))
    (h : (Event.migMatrixChange o t npop mm : Event α).print = .ok toks) :
    ∃ entries : List (Tok α), toks = (if numPos t then [.flag "-ema", .num t] else [.flag "-ma"]) ++ [.int npop] ++ entries
      ∧ ∀ x ∈ entries, isFlagTok x = false := by
  simp only [Event.print, bind, Except.bind] at h
  split at h
  · cases h
  · next m hm =>
    simp only [pure, Except.pure, Except.ok.injEq] at h
    refine ⟨_, h.symm, ?_⟩
    intro x hx
    rw [List.mem_flatMap] at hx
    obtain ⟨j, _, hx⟩ := hx
    rw [List.mem_map] at hx
    obtain ⟨k, _, hx⟩ := hx
    rw [← hx]
    split <;> rfl

/-- **the printer and the arity table agree** -/
theorem parser_arity_matches_printer {α} (e : Event α) (toks : List (Tok α)) (h : e.print = .ok toks) :
    matchesArity toks := by
  cases e with
  | migMatrixChange o t n mm =>
    obtain ⟨entries, htoks, hent⟩ := print_mat o t n mm toks h
    cases hp : numPos t
    · refine ⟨"-ma", .int n :: entries, by rw [htoks, hp]; rfl, ?_, ?_⟩
      · intro x hx
        rcases List.mem_cons.1 hx with h | h
        · rw [h]; rfl
        · exact hent x h
      · show 1 ≤ (Tok.int n :: entries).length
        simp
    · refine ⟨"-ema", .num t :: .int n :: entries, by rw [htoks, hp]; rfl, ?_, ?_⟩
      · intro x hx
        rcases List.mem_cons.1 hx with h | h
        · rw [h]; rfl
        · rcases List.mem_cons.1 h with h | h
          · rw [h]; rfl
          · exact hent x h
      · show 1 ≤ (Tok.num t :: Tok.int n :: entries).length
        simp
  | growthRateChange o t a =>
    simp only [Event.print, pure, Except.pure, Except.ok.injEq] at h
    subst h
    cases hp : numPos t
    · exact ⟨"-G", _, rfl, mem1 rfl, rfl⟩
    · exact ⟨"-eG", _, rfl, mem2 rfl rfl, rfl⟩
  | popGrowthRateChange o t i a =>
    simp only [Event.print, pure, Except.pure, Except.ok.injEq] at h
    subst h
    cases hp : numPos t
    · exact ⟨"-g", _, rfl, mem2 rfl rfl, rfl⟩
    · exact ⟨"-eg", _, rfl, mem3 rfl rfl rfl, rfl⟩
  | sizeChange o t x =>
    simp only [Event.print, pure, Except.pure, Except.ok.injEq] at h
    subst h
    exact ⟨"-eN", _, rfl, mem2 rfl rfl, rfl⟩
  | popSizeChange o t i x =>
    simp only [Event.print, pure, Except.pure, Except.ok.injEq] at h
    subst h
    cases hp : numPos t
    · exact ⟨"-n", _, rfl, mem2 rfl rfl, rfl⟩
    · exact ⟨"-en", _, rfl, mem3 rfl rfl rfl, rfl⟩
  | migRateChange o t x =>
    simp only [Event.print, pure, Except.pure, Except.ok.injEq] at h
    subst h
    exact ⟨"-eM", _, rfl, mem2 rfl rfl, rfl⟩
  | migEntryChange o t i j x =>
    simp only [Event.print, pure, Except.pure, Except.ok.injEq] at h
    subst h
    cases hp : numPos t
    · exact ⟨"-m", _, rfl, mem3 rfl rfl rfl, rfl⟩
    · exact ⟨"-em", _, rfl, mem4 rfl rfl rfl rfl, rfl⟩
  | split o t i x =>
    simp only [Event.print, pure, Except.pure, Except.ok.injEq] at h
    subst h
    exact ⟨"-es", _, rfl, mem3 rfl rfl rfl, rfl⟩
  | join o t i j =>
    simp only [Event.print, pure, Except.pure, Except.ok.injEq] at h
    subst h
    exact ⟨"-ej", _, rfl, mem3 rfl rfl rfl, rfl⟩

theorem structure_arity {α} (s : Structure) : matchesArity (s.print (α := α)) := by
  refine ⟨"-I", .int s.npop :: (s.n.map .raw ++ (if numPos s.rate then [.num s.rate] else [])), rfl, ?_, ?_⟩
  · intro x hx
    simp only [List.mem_cons, List.mem_append, List.mem_map] at hx
    rcases hx with h | ⟨a, _, h⟩ | h
    · rw [h]; rfl
    · rw [← h]; rfl
    · split at h
      · simp at h; rw [h]; rfl
      · cases h
  · show 1 ≤ (Tok.int s.npop :: _).length
    simp




instance (x : Num) : Decidable (tableCodec.ok x) := by
  unfold NumCodec.ok; show Decidable (tableDom x ∧ _); infer_instance

/-! ### F20: `-ma` -/

/-- `MigrationMatrixChange(t=0, npop=2, ["x", "1.0", "0.5", "x"])` -/
def maRecord : Event Num := .migMatrixChange "" (.fin 0) 2 ["x", "1.0", "0.5", "x"]

theorem maRecord_matrix : matrixOf 2 ["x", "1.0", "0.5", "x"] = .ok [[.fin 0, .fin 1], [.fin (1/2), .fin 0]] := by
  have : (matrixOf 2 ["x", "1.0", "0.5", "x"]).toOption = some [[.fin 0, .fin 1], [.fin (1/2), .fin 0]] := by
    decide +kernel
  cases h : matrixOf 2 ["x", "1.0", "0.5", "x"] with
  | error e => rw [h] at this; cases this
  | ok m => rw [h] at this; cases this; rfl

theorem maRecord_ok : validEvent maRecord ∧ codecEvent tableCodec maRecord := by
  refine ⟨⟨rfl, by decide⟩, by decide +kernel, by decide, ?_⟩
  intro m hm
  rw [maRecord_matrix] at hm
  cases ok_inj hm
  decide +kernel

theorem maRecord_print :
    ∃ toks, maRecord.print = .ok toks ∧ render tableCodec toks = ["-ma", "2", "x", "1.0", "0.5", "x"] := by
  have h : maRecord.print = .ok [.flag "-ma", .int 2, .raw "x", .num (.fin 1), .num (.fin (1/2)), .raw "x"] := by
    simp only [maRecord, Event.print, maRecord_matrix, bind, Except.bind]
    rfl
  exact ⟨_, h, by decide +kernel⟩

theorem maRecord_parse :
    parseKnownArgs ["-ma", "2", "x", "1.0", "0.5", "x"] =
      .ok { initialState := [.migMatrixChange "-ma" (.fin 0) 1 ["2", "x", "1.0", "0.5", "x"]] } := by
  apply parse_single "-ma" _ .plus _ rfl rfl (by simp)
  · intro s hs
    simp only [List.mem_cons, List.not_mem_nil, or_false] at hs
    rcases hs with h | h | h | h | h <;> subst h <;> rfl
  · exact act_ma _


theorem single_initial_inj {e e' : Event Num}
    (h : (Except.ok (Args.single .initialState e') : Except Err Args) = .ok { initialState := [e] }) : e' = e := by
  have := ok_inj h
  simp only [Args.single] at this
  injection this with _ h2 _ _
  injection h2 with h3 _

/-- **F20.**  A `MigrationMatrixChange` with `t = 0` prints `-ma npop x …`, but `-ma` takes the
matrix entries only: the parser makes a record with `npop = 1` whose entry list begins with the
printed `npop`. -/
theorem print_parse_ma_counterexample :
    validEvent maRecord ∧ codecEvent tableCodec maRecord ∧
    ∃ toks, maRecord.print = .ok toks ∧ render tableCodec toks = ["-ma", "2", "x", "1.0", "0.5", "x"] ∧
      parseKnownArgs (render tableCodec toks) =
        .ok { initialState := [.migMatrixChange "-ma" (.fin 0) 1 ["2", "x", "1.0", "0.5", "x"]] } ∧
      ¬ ∃ e', parseKnownArgs (render tableCodec toks) = .ok (Args.single (destOf maRecord) e')
            ∧ sameOption (flagOf maRecord) maRecord e' := by
  obtain ⟨toks, hprint, hrender⟩ := maRecord_print
  refine ⟨maRecord_ok.1, maRecord_ok.2, toks, hprint, hrender, by rw [hrender]; exact maRecord_parse, ?_⟩
  rintro ⟨e', hparse, hsame⟩
  rw [hrender, maRecord_parse] at hparse
  have hd : destOf maRecord = .initialState := rfl
  rw [hd] at hparse
  have := single_initial_inj hparse.symm
  subst this
  simp only [maRecord, sameOption] at hsame
  exact absurd hsame.2.2.1 (by decide)

/-! ### further edge cases outside the theorem's hypotheses -/

/-- `PopulationSizeChange(t=nan, 1, 1.0)`: NaN passes `non_negative`, `t > 0` is false, so the
record prints as `-n 1 1.0` and comes back with `t = 0`. -/
def nanTimeRecord : Event Num := .popSizeChange "" .nan 1 (.fin 1)

theorem print_parse_nan_time_counterexample :
    validEvent nanTimeRecord ∧
    ∃ toks, nanTimeRecord.print = .ok toks ∧ render tableCodec toks = ["-n", "1", "1.0"] ∧
      parseKnownArgs (render tableCodec toks) = .ok { initialState := [.popSizeChange "-n" (.fin 0) 1 (.fin 1)] } ∧
      ¬ ∃ e', parseKnownArgs (render tableCodec toks) = .ok (Args.single (destOf nanTimeRecord) e')
            ∧ sameOption (flagOf nanTimeRecord) nanTimeRecord e' := by
  have hparse : parseKnownArgs ["-n", "1", "1.0"] = .ok { initialState := [.popSizeChange "-n" (.fin 0) 1 (.fin 1)] } := by
    apply parse_single "-n" _ (.fixed 2) _ rfl rfl rfl (mem2 rfl rfl)
    have h1 : cInt "1" = .ok 1 := cInt_toString 1
    have h2 : cFloat "1.0" = .ok (.fin 1) := cFloat_exact tableCodec (.fin 1) (by decide +kernel) rfl
    exact act_n _ _ 1 (.fin 1) h1 h2 (by decide) rfl
  have hrender : render tableCodec [.flag "-n", .int 1, .num (.fin 1)] = ["-n", "1", "1.0"] := by decide +kernel
  have hprint : nanTimeRecord.print = .ok [.flag "-n", .int 1, .num (.fin 1)] := rfl
  refine ⟨⟨rfl, by decide, rfl⟩, _, hprint, hrender, by rw [hrender]; exact hparse, ?_⟩
  rintro ⟨e', hp, hsame⟩
  rw [hrender, hparse] at hp
  have hd : destOf nanTimeRecord = .initialState := rfl
  rw [hd] at hp
  have := single_initial_inj hp.symm
  subst this
  simp only [nanTimeRecord, sameOption] at hsame
  exact absurd hsame.2.1 (by decide)

/-- a matrix entry `-inf` is printed `-inf`, which argparse takes for an unknown option: `-ema`
stops collecting there -/
theorem print_parse_ema_ninf_counterexample :
    (parseKnownArgs ["-ema", "1.0", "2", "x", "-inf", "0.0", "x"]).toOption.map
        (fun a => (a.demographicEvents, a.unknown))
      = some ([.migMatrixChange "-ema" (.fin 1) 2 ["x"]], ["-inf", "0.0", "x"]) := by decide +kernel

/-- why negative numbers are printed in fixed-point form: the exponent form is not a negative
number for argparse (and `-1e-05` is no option either: it is an unknown token, so the option
before it misses an argument), the fixed-point form is an argument -/
theorem negative_exponent_form_is_not_an_argument :
    classify "-1e-05" = .ok .unknown ∧ classify "-0.0000100000" = .ok .arg := ⟨rfl, rfl⟩


/-! ### destinations against the table of `build_parser` -/

/-- the destination list chosen for a printed record is the one `build_parser` registers for the
printed flag (`Theorems/TablesMsModel.lean`, `tables_ms_model_dest`) -/
theorem dest_matches_table {α} (e : Event α) :
    (destOf e = .initialState ↔ flagOf e ∈ ["-n", "-g", "-G", "-m", "-ma"]) ∧
    (destOf e = .demographicEvents ↔ flagOf e ∈ ["-eG", "-eg", "-eN", "-en", "-eM", "-em", "-ema", "-es", "-ej"]) := by
  cases e with
  | growthRateChange o t a => cases h : numPos t <;> simp [destOf, flagOf, h]
  | popGrowthRateChange o t i a => cases h : numPos t <;> simp [destOf, flagOf, h]
  | sizeChange o t x => simp [destOf, flagOf]
  | popSizeChange o t i x => cases h : numPos t <;> simp [destOf, flagOf, h]
  | migRateChange o t x => simp [destOf, flagOf]
  | migEntryChange o t i j x => cases h : numPos t <;> simp [destOf, flagOf, h]
  | migMatrixChange o t n mm => cases h : numPos t <;> simp [destOf, flagOf, h]
  | split o t i x => simp [destOf, flagOf]
  | join o t i j => simp [destOf, flagOf]

/-- `-I` with the sample sizes `to_ms` prints (`str(int)`) -/
theorem pp_structure_samples (c : NumCodec) (s : Structure) (samples : List Int) (hv : validStructure s)
    (hc : c.ok s.rate) (hnan : s.rate ≠ .nan) (hn : s.n = samples.map toString) :
    parseKnownArgs (render c s.print) = .ok { structure_ := some s } := by
  apply pp_structure c s hv hc hnan
  intro x hx
  rw [hn, List.mem_map] at hx
  obtain ⟨i, _, hi⟩ := hx
  rw [← hi]
  exact classify_toString_int i

end Demes.Proofs.MsPrint
