/-
  Translator tie of `class Builder` (C02, C18; C01 / C03 enter through the same class): the source's
  `Builder.__init__`, `add_deme`, `add_migration`, `add_pulse` are the Model's `Builder.step`.

  `Generated.builderInit`, `builderAddDeme`, `builderAddMigration`, `builderAddPulse` are the four methods as terms of the
  row language of `Model/BuilderProg.lean`, re-read from demes/demes.py on every run: the signature (parameters, which
  are keyword-only, defaults), the `dict(…)` the method starts from, one row per `if p is not None: x["k"] = p` block in
  source order (with the test — `is not None` or `is not NO_DEFAULT` — and the nested `"Infinity"` conversion), and the
  final `if "K" not in self.data: self.data["K"] = []` / `self.data["K"].append(x)`.  Every statement of a method is a
  part of its term, or the method has no term and nothing below compiles.  `Builder.Prog.denoteV` is the meaning of a
  term on an argument record (`argsOf call`: the keyword record, `none` = not passed) and on the Builder's data.

  * `builder_tie_init`, `builder_tie_add_deme`, `builder_tie_add_migration`, `builder_tie_add_pulse`: for ALL arguments and ALL
    data dictionaries the Model's `Builder.step` is the meaning of the generated term;
  * `builder_tieV_*`: the same on ANY data (`Builder.fromdict` stores what it is given) with the exception:
    `Builder.stepV` / `Builder.raises`;
  * `builder_tie_*_dict`: the dictionary each method builds is the Model's `initData` / `demeDict` / `migrationDict` /
    `pulseDict`;
  * `builder_tie_history`: hence `Builder.runFrom` (the data after any call history) is the fold of the generated meanings;
  * `builder_signatures`, `builder_call_arguments`, `builder_parameter_kinds`: the signatures, and that a `BuilderCall` carries exactly the
    parameters of its method, in order; `builder_sentinel`; `builder_fromdict_body` (`resolve` is pinned by
    `fact_builder_resolve_only_passes_data`, Theorems/TablesFacts.lean).
-/
import DemesVerif.Generated.GuardsBuilder
import DemesVerif.Proofs.GuardsBuilder
namespace Demes.Tables
open Demes Demes.Obj Demes.Builder Demes.Builder.Prog Demes.Proofs.GuardsBuilder
set_option linter.unusedSimpArgs false

/-- reads a variable of a concrete environment -/
local macro "gv" : tactic => `(tactic| simp [getVar, getVar_ite, getVar_setVar_ne])
/-- after a row has been rewritten: go on with the next one -/
local macro "next_row" : tactic => `(tactic| simp only [Option.bind_eq_bind, Option.bind_some])

/-! ### the dictionary a method builds from its arguments -/

theorem builder_tie_init_dict (description timeUnits generationTime doi defaults metadata : Option Value) :
    buildDict Generated.builderInit (argsOf (.init description timeUnits generationTime doi defaults metadata))
      = some (initData description timeUnits generationTime doi defaults metadata) := by
  simp only [buildDict, Generated.builderInit, argsOf, bindArgs, argVal_pyNone, argVal_str, argVal_some, if_true,
    initialDict, getVar]
  simp
  simp only [runRows, List.foldlM_cons, List.foldlM_nil]
  rw [runRow_notNone _ _ _ _ description (by gv)]; next_row
  rw [runRow_notNone _ _ _ _ generationTime (by gv)]; next_row
  rw [runRow_notNone _ _ _ _ doi (by gv)]; next_row
  rw [runRow_notNone _ _ _ _ defaults (by gv)]; next_row
  rw [runRow_notNone _ _ _ _ metadata (by gv)]
  simp [initData]

theorem builder_tie_add_deme_dict (name : Value)
    (description ancestors proportions startTime epochs defaults : Option Value) :
    buildDict Generated.builderAddDeme
        (argsOf (.addDeme name description ancestors proportions startTime epochs defaults))
      = some (demeDict name description ancestors proportions startTime epochs defaults) := by
  simp only [buildDict, Generated.builderAddDeme, argsOf, bindArgs, argVal_pyNone, argVal_some, if_true, initialDict,
    getVar]
  simp
  simp only [runRows, List.foldlM_cons, List.foldlM_nil]
  rw [runRow_notNone _ _ _ _ description (by gv)]; next_row
  rw [runRow_notNone _ _ _ _ ancestors (by gv)]; next_row
  rw [runRow_notNone _ _ _ _ proportions (by gv)]; next_row
  rw [runRow_notNone_infinity _ _ _ _ startTime (by gv)]; next_row
  rw [runRow_notNone _ _ _ _ epochs (by gv)]; next_row
  rw [runRow_notNone _ _ _ _ defaults (by gv)]
  simp [demeDict]

theorem builder_tie_add_migration_dict (rate demes source dest startTime endTime : Option Value) :
    buildDict Generated.builderAddMigration (argsOf (.addMigration rate demes source dest startTime endTime))
      = some (migrationDict rate demes source dest startTime endTime) := by
  simp only [buildDict, Generated.builderAddMigration, argsOf, bindArgs, argVal_pyNone, argVal_noDefault, argVal_some,
    if_true, initialDict, getVar]
  simp
  simp only [runRows, List.foldlM_cons, List.foldlM_nil]
  rw [runRow_notNone _ _ _ _ rate (by gv)]; next_row
  rw [runRow_notNoDefault _ _ _ _ demes (by gv)]; next_row
  rw [runRow_notNoDefault _ _ _ _ source (by gv)]; next_row
  rw [runRow_notNoDefault _ _ _ _ dest (by gv)]; next_row
  rw [runRow_notNone_infinity _ _ _ _ startTime (by gv)]; next_row
  rw [runRow_notNone _ _ _ _ endTime (by gv)]
  simp [migrationDict]

theorem builder_tie_add_pulse_dict (sources dest proportions time : Option Value) :
    buildDict Generated.builderAddPulse (argsOf (.addPulse sources dest proportions time))
      = some (pulseDict sources dest proportions time) := by
  simp only [buildDict, Generated.builderAddPulse, argsOf, bindArgs, argVal_pyNone, argVal_some, if_true, initialDict,
    getVar]
  simp
  simp only [runRows, List.foldlM_cons, List.foldlM_nil]
  rw [runRow_notNone _ _ _ _ sources (by gv)]; next_row
  rw [runRow_notNone _ _ _ _ dest (by gv)]; next_row
  rw [runRow_notNone _ _ _ _ proportions (by gv)]; next_row
  rw [runRow_notNone _ _ _ _ time (by gv)]
  simp [pulseDict]

/-! ### one call, on any data: new data and whether the call raises -/

theorem builder_tieV_init (data : Value) (description timeUnits generationTime doi defaults metadata : Option Value) :
    denoteV Generated.builderInit (argsOf (.init description timeUnits generationTime doi defaults metadata)) data
      = some ⟨Builder.stepV data (.init description timeUnits generationTime doi defaults metadata),
              Builder.raises data (.init description timeUnits generationTime doi defaults metadata)⟩ := by
  rw [denoteV, builder_tie_init_dict]
  rfl

theorem builder_tieV_add_deme (data : Value) (name : Value)
    (description ancestors proportions startTime epochs defaults : Option Value) :
    denoteV Generated.builderAddDeme
        (argsOf (.addDeme name description ancestors proportions startTime epochs defaults)) data
      = some ⟨Builder.stepV data (.addDeme name description ancestors proportions startTime epochs defaults),
              Builder.raises data (.addDeme name description ancestors proportions startTime epochs defaults)⟩ := by
  rw [denoteV, builder_tie_add_deme_dict]
  have ht : Generated.builderAddDeme.tail = .append "demes" true := rfl
  simp only [Option.map_some, ht]
  cases data with
  | obj d => rw [runTail_append]; rfl
  | _ => rfl

theorem builder_tieV_add_migration (data : Value) (rate demes source dest startTime endTime : Option Value) :
    denoteV Generated.builderAddMigration (argsOf (.addMigration rate demes source dest startTime endTime)) data
      = some ⟨Builder.stepV data (.addMigration rate demes source dest startTime endTime),
              Builder.raises data (.addMigration rate demes source dest startTime endTime)⟩ := by
  rw [denoteV, builder_tie_add_migration_dict]
  have ht : Generated.builderAddMigration.tail = .append "migrations" true := rfl
  simp only [Option.map_some, ht]
  cases data with
  | obj d => rw [runTail_append]; rfl
  | _ => rfl

theorem builder_tieV_add_pulse (data : Value) (sources dest proportions time : Option Value) :
    denoteV Generated.builderAddPulse (argsOf (.addPulse sources dest proportions time)) data
      = some ⟨Builder.stepV data (.addPulse sources dest proportions time),
              Builder.raises data (.addPulse sources dest proportions time)⟩ := by
  rw [denoteV, builder_tie_add_pulse_dict]
  have ht : Generated.builderAddPulse.tail = .append "pulses" true := rfl
  simp only [Option.map_some, ht]
  cases data with
  | obj d => rw [runTail_append]; rfl
  | _ => rfl

/-! ### one call, on a data dictionary: `Builder.step` -/

theorem builder_tie_init (data : Obj) (description timeUnits generationTime doi defaults metadata : Option Value) :
    denote Generated.builderInit (argsOf (.init description timeUnits generationTime doi defaults metadata)) data
      = some (Builder.step data (.init description timeUnits generationTime doi defaults metadata)) := by
  rw [denote, builder_tieV_init]; rfl

theorem builder_tie_add_deme (data : Obj) (name : Value)
    (description ancestors proportions startTime epochs defaults : Option Value) :
    denote Generated.builderAddDeme
        (argsOf (.addDeme name description ancestors proportions startTime epochs defaults)) data
      = some (Builder.step data (.addDeme name description ancestors proportions startTime epochs defaults)) := by
  rw [denote, builder_tieV_add_deme]; rfl

theorem builder_tie_add_migration (data : Obj) (rate demes source dest startTime endTime : Option Value) :
    denote Generated.builderAddMigration (argsOf (.addMigration rate demes source dest startTime endTime)) data
      = some (Builder.step data (.addMigration rate demes source dest startTime endTime)) := by
  rw [denote, builder_tieV_add_migration]; rfl

theorem builder_tie_add_pulse (data : Obj) (sources dest proportions time : Option Value) :
    denote Generated.builderAddPulse (argsOf (.addPulse sources dest proportions time)) data
      = some (Builder.step data (.addPulse sources dest proportions time)) := by
  rw [denote, builder_tieV_add_pulse]; rfl

/-! ### call histories -/

/-- the generated term of a call's method (`resolve` builds nothing: `fact_builder_resolve_only_passes_data`) -/
def methodOf : BuilderCall → Option Method
  | .init .. => some Generated.builderInit
  | .addDeme .. => some Generated.builderAddDeme
  | .addMigration .. => some Generated.builderAddMigration
  | .addPulse .. => some Generated.builderAddPulse
  | .resolve => none

/-- the data after one call, by the generated terms -/
def genStep (data : Value) (c : BuilderCall) : Value :=
  match methodOf c with
  | none => data
  | some m => ((denoteV m (argsOf c) data).map (·.data)).getD data

theorem builder_tie_call (data : Value) (c : BuilderCall) : genStep data c = Builder.stepV data c := by
  cases c with
  | init a b c d e f => simp only [genStep, methodOf, builder_tieV_init]; rfl
  | addDeme n a b c d e f => simp only [genStep, methodOf, builder_tieV_add_deme]; rfl
  | addMigration a b c d e f => simp only [genStep, methodOf, builder_tieV_add_migration]; rfl
  | addPulse a b c d => simp only [genStep, methodOf, builder_tieV_add_pulse]; rfl
  | resolve => cases data <;> rfl

/-- the data a Builder holds after any history of calls, started from any data (`Builder.fromdict`), is what the
generated terms compute -/
theorem builder_tie_history (data : Value) (calls : List BuilderCall) :
    Builder.runFrom data calls = calls.foldl genStep data := by
  have h : genStep = Builder.stepV := by funext d c; exact builder_tie_call d c
  rw [h]; rfl

/-! ### signatures and the pinned rest -/

/-- per method: decorators; parameters after the receiver (name, keyword-only, default) -/
theorem builder_signatures : Generated.builderSignatures = [
    ("__init__", [], [("description", true, "None"), ("time_units", true, "'generations'"),
      ("generation_time", true, "None"), ("doi", true, "None"), ("defaults", true, "None"), ("metadata", true, "None")]),
    ("add_deme", [], [("name", false, "-"), ("description", true, "None"), ("ancestors", true, "None"),
      ("proportions", true, "None"), ("start_time", true, "None"), ("epochs", true, "None"), ("defaults", true, "None")]),
    ("add_migration", [], [("rate", true, "None"), ("demes", true, "NO_DEFAULT"), ("source", true, "NO_DEFAULT"),
      ("dest", true, "NO_DEFAULT"), ("start_time", true, "None"), ("end_time", true, "None")]),
    ("add_pulse", [], [("sources", true, "None"), ("dest", true, "None"), ("proportions", true, "None"),
      ("time", true, "None")]),
    ("resolve", [], []),
    ("fromdict", ["classmethod"], [("data", false, "-")])] := by decide +kernel

/-- a `BuilderCall` carries exactly the parameters of its method, in the order of the signature -/
theorem builder_call_arguments (c : BuilderCall) (m : Method) (h : methodOf c = some m) :
    (argsOf c).map (·.1) = m.params.map (·.name) := by
  cases c <;> cases h <;> rfl

/-- the only parameter without a default is `add_deme`'s `name` (which `BuilderCall.addDeme` always carries); the
only parameter that is not keyword-only likewise; every default is one the meaning understands -/
theorem builder_parameter_kinds :
    [Generated.builderInit, Generated.builderAddDeme, Generated.builderAddMigration, Generated.builderAddPulse].map
        (fun m => ((m.params.filter (·.default = .required)).map (·.name),
                   (m.params.filter (fun p => !p.kwOnly)).map (·.name),
                   m.params.all (fun p => p.default = .required || p.default.value?.isSome)))
      = [([], [], true), (["name"], ["name"], true), ([], [], true), ([], [], true)] := by decide +kernel

/-- the sentinel is a fresh object bound once: no document value (`None` included) is identical to it -/
theorem builder_sentinel : Generated.builderSentinel = ["NO_DEFAULT = object()"] := by decide +kernel

/-- `Builder.fromdict(data)`: a default Builder whose `data` is then the given object (`Builder.fromdict = id` on the data) -/
theorem builder_fromdict_body :
    Generated.builderFromdictBody = ["v0 = cls()", "v0.data = data", "return v0"] := by decide +kernel

/-! ### non-vacuity: closed instances -/

section examples

def exNum (q : Q) : Value := .num (.fin q)
def exAllDeme : BuilderCall :=
  .addDeme (.str "B") (some (.str "a deme")) (some (.list [.str "A"])) (some (.list [exNum 1]))
    (some (exNum 100)) (some (.list [.obj [("start_size", exNum 50)]])) (some (.obj []))

-- every row fires; on `Builder()` the `demes` list is created
example : denote Generated.builderAddDeme (argsOf exAllDeme) Builder.emptyData
    = some [("time_units", .str "generations"),
            ("demes", .list [.obj [("name", .str "B"), ("description", .str "a deme"), ("ancestors", .list [.str "A"]),
              ("proportions", .list [exNum 1]), ("start_time", exNum 100),
              ("epochs", .list [.obj [("start_size", exNum 50)]]), ("defaults", .obj [])]])] := by decide +kernel
-- no row fires (nothing passed; `None` passed): an empty migration is appended to the existing list
example : denote Generated.builderAddMigration (argsOf (.addMigration none none none none none none))
      [("migrations", .list [.obj []])] = some [("migrations", .list [.obj [], .obj []])]
    ∧ denote Generated.builderAddPulse (argsOf (.addPulse (some .null) none (some .null) none)) []
      = some [("pulses", .list [.obj []])] := by decide +kernel
-- the `"Infinity"` conversion: `start_time` only
example : buildDict Generated.builderAddMigration
      (argsOf (.addMigration none none none none (some (.str "Infinity")) (some (.str "Infinity"))))
    = some [("start_time", .num .pinf), ("end_time", .str "Infinity")] := by decide +kernel
-- `None` for a parameter whose default is the sentinel is stored; the test `is not None` on such a parameter would
-- let the sentinel itself through, which is not a document: that term has no meaning
example : buildDict Generated.builderAddMigration (argsOf (.addMigration none (some .null) none none none none))
    = some [("demes", .null)] := by decide +kernel
example : buildDict { Generated.builderAddMigration with rows := [⟨"demes", "demes", .notNone, false⟩] }
      (argsOf (.addMigration none none none none none none)) = none := by decide +kernel
-- the ORDER of the rows matters: the same rows in another order build another dictionary
example : buildDict { Generated.builderAddPulse with rows := Generated.builderAddPulse.rows.reverse }
      (argsOf (.addPulse (some (.list [.str "A"])) (some (.str "B")) none (some (exNum 5))))
    = some [("time", exNum 5), ("dest", .str "B"), ("sources", .list [.str "A"])]
    ∧ buildDict Generated.builderAddPulse
      (argsOf (.addPulse (some (.list [.str "A"])) (some (.str "B")) none (some (exNum 5))))
    = some [("sources", .list [.str "A"]), ("dest", .str "B"), ("time", exNum 5)] := by decide +kernel
-- without the initialisation of the list the first `add_pulse` raises `KeyError`
example : (denoteV { Generated.builderAddPulse with tail := .append "pulses" false }
      (argsOf (.addPulse none none none none)) (.obj [])).map (fun o => (o.data, o.raised)) = some (.obj [], true)
    ∧ (denoteV Generated.builderAddPulse
      (argsOf (.addPulse none none none none)) (.obj [])).map (fun o => (o.data, o.raised))
      = some (.obj [("pulses", .list [.obj []])], false) := by decide +kernel
-- data that is not a mapping, or whose section is not a list: the call raises and changes nothing
example : (denoteV Generated.builderAddDeme (argsOf exAllDeme) (.list [])).map (fun o => (o.data, o.raised))
      = some (.list [], true)
    ∧ (denoteV Generated.builderAddDeme (argsOf exAllDeme) (.obj [("demes", .str "x")])).map
        (fun o => (o.data, o.raised)) = some (.obj [("demes", .str "x")], true) := by decide +kernel
-- arguments that do not fit the signature have no meaning
example : denoteV Generated.builderAddPulse (argsOf exAllDeme) (.obj []) = none
    ∧ (denoteV Generated.builderAddDeme [("name", none)] (.obj [])).isNone = true := by
  constructor <;> rfl
-- the constructor: `time_units` first, default or as passed (`None` included)
example : denote Generated.builderInit (argsOf (.init (some (.str "d")) none (some .null) none none (some (.obj [])))) []
      = some [("time_units", .str "generations"), ("description", .str "d"), ("metadata", .obj [])]
    ∧ denote Generated.builderInit (argsOf (.init none (some .null) none none none none)) []
      = some [("time_units", .null)] := by decide +kernel

end examples

end Demes.Tables
