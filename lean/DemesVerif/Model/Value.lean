/-
  JSON-like documents.  Objects are insertion-ordered association lists
  (Python `dict` semantics: lookup = first match, `pop` removes the key,
  assignment overwrites in place or appends).
-/
import DemesVerif.Model.Num
import DemesVerif.Model.Ident
namespace Demes

inductive Value where
  | null
  | bool (b : Bool)
  | num (n : Num)
  | str (s : String)
  | list (xs : List Value)
  | obj (kvs : List (String × Value))
  deriving Repr, Inhabited

abbrev Obj := List (String × Value)

namespace Obj

def lookup (k : String) : Obj → Option Value
  | [] => none
  | (k', v) :: rest => if k' = k then some v else lookup k rest

def contains (k : String) (d : Obj) : Bool := (lookup k d).isSome

def keys (d : Obj) : List String := d.map (·.1)

def erase (k : String) (d : Obj) : Obj := d.filter (fun kv => kv.1 ≠ k)

/-- `d[k] = v` -/
def set (k : String) (v : Value) : Obj → Obj
  | [] => [(k, v)]
  | (k', v') :: rest => if k' = k then (k, v) :: rest else (k', v') :: set k v rest

/-- `insert_defaults(data, defaults)`: add every key of `defaults` missing in `data` -/
def insertDefaults (data defaults : Obj) : Obj :=
  defaults.foldl (fun acc kv => if contains kv.1 acc then acc else acc ++ [kv]) data

/-- `d = a.copy(); d.update(b)` -/
def update (a b : Obj) : Obj := b.foldl (fun acc kv => set kv.1 kv.2 acc) a

/-- `d.pop(k, None)`: a missing key and an explicit `None` are the same thing -/
def lookupNN (k : String) (d : Obj) : Option Value :=
  match lookup k d with
  | some .null => none
  | r => r

end Obj

namespace Value

def isNull : Value → Bool
  | null => true
  | _ => false

/-- `isinstance(v, numbers.Real)` (Python's `bool` is an `int`) without the NaN test -/
def asNumRaw? : Value → Option Num
  | num n => some n
  | bool b => some (.fin (if b then 1 else 0))
  | _ => none

def asStr? : Value → Option String
  | str s => some s
  | _ => none

def asList? : Value → Option (List Value)
  | list xs => some xs
  | _ => none

def asObj? : Value → Option Obj
  | obj kvs => some kvs
  | _ => none

end Value

/-! ### identifiers (`str.isidentifier`): ASCII letters, digits and the underscore are fixed here;
beyond ASCII the interpreter's XID_Start / XID_Continue classes are the pinned range tables of
`Model/Ident.lean` (regenerated from the running interpreter and proved equal on every run,
`Theorems/TablesIdent.lean`) -/

def isIdStart (c : Char) : Bool :=
  c.isAlpha || c == '_' || (decide (128 ≤ c.toNat) && Ident.inRanges Ident.xidStartRanges c.toNat)
def isIdCont (c : Char) : Bool :=
  c.isAlphanum || c == '_' || (decide (128 ≤ c.toNat) && Ident.inRanges Ident.xidContinueRanges c.toNat)

def isIdentifier (s : String) : Bool :=
  match s.toList with
  | [] => false
  | c :: cs => isIdStart c && cs.all isIdCont

end Demes
