/-
  C09 §10 — graph → ms → graph on the fragment `Tame3` of C08: the composition of C07, the bridge and C08
  (`ms_roundtrip_sem_of_agree`, `ms_roundtrip_growth_sem_of_agree`) with `fromMs_sem3` in the place of `fromMs_sem`,
  and `Tame3` of the printed command from `PulsesBelowOne` of the graph (`MsRT.tame3_toMs`, `MsGrow.tame3_toMsV`).
  Acceptance by `from_ms` is a hypothesis here; it is discharged in `MsRT3Final.lean`.
-/
import DemesVerif.Proofs.MsRTNorm
import DemesVerif.Proofs.MsGrowCompose
import DemesVerif.Proofs.MsRT3Tame
import DemesVerif.Proofs.MsRT3TameGrow
import DemesVerif.Proofs.FromMsFrag3Run
namespace Demes.Proofs.MsRT3
open Demes Demes.Ms Demes.Spec Demes.Spec.C07 Demes.Spec.C09
open Demes.Spec.MsSem (DemogSem PopSem msSem graphSem graphSemWith msGraphSem parse)
open Demes.Spec.C08 (semEquiv popEquiv SemAgree resultSem Tame3 PlainTokens)
open Demes.Proofs.ToMs (clauses_of_valid)
open Demes.Proofs.ToMsNorm (validGraph_norm expr_norm samplesOk_norm exact_norm toMs_norm)

/-! ### C08 on plain command lines, fragment `Tame3` -/

theorem fromMs_sem3_plain {c : List String} {N0 : Q} {mg : MsGraph} {sem : DemogSem} {pr : Demes.Spec.MsSem.Parsed}
    (h : fromMs c N0 none = .ok mg) (hsem : msSem c N0 = .ok sem) (hpl : PlainTokens c = true)
    (hpr : parse c = .ok pr) (ht : Tame3 pr = true) :
    SemAgree (msSem c N0) (resultSem mg) = true := by
  obtain ⟨args, _, hargs, _, _⟩ := Demes.Proofs.FromMs.fromMs_buildState h
  have hp := Demes.Proofs.FromMsParse.parsersAgree_of_plain hpl hargs hpr
  exact Demes.Proofs.FromMs.fromMs_sem_frag3 h hsem hp hpr ht

theorem pulsesBelowOne_norm (g : Graph) : PulsesBelowOne (normalizeProportions g) = PulsesBelowOne g := rfl

/-! ### constant sizes -/

/-- the command `to_ms` prints for a valid ms-expressible graph of constant sizes whose pulse proportions are below
one is read by the string parser as a command in `Tame3` -/
theorem toMs_tame3 (c : NumCodec) (sa : Growth → String) {g : Graph} (hv : validGraph g = true)
    (hx : MsExpressible g = true) (hcs : ConstSizes g = true) (hpb : PulsesBelowOne g = true) {N0 : Q} (hN : 0 < N0)
    {samples : Option (List Int)} (hs : samplesOk g samples = true) {toks : List (Tok Growth)}
    (htoks : toMs g N0 samples = .ok toks) (hc : CodecCovers c toks) :
    ∃ pr, parse (renderG c sa toks) = .ok pr ∧ Tame3 pr = true := by
  obtain ⟨_, _, _, b4, _⟩ := MsRT.toMs_bridge c sa hv hx hcs hN hs htoks hc
  exact ⟨_, b4, MsRT.tame3_toMs hv hx hcs hpb hN samples⟩

/-- `ms_roundtrip_sem_partial` with `Tame3` in place of `Tame'` -/
theorem ms_roundtrip_sem_partial3 (c : NumCodec) (sa : Growth → String) {g : Graph} (hv : validGraph g = true)
    (hx : MsExpressible g = true) (hex : ExactProportions g = true) (hcs : ConstSizes g = true)
    {N0 : Q} (hN : 0 < N0) {samples : Option (List Int)} (hs : samplesOk g samples = true)
    {toks : List (Tok Growth)} (htoks : toMs g N0 samples = .ok toks) (hc : CodecCovers c toks)
    {mg : MsGraph} (hfrom : fromMs (renderG c sa toks) N0 none = .ok mg)
    {pr : Demes.Spec.MsSem.Parsed} (hpr : parse (renderG c sa toks) = .ok pr) (ht : Tame3 pr = true) :
    ∃ sem rs gs, msSem (renderG c sa toks) N0 = .ok sem ∧ resultSem mg = .ok rs
      ∧ graphSem (inGenerations g) none = .ok gs
      ∧ semEquiv sem rs = true ∧ SemRefines sem gs ∧ SemRefines rs gs :=
  MsRT.ms_roundtrip_sem_of_agree c sa hv hx hex hcs hN hs htoks hc hfrom
    (fun _ hsem hpl => fromMs_sem3_plain hfrom hsem hpl hpr ht)

/-- `ms_roundtrip_sem_tame` with `PulsesBelowOne` in place of `PulsesTame` -/
theorem ms_roundtrip_sem_tame3 (c : NumCodec) (sa : Growth → String) {g : Graph} (hv : validGraph g = true)
    (hx : MsExpressible g = true) (hex : ExactProportions g = true) (hcs : ConstSizes g = true)
    (hpb : PulsesBelowOne g = true)
    {N0 : Q} (hN : 0 < N0) {samples : Option (List Int)} (hs : samplesOk g samples = true)
    {toks : List (Tok Growth)} (htoks : toMs g N0 samples = .ok toks) (hc : CodecCovers c toks)
    {mg : MsGraph} (hfrom : fromMs (renderG c sa toks) N0 none = .ok mg) :
    ∃ sem rs gs, msSem (renderG c sa toks) N0 = .ok sem ∧ resultSem mg = .ok rs
      ∧ graphSem (inGenerations g) none = .ok gs
      ∧ semEquiv sem rs = true ∧ SemRefines sem gs ∧ SemRefines rs gs := by
  obtain ⟨pr, hpr, ht⟩ := toMs_tame3 c sa hv hx hcs hpb hN hs htoks hc
  exact ms_roundtrip_sem_partial3 c sa hv hx hex hcs hN hs htoks hc hfrom hpr ht

/-- `ms_roundtrip_sem_norm` with `Tame3` -/
theorem ms_roundtrip_sem_norm3 (c : NumCodec) (sa : Growth → String) {g : Graph} (hv : validGraph g = true)
    (hx : MsExpressible g = true) (hcs : ConstSizes g = true)
    {N0 : Q} (hN : 0 < N0) {samples : Option (List Int)} (hs : samplesOk g samples = true)
    {toks : List (Tok Growth)} (htoks : toMs g N0 samples = .ok toks) (hc : CodecCovers c toks)
    {mg : MsGraph} (hfrom : fromMs (renderG c sa toks) N0 none = .ok mg)
    {pr : Demes.Spec.MsSem.Parsed} (hpr : parse (renderG c sa toks) = .ok pr) (ht : Tame3 pr = true) :
    ∃ sem rs gs, msSem (renderG c sa toks) N0 = .ok sem ∧ resultSem mg = .ok rs
      ∧ graphSem (inGenerations (normalizeProportions g)) none = .ok gs
      ∧ semEquiv sem rs = true ∧ SemRefines sem gs ∧ SemRefines rs gs :=
  ms_roundtrip_sem_partial3 c sa (validGraph_norm hv) (by rw [expr_norm]; exact hx)
    (exact_norm (clauses_of_valid hv).h4) (by rw [MsRT.constSizes_norm]; exact hcs) hN
    (samples := samples) (by rw [samplesOk_norm]; exact hs)
    (by rw [toMs_norm hv hx hN hs]; exact htoks) hc hfrom hpr ht

/-- `ms_roundtrip_sem_tame_norm` with `PulsesBelowOne` in place of `PulsesTame` -/
theorem ms_roundtrip_sem_tame_norm3 (c : NumCodec) (sa : Growth → String) {g : Graph} (hv : validGraph g = true)
    (hx : MsExpressible g = true) (hcs : ConstSizes g = true) (hpb : PulsesBelowOne g = true)
    {N0 : Q} (hN : 0 < N0) {samples : Option (List Int)} (hs : samplesOk g samples = true)
    {toks : List (Tok Growth)} (htoks : toMs g N0 samples = .ok toks) (hc : CodecCovers c toks)
    {mg : MsGraph} (hfrom : fromMs (renderG c sa toks) N0 none = .ok mg) :
    ∃ sem rs gs, msSem (renderG c sa toks) N0 = .ok sem ∧ resultSem mg = .ok rs
      ∧ graphSem (inGenerations (normalizeProportions g)) none = .ok gs
      ∧ semEquiv sem rs = true ∧ SemRefines sem gs ∧ SemRefines rs gs := by
  obtain ⟨pr, hpr, ht⟩ := toMs_tame3 c sa hv hx hcs hpb hN hs htoks hc
  exact ms_roundtrip_sem_norm3 c sa hv hx hcs hN hs htoks hc hfrom hpr ht

/-! ### exponential epochs -/

/-- the command is read by the string parser as a command in `Tame3` -/
theorem toMs_tame3V (c : NumCodec) (sa : Growth → String) {g : Graph} (hv : validGraph g = true)
    (hx : MsExpressible g = true) (hpb : PulsesBelowOne g = true) {N0 : Q} (hN : 0 < N0)
    {samples : Option (List Int)} (hs : samplesOk g samples = true) {toks : List (Tok Growth)}
    (htoks : toMs g N0 samples = .ok toks) (hc : CodecCovers c toks)
    (hsa : GrowthPrinter sa (epochGrowths g N0)) :
    ∃ pr, parse (renderG c sa toks) = .ok pr ∧ Tame3 pr = true := by
  obtain ⟨_, _, _, b4, _⟩ := MsGrow.toMs_bridgeV c sa hv hx hN hs htoks hc hsa
  exact ⟨_, b4, MsGrow.tame3_toMsV (growthVal sa) hv hx hpb hN samples⟩

/-- `ms_roundtrip_growth_sem_partial` with `Tame3` in place of `Tame'` -/
theorem ms_roundtrip_growth_sem_partial3 (c : NumCodec) (sa : Growth → String) {g : Graph} (hv : validGraph g = true)
    (hx : MsExpressible g = true) (hex : ExactProportions g = true)
    {N0 : Q} (hN : 0 < N0) {samples : Option (List Int)} (hs : samplesOk g samples = true)
    {toks : List (Tok Growth)} (htoks : toMs g N0 samples = .ok toks) (hc : CodecCovers c toks)
    (hsa : GrowthPrinter sa (epochGrowths g N0))
    {mg : MsGraph} (hfrom : fromMs (renderG c sa toks) N0 none = .ok mg)
    {pr : Demes.Spec.MsSem.Parsed} (hpr : parse (renderG c sa toks) = .ok pr) (ht : Tame3 pr = true) :
    ∃ sem rs gs, msSem (renderG c sa toks) N0 = .ok sem ∧ resultSem mg = .ok rs
      ∧ graphSem (inGenerations g) none = .ok gs
      ∧ semEquiv sem rs = true
      ∧ SemRefines sem (regrow (growthVal sa) N0 gs) ∧ SemRefines rs (regrow (growthVal sa) N0 gs) :=
  MsGrow.ms_roundtrip_growth_sem_of_agree c sa hv hx hex hN hs htoks hc hsa hfrom
    (fun _ hsem hpl => fromMs_sem3_plain hfrom hsem hpl hpr ht)

#print axioms toMs_tame3
#print axioms ms_roundtrip_sem_partial3
#print axioms ms_roundtrip_sem_tame_norm3
#print axioms toMs_tame3V
#print axioms ms_roundtrip_growth_sem_partial3

end Demes.Proofs.MsRT3
