/-
  C08 — what `from_ms` ignores: options that argparse collects as unknown, and the sample
  counts of `-I`.

  `buildGraph` reads only `structure_.npop`, `structure_.rate`, `initialState` and
  `demographicEvents` of the parsed arguments (`argsNorm` forgets the rest).  The main lemma
  (`equivH_prefix`) says that the argparse loop processes a prefix of the command line in the
  same way whatever follows, as long as what follows starts with an option (or is empty).
-/
import DemesVerif.Proofs.FromMsValid
import Mathlib.Tactic.SplitIfs
namespace Demes.Proofs.FromMs
open Demes Demes.Ms Demes.Spec
open Demes.Proofs.RV (bind_ok pure_ok)

/-! ### what `build_graph` reads -/

/-- forget the sample counts and the unknown strings -/
def argsNorm (a : Args) : Args :=
  { structure_ := a.structure_.map (fun s => { s with n := [] }), initialState := a.initialState,
    demographicEvents := a.demographicEvents, unknown := [] }

theorem argsNorm_idem (a : Args) : argsNorm (argsNorm a) = argsNorm a := by
  obtain ⟨st, _, _, _⟩ := a
  cases st <;> rfl

theorem buildDoc_norm (a : Args) (N0 : Q) : buildDoc a N0 = buildDoc (argsNorm a) N0 := by
  obtain ⟨st, _, _, _⟩ := a
  cases st <;> rfl

theorem buildGraph_norm (a : Args) (N0 : Q) : buildGraph a N0 = buildGraph (argsNorm a) N0 := by
  unfold buildGraph
  rw [buildDoc_norm]

/-- `from_ms` after parsing -/
def fromArgs (N0 : Q) (demeNames : Option (List String)) (args : Args) : Except Err MsGraph := do
  let mg ← buildGraph args N0
  match demeNames with
  | none => pure mg
  | some names =>
    if names.eraseDups.length ≠ mg.graph.demes.length then
      valueErr s!"graph has {mg.graph.demes.length} unique demes, but deme_names has {names.eraseDups.length}"
    let nameMap : Renaming := (List.range names.length).zip names |>.map (fun (j, nm) => (Ms.demeName j, nm))
    let keys := (nameMap.map (·.1)).foldr insertStr []
    let have_ := (mg.graph.demes.map (·.name)).foldr insertStr []
    if keys ≠ have_ then assertionErr "sorted(names.keys()) == sorted(deme names)"
    let g' ← renameDemesChecked mg.graph nameMap
    pure { mg with graph := g' }

theorem fromMs_eq (c : List String) (N0 : Q) (names : Option (List String)) :
    fromMs c N0 names = parseKnownArgs c >>= fromArgs N0 names := rfl

theorem fromArgs_norm (N0 : Q) (names : Option (List String)) (a : Args) :
    fromArgs N0 names a = fromArgs N0 names (argsNorm a) := by
  unfold fromArgs
  rw [buildGraph_norm]

/-- `from_ms` depends on the parsed arguments through `argsNorm` only -/
theorem fromMs_of_norm {c c' : List String} (N0 : Q) (names : Option (List String))
    (h : Except.map argsNorm (parseKnownArgs c) = Except.map argsNorm (parseKnownArgs c')) :
    fromMs c N0 names = fromMs c' N0 names := by
  rw [fromMs_eq, fromMs_eq]
  cases h1 : parseKnownArgs c with
  | error e =>
    cases h2 : parseKnownArgs c' with
    | error e' => rw [h1, h2] at h; cases h; rfl
    | ok a' => rw [h1, h2] at h; cases h
  | ok a =>
    cases h2 : parseKnownArgs c' with
    | error e' => rw [h1, h2] at h; cases h
    | ok a' =>
      rw [h1, h2] at h
      have : argsNorm a = argsNorm a' := by injection h
      show fromArgs N0 names a = fromArgs N0 names a'
      rw [fromArgs_norm N0 names a, fromArgs_norm N0 names a', this]

/-! ### `Except.map` through binds and conditionals -/

theorem emap_bind_congr {α β γ} (x : Except Err α) (g g' : α → Except Err β) (h : β → γ)
    (hg : ∀ v, Except.map h (g v) = Except.map h (g' v)) :
    Except.map h (x >>= g) = Except.map h (x >>= g') := by
  cases x with
  | error e => rfl
  | ok v => exact hg v

theorem emap_ite_congr {β γ} (c : Prop) [Decidable c] (x x' y y' : Except Err β) (h : β → γ)
    (h1 : c → Except.map h x = Except.map h x') (h2 : ¬c → Except.map h y = Except.map h y') :
    Except.map h (if c then x else y) = Except.map h (if c then x' else y') := by
  by_cases hc : c
  · rw [if_pos hc, if_pos hc]; exact h1 hc
  · rw [if_neg hc, if_neg hc]; exact h2 hc

/-- a bind whose two sources agree up to `f` and whose continuation respects `f` -/
theorem emap_bind_rel {α β γ} (f : α → α) (x x' : Except Err α) (k : α → Except Err β) (h : β → γ)
    (hx : Except.map f x = Except.map f x')
    (hk : ∀ v, Except.map h (k v) = Except.map h (k (f v))) :
    Except.map h (x >>= k) = Except.map h (x' >>= k) := by
  cases x with
  | error e =>
    cases x' with
    | error e' => cases hx; rfl
    | ok v' => cases hx
  | ok v =>
    cases x' with
    | error e' => cases hx
    | ok v' =>
      have : f v = f v' := by injection hx
      show Except.map h (k v) = Except.map h (k v')
      rw [hk v, hk v', this]

/-! ### the option actions do not look at the sample counts or the unknown strings -/

theorem takeAction_norm (a : Args) (flag : String) (vs : List String) :
    Except.map argsNorm (takeAction a flag vs) = Except.map argsNorm (takeAction (argsNorm a) flag vs) := by
  obtain ⟨st, ini, dem, unk⟩ := a
  unfold takeAction
  simp only []
  cases st <;>
    repeat (first | (with_reducible refine emap_ite_congr _ _ _ _ _ _ (fun _ => ?_) (fun _ => ?_))
                  | (with_reducible refine emap_bind_congr _ _ _ _ (fun _ => ?_))
                  | (with_reducible rfl) | rfl | split)

theorem addUnknown_norm (a : Args) (u : List String) :
    argsNorm { a with unknown := u } = argsNorm a := rfl

theorem parseLoop_norm : ∀ (fuel : Nat) (l : List (String × Cls)) (a : Args),
    Except.map argsNorm (parseLoop fuel l a) = Except.map argsNorm (parseLoop fuel l (argsNorm a)) := by
  intro fuel
  induction fuel with
  | zero => intro l a; simp only [parseLoop]; show Except.ok _ = Except.ok _; rw [argsNorm_idem]
  | succ fuel ih =>
    intro l a
    cases l with
    | nil => simp only [parseLoop]; show Except.ok _ = Except.ok _; rw [argsNorm_idem]
    | cons sc rest =>
      obtain ⟨s, c⟩ := sc
      cases c with
      | arg =>
        simp only [parseLoop]
        have e : argsNorm { a with unknown := a.unknown ++ [s] }
            = argsNorm { argsNorm a with unknown := (argsNorm a).unknown ++ [s] } := by
          obtain ⟨st, _, _, _⟩ := a
          cases st <;> rfl
        exact (ih rest _).trans (by rw [e]; exact (ih rest _).symm)
      | unknown =>
        simp only [parseLoop]
        have e : argsNorm { a with unknown := a.unknown ++ [s] }
            = argsNorm { argsNorm a with unknown := (argsNorm a).unknown ++ [s] } := by
          obtain ⟨st, _, _, _⟩ := a
          cases st <;> rfl
        exact (ih rest _).trans (by rw [e]; exact (ih rest _).symm)
      | opt flag explicit =>
        simp only [parseLoop]
        split
        · rfl
        · split
          · split
            · exact emap_bind_rel argsNorm _ _ _ _
                (by rw [takeAction_norm a, takeAction_norm (argsNorm a), argsNorm_idem]) (fun v => ih _ v)
            · rfl
          · split
            · split
              · rfl
              · exact emap_bind_rel argsNorm _ _ _ _
                  (by rw [takeAction_norm a, takeAction_norm (argsNorm a), argsNorm_idem]) (fun v => ih _ v)
            · split
              · rfl
              · exact emap_bind_rel argsNorm _ _ _ _
                  (by rw [takeAction_norm a, takeAction_norm (argsNorm a), argsNorm_idem]) (fun v => ih _ v)

/-! ### the argparse loop on a prefix -/

theorem leadingArgs_le (L : List Cls) : leadingArgs L ≤ L.length := by
  induction L with
  | nil => simp [leadingArgs]
  | cons c L ih =>
    cases c with
    | arg => simp only [leadingArgs, List.length_cons]; omega
    | opt _ _ => simp [leadingArgs]
    | unknown => simp [leadingArgs]

/-- what follows starts with an option (or is empty) -/
def Bdry (X : List (String × Cls)) : Prop := ∀ p, X.head? = some p → p.2 ≠ Cls.arg

theorem leadingArgs_append_bdry (L : List (String × Cls)) {X : List (String × Cls)} (hX : Bdry X) :
    leadingArgs ((L ++ X).map (·.2)) = leadingArgs (L.map (·.2)) := by
  induction L with
  | nil =>
    cases X with
    | nil => rfl
    | cons p X =>
      have := hX p rfl
      obtain ⟨s, c⟩ := p
      cases c with
      | arg => exact absurd rfl this
      | opt _ _ => rfl
      | unknown => rfl
  | cons p L ih =>
    obtain ⟨s, c⟩ := p
    cases c with
    | arg => simp only [List.cons_append, List.map_cons, leadingArgs]; rw [← ih]
    | opt _ _ => rfl
    | unknown => rfl

/-- the two continuations are processed alike, up to `h`, from every state and with any
sufficient fuel -/
def EquivH {γ} (h : Args → γ) (X X' : List (String × Cls)) : Prop :=
  ∀ f f' a, X.length ≤ f → X'.length ≤ f' → Except.map h (parseLoop f X a) = Except.map h (parseLoop f' X' a)

theorem take_append_le {α} (n : Nat) (L X : List α) (h : n ≤ L.length) : (L ++ X).take n = L.take n := by
  rw [List.take_append]
  have : n - L.length = 0 := by omega
  rw [this]; simp

theorem drop_append_le {α} (n : Nat) (L X : List α) (h : n ≤ L.length) : (L ++ X).drop n = L.drop n ++ X := by
  rw [List.drop_append]
  have : n - L.length = 0 := by omega
  rw [this]; simp

/-- **the prefix lemma**: a common prefix is processed alike in front of two continuations that
both start with an option (or are empty) -/
theorem equivH_prefix {γ} (h : Args → γ) {X X' : List (String × Cls)} (hX : Bdry X) (hX' : Bdry X')
    (hE : EquivH h X X') : ∀ (k : Nat) (Z : List (String × Cls)), Z.length ≤ k → EquivH h (Z ++ X) (Z ++ X') := by
  intro k
  induction k with
  | zero =>
    intro Z hZ
    have : Z = [] := List.eq_nil_of_length_eq_zero (by omega)
    subst this
    exact hE
  | succ k ih =>
    intro Z hZ
    cases Z with
    | nil => exact hE
    | cons sc Zp =>
      obtain ⟨s, c⟩ := sc
      intro f f' a hf hf'
      simp only [List.cons_append, List.length_cons, List.length_append] at hf hf' hZ
      obtain ⟨f0, rfl⟩ : ∃ f0, f = f0 + 1 := ⟨f - 1, by omega⟩
      obtain ⟨f0', rfl⟩ : ∃ f0', f' = f0' + 1 := ⟨f' - 1, by omega⟩
      have hrec : ∀ (W : List (String × Cls)) (b : Args), W.length ≤ Zp.length →
          Except.map h (parseLoop f0 (W ++ X) b) = Except.map h (parseLoop f0' (W ++ X') b) := by
        intro W b hW
        exact ih W (by omega) f0 f0' b (by simp only [List.length_append]; omega)
          (by simp only [List.length_append]; omega)
      cases c with
      | arg => simp only [List.cons_append, parseLoop]; exact hrec Zp _ (Nat.le_refl _)
      | unknown => simp only [List.cons_append, parseLoop]; exact hrec Zp _ (Nat.le_refl _)
      | opt flag explicit =>
        simp only [List.cons_append, parseLoop]
        rw [leadingArgs_append_bdry Zp hX, leadingArgs_append_bdry Zp hX']
        have hav := leadingArgs_le (Zp.map (·.2))
        rw [List.length_map] at hav
        split
        · rfl
        · split
          · split
            · exact emap_bind_congr _ _ _ _ (fun v => hrec Zp v (Nat.le_refl _))
            · rfl
          · split
            · rename_i n _
              split
              · rfl
              · rename_i hn
                have hn' : n ≤ Zp.length := by omega
                rw [take_append_le n Zp X hn', take_append_le n Zp X' hn', drop_append_le n Zp X hn',
                  drop_append_le n Zp X' hn']
                exact emap_bind_congr _ _ _ _ (fun v => hrec _ v (by simp))
            · split
              · rfl
              · rw [take_append_le _ Zp X hav, take_append_le _ Zp X' hav, drop_append_le _ Zp X hav,
                  drop_append_le _ Zp X' hav]
                exact emap_bind_congr _ _ _ _ (fun v => hrec _ v (by simp))

theorem equivH_nil {γ} (h : Args → γ) : EquivH h [] [] := by
  intro f f' a _ _
  cases f <;> cases f' <;> rfl

theorem bdry_nil : Bdry [] := by intro p hp; cases hp

theorem emap_id {α} (x : Except Err α) : Except.map id x = x := by cases x <;> rfl

/-- the fuel (`len(arg_strings)`) never runs out -/
theorem parseLoop_fuel (l : List (String × Cls)) (f f' : Nat) (a : Args) (hf : l.length ≤ f) (hf' : l.length ≤ f') :
    parseLoop f l a = parseLoop f' l a := by
  have := equivH_prefix id bdry_nil bdry_nil (equivH_nil id) l.length l (Nat.le_refl _) f f' a
    (by simpa using hf) (by simpa using hf')
  simpa [emap_id] using this

/-! ### an unknown option with its arguments -/

/-- the pairs of an ignored option: the flag is classified `unknown`, its arguments `arg` -/
def ignoredPairs (flag : String) (args : List String) : List (String × Cls) :=
  (flag, Cls.unknown) :: args.map (fun s => (s, Cls.arg))

theorem parseLoop_skip_args : ∀ (args : List String) (Y : List (String × Cls)) (f : Nat) (a : Args), args.length ≤ f →
    parseLoop f (args.map (fun s => (s, Cls.arg)) ++ Y) a
      = parseLoop (f - args.length) Y { a with unknown := a.unknown ++ args } := by
  intro args
  induction args with
  | nil => intro Y f a _; simp
  | cons s args ih =>
    intro Y f a hf
    obtain ⟨f0, rfl⟩ : ∃ f0, f = f0 + 1 := ⟨f - 1, by simp only [List.length_cons] at hf; omega⟩
    simp only [List.map_cons, List.cons_append, parseLoop]
    rw [ih Y f0 _ (by simp only [List.length_cons] at hf; omega)]
    simp only [List.length_cons, List.append_assoc, List.singleton_append]
    congr 1
    omega

theorem equivH_ignored (flag : String) (args : List String) (Y : List (String × Cls)) :
    EquivH argsNorm Y (ignoredPairs flag args ++ Y) := by
  intro f f' a hf hf'
  unfold ignoredPairs at hf' ⊢
  simp only [List.cons_append, List.length_cons, List.length_append, List.length_map] at hf'
  obtain ⟨f0', rfl⟩ : ∃ f0', f' = f0' + 1 := ⟨f' - 1, by omega⟩
  simp only [List.cons_append, parseLoop]
  rw [parseLoop_skip_args args Y f0' _ (by omega)]
  rw [parseLoop_norm f Y a, parseLoop_norm _ Y { a with unknown := _ }]
  rw [parseLoop_fuel Y f (f0' - args.length) _ hf (by omega)]
  rfl

theorem bdry_ignored (flag : String) (args : List String) (Y : List (String × Cls)) :
    Bdry (ignoredPairs flag args ++ Y) := by
  intro p hp
  cases hp
  intro h; cases h

/-! ### the sample counts of `-I` -/

/-- forget the sample counts of a `Structure` -/
def dropSamples (s : Structure) : Structure := { s with n := [] }

theorem leadingArgs_args (args : List String) (Y : List (String × Cls)) :
    leadingArgs ((args.map (fun s => (s, Cls.arg)) ++ Y).map (·.2)) = args.length + leadingArgs (Y.map (·.2)) := by
  induction args with
  | nil => simp
  | cons s args ih => simp only [List.map_cons, List.cons_append, leadingArgs, ih, List.length_cons]; omega

theorem mkStructure_samples (npop : Int) (n n' : List String) (rate : Num) (h : n.length = n'.length) :
    Except.map dropSamples (mkStructure npop n rate) = Except.map dropSamples (mkStructure npop n' rate) := by
  unfold mkStructure
  rw [h]
  repeat (first | (with_reducible refine emap_ite_congr _ _ _ _ _ _ (fun _ => ?_) (fun _ => ?_))
                | (with_reducible refine emap_bind_congr _ _ _ _ (fun _ => ?_))
                | (with_reducible rfl) | rfl)

theorem cInt_ok {s : String} {i : Int} (h : cInt s = .ok i) : pyInt s = some i := by
  unfold cInt at h
  cases hp : pyInt s with
  | none => rw [hp] at h; cases h
  | some j => rw [hp] at h; cases h; rfl

theorem structure_samples (npopS : String) (ns ns' pa : List String) (hlen : ns.length = ns'.length)
    (hk : ∀ k, pyInt npopS = some k → (ns.length : Int) ≤ k) :
    Except.map dropSamples (structureFromNargs (npopS :: (ns ++ pa)))
      = Except.map dropSamples (structureFromNargs (npopS :: (ns' ++ pa))) := by
  simp only [structureFromNargs]
  cases hI : cInt npopS with
  | error e => rfl
  | ok npop =>
    have hle := hk npop (cInt_ok hI)
    show Except.map dropSamples (if _ then _ else _) = Except.map dropSamples (if _ then _ else _)
    have hl : (ns ++ pa).length = (ns' ++ pa).length := by simp [hlen]
    rw [hl]
    refine emap_ite_congr _ _ _ _ _ _ (fun hc => ?_) (fun _ => mkStructure_samples _ _ _ _ hl)
    have hpa : pa ≠ [] := by
      intro he
      subst he
      simp only [List.append_nil] at hc
      omega
    rw [List.getLast?_append_of_ne_nil _ hpa, List.getLast?_append_of_ne_nil _ hpa]
    refine emap_bind_congr _ _ _ _ (fun r => ?_)
    exact mkStructure_samples _ _ _ _ (by simp [hlen])

/-- the pairs of `-I npop n₁ … nₖ` followed by `Y` -/
def structurePairs (npopS : String) (cN : Cls) (ns : List String) (Y : List (String × Cls)) : List (String × Cls) :=
  ("-I", Cls.opt "-I" none) :: (npopS, cN) :: (ns.map (fun s => (s, Cls.arg)) ++ Y)

theorem takeAction_I (a : Args) (vs : List String) :
    takeAction a "-I" vs = structureFromNargs vs >>= fun s => pure { a with structure_ := some s } := by
  unfold takeAction
  exact if_pos rfl

theorem equivH_samples (npopS : String) (cN : Cls) (ns ns' : List String) (Y : List (String × Cls))
    (hlen : ns.length = ns'.length) (hk : ∀ k, pyInt npopS = some k → (ns.length : Int) ≤ k) :
    EquivH argsNorm (structurePairs npopS cN ns Y) (structurePairs npopS cN ns' Y) := by
  intro f f' a hf hf'
  unfold structurePairs at hf hf' ⊢
  simp only [List.length_cons, List.length_append, List.length_map] at hf hf'
  obtain ⟨f0, rfl⟩ : ∃ f0, f = f0 + 1 := ⟨f - 1, by omega⟩
  obtain ⟨f0', rfl⟩ : ∃ f0', f' = f0' + 1 := ⟨f' - 1, by omega⟩
  have har : arity.lookup "-I" = some Nargs.plus := by decide
  simp only [parseLoop, har]
  cases cN with
  | opt _ _ => rfl
  | unknown => rfl
  | arg =>
    simp only [List.map_cons, leadingArgs, leadingArgs_args, hlen]
    rw [if_neg (by omega), if_neg (by omega)]
    generalize hm : leadingArgs (Y.map (·.2)) = m
    have hmle : m ≤ Y.length := by rw [← hm]; simpa using leadingArgs_le (Y.map (·.2))
    have e1 : ∀ (l : List String), l.length = ns'.length →
        ((npopS, Cls.arg) :: (l.map (fun s => (s, Cls.arg)) ++ Y)).take (ns'.length + m + 1)
          = (npopS, Cls.arg) :: (l.map (fun s => (s, Cls.arg)) ++ Y.take m) := by
      intro l hl
      rw [List.take_succ_cons, List.take_append, List.take_of_length_le (by simp [hl])]
      simp [hl]
    have e2 : ∀ (l : List String), l.length = ns'.length →
        ((npopS, Cls.arg) :: (l.map (fun s => (s, Cls.arg)) ++ Y)).drop (ns'.length + m + 1) = Y.drop m := by
      intro l hl
      rw [List.drop_succ_cons, List.drop_append, List.drop_of_length_le (by simp [hl])]
      simp [hl]
    rw [e1 ns hlen, e1 ns' rfl, e2 ns hlen, e2 ns' rfl]
    simp only [List.map_cons, List.map_append, List.map_map]
    have hid : ∀ l : List String, l.map ((fun x : String × Cls => x.1) ∘ fun s => (s, Cls.arg)) = l := by
      intro l; simp [Function.comp_def]
    rw [hid, hid, takeAction_I, takeAction_I]
    have hfu : ∀ b, parseLoop f0 (Y.drop m) b = parseLoop f0' (Y.drop m) b :=
      fun b => parseLoop_fuel (Y.drop m) f0 f0' b (by simp; omega) (by simp; omega)
    simp only [hfu]
    have hs := structure_samples npopS ns ns' ((Y.take m).map (·.1)) hlen hk
    generalize structureFromNargs (npopS :: (ns ++ (Y.take m).map (·.1))) = x at hs ⊢
    generalize structureFromNargs (npopS :: (ns' ++ (Y.take m).map (·.1))) = x' at hs ⊢
    cases x with
    | error e =>
      cases x' with
      | error e' => cases hs; rfl
      | ok v' => cases hs
    | ok v =>
      cases x' with
      | error e' => cases hs
      | ok v' =>
        have hv : dropSamples v = dropSamples v' := by injection hs
        show Except.map argsNorm (parseLoop f0' _ { a with structure_ := some v })
          = Except.map argsNorm (parseLoop f0' _ { a with structure_ := some v' })
        rw [parseLoop_norm _ _ { a with structure_ := some v }, parseLoop_norm _ _ { a with structure_ := some v' }]
        have : argsNorm { a with structure_ := some v } = argsNorm { a with structure_ := some v' } := by
          unfold argsNorm
          simp only [Option.map_some]
          unfold dropSamples at hv
          rw [hv]
        rw [this]

theorem bdry_structure (npopS : String) (cN : Cls) (ns : List String) (Y : List (String × Cls)) :
    Bdry (structurePairs npopS cN ns Y) := by
  intro p hp
  cases hp
  intro h; cases h


/-! ### from token lists to classified pairs -/

def IsArgTok (s : String) : Prop := C08.isArgTok s = true
def IsUnknownTok (s : String) : Prop := C08.isUnknownTok s = true

theorem IsArgTok.classify {s : String} (h : IsArgTok s) : classify s = .ok Cls.arg := by
  unfold IsArgTok C08.isArgTok at h
  split at h
  · assumption
  · cases h

theorem IsUnknownTok.classify {s : String} (h : IsUnknownTok s) : classify s = .ok Cls.unknown := by
  unfold IsUnknownTok C08.isUnknownTok at h
  split at h
  · assumption
  · cases h

theorem isArgTok_of_classify {s : String} (h : classify s = .ok Cls.arg) : IsArgTok s := by
  unfold IsArgTok C08.isArgTok; rw [h]

theorem mapM_args {args : List String} (h : ∀ a ∈ args, IsArgTok a) :
    args.mapM classify = .ok (args.map (fun _ => Cls.arg)) := by
  induction args with
  | nil => rfl
  | cons a args ih =>
    rw [List.mapM_cons, (h a (List.mem_cons_self ..)).classify, ih (fun b hb => h b (List.mem_cons_of_mem _ hb))]
    rfl

theorem mapM_append_ok {U : List String} {cu : List Cls} (hU : U.mapM classify = .ok cu) (post : List String) :
    (U ++ post).mapM classify = Except.map (cu ++ ·) (post.mapM classify) := by
  rw [List.mapM_append, hU]
  cases post.mapM classify <;> rfl

theorem mapM_length {l : List String} {cs : List Cls} (h : l.mapM classify = .ok cs) : cs.length = l.length := by
  induction l generalizing cs with
  | nil => cases h; rfl
  | cons a l ih =>
    rw [List.mapM_cons] at h
    obtain ⟨c, _, h⟩ := bind_ok.1 h
    obtain ⟨cr, hcr, h⟩ := bind_ok.1 h
    rw [pure_ok] at h
    subst h
    simp [ih hcr]

theorem zip_const (l : List String) (c : Cls) : l.zip (l.map (fun _ => c)) = l.map (fun s => (s, c)) := by
  induction l with
  | nil => rfl
  | cons a l ih => simp only [List.map_cons, List.zip_cons_cons, ih]

theorem bdry_zip {post : List String} {cq : List Cls} (h : post.mapM classify = .ok cq)
    (hp : ∀ p, post.head? = some p → ¬ IsArgTok p) : Bdry (post.zip cq) := by
  cases post with
  | nil => intro p hp'; cases hp'
  | cons p post =>
    rw [List.mapM_cons] at h
    obtain ⟨c, hc, h⟩ := bind_ok.1 h
    obtain ⟨cr, _, h⟩ := bind_ok.1 h
    rw [pure_ok] at h
    subst h
    intro q hq
    cases hq
    intro he
    exact hp p rfl (isArgTok_of_classify (by rw [hc]; exact congrArg _ he))

theorem contains_dd_ignored (pre post args : List String) (flag : String) (hf : IsUnknownTok flag)
    (ha : ∀ a ∈ args, IsArgTok a) :
    (pre ++ flag :: args ++ post).contains "--" = (pre ++ post).contains "--" := by
  have h1 : flag ≠ "--" := by
    intro h; subst h; revert hf; unfold IsUnknownTok; decide +kernel
  have h2 : "--" ∉ args := by
    intro h; have := ha _ h; revert this; unfold IsArgTok; decide +kernel
  rw [Bool.eq_iff_iff]
  simp only [List.contains_iff_mem, List.mem_append, List.mem_cons]
  constructor
  · rintro ((h | h | h) | h)
    · exact Or.inl h
    · exact absurd h.symm h1
    · exact absurd h h2
    · exact Or.inr h
  · rintro (h | h)
    · exact Or.inl (Or.inl h)
    · exact Or.inr h

/-- **(a)** an option argparse does not know, followed by arguments, inserted at an option
boundary, does not change what `build_graph` reads -/
theorem parse_ignored (pre post args : List String) (flag : String) (hf : IsUnknownTok flag)
    (ha : ∀ a ∈ args, IsArgTok a) (hp : ∀ p, post.head? = some p → ¬ IsArgTok p) :
    Except.map argsNorm (parseKnownArgs (pre ++ post))
      = Except.map argsNorm (parseKnownArgs (pre ++ flag :: args ++ post)) := by
  unfold parseKnownArgs
  rw [contains_dd_ignored pre post args flag hf ha]
  refine emap_ite_congr _ _ _ _ _ _ (fun _ => rfl) (fun _ => ?_)
  have hU : (flag :: args).mapM classify = .ok (Cls.unknown :: args.map (fun _ => Cls.arg)) := by
    rw [List.mapM_cons, hf.classify, mapM_args ha]; rfl
  have e1 : (pre ++ flag :: args ++ post).mapM classify
      = pre.mapM classify >>= fun cp => Except.map (fun cq => cp ++ ((Cls.unknown :: args.map (fun _ => Cls.arg)) ++ cq))
          (post.mapM classify) := by
    rw [List.append_assoc, List.mapM_append, mapM_append_ok hU]
    cases pre.mapM classify with
    | error e => rfl
    | ok cp => cases post.mapM classify <;> rfl
  have e0 : (pre ++ post).mapM classify
      = pre.mapM classify >>= fun cp => Except.map (fun cq => cp ++ cq) (post.mapM classify) := by
    rw [List.mapM_append]
    cases pre.mapM classify with
    | error e => rfl
    | ok cp => cases post.mapM classify <;> rfl
  show Except.map argsNorm (List.mapM classify (pre ++ post) >>= _) = Except.map argsNorm (List.mapM classify (pre ++ flag :: args ++ post) >>= _)
  rw [e0, e1]
  cases hpre : pre.mapM classify with
  | error e => rfl
  | ok cp =>
    cases hpost : post.mapM classify with
    | error e => rfl
    | ok cq =>
      show Except.map argsNorm (parseLoop _ ((pre ++ post).zip (cp ++ cq)) _)
        = Except.map argsNorm (parseLoop _ ((pre ++ flag :: args ++ post).zip (cp ++ ((Cls.unknown :: args.map (fun _ => Cls.arg)) ++ cq))) _)
      have hl := mapM_length hpre
      rw [List.zip_append hl.symm, List.append_assoc, List.zip_append hl.symm,
        List.zip_append (by simp), List.zip_cons_cons, zip_const]
      exact equivH_prefix argsNorm (bdry_zip hpost hp) (bdry_ignored flag args _)
        (equivH_ignored flag args _) _ _ (Nat.le_refl _) _ _ _
        (by simp [mapM_length hpost, hl]) (by simp [mapM_length hpost, hl, ignoredPairs])

/-- **(b)** the sample counts of `-I` do not change what `build_graph` reads -/
theorem parse_samples (pre post ns ns' : List String) (npopS : String) (hlen : ns.length = ns'.length)
    (ha : ∀ a ∈ ns, IsArgTok a) (ha' : ∀ a ∈ ns', IsArgTok a)
    (hk : ∀ k, pyInt npopS = some k → (ns.length : Int) ≤ k) :
    Except.map argsNorm (parseKnownArgs (pre ++ "-I" :: npopS :: (ns ++ post)))
      = Except.map argsNorm (parseKnownArgs (pre ++ "-I" :: npopS :: (ns' ++ post))) := by
  unfold parseKnownArgs
  have hdd : ∀ l : List String, (∀ a ∈ l, IsArgTok a) → "--" ∉ l := by
    intro l hl h; have := hl _ h; revert this; unfold IsArgTok; decide +kernel
  have hc : (pre ++ "-I" :: npopS :: (ns ++ post)).contains "--" = (pre ++ "-I" :: npopS :: (ns' ++ post)).contains "--" := by
    rw [Bool.eq_iff_iff]
    simp only [List.contains_iff_mem, List.mem_append, List.mem_cons]
    have := hdd ns ha
    have := hdd ns' ha'
    tauto
  rw [hc]
  refine emap_ite_congr _ _ _ _ _ _ (fun _ => rfl) (fun _ => ?_)
  have hI : classify "-I" = .ok (Cls.opt "-I" none) := by
    have : (match classify "-I" with | .ok (Cls.opt "-I" none) => true | _ => false) = true := by decide +kernel
    split at this
    · assumption
    · cases this
  have hmap : ns.map (fun _ => Cls.arg) = ns'.map (fun _ => Cls.arg) := by
    rw [List.map_const', List.map_const', hlen]
  have e : ∀ (l : List String), (∀ a ∈ l, IsArgTok a) → (pre ++ "-I" :: npopS :: (l ++ post)).mapM classify
      = pre.mapM classify >>= fun cp => classify npopS >>= fun cN =>
          Except.map (fun cq => cp ++ (Cls.opt "-I" none :: cN :: (l.map (fun _ => Cls.arg) ++ cq))) (post.mapM classify) := by
    intro l hl
    rw [List.mapM_append, List.mapM_cons, List.mapM_cons, hI, mapM_append_ok (mapM_args hl)]
    cases pre.mapM classify with
    | error e => rfl
    | ok cp =>
      cases classify npopS with
      | error e => rfl
      | ok cN => cases post.mapM classify <;> rfl
  show Except.map argsNorm (List.mapM classify (pre ++ "-I" :: npopS :: (ns ++ post)) >>= _) = Except.map argsNorm (List.mapM classify (pre ++ "-I" :: npopS :: (ns' ++ post)) >>= _)
  rw [e ns ha, e ns' ha', hmap]
  cases hpre : pre.mapM classify with
  | error e => rfl
  | ok cp =>
    cases hN : classify npopS with
    | error e => rfl
    | ok cN =>
      cases hpost : post.mapM classify with
      | error e => rfl
      | ok cq =>
        show Except.map argsNorm (parseLoop _ ((pre ++ "-I" :: npopS :: (ns ++ post)).zip
            (cp ++ (Cls.opt "-I" none :: cN :: (ns'.map (fun _ => Cls.arg) ++ cq)))) _)
          = Except.map argsNorm (parseLoop _ ((pre ++ "-I" :: npopS :: (ns' ++ post)).zip
            (cp ++ (Cls.opt "-I" none :: cN :: (ns'.map (fun _ => Cls.arg) ++ cq)))) _)
        have hl := mapM_length hpre
        rw [List.zip_append hl.symm, List.zip_append hl.symm, List.zip_cons_cons, List.zip_cons_cons,
          List.zip_cons_cons, List.zip_cons_cons, List.zip_append (by simp [hlen]), List.zip_append (by simp),
          zip_const, ← hmap, zip_const]
        exact equivH_prefix argsNorm (bdry_structure npopS cN ns _) (bdry_structure npopS cN ns' _)
          (equivH_samples npopS cN ns ns' _ hlen hk) _ _ (Nat.le_refl _) _ _ _
          (by simp [mapM_length hpost, hl, structurePairs]) (by simp [mapM_length hpost, hl, structurePairs])

/-! ### the theorems -/

/-- options that argparse collects as unknown have no effect -/
theorem fromMs_ignores_option (pre post args : List String) (flag : String) (N0 : Q) (names : Option (List String))
    (hf : IsUnknownTok flag) (ha : ∀ a ∈ args, IsArgTok a) (hp : ∀ p, post.head? = some p → ¬ IsArgTok p) :
    fromMs (pre ++ post) N0 names = fromMs (pre ++ flag :: args ++ post) N0 names :=
  fromMs_of_norm N0 names (parse_ignored pre post args flag hf ha hp)

/-- the sample counts of `-I` have no effect -/
theorem fromMs_ignores_samples (pre post ns ns' : List String) (npopS : String) (N0 : Q) (names : Option (List String))
    (hlen : ns.length = ns'.length) (ha : ∀ a ∈ ns, IsArgTok a) (ha' : ∀ a ∈ ns', IsArgTok a)
    (hk : ∀ k, pyInt npopS = some k → (ns.length : Int) ≤ k) :
    fromMs (pre ++ "-I" :: npopS :: (ns ++ post)) N0 names = fromMs (pre ++ "-I" :: npopS :: (ns' ++ post)) N0 names :=
  fromMs_of_norm N0 names (parse_samples pre post ns ns' npopS hlen ha ha' hk)

end Demes.Proofs.FromMs
