"""C15 — renaming demes yields an isomorphic, fully usable graph."""
from __future__ import annotations

import itertools

from props.common import *  # noqa: F401,F403

RULE = ("valid graphs x partial injective renamings (fresh names, swaps, cycles, chains into freed names, identity "
        "entries); thorough tier: all partial injective maps on graphs with <= 4 demes over a pool of 6 names; a case "
        "is one (graph, map); non-trivial = the map renames at least one deme to a name in use before")
ASSUMPTIONS = ["'original untouched' and identity of the looked-up deme are observed at run time; the Lean Model is pure"]
EXPLANATION = ("Theorems rename_names/_numbers_unchanged/_data_valid/_index/_valid/_lookup/_hasName/_old_name_gone/"
               "_unused_name/_inverse over the Lean Model (index rebuilt from the deme list); fact_rename_demes_copies_first "
               "regenerated from the source AST; Model tied to the code by exact comparison of the renamed graph and its "
               "name index; relabelling relation and lookups re-checked on the code's own output.")

POOL = ["A", "B", "C", "D", "X1", "_y"]


def relabel(d, r):
    f = lambda n: r.get(n, n)
    d = copy.deepcopy(d)
    for dm in d["demes"]:
        dm["name"] = f(dm["name"])
        dm["ancestors"] = [f(a) for a in dm["ancestors"]]
    for m in d["migrations"]:
        m["source"], m["dest"] = f(m["source"]), f(m["dest"])
    for p in d["pulses"]:
        p["sources"] = [f(s) for s in p["sources"]]
        p["dest"] = f(p["dest"])
    return d


def relation(g, r, g2):
    if g2.asdict() != relabel(g.asdict(), r):
        return "result is not the relabelled graph"
    old = [d.name for d in g.demes]
    for i, d in enumerate(g2.demes):
        if d.name not in g2 or g2[d.name] is not d:
            return f"lookup by new name {d.name!r} does not return the renamed deme"
    new = {d.name for d in g2.demes}
    for n in set(old) | set(POOL):
        if n not in new and n in g2:
            return f"membership succeeds for unused name {n!r}"
    try:
        str(g2)
    except Exception as e:  # noqa: BLE001
        return f"str(graph) raises {type(e).__name__}"
    inv = {v: k for k, v in r.items()}
    try:
        g3 = g2.rename_demes(inv)
    except Exception as e:  # noqa: BLE001
        return f"renaming back raises {type(e).__name__}"
    if g3.asdict() != g.asdict() or index_of(g3) != index_of(g):
        return "renaming back does not restore the graph"
    return None


def random_map(rng, names):
    k = rng.randint(1, len(names))
    olds = rng.sample(names, k)
    mode = rng.choice(["fresh", "perm", "chain", "mixed", "identity"])
    if mode == "fresh":
        news = [n + "_new" for n in olds]
    elif mode == "perm":
        news = olds[1:] + olds[:1]
    elif mode == "chain":
        news = olds[1:] + [olds[0] + "_z"]
    elif mode == "identity":
        news = list(olds)
    else:
        news = [(n + "_n" if rng.random() < 0.5 else n) for n in olds[1:] + olds[:1]]
    r = dict(zip(olds, news))
    final = [r.get(n, n) for n in names]
    if len(set(final)) != len(names):
        r = {n: n + "_new" for n in olds}
    return r


def bad_map(rng, names):
    """a renaming whose result is NOT a valid set of names: a non-identifier, or a collision"""
    a = rng.choice(names)
    others = [n for n in names if n != a]
    kind = rng.choice(["non_identifier", "collision"] if others else ["non_identifier"])
    if kind == "non_identifier":
        return {a: rng.choice(["1x", "b c", "", "a-b", "x.y"])}
    return {a: rng.choice(others)}


def one_bad(ctx, doc, g, r):
    """invalid / colliding new names must be refused (repaired defect F23), never yield a graph"""
    ctx.count({"graph": show(canon(g.asdict())), "names": r}, True, tags=["invalid_names"])
    try:
        g2 = g.rename_demes(r)
    except Exception:  # noqa: BLE001
        return {"op": "rename", "graph": enc(g.asdict()), "names": [[a, b] for a, b in r.items()]}
    ctx.violation("rename_demes returns a graph for invalid or colliding new names", {"document": doc, "names": r},
                  detail={"names_of_result": [d.name for d in g2.demes]})
    return None


def one(ctx, doc, g, r):
    before = canon(g.asdict())
    idx_before = index_of(g)
    try:
        g2 = g.rename_demes(r)
    except Exception as e:  # noqa: BLE001
        ctx.violation(f"rename_demes raises {type(e).__name__} on an injective renaming", {"document": doc, "names": r})
        return None, None
    names = {d.name for d in g.demes}
    ctx.count({"graph": show(before), "names": r}, any(v in names and v != k for k, v in r.items()),
              tags=[f"map_size={len(r)}", "reuses_old_name" if any(v in names and v != k for k, v in r.items()) else "fresh_only"])
    why = relation(g, r, g2)
    if why is None and (not canon_eq(canon(g.asdict()), before) or index_of(g) != idx_before):
        why = "the receiver was modified"
    if why:
        ctx.violation("rename_demes: " + why, {"document": doc, "names": r},
                      python=py_repro(doc, f"(lambda h: (list(h._deme_map), str(h)[:0]))(g.rename_demes({r!r}))"))
    return g2, {"op": "rename", "graph": enc(g.asdict()), "names": [[a, b] for a, b in r.items()]}


MS_COMMANDS = [
    "-I 2 1 1 -n 1 3.0 -ej 1.0 1 2",                       # graph.demes = [deme2, deme1]
    "-I 3 1 1 1 -n 2 5.0 -ej 0.5 2 1 -ej 1.0 3 1",
    "-I 3 1 1 1 -n 1 3.0 -n 3 0.5 -ej 0.5 1 3 -ej 1.0 3 2",
    "-I 2 1 1 -n 2 2.0 -m 1 2 0.5 -es 0.25 1 0.75 -ej 0.25 3 2 -ej 1.0 2 1",
    "-I 3 1 1 1 -n 2 7.0 -ma x 1.0 0 0 x 2.0 0.5 0 x",
]


def from_ms_names(ctx):
    """from_ms(deme_names=...) is a renaming of from_ms(): population k gets names[k-1] — fresh names,
    permutations of the default names, partial overlaps with them"""
    import itertools as it
    for cmd in MS_COMMANDS:
        g0 = demes.from_ms(cmd, N0=100)
        npop = max(int(d.name[4:]) for d in g0.demes)
        defaults = [f"deme{k + 1}" for k in range(npop)]
        lists = [list(p) for p in it.permutations(defaults)]
        lists += [[f"P{k}" for k in range(npop)], ["deme2"] + [f"Q{k}" for k in range(npop - 1)], defaults[1:] + ["Z"]]
        for names in lists:
            case = {"command": cmd, "deme_names": names}
            ctx.count(case, names != defaults, tags=["from_ms_deme_names"])
            ctx.compared += 1
            try:
                g = demes.from_ms(cmd, N0=100, deme_names=names)
            except Exception as e:  # noqa: BLE001
                ctx.violation(f"from_ms(deme_names=...) raises {type(e).__name__} for valid fresh/permuted names", case)
                continue
            want = g0.rename_demes(dict(zip(defaults, names))) if names != defaults else g0
            if not canon_eq(canon(g.asdict()), canon(want.asdict())):
                ctx.violation("from_ms(deme_names=...): population k is not the deme named names[k-1] (differs from renaming the default graph)", case,
                              python=f"/venv/bin/python -c \"import demes; print(demes.from_ms({cmd!r}, N0=100, deme_names={names!r}))\"")
            for k, nm in enumerate(names):
                if (defaults[k] in g0) != (nm in g):
                    ctx.violation("from_ms(deme_names=...): membership by the new name is wrong", case)


def run(ctx):
    n = 500 if ctx.tier == "quick" else 6000
    done = 0
    from_ms_names(ctx)
    while done < n and ctx.time_left() > 8:
        batch = gen_valid_graphs(ctx, min(200, n - done), corpus=True)
        done += len(batch)
        reqs, outs, docs = [], [], []
        for doc, g, _ in batch:
            for _ in range(2):
                r = random_map(ctx.rng, [d.name for d in g.demes])
                g2, req = one(ctx, doc, g, r)
                if g2 is not None:
                    reqs.append(req); outs.append(g2); docs.append({"document": doc, "names": r})
        reps = ctx.driver.batch(reqs)
        for g2, rep, dd in zip(outs, reps, docs):
            ctx.compared += 1
            if "ok" not in rep or not (canon_eq(canon(g2.asdict()), dec(rep["ok"])) and index_of(g2) == rep["index"]):
                ctx.disagreement("rename", dd, {"asdict": show(canon(g2.asdict())), "index": index_of(g2)}, rep)
        breqs = []
        for doc, g, _ in batch[::3]:
            r = bad_map(ctx.rng, [d.name for d in g.demes])
            q = one_bad(ctx, doc, g, r)
            if q is not None:
                breqs.append((q, {"document": doc, "names": r}))
        for (q, dd), rep in zip(breqs, ctx.driver.batch([q for q, _ in breqs])):
            ctx.compared += 1
            if "ok" in rep:
                ctx.disagreement("rename(invalid names)", dd, "rejected", "accepted")
        check_valid(ctx, outs, "rename_demes", docs)
    if ctx.tier == "thorough":
        # exhaustive: all partial injective maps on small graphs over POOL
        small = [(doc, g) for doc, g, _ in gen_valid_graphs(ctx, 40, max_demes=3)]
        for doc, g in small:
            names = [d.name for d in g.demes]
            rel = dict(zip(names, POOL))
            g = g.rename_demes(rel)
            doc = g.asdict()
            names = [d.name for d in g.demes]
            outs = []
            for k in range(1, len(names) + 1):
                for olds in itertools.combinations(names, k):
                    for news in itertools.permutations(POOL, k):
                        r = dict(zip(olds, news))
                        if len({r.get(x, x) for x in names}) != len(names):
                            continue
                        g2, _ = one(ctx, doc, g, r)
                        if g2 is not None:
                            outs.append(g2)
                if ctx.time_left() < 30:
                    break
            check_valid(ctx, outs, "rename_demes", None)
        ctx.exhaustive = False


def replay(ctx, payload):
    import demes
    inp = payload["input"]
    g = demes.Graph.fromdict(inp["document"])
    g2 = g.rename_demes(inp["names"])
    print(list(g2._deme_map), relation(g, inp["names"], g2))
    return 0
