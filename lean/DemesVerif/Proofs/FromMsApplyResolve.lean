/-
  C08, link C (movements) — `resolve` reads the document of `build_graph` back: name, start time,
  end time, ancestors and proportions of every deme, and the pulses (stably sorted by time).
-/
import DemesVerif.Proofs.FromMsApplySem
import DemesVerif.Proofs.AcceptsBasic
namespace Demes.Proofs.FromMs
open Demes Demes.Ms Demes.Spec Demes.Spec.C08
open Demes.Obj
open Demes.Proofs.Accepts (nonNegFiniteQ_ok_iff posFiniteQ_ok_iff unitExLoQ_ok_iff posTime_ok_iff)

/-- what `graphSem` looks at in a deme -/
structure DView where
  name : String
  startTime : ETime
  endTime : Q
  ancestors : List String
  proportions : List Q
  deriving DecidableEq

def viewG (d : Deme) : DView := ⟨d.name, d.startTime, d.endTime, d.ancestors, d.proportions⟩
def viewB (d : BDeme) : DView := ⟨d.name, d.startTime, bEndTime d, bAncestors d, bProportions d⟩
def bp2p (p : BPulse) : Pulse := ⟨p.sources, p.dest, p.time, p.proportions⟩

/-! ## epochs: the end times -/

def epochObj (tab : List (Sz × Q)) (e : BEpoch) : Obj :=
  [("end_size", nV (szToQ tab e.endSize)), ("end_time", nV e.endTime)]
    ++ (match e.startSize with | some s => [("start_size", nV (szToQ tab s))] | none => [])
    ++ (match e.growthRate with | some g => [("growth_rate", nV g)] | none => [])

theorem epochToValue_eq (tab : List (Sz × Q)) (e : BEpoch) : BEpoch.toValue tab e = .obj (epochObj tab e) := rfl

theorem lookup_endTime (tab : List (Sz × Q)) (e : BEpoch) : lookup "end_time" (epochObj tab e) = some (nV e.endTime) := by
  unfold epochObj
  simp [lookup]

theorem finOf_nV (q : Q) : finOf (nV q) = some q := rfl

theorem specFields_endTime {prev : Option Epoch} {b : Bool} {f : String → Option Value} {raw : EpochRaw}
    {v : Value} (hv : f "end_time" = some v) (h : specEpochFieldsOf prev b f = some raw) : raw.endTime = v := by
  unfold specEpochFieldsOf at h
  simp only [hv] at h
  split at h
  · rename_i e1 e2 h1 h2
    cases h1
    cases h
    rfl
  · cases h

theorem epochs_endTimes (st : ETime) (tab : List (Sz × Q)) (n : Nat) :
    ∀ (bes : List BEpoch) (k : Nat) (acc r : List Epoch),
    ((bes.map (epochObj tab)).zipIdx k).foldlM (epochStep st [] n) acc = .ok r →
    r.map (·.endTime) = acc.map (·.endTime) ++ bes.map (·.endTime) := by
  intro bes
  induction bes with
  | nil => intro k acc r h; cases h; simp
  | cons be bes ih =>
    intro k acc r h
    rw [List.map_cons, List.zipIdx_cons, List.foldlM_cons] at h
    obtain ⟨acc1, h1, h2⟩ := Proofs.bind_ok h
    rw [ih (k + 1) acc1 r h2]
    obtain ⟨ep, ⟨_, raw, hraw, _, hval, _⟩, rfl⟩ := (epochStep_ok_iff st [] n acc (epochObj tab be) k acc1).1 h1
    have hl : lookup "end_time" (insertDefaults (epochObj tab be) []) = some (nV be.endTime) := lookup_endTime tab be
    have he := specFields_endTime (f := fun k => lookup k (insertDefaults (epochObj tab be) [])) hl hraw
    have hq := hval.endTime
    rw [he, nonNegFiniteQ_ok_iff, finOf_nV] at hq
    have : ep.endTime = be.endTime := (Option.some.inj hq.1).symm
    simp [this]

theorem resolveEpochs_endTimes {st : ETime} {tab : List (Sz × Q)} {bes : List BEpoch} {eps : List Epoch}
    (h : resolveEpochs st [] (bes.map (epochObj tab)) = .ok eps) :
    eps.map (·.endTime) = bes.map (·.endTime) := by
  rw [resolveEpochs_eq] at h
  have := epochs_endTimes st tab _ bes 0 [] eps h
  simpa using this

theorem endTime_of_map {eps : List Epoch} {bes : List BEpoch} (h : eps.map (·.endTime) = bes.map (·.endTime)) :
    (eps.getLast?.map (·.endTime)).getD 0 = (bes.getLast?.map (·.endTime)).getD 0 := by
  have h1 : (eps.map (·.endTime)).getLast? = (bes.map (·.endTime)).getLast? := by rw [h]
  rw [List.getLast?_map, List.getLast?_map] at h1
  rw [h1]

/-! ## one deme -/

theorem demeObj_lookups (tab : List (Sz × Q)) (d : BDeme) :
    lookup "name" (demeObj tab d) = some (.str d.name)
    ∧ lookupNN "ancestors" (demeObj tab d) = d.ancestors.map (fun a => Value.list (a.map .str))
    ∧ lookupNN "proportions" (demeObj tab d) = d.proportions.map (fun p => Value.list (p.map nV))
    ∧ lookupNN "start_time" (demeObj tab d) = some (tV d.startTime)
    ∧ lookup "defaults" (demeObj tab d) = none
    ∧ lookup "epochs" (demeObj tab d) = some (.list (d.epochs.map (BEpoch.toValue tab))) := by
  unfold demeObj
  cases d.ancestors <;> cases d.proportions <;> simp [lookup, lookupNN, tV]

theorem timeOf_tV (t : ETime) : timeOf (tV t) = some t := by
  cases t <;> rfl

theorem mapM_unitExLoQ_nV : ∀ (ps qs : List Q), (ps.map nV).mapM unitExLoQ = .ok qs → qs = ps := by
  intro ps
  induction ps with
  | nil => intro qs h; cases h; rfl
  | cons p ps ih =>
    intro qs h
    rw [List.map_cons, List.mapM_cons] at h
    obtain ⟨q, hq, h⟩ := Proofs.bind_ok h
    obtain ⟨qs', hqs', h⟩ := Proofs.bind_ok h
    cases h
    rw [unitExLoQ_ok_iff, finOf_nV] at hq
    rw [ih qs' hqs', ← Option.some.inj hq.1]

theorem str_map_inj : ∀ (a b : List String), a.map Value.str = b.map Value.str → a = b := by
  intro a
  induction a with
  | nil => intro b h; cases b with | nil => rfl | cons _ _ => cases h
  | cons x xs ih =>
    intro b h
    cases b with
    | nil => cases h
    | cons y ys =>
      simp only [List.map_cons, List.cons.injEq, Value.str.injEq] at h
      rw [h.1, ih ys h.2]

theorem popObjList_epochsC (tab : List (Sz × Q)) (d : BDeme) :
    popObjList (demeObj tab d) "epochs" (some [[]]) = .ok (d.epochs.map (epochObj tab)) := by
  unfold popObjList
  rw [(demeObj_lookups tab d).2.2.2.2.2]
  simp only [instList]
  have e : d.epochs.map (BEpoch.toValue tab) = (d.epochs.map (epochObj tab)).map Value.obj := by
    rw [List.map_map]; rfl
  show (pure (d.epochs.map (BEpoch.toValue tab)) >>= fun xs => xs.mapM instObj) = _
  rw [e]
  exact mapM_instObj_objs _

/-- `resolve` reads a deme of the document back -/
theorem resolveDeme_view {tab : List (Sz × Q)} {bd : BDeme} {g g' : Graph}
    (h : resolveDeme [] [] g (demeObj tab bd) = .ok g') :
    ∃ d, g'.demes = g.demes ++ [d] ∧ viewG d = viewB bd := by
  obtain ⟨nameV, d, ld, L, es, eps, hname, _, hd, hld, hL, hes, heps, hg⟩ := Proofs.resolveDeme_ok h
  obtain ⟨l1, l2, l3, l4, l5, l6⟩ := demeObj_lookups tab bd
  have hins : insertDefaults (demeObj tab bd) [] = demeObj tab bd := rfl
  rw [hins] at hd hld hes
  rw [l1] at hname
  cases hname
  rw [l2, l3, l4] at hd
  obtain ⟨hn, _, _, ⟨hanc, _⟩, ⟨v, hv, hpt⟩, ⟨ps, hps, hpm⟩⟩ := addDemeHeader_spec hd
  -- defaults
  have hld' : ld = [] := by
    unfold popObject at hld
    rw [l5] at hld
    cases hld; rfl
  subst hld'
  have hL' : L = [] := by
    unfold popObject at hL
    simp only [lookup] at hL
    cases hL; rfl
  subst hL'
  rw [popObjList_epochsC] at hes
  cases hes
  have hupd : update ([] : Obj) [] = [] := rfl
  rw [hupd] at heps
  refine ⟨{ d with epochs := eps }, hg, ?_⟩
  have e1 : d.name = bd.name := by
    have : Value.str bd.name = Value.str d.name := hn
    exact (Value.str.inj this).symm
  have e2 : d.startTime = bd.startTime := by
    unfold specStartTime at hv
    simp only at hv
    cases hv
    rw [posTime_ok_iff, timeOf_tV] at hpt
    exact (Option.some.inj hpt.1).symm
  have e3 : d.ancestors = bAncestors bd := by
    unfold specAncestors at hanc
    unfold bAncestors
    cases ha : bd.ancestors with
    | none =>
      rw [ha] at hanc
      simp only [Option.map_none, Option.getD_none, Value.list.injEq] at hanc
      cases hd' : d.ancestors with
      | nil => rfl
      | cons x xs => rw [hd'] at hanc; cases hanc
    | some a =>
      rw [ha] at hanc
      simp only [Option.map_some, Option.getD_some, Value.list.injEq] at hanc
      exact (str_map_inj _ _ hanc).symm
  have e4 : d.proportions = bProportions bd := by
    unfold specProportions at hps
    unfold bProportions
    rw [← e3]
    cases hp : bd.proportions with
    | none =>
      rw [hp] at hps
      simp only [Option.map_none] at hps
      simp only [Option.getD_none]
      by_cases hl : d.ancestors.length = 1
      · simp only [hl, if_true, Value.list.injEq] at hps ⊢
        subst hps
        exact mapM_unitExLoQ_nV [1] _ hpm
      · simp only [hl, if_false, Value.list.injEq] at hps ⊢
        subst hps
        exact (Except.ok.inj hpm).symm
    | some p =>
      rw [hp] at hps
      simp only [Option.map_some, Value.list.injEq] at hps
      subst hps
      simp only [Option.getD_some]
      exact mapM_unitExLoQ_nV p _ hpm
  have e5 : Deme.endTime { d with epochs := eps } = bEndTime bd := by
    unfold Deme.endTime Deme.endTime? bEndTime
    exact endTime_of_map (resolveEpochs_endTimes heps)
  unfold viewG viewB
  simp only [e5]
  rw [DView.mk.injEq]
  exact ⟨e1, e2, rfl, e3, e4⟩

/-! ## the deme loop -/

theorem demeLoop_views {tab : List (Sz × Q)} : ∀ (bds : List BDeme) (g g' : Graph),
    (bds.map (demeObj tab)).foldlM (resolveDeme [] []) g = .ok g' →
    g'.demes.map viewG = g.demes.map viewG ++ bds.map viewB := by
  intro bds
  induction bds with
  | nil => intro g g' h; cases h; simp
  | cons bd bds ih =>
    intro g g' h
    rw [List.map_cons, List.foldlM_cons] at h
    obtain ⟨g1, h1, h2⟩ := Proofs.bind_ok h
    obtain ⟨d, hd, hv⟩ := resolveDeme_view h1
    rw [ih g1 g' h2, hd]
    simp [hv]

/-! ## one pulse -/

def pulseObj (p : BPulse) : Obj :=
  [("sources", .list (p.sources.map .str)), ("dest", .str p.dest), ("time", nV p.time),
   ("proportions", .list (p.proportions.map nV))]

theorem pulseToValue_eq (p : BPulse) : BPulse.toValue p = .obj (pulseObj p) := rfl

open Demes.Proofs.RV (ite_verr) in
theorem addPulse_view {g g' : Graph} {p : BPulse}
    (h : addPulse g (.list (p.sources.map .str)) (.str p.dest) (nV p.time) (.list (p.proportions.map nV)) = .ok g') :
    g' = { g with pulses := g.pulses ++ [bp2p p] } := by
  unfold addPulse at h
  obtain ⟨srcVals, hsv, h⟩ := RV.bind_ok.1 h
  obtain ⟨sources, hsources, h⟩ := RV.bind_ok.1 h
  obtain ⟨dest, hdest, h⟩ := RV.bind_ok.1 h
  obtain ⟨_, hti, h⟩ := RV.bind_ok.1 h
  obtain ⟨destDeme, hdestDeme, h⟩ := RV.bind_ok.1 h
  extract_lets tRaw jA jB jC jD at h
  obtain ⟨hdestEnd, h⟩ := ite_verr h
  dsimp -zeta only [jD] at h
  obtain ⟨_, hsrcStart, h⟩ := RV.bind_ok.1 h
  obtain ⟨_, h⟩ := ite_verr h
  dsimp -zeta only [jC] at h
  obtain ⟨hnonempty, h⟩ := ite_verr h
  dsimp -zeta only [jB] at h
  obtain ⟨_, h⟩ := ite_verr h
  dsimp -zeta only [jA] at h
  obtain ⟨time, htime, h⟩ := RV.bind_ok.1 h
  obtain ⟨propVals, hpv, h⟩ := RV.bind_ok.1 h
  obtain ⟨proportions, hprops, h⟩ := RV.bind_ok.1 h
  extract_lets jE jF jG at h
  obtain ⟨hnotdest, h⟩ := ite_verr h
  dsimp -zeta only [jG] at h
  obtain ⟨hnodup, h⟩ := ite_verr h
  dsimp -zeta only [jF] at h
  obtain ⟨hlen, h⟩ := ite_verr h
  dsimp -zeta only [jE] at h
  simp only [RV.ite_ok, RV.valueErr_ok, and_false, false_or, RV.pure_ok] at h
  obtain ⟨_, rfl⟩ := h
  have e1 : srcVals = p.sources.map .str := by
    have := instList_ok hsv
    cases this; rfl
  subst e1
  have e2 : sources = p.sources := (str_map_inj _ _ (mapM_existingName hsources).1).symm
  have e3 : dest = p.dest := by
    have := (existingName_ok hdest).1
    exact (Value.str.inj this).symm
  have e4 : time = p.time := by
    rw [posFiniteQ_ok_iff, finOf_nV] at htime
    exact (Option.some.inj htime.1).symm
  have e5 : propVals = p.proportions.map nV := by
    have := instList_ok hpv
    cases this; rfl
  subst e5
  have e6 : proportions = p.proportions := mapM_unitExLoQ_nV _ _ hprops
  rw [e2, e3, e4, e6]
  rfl

theorem resolvePulse_view {g g' : Graph} {p : BPulse} (h : resolvePulse [] g (pulseObj p) = .ok g') :
    g' = { g with pulses := g.pulses ++ [bp2p p] } := by
  unfold resolvePulse at h
  obtain ⟨_, _, h⟩ := RV.bind_ok.1 h
  have hins : insertDefaults (pulseObj p) [] = pulseObj p := rfl
  rw [hins] at h
  have l1 : lookup "sources" (pulseObj p) = some (.list (p.sources.map .str)) := by simp [pulseObj, lookup]
  have l2 : lookup "dest" (pulseObj p) = some (.str p.dest) := by simp [pulseObj, lookup]
  have l3 : lookup "time" (pulseObj p) = some (nV p.time) := by simp [pulseObj, lookup]
  have l4 : lookup "proportions" (pulseObj p) = some (.list (p.proportions.map nV)) := by simp [pulseObj, lookup]
  extract_lets p1 at h
  have hp1 : p1 = pulseObj p := rfl
  rw [hp1, l1, l2, l3, l4] at h
  exact addPulse_view h

theorem pulseLoop_views : ∀ (ps : List BPulse) (g g' : Graph),
    (ps.map pulseObj).foldlM (resolvePulse []) g = .ok g' →
    g'.pulses = g.pulses ++ ps.map bp2p ∧ g'.demes = g.demes := by
  intro ps
  induction ps with
  | nil => intro g g' h; cases h; simp
  | cons p ps ih =>
    intro g g' h
    rw [List.map_cons, List.foldlM_cons] at h
    obtain ⟨g1, h1, h2⟩ := Proofs.bind_ok h
    obtain ⟨i1, i2⟩ := ih g1 g' h2
    rw [i1, i2, resolvePulse_view h1]
    simp

/-! ## the migration loop leaves demes and pulses alone -/

def SameDP (g' g : Graph) : Prop := g'.demes = g.demes ∧ g'.pulses = g.pulses

theorem SameDP.trans {a b c : Graph} (h1 : SameDP a b) (h2 : SameDP b c) : SameDP a c :=
  ⟨h1.1.trans h2.1, h1.2.trans h2.2⟩

theorem addAsymmetricMigration_dp {g g' : Graph} {sourceV destV rateV : Value}
    {startTimeV endTimeV : Option Value}
    (h : addAsymmetricMigration g sourceV destV rateV startTimeV endTimeV = .ok g') : SameDP g' g := by
  obtain ⟨m, s, d, rfl, _⟩ := RV.addAsymmetricMigration_ok h
  exact ⟨rfl, rfl⟩

theorem addSymmetricMigration_dp {g g' : Graph} {demesV rateV : Value}
    {startTimeV endTimeV : Option Value}
    (h : addSymmetricMigration g demesV rateV startTimeV endTimeV = .ok g') : SameDP g' g := by
  unfold addSymmetricMigration at h
  extract_lets jp at h
  have h1 : ∃ names, jp names = .ok g' := by
    cases demesV with
    | list xs =>
      dsimp only at h
      split at h
      · exact (RV.valueErr_bind_ok.1 h).elim
      · exact ⟨xs, RV.pbind h⟩
    | _ => exact (RV.valueErr_bind_ok.1 h).elim
  clear h
  obtain ⟨names, h⟩ := h1
  dsimp only [jp] at h
  exact RV.foldlM_inv (fun s => SameDP s g) _
    (fun s a s' hs hst => (addAsymmetricMigration_dp hst).trans hs) _ _ _ ⟨rfl, rfl⟩ h

theorem resolveMigration_dp {md : Obj} {g g' : Graph} {m : Obj}
    (h : resolveMigration md g m = .ok g') : SameDP g' g := by
  unfold resolveMigration at h
  obtain ⟨_, _, h⟩ := RV.bind_ok.1 h
  extract_lets m1 jp1 at h
  have h1 : ∃ rateV, jp1 rateV = .ok g' := by
    cases hl : Obj.lookup "rate" m1 with
    | some v => rw [hl] at h; exact ⟨v, RV.pbind h⟩
    | none => rw [hl] at h; exact (RV.keyErr_bind_ok.1 h).elim
  clear h
  obtain ⟨rateV, h⟩ := h1
  dsimp only [jp1] at h
  split at h
  · exact addSymmetricMigration_dp h
  · exact addAsymmetricMigration_dp h
  · exact (RV.keyErr_ok.1 h).elim

/-! ## the whole document -/

theorem docObj_lookups (tab : List (Sz × Q)) (doc : MsDoc) :
    lookup "defaults" (docObj tab doc) = none
    ∧ lookup "pulses" (docObj tab doc) = doc.pulses.map (fun ps => Value.list (ps.map BPulse.toValue)) := by
  unfold docObj
  cases doc.pulses <;> simp [lookup]

theorem popObjList_pulses (tab : List (Sz × Q)) (doc : MsDoc) :
    popObjList (docObj tab doc) "pulses" (some []) = .ok ((doc.pulses.getD []).map pulseObj) := by
  unfold popObjList
  rw [(docObj_lookups tab doc).2]
  cases hp : doc.pulses with
  | none => rfl
  | some ps =>
    simp only [Option.map_some, instList, Option.getD_some]
    have e : ps.map BPulse.toValue = (ps.map pulseObj).map Value.obj := by
      rw [List.map_map]; rfl
    show (pure (ps.map BPulse.toValue) >>= fun xs => xs.mapM instObj) = _
    rw [e]
    exact mapM_instObj_objs _

/-- **`resolve` reads the document of `build_graph` back**: every deme with its name, start time,
end time, ancestors and proportions, in order; the pulses, stably sorted by descending time. -/
theorem resolve_doc_views {tab : List (Sz × Q)} {doc : MsDoc} {g : Graph}
    (h : resolve (doc.toValue tab) = .ok g) :
    g.demes.map viewG = doc.demes.map viewB ∧ g.pulses = sortPulses ((doc.pulses.getD []).map bp2p) := by
  obtain ⟨data, defaults, DD, MD, PD, GE, g0, demesList, g1, migs, g2, pulses, g3, hd, hdef, hDD, hMD, hPD,
    hGE, hg0, hdl, hg1, _, hg2, hpl, hg3, rfl⟩ := Proofs.resolve_ok h
  rw [docToValue_eq] at hd
  injection hd with hd
  subst hd
  have hdefaults : defaults = [] := by
    unfold popObject at hdef
    rw [(docObj_lookups tab doc).1] at hdef
    cases hdef; rfl
  subst hdefaults
  have hDD' : DD = [] := by unfold popObject at hDD; simp only [lookup] at hDD; cases hDD; rfl
  have hGE' : GE = [] := by unfold popObject at hGE; simp only [lookup] at hGE; cases hGE; rfl
  have hPD' : PD = [] := by unfold popObject at hPD; simp only [lookup] at hPD; cases hPD; rfl
  subst hDD' hGE' hPD'
  rw [popObjList_demes] at hdl
  injection hdl with hdl
  subst hdl
  rw [popObjList_pulses] at hpl
  injection hpl with hpl
  subst hpl
  have e1 := demeLoop_views doc.demes g0 g1 hg1
  rw [(RV.resolveHeader_ok hg0).2.1] at e1
  have i1 : RV.Inv2 g1 :=
    RV.foldlM_inv RV.Inv2 _ (fun s a s' hs hst => (RV.resolveDeme_inv hs hst).1) _ _ _ (RV.Inv2_header hg0) hg1
  have e2 : SameDP g2 g1 :=
    RV.foldlM_inv (fun s => SameDP s g1) _
      (fun s a s' hs hst => (resolveMigration_dp hst).trans hs) _ _ _ ⟨rfl, rfl⟩ hg2
  obtain ⟨e3, e4⟩ := pulseLoop_views _ g2 g3 hg3
  constructor
  · show g3.demes.map viewG = _
    rw [e4, e2.1, e1]; rfl
  · show sortPulses g3.pulses = _
    rw [e3, e2.2, i1.pulses]; rfl

end Demes.Proofs.FromMs
