/-
  C20 — the work done to resolve, convert and serialise grows polynomially.

  `Cost.costX g` (Model/Cost.lean) is the number of steps ("ticks": one per loop iteration /
  element visited / candidate subset examined) the Model's operation `X` takes on `g`; the
  `Spec.polyX` are explicit polynomials in
    D = number of demes, E = total number of epochs, A = total number of ancestor references,
    M = number of migrations after the expansion of symmetric ones, P = number of pulses,
    S = total number of pulse source references  (Pr, PrP, H: ancestry proportions, pulse
    proportions, free-form header items — they enter linearly).

  The property HOLDS for `fromdict`, `asdict`, `migration_matrices`, `in_generations`
  (theorems `cost_*_poly`, for all graphs) and FAILS for `asdict_simplified` (finding F9):
  `cost_simplify_ring_lower` — on a ring of `n ≥ 4` demes whose `2n` migrations share one
  rate the search for symmetric groups examines every subset of 3, …, n demes, at least `2^n`
  steps — with `cost_simplify_distinct_rates_poly` as the part that does hold (no two
  migrations with the same `(rate, start, end)`: the search is skipped, degree 2).
-/
import DemesVerif.Proofs.CostValid
import DemesVerif.Proofs.CostDistinct
import DemesVerif.Proofs.CostRingFamily
import DemesVerif.Proofs.CostNotPoly
import DemesVerif.Proofs.Matrices
namespace Demes.Theorems
open Demes Demes.Cost Demes.Spec

/-! ### polynomial bounds, for all graphs -/

/-- `Graph.migration_matrices`: degree 3 — `(2M)²` for sorting the boundary times, `(2M+1)·D²`
for the matrices, `M·(2D + 2M + 2)` for the sweep of every migration over the end times. -/
theorem cost_matrices_poly (g : Graph) :
    costMatrices g ≤ polyMatrices (nDemes g) (nMigrations g) :=
  Proofs.cost_matrices_poly g

/-- the row-sum loop of `_check_migration_rates`: `(2M+1)·(1 + D·(1+D))`. -/
theorem cost_checkRates_poly (g : Graph) :
    costCheckRates g ≤ polyCheckRates (nDemes g) (nMigrations g) :=
  Proofs.cost_checkRates_poly g

/-- `Graph.fromdict` (as a function of the sizes of the resolved document): degree 3 in
`D, E, A, M, P, S`. -/
theorem cost_resolve_poly (g : Graph) :
    costResolve g ≤ polyResolve (nDemes g) (nEpochs g) (nAncestors g) (nProportions g)
      (nMigrations g) (nPulses g) (nSources g) (nPulseProportions g) (nHeader g) :=
  Proofs.cost_resolve_poly g

/-- `Graph.fromdict`, valid graphs: degree 4 in `D, E, M, P` alone (`A ≤ D²`, `S ≤ P·D`). -/
theorem cost_resolve_poly_valid (g : Graph) (hv : validGraph g = true) :
    costResolve g ≤ polyResolveValid (nDemes g) (nEpochs g) (nMigrations g) (nPulses g) (nHeader g) :=
  Proofs.cost_resolve_poly_valid g hv

/-- `Graph.asdict`: linear. -/
theorem cost_asdict_poly (g : Graph) :
    costAsdict g ≤ polyAsdict (nDemes g) (nEpochs g) (nAncestors g) (nProportions g)
      (nMigrations g) (nPulses g) (nSources g) (nPulseProportions g) (nHeader g) :=
  Proofs.cost_asdict_poly g

/-- `Graph.in_generations`: linear. -/
theorem cost_inGenerations_poly (g : Graph) :
    costInGenerations g ≤ polyInGenerations (nDemes g) (nEpochs g) (nMigrations g) (nPulses g) :=
  Proofs.cost_inGenerations_poly g

/-! ### `asdict_simplified`: the instrumented search is the Model's search -/

/-- The tick-counting copy of the search returns exactly `simplifyMigrations g`. -/
theorem cost_search_faithful (g : Graph) : (simplifyMigrationsC g).1 = simplifyMigrations g :=
  Proofs.simplifyMigrationsC_fst g

/-- `itertools.combinations(xs, k)` has `C(|xs|, k)` elements. -/
theorem combinations_length (xs : List String) (k : Nat) :
    (combinations xs k).length = Nat.choose xs.length k :=
  Proofs.length_combinations xs k

/-! ### `asdict_simplified` is exponential on rings (F9) -/

/-- In a ring of at least four demes no subset of three or more demes is fully connected:
none of the candidate subsets of sizes `n, n-1, …, 3` compresses. -/
theorem ring_no_big_subset (n : Nat) (hn : 4 ≤ n) (i : Nat) (hi : 3 ≤ i) (c : List String)
    (hc : c ∈ combinations (collapseDemes (Proofs.ringPairs n)) i) :
    (perms2 c).all (fun p => (Proofs.ringPairs n).contains p) = false :=
  Proofs.ring_no_big_subset n hn i hi c hc

/-- The search alone on `ring n` takes at least `2^n - 1 - n - C(n,2)` steps (every subset of
3, …, n of the n demes is examined). -/
theorem cost_search_ring_lower (n : Nat) (hn : 4 ≤ n) :
    2 ^ n ≤ costSearch (ring n) + (1 + n + Nat.choose n 2) :=
  Proofs.cost_search_ring_lower n hn

/-- F9: `asdict_simplified` of a ring of `n ≥ 4` demes (`D = n`, `M = 2n`, one shared rate)
takes at least `2^n` steps — no polynomial in `D, E, M, P` bounds `costSimplify`. -/
theorem cost_simplify_ring_lower (n : Nat) (hn : 4 ≤ n) : 2 ^ n ≤ costSimplify (ring n) :=
  Proofs.cost_simplify_ring_lower n hn

/-- F9 as the negation of the property itself: there are no constants `c, d` with
`costSimplify g ≤ c · (D + E + M + P + 1)^d` for every graph `g` (witness: `ring (2^k)` for
`k = c + 3d + 4`). -/
theorem cost_simplify_not_poly :
    ¬ ∃ c d : Nat, ∀ g : Graph,
      costSimplify g ≤ c * (nDemes g + nEpochs g + nMigrations g + nPulses g + 1) ^ d :=
  Proofs.cost_simplify_not_poly

/-- concrete instances -/
theorem cost_simplify_ring_10 : costSimplify (ring 10) = 2786 ∧ costSearch (ring 10) = 1588 := by
  decide +kernel

theorem cost_simplify_ring_12 : costSimplify (ring 12) = 7858 ∧ costSearch (ring 12) = 6206 := by
  decide +kernel

/-- The quadratic bound that holds when all `(rate, start, end)` are distinct fails on the
ring of 12 demes (1688 < 7858). -/
theorem cost_simplify_poly_counterexample :
    polySimplifyDistinct (nDemes (ring 12)) (nEpochs (ring 12)) (nAncestors (ring 12))
      (nProportions (ring 12)) (nMigrations (ring 12)) (nPulses (ring 12)) (nSources (ring 12))
      (nPulseProportions (ring 12)) (nHeader (ring 12)) < costSimplify (ring 12) := by
  decide +kernel

/-! ### `asdict_simplified` is quadratic when the search is skipped -/

/-- If every class of migrations with equal `(rate, start, end)` is a singleton, the search is
skipped: degree 2. -/
theorem cost_simplify_singletons_poly (g : Graph)
    (h : ∀ kv ∈ rateSets (g.migrations.map (stripBounds g)), kv.2.length = 1) :
    costSimplify g ≤ polySimplifyDistinct (nDemes g) (nEpochs g) (nAncestors g) (nProportions g)
      (nMigrations g) (nPulses g) (nSources g) (nPulseProportions g) (nHeader g) :=
  Proofs.cost_simplify_singletons_poly g h

/-- In particular when the migrations have pairwise distinct `(rate, start, end)` (after the
deletion of the implied bounds). -/
theorem cost_simplify_distinct_rates_poly (g : Graph)
    (h : ((g.migrations.map (stripBounds g)).map AMig.key).Nodup) :
    costSimplify g ≤ polySimplifyDistinct (nDemes g) (nEpochs g) (nAncestors g) (nProportions g)
      (nMigrations g) (nPulses g) (nSources g) (nPulseProportions g) (nHeader g) :=
  Proofs.cost_simplify_distinct_rates_poly g h

/-! ### non-vacuity -/

/-- the ring is a valid graph -/
example : validGraph (ring 5) = true := by decide +kernel
example : validGraph (ring 12) = true := by decide +kernel
/-- the hypotheses of the two "skipped search" theorems are satisfiable by a graph with
migrations -/
example : ((Proofs.exampleGraph.migrations.map (stripBounds Proofs.exampleGraph)).map AMig.key).Nodup
    ∧ Proofs.exampleGraph.migrations.length = 2 := by decide +kernel
example : ∀ kv ∈ rateSets (Proofs.exampleGraph.migrations.map (stripBounds Proofs.exampleGraph)),
    kv.2.length = 1 := by decide +kernel
/-- the bounds on a concrete valid graph (2 demes, 2 migrations, 1 pulse) -/
example : validGraph Proofs.exampleGraph = true
    ∧ costMatrices Proofs.exampleGraph = 42 ∧ polyMatrices 2 2 = 61
    ∧ costAsdict Proofs.exampleGraph = 50
    ∧ costResolve Proofs.exampleGraph = 156 ∧ polyResolveValid 2 2 2 1 0 = 228 := by decide +kernel

end Demes.Theorems
