/-
  C07 — the time groups of a time-sorted command, and three-way splits of sorted lists.
-/
import DemesVerif.Proofs.ToMsRun
set_option linter.unusedSimpArgs false
set_option linter.unusedVariables false
namespace Demes.Proofs.ToMs
open Demes Demes.Ms Demes.Spec Demes.Spec.C07 Demes.Proofs.RV

/-! ### splitting a list by three predicates that follow its order -/

theorem three_way {α} (p1 p2 p3 : α → Bool) : ∀ (l : List α),
    (∀ x ∈ l, (p1 x = true ∧ p2 x = false ∧ p3 x = false) ∨ (p1 x = false ∧ p2 x = true ∧ p3 x = false)
      ∨ (p1 x = false ∧ p2 x = false ∧ p3 x = true)) →
    l.Pairwise (fun a b => (p2 a = true → p1 b = false) ∧ (p3 a = true → p1 b = false ∧ p2 b = false)) →
    l = l.filter p1 ++ l.filter p2 ++ l.filter p3
  | [], _, _ => rfl
  | x :: l, h, hp => by
    have hx := h x List.mem_cons_self
    have hp' := List.pairwise_cons.1 hp
    have ih := three_way p1 p2 p3 l (fun y hy => h y (List.mem_cons_of_mem _ hy)) hp'.2
    rcases hx with ⟨h1, h2, h3⟩ | ⟨h1, h2, h3⟩ | ⟨h1, h2, h3⟩
    · simp only [List.filter_cons, h1, h2, h3, if_true, Bool.false_eq_true, if_false, List.cons_append]
      rw [← ih]
    · have hn1 : l.filter p1 = [] := by
        rw [List.filter_eq_nil_iff]; intro y hy; simp [(hp'.1 y hy).1 h2]
      simp only [List.filter_cons, h1, h2, h3, if_true, Bool.false_eq_true, if_false, hn1, List.nil_append,
        List.cons_append]
      rw [hn1] at ih
      simp only [List.nil_append] at ih
      rw [← ih]
    · have hn1 : l.filter p1 = [] := by
        rw [List.filter_eq_nil_iff]; intro y hy; simp [((hp'.1 y hy).2 h3).1]
      have hn2 : l.filter p2 = [] := by
        rw [List.filter_eq_nil_iff]; intro y hy; simp [((hp'.1 y hy).2 h3).2]
      simp only [List.filter_cons, h1, h2, h3, if_true, Bool.false_eq_true, if_false, hn1, hn2, List.nil_append]
      rw [hn1, hn2] at ih
      simp only [List.nil_append] at ih
      rw [← ih]

/-- a sorted list of options split at a time -/
theorem three_way_time {l : List (Event Growth)} (hs : Sorted byQ l) (cT : Q) :
    l = l.filter (fun e => decide (evT e < cT)) ++ l.filter (fun e => decide (evT e = cT))
      ++ l.filter (fun e => decide (cT < evT e)) := by
  apply three_way
  · intro x _
    simp only [decide_eq_true_eq, decide_eq_false_iff_not]
    by_cases h1 : evT x < cT
    · left; refine ⟨h1, ?_, ?_⟩ <;> grind
    · by_cases h2 : evT x = cT
      · right; left; refine ⟨h1, h2, ?_⟩; grind
      · right; right; refine ⟨h1, h2, ?_⟩; grind
  · refine hs.imp ?_
    intro a b hab
    simp only [byQ, decide_eq_true_eq] at hab
    simp only [decide_eq_true_eq, decide_eq_false_iff_not]
    constructor
    · intro h; grind
    · intro h; constructor <;> grind

/-! ### time groups -/

structure GroupsOK (G : List (List (Event Growth))) : Prop where
  inc : G.Pairwise (fun g1 g2 => ∀ a ∈ g1, ∀ b ∈ g2, evT a < evT b)
  same : ∀ grp ∈ G, grp ≠ [] ∧ ∀ a ∈ grp, ∀ b ∈ grp, evT a = evT b

theorem groupsOK_groupsByTime : ∀ (l : List (Event Growth)), Sorted byQ l → GroupsOK (groupsByTime l)
  | [], _ => ⟨List.Pairwise.nil, fun _ h => by cases h⟩
  | e :: r, hs => by
    have hs' := List.pairwise_cons.1 hs
    have ih := groupsOK_groupsByTime r hs'.2
    have hfl := flatten_groupsByTime r
    have hle : ∀ b ∈ r, evT e ≤ evT b := fun b hb => by
      have := hs'.1 b hb; simpa [byQ] using this
    show GroupsOK (groupEv e (groupsByTime r))
    generalize hG : groupsByTime r = G at ih hfl
    cases G with
    | nil =>
      refine ⟨by simp [groupEv], ?_⟩
      intro grp hgrp
      simp only [groupEv, List.mem_singleton] at hgrp
      subst hgrp
      exact ⟨by simp, fun a ha b hb => by simp at ha hb; rw [ha, hb]⟩
    | cons g1 gs =>
      have hinc := List.pairwise_cons.1 ih.inc
      obtain ⟨hg1ne, hg1same⟩ := ih.same g1 List.mem_cons_self
      have hmemr : ∀ grp ∈ g1 :: gs, ∀ b ∈ grp, b ∈ r := fun grp hgrp b hb => by
        rw [← hfl]; exact List.mem_flatten.2 ⟨grp, hgrp, hb⟩
      cases g1 with
      | nil => exact absurd rfl hg1ne
      | cons h g =>
        simp only [groupEv]
        by_cases heq : evT h = evT e
        · rw [if_pos heq]
          refine ⟨List.pairwise_cons.2 ⟨?_, hinc.2⟩, ?_⟩
          · intro g2 hg2 a ha b hb
            rcases List.mem_cons.1 ha with rfl | ha
            · rw [← heq]; exact hinc.1 g2 hg2 h List.mem_cons_self b hb
            · exact hinc.1 g2 hg2 a ha b hb
          · intro grp hgrp
            rcases List.mem_cons.1 hgrp with rfl | hgrp
            · refine ⟨by simp, ?_⟩
              have hall : ∀ a ∈ e :: h :: g, evT a = evT e := by
                intro a ha
                rcases List.mem_cons.1 ha with rfl | ha
                · rfl
                · rw [← heq]; exact hg1same a ha h List.mem_cons_self
              intro a ha b hb; rw [hall a ha, hall b hb]
            · exact ih.same grp (List.mem_cons_of_mem _ hgrp)
        · rw [if_neg heq]
          have hlt1 : ∀ b ∈ h :: g, evT e < evT b := by
            intro b hb
            have h1 := hle h (hmemr _ List.mem_cons_self h List.mem_cons_self)
            have h2 := hg1same b hb h List.mem_cons_self
            rw [h2]
            have : evT e ≠ evT h := fun h' => heq h'.symm
            grind
          refine ⟨List.pairwise_cons.2 ⟨?_, ih.inc⟩, ?_⟩
          · intro g2 hg2 a ha b hb
            simp only [List.mem_singleton] at ha
            subst ha
            rcases List.mem_cons.1 hg2 with rfl | hg2
            · exact hlt1 b hb
            · have := hinc.1 g2 hg2 h List.mem_cons_self b hb
              have := hlt1 h List.mem_cons_self
              grind
          · intro grp hgrp
            rcases List.mem_cons.1 hgrp with rfl | hgrp
            · exact ⟨by simp, fun a ha b hb => by simp at ha hb; rw [ha, hb]⟩
            · exact ih.same grp hgrp

end Demes.Proofs.ToMs
