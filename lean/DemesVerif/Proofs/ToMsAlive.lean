/-
  C07 — every option of the emitted command addresses populations that exist and have not
  been joined: the run of `msSemG` does not fail.
-/
import DemesVerif.Proofs.ToMsOrder
set_option linter.unusedSimpArgs false
set_option linter.unusedVariables false
namespace Demes.Proofs.ToMs
open Demes Demes.Ms Demes.Spec Demes.Spec.C07 Demes.Proofs.RV

/-! ### facts of the validity clauses -/

theorem et_le_antisymm {a b : ETime} (h1 : a ≤ b) (h2 : b ≤ a) : a = b := by
  cases a <;> cases b <;>
    simp only [InGen.fin_lt_fin, InGen.fin_le_fin, InGen.le_inf, InGen.inf_lt, InGen.inf_le_fin, InGen.fin_lt_inf] at * <;>
    first | rfl | (congr 1; grind)

theorem et_le_min {x a b : ETime} (h : x ≤ ETime.min a b) : x ≤ a ∧ x ≤ b := by
  unfold ETime.min at h
  split at h
  · rename_i hab; exact ⟨h, et_le_trans h hab⟩
  · rename_i hab
    have : b ≤ a := et_le_of_not_lt (fun hlt => hab (et_le_of_lt hlt))
    exact ⟨et_le_trans h this, h⟩

theorem idOf_inj {g : Graph} {a b : String} (ha : (g.demeId? a).isSome = true) (hb : (g.demeId? b).isSome = true)
    (h : idOf g a = idOf g b) : a = b := by
  unfold idOf at h
  cases hja : g.demeId? a with
  | none => rw [hja] at ha; cases ha
  | some j =>
    cases hjb : g.demeId? b with
    | none => rw [hjb] at hb; cases hb
    | some j' =>
      rw [hja, hjb] at h
      simp only [Option.getD_some] at h
      have : j = j' := by omega
      subst this
      obtain ⟨d1, hd1, hn1⟩ := demeId_some hja
      obtain ⟨d2, hd2, hn2⟩ := demeId_some hjb
      rw [hd1] at hd2; cases hd2
      rw [← hn1, ← hn2]

theorem demeId_isSome_of_mem {g : Graph} (c : Clauses g) {d : Deme} (hd : d ∈ g.demes) :
    (g.demeId? d.name).isSome = true := demeId_isSome_of_findDeme c (findDeme_of_mem c hd)

/-- V3 for one ancestor -/
theorem ancestor_facts {g : Graph} (c : Clauses g) {d : Deme} (hd : d ∈ g.demes) {a : String} (ha : a ∈ d.ancestors) :
    ∃ anc, findDeme g a = some anc ∧ d.startTime < anc.startTime ∧ ETime.fin anc.endTime ≤ d.startTime := by
  have h3 := c.h3
  simp only [v3, List.all_eq_true, Bool.and_eq_true, decide_eq_true_eq, beq_iff_eq] at h3
  have := (h3 d hd).1.1 a ha
  split at this
  · rename_i anc hanc
    simp only [Bool.and_eq_true, decide_eq_true_eq] at this
    exact ⟨anc, hanc, this.1, this.2⟩
  · cases this

/-- V11 for the destination and a source of a pulse -/
theorem pulse_facts {g : Graph} (c : Clauses g) {p : Pulse} (hp : p ∈ g.pulses) :
    ∃ dd, findDeme g p.dest = some dd ∧ p.time ≠ dd.endTime ∧ 0 < p.time ∧ ¬ p.sources.contains p.dest = true ∧
      ∀ s ∈ p.sources, ∃ sd, findDeme g s = some sd ∧ ETime.fin p.time ≤ sd.startTime
        ∧ ETime.fin p.time ≤ dd.startTime ∧ ETime.fin p.time ≠ sd.startTime
        ∧ sd.endTime ≤ p.time ∧ dd.endTime ≤ p.time := by
  have h11 := c.h11
  simp only [v11, List.all_eq_true] at h11
  have := h11 p hp
  simp only [Bool.and_eq_true, decide_eq_true_eq, beq_iff_eq, Bool.not_eq_true', List.isEmpty_eq_false_iff,
    List.all_eq_true] at this
  obtain ⟨⟨⟨⟨⟨⟨⟨_, _⟩, hnc⟩, _⟩, _⟩, _⟩, htime⟩, hd⟩ := this
  split at hd
  · cases hd
  · rename_i dd hdd
    simp only [Bool.and_eq_true, List.all_eq_true, bne_iff_ne, ne_eq] at hd
    refine ⟨dd, hdd, hd.1, htime, by rw [hnc]; simp, ?_⟩
    intro s hs
    have hsrc := hd.2 s hs
    split at hsrc
    · cases hsrc
    · rename_i sd hsd
      simp only [coexist, Bool.and_eq_true, decide_eq_true_eq, bne_iff_ne, ne_eq] at hsrc
      obtain ⟨⟨hlo, hhi⟩, hne⟩ := hsrc
      obtain ⟨h1, h2⟩ := et_le_min (of_decide_eq_true hhi)
      refine ⟨sd, hsd, h1, h2, hne, ?_, ?_⟩
      · unfold qmax at hlo; split at hlo <;> grind
      · unfold qmax at hlo; split at hlo <;> grind

/-! ### nothing uses a deme after its own options -/

def InGraph (g : Graph) : DemeOrPulse → Prop
  | .deme d => d ∈ g.demes
  | .pulse p => p ∈ g.pulses

theorem noUse {g : Graph} (c : Clauses g) (hx : MsExpressible g = true) {d : Deme} (hd : d ∈ g.demes)
    {y : DemeOrPulse} (hy : InGraph g y) (hkey : d.startTime ≤ y.key)
    (h3 : ∀ p, y = .pulse p → d.startTime ≠ ETime.fin p.time)
    (hname : ∀ d', y = .deme d' → d.name ≠ d'.name) : ¬ Uses g y (idOf g d.name) := by
  have hdid := demeId_isSome_of_mem c hd
  intro hu
  cases y with
  | deme d' =>
    have hd' : d' ∈ g.demes := hy
    rcases hu with hu | ⟨a, ha, hu⟩
    · exact hname d' rfl (idOf_inj hdid (demeId_isSome_of_mem c hd') hu)
    · obtain ⟨anc, hanc, hlt, _⟩ := ancestor_facts c hd' ha
      have haid := demeId_isSome_of_findDeme c hanc
      have : d.name = a := idOf_inj hdid haid hu
      rw [← this, findDeme_of_mem c hd] at hanc
      cases hanc
      exact et_lt_irrefl' hlt hkey
  | pulse p =>
    have hp : p ∈ g.pulses := hy
    obtain ⟨dd, hdd, _, _, _, hsrc⟩ := pulse_facts c hp
    obtain ⟨s, hs, hsid⟩ := (pulseOk_of_valid c hx hp).src
    obtain ⟨sd, hsd, h1, h2, hne, _, _⟩ := hsrc s (by rw [hs]; simp)
    rcases hu with hu | hu
    · have := idOf_inj hdid (demeId_isSome_of_findDeme c hdd) hu
      rw [← this, findDeme_of_mem c hd] at hdd
      cases hdd
      exact h3 p rfl (et_le_antisymm hkey h2)
    · rw [hs] at hu
      simp only [List.headD_cons] at hu
      have := idOf_inj hdid hsid hu
      rw [← this, findDeme_of_mem c hd] at hsd
      cases hsd
      exact hne (et_le_antisymm h1 hkey)

structure GoodXs (g : Graph) (xs : List DemeOrPulse) : Prop where
  mem : ∀ x ∈ xs, InGraph g x
  sorted : Sorted leKey xs
  pulseFirst : xs.Pairwise (fun x y => ∀ d p, x = .deme d → y = .pulse p → d.startTime ≠ ETime.fin p.time)
  names : xs.Pairwise (fun x y => ∀ d d', x = .deme d → y = .deme d' → d.name ≠ d'.name)

theorem GoodXs.tail {g : Graph} {x : DemeOrPulse} {r : List DemeOrPulse} (h : GoodXs g (x :: r)) : GoodXs g r :=
  ⟨fun y hy => h.mem y (List.mem_cons_of_mem _ hy), (List.pairwise_cons.1 h.sorted).2,
    (List.pairwise_cons.1 h.pulseFirst).2, (List.pairwise_cons.1 h.names).2⟩

theorem goodXs_dps {g : Graph} (c : Clauses g) : GoodXs g (dps g) :=
  ⟨fun x hx => by
    cases x with
    | deme d => exact mem_dps_deme hx
    | pulse p => exact mem_dps_pulse hx,
   sorted_dps g, dps_pulse_first g, dps_names (nodup_names c)⟩

/-- in the `-es` / `-ej` options of the walk, no option addresses a graph population after the
`-ej` that ends it -/
theorem ancOrder {g : Graph} (c : Clauses g) (hx : MsExpressible g = true) :
    ∀ (xs : List DemeOrPulse) (n : Nat), GoodXs g xs → g.demes.length ≤ n →
      ∀ A e B, ancEvs g n xs = A ++ e :: B → ∀ i ∈ targets e, i ≤ (g.demes.length : Int) →
        ∀ x' ∈ A, isJoinOf i x' = false
  | [], _, _, _, A, e, B, h => by simp [ancEvs] at h
  | x :: r, n, hg, hn, A, e, B, h => by
    intro i hi hile x' hx'
    -- an `-ej` of `i ≤ n0` in the options of `x` is the `-ej` of the deme `x` itself
    have hblk : ∀ (blk : List (Event Growth)) (n' : Nat), n ≤ n' →
        (∀ o t i' j, Event.join o t i' j ∈ blk → (n : Int) < i' ∨ ∃ d, x = .deme d ∧ i' = idOf g d.name) →
        ∀ as, A = blk ++ as → ancEvs g n' r = as ++ e :: B → x' ∈ blk → isJoinOf i x' = false := by
      intro blk n' hn' hj as hA hrest hxb
      cases x' with
      | join o t i' j =>
        simp only [isJoinOf, decide_eq_false_iff_not]
        intro hii
        subst hii
        rcases hj o t i' j hxb with hlt | ⟨d, rfl, hid⟩
        · omega
        · -- `e` comes from an element of `r` that uses the deme `d`
          have he : e ∈ ancEvs g n' r := by rw [hrest]; simp
          rcases targets_ancEvs r n' he i' hi with hlt | ⟨y, hy, hu⟩
          · omega
          · rw [hid] at hu
            have hs := List.pairwise_cons.1 hg.sorted
            have hp := List.pairwise_cons.1 hg.pulseFirst
            have hnm := List.pairwise_cons.1 hg.names
            have hkey : d.startTime ≤ y.key := of_decide_eq_true (hs.1 y hy)
            exact noUse c hx (hg.mem _ List.mem_cons_self) (hg.mem y (List.mem_cons_of_mem _ hy)) hkey
              (fun p hyp => hp.1 y hy d p rfl hyp) (fun d' hyd => hnm.1 y hy d d' rfl hyd) hu
      | _ => rfl
    cases x with
    | deme d =>
      rw [ancEvs, List.append_eq_append_iff] at h
      rcases h with ⟨as, hA, hrest⟩ | ⟨bs, hblkeq, hrest⟩
      · rw [hA] at hx'
        rcases List.mem_append.1 hx' with hxb | hxa
        · exact hblk _ _ (ancDemeCount_ge d _ n) (fun o t i' j hj => by
            obtain ⟨_, h2⟩ := join_mem_ancDemeEvs _ _ hj
            exact h2.imp id (fun h => ⟨d, rfl, h⟩)) as hA hrest hxb
        · exact ancOrder c hx r _ hg.tail (Nat.le_trans hn (ancDemeCount_ge d _ n)) as e B hrest i hi hile x' hxa
      · cases bs with
        | nil =>
          simp only [List.append_nil, List.nil_append] at hblkeq hrest
          exact hblk (ancDemeEvs g d n d.ancestors.zipIdx) _ (ancDemeCount_ge d _ n) (fun o t i' j hj => by
            obtain ⟨_, h2⟩ := join_mem_ancDemeEvs _ _ hj
            exact h2.imp id (fun h => ⟨d, rfl, h⟩)) [] (by rw [← hblkeq]; simp) (by rw [← hrest]; simp)
            (by rw [hblkeq]; exact hx')
        | cons b bs' =>
          simp only [List.cons_append, List.cons.injEq] at hrest
          obtain ⟨rfl, _⟩ := hrest
          cases x' with
          | join o t i' j =>
            have := block_joins_new d.ancestors.zipIdx n (zipIdx_last_only d.ancestors) A e bs' hblkeq o t i' j hx'
            simp only [isJoinOf, decide_eq_false_iff_not]
            intro hii; omega
          | _ => rfl
    | pulse p =>
      rw [ancEvs, List.append_eq_append_iff] at h
      have hpj : ∀ o t i' j, Event.join o t i' j ∈ pulseEvs g p n → (n : Int) < i' ∨ ∃ d, DemeOrPulse.pulse p = .deme d ∧ i' = idOf g d.name := by
        intro o t i' j hj
        simp only [pulseEvs, List.mem_cons, List.not_mem_nil, or_false] at hj
        rcases hj with hj | hj
        · cases hj
        · cases hj; left; omega
      rcases h with ⟨as, hA, hrest⟩ | ⟨bs, hblkeq, hrest⟩
      · rw [hA] at hx'
        rcases List.mem_append.1 hx' with hxb | hxa
        · exact hblk _ _ (Nat.le_succ n) hpj as hA hrest hxb
        · exact ancOrder c hx r _ hg.tail (Nat.le_trans hn (Nat.le_succ n)) as e B hrest i hi hile x' hxa
      · cases bs with
        | nil =>
          simp only [List.append_nil, List.nil_append] at hblkeq hrest
          exact hblk (pulseEvs g p n) _ (Nat.le_succ n) hpj [] (by rw [← hblkeq]; simp) (by rw [← hrest]; simp)
            (by rw [hblkeq]; exact hx')
        | cons b bs' =>
          cases x' with
          | join o t i' j =>
            have hm : Event.join o t i' j ∈ pulseEvs g p n := by rw [hblkeq]; exact List.mem_append_left _ hx'
            rcases hpj o t i' j hm with hlt | ⟨d, hd, _⟩
            · simp only [isJoinOf, decide_eq_false_iff_not]
              intro hii; omega
            · cases hd
          | _ => rfl

end Demes.Proofs.ToMs
