/-
  C20 — step counts ("ticks") of the Model's public operations.

  Each cost function follows the recursion of the Model function it measures: one tick per
  loop iteration / per element visited / per candidate subset examined.  Where the Model
  uses an association list for what is a `dict` in the implementation (the name index, the
  `rate_sets` map) the tick count is the Model's (a lookup costs the length of the list), so
  it is an upper bound for the implementation's work as well.

  * `costMatrices`       — `migrationMatrices`   (Model/Matrices.lean)
  * `costCheckRates`     — `checkMigrationRates`
  * `costResolve`        — `resolve`, as a function of the sizes of the resolved document
  * `costAsdict`         — `Graph.asdict`        (Model/Dict.lean)
  * `costInGenerations`  — `inGenerations`       (Model/Views.lean)
  * `costSimplify`       — `Graph.asdictSimplified` (Model/Simplify.lean); its search part is
    measured by instrumented copies `tryCombinationsC` / `searchLoopC` / `simplifyMigrationsC`
    of `tryCombinations` / `searchLoop` / `simplifyMigrations` that return `(result, ticks)`;
    `Proofs/Cost.lean` proves that the result component is the uninstrumented function.
-/
import DemesVerif.Model.Simplify
import DemesVerif.Model.Views
namespace Demes
namespace Cost

/-! ### size measures of a graph -/

def nDemes (g : Graph) : Nat := g.demes.length
def nEpochs (g : Graph) : Nat := (g.demes.map (·.epochs.length)).sum
/-- total number of ancestor references -/
def nAncestors (g : Graph) : Nat := (g.demes.map (·.ancestors.length)).sum
/-- total number of ancestry proportions (equals `nAncestors` in a valid graph) -/
def nProportions (g : Graph) : Nat := (g.demes.map (·.proportions.length)).sum
/-- number of (asymmetric) migrations, i.e. after the expansion of symmetric ones -/
def nMigrations (g : Graph) : Nat := g.migrations.length
def nPulses (g : Graph) : Nat := g.pulses.length
/-- total number of pulse source references -/
def nSources (g : Graph) : Nat := (g.pulses.map (·.sources.length)).sum
def nPulseProportions (g : Graph) : Nat := (g.pulses.map (·.proportions.length)).sum

mutual
/-- number of nodes of a document value (for `metadata`) -/
def sizeV : Value → Nat
  | .list xs => 1 + sizeL xs
  | .obj kvs => 1 + sizeO kvs
  | .null => 1
  | .bool _ => 1
  | .num _ => 1
  | .str _ => 1
def sizeL : List Value → Nat
  | [] => 0
  | x :: xs => sizeV x + sizeL xs
def sizeO : List (String × Value) → Nat
  | [] => 0
  | (_, v) :: r => sizeV v + sizeO r
end

/-- size of the free-form header fields (`doi`, `metadata`) -/
def nHeader (g : Graph) : Nat := g.doi.length + sizeO g.metadata

/-! ### `migration_matrices` -/

/-- ticks of `insertDesc x l`: one per element visited -/
def costInsertDesc (x : Q) : List Q → Nat
  | [] => 1
  | y :: ys => if x > y then 1 else if x = y then 1 else 1 + costInsertDesc x ys

/-- ticks of `sortDescUniq` (the same `foldr`) -/
def costSortDescUniq : List Q → Nat
  | [] => 0
  | x :: xs => costSortDescUniq xs + costInsertDesc x (sortDescUniq xs)

/-- ticks of `sweep mig _ _ start ends _`: one per end time visited, stopping at the `break` -/
def costSweep (mig : Migration) : ETime → List Q → Nat
  | _, [] => 1
  | start, e :: es =>
    if start ≤ ETime.fin mig.endTime then 1 else 1 + costSweep mig (ETime.fin e) es

/-- ticks of `migrationMatrices g`: collecting and sorting the boundary times, allocating
one `n × n` matrix per end time, and for every migration two `demeId?` scans and the sweep -/
def costMatrices (g : Graph) : Nat :=
  let times := migrationTimes g.migrations
  let ends := mmEndTimes g.migrations
  let n := g.demes.length
  1 + times.length + costSortDescUniq times + ends.length * (n * n)
    + (g.migrations.map (fun mig => 2 * n + costSweep mig ETime.inf ends)).sum

/-- ticks of the row-sum loop of `checkMigrationRates` (after `migrationMatrices`) -/
def costCheckRates (g : Graph) : Nat :=
  (mmEndTimes g.migrations).length * (1 + g.demes.length * (1 + g.demes.length))

/-! ### `Graph.fromdict` -/

/-- one iteration of the deme loop: uniqueness of the name (one index scan), per ancestor
three index scans (`existingName`, `getDeme` twice) and the duplicate test, the
proportions, the epoch loop -/
def costDeme (D : Nat) (d : Deme) : Nat :=
  1 + D + d.ancestors.length * (3 * D + d.ancestors.length) + d.proportions.length
    + d.epochs.length

/-- one iteration of the migration loop (after the expansion of a symmetric migration): six
index scans (`existingName` twice, `timeIntersection` up to twice) and the scan of the
migrations added so far for an overlap -/
def costMigration (D M : Nat) : Nat := 1 + 6 * D + M

/-- one iteration of the pulse loop: index scans for the destination and per source, the
duplicate test on the sources, the proportions, and the scan of the pulses added so far
(the same-time warning of `_add_pulse`) -/
def costPulse (D P : Nat) (p : Pulse) : Nat :=
  1 + D * (2 + 3 * p.sources.length) + p.sources.length * p.sources.length
    + p.proportions.length + P

/-- ticks of `insertPulse p l` -/
def costInsertPulse (p : Pulse) : List Pulse → Nat
  | [] => 1
  | q :: qs => if q.time ≤ p.time then 1 else 1 + costInsertPulse p qs

/-- ticks of `sortPulses` (the same `foldr`) -/
def costSortPulses : List Pulse → Nat
  | [] => 0
  | p :: ps => costSortPulses ps + costInsertPulse p (sortPulses ps)

/-- ticks of `resolve doc` when it returns `g`, in terms of `g` (the sizes of the document
after defaults and the expansion of symmetric migrations): header, deme loop, migration
loop, `checkMigrationRates` (= `migrationMatrices` + row sums), pulse loop, and the pulse
sort (worst case of the insertion sort: the document's order is not known from `g`) -/
def costResolve (g : Graph) : Nat :=
  let D := g.demes.length
  let M := g.migrations.length
  let P := g.pulses.length
  24 + nHeader g
    + (g.demes.map (costDeme D)).sum
    + M * costMigration D M
    + costMatrices g + costCheckRates g
    + (g.pulses.map (costPulse D P)).sum
    + P * (P + 1)

/-! ### `Graph.asdict` -/

def costDemeAsdict (d : Deme) : Nat :=
  6 + d.ancestors.length + d.proportions.length + 6 * d.epochs.length

def costPulseAsdict (p : Pulse) : Nat := 4 + p.sources.length + p.proportions.length

/-- ticks of `Graph.asdict g`: one per field / list element emitted -/
def costAsdict (g : Graph) : Nat :=
  8 + nHeader g + (g.demes.map costDemeAsdict).sum + 5 * g.migrations.length
    + (g.pulses.map costPulseAsdict).sum

/-! ### `Graph.in_generations` -/

def costDemeScale (d : Deme) : Nat := 1 + d.epochs.length

/-- ticks of `inGenerations g`: one per deme, epoch, migration and pulse rescaled -/
def costInGenerations (g : Graph) : Nat :=
  3 + (g.demes.map costDemeScale).sum + g.migrations.length + g.pulses.length

/-! ### `Graph.asdict_simplified`: the search for symmetric groups, instrumented -/

/-- ticks for one candidate subset: one for the subset, one per ordered pair tested before
the first missing one (`all_present` loop with its `break`), and one per ordered pair
removed when the subset is fully connected -/
def costSubset (ps : List (String × String)) (pairs : List (String × String)) : Nat :=
  1 + (ps.takeWhile (fun p => pairs.contains p)).length
    + (if ps.all (fun p => pairs.contains p) then ps.length else 0)

/-- `tryCombinations` returning also the ticks -/
def tryCombinationsC (k : RateKey) (sets : List (List String)) (st : SearchState) :
    (SearchState × Bool) × Nat :=
  sets.foldl (fun (acc : (SearchState × Bool) × Nat) demeSet =>
    let ((st, compressed), ticks) := acc
    let ps := perms2 demeSet
    let ticks := ticks + costSubset ps st.pairs
    if ps.all (fun p => st.pairs.contains p) then
      let st' := ps.foldl (fun (s : SearchState) p =>
        { s with
          asymmetric := s.asymmetric.erase { source := p.1, dest := p.2, start := k.2.1, stop := k.2.2, rate := k.1 }
          pairs := s.pairs.erase p }) st
      (({ st' with symmetric := st'.symmetric ++ [{ demes := demeSet, rate := k.1, start := k.2.1, stop := k.2.2 }] }, true), ticks)
    else ((st, compressed), ticks)) ((st, false), 0)

/-- `searchLoop` returning also the ticks: one per loop iteration, the ticks of the pass
over the subsets, and one per pair visited by `collapse_demes` after a compression -/
def searchLoopC (k : RateKey) : Nat → List String → Nat → SearchState → SearchState × Nat
  | 0, _, _, st => (st, 0)
  | fuel + 1, allDemes, i, st =>
    if allDemes.length ≥ 2 ∧ i ≥ 2 then
      let r := tryCombinationsC k (combinations allDemes i) st
      let st' := r.1.1
      let compressed := r.1.2
      if compressed then
        let allDemes' := collapseDemes st'.pairs
        let r' := searchLoopC k fuel allDemes' (Nat.min i allDemes'.length) st'
        (r'.1, 1 + r.2 + st'.pairs.length + r'.2)
      else
        let r' := searchLoopC k fuel allDemes (i - 1) st'
        (r'.1, 1 + r.2 + r'.2)
    else (st, 1)

/-- the loop over the rate classes of `simplifyMigrations`, returning also the ticks: one
per class, and for a class with at least two pairs one per pair (`collapse_demes`) and the
ticks of the search -/
def classesC (classes : List (RateKey × List (String × String))) (ams : List AMig) :
    (List SMig × List AMig) × Nat :=
  classes.foldl (fun (acc : (List SMig × List AMig) × Nat) kv =>
    let k := kv.1
    let pairs := kv.2
    if pairs.length = 1 then (acc.1, acc.2 + 1)
    else
      let allDemes := collapseDemes pairs
      let r := searchLoopC k (pairs.length + allDemes.length + 2) allDemes allDemes.length
        { symmetric := acc.1.1, asymmetric := acc.1.2, pairs := pairs }
      ((r.1.symmetric, r.1.asymmetric), acc.2 + 1 + pairs.length + r.2)) (([], ams), 0)

/-- `simplifyMigrations` returning also the ticks of the loop over the rate classes -/
def simplifyMigrationsC (g : Graph) : (List SMig × List AMig) × Nat :=
  let ams := g.migrations.map (stripBounds g)
  classesC (rateSets ams) ams

/-- ticks of the search alone (number of candidate subsets examined, weighted by the pairs
tested / removed, plus loop overhead) -/
def costSearch (g : Graph) : Nat := (simplifyMigrationsC g).2

/-- ticks of `Graph.asdictSimplified g`: `asdict`, the deletion of implied bounds (two index
scans per migration), the construction of `rate_sets` (each migration scans the classes so
far), the search, emitting the symmetric and asymmetric migrations, and `simplify_epochs`
(one per deme — with one index scan for the ancestor — and per epoch) -/
def costSimplify (g : Graph) : Nat :=
  let M := g.migrations.length
  let D := g.demes.length
  let r := simplifyMigrationsC g
  costAsdict g + M * (1 + 2 * D) + M * (M + 1) + r.2 + (r.1.1.length + r.1.2.length)
    + D * (1 + D) + nEpochs g

end Cost
end Demes
