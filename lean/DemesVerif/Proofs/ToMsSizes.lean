/-
  C07 — sizes: the size / growth options of population `j` realise the epochs of deme `j`
  under the ms rule (`-en` sets the size and resets the growth rate, `-eg` sets the growth rate).
-/
import DemesVerif.Proofs.ToMsStructure
set_option linter.unusedSimpArgs false
set_option linter.unusedVariables false
namespace Demes.Proofs.ToMs
open Demes Demes.Ms Demes.Spec Demes.Spec.C07 Demes.Proofs.RV

/-! ### exact equality of growth symbols is reflexive -/

theorem symEq_refl (r dt : Q) : symEq r dt r dt = true := by
  simp only [symEq]
  split <;> simp

theorem growth_eq_refl : ∀ g : Growth, g.eq g = true
  | .zero => rfl
  | .sym r dt => symEq_refl r dt

/-! ### order of extended times -/

theorem et_le_refl (a : ETime) : a ≤ a := by
  cases a
  · exact Rat.le_refl
  · trivial

theorem et_le_of_lt {a b : ETime} (h : a < b) : a ≤ b := by
  cases a <;> cases b <;>
    simp only [InGen.fin_lt_fin, InGen.fin_le_fin, InGen.le_inf, InGen.inf_lt, InGen.inf_le_fin, InGen.fin_lt_inf] at * <;>
    grind

theorem et_le_trans {a b c : ETime} (h1 : a ≤ b) (h2 : b ≤ c) : a ≤ c := by
  cases a <;> cases b <;> cases c <;>
    simp only [InGen.fin_lt_fin, InGen.fin_le_fin, InGen.le_inf, InGen.inf_lt, InGen.inf_le_fin, InGen.fin_lt_inf] at * <;>
    grind

theorem et_lt_of_lt_of_le {a b c : ETime} (h1 : a < b) (h2 : b ≤ c) : a < c := by
  cases a <;> cases b <;> cases c <;>
    simp only [InGen.fin_lt_fin, InGen.fin_le_fin, InGen.le_inf, InGen.inf_lt, InGen.inf_le_fin, InGen.fin_lt_inf] at * <;>
    grind

/-! ### what contiguity gives (epochs oldest first) -/

theorem contiguous_facts : ∀ (es : List Epoch) (s : ETime), contiguous s es = true →
    (∀ e ∈ es, ETime.fin e.endTime < e.startTime ∧ e.startTime ≤ s)
      ∧ es.Pairwise (fun a b => b.startTime ≤ ETime.fin a.endTime)
  | [], _, _ => ⟨fun _ h => (by cases h), List.Pairwise.nil⟩
  | x :: xs, s, h => by
    simp only [contiguous, Bool.and_eq_true, beq_iff_eq, decide_eq_true_eq] at h
    obtain ⟨⟨hs, hlt⟩, hc⟩ := h
    obtain ⟨h1, h2⟩ := contiguous_facts xs _ hc
    refine ⟨?_, List.pairwise_cons.2 ⟨fun b hb => (h1 b hb).2, h2⟩⟩
    intro e he
    rcases List.mem_cons.1 he with rfl | he
    · exact ⟨hlt, by rw [hs]; exact et_le_refl _⟩
    · refine ⟨(h1 e he).1, ?_⟩
      rw [← hs]
      exact et_le_trans (h1 e he).2 (et_le_of_lt hlt)

/-! ### one epoch's options -/

def g1Of (size : Q) (growth : Growth) (e : Epoch) : Growth := if size ≠ e.endSize then Growth.zero else growth

def nextG (N0 : Q) (size : Q) (growth : Growth) (e : Epoch) : Growth :=
  if !((g1Of size growth e).eq (growthOf N0 e)) then growthOf N0 e else g1Of size growth e

def headEvs (N0 : Q) (j : Int) (size : Q) (growth : Growth) (e : Epoch) : List (Event Growth) :=
  (if size ≠ e.endSize then [Event.popSizeChange "" (.fin e.endTime) j (.fin (e.endSize / N0))] else [])
    ++ (if !((g1Of size growth e).eq (growthOf N0 e)) then [Event.popGrowthRateChange "" (.fin e.endTime) j (growthOf N0 e)] else [])

theorem sizeEvs_cons (N0 : Q) (j : Int) (size : Q) (growth : Growth) (e : Epoch) (es : List Epoch) :
    sizeEvs N0 j size growth (e :: es) = headEvs N0 j size growth e ++ sizeEvs N0 j e.startSize (nextG N0 size growth e) es := by
  simp only [sizeEvs, headEvs, nextG, g1Of, List.append_assoc]
  rfl

theorem nextG_eq (N0 : Q) (size : Q) (growth : Growth) (e : Epoch) :
    (nextG N0 size growth e).eq (growthOf N0 e) = true := by
  unfold nextG
  by_cases h : (g1Of size growth e).eq (growthOf N0 e) = true
  · simp [h]
  · simp [h, growth_eq_refl]

theorem mem_headEvs {N0 : Q} {j : Int} {size : Q} {growth : Growth} {e : Epoch} {x : Event Growth}
    (h : x ∈ headEvs N0 j size growth e) : isSizeEvOf j x = true ∧ x.t = .fin e.endTime := by
  simp only [headEvs, List.mem_append] at h
  rcases h with h | h
  · by_cases h1 : size = e.endSize
    · simp [h1] at h
    · simp only [ne_eq, h1, not_false_eq_true, if_true, List.mem_singleton] at h
      subst h; exact ⟨by simp [isSizeEvOf], rfl⟩
  · split at h
    · simp only [List.mem_singleton] at h; subst h; exact ⟨by simp [isSizeEvOf], rfl⟩
    · cases h

theorem numPos_fin (q : Q) : numPos (.fin q) = decide (0 < q) := by simp [numPos, Num.lt, Num.zero]

/-- the ms rule applied to one epoch's options gives the epoch's end size and the generator's
growth rate -/
theorem foldl_headEvs {N0 : Q} (hN : 0 < N0) (j : Int) (size : Q) (growth : Growth) {e : Epoch}
    (h0 : 0 ≤ e.endTime) (hinv : growth = .zero ∨ 0 < e.endTime) :
    ((headEvs N0 j size growth e).map (scaleEv N0)).foldl applySizeEv (size / N0, growth)
      = (e.endSize / N0, nextG N0 size growth e) := by
  have h4 : (0 : Q) < 4 * N0 := by grind
  have hnp : numPos (.fin (e.endTime / (4 * N0))) = false → growth = .zero := by
    intro hp
    rw [numPos_fin] at hp
    simp only [decide_eq_false_iff_not] at hp
    rcases hinv with h | h
    · exact h
    · exact absurd ((InGen.div_pos h4).2 h) hp
  unfold headEvs nextG g1Of
  by_cases h1 : size = e.endSize
  · subst h1
    by_cases h2 : growth.eq (growthOf N0 e) = true
    · simp [h2]
    · simp [h2, scaleEv, Event.setT, Event.t, numDivQ, applySizeEv]
  · by_cases hp : numPos (.fin (e.endTime / (4 * N0))) = true
    · by_cases h2 : Growth.zero.eq (growthOf N0 e) = true
      · simp [h1, h2, scaleEv, Event.setT, Event.t, numDivQ, applySizeEv, hp]
      · simp [h1, h2, scaleEv, Event.setT, Event.t, numDivQ, applySizeEv, hp]
    · have hz := hnp (by simpa using hp)
      subst hz
      by_cases h2 : Growth.zero.eq (growthOf N0 e) = true
      · simp [h1, h2, scaleEv, Event.setT, Event.t, numDivQ, applySizeEv, hp]
      · simp [h1, h2, scaleEv, Event.setT, Event.t, numDivQ, applySizeEv, hp]

/-! ### the walk over the epochs -/

theorem isSizeEvOf_scale (N0 : Q) (j : Int) (e : Event Growth) : isSizeEvOf j (scaleEv N0 e) = isSizeEvOf j e := by
  cases e <;> rfl

theorem mem_sizeEvs_scaled {N0 : Q} {j : Int} {size : Q} {growth : Growth} {es : List Epoch} {x : Event Growth}
    (h : x ∈ (sizeEvs N0 j size growth es).map (scaleEv N0)) :
    isSizeEvOf j x = true ∧ ∃ e ∈ es, x.t = .fin (e.endTime / (4 * N0)) := by
  obtain ⟨y, hy, rfl⟩ := List.mem_map.1 h
  obtain ⟨e, he, h'⟩ := mem_sizeEvs _ _ _ hy
  rcases h' with rfl | rfl
  · exact ⟨by simp [scaleEv, Event.setT, isSizeEvOf], e, he, rfl⟩
  · exact ⟨by simp [scaleEv, Event.setT, isSizeEvOf], e, he, rfl⟩

theorem fin_div_lt_of {N0 : Q} (h4 : (0 : Q) < 4 * N0) {a : Q} {b : ETime} {c : Q} (h1 : b ≤ ETime.fin c) :
    ¬ (ETime.fin (c / (4 * N0)) < b.div (4 * N0)) := by
  cases b with
  | inf => exact h1.elim
  | fin b =>
    simp only [ETime.div, InGen.fin_lt_fin]
    have : b ≤ c := h1
    have := (InGen.div_le_div h4).2 this
    grind

theorem epochsMatch_sizeEvs {N0 : Q} (hN : 0 < N0) (j : Int) :
    ∀ (es : List Epoch) (size : Q) (growth : Growth) (pre : List (Event Growth)),
      (∀ e ∈ es, 0 ≤ e.endTime ∧ ETime.fin e.endTime < e.startTime) →
      es.Pairwise (fun a b => a.startTime ≤ ETime.fin b.endTime) →
      (growth = .zero ∨ ∀ e ∈ es, 0 < e.endTime) →
      (∀ x ∈ pre, isSizeEvOf j x = true ∧ ∃ q, x.t = .fin q ∧ ∀ e ∈ es, q < e.endTime / (4 * N0)) →
      epochsMatch N0 j (pre ++ (sizeEvs N0 j size growth es).map (scaleEv N0)) (size / N0, growth) es = true
  | [], _, _, _, _, _, _, _ => rfl
  | e :: es, size, growth, pre, hok, hpw, hinv, hpre => by
    have h4 : (0 : Q) < 4 * N0 := by grind
    obtain ⟨he0, helt⟩ := hok e List.mem_cons_self
    have hpw' := List.pairwise_cons.1 hpw
    -- later epochs end strictly after this one
    have hlater : ∀ e' ∈ es, e.endTime < e'.endTime := by
      intro e' he'
      have := et_lt_of_lt_of_le helt (hpw'.1 e' he')
      exact this
    have hlater' : ∀ e' ∈ es, e.endTime / (4 * N0) < e'.endTime / (4 * N0) := fun e' he' =>
      (InGen.div_lt_div h4).2 (hlater e' he')
    rw [sizeEvs_cons, List.map_append, ← List.append_assoc]
    -- the options scheduled at this epoch's end
    have hfilter : (pre ++ (headEvs N0 j size growth e).map (scaleEv N0)
          ++ (sizeEvs N0 j e.startSize (nextG N0 size growth e) es).map (scaleEv N0)).filter
          (fun x => isSizeEvOf j x && x.t == Num.fin (e.endTime / (4 * N0)))
        = (headEvs N0 j size growth e).map (scaleEv N0) := by
      rw [List.filter_append, List.filter_append]
      have h1 : pre.filter (fun x => isSizeEvOf j x && x.t == Num.fin (e.endTime / (4 * N0))) = [] := by
        rw [List.filter_eq_nil_iff]
        intro x hx
        obtain ⟨_, q, hq, hlt⟩ := hpre x hx
        have := hlt e List.mem_cons_self
        simp only [hq, Bool.and_eq_true, beq_iff_eq, Num.fin.injEq, not_and]
        intro _ h; rw [h] at this; exact absurd this (Rat.lt_irrefl)
      have h2 : ((headEvs N0 j size growth e).map (scaleEv N0)).filter
          (fun x => isSizeEvOf j x && x.t == Num.fin (e.endTime / (4 * N0))) = (headEvs N0 j size growth e).map (scaleEv N0) := by
        rw [List.filter_eq_self]
        intro x hx
        obtain ⟨y, hy, rfl⟩ := List.mem_map.1 hx
        obtain ⟨hy1, hy2⟩ := mem_headEvs hy
        simp [isSizeEvOf_scale, hy1, t_scale hy2]
      have h3 : ((sizeEvs N0 j e.startSize (nextG N0 size growth e) es).map (scaleEv N0)).filter
          (fun x => isSizeEvOf j x && x.t == Num.fin (e.endTime / (4 * N0))) = [] := by
        rw [List.filter_eq_nil_iff]
        intro x hx
        obtain ⟨_, e', he', ht⟩ := mem_sizeEvs_scaled hx
        have := hlater' e' he'
        simp only [ht, Bool.and_eq_true, beq_iff_eq, Num.fin.injEq, not_and]
        intro _ h; rw [h] at this; exact absurd this (Rat.lt_irrefl)
      rw [h1, h2, h3]; simp
    have hinv' : growth = .zero ∨ 0 < e.endTime := by
      rcases hinv with h | h
      · exact Or.inl h
      · exact Or.inr (h e List.mem_cons_self)
    unfold epochsMatch
    simp only [stateAfter, hfilter, foldl_headEvs hN j size growth he0 hinv', nextG_eq, beq_self_eq_true,
      Bool.true_and, Bool.and_eq_true]
    refine ⟨?_, ?_⟩
    · -- nothing strictly inside the epoch
      simp only [quietInside, List.all_eq_true, List.mem_append]
      intro x hx
      rcases hx with (hx | hx) | hx
      · obtain ⟨_, q, hq, hlt⟩ := hpre x hx
        have := hlt e List.mem_cons_self
        simp only [hq, Bool.or_eq_true, Bool.not_eq_true', Bool.and_eq_false_iff, decide_eq_false_iff_not]
        right; left; grind
      · obtain ⟨y, hy, rfl⟩ := List.mem_map.1 hx
        obtain ⟨_, hy2⟩ := mem_headEvs hy
        simp only [t_scale hy2, Bool.or_eq_true, Bool.not_eq_true', Bool.and_eq_false_iff, decide_eq_false_iff_not]
        right; left; exact Rat.lt_irrefl
      · obtain ⟨_, e', he', ht⟩ := mem_sizeEvs_scaled hx
        simp only [ht, Bool.or_eq_true, Bool.not_eq_true', Bool.and_eq_false_iff, decide_eq_false_iff_not]
        right; right
        exact fin_div_lt_of (a := 0) h4 (hpw'.1 e' he')
    · -- the older epochs
      refine epochsMatch_sizeEvs hN j es e.startSize (nextG N0 size growth e)
        (pre ++ (headEvs N0 j size growth e).map (scaleEv N0))
        (fun e' he' => hok e' (List.mem_cons_of_mem _ he')) hpw'.2 ?_ ?_
      · right
        intro e' he'
        have := hlater e' he'
        grind
      · intro x hx
        rcases List.mem_append.1 hx with hx | hx
        · obtain ⟨h1, q, hq, hlt⟩ := hpre x hx
          exact ⟨h1, q, hq, fun e' he' => hlt e' (List.mem_cons_of_mem _ he')⟩
        · obtain ⟨y, hy, rfl⟩ := List.mem_map.1 hx
          obtain ⟨hy1, hy2⟩ := mem_headEvs hy
          exact ⟨by rw [isSizeEvOf_scale]; exact hy1, _, t_scale hy2, hlater'⟩

/-! ### only the options of population `j` matter -/

theorem stateAfter_filter (j : Int) (evs : List (Event Growth)) (t : Q) (st : Q × Growth) :
    stateAfter j (evs.filter (isSizeEvOf j)) t st = stateAfter j evs t st := by
  unfold stateAfter
  rw [List.filter_filter]
  congr 1
  apply List.filter_congr
  intro x _
  cases isSizeEvOf j x <;> simp

theorem all_filter_imp {α} (p q : α → Bool) : ∀ l : List α, (l.filter p).all (fun x => !p x || q x) = l.all (fun x => !p x || q x)
  | [] => rfl
  | x :: l => by
    by_cases h : p x = true
    · simp [List.filter_cons, h, all_filter_imp p q l]
    · simp [List.filter_cons, h, all_filter_imp p q l]

theorem quietInside_filter (j : Int) (evs : List (Event Growth)) (a : Q) (b : ETime) :
    quietInside j (evs.filter (isSizeEvOf j)) a b = quietInside j evs a b := by
  unfold quietInside
  exact all_filter_imp _ _ evs

theorem epochsMatch_filter (N0 : Q) (j : Int) (evs : List (Event Growth)) :
    ∀ (es : List Epoch) (st : Q × Growth),
      epochsMatch N0 j (evs.filter (isSizeEvOf j)) st es = epochsMatch N0 j evs st es
  | [], _ => rfl
  | e :: es, st => by
    unfold epochsMatch
    simp only [stateAfter_filter, quietInside_filter, epochsMatch_filter N0 j evs es]

/-! ### the options of population `j` in the emitted command -/

theorem flatMap_eq_nil' {α β} {l : List α} {f : α → List β} (h : ∀ x ∈ l, f x = []) : l.flatMap f = [] := by
  induction l with
  | nil => rfl
  | cons a l ih =>
    rw [List.flatMap_cons, h a List.mem_cons_self, ih (fun x hx => h x (List.mem_cons_of_mem _ hx))]; rfl

theorem flatMap_congr' {α β} {l : List α} {f g : α → List β} (h : ∀ x ∈ l, f x = g x) :
    l.flatMap f = l.flatMap g := by
  induction l with
  | nil => rfl
  | cons a l ih =>
    rw [List.flatMap_cons, List.flatMap_cons, h a List.mem_cons_self, ih (fun x hx => h x (List.mem_cons_of_mem _ hx))]

theorem flatMap_ite_zipIdx {α β} (f : α × Nat → List β) :
    ∀ (l : List α) (k i : Nat) (d : α), l[i]? = some d →
      (l.zipIdx k).flatMap (fun x => if x.2 = k + i then f x else []) = f (d, k + i)
  | [], _, _, _, h => by simp at h
  | a :: l, k, 0, d, h => by
    simp only [List.getElem?_cons_zero, Option.some.injEq] at h
    subst h
    rw [List.zipIdx_cons, List.flatMap_cons]
    simp only [Nat.add_zero, if_true]
    rw [flatMap_eq_nil', List.append_nil]
    intro x hx
    have := List.mem_zipIdx hx
    have h1 : x.2 ≠ k := by omega
    simp [h1]
  | a :: l, k, i + 1, d, h => by
    simp only [List.getElem?_cons_succ] at h
    rw [List.zipIdx_cons, List.flatMap_cons]
    have h1 : ¬ (k = k + (i + 1)) := by omega
    simp only [h1, if_false, List.nil_append]
    have := flatMap_ite_zipIdx f l (k + 1) i d h
    rw [show k + 1 + i = k + (i + 1) by omega] at this
    exact this

theorem filter_sizeEvs_self {N0 : Q} {j : Int} {size : Q} {growth : Growth} {es : List Epoch} :
    (sizeEvs N0 j size growth es).filter (isSizeEvOf j) = sizeEvs N0 j size growth es := by
  rw [List.filter_eq_self]
  intro x hx
  obtain ⟨e, _, h⟩ := mem_sizeEvs _ _ _ hx
  rcases h with rfl | rfl <;> simp [isSizeEvOf]

theorem filter_sizeEvs_other {N0 : Q} {j j' : Int} (hne : j' ≠ j) {size : Q} {growth : Growth} {es : List Epoch} :
    (sizeEvs N0 j' size growth es).filter (isSizeEvOf j) = [] := by
  rw [List.filter_eq_nil_iff]
  intro x hx
  obtain ⟨e, _, h⟩ := mem_sizeEvs _ _ _ hx
  rcases h with rfl | rfl <;> simp [isSizeEvOf, hne]

theorem filter_sizeEvsAll {N0 : Q} {l : List Deme} {i : Nat} {d : Deme} (h : l[i]? = some d) :
    (sizeEvsAll N0 l.zipIdx).filter (isSizeEvOf ((i + 1 : Nat) : Int))
      = sizeEvs N0 ((i + 1 : Nat) : Int) N0 .zero d.epochs.reverse := by
  have h1 : (sizeEvsAll N0 l.zipIdx).filter (isSizeEvOf ((i + 1 : Nat) : Int))
      = l.zipIdx.flatMap (fun x => if x.2 = 0 + i then
          (fun dj : Deme × Nat => sizeEvs N0 ((dj.2 + 1 : Nat) : Int) N0 .zero dj.1.epochs.reverse) x else []) := by
    unfold sizeEvsAll
    rw [List.filter_flatMap]
    apply flatMap_congr'
    intro x _
    by_cases hx : x.2 = 0 + i
    · simp only [hx, if_true, Nat.zero_add]
      exact filter_sizeEvs_self
    · simp only [hx, if_false]
      apply filter_sizeEvs_other
      intro hc
      have : x.2 + 1 = i + 1 := by exact_mod_cast hc
      omega
  rw [h1, flatMap_ite_zipIdx _ l 0 i d h]
  simp

theorem sorted_sizeEvs {N0 : Q} {j : Int} :
    ∀ (es : List Epoch) (size : Q) (growth : Growth), es.Pairwise (fun a b => a.endTime ≤ b.endTime) →
      Sorted byQ (sizeEvs N0 j size growth es)
  | [], _, _, _ => List.Pairwise.nil
  | e :: es, size, growth, h => by
    have h' := List.pairwise_cons.1 h
    rw [sizeEvs_cons]
    unfold Sorted
    rw [List.pairwise_append]
    refine ⟨?_, sorted_sizeEvs es _ _ h'.2, ?_⟩
    · rw [List.pairwise_iff_forall_sublist]
      intro a b hab
      have ha := (mem_headEvs (hab.subset List.mem_cons_self)).2
      have hb := (mem_headEvs (hab.subset (List.mem_cons_of_mem _ List.mem_cons_self))).2
      simp [byQ, evT, ha, hb]
    · intro a ha b hb
      have ha' := (mem_headEvs ha).2
      obtain ⟨e', he', hb'⟩ := mem_sizeEvs _ _ _ hb
      have hb'' : b.t = .fin e'.endTime := by rcases hb' with rfl | rfl <;> rfl
      simp only [byQ, evT, ha', hb'', decide_eq_true_eq]
      exact h'.1 e' he'

theorem isSizeEvOf_not_splitJoin {j : Int} {e : Event Growth} (h : isSplitJoin e = true) : isSizeEvOf j e = false := by
  cases e <;> simp [isSplitJoin] at h <;> rfl

theorem isSizeEvOf_not_mig {j : Int} {e : Event Growth} (h : isMigKind e = true) : isSizeEvOf j e = false := by
  cases e <;> simp [isMigKind] at h <;> rfl

/-- epochs youngest first: end times strictly increase, each epoch starts no later than the
next one ends -/
theorem reverse_epochs_facts {s : ETime} {es : List Epoch} (h : contiguous s es = true) :
    (∀ e ∈ es.reverse, ETime.fin e.endTime < e.startTime)
      ∧ es.reverse.Pairwise (fun a b => a.startTime ≤ ETime.fin b.endTime) := by
  obtain ⟨h1, h2⟩ := contiguous_facts es s h
  refine ⟨fun e he => (h1 e (List.mem_reverse.1 he)).1, ?_⟩
  rw [List.pairwise_reverse]
  exact h2

/-- the size / growth options of population `i+1`, in command-line order, are the scaled
options the generator emitted for deme `i` -/
theorem finalEvs_filter_size {g : Graph} (c : Clauses g) (hx : MsExpressible g = true) {N0 : Q} (hN : 0 < N0)
    {i : Nat} {d : Deme} (hd : g.demes[i]? = some d) :
    (finalEvs g N0).filter (isSizeEvOf ((i + 1 : Nat) : Int))
      = (sizeEvs N0 ((i + 1 : Nat) : Int) N0 .zero d.epochs.reverse).map (scaleEv N0) := by
  have hdm : d ∈ g.demes := List.mem_of_getElem? hd
  have h5 := c.h5
  simp only [v5, List.all_eq_true, Bool.and_eq_true] at h5
  obtain ⟨hlt, hpw⟩ := reverse_epochs_facts (h5 d hdm).2
  rw [finalEvs_eq c hx, List.filter_map]
  congr 1
  have h1 : (sortBy byQ (rawEvs g N0)).filter (isSizeEvOf ((i + 1 : Nat) : Int) ∘ scaleEv N0)
      = (sortBy byQ (rawEvs g N0)).filter (isSizeEvOf ((i + 1 : Nat) : Int)) := by
    apply List.filter_congr
    intro x _
    exact isSizeEvOf_scale N0 _ x
  rw [h1, sortBy_filter totalPre_byQ]
  have h2 : (rawEvs g N0).filter (isSizeEvOf ((i + 1 : Nat) : Int))
      = sizeEvs N0 ((i + 1 : Nat) : Int) N0 .zero d.epochs.reverse := by
    unfold rawEvs
    rw [List.filter_append, List.filter_append, filter_sizeEvsAll hd]
    have ha : (ancEvs g g.demes.length (dps g)).filter (isSizeEvOf ((i + 1 : Nat) : Int)) = [] := by
      rw [List.filter_eq_nil_iff]
      intro x hx'
      simp [isSizeEvOf_not_splitJoin (splitJoin_ancEvs hx')]
    have hm : (migEvs N0 g).filter (isSizeEvOf ((i + 1 : Nat) : Int)) = [] := by
      rw [List.filter_eq_nil_iff]
      intro x hx'
      simp [isSizeEvOf_not_mig (migKind_migEvs hx')]
    rw [ha, hm]; simp
  rw [h2]
  apply sortBy_of_sorted
  apply sorted_sizeEvs
  refine List.Pairwise.imp_of_mem ?_ hpw
  intro a b ha _ hab
  have := et_lt_of_lt_of_le (hlt a ha) hab
  exact Rat.le_of_lt this

/-! ### `toMs_sizes` -/

theorem all_of_filter_imp {α} (p q : α → Bool) (l : List α) (h : ∀ x ∈ l.filter p, q x = true) :
    l.all (fun x => !p x || q x) = true := by
  rw [List.all_eq_true]
  intro x hx
  by_cases hp : p x = true
  · simp [hp, h x (List.mem_filter.2 ⟨hx, hp⟩)]
  · simp [hp]

theorem deme_endTime_eq {d : Deme} {e : Epoch} {es : List Epoch} (h : d.epochs.reverse = e :: es) :
    d.endTime = e.endTime := by
  have : d.epochs.getLast? = some e := by
    rw [← List.head?_reverse, h]; rfl
  simp [Deme.endTime, Deme.endTime?, this]

theorem popSizesMatch_finalEvs {g : Graph} (c : Clauses g) (hx : MsExpressible g = true) {N0 : Q} (hN : 0 < N0)
    {i : Nat} {d : Deme} (hd : g.demes[i]? = some d) :
    popSizesMatch N0 ((i + 1 : Nat) : Int) d (finalEvs g N0) = true := by
  have h4 : (0 : Q) < 4 * N0 := by grind
  have hdm : d ∈ g.demes := List.mem_of_getElem? hd
  have h5 := c.h5
  simp only [v5, List.all_eq_true, Bool.and_eq_true] at h5
  obtain ⟨hlt, hpw⟩ := reverse_epochs_facts (h5 d hdm).2
  have hok : ∀ e ∈ d.epochs.reverse, 0 ≤ e.endTime ∧ ETime.fin e.endTime < e.startTime := fun e he =>
    ⟨(epochOk_of_valid c hx hdm (List.mem_reverse.1 he)).endTime, hlt e he⟩
  have hfil := finalEvs_filter_size c hx hN hd
  unfold popSizesMatch
  rw [Bool.and_eq_true]
  constructor
  · apply all_of_filter_imp
    intro x hx'
    rw [hfil] at hx'
    obtain ⟨_, e, he, ht⟩ := mem_sizeEvs_scaled hx'
    rw [ht]
    simp only [decide_eq_true_eq]
    apply (InGen.div_le_div h4).2
    cases hes : d.epochs.reverse with
    | nil => rw [hes] at he; cases he
    | cons e1 rest =>
      rw [deme_endTime_eq hes]
      rw [hes] at he hpw hlt
      rcases List.mem_cons.1 he with rfl | he
      · exact Rat.le_refl
      · have := et_lt_of_lt_of_le (hlt e1 List.mem_cons_self) ((List.pairwise_cons.1 hpw).1 e he)
        exact Rat.le_of_lt this
  · rw [← epochsMatch_filter, hfil]
    have := epochsMatch_sizeEvs hN ((i + 1 : Nat) : Int) d.epochs.reverse N0 .zero [] hok hpw (Or.inl rfl)
      (fun x hx' => by cases hx')
    rw [div_self_pos hN, List.nil_append] at this
    exact this

/-- Statement of `Theorems.toMs_sizes`. -/
theorem toMs_sizes {graph : Graph} (hv : validGraph graph = true) (hx : MsExpressible graph = true)
    {N0 : Q} (hN : 0 < N0) {samples : Option (List Int)} (hs : samplesOk graph samples = true) :
    ∃ c cmd, toMs graph N0 samples = .ok c ∧ parseCmd c = some cmd ∧
      ∀ (i : Nat) (d : Deme), (inGenerations graph).demes[i]? = some d →
        popSizesMatch N0 ((i + 1 : Nat) : Int) d cmd.events = true := by
  have c := clauses_of_valid (InGen.inGenerations_valid graph hv)
  have hx' : MsExpressible (inGenerations graph) = true := by rw [expr_inGen]; exact hx
  have hs' : samplesOk (inGenerations graph) samples = true := by rw [samplesOk_inGen]; exact hs
  exact ⟨_, _, toMs_ok_eq hv hx hN hs, parseCmd_cmdOf c hx' hN hs', fun i d hd => popSizesMatch_finalEvs c hx' hN hd⟩

/-! ### `en_followed_by_eg` -/

theorem endTime_inj {l : List Epoch} (h : l.Pairwise (fun a b => a.endTime < b.endTime)) {a b : Epoch}
    (ha : a ∈ l) (hb : b ∈ l) (hab : a.endTime = b.endTime) : a = b := by
  induction l with
  | nil => cases ha
  | cons x l ih =>
    have h' := List.pairwise_cons.1 h
    rcases List.mem_cons.1 ha with ha' | ha' <;> rcases List.mem_cons.1 hb with hb' | hb'
    · rw [ha', hb']
    · subst ha'; exact absurd hab (Rat.ne_of_lt (h'.1 b hb'))
    · subst hb'; exact absurd hab.symm (Rat.ne_of_lt (h'.1 a ha'))
    · exact ih h'.2 ha' hb'

theorem zero_eq_growthOf_nonconst {N0 : Q} {e : Epoch} (hinf : e.startTime = .inf → e.startSize = e.endSize)
    (hne : e.startSize ≠ e.endSize) : Growth.zero.eq (growthOf N0 e) = false := by
  unfold growthOf
  have : e.endSize ≠ e.startSize := fun h => hne h.symm
  cases hst : e.startTime with
  | inf => exact absurd (hinf hst) hne
  | fin st => simp [this, Growth.eq]

theorem enThenEg_sizeEvs {N0 : Q} (hN : 0 < N0) (j : Int) (all : List Epoch)
    (hinj : ∀ a ∈ all, ∀ b ∈ all, a.endTime = b.endTime → a = b)
    (hinf : ∀ e ∈ all, e.startTime = .inf → e.startSize = e.endSize) :
    ∀ (es : List Epoch) (size : Q) (growth : Growth), (∀ e ∈ es, e ∈ all) →
      enThenEg N0 j all ((sizeEvs N0 j size growth es).map (scaleEv N0)) = true
  | [], _, _, _ => rfl
  | e :: es, size, growth, hsub => by
    have h4 : (0 : Q) < 4 * N0 := by grind
    have he : e ∈ all := hsub e List.mem_cons_self
    have ih := enThenEg_sizeEvs hN j all hinj hinf es e.startSize (nextG N0 size growth e)
      (fun x hx => hsub x (List.mem_cons_of_mem _ hx))
    rw [sizeEvs_cons, List.map_append]
    unfold headEvs g1Of
    by_cases h1 : size = e.endSize
    · subst h1
      by_cases h2 : growth.eq (growthOf N0 e) = true
      · simpa [h2] using ih
      · simp only [ne_eq, not_true_eq_false, if_false, h2, Bool.not_false, if_true, List.nil_append,
          List.map_cons, List.map_nil, List.cons_append]
        simp only [enThenEg, scaleEv, Event.setT, Bool.true_and]
        exact ih
    · have key : ∀ e' ∈ all, (Num.fin (e.endTime / (4 * N0)) == Num.fin (e'.endTime / (4 * N0)) && e'.startSize != e'.endSize) = true →
          e' = e ∧ Growth.zero.eq (growthOf N0 e) = false := by
        intro e' he' hc
        simp only [Bool.and_eq_true, beq_iff_eq, Num.fin.injEq, bne_iff_ne, ne_eq] at hc
        have := hinj e he e' he' ((InGen.div_eq_div h4).1 hc.1)
        subst this
        exact ⟨rfl, zero_eq_growthOf_nonconst (hinf e he) hc.2⟩
      by_cases h2 : Growth.zero.eq (growthOf N0 e) = true
      · simp only [ne_eq, h1, not_false_eq_true, if_true, h2, Bool.not_true, Bool.false_eq_true, if_false,
          List.append_nil, List.map_cons, List.map_nil, List.cons_append, List.nil_append]
        simp only [enThenEg, scaleEv, Event.setT, Event.t, numDivQ, beq_self_eq_true, Bool.not_true, Bool.false_or,
          Bool.and_eq_true, List.all_eq_true, Bool.or_eq_true, Bool.not_eq_true']
        refine ⟨?_, ih⟩
        intro e' he'
        by_cases hc : (Num.fin (e.endTime / (4 * N0)) == Num.fin (e'.endTime / (4 * N0)) && e'.startSize != e'.endSize) = true
        · have := (key e' he' hc).2
          rw [h2] at this; cases this
        · left; simpa using hc
      · simp only [ne_eq, h1, not_false_eq_true, if_true, h2, Bool.not_false, List.map_cons, List.map_nil,
          List.cons_append, List.nil_append]
        simp only [enThenEg, scaleEv, Event.setT, Event.t, numDivQ, beq_self_eq_true, Bool.not_true, Bool.false_or,
          Bool.and_eq_true, List.all_eq_true, Bool.or_eq_true, Bool.not_eq_true', List.head?_cons, Bool.true_and]
        refine ⟨?_, ih⟩
        intro e' he'
        by_cases hc : (Num.fin (e.endTime / (4 * N0)) == Num.fin (e'.endTime / (4 * N0)) && e'.startSize != e'.endSize) = true
        · obtain ⟨rfl, _⟩ := key e' he' hc
          right; simp
        · left; simpa using hc

/-- Statement of `Theorems.en_followed_by_eg`. -/
theorem en_followed_by_eg {graph : Graph} (hv : validGraph graph = true) (hx : MsExpressible graph = true)
    {N0 : Q} (hN : 0 < N0) {samples : Option (List Int)} (hs : samplesOk graph samples = true) :
    ∃ c cmd, toMs graph N0 samples = .ok c ∧ parseCmd c = some cmd ∧
      ∀ (i : Nat) (d : Deme), (inGenerations graph).demes[i]? = some d →
        enThenEg N0 ((i + 1 : Nat) : Int) d.epochs (cmd.events.filter (isSizeEvOf ((i + 1 : Nat) : Int))) = true := by
  have c := clauses_of_valid (InGen.inGenerations_valid graph hv)
  have hx' : MsExpressible (inGenerations graph) = true := by rw [expr_inGen]; exact hx
  have hs' : samplesOk (inGenerations graph) samples = true := by rw [samplesOk_inGen]; exact hs
  refine ⟨_, _, toMs_ok_eq hv hx hN hs, parseCmd_cmdOf c hx' hN hs', fun i d hd => ?_⟩
  have hdm : d ∈ (inGenerations graph).demes := List.mem_of_getElem? hd
  have h5 := c.h5
  simp only [v5, List.all_eq_true, Bool.and_eq_true] at h5
  obtain ⟨hlt, hpw⟩ := reverse_epochs_facts (h5 d hdm).2
  have hstrict : d.epochs.reverse.Pairwise (fun a b => a.endTime < b.endTime) := by
    refine List.Pairwise.imp_of_mem ?_ hpw
    intro a b ha _ hab
    exact et_lt_of_lt_of_le (hlt a ha) hab
  show enThenEg N0 _ d.epochs ((finalEvs (inGenerations graph) N0).filter _) = true
  rw [finalEvs_filter_size c hx' hN hd]
  apply enThenEg_sizeEvs hN
  · intro a ha b hb hab
    exact endTime_inj hstrict (List.mem_reverse.2 ha) (List.mem_reverse.2 hb) hab
  · intro e he
    exact (epochOk_of_valid c hx' hdm he).inf
  · intro e he
    exact List.mem_reverse.1 he

end Demes.Proofs.ToMs
