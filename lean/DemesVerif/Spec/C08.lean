/-
  C08 — a graph built from an ms command line describes the same demography.
  Declarative vocabulary (nothing here refers to the control flow of demes/ms.py):

  * `semEquiv A B`: two observables `DemogSem` (Spec/MsSem.lean) describe the same demography:
    the same populations with the same lifetimes; at every cut point (a segment boundary of
    either side inside the lifetime) exactly one segment of each side owns the time, and the
    two give the same size and the same growth rate there; the same migration step function;
    the same lineage-movement matrices.  (The two sides may cut a population's history into
    different segments: ms opens a segment at every option, a graph only where something
    changes.)
  * `SemAgree r₁ r₂`: both interpretations exist and are equivalent.
  * `popNames n`: `deme1 … deme{n}`, the deme that is population `k`.
  * `Tame`: the commands outside the shapes of the known findings F5, F21, F22, F6b.
  * `IgnoredInsert`, `SampleChange`: the two ways command lines may differ without any effect.
-/
import DemesVerif.Spec.MsSem
import DemesVerif.Spec.C15
namespace Demes.Spec.C08
open Demes
open Demes.Ms (Sz)
open Demes.Spec.MsSem

/-! ## equivalence of observables -/

/-- the (rational) growth rate of a segment: explicit on the ms side; on the graph side the one
the two end sizes determine (`size(t) = size · exp(-g·(t - t0))`; the symbolic sizes `c·exp(x)`
of one epoch always share their coefficient) -/
def segRate (s : Seg) : Option Q :=
  match s.growth with
  | some g => some g
  | none =>
    match s.sizeOld with
    | none => none
    | some o =>
      if s.fn = "constant" || o = s.size then some 0
      else if s.fn ≠ "exponential" then none
      else match s.t1 with
        | .inf => none
        | .fin b => if o.coef = s.size.coef ∧ b ≠ s.t0 then some ((s.size.expo - o.expo) / (b - s.t0)) else none

/-- the size at time `t` of the population while segment `s` owns `t` -/
def segValue (s : Seg) (t : Q) : Option Sz :=
  if t = s.t0 then some s.size else (segRate s).map (fun g => s.size.mulExp (-g * (t - s.t0)))

def segOwns (s : Seg) (t : Q) : Bool := decide (s.t0 ≤ t) && decide (ETime.fin t < s.t1)

/-- the cut points of a pair of populations -/
def cuts (a b : PopSem) : List Q :=
  b.lo :: ((a.segs.map (·.t0) ++ b.segs.map (·.t0)).filter (fun t => decide (b.lo ≤ t) && decide (ETime.fin t < b.hi)))

def popEquiv (a b : PopSem) : Bool :=
  a.id = b.id && a.lo = b.lo && a.hi = b.hi &&
  (cuts a b).all (fun t =>
    match a.segs.filter (segOwns · t), b.segs.filter (segOwns · t) with
    | [sa], [sb] =>
      (segValue sa t).isSome && segValue sa t = segValue sb t && (segRate sa).isSome && segRate sa = segRate sb
    | _, _ => false)

def semEquiv (A B : DemogSem) : Bool :=
  A.pops.length = B.pops.length && (A.pops.zip B.pops).all (fun ab => popEquiv ab.1 ab.2)
  && A.migs = B.migs && A.moves = B.moves

/-- both demographies exist and are equivalent -/
def SemAgree (r₁ r₂ : Except String DemogSem) : Bool :=
  match r₁, r₂ with
  | .ok a, .ok b => semEquiv a b
  | _, _ => false

/-- `deme1 … deme{n}`: population `k` is the deme named `deme{k}` -/
def popNames (n : Nat) : List String := (List.range n).map Demes.Ms.demeName

/-- the demography of a `from_ms` result, read with "population k is deme{k}" (populations that
`from_ms` dropped as transient simply have no deme) -/
def resultSem (mg : Demes.Ms.MsGraph) : Except String DemogSem :=
  msGraphSem mg (some (popNames mg.doc.numPops))

/-- the same when `deme_names` were given: population `k` is the deme named `names[k-1]` -/
def resultSemNamed (mg : Demes.Ms.MsGraph) (names : List String) : Except String DemogSem :=
  msGraphSem mg (some names)

/-- the lineage movements only -/
def movesOf (r : Except String DemogSem) : Option (List Move) := r.toOption.map (·.moves)

/-! ## the ms interpreter on a parsed command (`msSem = parse ≫ runState ≫ finishSem`) -/

/-- the interpreter state before the first option -/
def initSt (pr : Parsed) (N0 : Q) : St :=
  let n := pr.npop
  let mat0 : Mat := (List.range n).map (fun i => (List.range n).map (fun j =>
    if i = j then 0 else pr.islandRate / ((n : Q) - 1) / (4 * N0)))
  { pops := List.replicate n { lo := 0, t0 := 0, size0 := Sz.ofQ N0 }, mat := mat0, snaps := [(0, mat0)] }

/-- the options in the order they are applied, grouped by time -/
def cmdGroups (pr : Parsed) : List (List Cmd) :=
  (pr.initial ++ pr.events.foldr insertCmd []).splitBy (fun a b => a.t == b.t)

/-- the interpreter state after the last option -/
def runState (pr : Parsed) (N0 : Q) : Except String St :=
  (cmdGroups pr).foldlM (MsSem.stepGroup N0) (initSt pr N0)

/-- the observable of a final interpreter state -/
def finishSem (s : St) : DemogSem :=
  let pops : List PopSem := (s.pops.zipIdx).filterMap (fun (p, k) =>
    if decide (ETime.fin p.lo < p.hi) then
      let segs := if decide (ETime.fin p.t0 < p.hi) then p.segs ++ [mkSeg p.t0 p.hi p.size0 p.growth] else p.segs
      some { id := k + 1, lo := p.lo, hi := p.hi, segs := segs }
    else none)
  { pops := pops, migs := migSegs s.snaps s.pops.length, moves := s.moves }

/-- `msSem` after parsing -/
def runParsed (pr : Parsed) (N0 : Q) : Except String DemogSem := do
  if N0 ≤ 0 then throw "N0 must be positive"
  let s ← runState pr N0
  pure (finishSem s)

theorem msSem_eq (tokens : List String) (N0 : Q) :
    msSem tokens N0 = (do
      if N0 ≤ 0 then throw "N0 must be positive"
      let pr ← parse tokens
      let s ← runState pr N0
      pure (finishSem s)) := rfl

/-- the ms option that a record of the argparse layer stands for (finite arguments) -/
def cmdOf : Demes.Ms.Event Num → Option Cmd
  | .growthRateChange _ (.fin t) (.fin a) => some (.setGrowthAll t a)
  | .popGrowthRateChange _ (.fin t) i (.fin a) => some (.setGrowth t i.toNat a)
  | .sizeChange _ (.fin t) (.fin x) => some (.setSizeAll t x)
  | .popSizeChange o (.fin t) i (.fin x) => some (.setSize t i.toNat x (decide (o = "-en")))
  | .migRateChange _ (.fin t) (.fin x) => some (.setMigAll t x)
  | .migEntryChange _ (.fin t) i j (.fin m) => some (.setMigEntry t i.toNat j.toNat m)
  | .migMatrixChange o (.fin t) npop mm => some (.setMigMatrix t (if o = "-ma" then none else some npop.toNat) mm)
  | .split _ (.fin t) i (.fin p) => some (.split t i.toNat p)
  | .join _ (.fin t) i j => some (.join t i.toNat j.toNat)
  | _ => none

/-- the parsed arguments of the Model (`parse_known_args`) and the command as the ms interpreter
parses it denote the same options: the same number of populations and island rate, the same
initial-state options and the same events, in order (`cmdOf`); initial-state options have time
0 and event times are non-negative (both parsers check this) -/
structure ArgsAgree (args : Demes.Ms.Args) (pr : Parsed) : Prop where
  npop : (match args.structure_ with | none => 1 | some st => st.npop.toNat) = pr.npop
  npos : 1 ≤ pr.npop
  rate : (match args.structure_ with | none => Num.fin 0 | some st => st.rate) = Num.fin pr.islandRate
  initial : args.initialState.map cmdOf = pr.initial.map some
  events : args.demographicEvents.map cmdOf = pr.events.map some
  initial0 : ∀ c ∈ pr.initial, c.t = 0
  nonneg : ∀ c ∈ pr.events, 0 ≤ c.t

deriving instance DecidableEq for Cmd

/-- `ArgsAgree`, decided -/
def argsAgreeB (args : Demes.Ms.Args) (pr : Parsed) : Bool :=
  decide ((match args.structure_ with | none => 1 | some st => st.npop.toNat) = pr.npop)
  && decide (1 ≤ pr.npop)
  && decide ((match args.structure_ with | none => Num.fin 0 | some st => st.rate) = Num.fin pr.islandRate)
  && decide (args.initialState.map cmdOf = pr.initial.map some)
  && decide (args.demographicEvents.map cmdOf = pr.events.map some)
  && pr.initial.all (fun c => decide (c.t = 0))
  && pr.events.all (fun c => decide (0 ≤ c.t))

theorem argsAgree_of_B {args : Demes.Ms.Args} {pr : Parsed} (h : argsAgreeB args pr = true) : ArgsAgree args pr := by
  simp only [argsAgreeB, Bool.and_eq_true, decide_eq_true_eq, List.all_eq_true] at h
  exact ⟨h.1.1.1.1.1.1, h.1.1.1.1.1.2, h.1.1.1.1.2, h.1.1.1.2, h.1.1.2, h.1.2, h.2⟩

/-- both parsers accept the command and agree on what it says -/
def parsersAgree (tokens : List String) : Bool :=
  match Demes.Ms.parseKnownArgs tokens, parse tokens with
  | .ok args, .ok pr => argsAgreeB args pr
  | _, _ => false

/-! ## size functions (the vocabulary of `build_sizes`) -/

/-- the size inside a closed Builder epoch `[e.endTime, hi)`: exponential interpolation between
`end_size` (at `end_time`) and `start_size` (at `hi`) -/
def interpSize (e : Demes.Ms.BEpoch) (hi t : Q) : Sz :=
  match e.startSize with
  | some z => ⟨e.endSize.coef, e.endSize.expo + (z.expo - e.endSize.expo) * (t - e.endTime) / (hi - e.endTime)⟩
  | none => e.endSize

/-- the size at `t` according to the closed epochs (newest first) below `hi` -/
def olderSizeAt : List Demes.Ms.BEpoch → Q → Q → Option Sz
  | [], _, _ => none
  | e :: r, hi, t => if e.endTime ≤ t then some (interpSize e hi t) else olderSizeAt r e.endTime t

/-- the size of a Builder deme at time `t`: the open head epoch grows at its `growth_rate`
from its `end_size`; `none` before the deme's first epoch -/
def demeSizeAt (d : Demes.Ms.BDeme) (t : Q) : Option Sz :=
  match d.epochs with
  | [] => none
  | e :: r =>
    if e.endTime ≤ t then some (e.endSize.mulExp (-(e.growthRate.getD 0) * (t - e.endTime)))
    else olderSizeAt r e.endTime t

/-- the size at `t` according to the closed segments of an ms population -/
def segsSizeAt : List Seg → Q → Option Sz
  | [], _ => none
  | s :: r, t =>
    if decide (s.t0 ≤ t) && decide (ETime.fin t < s.t1) then some (s.size.mulExp (-(s.growth.getD 0) * (t - s.t0)))
    else segsSizeAt r t

/-- the size of an ms population at time `t`; `none` before it exists -/
def popSizeAt (p : Pop) (t : Q) : Option Sz :=
  if p.t0 ≤ t then some (p.sizeAt t) else segsSizeAt p.segs t

/-! ## the fragment outside the known findings -/

def isSplitC : Cmd → Bool
  | .split .. => true
  | _ => false

def isJoinC : Cmd → Bool
  | .join .. => true
  | _ => false

/-- the `-es` / `-ej` options of one time value, in command-line order -/
def movesAt (pr : Parsed) (t : Q) : List Cmd := pr.events.filter (fun c => isMove c && c.t == t)

/-- the same-time group is a single `-es`, a single `-ej`, or one admixture pair
`-es t i p -ej t a b` (the join written after the split) -/
def tameGroup : List Cmd → Bool
  | [] => true
  | [_] => true
  | [a, b] => isSplitC a && isJoinC b
  | _ => false

/-- a parsed command outside the shapes of F5, F21, F22 (at every time at most one `-es`,
one `-ej`, or one `-es`/`-ej` pair) and of F6b (no `-es` with `p = 0`) -/
def Tame (pr : Parsed) : Bool :=
  pr.events.all (fun c => tameGroup (movesAt pr c.t)) &&
  pr.events.all (fun c => match c with | .split _ _ p => p ≠ 0 | _ => true)

/-- no size / growth option names or covers a population at the very time it is joined (F4:
such a command is accepted or rejected depending on the order of the two options) -/
def NoSizeAtJoin (pr : Parsed) : Bool :=
  pr.events.all (fun c => match c with
    | .join t i _ => pr.events.all (fun d => match d with
        | .setSize t' i' _ _ => !(t' == t && i' == i)
        | .setGrowth t' i' _ => !(t' == t && i' == i)
        | .setSizeAll t' _ => !(t' == t)
        | .setGrowthAll t' _ => !(t' == t)
        | _ => true)
    | _ => true)

/-- the size at `t` of a finished Builder deme (after "resolve/remove growth_rate in oldest
epochs": every epoch has its `start_size`): the oldest epoch runs up to the deme's `start_time`
(constant if that is `∞`) -/
def closedSizeAt (epochs : List Demes.Ms.BEpoch) (start : ETime) (t : Q) : Option Sz :=
  match epochs with
  | [] => none
  | e :: r =>
    if e.endTime ≤ t then
      (match start with
       | .fin st => some (interpSize e st t)
       | .inf => some e.endSize)
    else olderSizeAt r e.endTime t

/-- the segments of a population in the observable of `msSem` (`finishSem`) -/
def finalSegs (p : Pop) : List Seg :=
  if decide (ETime.fin p.t0 < p.hi) then p.segs ++ [mkSeg p.t0 p.hi p.size0 p.growth] else p.segs

/-! ## migration rate functions (the vocabulary of `build_migrations`) -/

/-- Builder: the entry (dest `j`, source `k`), in ms units, of the matrix in force at time `t`;
`mm_list` and `mm_end_times` list the most ancient matrix first -/
def mmRateAt : List Demes.Ms.MM → List Q → Nat → Nat → Q → Option Num
  | m :: ms, e :: es, j, k, t => if e ≤ t then some (Demes.Ms.mmGet m j k) else mmRateAt ms es j k t
  | _, _, _, _, _ => none

/-- interpreter: the entry of the last snapshot taken at or before `t` -/
def snapRateAt (snaps : List (Q × Mat)) (i j : Nat) (t : Q) : Option Q :=
  (snaps.reverse.find? (fun s => decide (s.1 ≤ t))).map (fun s => matGet s.2 i j)

/-- ms units to per-generation rate: `M / (4 N0)` -/
def scaleRate (N0 : Q) (x : Num) : Num := Demes.Ms.numDivQ x (4 * N0)

/-! ## differences between command lines that have no effect -/

/-- argparse takes the string for an argument (`'A'` in `_parse_optional`): it does not start
with `-`, or it looks like a negative number, or it contains a blank -/
def isArgTok (s : String) : Bool := match Demes.Ms.classify s with | .ok Demes.Ms.Cls.arg => true | _ => false

/-- argparse takes the string for an option it does not know (`'O'`, no registered option
matches it, not even as a prefix): `-t`, `-T`, `-r`, `-seeds`, `-p`, `-s`, `-L`, `-c`, … -/
def isUnknownTok (s : String) : Bool := match Demes.Ms.classify s with | .ok Demes.Ms.Cls.unknown => true | _ => false

/-! ## the final deme order -/

/-- `ys` is `xs` stably sorted by descending `key` (a start time, possibly infinite): a
permutation, in descending key order, elements with equal keys in their original order -/
structure StableSortedDescE {α} (key : α → ETime) (xs ys : List α) : Prop where
  perm : ys.Perm xs
  sorted : ys.Pairwise (fun a b => key b ≤ key a)
  stable : ∀ k : ETime, ys.filter (fun a => key a = k) = xs.filter (fun a => key a = k)

end Demes.Spec.C08
